(* Executable mirror of the MPS/MPO arithmetic of pytenet:
     mps.py        add_mps, merge_mps_tensor_pair, MPS.as_vector
     mpo.py        MPO.identity, MPO.as_matrix (dense and sparse path), add_mpo, multiply_mpo, merge_mpo_tensor_pair
     operation.py  apply_operator
   Representation (Model/Tensor.v): an MPS tensor of numpy shape (d, Dl, Dr) is the list of its d matrices A[s];
   an MPO tensor of shape (d, d, Dl, Dr) is the list of lists W[s][t].  The numpy expressions are modelled by
   their meaning as index comprehensions; the python `assert`s are the [*_asserts] predicates and the [*_run]
   functions return [None] exactly where the code raises. *)
From Coq Require Import ZArith List Lia Bool Arith.
From PT Require Import Base.Scalar Base.BigSum Base.Mx Model.Tensor.
Import ListNotations.

(* ---------- helpers that do not depend on the scalars ---------- *)
Fixpoint zipw {A B C} (f : A -> B -> C) (l1 : list A) (l2 : list B) : list C :=
  match l1, l2 with x :: t1, y :: t2 => f x y :: zipw f t1 t2 | _, _ => [] end.

Definition obind {A B} (x : option A) (f : A -> option B) : option B :=
  match x with Some a => f a | None => None end.
Definition obind2 {A B C} (x : option A) (y : option B) (f : A -> B -> option C) : option C :=
  match x, y with Some a, Some b => f a b | _, _ => None end.

(* qnumber_flatten([qa, qb]): outer sum, flattened row-major (index of qa is the major one) *)
Definition qflat (qa qb : list Z) : list Z := flat_map (fun a => map (fun b => (a + b)%Z) qb) qa.

(* bond quantum numbers of a sum: boundary bonds copied from the first operand, inner bonds concatenated *)
Fixpoint add_qD_mid (qa qb : list (list Z)) : list (list Z) :=
  match qa, qb with
  | a :: qa', b :: qb' => match qa' with [] => [a] | _ => (a ++ b) :: add_qD_mid qa' qb' end
  | _, _ => []
  end.
Definition add_qD (qa qb : list (list Z)) : list (list Z) :=
  match qa, qb with a :: qa', _ :: qb' => a :: add_qD_mid qa' qb' | _, _ => [] end.

Section MPSOps.
  Variable R : cring.
  Notation "0" := (k0 R). Notation "1" := (k1 R).
  Infix "+" := (kadd R). Infix "*" := (kmul R).
  Notation mx := (mx R).
  Notation site := (site R). Notation osite := (osite R).
  Notation mps := (mps R). Notation mpo := (mpo R).

  (* tensors given by a comprehension over the physical indices *)
  Definition stab (d : nat) (f : nat -> mx) : site := map f (seq 0 d).
  Definition otab (d : nat) (f : nat -> nat -> mx) : osite := map (fun s => map (fun t => f s t) (seq 0 d)) (seq 0 d).
  (* the same block operation for every physical index (np.block acts on the trailing two axes) *)
  Definition site_zip (f : mx -> mx -> mx) (A B : site) : site := stab (length A) (fun s => f (sel A s) (sel B s)).
  Definition osite_zip (f : mx -> mx -> mx) (W V : osite) : osite :=
    otab (length W) (fun s t => f (osel W s t) (osel V s t)).

  (* ---------- add_mps / add_mpo ---------- *)
  Definition blk_add (alpha : R) (M N : mx) : mx := addmx M (scalemx alpha N).   (* A0 + alpha*A1          (L = 1) *)
  Definition blk_row (alpha : R) (M N : mx) : mx := row_mx M (scalemx alpha N).  (* np.block([A0, alpha*A1])       *)
  (* np.block([[A0, 0], [0, A1]]) = diag_mx;  np.block([[A0], [A1]]) = col_mx *)

  Section AddGen.
    Variable T : Type.
    Variable zip : (mx -> mx -> mx) -> T -> T -> T.
    (* sites 1 .. L-1 of a chain with L >= 2 sites: block diagonal, the last one a block column *)
    Fixpoint add_mid (As Bs : list T) : list T :=
      match As, Bs with
      | A :: As', B :: Bs' => match As' with [] => [zip col_mx A B] | _ => zip diag_mx A B :: add_mid As' Bs' end
      | _, _ => []
      end.
    Definition add_chain (alpha : R) (As Bs : list T) : list T :=
      match As, Bs with
      | A :: As', B :: Bs' =>
          match As' with [] => [zip (blk_add alpha) A B] | _ => zip (blk_row alpha) A B :: add_mid As' Bs' end
      | _, _ => []
      end.
  End AddGen.

  Definition add_mps (alpha : R) (p q : mps) : mps :=
    mkmps (m_qd p) (add_qD (m_qD p) (m_qD q)) (add_chain site site_zip alpha (m_A p) (m_A q)).
  Definition add_mpo (alpha : R) (a b : mpo) : mpo :=
    mkmpo (o_qd a) (add_qD (o_qD a) (o_qD b)) (add_chain osite osite_zip alpha (o_A a) (o_A b)).

  (* the asserts of add_mps: equal length, equal qd, equal boundary charges; the sparsity check of the result
     covers site 0 for L = 1 but only the sites 1 .. L-1 for L > 1 (as written in the code) *)
  Definition add_mps_asserts (alpha : R) (p q : mps) : bool :=
    let r := add_mps alpha p q in
    Nat.eqb (length (m_A p)) (length (m_A q)) && zl_eqb (m_qd p) (m_qd q) &&
    zl_eqb (hd [] (m_qD p)) (hd [] (m_qD q)) && zl_eqb (last (m_qD p) []) (last (m_qD q) []) &&
    match m_A p with
    | [] => false
    | [_] => chain_qsparse (m_qd r) (m_qD r) (m_A r)
    | _ => chain_qsparse (m_qd r) (tl (m_qD r)) (tl (m_A r))
    end.
  Definition add_mpo_asserts (alpha : R) (a b : mpo) : bool :=
    let r := add_mpo alpha a b in
    Nat.eqb (length (o_A a)) (length (o_A b)) && zl_eqb (o_qd a) (o_qd b) &&
    zl_eqb (hd [] (o_qD a)) (hd [] (o_qD b)) && zl_eqb (last (o_qD a) []) (last (o_qD b) []) &&
    match o_A a with
    | [] => false
    | [_] => ochain_qsparse (o_qd r) (o_qD r) (o_A r)
    | _ => ochain_qsparse (o_qd r) (tl (o_qD r)) (tl (o_A r))
    end.
  Definition add_mps_run (alpha : R) (p q : mps) : option mps :=
    if add_mps_asserts alpha p q then Some (add_mps alpha p q) else None.
  Definition add_mpo_run (alpha : R) (a b : mpo) : option mpo :=
    if add_mpo_asserts alpha a b then Some (add_mpo alpha a b) else None.

  (* ---------- multiply_mpo / apply_operator ---------- *)
  (* sum over the contracted physical index u of the Kronecker products X u (x) Y u, the index of X being the
     major one:  tensordot(...).transpose(...).reshape(...)  puts the bond of the first operand first *)
  Definition skron (d : nat) (X Y : nat -> mx) : mx :=
    let mY := nr (Y 0%nat) in let nY := nc (Y 0%nat) in
    tab (nr (X 0%nat) * mY) (nc (X 0%nat) * nY) (fun i j =>
      sumn d (fun u => get (X u) (i / mY) (j / nY) * get (Y u) (i mod mY) (j mod nY))).

  Definition mul_osite (A B : osite) : osite :=
    otab (length A) (fun s t => skron (length A) (fun u => osel A s u) (fun u => osel B u t)).
  Definition multiply_mpo (a b : mpo) : mpo :=
    mkmpo (o_qd a) (zipw qflat (o_qD a) (o_qD b)) (zipw mul_osite (o_A a) (o_A b)).
  Definition multiply_mpo_asserts (a b : mpo) : bool :=
    let r := multiply_mpo a b in
    Nat.eqb (length (o_A a)) (length (o_A b)) && zl_eqb (o_qd a) (o_qd b) &&
    ochain_qsparse (o_qd r) (o_qD r) (o_A r).
  Definition multiply_mpo_run (a b : mpo) : option mpo :=
    if multiply_mpo_asserts a b then Some (multiply_mpo a b) else None.

  Definition apply_site (W : osite) (A : site) : site :=
    stab (length W) (fun s => skron (length W) (fun t => osel W s t) (fun t => sel A t)).
  Definition apply_operator (o : mpo) (p : mps) : mps :=
    mkmps (m_qd p) (zipw qflat (o_qD o) (m_qD p)) (zipw apply_site (o_A o) (m_A p)).
  (* asserts: equal qd, equal length; the MPS constructor requires boundary bond dimension 1; sparsity of every site *)
  Definition apply_operator_asserts (o : mpo) (p : mps) : bool :=
    let r := apply_operator o p in
    zl_eqb (m_qd p) (o_qd o) && Nat.eqb (length (m_A p)) (length (o_A o)) &&
    Nat.eqb (length (hd [] (m_qD r))) 1 && Nat.eqb (length (last (m_qD r) [])) 1 &&
    chain_qsparse (m_qd r) (m_qD r) (m_A r).
  Definition apply_operator_run (o : mpo) (p : mps) : option mps :=
    if apply_operator_asserts o p then Some (apply_operator o p) else None.

  (* ---------- MPO.identity: `scale` multiplies the identity on every site ---------- *)
  Definition id_osite (d : nat) (scale : R) : osite :=
    otab d (fun s t => tab 1 1 (fun _ _ => scale * (if Nat.eqb s t then 1 else 0))).
  Definition mpo_identity (qd : list Z) (L : nat) (scale : R) : mpo :=
    mkmpo qd (repeat [0%Z] (S L)) (repeat (id_osite (length qd) scale) L).

  (* ---------- merging neighbouring tensors; dense forms ---------- *)
  (* einsum + reshape: A[s0*d1 + s1] = A0[s0] . A1[s1] *)
  Definition merge_mps_tensor_pair (A0 A1 : site) : site :=
    flat_map (fun M0 => map (fun M1 => mulmx M0 M1) A1) A0.
  (* A[s0*d1 + s1][t0*d1 + t1] = A0[s0][t0] . A1[s1][t1] *)
  Definition merge_mpo_tensor_pair (A0 A1 : osite) : osite :=
    flat_map (fun r0 => map (fun r1 => flat_map (fun M0 => map (fun M1 => mulmx M0 M1) r1) r0) A1) A0.

  Definition is1x1 (M : mx) : bool := Nat.eqb (nr M) 1 && Nat.eqb (nc M) 1.

  (* MPS.as_vector: merge from the left, assert bond dimensions 1, flatten *)
  Definition as_vector (As : list site) : option (list R) :=
    match As with
    | [] => None
    | A :: As' =>
        let psi := fold_left merge_mps_tensor_pair As' A in
        if forallb is1x1 psi then Some (map (fun M => get M 0%nat 0%nat) psi) else None
    end.

  (* MPO.as_matrix(sparse_format=False) *)
  Definition as_matrix (Ws : list osite) : option mx :=
    match Ws with
    | [] => None
    | W :: Ws' =>
        let op := fold_left merge_mpo_tensor_pair Ws' W in
        if forallb (forallb is1x1) op
        then Some (mkmx (length op) (length (hd [] op)) (map (map (fun M => get M 0%nat 0%nat)) op))
        else None
    end.

  (* MPO.as_matrix(sparse_format=True): the reshape / hstack index gymnastics, literally *)
  (* row-major reshape of a matrix to m x n *)
  Definition reshape (m n : nat) (M : mx) : mx :=
    tab m n (fun i j => let k := (i * n + j)%nat in get M (k / nc M) (k mod nc M)).
  (* hstack of matrices of equal shape *)
  Definition hstack (Ms : list mx) : mx :=
    let c := nc (hd (zeromx 0 0) Ms) in
    tab (nr (hd (zeromx 0 0) Ms)) (length Ms * c) (fun i j => get (nth (j / c) Ms (zeromx 0 0)) i (j mod c)).
  (* T[j].transpose((1, 0, 2)).reshape(T.shape[2], -1):  Dl x (d*Dr), column index  t*Dr + b *)
  Definition tphys (T : osite) (j : nat) : mx :=
    let M0 := osel T j 0 in
    tab (nr M0) (length T * nc M0) (fun a c => get (osel T j (c / nc M0)) a (c mod nc M0)).
  Definition sparse_step (d : nat) (st : nat * mx) (T : osite) : nat * mx :=
    let '(n, op) := st in
    let lst := map (fun j => let P := mulmx op (tphys T j) in reshape n ((nr P * nc P) / n) P) (seq 0 d) in
    let H := hstack lst in
    let n' := (n * d)%nat in
    (n', reshape (n' * n') ((nr H * nc H) / (n' * n')) H).
  Definition as_matrix_sparse (d : nat) (Ws : list osite) : option mx :=
    match Ws with
    | [] => None
    | W :: Ws' =>
        let M0 := osel W 0 0 in
        if negb (Nat.eqb (nr M0) 1) then None else
        (* op.reshape((-1, op.shape[3])) *)
        let op0 := tab (d * d) (nc M0) (fun r b => get (osel W (r / d) (r mod d)) 0%nat b) in
        let '(n, op) := fold_left (sparse_step d) Ws' (d, op0) in
        if Nat.eqb (nc op) 1 then Some (reshape n n op) else None
    end.

  (* ---------- split_mps_tensor (mps.py): the block SVD split is an oracle ---------- *)
  (* A.reshape((d0, d1, D0, D2)).transpose((0, 2, 1, 3)).reshape((d0*D0, d1*D2)):
     entry (s0*D0 + a, s1*D2 + c) is A[s0*d1 + s1][a, c] *)
  Definition split_matrix (d0 d1 : nat) (A : site) : mx :=
    let D0 := nr (sel A 0) in let D2 := nc (sel A 0) in
    tab (d0 * D0) (d1 * D2) (fun i j => get (sel A ((i / D0) * d1 + j / D2)) (i mod D0) (j mod D2)).
  (* svd M q0 q1 = (U, sigma, V, qbond) stands for split_matrix_svd(M, q0, q1, tol); ksqrt for numpy.sqrt on the
     singular values; distr: 0 = 'left', 1 = 'right', 2 = 'sqrt' *)
  Definition split_mps_tensor (svd : mx -> list Z -> list Z -> mx * list R * mx * list Z) (ksqrt : R -> R)
      (A : site) (qd0 qd1 qD0 qD2 : list Z) (distr : nat) : site * site * list Z :=
    let d0 := length qd0 in let d1 := length qd1 in
    let D0 := nr (sel A 0) in let D2 := nc (sel A 0) in
    let q0 := qflat qd0 qD0 in let q1 := qflat (map Z.opp qd1) qD2 in
    let '(U, sigma, V, qbond) := svd (split_matrix d0 d1 A) q0 q1 in
    let k := length sigma in
    let sg i := nth i sigma 0 in
    let sl i := match distr with O => sg i | S O => 1 | _ => ksqrt (sg i) end in
    let sr i := match distr with O => 1 | S O => sg i | _ => ksqrt (sg i) end in
    (stab d0 (fun s0 => tab D0 k (fun a i => get U (s0 * D0 + a) i * sl i)),
     stab d1 (fun s1 => tab k D2 (fun i c => sr i * get V i (s1 * D2 + c))),
     qbond).

  (* ---------- option-lifted operations (expression trees of the correspondence check) ---------- *)
  Definition o_add_mps alpha (x y : option mps) := obind2 x y (add_mps_run alpha).
  Definition o_add_mpo alpha (x y : option mpo) := obind2 x y (add_mpo_run alpha).
  Definition o_mul_mpo (x y : option mpo) := obind2 x y multiply_mpo_run.
  Definition o_apply (x : option mpo) (y : option mps) := obind2 x y apply_operator_run.

  (* ---------- comparison with the implementation's results ---------- *)
  Definition vec_eqb (u v : list R) : bool := list_eqb (keqb R) u v.
  Definition omx_eqb (x : option mx) (e : mx) : bool := match x with Some m => mxeqb m e | None => false end.

  (* result MPS equal (qd, every qD, every tensor incl. shapes); as_vector equal when recorded *)
  Definition check_mps (r : option mps) (e : mps) (vec : option (list R)) : bool :=
    match r with
    | None => false
    | Some m => mps_eqb m e &&
        match vec with
        | None => true
        | Some v => match as_vector (m_A m) with Some v' => vec_eqb v' v | None => false end
        end
    end.
  (* result MPO equal; as_matrix dense and sparse equal when recorded *)
  Definition check_mpo (r : option mpo) (e : mpo) (mat smat : option mx) : bool :=
    match r with
    | None => false
    | Some m => mpo_eqb m e &&
        match mat with None => true | Some M => omx_eqb (as_matrix (o_A m)) M end &&
        match smat with None => true | Some M => omx_eqb (as_matrix_sparse (length (o_qd m)) (o_A m)) M end
    end.
  (* the implementation raised: the model must refuse as well *)
  Definition check_err {A} (r : option A) : bool := match r with None => true | Some _ => false end.
  (* as_vector / as_matrix raised (boundary bond dimension > 1) *)
  Definition check_dense_err (r : option mpo) : bool :=
    match r with Some m => check_err (as_matrix (o_A m)) | None => false end.

  Definition check_merge_mps (A0 A1 e : site) : bool := site_eqb (merge_mps_tensor_pair A0 A1) e.
  Definition check_merge_mpo (A0 A1 e : osite) : bool := osite_eqb (merge_mpo_tensor_pair A0 A1) e.
End MPSOps.

Arguments stab {R} d f. Arguments otab {R} d f.
Arguments site_zip {R} f A B. Arguments osite_zip {R} f W V.
Arguments blk_add {R} alpha M N. Arguments blk_row {R} alpha M N.
Arguments add_mid {R T} zip As Bs. Arguments add_chain {R T} zip alpha As Bs.
Arguments add_mps {R} alpha p q. Arguments add_mpo {R} alpha a b.
Arguments add_mps_asserts {R} alpha p q. Arguments add_mpo_asserts {R} alpha a b.
Arguments add_mps_run {R} alpha p q. Arguments add_mpo_run {R} alpha a b.
Arguments skron {R} d X Y. Arguments mul_osite {R} A B. Arguments apply_site {R} W A.
Arguments multiply_mpo {R} a b. Arguments multiply_mpo_asserts {R} a b. Arguments multiply_mpo_run {R} a b.
Arguments apply_operator {R} o p. Arguments apply_operator_asserts {R} o p. Arguments apply_operator_run {R} o p.
Arguments id_osite {R} d scale. Arguments mpo_identity {R} qd L scale.
Arguments merge_mps_tensor_pair {R} A0 A1. Arguments merge_mpo_tensor_pair {R} A0 A1.
Arguments is1x1 {R} M. Arguments as_vector {R} As. Arguments as_matrix {R} Ws.
Arguments reshape {R} m n M. Arguments hstack {R} Ms. Arguments tphys {R} T j.
Arguments sparse_step {R} d st T. Arguments as_matrix_sparse {R} d Ws.
Arguments split_matrix {R} d0 d1 A. Arguments split_mps_tensor {R} svd ksqrt A qd0 qd1 qD0 qD2 distr.
Arguments o_add_mps {R} alpha x y. Arguments o_add_mpo {R} alpha x y.
Arguments o_mul_mpo {R} x y. Arguments o_apply {R} x y.
Arguments vec_eqb {R} u v. Arguments omx_eqb {R} x e.
Arguments check_mps {R} r e vec. Arguments check_mpo {R} r e mat smat.
Arguments check_err {A} r. Arguments check_dense_err {R} r.
Arguments check_merge_mps {R} A0 A1 e. Arguments check_merge_mpo {R} A0 A1 e.
