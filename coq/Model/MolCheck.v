(* C07 (c): executable translation validation of operator graphs built by the IMPLEMENTATION (the explicit
   constructions of hamiltonian.py are not modelled).  [walks g n nid] enumerates every walk of n edges from nid that ends
   in the end terminal, as (word of operator ids, product of coefficients) — one entry per choice of an (oid, coeff) pair
   on every edge; [poly_eqb] compares two such lists as polynomials in the words.  Soundness (for every graph whatsoever):
   Proofs/MolWalks.v. *)
From Coq Require Import ZArith List Lia Bool.
From PT Require Import Base.Scalar Base.BigSum Base.Mx Model.OpGraph Model.Tensor Model.FromOpchains Model.GraphMPO
                       Model.Molecular Proofs.DenRev_C05.
Import ListNotations.
Open Scope Z_scope.

Section MolCheck.
  Variable R : cring.
  Notation "0r" := (k0 R). Notation "1r" := (k1 R).
  Notation graph := (graph R).
  Notation chain := (chain R).

  Definition poly : Type := list (list Z * R).

  Fixpoint walks (g : graph) (n : nat) (nid : Z) : poly :=
    match n with
    | O => if nid =? g_t1 g then [([], 1r)] else []
    | S m => flat_map (fun e => flat_map (fun p =>
               map (fun wc => (fst p :: fst wc, kmul R (snd p) (snd wc))) (walks g m (e_to e))) (e_opics e))
               (out_edges g nid)
    end.

  (* coefficient of the word w *)
  Definition pcoef (P : poly) (w : list Z) : R := suml P (fun wc => if zlist_eqb (fst wc) w then snd wc else 0r).
  (* same polynomial: the coefficients agree on every word occurring in either list (all other words have coefficient 0) *)
  Definition poly_eqb (P Q : poly) : bool :=
    forallb (fun wc => keqb R (pcoef P (fst wc)) (pcoef Q (fst wc))) (P ++ Q).
  Definition chain_poly (L : nat) (idn : Z) (chains : list chain) : poly :=
    map (fun c => (padded_oids L idn c, c_coeff c)) chains.

  (* last layer of MPO.from_opgraph's layer discovery is the end terminal (hypothesis of C05_from_opgraph_opamp) *)
  Definition layers_end (g : graph) : bool :=
    match graph_layers g with
    | Ok ls => match last ls [] with [x] => x =? g_t1 g | _ => false end
    | Err _ => false
    end.
  Definition consistent (fuel : nat) (g : graph) : bool :=
    match is_consistent_fuel fuel g with Some true => true | _ => false end.

  (* the implementation's graph g (any construction) against a chain list *)
  Definition check_graph_chains (g : graph) (L : nat) (idn : Z) (chains : list chain) (fuel : nat) : bool :=
    linked g && layers_end g && consistent fuel g &&
    match glength g with Some n => Nat.eqb n L | None => false end &&
    poly_eqb (walks g L (g_t0 g)) (chain_poly L idn chains).

  (* the model of from_opchains on the enumerated list returns a well-linked consistent graph (hypotheses of (a)),
     identical to the graph the implementation built on its optimized path *)
  Definition check_opt_graph (cover : cover_t) (chains : list chain) (L : nat) (idn : Z) (fuel : nat) (impl_graph : graph) : bool :=
    match from_opchains cover chains L idn with
    | Ok g => graph_eqb g impl_graph && linked g && layers_end g && consistent fuel g
    | Err _ => false
    end.
End MolCheck.

Arguments walks {R} _ _ _. Arguments pcoef {R} _ _. Arguments poly_eqb {R} _ _. Arguments chain_poly {R} _ _ _.
Arguments layers_end {R} _. Arguments consistent {R} _ _.
Arguments check_graph_chains {R} _ _ _ _ _. Arguments check_opt_graph {R} _ _ _ _ _ _.
