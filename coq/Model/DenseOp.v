(* Dense meanings (property C17): executable mirrors of OpChain.as_matrix (pytenet/opchain.py),
   OpTree.as_matrix / _subtree_as_matrix (pytenet/optree.py) and OpGraph.as_matrix /
   _subgraph_as_matrix (pytenet/opgraph.py); Kronecker products of words of operator ids. *)
From Coq Require Import ZArith List Lia Bool.
From PT Require Import Base.Scalar Base.BigSum Base.Mx Model.OpGraph Model.C17Common Model.OpTree.
Import ListNotations.
Open Scope Z_scope.

Section DenseOp.
  Variable R : cring.
  Notation "0r" := (k0 R). Notation "1r" := (k1 R).
  Notation graph := (graph R).
  Notation mx := (mx R).
  Variable opmap : Z -> mx.

  (* op_1 (x) op_2 (x) ... (x) op_n (x) [1] *)
  Definition kron_word (w : list Z) : mx := fold_right (fun o acc => kronmx (opmap o) acc) (idmx 1) w.

  (* all words of length n over the alphabet ops *)
  Fixpoint words (ops : list Z) (n : nat) : list (list Z) :=
    match n with
    | O => [[]]
    | S m => flat_map (fun o => map (cons o) (words ops m)) ops
    end.

  (* OpChain.as_matrix: op = coeff * identity(1); for oid: op = kron(op, opmap[oid]) *)
  Definition chain_as_matrix (oids : list Z) (coeff : R) : mx :=
    fold_left (fun op o => kronmx op (opmap o)) oids (scalemx coeff (idmx 1)).

  (* _subtree_as_matrix *)
  Definition pad_pair (op_sum op : mx) : res (mx * mx) :=
    if Nat.ltb (nr op_sum) (nr op) then
      if Nat.eqb (Nat.modulo (nr op) (nr op_sum)) 0 then Ok (kronmx op_sum (idmx (Nat.div (nr op) (nr op_sum))), op)
      else Err EAssert
    else if Nat.ltb (nr op) (nr op_sum) then
      if Nat.eqb (Nat.modulo (nr op_sum) (nr op)) 0 then Ok (op_sum, kronmx op (idmx (Nat.div (nr op_sum) (nr op))))
      else Err EAssert
    else Ok (op_sum, op).
  Fixpoint subtree_as_matrix (t : tree R) : res mx :=
    match t with
    | TNode _ ch =>
        (fix go (ch : list (Z * R * tree R)) (op_sum : mx) : res mx :=
           match ch with
           | [] => Ok op_sum
           | (oid, c, s) :: rest =>
               bind (match s with TNode _ [] => Ok (idmx 1) | _ => subtree_as_matrix s end) (fun op_subtree =>
               let op := kronmx (scalemx c (opmap oid)) op_subtree in
               bind (pad_pair op_sum op) (fun p => go rest (addmx (fst p) (snd p))))
           end) ch (zeromx 1 1)
    end.
  Definition tree_as_matrix (t : optree R) : res mx := subtree_as_matrix (ot_root t).

  (* _subgraph_as_matrix: op_loc = sum(c * opmap[i] for i, c in opics)  (an empty list is outside the model) *)
  Definition op_local (opics : list (Z * R)) : res mx :=
    match opics with
    | [] => Err EAssert
    | (i, c) :: t => Ok (fold_left (fun acc p => addmx acc (scalemx (snd p) (opmap (fst p)))) t (scalemx c (opmap i)))
    end.
  Fixpoint subgraph_as_matrix (fuel : nat) (g : graph) (dir : nat) (nid : Z) : res mx :=
    match fuel with
    | O => Err EFuel
    | S f =>
        if nid =? terminal g dir then Ok (idmx 1) else
        match find_node g nid with
        | None => Err EKey
        | Some n =>
            match node_eids n dir with
            | [] => Err EAssert
            | eids =>
                bind (fold_left (fun acc eid =>
                        bind acc (fun op_sum =>
                          match find_edge g eid with
                          | None => Err EKey
                          | Some e =>
                              bind (subgraph_as_matrix f g dir (edge_nid e dir)) (fun op_sub =>
                              bind (op_local (e_opics e)) (fun op_loc =>
                                let op := match dir with O => kronmx op_sub op_loc | _ => kronmx op_loc op_sub end in
                                Ok (match op_sum with None => Some op | Some s => Some (addmx s op) end)))
                          end)) eids (Ok None))
                     (fun r => match r with Some m => Ok m | None => Err EAssert end)
            end
        end
    end.
  Definition graph_as_matrix (g : graph) (dir : nat) : res mx :=
    subgraph_as_matrix (S (length (g_nodes g))) g dir (terminal g (1 - dir)).

  (* sum over words of  coefficient(word) * kron_word word  (entry (i, j)) *)
  Definition word_sum_entry (ops : list Z) (n : nat) (coef : list Z -> R) (i j : nat) : R :=
    suml (words ops n) (fun w => kmul R (coef w) (get (kron_word w) i j)).

  (* the same sum as a matrix (each Kronecker product is formed once) *)
  Definition word_sum_mx (ops : list Z) (n : nat) (coef : list Z -> R) (m : nat) : mx :=
    fold_left (fun acc w => addmx acc (scalemx (coef w) (kron_word w))) (words ops n) (zeromx m m).

  Definition res_mx_eqb (a : res mx) (b : res mx) : bool :=
    match a, b with
    | Ok m, Ok m' => wfb m' && mxeqb m m'
    | Err e, Err f => err_eqb e f
    | _, _ => false
    end.
End DenseOp.

Arguments kron_word {R} _ _. Arguments words _ _ : assert.
Arguments chain_as_matrix {R} _ _ _. Arguments subtree_as_matrix {R} _ _. Arguments tree_as_matrix {R} _ _.
Arguments op_local {R} _ _. Arguments subgraph_as_matrix {R} _ _ _ _ _. Arguments graph_as_matrix {R} _ _ _.
Arguments word_sum_entry {R} _ _ _ _ _ _. Arguments word_sum_mx {R} _ _ _ _ _. Arguments res_mx_eqb {R} _ _. Arguments pad_pair {R} _ _.

(* operator maps from association tables (python dict) *)
Definition opmap_of {R : cring} (t : list (Z * mx R)) : Z -> mx R :=
  fun o => match find (fun p => fst p =? o) t with Some p => snd p | None => zeromx 0 0 end.
