(* Executable mirror of the operator-graph rewrites of pytenet/opgraph.py:
   OpGraph.merge_edges, _simplify_step, simplify, flip, rename_node_id, rename_edge_id, add,
   on top of Model/OpGraph.v (dictionaries = association lists in insertion order).

   Error convention: a Python exception (ValueError on a bad rename, AssertionError of merge_edges,
   KeyError on a missing id) and fuel exhaustion are both [None]; the theorems of Proofs/Rewrites*.v
   are stated "if the model returns Some ...", and separately that fuel is not exhausted.
   The model is the code as written for graphs that satisfy the dictionary invariants
   (unique keys, key = id); lookups that could only fail on a corrupted dictionary are not given
   separate error paths beyond [None] where a lookup result is needed.
   Not modelled: merge_edges with eid1 = eid2 (aliasing of the popped edge with itself) -> [None]. *)
From Coq Require Import ZArith List Lia Bool.
From PT Require Import Base.Scalar Base.BigSum Model.OpGraph.
Import ListNotations.
Open Scope Z_scope.

Section Rewrites.
  Variable R : cring.
  Notation graph := (graph R).
  Notation gedge := (gedge R).

  (* ---- small setters ---- *)
  Definition edge_set_nid (dir : nat) (nid : Z) (e : gedge) : gedge :=
    match dir with
    | O => mkedge (e_id e) nid (e_to e) (e_opics e)
    | _ => mkedge (e_id e) (e_from e) nid (e_opics e)
    end.
  Definition edge_set_id (eid : Z) (e : gedge) : gedge := mkedge eid (e_from e) (e_to e) (e_opics e).
  Definition edge_set_opics (o : list (Z * R)) (e : gedge) : gedge := mkedge (e_id e) (e_from e) (e_to e) o.
  Definition node_set_eids (dir : nat) (l : list Z) (n : gnode) : gnode :=
    match dir with
    | O => mknode (n_id n) l (n_out n) (n_q n)
    | _ => mknode (n_id n) (n_in n) l (n_q n)
    end.
  Definition node_append_eids (dir : nat) (l : list Z) (n : gnode) : gnode :=
    node_set_eids dir (node_eids n dir ++ l) n.
  Definition node_set_id (nid : Z) (n : gnode) : gnode := mknode nid (n_in n) (n_out n) (n_q n).
  Definition nonempty (l : list Z) : bool := match l with [] => false | _ => true end.

  (* ---- OpGraph.merge_edges(eid1, eid2, direction) ---- *)
  Definition merge_edges (g : graph) (eid1 eid2 : Z) (dir : nat) : option graph :=
    if negb (Nat.leb dir 1) then None else                                   (* ValueError *)
    if eid1 =? eid2 then None else                                           (* not modelled *)
    match find_edge g eid1, find_edge g eid2 with                            (* KeyError *)
    | Some e1, Some e2 =>
        let base := edge_nid e2 dir in
        if negb (edge_nid e1 dir =? base) then None else                     (* assert: same base node *)
        let g1 := remove_edge g eid2 in                                      (* self.edges.pop(eid2) *)
        match find_node g1 base with
        | None => None
        | Some nb =>
            if negb (zmem eid2 (node_eids nb (1 - dir))) then None else      (* list.remove: ValueError *)
            let g2 := upd_node g1 base (node_remove_eid eid2 (1 - dir)) in
            let up1 := edge_nid e1 (1 - dir) in
            let up2 := edge_nid e2 (1 - dir) in
            if up1 =? up2 then
              (* same upstream node: edge1.add(edge2), then drop the reference to edge2 *)
              let g3 := upd_edge g2 eid1 (fun e => edge_set_opics (opics_add (e_opics e) (e_opics e2)) e) in
              match find_node g3 up2 with
              | None => None
              | Some nu =>
                  if negb (zmem eid2 (node_eids nu dir)) then None else
                  Some (upd_node g3 up2 (node_remove_eid eid2 dir))
              end
            else
              if negb (opics_eqb (e_opics e1) (e_opics e2)) then None else   (* assert: same operators *)
              match find_node g2 up1, find_node g2 up2 with
              | Some n1, Some n2 =>
                  if negb (Nat.eqb (length (node_eids n1 dir)) 1) then None else
                  if negb (Nat.eqb (length (node_eids n2 dir)) 1) then None else
                  if negb (n_q n1 =? n_q n2) then None else
                  let g3 := remove_node g2 up2 in                            (* self.nodes.pop *)
                  (* former edges from node2 now point to node1 *)
                  let g4 := fold_left (fun gg eid => upd_edge gg eid (edge_set_nid dir (n_id n1)))
                                      (node_eids n2 (1 - dir)) g3 in
                  (* node1.eids[1-direction] += node2.eids[1-direction] *)
                  Some (upd_node g4 up1 (node_append_eids (1 - dir) (node_eids n2 (1 - dir))))
              | _, _ => None
              end
        end
    | _, _ => None
    end.

  (* ---- OpGraph._simplify_step(direction) ---- *)
  (* itertools.combinations(eids, 2) *)
  Fixpoint pairs (l : list Z) : list (Z * Z) :=
    match l with [] => [] | x :: t => map (pair x) t ++ pairs t end.
  (* the guards of the inner loop *)
  Definition mergeable (g : graph) (dir : nat) (p : Z * Z) : bool :=
    match find_edge g (fst p), find_edge g (snd p) with
    | Some e1, Some e2 =>
        if edge_nid e1 (1 - dir) =? edge_nid e2 (1 - dir) then true
        else if negb (opics_eqb (e_opics e1) (e_opics e2)) then false
        else match find_node g (edge_nid e1 (1 - dir)), find_node g (edge_nid e2 (1 - dir)) with
             | Some n1, Some n2 =>
                 Nat.eqb (length (node_eids n1 dir)) 1 && Nat.eqb (length (node_eids n2 dir)) 1 &&
                 (n_q n1 =? n_q n2)
             | _, _ => false
             end
    | _, _ => false
    end.
  Definition layer_pairs (g : graph) (dir : nat) (nids0 : list Z) : list (Z * Z) :=
    flat_map (fun nid => match find_node g nid with
                         | Some n => pairs (node_eids n (1 - dir))
                         | None => []
                         end) nids0.
  Definition layer_pair (g : graph) (dir : nat) (nids0 : list Z) : option (Z * Z) :=
    find (mergeable g dir) (layer_pairs g dir nids0).
  (* node ids of the next bond, first occurrences *)
  Definition dedup (l : list Z) : list Z :=
    fold_left (fun acc x => if zmem x acc then acc else acc ++ [x]) l [].
  Definition next_layer (g : graph) (dir : nat) (nids0 : list Z) : list Z :=
    dedup (flat_map (fun nid => match find_node g nid with
                                | Some n => map (fun e => edge_nid e (1 - dir)) (edges_of g (node_eids n (1 - dir)))
                                | None => []
                                end) nids0).
  (* result: (merged?, graph); fuel bounds the number of layers visited *)
  Fixpoint simplify_step_fuel (fuel : nat) (g : graph) (dir : nat) (nids0 : list Z) : option (bool * graph) :=
    match fuel with
    | O => None
    | S f =>
        match layer_pair g dir nids0 with
        | Some (a, b) =>
            match merge_edges g a b dir with
            | Some g' => Some (true, g')
            | None => None
            end
        | None =>
            match next_layer g dir nids0 with
            | [] => Some (false, g)
            | nids1 => simplify_step_fuel f g dir nids1
            end
        end
    end.
  Definition simplify_step (g : graph) (dir : nat) : option (bool * graph) :=
    simplify_step_fuel (S (length (g_nodes g))) g dir [terminal g dir].

  (* ---- OpGraph.simplify ---- *)
  (* while self._simplify_step(direction): changed = True *)
  Fixpoint steps_dir (fuel : nat) (g : graph) (dir : nat) : option (bool * graph) :=
    match fuel with
    | O => None
    | S f =>
        match simplify_step g dir with
        | None => None
        | Some (false, _) => Some (false, g)
        | Some (true, g') =>
            match steps_dir f g' dir with
            | Some (_, g'') => Some (true, g'')
            | None => None
            end
        end
    end.
  Fixpoint simplify_fuel (fuel : nat) (g : graph) : option graph :=
    match fuel with
    | O => None
    | S f =>
        match steps_dir (S (length (g_edges g))) g 0 with
        | None => None
        | Some (c0, g0) =>
            match steps_dir (S (length (g_edges g0))) g0 1 with
            | None => None
            | Some (c1, g1) => if c0 || c1 then simplify_fuel f g1 else Some g1
            end
        end
    end.
  Definition simplify (g : graph) : option graph := simplify_fuel (S (length (g_edges g))) g.

  (* ---- OpGraph.flip ---- *)
  Definition flip_node (n : gnode) : gnode := mknode (n_id n) (n_out n) (n_in n) (n_q n).
  Definition flip_edge (e : gedge) : gedge := mkedge (e_id e) (e_to e) (e_from e) (e_opics e).
  Definition flip (g : graph) : graph :=
    mkgraph (map flip_node (g_nodes g)) (map flip_edge (g_edges g)) (g_t1 g) (g_t0 g).

  (* ---- OpGraph.rename_node_id ---- *)
  Definition rename_node_id (g : graph) (cur new : Z) : option graph :=
    match find_node g cur with
    | None => None                                                            (* ValueError *)
    | Some node =>
        if has_node g new then None else                                      (* ValueError *)
        let g1 := remove_node g cur in
        (* direction 0: incoming edges get nids[1] = new; direction 1: outgoing edges get nids[0] = new *)
        let g2 := fold_left (fun gg eid => upd_edge gg eid (edge_set_nid 1 new)) (n_in node) g1 in
        let g3 := fold_left (fun gg eid => upd_edge gg eid (edge_set_nid 0 new)) (n_out node) g2 in
        Some (mkgraph (g_nodes g3 ++ [node_set_id new node]) (g_edges g3)
                      (if g_t0 g =? cur then new else g_t0 g) (if g_t1 g =? cur then new else g_t1 g))
    end.

  (* ---- OpGraph.rename_edge_id ---- *)
  (* OpGraphNode.rename_edge_id = remove, then add_edge_id (assert not present; append) *)
  Definition node_rename_eid (cur new : Z) (dir : nat) (n : gnode) : gnode :=
    node_add_eid new dir (node_remove_eid cur dir n).
  Definition rename_edge_id (g : graph) (cur new : Z) : option graph :=
    match find_edge g cur with
    | None => None                                                            (* ValueError *)
    | Some edge =>
        if has_edge_id g new then None else                                   (* ValueError *)
        let g1 := remove_edge g cur in
        match find_node g1 (e_from edge) with
        | None => None
        | Some nf =>
            if negb (zmem cur (n_out nf)) || zmem new (remove_first cur (n_out nf)) then None else
            let g2 := upd_node g1 (e_from edge) (node_rename_eid cur new 1) in
            match find_node g2 (e_to edge) with
            | None => None
            | Some nt =>
                if negb (zmem cur (n_in nt)) || zmem new (remove_first cur (n_in nt)) then None else
                let g3 := upd_node g2 (e_to edge) (node_rename_eid cur new 0) in
                Some (mkgraph (g_nodes g3) (g_edges g3 ++ [edge_set_id new edge]) (g_t0 g3) (g_t1 g3))
            end
        end
    end.

  (* ---- OpGraph.add ---- *)
  Fixpoint rename_nodes_seq (h : graph) (l : list Z) (next : Z) : option graph :=
    match l with
    | [] => Some h
    | x :: t => match rename_node_id h x next with
                | Some h' => rename_nodes_seq h' t (next + 1)
                | None => None
                end
    end.
  Fixpoint rename_edges_seq (h : graph) (l : list Z) (next : Z) : option graph :=
    match l with
    | [] => Some h
    | x :: t => match rename_edge_id h x next with
                | Some h' => rename_edges_seq h' t (next + 1)
                | None => None
                end
    end.
  (* "l enumerates the intersection of a and b" (the only thing Python guarantees about
     the iteration order of  a.keys() & b.keys()) *)
  Definition is_enum_inter (l a b : list Z) : bool :=
    nodupz l && forallb (fun x => zmem x a && zmem x b) l &&
    forallb (fun x => negb (zmem x b) || zmem x l) a.
  (* everything of add before the final simplify; [sn], [se]: recorded iteration orders of the
     shared node ids / shared edge ids *)
  Definition add_nosimp (g h : graph) (sn se : list Z) : option graph :=
    let nids_g := map n_id (g_nodes g) in
    let nids_h := map n_id (g_nodes h) in
    let eids_g := map e_id (g_edges g) in
    let eids_h := map e_id (g_edges h) in
    let next_nid := Z.max (zmax nids_g 0) (zmax nids_h 0) + 1 in
    let next_eid := Z.max (zmax eids_g 0) (zmax eids_h 0) + 1 in
    match rename_nodes_seq h sn next_nid with
    | None => None
    | Some h1 =>
    match rename_edges_seq h1 se next_eid with
    | None => None
    | Some h2 =>
    match rename_node_id h2 (g_t0 h2) (g_t0 g) with
    | None => None
    | Some h3 =>
    match rename_node_id h3 (g_t1 h3) (g_t1 g) with
    | None => None
    | Some h4 =>
    match find_node h4 (g_t0 h4) with
    | None => None
    | Some tn0 =>
        if nonempty (n_in tn0) then None else                                 (* assert not tnode.eids[0] *)
        let h5 := remove_node h4 (g_t0 h4) in
        let g1 := upd_node g (g_t0 g) (node_append_eids 1 (n_out tn0)) in
        match find_node h5 (g_t1 h5) with
        | None => None
        | Some tn1 =>
            if nonempty (n_out tn1) then None else                            (* assert not tnode.eids[1] *)
            let h6 := remove_node h5 (g_t1 h5) in
            let g2 := upd_node g1 (g_t1 g) (node_append_eids 0 (n_in tn1)) in
            (* self.nodes.update(other.nodes); self.edges.update(other.edges): keys are disjoint *)
            Some (mkgraph (g_nodes g2 ++ g_nodes h6) (g_edges g2 ++ g_edges h6) (g_t0 g) (g_t1 g))
        end
    end end end end end.
  Definition add (g h : graph) (sn se : list Z) : option graph :=
    match add_nosimp g h sn se with
    | Some g' => simplify g'
    | None => None
    end.

  (* ---- well-formedness: the dictionary invariants + what is_consistent checks, with the level
     check replaced by an explicit level table for all nodes, + no dangling nodes ---- *)
  Fixpoint zlookup (l : list (Z * Z)) (x : Z) : option Z :=
    match l with [] => None | (k, v) :: t => if k =? x then Some v else zlookup t x end.
  Definition lv_step (g : graph) (lv : list (Z * Z)) : list (Z * Z) :=
    fold_left (fun lv e => match zlookup lv (e_from e), zlookup lv (e_to e) with
                           | Some a, None => (e_to e, a + 1) :: lv
                           | _, _ => lv
                           end) (g_edges g) lv.
  Fixpoint iter_n {A} (n : nat) (f : A -> A) (x : A) : A :=
    match n with O => x | S m => iter_n m f (f x) end.
  Definition compute_levels (g : graph) : list (Z * Z) :=
    iter_n (length (g_nodes g)) (lv_step g) [(g_t0 g, 0)].
  Definition levels_table_ok (g : graph) (lv : list (Z * Z)) : bool :=
    forallb (fun e => match zlookup lv (e_from e), zlookup lv (e_to e) with
                      | Some a, Some b => b =? a + 1
                      | _, _ => false
                      end) (g_edges g).
  Definition node_ok (g : graph) (n : gnode) : bool :=
    nodupz (n_in n) && nodupz (n_out n) && node_refs_ok R g n &&
    ((n_id n =? g_t0 g) || nonempty (n_in n)) && ((n_id n =? g_t1 g) || nonempty (n_out n)).
  Definition edge_ok (g : graph) (e : gedge) : bool := edge_refs_ok R g e && sorted_opics (e_opics e).
  Definition wfb (g : graph) : bool :=
    nodupz (map n_id (g_nodes g)) && nodupz (map e_id (g_edges g)) &&
    forallb (node_ok g) (g_nodes g) && forallb (edge_ok g) (g_edges g) &&
    terminal_ok R g 0 && terminal_ok R g 1 &&
    levels_table_ok g (compute_levels g).

  (* ---- rewrite sequences (correspondence check and the history theorem) ---- *)
  Inductive rw : Type :=
  | RSimplify
  | RStep (dir : nat)
  | RMerge (eid1 eid2 : Z) (dir : nat)
  | RRenameNode (cur new : Z)
  | RRenameEdge (cur new : Z)
  | RFlip
  | RAdd (h : graph) (sn se : list Z).
  Definition apply_rw (g : graph) (r : rw) : option graph :=
    match r with
    | RSimplify => simplify g
    | RStep dir => match simplify_step g dir with Some (_, g') => Some g' | None => None end
    | RMerge a b dir => merge_edges g a b dir
    | RRenameNode a b => rename_node_id g a b
    | RRenameEdge a b => rename_edge_id g a b
    | RFlip => Some (flip g)
    | RAdd h sn se =>
        if is_enum_inter sn (map n_id (g_nodes g)) (map n_id (g_nodes h)) &&
           is_enum_inter se (map e_id (g_edges g)) (map e_id (g_edges h))
        then add g h sn se else None
    end.
  (* one recorded step: the rewrite, the implementation's graph afterwards ([None]: it raised, and the
     harness continues with the previous graph), and whether to run the (exponential) is_consistent mirror *)
  Definition check_step (g : graph) (r : rw) (expect : option graph) (full : bool) : option graph :=
    match apply_rw g r, expect with
    | Some g', Some x =>
        if graph_eqb g' x && wfb g' &&
           (if full then match is_consistent_fuel (Nat.mul 500 400) g' with Some true => true | _ => false end else true)
        then Some g' else None
    | None, None => Some g
    | _, _ => None
    end.
  Fixpoint check_seq (g : graph) (steps : list (rw * option graph * bool)) : bool :=
    match steps with
    | [] => true
    | (r, x, full) :: t => match check_step g r x full with Some g' => check_seq g' t | None => false end
    end.
  Definition check_run (g : graph) (steps : list (rw * option graph * bool)) : bool :=
    wfb g && check_seq g steps.
  (* diagnostic: the model's graphs along the sequence *)
  Fixpoint run_seq (g : graph) (steps : list (rw * option graph * bool)) : list (option graph) :=
    match steps with
    | [] => []
    | (r, x, _) :: t => let o := apply_rw g r in
                        o :: run_seq (match o, x with Some g', _ => g' | None, _ => g end) t
    end.
End Rewrites.

Arguments merge_edges {R} _ _ _ _. Arguments simplify_step {R} _ _. Arguments simplify {R} _.
Arguments simplify_fuel {R} _ _. Arguments steps_dir {R} _ _ _. Arguments simplify_step_fuel {R} _ _ _ _.
Arguments flip {R} _. Arguments rename_node_id {R} _ _ _. Arguments rename_edge_id {R} _ _ _.
Arguments add {R} _ _ _ _. Arguments add_nosimp {R} _ _ _ _. Arguments wfb {R} _.
Arguments mergeable {R} _ _ _. Arguments layer_pair {R} _ _ _. Arguments next_layer {R} _ _ _.
Arguments RSimplify {R}. Arguments RStep {R} _. Arguments RMerge {R} _ _ _. Arguments RRenameNode {R} _ _.
Arguments RRenameEdge {R} _ _. Arguments RFlip {R}. Arguments RAdd {R} _ _ _.
Arguments apply_rw {R} _ _. Arguments check_step {R} _ _ _ _. Arguments check_seq {R} _ _.
Arguments check_run {R} _ _. Arguments run_seq {R} _ _.
Arguments compute_levels {R} _. Arguments levels_table_ok {R} _ _.
