(* Core of the operator-graph model (pytenet/opgraph.py: OpGraphNode, OpGraphEdge, OpGraph):
   data, dictionary-like updates in insertion order, the consistency check, and the symbolic
   meaning [den] (coefficient of each word of operator ids).  Node/edge ids and operator ids
   are [Z]; coefficients live in any [cring]. *)
From Coq Require Import ZArith List Lia Bool.
From PT Require Import Base.Scalar Base.BigSum.
Import ListNotations.
Open Scope Z_scope.

Record gnode : Type := mknode { n_id : Z; n_in : list Z; n_out : list Z; n_q : Z }.

Section OpGraph.
  Variable R : cring.
  Notation "0r" := (k0 R). Notation "1r" := (k1 R).

  Record gedge : Type := mkedge { e_id : Z; e_from : Z; e_to : Z; e_opics : list (Z * R) }.
  (* python dicts keep insertion order: association lists keyed by n_id / e_id, in insertion order *)
  Record graph : Type := mkgraph { g_nodes : list gnode; g_edges : list gedge; g_t0 : Z; g_t1 : Z }.

  (* ---- OpGraphEdge.__init__ / add: merge equal operator ids (pop + append), then sort by id ---- *)
  Fixpoint opics_insert (i : Z) (c : R) (l : list (Z * R)) : list (Z * R) :=
    match l with
    | [] => [(i, c)]
    | (j, d) :: t => if i =? j then t ++ [(i, kadd R c d)] else (j, d) :: opics_insert i c t
    end.
  Fixpoint opics_sort_insert (p : Z * R) (l : list (Z * R)) : list (Z * R) :=
    match l with
    | [] => [p]
    | q :: t => if fst p <? fst q then p :: l else q :: opics_sort_insert p t
    end.
  Definition opics_sort (l : list (Z * R)) : list (Z * R) := fold_right opics_sort_insert [] l.
  Definition opics_norm (opics : list (Z * R)) : list (Z * R) :=
    opics_sort (fold_left (fun acc p => opics_insert (fst p) (snd p) acc) opics []).
  Definition opics_add (a b : list (Z * R)) : list (Z * R) :=
    opics_sort (fold_left (fun acc p => opics_insert (fst p) (snd p) acc) b a).
  Definition new_edge (eid nfrom nto : Z) (opics : list (Z * R)) : gedge :=
    mkedge eid nfrom nto (opics_norm opics).
  (* coefficient of operator id o on an edge *)
  Definition opics_coeff (o : Z) (opics : list (Z * R)) : R :=
    suml opics (fun p => if fst p =? o then snd p else 0r).

  (* ---- lookups ---- *)
  Definition find_node (g : graph) (nid : Z) : option gnode := find (fun n => n_id n =? nid) (g_nodes g).
  Definition find_edge (g : graph) (eid : Z) : option gedge := find (fun e => e_id e =? eid) (g_edges g).
  Definition has_node (g : graph) (nid : Z) : bool := existsb (fun n => n_id n =? nid) (g_nodes g).
  Definition has_edge_id (g : graph) (eid : Z) : bool := existsb (fun e => e_id e =? eid) (g_edges g).
  Definition zmem (x : Z) (l : list Z) : bool := existsb (Z.eqb x) l.
  Definition node_eids (n : gnode) (dir : nat) : list Z := match dir with O => n_in n | _ => n_out n end.
  Definition edge_nid (e : gedge) (dir : nat) : Z := match dir with O => e_from e | _ => e_to e end.
  Definition terminal (g : graph) (dir : nat) : Z := match dir with O => g_t0 g | _ => g_t1 g end.

  (* ---- updates (value semantics) ---- *)
  Definition upd_node (g : graph) (nid : Z) (f : gnode -> gnode) : graph :=
    mkgraph (map (fun n => if n_id n =? nid then f n else n) (g_nodes g)) (g_edges g) (g_t0 g) (g_t1 g).
  Definition upd_edge (g : graph) (eid : Z) (f : gedge -> gedge) : graph :=
    mkgraph (g_nodes g) (map (fun e => if e_id e =? eid then f e else e) (g_edges g)) (g_t0 g) (g_t1 g).
  Definition node_add_eid (eid : Z) (dir : nat) (n : gnode) : gnode :=
    match dir with
    | O => mknode (n_id n) (n_in n ++ [eid]) (n_out n) (n_q n)
    | _ => mknode (n_id n) (n_in n) (n_out n ++ [eid]) (n_q n)
    end.
  Fixpoint remove_first (x : Z) (l : list Z) : list Z :=
    match l with [] => [] | y :: t => if x =? y then t else y :: remove_first x t end.
  Definition node_remove_eid (eid : Z) (dir : nat) (n : gnode) : gnode :=
    match dir with
    | O => mknode (n_id n) (remove_first eid (n_in n)) (n_out n) (n_q n)
    | _ => mknode (n_id n) (n_in n) (remove_first eid (n_out n)) (n_q n)
    end.
  (* add_node / add_edge raise ValueError on an existing id: [None] *)
  Definition add_node (g : graph) (n : gnode) : option graph :=
    if has_node g (n_id n) then None else Some (mkgraph (g_nodes g ++ [n]) (g_edges g) (g_t0 g) (g_t1 g)).
  Definition add_edge (g : graph) (e : gedge) : option graph :=
    if has_edge_id g (e_id e) then None else Some (mkgraph (g_nodes g) (g_edges g ++ [e]) (g_t0 g) (g_t1 g)).
  (* add_connect_edge: add the edge, then register it with both end nodes if they exist *)
  Definition add_connect_edge (g : graph) (e : gedge) : option graph :=
    match add_edge g e with
    | None => None
    | Some g1 =>
        let g2 := upd_node g1 (e_from e) (node_add_eid (e_id e) 1) in
        Some (upd_node g2 (e_to e) (node_add_eid (e_id e) 0))
    end.
  Definition remove_node (g : graph) (nid : Z) : graph :=
    mkgraph (filter (fun n => negb (n_id n =? nid)) (g_nodes g)) (g_edges g) (g_t0 g) (g_t1 g).
  Definition remove_edge (g : graph) (eid : Z) : graph :=
    mkgraph (g_nodes g) (filter (fun e => negb (e_id e =? eid)) (g_edges g)) (g_t0 g) (g_t1 g).
  Definition zmax (l : list Z) (default : Z) : Z :=
    match l with [] => default | x :: t => fold_left Z.max t x end.

  (* ---- outgoing / incoming edges of a node, in the order of its edge-id list ---- *)
  Definition edges_of (g : graph) (eids : list Z) : list gedge :=
    flat_map (fun eid => match find_edge g eid with Some e => [e] | None => [] end) eids.
  Definition out_edges (g : graph) (nid : Z) : list gedge :=
    match find_node g nid with Some n => edges_of g (n_out n) | None => [] end.
  Definition in_edges (g : graph) (nid : Z) : list gedge :=
    match find_node g nid with Some n => edges_of g (n_in n) | None => [] end.

  (* ---- symbolic meaning: coefficient of the word w (operator ids, left to right) ----
     sum over all paths start -> end of the product of the edge coefficients of w's letters *)
  Fixpoint den_from (g : graph) (w : list Z) (nid : Z) : R :=
    match w with
    | [] => if nid =? g_t1 g then 1r else 0r
    | o :: w' => suml (out_edges g nid) (fun e => kmul R (opics_coeff o (e_opics e)) (den_from g w' (e_to e)))
    end.
  Definition den (g : graph) (w : list Z) : R := den_from g w (g_t0 g).
  (* the same, read from the right end (as_matrix(direction = 0)) *)
  Fixpoint den_to (g : graph) (w_rev : list Z) (nid : Z) : R :=
    match w_rev with
    | [] => if nid =? g_t0 g then 1r else 0r
    | o :: w' => suml (in_edges g nid) (fun e => kmul R (opics_coeff o (e_opics e)) (den_to g w' (e_from e)))
    end.
  Definition den_rev (g : graph) (w : list Z) : R := den_to g (rev w) (g_t1 g).

  (* ---- node_depth / length (follows first connections; fuel = number of nodes + 1) ---- *)
  Fixpoint node_depth_fuel (fuel : nat) (g : graph) (nid : Z) (dir : nat) : option nat :=
    match fuel with
    | O => None
    | S f =>
        match find_node g nid with
        | None => None
        | Some n =>
            match node_eids n dir with
            | [] => Some O
            | eid :: _ =>
                match find_edge g eid with
                | None => None
                | Some e => option_map S (node_depth_fuel f g (edge_nid e dir) dir)
                end
            end
        end
    end.
  Definition glength (g : graph) : option nat := node_depth_fuel (S (length (g_nodes g))) g (g_t0 g) 1.

  (* ---- is_consistent ---- *)
  Fixpoint sorted_opics (l : list (Z * R)) : bool :=
    match l with p :: ((q :: _) as t) => (fst p <? fst q) && sorted_opics t | _ => true end.
  Fixpoint nodupz (l : list Z) : bool :=
    match l with [] => true | x :: t => negb (zmem x t) && nodupz t end.
  Definition node_refs_ok (g : graph) (n : gnode) : bool :=
    forallb (fun dir => forallb (fun eid =>
      match find_edge g eid with
      | None => false
      | Some e => edge_nid e (1 - dir) =? n_id n
      end) (node_eids n dir)) [0%nat; 1%nat].
  Definition edge_refs_ok (g : graph) (e : gedge) : bool :=
    forallb (fun dir =>
      match find_node g (edge_nid e dir) with
      | None => false
      | Some n => zmem (e_id e) (node_eids n (1 - dir))
      end) [0%nat; 1%nat].
  Definition terminal_ok (g : graph) (dir : nat) : bool :=
    match find_node g (terminal g dir) with
    | None => false
    | Some n => match node_eids n dir with [] => true | _ => false end
    end.
  (* level consistency: breadth-first from the terminal; every node gets a single level.
     queue of (nid, level); fuel bounds the number of dequeues *)
  Fixpoint levels_ok_fuel (fuel : nat) (g : graph) (dir : nat) (queue : list (Z * nat)) (lv : list (Z * nat)) : option bool :=
    match queue with
    | [] => Some true
    | (nid, l) :: q' =>
        match fuel with
        | O => None
        | S f =>
            match find (fun p => fst p =? nid) lv with
            | Some (_, l') =>
                if Nat.eqb l l' then
                  (* python still re-enqueues the successors of an already seen node *)
                  match find_node g nid with
                  | None => None
                  | Some n => levels_ok_fuel f g dir
                                (q' ++ map (fun e => (edge_nid e (1 - dir), S l)) (edges_of g (node_eids n (1 - dir)))) lv
                  end
                else Some false
            | None =>
                match find_node g nid with
                | None => None
                | Some n => levels_ok_fuel f g dir
                              (q' ++ map (fun e => (edge_nid e (1 - dir), S l)) (edges_of g (node_eids n (1 - dir))))
                              ((nid, l) :: lv)
                end
            end
        end
    end.
  Definition is_consistent_fuel (fuel : nat) (g : graph) : option bool :=
    if negb (forallb (node_refs_ok g) (g_nodes g)) then Some false else
    if negb (forallb (fun e => edge_refs_ok g e && sorted_opics (e_opics e)) (g_edges g)) then Some false else
    if negb (terminal_ok g 0 && terminal_ok g 1) then Some false else
    match levels_ok_fuel fuel g 0 [(g_t0 g, O)] [], levels_ok_fuel fuel g 1 [(g_t1 g, O)] [] with
    | Some a, Some b => Some (a && b)
    | _, _ => None
    end.

  (* ---- structural equality (exact correspondence with the implementation's dictionaries) ---- *)
  Fixpoint zl_eqb (a b : list Z) : bool :=
    match a, b with [], [] => true | x :: a', y :: b' => (x =? y) && zl_eqb a' b' | _, _ => false end.
  Fixpoint opics_eqb (a b : list (Z * R)) : bool :=
    match a, b with
    | [], [] => true
    | (i, c) :: a', (j, d) :: b' => (i =? j) && keqb R c d && opics_eqb a' b'
    | _, _ => false
    end.
  Definition node_eqb (a b : gnode) : bool :=
    (n_id a =? n_id b) && zl_eqb (n_in a) (n_in b) && zl_eqb (n_out a) (n_out b) && (n_q a =? n_q b).
  Definition edge_eqb (a b : gedge) : bool :=
    (e_id a =? e_id b) && (e_from a =? e_from b) && (e_to a =? e_to b) && opics_eqb (e_opics a) (e_opics b).
  Fixpoint list_eqb {A} (eqb : A -> A -> bool) (l1 l2 : list A) : bool :=
    match l1, l2 with [], [] => true | x :: t1, y :: t2 => eqb x y && list_eqb eqb t1 t2 | _, _ => false end.
  (* graphs equal as dictionaries in insertion order *)
  Definition graph_eqb (a b : graph) : bool :=
    list_eqb node_eqb (g_nodes a) (g_nodes b) && list_eqb edge_eqb (g_edges a) (g_edges b) &&
    (g_t0 a =? g_t0 b) && (g_t1 a =? g_t1 b).
End OpGraph.

Arguments mkedge {R} _ _ _ _. Arguments mkgraph {R} _ _ _ _.
Arguments e_id {R} _. Arguments e_from {R} _. Arguments e_to {R} _. Arguments e_opics {R} _.
Arguments g_nodes {R} _. Arguments g_edges {R} _. Arguments g_t0 {R} _. Arguments g_t1 {R} _.
Arguments new_edge {R} _ _ _ _. Arguments opics_norm {R} _. Arguments opics_add {R} _ _. Arguments opics_coeff {R} _ _.
Arguments find_node {R} _ _. Arguments find_edge {R} _ _. Arguments has_node {R} _ _. Arguments has_edge_id {R} _ _.
Arguments edge_nid {R} _ _. Arguments terminal {R} _ _.
Arguments upd_node {R} _ _ _. Arguments upd_edge {R} _ _ _.
Arguments add_node {R} _ _. Arguments add_edge {R} _ _. Arguments add_connect_edge {R} _ _.
Arguments remove_node {R} _ _. Arguments remove_edge {R} _ _.
Arguments edges_of {R} _ _. Arguments out_edges {R} _ _. Arguments in_edges {R} _ _.
Arguments den_from {R} _ _ _. Arguments den {R} _ _. Arguments den_to {R} _ _ _. Arguments den_rev {R} _ _.
Arguments node_depth_fuel {R} _ _ _ _. Arguments glength {R} _.
Arguments is_consistent_fuel {R} _ _. Arguments graph_eqb {R} _ _. Arguments edge_eqb {R} _ _.
Arguments sorted_opics {R} _. Arguments opics_eqb {R} _ _.
