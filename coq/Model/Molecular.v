(* Executable mirror of the OPTIMIZED chain enumerations of pytenet/hamiltonian.py:
     molecular_hamiltonian_mpo(tkin, vint, optimize=True)        lines 809-870
     spin_molecular_hamiltonian_mpo(tkin, vint, optimize=True)   lines 1795-1882
     SpinOperatorConverter.to_spin_opchain / oid_single_pair_map  lines 1165-1222
     _encode_quantum_number_pair                                  line  198
   as Gallina functions of the orbital count L and of coefficient FUNCTIONS t i j, v i j k l over any
   [R : cring] with an element [half] (numpy's 0.5).  The result is the chain LIST handed to
   OpGraph.from_opchains (oids, qnums, coefficient, istart per chain, in program order).

   Structure: the loops are mirrored by [mol_skels] / [spin_skels], which enumerate, in program order, the
   coefficient-independent part of every chain (a skeleton: oids, qnums, istart) together with a TAG naming
   the tensor entry the code reads for it; [mol_chains] / [spin_chains] attach the coefficient values.
   The explicit constructions (optimize=False) are not modelled; see Model/MolCheck.v.

   Python exceptions are error values: the [assert]s and the dictionary lookup of to_spin_opchain are
   [Err EAssert] / [Err EKey] (type [res] of Model/FromOpchains.v).  The unreachable [assert b < c] of the
   interaction loop and the impossible shapes of [sorted]'s result yield the ill-formed skeleton [bad_skel],
   which OpGraph.from_opchains' model rejects ([chain_ok] fails, Err EValue); Proofs/MolOpt.v shows that no
   enumerated chain is ill-formed. *)
From Coq Require Import ZArith List Lia Bool.
From PT Require Import Base.Scalar Base.BigSum Model.OpGraph Model.FromOpchains.
Import ListNotations.
Open Scope Z_scope.

(* class MolecularOID(IntEnum) *)
Definition oA : Z := -1.
Definition oI : Z := 0.
Definition oC : Z := 1.
Definition oN : Z := 2.
Definition oZ : Z := 3.

(* coefficient-independent part of an OpChain *)
Record skel : Type := mkskel { k_oids : list Z; k_qnums : list Z; k_istart : nat }.
Definition bad_skel : skel := mkskel [] [] 0.

(* sorted(...) on tuples (site, oid): lexicographic order, stable insertion *)
Definition op_leb (x y : nat * Z) : bool :=
  Nat.ltb (fst x) (fst y) || (Nat.eqb (fst x) (fst y) && (snd x <=? snd y)).
Fixpoint op_insert (x : nat * Z) (l : list (nat * Z)) : list (nat * Z) :=
  match l with [] => [x] | y :: t => if op_leb x y then x :: l else y :: op_insert x t end.
Definition op_sort (l : list (nat * Z)) : list (nat * Z) := fold_right op_insert [] l.

(* ---- one hopping term a^dagger_i a_j on a chain of fermionic modes (lines 834-840 / 1840-1848) ---- *)
Definition hop_skel (i j : nat) : skel :=
  if Nat.eqb i j then mkskel [oN] [0; 0] i                                       (* diagonal hopping term *)
  else match op_sort [(i, oC); (j, oA)] with
       | [(a, p); (b, q)] =>
           mkskel ([p] ++ repeat oZ (b - a - 1) ++ [q]) ([0] ++ repeat p (b - a) ++ [0]) a
       | _ => bad_skel
       end.

(* ---- one interaction term a^dagger_i a^dagger_j a_l a_k, i < j, k < l (lines 846-868 / 1858-1880) ---- *)
Definition int_skel (i j k l : nat) : skel :=
  match op_sort [(i, oC); (j, oC); (l, oA); (k, oA)] with
  | [(a, p); (b, q); (c, r); (d, s)] =>
      if Nat.eqb a b then
        if negb (Nat.ltb b c) then bad_skel else                                   (* assert b < c *)
        if Nat.eqb c d then
          (* two number operators *)
          mkskel ([oN] ++ repeat oI (c - b - 1) ++ [oN]) (repeat 0 (c - b + 2)) a
        else
          (* number operator at the beginning *)
          mkskel ([oN] ++ repeat oI (c - b - 1) ++ [r] ++ repeat oZ (d - c - 1) ++ [s])
                 (repeat 0 (c - b + 1) ++ repeat r (d - c) ++ [0]) a
      else if Nat.eqb b c then
        (* number operator in the middle *)
        mkskel ([p] ++ repeat oZ (b - a - 1) ++ [oN] ++ repeat oZ (d - c - 1) ++ [s])
               ([0] ++ repeat p (d - a) ++ [0]) a
      else if Nat.eqb c d then
        (* number operator at the end *)
        mkskel ([p] ++ repeat oZ (b - a - 1) ++ [q] ++ repeat oI (c - b - 1) ++ [oN])
               ([0] ++ repeat p (b - a) ++ repeat 0 (c - b + 1)) a
      else
        (* generic case: i, j, k, l pairwise different *)
        mkskel ([p] ++ repeat oZ (b - a - 1) ++ [q] ++ repeat oI (c - b - 1) ++ [r] ++ repeat oZ (d - c - 1) ++ [s])
               ([0] ++ repeat p (b - a) ++ repeat (p + q) (c - b) ++ repeat (- s) (d - c) ++ [0]) a
  | _ => bad_skel
  end.

(* range(k + 1, n) *)
Definition range_from (k n : nat) : list nat := seq (k + 1) (n - (k + 1)).
(* for i in range(n): for j in range(i + 1, n) *)
Definition pairs_lt (n : nat) : list (nat * nat) :=
  flat_map (fun i => map (fun j => (i, j)) (range_from i n)) (seq 0 n).

(* ---- spinless: which tensor entry a chain's coefficient is read from ---- *)
Inductive mtag : Type := THop (i j : nat) | TInt (i j k l : nat).

Definition mol_hop_skels (L : nat) : list (skel * mtag) :=
  flat_map (fun i => map (fun j => (hop_skel i j, THop i j)) (seq 0 L)) (seq 0 L).
Definition mol_int_skels (L : nat) : list (skel * mtag) :=
  flat_map (fun ij => map (fun kl => (int_skel (fst ij) (snd ij) (fst kl) (snd kl),
                                      TInt (fst ij) (snd ij) (fst kl) (snd kl))) (pairs_lt L)) (pairs_lt L).
Definition mol_skels (L : nat) : list (skel * mtag) := mol_hop_skels L ++ mol_int_skels L.

(* ---- to_spin_opchain ---- *)
(* _encode_quantum_number_pair: (qa << 16) + qb on python integers *)
Definition encode_qpair (qa qb : Z) : Z := qa * 65536 + qb.

(* oid_single_pair_map; a missing key is a KeyError *)
Definition pair_oid (a b : Z) : option Z :=
  match a, b with
  | 0, 0 => Some 0     | 0, 1 => Some 1     | 0, -1 => Some 2    | 0, 2 => Some 3
  | 1, 0 => Some 4     | 1, 1 => Some 5     | 1, -1 => Some 6    | 1, 2 => Some 7     | 1, 3 => Some 8
  | -1, 0 => Some 9    | -1, 1 => Some 10   | -1, -1 => Some 11  | -1, 2 => Some 12   | -1, 3 => Some 13
  | 2, 0 => Some 14    | 2, 1 => Some 15    | 2, -1 => Some 16   | 2, 2 => Some 17    | 2, 3 => Some 18
  | 3, 1 => Some 19    | 3, -1 => Some 20   | 3, 2 => Some 21    | 3, 3 => Some 22
  | _, _ => None
  end.
(* zip(oids[0::2], oids[1::2]) through the map *)
Fixpoint pair_up (oids : list Z) : res (list Z) :=
  match oids with
  | a :: b :: rest =>
      match pair_oid a b with
      | None => Err EKey
      | Some o => bind (pair_up rest) (fun t => Ok (o :: t))
      end
  | _ => Ok []
  end.
(* the loop computing the (particle, spin) charges: consumes two single-mode charges per step *)
Fixpoint spin_qnums (qs : list Z) (qspin : Z) : list Z :=
  match qs with
  | q0 :: q1 :: ((q2 :: _) as rest) =>
      let qspin' := qspin - (q0 - 2 * q1 + q2) in
      encode_qpair q2 qspin' :: spin_qnums rest qspin'
  | _ => []
  end.
Definition to_spin_skel (c : skel) : res skel :=
  if negb (hd 0 (k_qnums c) =? 0) then Err EAssert else
  if negb (last (k_qnums c) 0 =? 0) then Err EAssert else
  let '(oids1, qnums1, istart1) :=
    if Nat.odd (k_istart c) then (oI :: k_oids c, 0 :: k_qnums c, (k_istart c - 1)%nat)
    else (k_oids c, k_qnums c, k_istart c) in
  let '(oids2, qnums2) :=
    if Nat.odd (length oids1) then (oids1 ++ [oI], qnums1 ++ [0]) else (oids1, qnums1) in
  bind (pair_up oids2) (fun soids =>
  let sq := 0 :: spin_qnums qnums2 0 in
  if negb (last sq 0 =? 0) then Err EAssert else
  Ok (mkskel soids sq (Nat.div istart1 2))).

(* ---- spin orbitals: tags.  SInt i j k l c0 c1: spatial indices, and which of the two clauses of
   get_vint_coeff fired ([valid] = c0 || c1) ---- *)
Inductive stag : Type := SHop (i j : nat) | SInt (i j k l : nat) (c0 c1 : bool).

Fixpoint res_all {A} (l : list (res A)) : res (list A) :=
  match l with
  | [] => Ok []
  | x :: t => bind x (fun a => bind (res_all t) (fun t' => Ok (a :: t')))
  end.
Definition tagged (r : res skel) (tg : stag) : res (skel * stag) := bind r (fun s => Ok (s, tg)).

Definition par (i : nat) : bool := Nat.odd i.       (* i % 2 *)
Definition spin_hop_skels (L : nat) : list (res (skel * stag)) :=
  flat_map (fun i => flat_map (fun j =>
    if xorb (par i) (par j) then []                                                (* (i - j) % 2 != 0: continue *)
    else [tagged (to_spin_skel (hop_skel i j)) (SHop (Nat.div i 2) (Nat.div j 2))]) (seq 0 (2 * L))) (seq 0 (2 * L)).
Definition spin_int_skels (L : nat) : list (res (skel * stag)) :=
  flat_map (fun ij => flat_map (fun kl =>
    let i := fst ij in let j := snd ij in let k := fst kl in let l := snd kl in
    let c0 := Bool.eqb (par i) (par k) && Bool.eqb (par j) (par l) in
    let c1 := Bool.eqb (par i) (par l) && Bool.eqb (par j) (par k) in
    if negb (c0 || c1) then []                                                     (* not valid: continue *)
    else [tagged (to_spin_skel (int_skel i j k l))
                 (SInt (Nat.div i 2) (Nat.div j 2) (Nat.div k 2) (Nat.div l 2) c0 c1)])
    (pairs_lt (2 * L))) (pairs_lt (2 * L)).
Definition spin_skels (L : nat) : res (list (skel * stag)) := res_all (spin_hop_skels L ++ spin_int_skels L).

Section Molecular.
  Variable R : cring.
  Variable half : R.
  Notation "0r" := (k0 R).
  Notation chain := (chain R).

  Definition attach {T} (coeff : T -> R) (st : skel * T) : chain :=
    mkchain (k_oids (fst st)) (k_qnums (fst st)) (coeff (snd st)) (k_istart (fst st)).

  (* gint = 0.5 * (vint - vint.T(1,0,2,3) - vint.T(0,1,3,2) + vint.T(1,0,3,2)) *)
  Definition gint (v : nat -> nat -> nat -> nat -> R) (i j k l : nat) : R :=
    kmul R half (kadd R (ksub R (ksub R (v i j k l) (v j i k l)) (v i j l k)) (v j i l k)).
  Definition mol_coeff (t : nat -> nat -> R) (v : nat -> nat -> nat -> nat -> R) (tg : mtag) : R :=
    match tg with THop i j => t i j | TInt i j k l => gint v i j k l end.
  Definition mol_chains (L : nat) (t : nat -> nat -> R) (v : nat -> nat -> nat -> nat -> R) : list chain :=
    map (attach (mol_coeff t v)) (mol_skels L).

  (* gint0 = 0.5 * (vint + vint.T(1,0,3,2));  gint1 = 0.5 * (vint.T(1,0,2,3) + vint.T(0,1,3,2)) *)
  Definition gint0 (v : nat -> nat -> nat -> nat -> R) (i j k l : nat) : R :=
    kmul R half (kadd R (v i j k l) (v j i l k)).
  Definition gint1 (v : nat -> nat -> nat -> nat -> R) (i j k l : nat) : R :=
    kmul R half (kadd R (v j i k l) (v i j l k)).
  (* get_vint_coeff: coeff = 0; [coeff += gint0[...]]; [coeff -= gint1[...]] *)
  Definition spin_coeff (t : nat -> nat -> R) (v : nat -> nat -> nat -> nat -> R) (tg : stag) : R :=
    match tg with
    | SHop i j => t i j
    | SInt i j k l c0 c1 =>
        let x1 := if c0 then kadd R 0r (gint0 v i j k l) else 0r in
        if c1 then ksub R x1 (gint1 v i j k l) else x1
    end.
  Definition spin_chains (L : nat) (t : nat -> nat -> R) (v : nat -> nat -> nat -> nat -> R) : res (list chain) :=
    bind (spin_skels L) (fun sk => Ok (map (attach (spin_coeff t v)) sk)).

  (* ---- correspondence: the enumerated list against the list captured at OpGraph.from_opchains ---- *)
  Definition chain_eqb (a b : chain) : bool :=
    zlist_eqb (c_oids a) (c_oids b) && zlist_eqb (c_qnums a) (c_qnums b) &&
    keqb R (c_coeff a) (c_coeff b) && Nat.eqb (c_istart a) (c_istart b).
  Definition chains_eqb (a b : list chain) : bool := list_eqb chain_eqb a b.
  (* coefficient tensors as nested lists (numpy arrays); out of range reads are 0 (never issued for i.. < L) *)
  Definition tab2 (tt : list (list R)) (i j : nat) : R := nth j (nth i tt []) 0r.
  Definition tab4 (vv : list (list (list (list R)))) (i j k l : nat) : R := nth l (nth k (nth j (nth i vv []) []) []) 0r.
  Definition check_mol_chains (L : nat) (tt : list (list R)) (vv : list (list (list (list R)))) (captured : list chain) : bool :=
    chains_eqb (mol_chains L (tab2 tt) (tab4 vv)) captured.
  Definition check_spin_chains (L : nat) (tt : list (list R)) (vv : list (list (list (list R)))) (captured : list chain) : bool :=
    match spin_chains L (tab2 tt) (tab4 vv) with Ok cs => chains_eqb cs captured | Err _ => false end.
End Molecular.

Arguments attach {R T} _ _. Arguments gint {R} _ _ _ _ _ _. Arguments gint0 {R} _ _ _ _ _ _. Arguments gint1 {R} _ _ _ _ _ _.
Arguments mol_coeff {R} _ _ _ _. Arguments spin_coeff {R} _ _ _ _.
Arguments mol_chains {R} _ _ _ _. Arguments spin_chains {R} _ _ _ _.
Arguments chain_eqb {R} _ _. Arguments chains_eqb {R} _ _. Arguments tab2 {R} _ _ _. Arguments tab4 {R} _ _ _ _ _.
Arguments check_mol_chains {R} _ _ _ _ _. Arguments check_spin_chains {R} _ _ _ _ _.
