(* Executable mirror of MPS.from_vector (pytenet/mps.py): the TT-SVD loop

     v = np.reshape(v, (1, len(v)))
     for i in range(nsites):
         Dleft = v.shape[0]
         u, s, v = np.linalg.svd(v.reshape((Dleft*d, d**(nsites-i-1))), full_matrices=False)
         idx = retained_bond_indices(s, tol)
         if len(idx) == 0: idx = np.array([0])         # zero vector: keep one (zero) singular value
         u = u[:, idx];  v = v[idx, :];  s = s[idx]
         v = v * s[:, None]
         mps.A[i] = u.reshape((Dleft, d, len(s))).transpose((1, 0, 2))      # A[i][s][a, b] = u[a*d + s, b]
         mps.qD[i + 1] = np.zeros(len(s), dtype=int)
     assert v.shape == (1, 1)
     mps.A[-1] *= v[0, 0]

   numpy.linalg.svd and the unstable numpy.argsort inside retained_bond_indices are oracle arguments, indexed by the
   number i of the loop iteration that issues the call (the argument of call i+1 depends on the answer to call i).
   Scalars: singular values and the tolerance live in an ordered field F, tensor entries in its complexification.
   [None] is the error value: assertion failures, index errors (d = 0: `u[:, idx]` raises IndexError; nsites = 0:
   `mps.A[-1]` raises IndexError — both measured on the code) and answers of the oracle whose shapes are not the ones
   LAPACK guarantees (u : m x K, s : K, vt : K x n with K = min(m, n)). *)
From Coq Require Import ZArith QArith Qcanon List Bool Lia Arith.
From PT Require Import Base.Scalar Base.Field Base.BigSum Base.Mx Model.Tensor Model.MPSOps Model.BondOps.
Import ListNotations.

Section FromVector.
  Variable F : ofield.
  Notation CF := (Cx F).
  Notation mx := (mx CF).
  Variable dsvd : nat -> mx -> mx * list F * mx.   (* call i of numpy.linalg.svd(M, full_matrices=False) *)
  Variable pick : nat -> list F -> list nat.       (* numpy.argsort inside call i of retained_bond_indices *)

  (* v.reshape((Dleft*d, d**(nsites-i-1))) with rem = nsites-i-1 *)
  Definition fv_mat (d rem : nat) (v : mx) : mx := reshape (nr v * d) (d ^ rem) v.

  (* idx = retained_bond_indices(s, tol); if len(idx) == 0: idx = [0] *)
  Definition fv_idx (i : nat) (s : list F) (tol : F) : list nat :=
    match retained (pick i) s tol with [] => [0%nat] | idx => idx end.

  (* shapes guaranteed by LAPACK; every index of idx addresses a singular value *)
  Definition fv_shapes_ok (M u : mx) (s : list F) (vt : mx) (idx : list nat) : bool :=
    let k := Nat.min (nr M) (nc M) in
    Nat.eqb (nr u) (nr M) && Nat.eqb (nc u) k && Nat.eqb (length s) k && Nat.eqb (nr vt) k && Nat.eqb (nc vt) (nc M) &&
    forallb (fun l => Nat.ltb l (length s)) idx.

  (* u[:, idx].reshape((Dleft, d, k)).transpose((1, 0, 2)) *)
  Definition fv_site (d Dl : nat) (u' : mx) : site CF :=
    stab d (fun s => tab Dl (nc u') (fun a b => get u' (a * d + s) b)).
  (* v[idx, :] * s[idx][:, None] *)
  Definition fv_next (idx : list nat) (s : list F) (vt : mx) : mx :=
    let vt' := rowsel idx vt in
    let s' := map (fun l => nth l s (f0 F)) idx in
    tab (nr vt') (nc vt') (fun l c => kmul CF (get vt' l c) (cof (nth l s' (f0 F)))).

  (* the loop: i = number of the iteration, rem = number of remaining sites; returns the site tensors, the new bond
     dimensions len(s) and the final v *)
  Fixpoint fv_loop (d : nat) (tol : F) (i rem : nat) (v : mx) : option (list (site CF) * list nat * mx) :=
    match rem with
    | O => Some ([], [], v)
    | S rem' =>
        let M := fv_mat d rem' v in
        let '(u, s, vt) := dsvd i M in
        let idx := fv_idx i s tol in
        if fv_shapes_ok M u s vt idx then
          match fv_loop d tol (S i) rem' (fv_next idx s vt) with
          | Some (As, ks, vf) => Some (fv_site d (nr v) (colsel idx u) :: As, length idx :: ks, vf)
          | None => None
          end
        else None
    end.

  (* the oracle calls issued by the loop, in order: (i, argument) *)
  Fixpoint fv_calls (d : nat) (tol : F) (i rem : nat) (v : mx) : list (nat * mx) :=
    match rem with
    | O => []
    | S rem' =>
        let M := fv_mat d rem' v in
        let '(u, s, vt) := dsvd i M in
        let idx := fv_idx i s tol in
        (i, M) :: (if fv_shapes_ok M u s vt idx then fv_calls d tol (S i) rem' (fv_next idx s vt) else [])
    end.

  (* mps.A[-1] *= c *)
  Fixpoint scale_last (c : CF) (As : list (site CF)) : list (site CF) :=
    match As with
    | [] => []
    | A :: As' => match As' with [] => [map (scalemx c) A] | _ => A :: scale_last c As' end
    end.

  (* np.reshape(v, (1, len(v))) *)
  Definition fv_row (vec : list CF) : mx := tab 1 (length vec) (fun _ j => nth j vec (k0 CF)).

  Definition from_vector (d n : nat) (vec : list CF) (tol : F) : option (mps CF) :=
    if Nat.eqb d 0 || Nat.eqb n 0 then None
    else if negb (Nat.eqb (length vec) (d ^ n)) then None
    else match fv_loop d tol 0 n (fv_row vec) with
         | None => None
         | Some (As, ks, vf) =>
             if Nat.eqb (nr vf) 1 && Nat.eqb (nc vf) 1
             then Some (mkmps (repeat 0%Z d) ([0%Z] :: map (repeat 0%Z) ks) (scale_last (get vf 0 0) As))
             else None
         end.

  Definition from_vector_calls (d n : nat) (vec : list CF) (tol : F) : list (nat * mx) :=
    fv_calls d tol 0 n (fv_row vec).
End FromVector.

Arguments fv_mat {F} d rem v. Arguments fv_idx {F} pick i s tol.
Arguments fv_shapes_ok {F} M u s vt idx. Arguments fv_site {F} d Dl u'. Arguments fv_next {F} idx s vt.
Arguments fv_loop {F} dsvd pick d tol i rem v. Arguments fv_calls {F} dsvd pick d tol i rem v.
Arguments scale_last {F} c As. Arguments fv_row {F} vec.
Arguments from_vector {F} dsvd pick d n vec tol. Arguments from_vector_calls {F} dsvd pick d n vec tol.

(* ------------------------------------------------------------------ *)
(* exact replay of recorded numpy answers (form R) at F = Qc            *)
(* ------------------------------------------------------------------ *)
Definition qcf_close (tol a b : QcF) : bool := fleb QcF (fsub QcF a b) tol && fleb QcF (fsub QcF b a) tol.
Definition cq_close (tol : QcF) (x y : Cx QcF) : bool := qcf_close tol (fst x) (fst y) && qcf_close tol (snd x) (snd y).
Definition cqmx_close (tol : QcF) (A B : mx (Cx QcF)) : bool :=
  Nat.eqb (nr A) (nr B) && Nat.eqb (nc A) (nc B) &&
  forallb (fun i => forallb (fun j => cq_close tol (get A i j) (get B i j)) (seq 0 (nc A))) (seq 0 (nr A)).
Definition cqsite_close (tol : QcF) (A B : site (Cx QcF)) : bool := list_eqb (cqmx_close tol) A B.

Fixpoint all3 {A B C} (f : A -> B -> C -> bool) (la : list A) (lb : list B) (lc : list C) : bool :=
  match la, lb, lc with
  | [], [], [] => true
  | a :: ta, b :: tb, c :: tc => f a b c && all3 f ta tb tc
  | _, _, _ => false
  end.

(* answers : recorded (argument, (u, s, vt)) of the numpy.linalg.svd calls in order; sorts : recorded answer of
   np.argsort per iteration ([] where retained_bond_indices returned before sorting);
   the model, run with these answers, must issue calls with the recorded arguments (argtols: the arguments after the first
   went through a float multiplication), return the implementation's quantum numbers exactly and its tensors within
   tols (exact rational comparison) *)
Definition check_from_vector (d n : nat) (vec : list (Cx QcF)) (tol : QcF)
    (answers : list (mx (Cx QcF) * (mx (Cx QcF) * list QcF * mx (Cx QcF)))) (sorts : list (list nat))
    (argtols : list QcF) (expect : option (mps (Cx QcF))) (tols : list QcF) : bool :=
  let dsvd := fun i (_ : mx (Cx QcF)) => snd (nth i answers (mkmx 0 0 [], (mkmx 0 0 [], [], mkmx 0 0 []))) in
  let pick := fun i (_ : list QcF) => nth i sorts [] in
  match from_vector dsvd pick d n vec tol, expect with
  | None, None => true
  | Some p, Some e =>
      zl_eqb (m_qd p) (m_qd e) && list_eqb zl_eqb (m_qD p) (m_qD e) &&
      all3 (fun A B t => cqsite_close t A B) (m_A p) (m_A e) tols &&
      all3 (fun c a t => cqmx_close t (snd c) (fst a)) (from_vector_calls dsvd pick d n vec tol) answers argtols
  | _, _ => false
  end.
