(* Executable mirror of pytenet/operation.py (everything except apply_operator, which belongs to C03).

   Representation (Model/Tensor.v): an MPS tensor A of numpy shape (d, Dl, Dr) is the list of its
   matrices A[s]; an MPO tensor W of shape (d, d, Dl, Dr) is W[s][t]; an environment block R of shape
   (Da, Dw, Db) (axis 0: ket bond, axis 1: MPO bond, axis 2: bra bond) is the list, indexed by the MPO
   bond w, of the Da x Db matrices R[:, w, :].

   Index reading of the tensordot calls (validated entry by entry by the correspondence check on
   non-square integer tensors):
     contraction_step_right A B R        = sum_s  A[s] . R . B[s]^H
     contraction_step_left  A B L        = sum_s  A[s]^T . L . conj(B[s])
     contraction_operator_step_right     Rnext[wl] = sum_{s,t,wr} W[s][t][wl,wr] . A[t] . R[wr] . B[s]^H
     contraction_operator_step_left      Lnext[wr] = sum_{s,t,wl} W[s][t][wl,wr] . A[t]^T . L[wl] . conj(B[s])
     contraction_operator_density_step_right A W R = sum_{s,t} A[s][t] . R . W[t][s]^T
     apply_local_hamiltonian L R W A     out[s] = sum_{t,wl,wr} W[s][t][wl,wr] . L[wl]^T . A[t] . R[wr]
     apply_local_bond_contraction L R C  = sum_w L[w]^T . C . R[w]
   Intermediate tensors are materialised in the same order as the code builds them. *)
From Coq Require Import ZArith List Lia Bool.
From PT Require Import Base.Scalar Base.BigSum Base.Mx Model.Tensor.
Import ListNotations.

Section Operation.
  Variable R : cring.
  Notation mx := (mx R).
  Notation site := (site R).
  Notation osite := (osite R).
  Infix "*" := (kmul R).

  Definition env := list mx.
  Definition esel (E : env) (w : nat) : mx := nth w E (zeromx 0 0).
  Definition tabl {T} (n : nat) (f : nat -> T) : list T := map f (seq 0 n).
  Definition mx0 : mx := zeromx 0 0.

  (* numpy shapes: A.shape = (length A, sdl A, sdr A); W.shape = (length W, _, odl W, odr W);
     R.shape = (edl R, length R, edr R) *)
  Definition sdl (A : site) : nat := nr (sel A 0).
  Definition sdr (A : site) : nat := nc (sel A 0).
  Definition odl (W : osite) : nat := nr (osel W 0 0).
  Definition odr (W : osite) : nat := nc (osel W 0 0).
  Definition edl (E : env) : nat := nr (esel E 0).
  Definition edr (E : env) : nat := nc (esel E 0).

  (* ---------------- operation.py:40-66 ---------------- *)
  Definition contraction_step_right (A B : site) (T : mx) : mx :=
    let d := length A in
    (* T = np.tensordot(A, R, 1) *)
    let TA := tabl d (fun s => mulmx (sel A s) T) in
    (* Rnext = np.tensordot(T, B.conj(), axes=((0, 2), (0, 2))) *)
    tab (sdl A) (sdl B) (fun a b =>
      sumn d (fun s => sumn (nc T) (fun c => get (nth s TA mx0) a c * kconj R (get (sel B s) b c)))).

  (* ---------------- operation.py:69-94 ---------------- *)
  Definition contraction_step_left (A B : site) (L : mx) : mx :=
    let d := length A in
    (* T = np.tensordot(L, B.conj(), axes=(1, 1))   -> T[a, s, c] *)
    let LB := tabl d (fun s => tab (nr L) (sdr B) (fun a c =>
                sumn (nc L) (fun b => get L a b * kconj R (get (sel B s) b c)))) in
    (* Lnext = np.tensordot(A, T, axes=((0, 1), (1, 0))) *)
    tab (sdr A) (sdr B) (fun c' c =>
      sumn d (fun s => sumn (sdl A) (fun a => get (sel A s) a c' * get (nth s LB mx0) a c))).

  (* ---------------- operation.py:193-229 ---------------- *)
  Definition contraction_operator_step_right (A B : site) (W : osite) (E : env) : env :=
    let d := length A in
    let Dw := length E in
    (* T = np.tensordot(A, R, 1)   -> T[t, a, wr, c] *)
    let TA := tabl d (fun t => tabl Dw (fun wr => mulmx (sel A t) (esel E wr))) in
    let ta t wr := nth wr (nth t TA []) mx0 in
    (* T = np.tensordot(W, T, axes=((1, 3), (0, 2)))   -> T[s, wl, a, c] *)
    let U := tabl (length W) (fun s => tabl (odl W) (fun wl => tab (sdl A) (edr E) (fun a c =>
               sumn d (fun t => sumn Dw (fun wr => get (osel W s t) wl wr * get (ta t wr) a c))))) in
    let u s wl := nth wl (nth s U []) mx0 in
    (* transpose and  Rnext = np.tensordot(T, B.conj(), axes=((2, 3), (0, 2))) *)
    tabl (odl W) (fun wl => tab (sdl A) (sdl B) (fun a b =>
      sumn (length W) (fun s => sumn (edr E) (fun c => get (u s wl) a c * kconj R (get (sel B s) b c))))).

  (* ---------------- operation.py:232-266 ---------------- *)
  Definition contraction_operator_step_left (A B : site) (W : osite) (L : env) : env :=
    let d := length B in
    let Dw := length L in
    (* T = np.tensordot(L, B.conj(), axes=(2, 1))   -> T[a, wl, s, c] *)
    let LB := tabl Dw (fun wl => tabl d (fun s => tab (edl L) (sdr B) (fun a c =>
                sumn (edr L) (fun b => get (esel L wl) a b * kconj R (get (sel B s) b c))))) in
    let lb wl s := nth s (nth wl LB []) mx0 in
    (* T = np.tensordot(W, T, axes=((0, 2), (2, 1)))   -> T[t, wr, a, c] *)
    let V := tabl (length A) (fun t => tabl (odr W) (fun wr => tab (edl L) (sdr B) (fun a c =>
               sumn d (fun s => sumn Dw (fun wl => get (osel W s t) wl wr * get (lb wl s) a c))))) in
    let v t wr := nth wr (nth t V []) mx0 in
    (* Lnext = np.tensordot(A, T, axes=((0, 1), (0, 2))) *)
    tabl (odr W) (fun wr => tab (sdr A) (sdr B) (fun c' c =>
      sumn (length A) (fun t => sumn (sdl A) (fun a => get (sel A t) a c' * get (v t wr) a c)))).

  (* ---------------- operation.py:269-297 ---------------- *)
  Definition contraction_operator_density_step_right (A W : osite) (T : mx) : mx :=
    let d := length A in
    (* T = np.tensordot(A, R, 1)   -> T[s, t, a, r'] *)
    let AT := tabl d (fun s => tabl d (fun t => mulmx (osel A s t) T)) in
    let at_ s t := nth t (nth s AT []) mx0 in
    (* T = np.tensordot(T, W, axes=((1, 0, 3), (0, 1, 3))) *)
    tab (odl A) (odl W) (fun a wl =>
      sumn d (fun s => sumn d (fun t => sumn (nc T) (fun r' =>
        get (at_ s t) a r' * get (osel W t s) wl r')))).

  (* ---------------- operation.py:314-350 ---------------- *)
  Definition apply_local_hamiltonian (L E : env) (W : osite) (A : site) : site :=
    let d := length A in
    let Dw := length E in
    (* T = np.tensordot(A, R, 1) *)
    let TA := tabl d (fun t => tabl Dw (fun wr => mulmx (sel A t) (esel E wr))) in
    let ta t wr := nth wr (nth t TA []) mx0 in
    (* T = np.tensordot(W, T, axes=((1, 3), (0, 2)))   -> T[s, wl, a, c] *)
    let U := tabl (length W) (fun s => tabl (odl W) (fun wl => tab (sdl A) (edr E) (fun a c =>
               sumn d (fun t => sumn Dw (fun wr => get (osel W s t) wl wr * get (ta t wr) a c))))) in
    let u s wl := nth wl (nth s U []) mx0 in
    (* T = np.tensordot(T, L, axes=((2, 1), (0, 1))); transpose (0, 2, 1) *)
    tabl (length W) (fun s => tab (edr L) (edr E) (fun b c =>
      sumn (sdl A) (fun a => sumn (odl W) (fun wl => get (u s wl) a c * get (esel L wl) a b)))).

  (* ---------------- operation.py:353-383 ---------------- *)
  Definition apply_local_bond_contraction (L E : env) (C : mx) : mx :=
    (* T = np.tensordot(C, R, 1) *)
    let CE := tabl (length E) (fun w => mulmx C (esel E w)) in
    (* T = np.tensordot(L, T, axes=((0, 1), (0, 1))) *)
    tab (edr L) (edr E) (fun b c =>
      sumn (nr C) (fun a => sumn (length E) (fun w => get (esel L w) a b * get (nth w CE mx0) a c))).

  (* ---------------- chains ---------------- *)
  Fixpoint rfold0 (As Bs : list site) (T : mx) : mx :=
    match As, Bs with
    | A :: As', B :: Bs' => contraction_step_right A B (rfold0 As' Bs' T)
    | _, _ => T
    end.
  Fixpoint rfold (As Bs : list site) (Ws : list osite) (E : env) : env :=
    match As, Bs, Ws with
    | A :: As', B :: Bs', W :: Ws' => contraction_operator_step_right A B W (rfold As' Bs' Ws' E)
    | _, _, _ => E
    end.
  Fixpoint rfoldD (As Ws : list osite) (T : mx) : mx :=
    match As, Ws with
    | A :: As', W :: Ws' => contraction_operator_density_step_right A W (rfoldD As' Ws' T)
    | _, _ => T
    end.
  (* left-to-right analogues (the code has no driver for them; TDVP/DMRG iterate the step function) *)
  Fixpoint lfold0 (As Bs : list site) (T : mx) : mx :=
    match As, Bs with
    | A :: As', B :: Bs' => lfold0 As' Bs' (contraction_step_left A B T)
    | _, _ => T
    end.
  Fixpoint lfold (As Bs : list site) (Ws : list osite) (L : env) : env :=
    match As, Bs, Ws with
    | A :: As', B :: Bs', W :: Ws' => lfold As' Bs' Ws' (contraction_operator_step_left A B W L)
    | _, _, _ => L
    end.

  Definition last_dr (As : list site) : nat := sdr (last As []).
  Definition is11 (T : mx) : bool := Nat.eqb (nr T) 1 && Nat.eqb (nc T) 1.
  Definition is111 (E : env) : bool := Nat.eqb (length E) 1 && is11 (esel E 0).
  (* identity(D).reshape((D, 1, D)) *)
  Definition env_id (D : nat) : env := [idmx D].
  (* np.array([[[1]]]) *)
  Definition env_one : env := [tab 1 1 (fun _ _ => k1 R)].

  (* ---------------- operation.py:10-30 ---------------- *)
  Definition vdot_sites (Bs As : list site) : option R :=
    if negb (Nat.eqb (length As) (length Bs)) then None
    else match As with
         | [] => Some (k0 R)
         | _ => let T := rfold0 As Bs (idmx (last_dr As)) in
                if is11 T then Some (get T 0 0) else None
         end.
  Definition vdot (chi psi : mps R) : option R := vdot_sites (m_A chi) (m_A psi).

  (* operation.py:33-37: the real part and the floating-point square root are oracles *)
  Definition norm (re : R -> R) (dsqrt : R -> R) (psi : mps R) : option R :=
    match vdot psi psi with Some v => Some (dsqrt (re v)) | None => None end.

  (* ---------------- operation.py:121-145 ---------------- *)
  Definition operator_inner_product_sites (Bs : list site) (Ws : list osite) (As : list site) : option R :=
    if negb (Nat.eqb (length Bs) (length Ws) && Nat.eqb (length As) (length Ws)) then None
    else match As with
         | [] => Some (k0 R)
         | _ => if negb (Nat.eqb (last_dr Bs) (last_dr As)) then None else
                let E := rfold As Bs Ws (env_id (last_dr As)) in
                if is111 E then Some (get (esel E 0) 0 0) else None
         end.
  Definition operator_inner_product (chi : mps R) (op : mpo R) (psi : mps R) : option R :=
    operator_inner_product_sites (m_A chi) (o_A op) (m_A psi).

  (* ---------------- operation.py:97-118 ---------------- *)
  Definition operator_average_sites (As : list site) (Ws : list osite) : option R :=
    if negb (Nat.eqb (length As) (length Ws)) then None
    else match As with
         | [] => Some (k0 R)
         | _ => let E := rfold As As Ws (env_id (last_dr As)) in
                if is111 E then Some (get (esel E 0) 0 0) else None
         end.
  Definition operator_average (psi : mps R) (op : mpo R) : option R :=
    operator_average_sites (m_A psi) (o_A op).

  (* ---------------- operation.py:148-168 ---------------- *)
  Definition operator_density_average_sites (Rs Ws : list osite) : option R :=
    if negb (Nat.eqb (length Rs) (length Ws)) then None
    else match Rs with
         | [] => Some (k0 R)
         | _ => let T := rfoldD Rs Ws (idmx 1) in
                if is11 T then Some (get T 0 0) else None
         end.
  Definition operator_density_average (rho op : mpo R) : option R :=
    operator_density_average_sites (o_A rho) (o_A op).

  (* ---------------- operation.py:300-311 ----------------
     rblocks As Ws, for the sites 1..L-1, is the list BR[0..L-1]:
     BR[L-1] = [[[1]]], BR[i] = step_right(A[i+1], A[i+1], W[i+1], BR[i+1]) *)
  Fixpoint rblocks (As : list site) (Ws : list osite) : list env :=
    match As, Ws with
    | A :: As', W :: Ws' =>
        let rest := rblocks As' Ws' in
        contraction_operator_step_right A A W (hd env_one rest) :: rest
    | _, _ => [env_one]
    end.
  Definition compute_right_operator_blocks_sites (As : list site) (Ws : list osite) : option (list env) :=
    if negb (Nat.eqb (length As) (length Ws)) then None
    else match As, Ws with
         | _ :: As', _ :: Ws' => Some (rblocks As' Ws')
         | _, _ => None   (* L = 0: BR[-1] on an empty list raises IndexError *)
         end.
  Definition compute_right_operator_blocks (psi : mps R) (op : mpo R) : option (list env) :=
    compute_right_operator_blocks_sites (m_A psi) (o_A op).

  (* local copies of mps.merge_mps_tensor_pair / mpo.merge_mpo_tensor_pair (owned by C03; used here only to
     form the two-site local problems):  A[s0*d1 + s1] = A0[s0] . A1[s1] *)
  Definition c04_merge_site (A0 A1 : site) : site :=
    flat_map (fun M0 => map (fun M1 => mulmx M0 M1) A1) A0.
  Definition c04_merge_osite (W0 W1 : osite) : osite :=
    flat_map (fun row0 => map (fun row1 =>
      flat_map (fun M0 => map (fun M1 => mulmx M0 M1) row1) row0) W1) W0.

  (* <Y | X> = sum conj(Y[s][b,c]) X[s][b,c] for site tensors, and for matrices *)
  Definition site_dot (Y X : site) : R :=
    sumn (length Y) (fun s => sumn (sdl Y) (fun b => sumn (sdr Y) (fun c =>
      kconj R (get (sel Y s) b c) * get (sel X s) b c))).

  (* ---------------- comparison helpers for the correspondence check ---------------- *)
  Definition env_eqb (E F : env) : bool := list_eqb (@mxeqb R) E F.
  Definition wf_env (E : env) : bool := forallb (@wfb R) E.
  Definition opt_eqb (o : option R) (x : R) : bool := match o with Some y => keqb R y x | None => false end.
  Definition is_none {T} (o : option T) : bool := match o with None => true | Some _ => false end.
  Definition envs_eqb (o : option (list env)) (l : list env) : bool :=
    match o with Some l' => list_eqb env_eqb l' l | None => false end.

  (* all left blocks  BL[0] = [[[1]]], BL[i+1] = step_left(A[i], B[i], W[i], BL[i])  (i = 0..L-1; L+1 blocks) *)
  Fixpoint lblocks (As Bs : list site) (Ws : list osite) (L : env) : list env :=
    match As, Bs, Ws with
    | A :: As', B :: Bs', W :: Ws' => L :: lblocks As' Bs' Ws' (contraction_operator_step_left A B W L)
    | _, _, _ => [L]
    end.
  (* all right blocks for independent bra / ket: L+1 blocks, the last one is [[[1]]] *)
  Fixpoint rblocks2 (As Bs : list site) (Ws : list osite) : list env :=
    match As, Bs, Ws with
    | A :: As', B :: Bs', W :: Ws' =>
        let rest := rblocks2 As' Bs' Ws' in
        contraction_operator_step_right A B W (hd env_one rest) :: rest
    | _, _, _ => [env_one]
    end.
  Fixpoint lmats (As Bs : list site) (T : mx) : list mx :=
    match As, Bs with
    | A :: As', B :: Bs' => T :: lmats As' Bs' (contraction_step_left A B T)
    | _, _ => [T]
    end.
  Fixpoint rmats (As Bs : list site) (T : mx) : list mx :=
    match As, Bs with
    | A :: As', B :: Bs' => let rest := rmats As' Bs' T in contraction_step_right A B (hd mx0 rest) :: rest
    | _, _ => [T]
    end.
  Fixpoint dmats (As Ws : list osite) (T : mx) : list mx :=
    match As, Ws with
    | A :: As', W :: Ws' => let rest := dmats As' Ws' T in contraction_operator_density_step_right A W (hd mx0 rest) :: rest
    | _, _ => [T]
    end.
End Operation.

Arguments esel {R} E w. Arguments tabl {T} n f. Arguments mx0 {R}.
Arguments sdl {R} A. Arguments sdr {R} A. Arguments odl {R} W. Arguments odr {R} W.
Arguments edl {R} E. Arguments edr {R} E.
Arguments contraction_step_right {R} A B T. Arguments contraction_step_left {R} A B L.
Arguments contraction_operator_step_right {R} A B W E. Arguments contraction_operator_step_left {R} A B W L.
Arguments contraction_operator_density_step_right {R} A W T.
Arguments apply_local_hamiltonian {R} L E W A. Arguments apply_local_bond_contraction {R} L E C.
Arguments rfold0 {R} As Bs T. Arguments rfold {R} As Bs Ws E. Arguments rfoldD {R} As Ws T.
Arguments lfold0 {R} As Bs T. Arguments lfold {R} As Bs Ws L.
Arguments last_dr {R} As. Arguments is11 {R} T. Arguments is111 {R} E.
Arguments env_id {R} D. Arguments env_one {R}.
Arguments vdot_sites {R} Bs As. Arguments vdot {R} chi psi. Arguments norm {R} re dsqrt psi.
Arguments operator_inner_product_sites {R} Bs Ws As. Arguments operator_inner_product {R} chi op psi.
Arguments operator_average_sites {R} As Ws. Arguments operator_average {R} psi op.
Arguments operator_density_average_sites {R} Rs Ws. Arguments operator_density_average {R} rho op.
Arguments rblocks {R} As Ws. Arguments compute_right_operator_blocks_sites {R} As Ws.
Arguments compute_right_operator_blocks {R} psi op.
Arguments c04_merge_site {R} A0 A1. Arguments c04_merge_osite {R} W0 W1.
Arguments site_dot {R} Y X.
Arguments env_eqb {R} E F. Arguments wf_env {R} E. Arguments opt_eqb {R} o x. Arguments is_none {T} o.
Arguments envs_eqb {R} o l.
Arguments lblocks {R} As Bs Ws L. Arguments rblocks2 {R} As Bs Ws.
Arguments lmats {R} As Bs T. Arguments rmats {R} As Bs T. Arguments dmats {R} As Ws T.
