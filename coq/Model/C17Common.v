(* Shared by Model/OpTree.v and Model/AutOp.v (property C17): result type with the error classes of the
   Python code, key maxima, small list helpers. *)
From Coq Require Import ZArith List Lia Bool.
From PT Require Import Base.Scalar Base.BigSum Model.OpGraph.
Import ListNotations.
Open Scope Z_scope.

(* error classes: ValueError, KeyError, RuntimeError, AssertionError, IndexError, model out of fuel *)
Inductive err : Type := EValue | EKey | ERuntime | EAssert | EIndex | EFuel.
Definition err_eqb (a b : err) : bool :=
  match a, b with
  | EValue, EValue | EKey, EKey | ERuntime, ERuntime | EAssert, EAssert | EIndex, EIndex | EFuel, EFuel => true
  | _, _ => false
  end.
Inductive res (A : Type) : Type := Ok (a : A) | Err (e : err).
Arguments Ok {A} a. Arguments Err {A} e.
Definition bind {A B} (r : res A) (f : A -> res B) : res B := match r with Ok a => f a | Err e => Err e end.
Definition of_opt {A} (e : err) (o : option A) : res A := match o with Some a => Ok a | None => Err e end.
Definition to_opt {A} (r : res A) : option A := match r with Ok a => Some a | Err _ => None end.

Section Keys.
  Variable R : cring.
  (* max(graph.nodes.keys()) : ValueError on an empty dictionary *)
  Definition max_nid (g : graph R) : res Z :=
    match g_nodes g with [] => Err EValue | _ => Ok (zmax (map n_id (g_nodes g)) 0) end.
  (* max(graph.edges.keys(), default=0) *)
  Definition max_eid (g : graph R) : Z := zmax (map e_id (g_edges g)) 0.
End Keys.
Arguments max_nid {R} g. Arguments max_eid {R} g.

Fixpoint index_of (x : Z) (l : list Z) : option nat :=
  match l with [] => None | y :: t => if x =? y then Some O else option_map S (index_of x t) end.
