(* Finite sums over an initial segment of nat in a [cring]. *)
From Coq Require Import Arith List Lia Ring Setoid Bool Permutation.
From PT Require Import Base.Scalar.
Import ListNotations.

Section BigSum.
  Variable R : cring.
  Add Ring Rring_bigsum : (k_rt R).
  Notation "0" := (k0 R). Notation "1" := (k1 R).
  Infix "+" := (kadd R). Infix "*" := (kmul R).

  Fixpoint sumn (n : nat) (f : nat -> R) : R :=
    match n with O => 0 | S m => sumn m f + f m end.

  Lemma sumn_ext n f g : (forall i, i < n -> f i = g i) -> sumn n f = sumn n g.
  Proof. induction n; simpl; intros H; [reflexivity|]. rewrite IHn, H; auto. Qed.

  Lemma sumn_zero n f : (forall i, i < n -> f i = 0) -> sumn n f = 0.
  Proof. induction n; simpl; intros H; [reflexivity|]. rewrite IHn, H; auto. ring. Qed.

  Lemma sumn_0 n : sumn n (fun _ => 0) = 0.
  Proof. apply sumn_zero; auto. Qed.

  Lemma sumn_add n f g : sumn n (fun i => f i + g i) = sumn n f + sumn n g.
  Proof. induction n; simpl; [ring|rewrite IHn; ring]. Qed.

  Lemma sumn_sub n f g : sumn n (fun i => ksub R (f i) (g i)) = ksub R (sumn n f) (sumn n g).
  Proof. induction n; simpl; [ring|rewrite IHn; ring]. Qed.

  Lemma sumn_opp n f : sumn n (fun i => kopp R (f i)) = kopp R (sumn n f).
  Proof. induction n; simpl; [ring|rewrite IHn; ring]. Qed.

  Lemma sumn_scal_l n c f : sumn n (fun i => c * f i) = c * sumn n f.
  Proof. induction n; simpl; [ring|rewrite IHn; ring]. Qed.

  Lemma sumn_scal_r n c f : sumn n (fun i => f i * c) = sumn n f * c.
  Proof. induction n; simpl; [ring|rewrite IHn; ring]. Qed.

  Lemma sumn_conj n f : kconj R (sumn n f) = sumn n (fun i => kconj R (f i)).
  Proof. induction n; simpl; [apply kconj_0|]. rewrite kconj_add, IHn. reflexivity. Qed.

  Lemma sumn_exch m n (f : nat -> nat -> R) :
    sumn m (fun i => sumn n (fun j => f i j)) = sumn n (fun j => sumn m (fun i => f i j)).
  Proof.
    induction m; simpl.
    - symmetry. apply sumn_0.
    - rewrite IHm, <- sumn_add. reflexivity.
  Qed.

  (* splitting a sum over m + n *)
  Lemma sumn_app m n f : sumn (m + n)%nat f = sumn m f + sumn n (fun i => f (m + i)%nat).
  Proof.
    induction n; simpl.
    - rewrite Nat.add_0_r. ring.
    - rewrite Nat.add_succ_r. simpl. rewrite IHn. ring.
  Qed.

  (* a sum with a single non-zero term *)
  Lemma sumn_single n k f : k < n -> (forall i, i < n -> i <> k -> f i = 0) -> sumn n f = f k.
  Proof.
    induction n; intros Hk H; [lia|]. simpl.
    destruct (Nat.eq_dec k n) as [->|Hne].
    - rewrite sumn_zero; [ring|]. intros i Hi. apply H; lia.
    - rewrite IHn; [|lia|intros; apply H; lia]. rewrite (H n); [ring|lia|lia].
  Qed.

  Lemma sumn_delta_l n k f : k < n ->
    sumn n (fun i => (if Nat.eqb i k then 1 else 0) * f i) = f k.
  Proof.
    intros Hk. rewrite (sumn_single n k); auto.
    - rewrite Nat.eqb_refl. ring.
    - intros i _ Hi. apply Nat.eqb_neq in Hi. rewrite Hi. ring.
  Qed.

  Lemma sumn_delta_r n k f : k < n ->
    sumn n (fun i => f i * (if Nat.eqb i k then 1 else 0)) = f k.
  Proof.
    intros Hk. rewrite (sumn_single n k); auto.
    - rewrite Nat.eqb_refl. ring.
    - intros i _ Hi. apply Nat.eqb_neq in Hi. rewrite Hi. ring.
  Qed.

  Lemma sumn_delta_out n k f : n <= k ->
    sumn n (fun i => (if Nat.eqb i k then 1 else 0) * f i) = 0.
  Proof.
    intros Hk. apply sumn_zero. intros i Hi.
    assert (E : Nat.eqb i k = false) by (apply Nat.eqb_neq; lia). rewrite E. ring.
  Qed.

  (* double sum over a product index  i*n + j  (row-major flattening) *)
  Lemma sumn_flatten m n (f : nat -> R) :
    sumn (m * n)%nat f = sumn m (fun i => sumn n (fun j => f (i * n + j)%nat)).
  Proof.
    induction m; simpl; [reflexivity|].
    rewrite Nat.add_comm, sumn_app, IHm. reflexivity.
  Qed.

  (* sums over lists *)
  Fixpoint suml {A} (l : list A) (f : A -> R) : R :=
    match l with [] => 0 | x :: t => f x + suml t f end.

  Lemma suml_app {A} (l1 l2 : list A) f : suml (l1 ++ l2) f = suml l1 f + suml l2 f.
  Proof. induction l1; simpl; [ring|rewrite IHl1; ring]. Qed.

  Lemma suml_ext {A} (l : list A) f g : (forall x, In x l -> f x = g x) -> suml l f = suml l g.
  Proof. induction l; simpl; intros H; [reflexivity|]. rewrite IHl, H; auto. Qed.

  Lemma suml_add {A} (l : list A) f g : suml l (fun x => f x + g x) = suml l f + suml l g.
  Proof. induction l; simpl; [ring|rewrite IHl; ring]. Qed.

  Lemma suml_scal_l {A} (l : list A) c f : suml l (fun x => c * f x) = c * suml l f.
  Proof. induction l; simpl; [ring|rewrite IHl; ring]. Qed.

  Lemma suml_scal_r {A} (l : list A) c f : suml l (fun x => f x * c) = suml l f * c.
  Proof. induction l; simpl; [ring|rewrite IHl; ring]. Qed.

  Lemma suml_zero {A} (l : list A) f : (forall x, In x l -> f x = 0) -> suml l f = 0.
  Proof. induction l; simpl; intros H; [reflexivity|]. rewrite IHl, H; auto. ring. Qed.

  Lemma suml_map {A B} (h : A -> B) (l : list A) f : suml (map h l) f = suml l (fun x => f (h x)).
  Proof. induction l; simpl; [reflexivity|rewrite IHl; reflexivity]. Qed.

  Lemma suml_seq n f : suml (seq 0 n) f = sumn n f.
  Proof.
    induction n; [reflexivity|]. rewrite seq_S, suml_app. simpl. rewrite IHn. ring.
  Qed.

  Lemma suml_exch {A B} (la : list A) (lb : list B) (f : A -> B -> R) :
    suml la (fun a => suml lb (fun b => f a b)) = suml lb (fun b => suml la (fun a => f a b)).
  Proof.
    induction la; simpl.
    - symmetry. apply suml_zero; auto.
    - rewrite IHla, <- suml_add. reflexivity.
  Qed.

  Lemma suml_permutation {A} (l1 l2 : list A) f :
    Permutation l1 l2 -> suml l1 f = suml l2 f.
  Proof. induction 1; simpl; [reflexivity | rewrite IHPermutation; reflexivity | ring | congruence]. Qed.
End BigSum.

Arguments sumn {R} n f.
Arguments suml {R A} l f.
