(* Matrices as records of shape and row lists; every operation is a tabulation of an
   index comprehension over [get], so that one lemma ([get_tab]) drives all proofs and
   evaluation materialises each intermediate result once. *)
From Coq Require Import Arith List Lia Ring Setoid Bool.
From PT Require Import Base.Scalar Base.BigSum.
Import ListNotations.

Record mx (R : cring) : Type := mkmx { nr : nat; nc : nat; dat : list (list R) }.
Arguments mkmx {R} nr nc dat.
Arguments nr {R} m. Arguments nc {R} m. Arguments dat {R} m.

Section Mx.
  Variable R : cring.
  Add Ring Rring_mx : (k_rt R).
  Notation "0" := (k0 R). Notation "1" := (k1 R).
  Infix "+" := (kadd R). Infix "*" := (kmul R).
  Notation mx := (mx R).

  Definition get (A : mx) (i j : nat) : R := nth j (nth i (dat A) []) 0.
  Definition tab (m n : nat) (f : nat -> nat -> R) : mx :=
    mkmx m n (map (fun i => map (fun j => f i j) (seq 0%nat n)) (seq 0%nat m)).

  Lemma nr_tab m n f : nr (tab m n f) = m. Proof. reflexivity. Qed.
  Lemma nc_tab m n f : nc (tab m n f) = n. Proof. reflexivity. Qed.

  Lemma nth_map_seq {A} (d : A) n (f : nat -> A) i : (i < n)%nat -> nth i (map f (seq 0%nat n)) d = f i.
  Proof.
    intros H. rewrite (nth_indep _ d (f 0%nat)) by (rewrite map_length, seq_length; exact H).
    rewrite (map_nth f (seq 0%nat n) 0%nat i), seq_nth by exact H. reflexivity.
  Qed.

  Lemma get_tab m n f i j : (i < m)%nat -> (j < n)%nat -> get (tab m n f) i j = f i j.
  Proof. intros Hi Hj. unfold get, tab; cbn [dat]. rewrite nth_map_seq by exact Hi. apply nth_map_seq; exact Hj. Qed.

  Lemma get_tab_out m n f i j : (m <= i)%nat \/ (n <= j)%nat -> get (tab m n f) i j = 0.
  Proof.
    intros H. unfold get, tab; cbn [dat].
    destruct (lt_dec i m) as [Hi|Hi].
    - rewrite nth_map_seq by exact Hi. apply nth_overflow. rewrite map_length, seq_length. lia.
    - rewrite (nth_overflow _ []) by (rewrite map_length, seq_length; lia). destruct j; reflexivity.
  Qed.

  Lemma tab_ext m n f g : (forall i j, (i < m)%nat -> (j < n)%nat -> f i j = g i j) -> tab m n f = tab m n g.
  Proof.
    intros H. unfold tab. f_equal. apply map_ext_in. intros i Hi. apply in_seq in Hi.
    apply map_ext_in. intros j Hj. apply in_seq in Hj. apply H; lia.
  Qed.

  (* well-formed: the row lists have the declared shape *)
  Definition wf (A : mx) : Prop := A = tab (nr A) (nc A) (get A).
  Definition wfb (A : mx) : bool :=
    Nat.eqb (length (dat A)) (nr A) && forallb (fun r => Nat.eqb (length r) (nc A)) (dat A).

  Lemma wf_tab m n f : wf (tab m n f).
  Proof. unfold wf. rewrite nr_tab, nc_tab. apply tab_ext. intros. symmetry. apply get_tab; assumption. Qed.

  Lemma list_eq_nth {A} (d : A) (l1 l2 : list A) :
    length l1 = length l2 -> (forall i, (i < length l1)%nat -> nth i l1 d = nth i l2 d) -> l1 = l2.
  Proof.
    revert l2; induction l1 as [|a l1 IH]; intros [|b l2] Hl H; simpl in *; try discriminate; auto.
    f_equal. { apply (H 0%nat). lia. } apply IH; [lia|]. intros i Hi. apply (H (S i)). lia.
  Qed.

  Lemma wfb_wf A : wfb A = true -> wf A.
  Proof.
    unfold wfb, wf. rewrite andb_true_iff, Nat.eqb_eq, forallb_forall. intros [Hl Hr].
    destruct A as [m n d]; cbn [nr nc dat] in *. unfold tab. f_equal.
    apply (list_eq_nth []).
    - rewrite map_length, seq_length. exact Hl.
    - intros i Hi. rewrite nth_map_seq by lia. unfold get; cbn [dat].
      assert (Hn : length (nth i d []) = n). { apply Nat.eqb_eq, Hr, nth_In. exact Hi. }
      apply (list_eq_nth 0).
      + rewrite map_length, seq_length. exact Hn.
      + intros j Hj. rewrite nth_map_seq by lia. reflexivity.
  Qed.

  Lemma mx_ext A B : wf A -> wf B -> nr A = nr B -> nc A = nc B ->
    (forall i j, (i < nr A)%nat -> (j < nc A)%nat -> get A i j = get B i j) -> A = B.
  Proof. intros HA HB Hr Hc H. rewrite HA, HB, <- Hr, <- Hc. apply tab_ext. exact H. Qed.

  (* ---- operations ---- *)
  Definition zeromx m n : mx := tab m n (fun _ _ => 0).
  Definition idmx n : mx := tab n n (fun i j => if Nat.eqb i j then 1 else 0).
  Definition addmx (A B : mx) : mx := tab (nr A) (nc A) (fun i j => get A i j + get B i j).
  Definition submx (A B : mx) : mx := tab (nr A) (nc A) (fun i j => ksub R (get A i j) (get B i j)).
  Definition oppmx (A : mx) : mx := tab (nr A) (nc A) (fun i j => kopp R (get A i j)).
  Definition scalemx (c : R) (A : mx) : mx := tab (nr A) (nc A) (fun i j => c * get A i j).
  Definition mulmx (A B : mx) : mx :=
    tab (nr A) (nc B) (fun i j => sumn (nc A) (fun k => get A i k * get B k j)).
  Definition trmx (A : mx) : mx := tab (nc A) (nr A) (fun i j => get A j i).
  Definition conjmx (A : mx) : mx := tab (nr A) (nc A) (fun i j => kconj R (get A i j)).
  Definition adjmx (A : mx) : mx := tab (nc A) (nr A) (fun i j => kconj R (get A j i)).
  (* np.block([[A, B]]), np.block([[A],[B]]), np.block([[A,0],[0,B]]) *)
  Definition row_mx (A B : mx) : mx :=
    tab (nr A) (nc A + nc B) (fun i j => if Nat.ltb j (nc A) then get A i j else get B i (j - nc A)).
  Definition col_mx (A B : mx) : mx :=
    tab (nr A + nr B) (nc A) (fun i j => if Nat.ltb i (nr A) then get A i j else get B (i - nr A) j).
  Definition diag_mx (A B : mx) : mx :=
    tab (nr A + nr B) (nc A + nc B) (fun i j =>
      if Nat.ltb i (nr A) then (if Nat.ltb j (nc A) then get A i j else 0)
      else (if Nat.ltb j (nc A) then 0 else get B (i - nr A) (j - nc A))).
  (* A[i0:i1, j0:j1] *)
  Definition slicemx (A : mx) (i0 i1 j0 j1 : nat) : mx :=
    tab (i1 - i0) (j1 - j0) (fun i j => get A (i0 + i) (j0 + j)).
  (* A[p, :] and A[:, p] for an index list p *)
  Definition rowsel (p : list nat) (A : mx) : mx := tab (length p) (nc A) (fun i j => get A (nth i p 0%nat) j).
  Definition colsel (p : list nat) (A : mx) : mx := tab (nr A) (length p) (fun i j => get A i (nth j p 0%nat)).
  Definition kronmx (A B : mx) : mx :=
    tab (nr A * nr B) (nc A * nc B) (fun i j =>
      get A (i / nr B) (j / nc B) * get B (i mod nr B) (j mod nc B)).
  Definition tracemx (A : mx) : R := sumn (nr A) (fun i => get A i i).
  (* Frobenius inner product  sum conj(A_ij) B_ij *)
  Definition frob (A B : mx) : R :=
    sumn (nr A) (fun i => sumn (nc A) (fun j => kconj R (get A i j) * get B i j)).

  Definition mxeqb (A B : mx) : bool :=
    Nat.eqb (nr A) (nr B) && Nat.eqb (nc A) (nc B) &&
    forallb (fun i => forallb (fun j => keqb R (get A i j) (get B i j)) (seq 0%nat (nc A))) (seq 0%nat (nr A)).

  Lemma mxeqb_true A B : wf A -> wf B -> mxeqb A B = true -> A = B.
  Proof.
    unfold mxeqb. rewrite !andb_true_iff, !Nat.eqb_eq, forallb_forall. intros HA HB [[Hr Hc] H].
    apply mx_ext; auto. intros i j Hi Hj.
    specialize (H i). rewrite forallb_forall in H. apply keqb_spec, H; apply in_seq; lia.
  Qed.

  (* ---- shape lemmas ---- *)
  Lemma nr_mulmx A B : nr (mulmx A B) = nr A. Proof. reflexivity. Qed.
  Lemma nc_mulmx A B : nc (mulmx A B) = nc B. Proof. reflexivity. Qed.
  Lemma nr_addmx A B : nr (addmx A B) = nr A. Proof. reflexivity. Qed.
  Lemma nc_addmx A B : nc (addmx A B) = nc A. Proof. reflexivity. Qed.
  Lemma nr_scalemx c A : nr (scalemx c A) = nr A. Proof. reflexivity. Qed.
  Lemma nc_scalemx c A : nc (scalemx c A) = nc A. Proof. reflexivity. Qed.
  Lemma nr_adjmx A : nr (adjmx A) = nc A. Proof. reflexivity. Qed.
  Lemma nc_adjmx A : nc (adjmx A) = nr A. Proof. reflexivity. Qed.
  Lemma nr_idmx n : nr (idmx n) = n. Proof. reflexivity. Qed.
  Lemma nc_idmx n : nc (idmx n) = n. Proof. reflexivity. Qed.
  Lemma nr_zeromx m n : nr (zeromx m n) = m. Proof. reflexivity. Qed.
  Lemma nc_zeromx m n : nc (zeromx m n) = n. Proof. reflexivity. Qed.
  Lemma nr_row_mx A B : nr (row_mx A B) = nr A. Proof. reflexivity. Qed.
  Lemma nc_row_mx A B : nc (row_mx A B) = (nc A + nc B)%nat. Proof. reflexivity. Qed.
  Lemma nr_col_mx A B : nr (col_mx A B) = (nr A + nr B)%nat. Proof. reflexivity. Qed.
  Lemma nc_col_mx A B : nc (col_mx A B) = nc A. Proof. reflexivity. Qed.
  Lemma nr_diag_mx A B : nr (diag_mx A B) = (nr A + nr B)%nat. Proof. reflexivity. Qed.
  Lemma nc_diag_mx A B : nc (diag_mx A B) = (nc A + nc B)%nat. Proof. reflexivity. Qed.

  Lemma wf_mulmx A B : wf (mulmx A B). Proof. apply wf_tab. Qed.
  Lemma wf_addmx A B : wf (addmx A B). Proof. apply wf_tab. Qed.
  Lemma wf_submx A B : wf (submx A B). Proof. apply wf_tab. Qed.
  Lemma wf_scalemx c A : wf (scalemx c A). Proof. apply wf_tab. Qed.
  Lemma wf_idmx n : wf (idmx n). Proof. apply wf_tab. Qed.
  Lemma wf_zeromx m n : wf (zeromx m n). Proof. apply wf_tab. Qed.
  Lemma wf_adjmx A : wf (adjmx A). Proof. apply wf_tab. Qed.
  Lemma wf_trmx A : wf (trmx A). Proof. apply wf_tab. Qed.
  Lemma wf_row_mx A B : wf (row_mx A B). Proof. apply wf_tab. Qed.
  Lemma wf_col_mx A B : wf (col_mx A B). Proof. apply wf_tab. Qed.
  Lemma wf_diag_mx A B : wf (diag_mx A B). Proof. apply wf_tab. Qed.

  (* ---- entry lemmas ---- *)
  Lemma get_out A i j : wf A -> (nr A <= i)%nat \/ (nc A <= j)%nat -> get A i j = 0.
  Proof. intros HA H. rewrite HA. apply get_tab_out. exact H. Qed.

  Lemma get_mulmx A B i j : (i < nr A)%nat -> (j < nc B)%nat ->
    get (mulmx A B) i j = sumn (nc A) (fun k => get A i k * get B k j).
  Proof. intros. unfold mulmx. apply get_tab; assumption. Qed.

  Lemma get_addmx A B i j : (i < nr A)%nat -> (j < nc A)%nat -> get (addmx A B) i j = get A i j + get B i j.
  Proof. intros. unfold addmx. apply get_tab; assumption. Qed.

  Lemma get_scalemx c A i j : (i < nr A)%nat -> (j < nc A)%nat -> get (scalemx c A) i j = c * get A i j.
  Proof. intros. unfold scalemx. apply get_tab; assumption. Qed.

  Lemma get_adjmx A i j : (i < nc A)%nat -> (j < nr A)%nat -> get (adjmx A) i j = kconj R (get A j i).
  Proof. intros. unfold adjmx. apply get_tab; assumption. Qed.

  Lemma get_idmx n i j : (i < n)%nat -> (j < n)%nat -> get (idmx n) i j = if Nat.eqb i j then 1 else 0.
  Proof. intros. unfold idmx. apply get_tab; assumption. Qed.

  Lemma get_zeromx m n i j : get (zeromx m n) i j = 0.
  Proof.
    destruct (lt_dec i m); [destruct (lt_dec j n)|]; unfold zeromx;
      [apply get_tab; assumption | apply get_tab_out; lia | apply get_tab_out; lia].
  Qed.

  Lemma mulmx_assoc A B C : nc A = nr B -> nc B = nr C ->
    mulmx (mulmx A B) C = mulmx A (mulmx B C).
  Proof.
    intros H1 H2. apply mx_ext; try apply wf_mulmx; rewrite ?nr_mulmx, ?nc_mulmx; auto.
    intros i j Hi Hj. rewrite !get_mulmx by (rewrite ?nr_mulmx, ?nc_mulmx; assumption).
    rewrite nc_mulmx.
    transitivity (sumn (nc B) (fun l => sumn (nc A) (fun k => get A i k * get B k l * get C l j))).
    { apply sumn_ext. intros l Hl. rewrite get_mulmx by assumption. rewrite <- sumn_scal_r. reflexivity. }
    rewrite sumn_exch. apply sumn_ext. intros k Hk.
    rewrite get_mulmx by (try lia; assumption). rewrite <- sumn_scal_l. apply sumn_ext. intros; ring.
  Qed.

  Lemma mulmx_1_l A : wf A -> mulmx (idmx (nr A)) A = A.
  Proof.
    intros HA. apply mx_ext; try apply wf_mulmx; auto. rewrite nr_mulmx, nc_mulmx, nr_idmx.
    intros i j Hi Hj. rewrite get_mulmx by (rewrite ?nr_idmx; assumption). rewrite nc_idmx.
    transitivity (sumn (nr A) (fun k => (if Nat.eqb k i then 1 else 0) * get A k j)).
    { apply sumn_ext. intros k Hk. rewrite get_idmx by assumption. rewrite (Nat.eqb_sym i k). reflexivity. }
    apply (sumn_delta_l R (nr A) i (fun k => get A k j)). exact Hi.
  Qed.

  Lemma mulmx_1_r A : wf A -> mulmx A (idmx (nc A)) = A.
  Proof.
    intros HA. apply mx_ext; try apply wf_mulmx; auto. rewrite nr_mulmx, nc_mulmx, nc_idmx.
    intros i j Hi Hj. rewrite get_mulmx by (rewrite ?nc_idmx; assumption).
    transitivity (sumn (nc A) (fun k => get A i k * (if Nat.eqb k j then 1 else 0))).
    { apply sumn_ext. intros k Hk. rewrite get_idmx by assumption. reflexivity. }
    apply (sumn_delta_r R (nc A) j (fun k => get A i k)). exact Hj.
  Qed.

  Lemma mulmx_addmx_l A B C : nr A = nr B -> nc A = nc B ->
    mulmx (addmx A B) C = addmx (mulmx A C) (mulmx B C).
  Proof.
    intros Hr Hc. apply mx_ext; try apply wf_mulmx; try apply wf_addmx;
      rewrite ?nr_mulmx, ?nc_mulmx, ?nr_addmx, ?nc_addmx, ?nr_mulmx, ?nc_mulmx; auto.
    intros i j Hi Hj. rewrite get_mulmx, get_addmx, !get_mulmx
      by (rewrite ?nr_mulmx, ?nc_mulmx, ?nr_addmx, ?nc_addmx; try lia; assumption).
    rewrite nc_addmx, <- Hc, <- sumn_add. apply sumn_ext. intros k Hk.
    rewrite get_addmx by assumption. ring.
  Qed.

  Lemma mulmx_addmx_r A B C : nc A = nr B -> nr B = nr C -> nc B = nc C ->
    mulmx A (addmx B C) = addmx (mulmx A B) (mulmx A C).
  Proof.
    intros HA Hr Hc. apply mx_ext; try apply wf_mulmx; try apply wf_addmx;
      rewrite ?nr_mulmx, ?nc_mulmx, ?nr_addmx, ?nc_addmx, ?nr_mulmx, ?nc_mulmx; auto.
    intros i j Hi Hj. rewrite get_mulmx, get_addmx, !get_mulmx
      by (rewrite ?nr_mulmx, ?nc_mulmx, ?nr_addmx, ?nc_addmx; try lia; assumption).
    rewrite <- sumn_add. apply sumn_ext. intros k Hk.
    rewrite get_addmx by lia. ring.
  Qed.

  Lemma mulmx_scalemx_l c A B : mulmx (scalemx c A) B = scalemx c (mulmx A B).
  Proof.
    apply mx_ext; try apply wf_mulmx; try apply wf_scalemx; auto.
    rewrite nr_mulmx, nc_mulmx, nr_scalemx. intros i j Hi Hj.
    rewrite get_mulmx, get_scalemx, get_mulmx by (rewrite ?nr_scalemx, ?nr_mulmx, ?nc_mulmx; assumption).
    rewrite nc_scalemx, <- sumn_scal_l.
    apply sumn_ext. intros k Hk. rewrite get_scalemx by assumption. ring.
  Qed.

  Lemma mulmx_scalemx_r c A B : nc A = nr B -> mulmx A (scalemx c B) = scalemx c (mulmx A B).
  Proof.
    intros H. apply mx_ext; try apply wf_mulmx; try apply wf_scalemx; auto.
    rewrite nr_mulmx, nc_mulmx, nc_scalemx. intros i j Hi Hj.
    rewrite get_mulmx, get_scalemx, get_mulmx by (rewrite ?nc_scalemx, ?nr_mulmx, ?nc_mulmx; assumption).
    rewrite <- sumn_scal_l.
    apply sumn_ext. intros k Hk. rewrite get_scalemx by lia. ring.
  Qed.

  Lemma adjmx_mulmx A B : nc A = nr B -> adjmx (mulmx A B) = mulmx (adjmx B) (adjmx A).
  Proof.
    intros H. apply mx_ext; try apply wf_mulmx; try apply wf_adjmx; auto.
    rewrite nr_adjmx, nc_adjmx, nr_mulmx, nc_mulmx. intros i j Hi Hj.
    rewrite get_adjmx, !get_mulmx by (rewrite ?nr_adjmx, ?nc_adjmx, ?nr_mulmx, ?nc_mulmx; assumption).
    rewrite sumn_conj, nc_adjmx, H.
    apply sumn_ext. intros k Hk. rewrite !get_adjmx by lia. rewrite kconj_mul. ring.
  Qed.
End Mx.

Arguments get {R} A i j.
Arguments tab {R} m n f.
Arguments wf {R} A. Arguments wfb {R} A.
Arguments zeromx {R} m n. Arguments idmx {R} n.
Arguments addmx {R} A B. Arguments submx {R} A B. Arguments oppmx {R} A. Arguments scalemx {R} c A.
Arguments mulmx {R} A B. Arguments trmx {R} A. Arguments conjmx {R} A. Arguments adjmx {R} A.
Arguments row_mx {R} A B. Arguments col_mx {R} A B. Arguments diag_mx {R} A B.
Arguments slicemx {R} A i0 i1 j0 j1. Arguments rowsel {R} p A. Arguments colsel {R} p A.
Arguments kronmx {R} A B. Arguments tracemx {R} A. Arguments frob {R} A B. Arguments mxeqb {R} A B.
