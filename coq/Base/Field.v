(* Ordered fields (real scalars: norms, tolerances, singular values) and their complexification.
   Theorems that mention norms, non-negativity or tolerances quantify over every [ofield];
   execution uses the instance [QcF] (canonical rationals) and its complexification [Cx QcF]. *)
From Coq Require Import ZArith QArith Qcanon List Lia Ring Field Setoid Bool.
From PT Require Import Base.Scalar.
Import ListNotations.

Record ofield : Type := {
  F :> Type;
  f0 : F; f1 : F;
  fadd : F -> F -> F; fmul : F -> F -> F; fsub : F -> F -> F; fopp : F -> F;
  fdiv : F -> F -> F; finv : F -> F;
  fleb : F -> F -> bool;
  f_ft : field_theory f0 f1 fadd fmul fsub fopp fdiv finv (@eq F);
  fle_refl : forall a, fleb a a = true;
  fle_antisym : forall a b, fleb a b = true -> fleb b a = true -> a = b;
  fle_trans : forall a b c, fleb a b = true -> fleb b c = true -> fleb a c = true;
  fle_total : forall a b, fleb a b = true \/ fleb b a = true;
  fle_add : forall a b c, fleb a b = true -> fleb (fadd a c) (fadd b c) = true;
  fle_mul : forall a b, fleb f0 a = true -> fleb f0 b = true -> fleb f0 (fmul a b) = true
}.

Definition fle (F : ofield) (a b : F) : Prop := fleb F a b = true.
Definition flt (F : ofield) (a b : F) : Prop := fleb F b a = false.
Definition feqb (F : ofield) (a b : F) : bool := fleb F a b && fleb F b a.
Definition fltb (F : ofield) (a b : F) : bool := negb (fleb F b a).

Section OrderedField.
  Variable F : ofield.
  Add Field Ffield_of : (f_ft F).
  Notation "0" := (f0 F). Notation "1" := (f1 F).
  Infix "+" := (fadd F). Infix "*" := (fmul F). Infix "-" := (fsub F).
  Notation "- x" := (fopp F x).
  Infix "<=" := (fle F). Infix "<" := (flt F).

  Lemma feqb_spec a b : feqb F a b = true <-> a = b.
  Proof.
    unfold feqb. rewrite andb_true_iff. split.
    - intros [H1 H2]. apply fle_antisym; assumption.
    - intros ->. split; apply fle_refl.
  Qed.

  Lemma flt_le a b : a < b -> a <= b.
  Proof. unfold flt, fle. intros H. destruct (fle_total F a b) as [H1|H1]; [exact H1|congruence]. Qed.

  Lemma flt_irrefl a : ~ a < a.
  Proof. unfold flt. rewrite fle_refl. discriminate. Qed.

  Lemma fle_lt_dec a b : {a <= b} + {b < a}.
  Proof. unfold fle, flt. destruct (fleb F a b); [left|right]; reflexivity. Qed.

  Lemma flt_not_le a b : a < b <-> ~ b <= a.
  Proof.
    unfold flt, fle. destruct (fleb F b a); split; intros H.
    - discriminate.
    - exfalso. apply H. reflexivity.
    - discriminate.
    - reflexivity.
  Qed.

  Lemma fle_lt_trans a b c : a <= b -> b < c -> a < c.
  Proof. intros H1 H2. apply flt_not_le. intros H3. apply flt_not_le in H2. apply H2. eapply fle_trans; eauto. Qed.

  Lemma flt_le_trans a b c : a < b -> b <= c -> a < c.
  Proof. intros H1 H2. apply flt_not_le. intros H3. apply flt_not_le in H1. apply H1. eapply fle_trans; eauto. Qed.

  Lemma flt_neq a b : a < b -> a <> b.
  Proof. intros H E. subst. exact (flt_irrefl _ H). Qed.

  Lemma fle_neq_lt a b : a <= b -> a <> b -> a < b.
  Proof. intros H Hn. apply flt_not_le. intros H2. apply Hn. apply fle_antisym; assumption. Qed.

  Lemma fle_add_compat a b c d : a <= b -> c <= d -> a + c <= b + d.
  Proof.
    intros H1 H2. apply (fle_trans F _ (b + c)); [apply fle_add; exact H1|].
    replace (b + c) with (c + b) by ring. replace (b + d) with (d + b) by ring. apply fle_add; exact H2.
  Qed.

  Lemma fle_sub_nonneg a b : a <= b <-> 0 <= b - a.
  Proof.
    split; intros H.
    - replace 0 with (a + - a) by ring. replace (b - a) with (b + - a) by ring. apply fle_add; exact H.
    - replace a with (0 + a) by ring. replace b with ((b - a) + a) by ring. apply fle_add; exact H.
  Qed.

  Lemma fle_eq a b a' b' : a = a' -> b = b' -> a <= b -> a' <= b'.
  Proof. intros -> ->. exact (fun H => H). Qed.

  Lemma fle_opp a : 0 <= a -> - a <= 0.
  Proof. intros H. eapply fle_eq; [| |apply (fle_add F 0 a (- a)); exact H]; ring. Qed.

  Lemma fle_opp' a : a <= 0 -> 0 <= - a.
  Proof. intros H. eapply fle_eq; [| |apply (fle_add F a 0 (- a)); exact H]; ring. Qed.

  Lemma fsq_nonneg a : 0 <= a * a.
  Proof.
    destruct (fle_total F 0 a) as [H|H].
    - apply fle_mul; exact H.
    - replace (a * a) with ((- a) * (- a)) by ring. apply fle_mul; apply fle_opp'; exact H.
  Qed.

  Lemma fle_add_nonneg a b : 0 <= a -> 0 <= b -> 0 <= a + b.
  Proof. intros H1 H2. replace 0 with (0 + 0) by ring. apply fle_add_compat; assumption. Qed.

  Lemma fadd_nonneg_zero a b : 0 <= a -> 0 <= b -> a + b = 0 -> a = 0 /\ b = 0.
  Proof.
    intros Ha Hb E. assert (Ha' : a <= 0).
    { eapply fle_eq; [| |apply (fle_add F 0 b a); exact Hb]; [ring|]. rewrite <- E. ring. }
    assert (a = 0) by (apply fle_antisym; assumption). subst. split; [reflexivity|]. rewrite <- E. ring.
  Qed.

  Lemma fsq_zero a : a * a = 0 -> a = 0.
  Proof.
    intros H. destruct (feqb F a 0) eqn:E; [apply feqb_spec; exact E|].
    assert (Hn : a <> 0) by (intros E2; apply feqb_spec in E2; congruence).
    replace a with (a * a * finv F a) by (field; exact Hn). rewrite H. ring.
  Qed.

  Lemma f1_pos : 0 < 1.
  Proof.
    apply fle_neq_lt.
    - replace 1 with (1 * 1) by ring. apply fsq_nonneg.
    - intros E. symmetry in E. exact (F_1_neq_0 (f_ft F) E).
  Qed.

  Lemma fle_mul_nonneg_compat a b c : 0 <= c -> a <= b -> a * c <= b * c.
  Proof.
    intros Hc H. apply (proj2 (fle_sub_nonneg _ _)). replace (b * c - a * c) with ((b - a) * c) by ring.
    apply fle_mul; [apply (proj1 (fle_sub_nonneg _ _)); exact H|exact Hc].
  Qed.

  Lemma fmul_pos a b : 0 < a -> 0 < b -> 0 < a * b.
  Proof.
    intros Ha Hb. apply fle_neq_lt; [apply fle_mul; apply flt_le; assumption|].
    intros E. symmetry in E. apply (flt_neq _ _ Ha). symmetry.
    replace a with (a * b * finv F b) by (field; intros E2; apply (flt_neq _ _ Hb); auto). rewrite E. ring.
  Qed.

  Lemma finv_pos a : 0 < a -> 0 < finv F a.
  Proof.
    intros Ha. assert (Hn : a <> 0) by (intros E; apply (flt_neq _ _ Ha); auto).
    apply flt_not_le. intros H.
    assert (H1 : 1 <= 0).
    { replace 1 with (finv F a * a) by (field; exact Hn). replace 0 with (0 * a) by ring.
      apply fle_mul_nonneg_compat; [apply flt_le; exact Ha|exact H]. }
    apply (flt_not_le 0 1); [exact f1_pos|exact H1].
  Qed.
End OrderedField.

(* ---------- complexification ---------- *)
Section Complex.
  Variable F : ofield.
  Add Field Ffield_cx : (f_ft F).
  Definition C := (F * F)%type.
  Definition cadd (a b : C) : C := (fadd F (fst a) (fst b), fadd F (snd a) (snd b)).
  Definition cmul (a b : C) : C :=
    (fsub F (fmul F (fst a) (fst b)) (fmul F (snd a) (snd b)), fadd F (fmul F (fst a) (snd b)) (fmul F (snd a) (fst b))).
  Definition copp (a : C) : C := (fopp F (fst a), fopp F (snd a)).
  Definition csub (a b : C) : C := (fsub F (fst a) (fst b), fsub F (snd a) (snd b)).
  Definition cconj (a : C) : C := (fst a, fopp F (snd a)).
  Definition ceqb (a b : C) : bool := feqb F (fst a) (fst b) && feqb F (snd a) (snd b).
  Definition cof (x : F) : C := (x, f0 F).
  Definition cre (a : C) : F := fst a.
  Definition cim (a : C) : F := snd a.
  Definition cnorm2 (a : C) : F := fadd F (fmul F (fst a) (fst a)) (fmul F (snd a) (snd a)).
  (* division of a complex number by a real one, and the inverse *)
  Definition cdivr (a : C) (r : F) : C := (fdiv F (fst a) r, fdiv F (snd a) r).
  Definition cinv (a : C) : C := cdivr (cconj a) (cnorm2 a).

  Lemma C_rt : ring_theory (f0 F, f0 F) (f1 F, f0 F) cadd cmul csub copp (@eq C).
  Proof.
    constructor; intros; repeat match goal with x : C |- _ => destruct x end;
    unfold csub, cadd, cmul, copp; apply injective_projections; cbn [fst snd]; ring.
  Qed.

  Definition Cx : cring.
  Proof.
    refine {| K := C; k0 := (f0 F, f0 F); k1 := (f1 F, f0 F); kadd := cadd; kmul := cmul; ksub := csub; kopp := copp;
              kconj := cconj; keqb := ceqb; k_rt := C_rt |};
    intros; repeat match goal with x : C |- _ => destruct x end; unfold cconj, cadd, cmul, ceqb;
    cbn [fst snd]; try (apply injective_projections; cbn [fst snd]; ring).
    rewrite andb_true_iff, !feqb_spec. split; [intros [-> ->]; reflexivity | intros E; inversion E; auto].
  Defined.

  Lemma cconj_mul_self a : cmul (cconj a) a = cof (cnorm2 a).
  Proof. destruct a. unfold cmul, cconj, cof, cnorm2. cbn [fst snd]. apply injective_projections; cbn [fst snd]; ring. Qed.

  Lemma cnorm2_nonneg a : fle F (f0 F) (cnorm2 a).
  Proof. unfold cnorm2. apply fle_add_nonneg; apply fsq_nonneg. Qed.

  Lemma cnorm2_zero a : cnorm2 a = f0 F -> a = (f0 F, f0 F).
  Proof.
    destruct a as [x y]. unfold cnorm2. cbn [fst snd]. intros H.
    apply fadd_nonneg_zero in H; try apply fsq_nonneg. destruct H as [H1 H2].
    apply fsq_zero in H1. apply fsq_zero in H2. subst. reflexivity.
  Qed.

  Lemma cinv_l a : a <> (f0 F, f0 F) -> cmul (cinv a) a = (f1 F, f0 F).
  Proof.
    intros Hn. assert (H : cnorm2 a <> f0 F) by (intros E; apply Hn, cnorm2_zero; exact E).
    destruct a as [x y]. unfold cinv, cdivr, cmul, cconj, cnorm2 in *. cbn [fst snd] in *.
    apply injective_projections; cbn [fst snd]; field; exact H.
  Qed.
End Complex.

Arguments cof {F} x. Arguments cre {F} a. Arguments cim {F} a. Arguments cnorm2 {F} a.
Arguments cdivr {F} a r. Arguments cinv {F} a.

(* ---------- the executable instance: canonical rationals ---------- *)
Definition Qcleb (a b : Qc) : bool := Qle_bool (this a) (this b).
Lemma Qcleb_iff a b : Qcleb a b = true <-> (a <= b)%Qc.
Proof. unfold Qcleb, Qcle. apply Qle_bool_iff. Qed.

Definition QcF : ofield.
Proof.
  refine {| F := Qc; f0 := 0%Qc; f1 := 1%Qc; fadd := Qcplus; fmul := Qcmult; fsub := Qcminus; fopp := Qcopp;
            fdiv := Qcdiv; finv := Qcinv; fleb := Qcleb; f_ft := Qcft |}.
  - intros a. apply Qcleb_iff. apply Qcle_refl.
  - intros a b H1 H2. apply Qcleb_iff in H1, H2. apply Qcle_antisym; assumption.
  - intros a b c H1 H2. apply Qcleb_iff in H1, H2. apply Qcleb_iff. eapply Qcle_trans; eauto.
  - intros a b. rewrite !Qcleb_iff. destruct (Qclt_le_dec a b) as [H|H]; [left; apply Qclt_le_weak; exact H|right; exact H].
  - intros a b c H. apply Qcleb_iff in H. apply Qcleb_iff. apply Qcplus_le_compat; [exact H|apply Qcle_refl].
  - intros a b H1 H2. apply Qcleb_iff in H1, H2. apply Qcleb_iff.
    replace 0%Qc with (0 * b)%Qc by ring. apply Qcmult_le_compat_r; assumption.
Defined.

(* Gaussian rationals as the complexification of QcF; carrier (Qc * Qc) as for [QIring] *)
Definition CQ : cring := Cx QcF.
