(* Scalars: commutative rings with an involution (conjugation) and decidable equality.
   Models are polymorphic over [cring]; they are executed at the instances [GI] (Gaussian
   integers, exact runs) and [QI] (Gaussian rationals, replay of recorded float answers). *)
From Coq Require Import ZArith QArith Qcanon List Lia Ring Setoid Bool.
Import ListNotations.

Record cring : Type := {
  K :> Type;
  k0 : K; k1 : K;
  kadd : K -> K -> K; kmul : K -> K -> K; ksub : K -> K -> K; kopp : K -> K;
  kconj : K -> K;
  keqb : K -> K -> bool;
  k_rt : ring_theory k0 k1 kadd kmul ksub kopp (@eq K);
  kconj_add : forall a b, kconj (kadd a b) = kadd (kconj a) (kconj b);
  kconj_mul : forall a b, kconj (kmul a b) = kmul (kconj a) (kconj b);
  kconj_inv : forall a, kconj (kconj a) = a;
  kconj_1 : kconj k1 = k1;
  keqb_spec : forall a b, keqb a b = true <-> a = b
}.

Section Derived.
  Variable R : cring.
  Add Ring Rring_derived : (k_rt R).
  Lemma kconj_0 : kconj R (k0 R) = k0 R.
  Proof.
    assert (H : kadd R (kconj R (k0 R)) (kconj R (k0 R)) = kadd R (kconj R (k0 R)) (k0 R)).
    { rewrite <- kconj_add. replace (kadd R (k0 R) (k0 R)) with (k0 R) by ring. ring. }
    assert (H2 : forall a b c : R, kadd R a b = kadd R a c -> b = c).
    { intros a b c E. replace b with (kadd R (kopp R a) (kadd R a b)) by ring. rewrite E. ring. }
    eapply H2; eauto.
  Qed.
  Lemma kconj_opp a : kconj R (kopp R a) = kopp R (kconj R a).
  Proof.
    assert (H : kadd R (kconj R a) (kconj R (kopp R a)) = kadd R (kconj R a) (kopp R (kconj R a))).
    { rewrite <- kconj_add. replace (kadd R a (kopp R a)) with (k0 R) by ring. rewrite kconj_0. ring. }
    assert (H2 : forall a b c : R, kadd R a b = kadd R a c -> b = c).
    { intros x b c E. replace b with (kadd R (kopp R x) (kadd R x b)) by ring. rewrite E. ring. }
    eapply H2; eauto.
  Qed.
  Lemma kconj_sub a b : kconj R (ksub R a b) = ksub R (kconj R a) (kconj R b).
  Proof. replace (ksub R a b) with (kadd R a (kopp R b)) by ring. rewrite kconj_add, kconj_opp. ring. Qed.
  Lemma keqb_refl a : keqb R a a = true.
  Proof. apply keqb_spec; reflexivity. Qed.
  Lemma keqb_false a b : keqb R a b = false <-> a <> b.
  Proof. split; intros H.
    - intros E. apply keqb_spec in E. congruence.
    - destruct (keqb R a b) eqn:E; auto. apply keqb_spec in E. contradiction. Qed.
End Derived.

(* ---------- Z as a cring with trivial conjugation ---------- *)
Definition Zring : cring.
Proof.
  refine {| K := Z; k0 := 0%Z; k1 := 1%Z; kadd := Z.add; kmul := Z.mul; ksub := Z.sub; kopp := Z.opp;
            kconj := fun x => x; keqb := Z.eqb; k_rt := Zth |}; intros; auto.
  apply Z.eqb_eq.
Defined.

(* ---------- Gaussian integers ---------- *)
Definition GI := (Z * Z)%type.
Definition gadd (a b : GI) : GI := (fst a + fst b, snd a + snd b)%Z.
Definition gmul (a b : GI) : GI := (fst a * fst b - snd a * snd b, fst a * snd b + snd a * fst b)%Z.
Definition gopp (a : GI) : GI := (- fst a, - snd a)%Z.
Definition gsub (a b : GI) : GI := (fst a - fst b, snd a - snd b)%Z.
Definition gconj (a : GI) : GI := (fst a, - snd a)%Z.
Definition geqb (a b : GI) : bool := (fst a =? fst b)%Z && (snd a =? snd b)%Z.
Lemma GI_rt : ring_theory (0,0)%Z (1,0)%Z gadd gmul gsub gopp (@eq GI).
Proof.
  constructor; intros; repeat match goal with x : GI |- _ => destruct x end;
  unfold gsub, gadd, gmul, gopp; apply injective_projections; cbn [fst snd]; lia.
Qed.
Definition GIring : cring.
Proof.
  refine {| K := GI; k0 := (0,0)%Z; k1 := (1,0)%Z; kadd := gadd; kmul := gmul; ksub := gsub; kopp := gopp;
            kconj := gconj; keqb := geqb; k_rt := GI_rt |};
  intros; repeat match goal with x : GI |- _ => destruct x end; unfold gconj, gadd, gmul, geqb;
  cbn [fst snd]; try (apply injective_projections; cbn [fst snd]; lia).
  rewrite andb_true_iff, !Z.eqb_eq. split; [intros [-> ->]; reflexivity | intros E; inversion E; auto].
Defined.

(* ---------- Gaussian rationals over canonical Qc ---------- *)
Definition QI := (Qc * Qc)%type.
Local Open Scope Qc_scope.
Definition qiadd (a b : QI) : QI := (fst a + fst b, snd a + snd b).
Definition qimul (a b : QI) : QI := (fst a * fst b - snd a * snd b, fst a * snd b + snd a * fst b).
Definition qiopp (a : QI) : QI := (- fst a, - snd a).
Definition qisub (a b : QI) : QI := (fst a - fst b, snd a - snd b).
Definition qiconj (a : QI) : QI := (fst a, - snd a).
Definition qieqb (a b : QI) : bool := Qc_eq_bool (fst a) (fst b) && Qc_eq_bool (snd a) (snd b).
Lemma QI_rt : ring_theory (0,0) (1,0) qiadd qimul qisub qiopp (@eq QI).
Proof.
  constructor; intros; repeat match goal with x : QI |- _ => destruct x end;
  unfold qisub, qiadd, qimul, qiopp; apply injective_projections; cbn [fst snd]; ring.
Qed.
Lemma Qc_eq_bool_iff a b : Qc_eq_bool a b = true <-> a = b.
Proof. split; [apply Qc_eq_bool_correct|]. intros ->. unfold Qc_eq_bool. destruct (Qc_eq_dec b b); congruence. Qed.
Definition QIring : cring.
Proof.
  refine {| K := QI; k0 := (0,0); k1 := (1,0); kadd := qiadd; kmul := qimul; ksub := qisub; kopp := qiopp;
            kconj := qiconj; keqb := qieqb; k_rt := QI_rt |};
  intros; repeat match goal with x : QI |- _ => destruct x end; unfold qiconj, qiadd, qimul, qieqb;
  cbn [fst snd]; try (apply injective_projections; cbn [fst snd]; ring).
  rewrite andb_true_iff, !Qc_eq_bool_iff. split; [intros [-> ->]; reflexivity | intros E; inversion E; auto].
Defined.
Close Scope Qc_scope.

(* Qc as a cring (real scalars, trivial conjugation) *)
Definition Qcring : cring.
Proof.
  refine {| K := Qc; k0 := 0%Qc; k1 := 1%Qc; kadd := Qcplus; kmul := Qcmult; ksub := Qcminus; kopp := Qcopp;
            kconj := fun x => x; keqb := Qc_eq_bool; k_rt := Qcrt |}; intros; auto.
  apply Qc_eq_bool_iff.
Defined.
