#!/bin/sh
# regenerate _CoqProject and Makefile from the .v files present (full .vo build, no -vos)
cd "$(dirname "$0")"
{ echo "-Q . PT"; find Base Model Proofs Properties -name '*.v' | sort; } > _CoqProject
coq_makefile -f _CoqProject -o Makefile >/dev/null
