(* C18 — Bipartite matching is maximum and the derived vertex cover is minimum.
   Only statements, closed by [exact]; proofs live in Proofs/. *)
From Coq Require Import ZArith List Bool Lia Sorted.
From PT Require Import Model.Bipartite Proofs.BipartiteCert Proofs.BipartiteGraphSem Proofs.BipartiteHK Proofs.BipartiteKonig Proofs.BipartiteBFS Proofs.BipartiteMax Proofs.BipartiteTerm Proofs.BipartiteTotal.
Import ListNotations.
Open Scope Z_scope.

(* Any matching is no larger than any vertex cover (all graphs, all sizes). *)
Theorem C18_weak_duality : forall g m uc vc,
  Matching g m -> Cover g uc vc -> (length m <= length uc + length vc)%nat.
Proof. intros g m uc vc. exact (weak_duality_sem g uc vc m). Qed.
Print Assumptions C18_weak_duality.

(* The boolean checkers evaluated on the model's output in the correspondence check mean what they say. *)
Theorem C18_checkers_sound : forall g m uc vc,
  (is_matching g m = true -> Matching g m) /\ (is_cover g (uc, vc) = true -> Cover g uc vc).
Proof. intros g m uc vc. split; [apply is_matching_Matching | apply is_cover_Cover]. Qed.
Print Assumptions C18_checkers_sound.

(* A matching and a cover of equal size certify each other: the matching is maximum, the cover minimum. *)
Theorem C18_certificate_optimal : forall g m uc vc,
  Matching g m -> Cover g uc vc -> (length uc + length vc = length m)%nat ->
  (forall m', Matching g m' -> (length m' <= length m)%nat) /\
  (forall uc' vc', Cover g uc' vc' -> (length uc + length vc <= length uc' + length vc')%nat).
Proof. exact certificate_optimal. Qed.
Print Assumptions C18_certificate_optimal.

(* BipartiteGraph.__init__: for an in-range edge list (the constructor's own asserts) the graph's edge relation is
   exactly membership in the list — duplicate edges collapse (adjacency lists are duplicate free) and adj_v is the
   transpose of adj_u. All graphs, all sizes. *)
Theorem C18_mk_bg_edges : forall n_u n_v edges,
  (forall e, In e edges -> 0 <= fst e < Z.of_nat n_u /\ 0 <= snd e < Z.of_nat n_v) ->
  let g := mk_bg n_u n_v edges in
  nu g = n_u /\ nv g = n_v /\
  (forall u v, has_edge g u v = true <-> In (u, v) edges) /\
  (forall u, NoDup (adj_u g u)) /\ (forall v, NoDup (adj_v g v)) /\
  (forall u v, 0 <= u < Z.of_nat n_u -> 0 <= v < Z.of_nat n_v -> (In u (adj_v g v) <-> In v (adj_u g u))).
Proof.
  exact (fun n_u n_v edges H =>
    conj (mk_bg_nu n_u n_v edges H) (conj (mk_bg_nv n_u n_v edges H) (conj (mk_bg_edges n_u n_v edges H)
    (conj (mk_bg_nodup_u n_u n_v edges H) (conj (mk_bg_nodup_v n_u n_v edges H) (mk_bg_transpose n_u n_v edges H)))))).
Qed.
Print Assumptions C18_mk_bg_edges.

(* HopcroftKarp.__call__: whenever the model returns (fuel not exhausted), the result is a matching of the graph
   built from an in-range edge list: every pair is an existing edge, no two pairs share a U- or a V-vertex. *)
Theorem C18_hk_matching_valid : forall n_u n_v edges m,
  (forall e, In e edges -> 0 <= fst e < Z.of_nat n_u /\ 0 <= snd e < Z.of_nat n_v) ->
  hopcroft_karp (mk_bg n_u n_v edges) = Some m -> Matching (mk_bg n_u n_v edges) m.
Proof. exact hk_matching_valid_mk. Qed.
Print Assumptions C18_hk_matching_valid.

(* the same for any graph record whose adj_u entries are V-vertices *)
Theorem C18_hk_matching_valid_gen : forall g m,
  (forall u v, In v (adj_u g u) -> 0 <= v < Z.of_nat (nv g)) ->
  hopcroft_karp g = Some m -> Matching g m.
Proof. exact (fun g m H => hk_matching_valid g H m). Qed.
Print Assumptions C18_hk_matching_valid_gen.

(* Completeness of Hopcroft-Karp (partial-correctness form): whenever HopcroftKarp() returns, its result is a
   MAXIMUM matching — no call to minimum_vertex_cover needed.  ([outer] returns only after a BFS that did not reach
   NIL; the BFS-finite vertices then yield a vertex cover no larger than the matching.) *)
Theorem C18_hk_maximum : forall n_u n_v edges m,
  (forall e, In e edges -> 0 <= fst e < Z.of_nat n_u /\ 0 <= snd e < Z.of_nat n_v) ->
  let g := mk_bg n_u n_v edges in
  hopcroft_karp g = Some m ->
  Matching g m /\ forall m', Matching g m' -> (length m' <= length m)%nat.
Proof. exact hk_maximum_mk. Qed.
Print Assumptions C18_hk_maximum.

(* The breadth-first search never exhausts its fuel of nu+2 dequeues (for any state satisfying the matching
   invariant, in particular every state reached by the algorithm). *)
Theorem C18_bfs_terminates : forall g s,
  (forall u v, In v (adj_u g u) -> 0 <= v < Z.of_nat (nv g)) ->
  Inv g s -> length (dist s) = (nu g + 1)%nat -> exists s1 b, bfs g s = Some (s1, b).
Proof.
  exact (fun g s Ha Hi Hl => match bfs_ok g Ha s Hi Hl with
                             | ex_intro _ s1 (ex_intro _ b (conj H _)) => ex_intro _ s1 (ex_intro _ b H) end).
Qed.
Print Assumptions C18_bfs_terminates.

(* minimum_vertex_cover: whenever the model returns, the two lists cover every edge, are in range,
   strictly increasing (sorted, duplicate free). *)
Theorem C18_konig_cover_valid : forall g uc vc,
  (forall u v, In v (adj_u g u) -> 0 <= v < Z.of_nat (nv g)) ->
  min_vertex_cover g = Some (uc, vc) ->
  Cover g uc vc /\
  (forall u, In u uc -> 0 <= u < Z.of_nat (nu g)) /\ (forall v, In v vc -> 0 <= v < Z.of_nat (nv g)) /\
  StronglySorted Z.lt uc /\ StronglySorted Z.lt vc /\ NoDup uc /\ NoDup vc /\
  sortedb uc = true /\ sortedb vc = true.
Proof. exact konig_cover_valid. Qed.
Print Assumptions C18_konig_cover_valid.

(* The Koenig construction is valid for ANY pair list with distinct first components (so for any matching),
   independently of Hopcroft-Karp. *)
Theorem C18_cover_of_any_matching : forall g m uc vc,
  (forall u v, In v (adj_u g u) -> 0 <= v < Z.of_nat (nv g)) -> NoDup (map fst m) ->
  cover_of g m = Some (uc, vc) ->
  Cover g uc vc /\
  (forall u, In u uc -> 0 <= u < Z.of_nat (nu g)) /\ (forall v, In v vc -> 0 <= v < Z.of_nat (nv g)) /\
  StronglySorted Z.lt uc /\ StronglySorted Z.lt vc.
Proof. exact (fun g m uc vc Ha Hm => cover_of_valid g Ha m Hm uc vc). Qed.
Print Assumptions C18_cover_of_any_matching.

(* Main result (partial correctness of the whole routine, all graphs): whenever minimum_vertex_cover returns on a
   graph built from an in-range edge list — i.e. no fuel ran out and the routine's own assertion
   |cover| = |matching| passed — the Hopcroft-Karp result is a MAXIMUM matching and the returned cover a MINIMUM
   vertex cover, of equal size (Koenig). *)
Theorem C18_mvc_certified : forall n_u n_v edges uc vc,
  (forall e, In e edges -> 0 <= fst e < Z.of_nat n_u /\ 0 <= snd e < Z.of_nat n_v) ->
  let g := mk_bg n_u n_v edges in
  min_vertex_cover g = Some (uc, vc) ->
  exists m, hopcroft_karp g = Some m /\ Matching g m /\ Cover g uc vc /\ cover_wf g uc vc /\
            (length uc + length vc = length m)%nat /\
            (forall m', Matching g m' -> (length m' <= length m)%nat) /\
            (forall uc' vc', Cover g uc' vc' -> (length uc + length vc <= length uc' + length vc')%nat).
Proof. exact mvc_certified_mk. Qed.
Print Assumptions C18_mvc_certified.

Theorem C18_mvc_certified_gen : forall g uc vc,
  (forall u v, In v (adj_u g u) -> 0 <= v < Z.of_nat (nv g)) ->
  min_vertex_cover g = Some (uc, vc) ->
  exists m, hopcroft_karp g = Some m /\ Matching g m /\ Cover g uc vc /\ cover_wf g uc vc /\
            (length uc + length vc = length m)%nat /\
            (forall m', Matching g m' -> (length m' <= length m)%nat) /\
            (forall uc' vc', Cover g uc' vc' -> (length uc + length vc <= length uc' + length vc')%nat).
Proof. exact mvc_certified. Qed.
Print Assumptions C18_mvc_certified_gen.

(* HopcroftKarp() terminates on every graph (none of the fuels of outer / bfs_loop / dfs is ever exhausted: the model
   never returns None) and returns a maximum matching. *)
Theorem C18_hk_total_maximum : forall n_u n_v edges,
  (forall e, In e edges -> 0 <= fst e < Z.of_nat n_u /\ 0 <= snd e < Z.of_nat n_v) ->
  let g := mk_bg n_u n_v edges in
  exists m, hopcroft_karp g = Some m /\ Matching g m /\ forall m', Matching g m' -> (length m' <= length m)%nat.
Proof. exact hk_total_maximum_mk. Qed.
Print Assumptions C18_hk_total_maximum.

(* C18, complete statement (total correctness, all graphs, including no edges and duplicate edges):
   for every in-range edge list both routines return (no fuel of outer / bfs_loop / dfs / explore is exhausted and
   the size assertion |cover| = |matching| of minimum_vertex_cover passes); the matching consists of existing,
   pairwise vertex-disjoint edges and is maximum; the cover lists are in range, strictly increasing, touch every
   edge, and their total number equals the maximum matching size (Koenig), hence the cover is minimum. *)
Theorem C18_mvc_total : forall n_u n_v edges,
  (forall e, In e edges -> 0 <= fst e < Z.of_nat n_u /\ 0 <= snd e < Z.of_nat n_v) ->
  let g := mk_bg n_u n_v edges in
  exists m uc vc, hopcroft_karp g = Some m /\ min_vertex_cover g = Some (uc, vc) /\
    Matching g m /\ Cover g uc vc /\ cover_wf g uc vc /\ (length uc + length vc = length m)%nat /\
    (forall m', Matching g m' -> (length m' <= length m)%nat) /\
    (forall uc' vc', Cover g uc' vc' -> (length uc + length vc <= length uc' + length vc')%nat).
Proof. exact mvc_total_mk. Qed.
Print Assumptions C18_mvc_total.

(* the same for any graph record with consistent adjacency tables *)
Theorem C18_mvc_total_gen : forall g,
  (forall u v, In v (adj_u g u) -> 0 <= v < Z.of_nat (nv g)) ->
  (forall u v, 0 <= u < Z.of_nat (nu g) -> In v (adj_u g u) -> In u (adj_v g v)) ->
  exists m uc vc, hopcroft_karp g = Some m /\ min_vertex_cover g = Some (uc, vc) /\
    Matching g m /\ Cover g uc vc /\ cover_wf g uc vc /\ (length uc + length vc = length m)%nat /\
    (forall m', Matching g m' -> (length m' <= length m)%nat) /\
    (forall uc' vc', Cover g uc' vc' -> (length uc + length vc <= length uc' + length vc')%nat).
Proof. exact (fun g H1 H2 => mvc_total g (conj H1 H2)). Qed.
Print Assumptions C18_mvc_total_gen.

(* Nothing of the property statement is left unproved about the model.  Outside the model (and therefore outside
   these theorems): the Python interpreter's recursion limit.  The model's recursion depth of
   __add_augmenting_path and _explore_alternating_paths is at most num_u + 2 (this is what "fuel nu+2 suffices"
   means), but CPython stops at sys.getrecursionlimit() (default 1000): graphs with an alternating path through more
   than about 1000 U-vertices make the real routines raise RecursionError.  See harness/props/c18.py ASSUMPTIONS. *)

(* Non-vacuity: the model's own output on a concrete graph (duplicate edge included) meets the hypotheses
   of the theorems above and the routine returns. *)
Example C18_nonvacuous :
  let g := mk_bg 3 3 [(0,0);(0,1);(1,0);(2,2);(2,1)] in
  match hopcroft_karp g, min_vertex_cover g with
  | Some m, Some (uc, vc) => is_matching g m && is_cover g (uc, vc) && Nat.eqb (length uc + length vc) (length m) && Nat.eqb (length m) 3 = true
  | _, _ => False end.
Proof. vm_compute. reflexivity. Qed.

Example C18_nonvacuous_hyps :
  let edges := [(0,0);(0,1);(1,0);(0,1);(2,2);(2,1);(3,1)] in
  (forall e, In e edges -> 0 <= fst e < Z.of_nat 4 /\ 0 <= snd e < Z.of_nat 3) /\
  min_vertex_cover (mk_bg 4 3 edges) = Some ([2], [0; 1]) /\
  hopcroft_karp (mk_bg 4 3 edges) = Some [(0,0);(2,2);(3,1)].
Proof.
  split; [|split; vm_compute; reflexivity].
  intros e He. simpl in He. repeat (destruct He as [<-|He]; [cbn; lia|]). contradiction.
Qed.

(* graphs with no edges satisfy the hypotheses trivially; the routines return the empty matching and cover *)
Example C18_nonvacuous_empty :
  (forall e, In e (@nil (Z * Z)) -> 0 <= fst e < Z.of_nat 2 /\ 0 <= snd e < Z.of_nat 3) /\
  hopcroft_karp (mk_bg 2 3 []) = Some [] /\ min_vertex_cover (mk_bg 2 3 []) = Some ([], []).
Proof. split; [intros e []|split; vm_compute; reflexivity]. Qed.
