(* C18 — Bipartite matching is maximum and the derived vertex cover is minimum.
   Only statements, closed by [exact]; proofs live in Proofs/. *)
From Coq Require Import ZArith List Bool Lia.
From PT Require Import Model.Bipartite Proofs.BipartiteCert.
Import ListNotations.
Open Scope Z_scope.

(* Any matching is no larger than any vertex cover (all graphs, all sizes). *)
Theorem C18_weak_duality : forall g m uc vc,
  Matching g m -> Cover g uc vc -> (length m <= length uc + length vc)%nat.
Proof. intros g m uc vc. exact (weak_duality_sem g uc vc m). Qed.
Print Assumptions C18_weak_duality.

(* The boolean checkers evaluated on the model's output in the correspondence check mean what they say. *)
Theorem C18_checkers_sound : forall g m uc vc,
  (is_matching g m = true -> Matching g m) /\ (is_cover g (uc, vc) = true -> Cover g uc vc).
Proof. intros g m uc vc. split; [apply is_matching_Matching | apply is_cover_Cover]. Qed.
Print Assumptions C18_checkers_sound.

(* A matching and a cover of equal size certify each other: the matching is maximum, the cover minimum. *)
Theorem C18_certificate_optimal : forall g m uc vc,
  Matching g m -> Cover g uc vc -> (length uc + length vc = length m)%nat ->
  (forall m', Matching g m' -> (length m' <= length m)%nat) /\
  (forall uc' vc', Cover g uc' vc' -> (length uc + length vc <= length uc' + length vc')%nat).
Proof. exact certificate_optimal. Qed.
Print Assumptions C18_certificate_optimal.

(* Non-vacuity: the model's own output on a concrete graph meets the hypotheses. *)
Example C18_nonvacuous :
  let g := mk_bg 3 3 [(0,0);(0,1);(1,0);(2,2);(2,1)] in
  match hopcroft_karp g, min_vertex_cover g with
  | Some m, Some (uc, vc) => is_matching g m && is_cover g (uc, vc) && Nat.eqb (length uc + length vc) (length m) && Nat.eqb (length m) 3 = true
  | _, _ => False end.
Proof. vm_compute. reflexivity. Qed.
