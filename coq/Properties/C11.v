(* C11 — Block-sparse QR (pytenet/bond_ops.py: qr) is an exact, isometric, charge-respecting factorization.
   Only statements, closed by [exact]/[apply]; proofs live in Proofs/BondOps*.v.
   Model: Model/BondOps.v [block_qr]; numpy.linalg.qr is the oracle argument [dqr]. *)
From Coq Require Import ZArith QArith Qcanon List Bool Lia.
From PT Require Import Base.Scalar Base.BigSum Base.Mx Model.BondOps Proofs.BondOpsPerm Proofs.BondOpsLoop Proofs.BondOpsSpec.
Import ListNotations.
Open Scope nat_scope.

(* For every scalar ring with conjugation R (real or complex entries), every shape m, n >= 1, all integer charge vectors
   q0, q1 (sorted or not, constant, disjoint, with empty or rank-deficient blocks, any magnitude), every matrix A that is
   block sparse under (q0, q1) ([valid_in]: the assertions at the top of qr), and every oracle [dqr] whose answers
   satisfy LAPACK's contract [dqr_ok] (shapes m x k, k x n with k = min m n; Q R = B; Q^H Q = I_k) on the calls the
   model actually issues: the model does not fail, and its result (Q, R, qinterm) satisfies
     Q R = A;  Q^H Q = I_D;  Q block sparse under (q0, qinterm), R under (qinterm, q1);
     length qinterm = D = nc Q = nr R;  D <= min m n;
     and if no charge is shared: D = 1, Q = e_0, R = 0, qinterm = q0[:1] (all clauses above still hold: A = 0). *)
Theorem C11_block_qr_spec : forall (R : cring) (dqr : mx R -> mx R * mx R) (A : mx R) (q0 q1 : list Z),
  valid_in A q0 q1 = true -> 1 <= nr A -> 1 <= nc A ->
  Forall (fun B => dqr_ok R B (dqr B)) (block_qr_calls A q0 q1) ->
  exists Q Rm qi, block_qr dqr A q0 q1 = Some (Q, Rm, qi) /\
    wf Q /\ wf Rm /\ nr Q = nr A /\ nc Q = length qi /\ nr Rm = length qi /\ nc Rm = nc A /\
    length qi <= Nat.min (nr A) (nc A) /\
    mulmx Q Rm = A /\ mulmx (adjmx Q) Q = idmx (length qi) /\
    qsp R Q q0 qi /\ qsp R Rm qi q1 /\
    (intersect1d q0 q1 = [] -> length qi = 1 /\ Q = e0col (nr A) /\ Rm = zeromx 1 (nc A) /\ qi = firstn 1 q0).
Proof.
  intros R dqr A q0 q1 Hv Hm Hn Hc.
  destruct (block_qr_spec_gen R dqr A q0 q1 Hv Hm Hn Hc) as ([[Q Rm] qi] & E & H).
  exists Q, Rm, qi. split; [exact E|exact H].
Qed.
Print Assumptions C11_block_qr_spec.

(* meaning of the hypotheses and of block sparsity, for the reader *)
Theorem C11_valid_in_meaning : forall (R : cring) (A : mx R) q0 q1, valid_in A q0 q1 = true ->
  wf A /\ length q0 = nr A /\ length q1 = nc A /\
  (forall i j, i < nr A -> j < nc A -> get A i j <> k0 R -> nth i q0 0%Z = nth j q1 0%Z).
Proof. intros R A q0 q1. exact (valid_in_spec R A q0 q1). Qed.
Print Assumptions C11_valid_in_meaning.

(* The boolean evaluated on every generated input by the correspondence check means what it says: the model, run with the
   recorded numpy.linalg.qr answers as its oracle, returns exactly the implementation's (Q, R, qinterm) resp. fails when the
   implementation raised an AssertionError. *)
Theorem C11_checker_sound : forall (R : cring) tbl (A : mx R) q0 q1,
  (forall Q Rm qi, check_qr tbl A q0 q1 (Some (Q, Rm, qi)) = true -> block_qr (qr_oracle tbl) A q0 q1 = Some (Q, Rm, qi)) /\
  (check_qr tbl A q0 q1 None = true -> block_qr (qr_oracle tbl) A q0 q1 = None).
Proof. intros R tbl A q0 q1. split; [intros Q Rm qi; apply check_qr_sound|apply check_qr_sound_none]. Qed.
Print Assumptions C11_checker_sound.

(* Non-vacuity: a concrete 3 x 3 rational input with unsorted q0 = [1;0;1], q1 = [0;1;1] (two blocks: 1 x 1 and the 2 x 2 block
   [[3,2],[4,11]] = [[3/5,-4/5],[4/5,3/5]] . [[5,10],[0,5]]) and an oracle table meeting the contract on both issued calls;
   the model returns intermediate dimension 3. *)
Definition qq (n : Z) (d : positive) : Qc := Q2Qc (Qmake n d).
Definition mq := @mkmx Qcring.
Definition exA : mx Qcring := mq 3 3 [[qq 0 1; qq 3 1; qq 2 1]; [qq 2 1; qq 0 1; qq 0 1]; [qq 0 1; qq 4 1; qq 11 1]].
Definition exq0 : list Z := [1; 0; 1]%Z.
Definition exq1 : list Z := [0; 1; 1]%Z.
Definition extbl : list (mx Qcring * (mx Qcring * mx Qcring)) :=
  [ (mq 1 1 [[qq 2 1]], (mq 1 1 [[qq 1 1]], mq 1 1 [[qq 2 1]]));
    (mq 2 2 [[qq 3 1; qq 2 1]; [qq 4 1; qq 11 1]],
     (mq 2 2 [[qq 3 5; qq (-4) 5]; [qq 4 5; qq 3 5]], mq 2 2 [[qq 5 1; qq 10 1]; [qq 0 1; qq 5 1]])) ].
Example C11_nonvacuous :
  valid_in exA exq0 exq1 = true /\ 1 <= nr exA /\ 1 <= nc exA /\
  Forall (fun B => dqr_ok Qcring B (qr_oracle extbl B)) (block_qr_calls exA exq0 exq1) /\
  length (block_qr_calls exA exq0 exq1) = 2 /\
  match block_qr (qr_oracle extbl) exA exq0 exq1 with Some (_, _, qi) => zlist_eqb qi [0; 1; 1]%Z | None => false end = true.
Proof.
  split; [vm_compute; reflexivity|]. split; [vm_compute; lia|]. split; [vm_compute; lia|].
  split; [apply dqr_ok_forallb; vm_compute; reflexivity|].
  split; vm_compute; reflexivity.
Qed.
