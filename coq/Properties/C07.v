(* C07 — Molecular Hamiltonian MPOs are exact for every orbital count, both build paths; orbital gauge matrices.
   Only statements, closed by [exact]; proofs in Proofs/MolOpt.v, Proofs/MolWalks.v, Proofs/MolFormulaProofs.v,
   Proofs/MolAllL1.v .. MolAllL7.v.
   Models: Model/Molecular.v (the OPTIMIZED chain enumerations of molecular_hamiltonian_mpo and
   spin_molecular_hamiltonian_mpo incl. to_spin_opchain, as functions of L and of coefficient functions t, v over any
   cring with an element [half]), Model/MolFormula.v (the second-quantised formula, Jordan-Wigner words, operator table),
   Model/MolCheck.v (translation validation of implementation graphs).  Built on C05 (from_opchains, den, chains_den).

   FULL STATEMENTS AIMED AT (DESIGN C07):
     (F1) forall L >= 1, t, v, cover:  from_opchains cover (mol_chains L t v) L 0 = Ok g -> linked g ->
            forall w, den g w = mol_formula L t v w                  (same for spin_chains / spin_formula)
     (F2) forall L >= 4 (spin: L >= 2), t, v: the graph of the EXPLICIT construction is consistent and denotes mol_formula;
            hence both build paths represent the same operator
     (F3) forall L, i, 2x2 unitary u: the matrices of molecular_hamiltonian_orbital_gauge_transform map the explicit MPO of
            (t, v) to that of the rotated coefficients.
   PROVED BELOW
     for ALL L and all coefficient functions (any cring, any [half]):
       - graph = chain list: C07_mol_opt_den(_rev), C07_spin_mol_opt_den(_rev)  (every cover oracle, whenever the model of
         from_opchains returns a graph; the graph is then well linked);
       - C07_mol_opt_total: with the proved model of minimum_vertex_cover the spinless optimized construction SUCCEEDS for
         every L >= 1 and all coefficients with at least one non-vanishing chain coefficient (t_ij or antisymmetrised v);
         when all of them vanish (the zero operator, e.g. L = 1 and t_00 = 0) from_opchains fails -- model and code;
       - the enumerated spinless list: its length, every chain well formed and inside the lattice, the interleaved charges
         are the running particle balance from 0 to 0 (C07_mol_chains_length/_wf/_wf_chains);
       - soundness of the translation validation for ANY graph (C07_den_from_walks, C07_graph_chains_validated,
         C07_both_paths_agree, C07_spin_both_paths_agree);
       - (F1) COMPLETELY, spinless and spin orbitals (Proofs/MolAllL1-7.v): chain list = second-quantised formula on every
         word for EVERY L (C07_mol_formula_all_L, C07_spin_formula_all_L; no hypothesis on L, the ring, [half] or the word),
         via the normal form of Jordan-Wigner products for every mode count (C07_jw_hop_word, C07_jw_int_word: the thirteen
         relative orders of i < j, k < l, five chain shapes, signs + - - + of the four orderings = the antisymmetrisation
         [gint]; C07_jw_pauli) and a regrouping of the double sums by unordered pairs; spin orbitals are the spinless
         statement on 2 L modes with spin-diagonal coefficients, words read through the site pairing (C07_to_spin_word);
         to_spin_opchain raises on no enumerated chain and every spin chain is well formed, for every L
         (C07_spin_skels_wf_all_L); hence optimized graph = formula whenever from_opchains returns (C07_mol_opt_formula,
         C07_spin_mol_opt_formula), and it does return with the proved cover unless all chain coefficients vanish
         (C07_mol_exact, C07_spin_exact).
     BOUNDED in L (kept; now subsumed by the all-L theorems), kernel-evaluated symbolic comparison:
       - C07_mol_formula_bounded_partial (L <= 10), C07_spin_formula_bounded_partial (L <= 6), C07_*_partial below.
   NOT PROVED (correspondence check / implementation-level predicate only):
       - (F2): the explicit constructions are not modelled; on every generated case the graph the IMPLEMENTATION builds
         (exact dyadic coefficients; L = 4..7 spinless, 2..5 spin) is checked in Coq by [check_graph_chains] against the
         model's chain list, which by the theorems below gives consistency and equality of both paths for that input
         (and, with (F1), equality with the formula for that input);
       - (F3): nothing is proved about the gauge matrices; they are tested by the implementation-level predicate of
         harness/props/c07.py (random unitaries) and, for a family of exact unitaries, by an exact evaluation in Coq of
         the MPO identity (Model/MolGauge.v, per case). *)
From Coq Require Import ZArith QArith Qcanon List Bool Lia.
From PT Require Import Base.Scalar Base.BigSum Model.OpGraph Model.FromOpchains Model.GraphMPO
                       Model.Molecular Model.MolFormula Model.MolCheck Model.MolExampleData
                       Proofs.DenRev_C05 Proofs.MolOpt Proofs.MolWalks Proofs.MolFormulaProofs
                       Proofs.MolAllL1 Proofs.MolAllL2 Proofs.MolAllL3 Proofs.MolAllL4 Proofs.MolAllL5 Proofs.MolAllL6
                       Proofs.MolAllL7.
(* [cover_model] below is Model/FromOpchains.v's cover computed by the model of bipartite_graph.py (C18) *)
Import ListNotations.
Open Scope Z_scope.

(* ---- (a) optimized path: graph = enumerated chain list, all L ---- *)
Theorem C07_mol_opt_den : forall (R : cring) (half : R) cover L t v g, (1 <= L)%nat ->
  from_opchains cover (mol_chains half L t v) L 0 = Ok g ->
  linked g = true /\ forall w, den g w = chains_den L 0 (mol_chains half L t v) w.
Proof. exact mol_opt_den. Qed.
Print Assumptions C07_mol_opt_den.

(* success: every L >= 1, every coefficient pair with a non-vanishing chain coefficient *)
Theorem C07_mol_opt_total : forall (R : cring) (half : R) L t v, (1 <= L)%nat ->
  ((exists i j, (i < L)%nat /\ (j < L)%nat /\ t i j <> k0 R) \/
   (exists i j k l, (i < j < L)%nat /\ (k < l < L)%nat /\ gint half v i j k l <> k0 R)) ->
  exists g, from_opchains cover_model (mol_chains half L t v) L 0 = Ok g /\ linked g = true /\
            forall w, den g w = chains_den L 0 (mol_chains half L t v) w.
Proof. exact mol_opt_total. Qed.
Print Assumptions C07_mol_opt_total.

Theorem C07_mol_opt_den_rev : forall (R : cring) (half : R) cover L t v g, (1 <= L)%nat ->
  from_opchains cover (mol_chains half L t v) L 0 = Ok g ->
  forall w, den_rev g w = chains_den L 0 (mol_chains half L t v) w.
Proof. exact mol_opt_den_rev. Qed.
Print Assumptions C07_mol_opt_den_rev.

Theorem C07_spin_mol_opt_den : forall (R : cring) (half : R) cover L t v cs g, (1 <= L)%nat ->
  spin_chains half L t v = Ok cs -> from_opchains cover cs L 0 = Ok g ->
  linked g = true /\ forall w, den g w = chains_den L 0 cs w.
Proof. exact spin_mol_opt_den. Qed.
Print Assumptions C07_spin_mol_opt_den.

Theorem C07_spin_mol_opt_den_rev : forall (R : cring) (half : R) cover L t v cs g, (1 <= L)%nat ->
  spin_chains half L t v = Ok cs -> from_opchains cover cs L 0 = Ok g ->
  forall w, den_rev g w = chains_den L 0 cs w.
Proof. exact spin_mol_opt_den_rev. Qed.
Print Assumptions C07_spin_mol_opt_den_rev.

(* the enumerated spinless list, all L: L^2 hopping chains and (L(L-1)/2)^2 interaction chains *)
Theorem C07_mol_chains_length : forall (R : cring) (half : R) L t v,
  length (mol_chains half L t v) = (L * L + tri L * tri L)%nat /\ (2 * tri L = L * (L - 1))%nat.
Proof. intros. split; [apply mol_chains_length | apply tri_closed]. Qed.
Print Assumptions C07_mol_chains_length.

(* every chain: len(qnums) = len(oids) + 1, fits into L sites, padded word has length L, padded charges start and end
   with 0, and qnums is the running balance of created minus annihilated particles *)
Theorem C07_mol_chains_wf : forall (R : cring) (half : R) L t v,
  Forall (fun c => wf_chain L c = true /\ last (padded_qnums L c) 0 = 0 /\ length (padded_oids L 0 c) = L /\
                   c_qnums c = 0 :: qwalk 0 (c_oids c))
         (mol_chains half L t v).
Proof. exact mol_chains_wf. Qed.
Print Assumptions C07_mol_chains_wf.

(* the hypothesis [wf_chains] of C05's full statement holds as soon as one coefficient is non-zero *)
Theorem C07_mol_chains_wf_chains : forall (R : cring) (half : R) L t v,
  (exists c, In c (mol_chains half L t v) /\ c_coeff c <> k0 R) -> wf_chains L (mol_chains half L t v) = true.
Proof. exact mol_chains_wf_chains. Qed.
Print Assumptions C07_mol_chains_wf_chains.

(* ---- (c) translation validation, sound for every graph ---- *)
Theorem C07_den_from_walks : forall (R : cring) (g : graph R) w nid,
  den_from g w nid = pcoef (walks g (length w) nid) w.
Proof. exact den_from_walks. Qed.
Print Assumptions C07_den_from_walks.

Theorem C07_graph_chains_validated : forall (R : cring) (g : graph R) L idn (chains : list (chain R)) fuel,
  check_graph_chains g L idn chains fuel = true ->
  linked g = true /\ layers_end g = true /\ is_consistent_fuel fuel g = Some true /\ glength g = Some L /\
  forall w, length w = L -> den g w = chains_den L idn chains w.
Proof. exact check_graph_chains_sound. Qed.
Print Assumptions C07_graph_chains_validated.

Theorem C07_both_paths_agree : forall (R : cring) (half : R) cover L t v gopt gexp, (1 <= L)%nat ->
  from_opchains cover (mol_chains half L t v) L 0 = Ok gopt ->
  poly_eqb (walks gexp L (g_t0 gexp)) (chain_poly L 0 (mol_chains half L t v)) = true ->
  forall w, length w = L -> den gexp w = den gopt w.
Proof. exact both_paths_agree. Qed.
Print Assumptions C07_both_paths_agree.

Theorem C07_spin_both_paths_agree : forall (R : cring) (half : R) cover L t v cs gopt gexp, (1 <= L)%nat ->
  spin_chains half L t v = Ok cs -> from_opchains cover cs L 0 = Ok gopt ->
  poly_eqb (walks gexp L (g_t0 gexp)) (chain_poly L 0 cs) = true ->
  forall w, length w = L -> den gexp w = den gopt w.
Proof. exact spin_both_paths_agree. Qed.
Print Assumptions C07_spin_both_paths_agree.

(* ---- (b) chain list = second-quantised formula; BOUNDED in L, all coefficient values, every cring ---- *)
(* the operator multiplication table used by the formula is that of the 2x2 matrices *)
Theorem C07_omul_table : omul_table_ok = true.
Proof. exact omul_table_checked. Qed.
Print Assumptions C07_omul_table.

(* for every L: the boolean symbolic comparison implies equality of all coefficients *)
Theorem C07_mol_formula_of_check : forall (R : cring) (half : R) t v L, mol_formula_check L = true ->
  forall w, chains_den L 0 (mol_chains half L t v) w = mol_formula half L t v w.
Proof. exact mol_formula_of_check. Qed.
Print Assumptions C07_mol_formula_of_check.

Theorem C07_mol_formula_bounded_partial : forall (R : cring) (half : R) t v L, (L <= 10)%nat ->
  forall w, chains_den L 0 (mol_chains half L t v) w = mol_formula half L t v w.
Proof. exact mol_formula_bounded. Qed.
Print Assumptions C07_mol_formula_bounded_partial.

Theorem C07_spin_formula_bounded_partial : forall (R : cring) (half : R) t v L, (L <= 6)%nat ->
  exists cs, spin_chains half L t v = Ok cs /\ forall w, chains_den L 0 cs w = spin_formula half L t v w.
Proof. exact spin_formula_bounded. Qed.
Print Assumptions C07_spin_formula_bounded_partial.

(* optimized graph = formula (F1), bounded *)
Theorem C07_mol_opt_formula_partial : forall (R : cring) (half : R) cover L t v g, (1 <= L <= 10)%nat ->
  from_opchains cover (mol_chains half L t v) L 0 = Ok g ->
  forall w, den g w = mol_formula half L t v w.
Proof.
  intros R half cover L t v g [H1 H2] Hg w.
  rewrite (proj2 (mol_opt_den R half cover L t v g H1 Hg) w). apply mol_formula_bounded. exact H2.
Qed.
Print Assumptions C07_mol_opt_formula_partial.

Theorem C07_spin_mol_opt_formula_partial : forall (R : cring) (half : R) cover L t v cs g, (1 <= L <= 6)%nat ->
  spin_chains half L t v = Ok cs -> from_opchains cover cs L 0 = Ok g ->
  forall w, den g w = spin_formula half L t v w.
Proof.
  intros R half cover L t v cs g [H1 H2] Hc Hg w.
  rewrite (proj2 (spin_mol_opt_den R half cover L t v cs g H1 Hc Hg) w).
  destruct (spin_formula_bounded R half t v L H2) as [cs' [E F]]. rewrite Hc in E. inversion E; subst. apply F.
Qed.
Print Assumptions C07_spin_mol_opt_formula_partial.

(* (F1) with success, bounded: the optimized spinless construction returns a graph denoting the formula *)
Theorem C07_mol_exact_partial : forall (R : cring) (half : R) L t v, (1 <= L <= 10)%nat ->
  ((exists i j, (i < L)%nat /\ (j < L)%nat /\ t i j <> k0 R) \/
   (exists i j k l, (i < j < L)%nat /\ (k < l < L)%nat /\ gint half v i j k l <> k0 R)) ->
  exists g, from_opchains cover_model (mol_chains half L t v) L 0 = Ok g /\ linked g = true /\
            forall w, den g w = mol_formula half L t v w.
Proof.
  intros R half L t v [H1 H2] Hn. destruct (mol_opt_total R half L t v H1 Hn) as [g [Hg [Hl Hd]]].
  exists g. repeat split; auto. intros w. rewrite Hd. apply mol_formula_bounded. exact H2.
Qed.
Print Assumptions C07_mol_exact_partial.

(* spin orbitals, bounded: the enumeration never raises, equals the formula, and (unless all chain coefficients vanish) the
   optimized construction returns a graph denoting the formula *)
Theorem C07_spin_exact_partial : forall (R : cring) (half : R) L t v, (1 <= L <= 6)%nat ->
  exists cs, spin_chains half L t v = Ok cs /\
    (forall w, chains_den L 0 cs w = spin_formula half L t v w) /\
    ((exists c, In c cs /\ c_coeff c <> k0 R) ->
     exists g, from_opchains cover_model cs L 0 = Ok g /\ linked g = true /\ forall w, den g w = spin_formula half L t v w).
Proof.
  intros R half L t v HL.
  destruct (spin_mol_opt_total_bounded R half L t v HL) as [cs [Hc Hs]].
  destruct (spin_formula_bounded R half t v L (proj2 HL)) as [cs' [Hc' Hf]].
  rewrite Hc in Hc'. inversion Hc'; subst cs'. exists cs. repeat split; auto.
  intros Hn. destruct (Hs Hn) as [g [Hg [Hl Hd]]]. exists g. repeat split; auto. intros w. rewrite Hd. apply Hf.
Qed.
Print Assumptions C07_spin_exact_partial.

(* ---- (b) chain list = second-quantised formula for EVERY L (spinless); Proofs/MolAllL1-3.v ----
   No hypothesis on L, on the ring, on [half] (both sides carry the same factor) or on the word w. *)
(* normal form of the Jordan-Wigner products, every mode count n:
   a+_i a_j is, with sign +, the word of the hopping chain the code enumerates for (i, j) (I..I p Z..Z q I..I, or N) *)
Theorem C07_jw_hop_word : forall n i j, (i < n)%nat -> (j < n)%nat ->
  exists u, term2 n i j = Some (false, u) /\ mol_ids u = skel_word n (hop_skel i j).
Proof. exact term2_word. Qed.
Print Assumptions C07_jw_hop_word.

(* for a < b, c < d the four orderings (s1 = creators in increasing order, s2 = annihilator indices in increasing order;
   [term4 n i j k l] is a+_i a+_j a_l a_k) give the SAME word -- the chain the code enumerates for (a, b, c, d): one of the
   five shapes, thirteen relative orders -- with sign + - - +: the antisymmetrisation behind [gint] *)
Theorem C07_jw_int_word : forall n a b c d (s1 s2 : bool), (a < b < n)%nat -> (c < d < n)%nat ->
  exists u, term4 n (if s1 then a else b) (if s1 then b else a) (if s2 then c else d) (if s2 then d else c)
            = Some (xorb s1 s2, u) /\ mol_ids u = skel_word n (int_skel a b c d).
Proof. exact term4_word. Qed.
Print Assumptions C07_jw_int_word.

(* a repeated creator or a repeated annihilator gives the zero operator *)
Theorem C07_jw_pauli : forall n i j k,  (i < n)%nat -> (j < n)%nat -> (k < n)%nat ->
  term4 n i i j k = None /\ term4 n i j k k = None.
Proof. intros n i j k Hi Hj Hk. split; [apply term4_diag12 | apply term4_diag34]; assumption. Qed.
Print Assumptions C07_jw_pauli.

(* sum_ij t_ij a+_i a_j = the L^2 hopping chains;  1/2 sum_ijkl v_ijkl a+_i a+_j a_l a_k = the interaction chains *)
Theorem C07_mol_hop_all_L : forall (R : cring) (half : R) t v L w,
  chains_den L 0 (map (attach (mol_coeff half t v)) (mol_hop_skels L)) w =
  suml (seq 0 L) (fun i => suml (seq 0 L) (fun j => kmul R (t i j) (sw_coef mol_ids (term2 L i j) w))).
Proof. exact mol_hop_all_L. Qed.
Print Assumptions C07_mol_hop_all_L.

Theorem C07_mol_int_all_L : forall (R : cring) (half : R) t v L w,
  chains_den L 0 (map (attach (mol_coeff half t v)) (mol_int_skels L)) w =
  kmul R half
    (suml (seq 0 L) (fun i => suml (seq 0 L) (fun j => suml (seq 0 L) (fun k => suml (seq 0 L) (fun l =>
       kmul R (v i j k l) (sw_coef mol_ids (term4 L i j k l) w)))))).
Proof. exact mol_int_all_L. Qed.
Print Assumptions C07_mol_int_all_L.

Theorem C07_mol_formula_all_L : forall (R : cring) (half : R) t v L w,
  chains_den L 0 (mol_chains half L t v) w = mol_formula half L t v w.
Proof. exact mol_formula_all_L. Qed.
Print Assumptions C07_mol_formula_all_L.

(* (F1), spinless, every L >= 1: whatever graph the model of from_opchains returns denotes the formula ... *)
Theorem C07_mol_opt_formula : forall (R : cring) (half : R) cover L t v g, (1 <= L)%nat ->
  from_opchains cover (mol_chains half L t v) L 0 = Ok g ->
  forall w, den g w = mol_formula half L t v w.
Proof.
  intros R half cover L t v g H1 Hg w.
  rewrite (proj2 (mol_opt_den R half cover L t v g H1 Hg) w). apply mol_formula_all_L.
Qed.
Print Assumptions C07_mol_opt_formula.

(* ... and with the proved vertex cover it does return one unless every chain coefficient vanishes (K3) *)
Theorem C07_mol_exact : forall (R : cring) (half : R) L t v, (1 <= L)%nat ->
  ((exists i j, (i < L)%nat /\ (j < L)%nat /\ t i j <> k0 R) \/
   (exists i j k l, (i < j < L)%nat /\ (k < l < L)%nat /\ gint half v i j k l <> k0 R)) ->
  exists g, from_opchains cover_model (mol_chains half L t v) L 0 = Ok g /\ linked g = true /\
            forall w, den g w = mol_formula half L t v w.
Proof.
  intros R half L t v H1 Hn. destruct (mol_opt_total R half L t v H1 Hn) as [g [Hg [Hl Hd]]].
  exists g. repeat split; auto. intros w. rewrite Hd. apply mol_formula_all_L.
Qed.
Print Assumptions C07_mol_exact.

(* ---- (b) spin orbitals, EVERY L; Proofs/MolAllL4-7.v ---- *)
(* to_spin_opchain: whenever its model accepts a chain on 2 L modes, the padded site word of the result is the padded mode
   word with the letters of modes (2 m, 2 m + 1) paired through oid_single_pair_map ([zp]) *)
Theorem C07_to_spin_word : forall L s s', to_spin_skel s = Ok s' -> (k_istart s + length (k_oids s) <= 2 * L)%nat ->
  skel_word L s' = zp (skel_word (2 * L) s).
Proof. exact to_spin_word. Qed.
Print Assumptions C07_to_spin_word.

(* whenever the enumeration returns a list (no chain makes to_spin_opchain raise), it equals the spin formula *)
Theorem C07_spin_formula_of_ok : forall (R : cring) (half : R) t v L cs, spin_chains half L t v = Ok cs ->
  forall w, chains_den L 0 cs w = spin_formula half L t v w.
Proof. exact spin_formula_all_L. Qed.
Print Assumptions C07_spin_formula_of_ok.

(* for every L the enumeration raises nowhere (key lookup of every site pair, the three charge assertions) and every
   resulting chain is well formed: len(qnums) = len(oids) + 1, inside the lattice, padded charges from 0 to 0 *)
Theorem C07_spin_skels_wf_all_L : forall L,
  match spin_skels L with Ok sk => forallb (fun st => skel_wfb L (fst st)) sk = true | Err _ => False end.
Proof.
  intros L. pose proof (spin_skels_wfb_all L) as H. unfold spin_skels_wfb in H.
  destruct (spin_skels L); [exact H|discriminate].
Qed.
Print Assumptions C07_spin_skels_wf_all_L.

Theorem C07_spin_formula_all_L : forall (R : cring) (half : R) t v L,
  exists cs, spin_chains half L t v = Ok cs /\ forall w, chains_den L 0 cs w = spin_formula half L t v w.
Proof. exact spin_formula_total. Qed.
Print Assumptions C07_spin_formula_all_L.

(* (F1), spin orbitals, every L >= 1: whatever graph the model of from_opchains returns denotes the formula ... *)
Theorem C07_spin_mol_opt_formula : forall (R : cring) (half : R) cover L t v cs g, (1 <= L)%nat ->
  spin_chains half L t v = Ok cs -> from_opchains cover cs L 0 = Ok g ->
  forall w, den g w = spin_formula half L t v w.
Proof.
  intros R half cover L t v cs g H1 Hc Hg w.
  rewrite (proj2 (spin_mol_opt_den R half cover L t v cs g H1 Hc Hg) w). apply (spin_formula_all_L R half t v L cs Hc).
Qed.
Print Assumptions C07_spin_mol_opt_formula.

(* ... and with the proved vertex cover it does return one unless every chain coefficient vanishes (K3) *)
Theorem C07_spin_exact : forall (R : cring) (half : R) L t v, (1 <= L)%nat ->
  exists cs, spin_chains half L t v = Ok cs /\
    (forall w, chains_den L 0 cs w = spin_formula half L t v w) /\
    ((exists c, In c cs /\ c_coeff c <> k0 R) ->
     exists g, from_opchains cover_model cs L 0 = Ok g /\ linked g = true /\ forall w, den g w = spin_formula half L t v w).
Proof. exact spin_exact_all_L. Qed.
Print Assumptions C07_spin_exact.

(* ---- non-vacuity (vm_compute): concrete rational coefficient functions meet every hypothesis ---- *)
Definition exq (n : Z) (d : positive) : Qc := Q2Qc (Qmake n d).
Definition ex_half : Qcring := exq 1 2.
Definition ex_t (i j : nat) : Qcring := exq (Z.of_nat (1 + i + 3 * j)) 4.
Definition ex_v (i j k l : nat) : Qcring := exq (Z.of_nat (i * j + 2 * j * k * k + 5 * k + 11 * l * i + 3 * l * l * j) - 9) 8.
(* spinless, L = 4: the model of from_opchains (with the model's own vertex cover) returns a linked, consistent graph;
   the word C Z Z A carries t_03, N I I N carries the antisymmetrised v (= (v0303 - v3003 - v0330 + v3030)/2) *)
Example C07_nonvacuous_mol :
  match from_opchains cover_model (mol_chains ex_half 4 ex_t ex_v) 4 0 with
  | Ok g => linked g = true /\ is_consistent_fuel 2000 g = Some true /\ glength g = Some 4%nat /\
            length (mol_chains ex_half 4 ex_t ex_v) = 52%nat /\
            keqb Qcring (den g [1; 3; 3; -1]) (ex_t 0 3) = true /\
            keqb Qcring (den g [2; 0; 0; 2]) (gint ex_half ex_v 0 3 0 3) = true /\
            keqb Qcring (den g [2; 0; 0; 2]) (mol_formula ex_half 4 ex_t ex_v [2; 0; 0; 2]) = true /\
            keqb Qcring (gint ex_half ex_v 0 3 0 3) 0%Qc = false
  | Err _ => False
  end.
Proof. vm_compute. repeat split; reflexivity. Qed.
(* spin orbitals, L = 2: NN (x) Id carries the on-site repulsion v_0000, CZ (x) AI the up-spin hopping t_01 *)
Example C07_nonvacuous_spin :
  match spin_chains ex_half 2 ex_t ex_v with
  | Ok cs =>
      match from_opchains cover_model cs 2 0 with
      | Ok g => linked g = true /\ is_consistent_fuel 2000 g = Some true /\ glength g = Some 2%nat /\ length cs = 26%nat /\
                keqb Qcring (den g [17; 0]) (spin_formula ex_half 2 ex_t ex_v [17; 0]) = true /\
                keqb Qcring (den g [17; 0]) 0%Qc = false /\
                keqb Qcring (den g [8; 9]) (ex_t 0 1) = true
      | Err _ => False
      end
  | Err _ => False
  end.
Proof. vm_compute. repeat split; reflexivity. Qed.
(* translation validation: the graph the IMPLEMENTATION built with optimize=False for L = 4 (Model/MolExampleData.v, generated from a
   run of pytenet) passes the check against the model's chain list, so C07_graph_chains_validated / C07_both_paths_agree apply *)
Example C07_nonvacuous_explicit :
  let cs := @mol_chains QIring (Q2Qc (1 # 2), Q2Qc 0) 4 (@tab2 QIring ex4_t) (@tab4 QIring ex4_v) in
  check_graph_chains (R := QIring) ex4_graph 4 0 cs ex4_fuel = true /\
  poly_eqb (walks ex4_graph 4 (g_t0 ex4_graph)) (chain_poly 4 0 cs) = true /\
  length (g_edges ex4_graph) = 78%nat /\
  match from_opchains cover_model cs 4 0 with Ok g => linked g = true | Err _ => False end.
Proof. vm_compute. repeat split; reflexivity. Qed.

(* beyond the formerly bounded range: spinless L = 12, word N at orbitals 1 and 9 (coefficient gint_{1,9,1,9} = -64), and
   spin orbitals L = 7, both modes of site 1 occupied (letter 17 = N (x) N, coefficient v_1111); exact integer runs over Z with
   half := 1 (the identities hold for every value of [half]); both sides evaluated independently by the kernel *)
Definition exz_t (i j : nat) : Zring := Z.of_nat (1 + i + 3 * j).
Definition exz_v (i j k l : nat) : Zring := Z.of_nat (i * j + 2 * j * k * k + 5 * k + 11 * l * i + 3 * l * l * j) - 9.
Example C07_nonvacuous_all_L :
  let w := [0; 2; 0; 0; 0; 0; 0; 0; 0; 2; 0; 0] in
  chains_den 12 0 (@mol_chains Zring 1 12 exz_t exz_v) w = @mol_formula Zring 1 12 exz_t exz_v w /\
  (chains_den 12 0 (@mol_chains Zring 1 12 exz_t exz_v) w =? 0) = false.
Proof. vm_compute. split; reflexivity. Qed.
Example C07_nonvacuous_spin_all_L :
  let w := [0; 17; 0; 0; 0; 0; 0] in
  match @spin_chains Zring 1 7 exz_t exz_v with
  | Ok cs => chains_den 7 0 cs w = @spin_formula Zring 1 7 exz_t exz_v w /\ (chains_den 7 0 cs w =? 0) = false /\
             length cs = 3381%nat
  | Err _ => False
  end.
Proof. vm_compute. repeat split; reflexivity. Qed.
