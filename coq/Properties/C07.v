(* C07 — Molecular Hamiltonian MPOs are exact for every orbital count, both build paths; orbital gauge matrices.
   Only statements, closed by [exact]; proofs in Proofs/MolOpt.v, Proofs/MolWalks.v, Proofs/MolFormulaProofs.v.
   Models: Model/Molecular.v (the OPTIMIZED chain enumerations of molecular_hamiltonian_mpo and
   spin_molecular_hamiltonian_mpo incl. to_spin_opchain, as functions of L and of coefficient functions t, v over any
   cring with an element [half]), Model/MolFormula.v (the second-quantised formula, Jordan-Wigner words, operator table),
   Model/MolCheck.v (translation validation of implementation graphs).  Built on C05 (from_opchains, den, chains_den).

   FULL STATEMENTS AIMED AT (DESIGN C07):
     (F1) forall L >= 1, t, v, cover:  from_opchains cover (mol_chains L t v) L 0 = Ok g -> linked g ->
            forall w, den g w = mol_formula L t v w                  (same for spin_chains / spin_formula)
     (F2) forall L >= 4 (spin: L >= 2), t, v: the graph of the EXPLICIT construction is consistent and denotes mol_formula;
            hence both build paths represent the same operator
     (F3) forall L, i, 2x2 unitary u: the matrices of molecular_hamiltonian_orbital_gauge_transform map the explicit MPO of
            (t, v) to that of the rotated coefficients.
   PROVED BELOW
     for ALL L and all coefficient functions (any cring, any [half]):
       - graph = chain list: C07_mol_opt_den(_rev), C07_spin_mol_opt_den(_rev)  (every cover oracle, whenever the model of
         from_opchains returns a graph; the graph is then well linked);
       - C07_mol_opt_total: with the proved model of minimum_vertex_cover the spinless optimized construction SUCCEEDS for
         every L >= 1 and all coefficients with at least one non-vanishing chain coefficient (t_ij or antisymmetrised v);
         when all of them vanish (the zero operator, e.g. L = 1 and t_00 = 0) from_opchains fails -- model and code;
       - the enumerated spinless list: its length, every chain well formed and inside the lattice, the interleaved charges
         are the running particle balance from 0 to 0 (C07_mol_chains_length/_wf/_wf_chains);
       - soundness of the translation validation for ANY graph (C07_den_from_walks, C07_graph_chains_validated,
         C07_both_paths_agree, C07_spin_both_paths_agree).
     BOUNDED in L, for all coefficient values over every cring (kernel-evaluated symbolic comparison, vm_compute):
       - (F1) for L <= 10 (spinless) and L <= 6 (spin): C07_mol_formula_bounded_partial, C07_spin_formula_bounded_partial,
         C07_mol_opt_formula_partial, C07_spin_mol_opt_formula_partial.
   NOT PROVED (correspondence check / implementation-level predicate only):
       - (F1) for L > 10 resp. L > 6 (the general induction over the relative order of i, j, k, l is not done);
       - (F2): the explicit constructions are not modelled; on every generated case the graph the IMPLEMENTATION builds
         (exact dyadic coefficients; L = 4..7 spinless, 2..5 spin) is checked in Coq by [check_graph_chains] against the
         model's chain list, which by the theorems below gives consistency and equality of both paths for that input;
       - for the spin enumeration: that to_spin_opchain never raises and the chains are well formed for every L (kernel
         evaluated for L <= 6: C07_spin_exact_partial; per case in the harness), hence success of the spin construction
         beyond that range;
       - (F3): nothing is proved about the gauge matrices; they are tested by the implementation-level predicate of
         harness/props/c07.py (random unitaries) and, for a family of exact unitaries, by an exact evaluation in Coq of
         the MPO identity (Model/MolGauge.v, per case). *)
From Coq Require Import ZArith QArith Qcanon List Bool Lia.
From PT Require Import Base.Scalar Base.BigSum Model.OpGraph Model.FromOpchains Model.GraphMPO
                       Model.Molecular Model.MolFormula Model.MolCheck Model.MolExampleData
                       Proofs.DenRev_C05 Proofs.MolOpt Proofs.MolWalks Proofs.MolFormulaProofs.
(* [cover_model] below is Model/FromOpchains.v's cover computed by the model of bipartite_graph.py (C18) *)
Import ListNotations.
Open Scope Z_scope.

(* ---- (a) optimized path: graph = enumerated chain list, all L ---- *)
Theorem C07_mol_opt_den : forall (R : cring) (half : R) cover L t v g, (1 <= L)%nat ->
  from_opchains cover (mol_chains half L t v) L 0 = Ok g ->
  linked g = true /\ forall w, den g w = chains_den L 0 (mol_chains half L t v) w.
Proof. exact mol_opt_den. Qed.
Print Assumptions C07_mol_opt_den.

(* success: every L >= 1, every coefficient pair with a non-vanishing chain coefficient *)
Theorem C07_mol_opt_total : forall (R : cring) (half : R) L t v, (1 <= L)%nat ->
  ((exists i j, (i < L)%nat /\ (j < L)%nat /\ t i j <> k0 R) \/
   (exists i j k l, (i < j < L)%nat /\ (k < l < L)%nat /\ gint half v i j k l <> k0 R)) ->
  exists g, from_opchains cover_model (mol_chains half L t v) L 0 = Ok g /\ linked g = true /\
            forall w, den g w = chains_den L 0 (mol_chains half L t v) w.
Proof. exact mol_opt_total. Qed.
Print Assumptions C07_mol_opt_total.

Theorem C07_mol_opt_den_rev : forall (R : cring) (half : R) cover L t v g, (1 <= L)%nat ->
  from_opchains cover (mol_chains half L t v) L 0 = Ok g ->
  forall w, den_rev g w = chains_den L 0 (mol_chains half L t v) w.
Proof. exact mol_opt_den_rev. Qed.
Print Assumptions C07_mol_opt_den_rev.

Theorem C07_spin_mol_opt_den : forall (R : cring) (half : R) cover L t v cs g, (1 <= L)%nat ->
  spin_chains half L t v = Ok cs -> from_opchains cover cs L 0 = Ok g ->
  linked g = true /\ forall w, den g w = chains_den L 0 cs w.
Proof. exact spin_mol_opt_den. Qed.
Print Assumptions C07_spin_mol_opt_den.

Theorem C07_spin_mol_opt_den_rev : forall (R : cring) (half : R) cover L t v cs g, (1 <= L)%nat ->
  spin_chains half L t v = Ok cs -> from_opchains cover cs L 0 = Ok g ->
  forall w, den_rev g w = chains_den L 0 cs w.
Proof. exact spin_mol_opt_den_rev. Qed.
Print Assumptions C07_spin_mol_opt_den_rev.

(* the enumerated spinless list, all L: L^2 hopping chains and (L(L-1)/2)^2 interaction chains *)
Theorem C07_mol_chains_length : forall (R : cring) (half : R) L t v,
  length (mol_chains half L t v) = (L * L + tri L * tri L)%nat /\ (2 * tri L = L * (L - 1))%nat.
Proof. intros. split; [apply mol_chains_length | apply tri_closed]. Qed.
Print Assumptions C07_mol_chains_length.

(* every chain: len(qnums) = len(oids) + 1, fits into L sites, padded word has length L, padded charges start and end
   with 0, and qnums is the running balance of created minus annihilated particles *)
Theorem C07_mol_chains_wf : forall (R : cring) (half : R) L t v,
  Forall (fun c => wf_chain L c = true /\ last (padded_qnums L c) 0 = 0 /\ length (padded_oids L 0 c) = L /\
                   c_qnums c = 0 :: qwalk 0 (c_oids c))
         (mol_chains half L t v).
Proof. exact mol_chains_wf. Qed.
Print Assumptions C07_mol_chains_wf.

(* the hypothesis [wf_chains] of C05's full statement holds as soon as one coefficient is non-zero *)
Theorem C07_mol_chains_wf_chains : forall (R : cring) (half : R) L t v,
  (exists c, In c (mol_chains half L t v) /\ c_coeff c <> k0 R) -> wf_chains L (mol_chains half L t v) = true.
Proof. exact mol_chains_wf_chains. Qed.
Print Assumptions C07_mol_chains_wf_chains.

(* ---- (c) translation validation, sound for every graph ---- *)
Theorem C07_den_from_walks : forall (R : cring) (g : graph R) w nid,
  den_from g w nid = pcoef (walks g (length w) nid) w.
Proof. exact den_from_walks. Qed.
Print Assumptions C07_den_from_walks.

Theorem C07_graph_chains_validated : forall (R : cring) (g : graph R) L idn (chains : list (chain R)) fuel,
  check_graph_chains g L idn chains fuel = true ->
  linked g = true /\ layers_end g = true /\ is_consistent_fuel fuel g = Some true /\ glength g = Some L /\
  forall w, length w = L -> den g w = chains_den L idn chains w.
Proof. exact check_graph_chains_sound. Qed.
Print Assumptions C07_graph_chains_validated.

Theorem C07_both_paths_agree : forall (R : cring) (half : R) cover L t v gopt gexp, (1 <= L)%nat ->
  from_opchains cover (mol_chains half L t v) L 0 = Ok gopt ->
  poly_eqb (walks gexp L (g_t0 gexp)) (chain_poly L 0 (mol_chains half L t v)) = true ->
  forall w, length w = L -> den gexp w = den gopt w.
Proof. exact both_paths_agree. Qed.
Print Assumptions C07_both_paths_agree.

Theorem C07_spin_both_paths_agree : forall (R : cring) (half : R) cover L t v cs gopt gexp, (1 <= L)%nat ->
  spin_chains half L t v = Ok cs -> from_opchains cover cs L 0 = Ok gopt ->
  poly_eqb (walks gexp L (g_t0 gexp)) (chain_poly L 0 cs) = true ->
  forall w, length w = L -> den gexp w = den gopt w.
Proof. exact spin_both_paths_agree. Qed.
Print Assumptions C07_spin_both_paths_agree.

(* ---- (b) chain list = second-quantised formula; BOUNDED in L, all coefficient values, every cring ---- *)
(* the operator multiplication table used by the formula is that of the 2x2 matrices *)
Theorem C07_omul_table : omul_table_ok = true.
Proof. exact omul_table_checked. Qed.
Print Assumptions C07_omul_table.

(* for every L: the boolean symbolic comparison implies equality of all coefficients *)
Theorem C07_mol_formula_of_check : forall (R : cring) (half : R) t v L, mol_formula_check L = true ->
  forall w, chains_den L 0 (mol_chains half L t v) w = mol_formula half L t v w.
Proof. exact mol_formula_of_check. Qed.
Print Assumptions C07_mol_formula_of_check.

Theorem C07_mol_formula_bounded_partial : forall (R : cring) (half : R) t v L, (L <= 10)%nat ->
  forall w, chains_den L 0 (mol_chains half L t v) w = mol_formula half L t v w.
Proof. exact mol_formula_bounded. Qed.
Print Assumptions C07_mol_formula_bounded_partial.

Theorem C07_spin_formula_bounded_partial : forall (R : cring) (half : R) t v L, (L <= 6)%nat ->
  exists cs, spin_chains half L t v = Ok cs /\ forall w, chains_den L 0 cs w = spin_formula half L t v w.
Proof. exact spin_formula_bounded. Qed.
Print Assumptions C07_spin_formula_bounded_partial.

(* optimized graph = formula (F1), bounded *)
Theorem C07_mol_opt_formula_partial : forall (R : cring) (half : R) cover L t v g, (1 <= L <= 10)%nat ->
  from_opchains cover (mol_chains half L t v) L 0 = Ok g ->
  forall w, den g w = mol_formula half L t v w.
Proof.
  intros R half cover L t v g [H1 H2] Hg w.
  rewrite (proj2 (mol_opt_den R half cover L t v g H1 Hg) w). apply mol_formula_bounded. exact H2.
Qed.
Print Assumptions C07_mol_opt_formula_partial.

Theorem C07_spin_mol_opt_formula_partial : forall (R : cring) (half : R) cover L t v cs g, (1 <= L <= 6)%nat ->
  spin_chains half L t v = Ok cs -> from_opchains cover cs L 0 = Ok g ->
  forall w, den g w = spin_formula half L t v w.
Proof.
  intros R half cover L t v cs g [H1 H2] Hc Hg w.
  rewrite (proj2 (spin_mol_opt_den R half cover L t v cs g H1 Hc Hg) w).
  destruct (spin_formula_bounded R half t v L H2) as [cs' [E F]]. rewrite Hc in E. inversion E; subst. apply F.
Qed.
Print Assumptions C07_spin_mol_opt_formula_partial.

(* (F1) with success, bounded: the optimized spinless construction returns a graph denoting the formula *)
Theorem C07_mol_exact_partial : forall (R : cring) (half : R) L t v, (1 <= L <= 10)%nat ->
  ((exists i j, (i < L)%nat /\ (j < L)%nat /\ t i j <> k0 R) \/
   (exists i j k l, (i < j < L)%nat /\ (k < l < L)%nat /\ gint half v i j k l <> k0 R)) ->
  exists g, from_opchains cover_model (mol_chains half L t v) L 0 = Ok g /\ linked g = true /\
            forall w, den g w = mol_formula half L t v w.
Proof.
  intros R half L t v [H1 H2] Hn. destruct (mol_opt_total R half L t v H1 Hn) as [g [Hg [Hl Hd]]].
  exists g. repeat split; auto. intros w. rewrite Hd. apply mol_formula_bounded. exact H2.
Qed.
Print Assumptions C07_mol_exact_partial.

(* spin orbitals, bounded: the enumeration never raises, equals the formula, and (unless all chain coefficients vanish) the
   optimized construction returns a graph denoting the formula *)
Theorem C07_spin_exact_partial : forall (R : cring) (half : R) L t v, (1 <= L <= 6)%nat ->
  exists cs, spin_chains half L t v = Ok cs /\
    (forall w, chains_den L 0 cs w = spin_formula half L t v w) /\
    ((exists c, In c cs /\ c_coeff c <> k0 R) ->
     exists g, from_opchains cover_model cs L 0 = Ok g /\ linked g = true /\ forall w, den g w = spin_formula half L t v w).
Proof.
  intros R half L t v HL.
  destruct (spin_mol_opt_total_bounded R half L t v HL) as [cs [Hc Hs]].
  destruct (spin_formula_bounded R half t v L (proj2 HL)) as [cs' [Hc' Hf]].
  rewrite Hc in Hc'. inversion Hc'; subst cs'. exists cs. repeat split; auto.
  intros Hn. destruct (Hs Hn) as [g [Hg [Hl Hd]]]. exists g. repeat split; auto. intros w. rewrite Hd. apply Hf.
Qed.
Print Assumptions C07_spin_exact_partial.

(* ---- non-vacuity (vm_compute): concrete rational coefficient functions meet every hypothesis ---- *)
Definition exq (n : Z) (d : positive) : Qc := Q2Qc (Qmake n d).
Definition ex_half : Qcring := exq 1 2.
Definition ex_t (i j : nat) : Qcring := exq (Z.of_nat (1 + i + 3 * j)) 4.
Definition ex_v (i j k l : nat) : Qcring := exq (Z.of_nat (i * j + 2 * j * k * k + 5 * k + 11 * l * i + 3 * l * l * j) - 9) 8.
(* spinless, L = 4: the model of from_opchains (with the model's own vertex cover) returns a linked, consistent graph;
   the word C Z Z A carries t_03, N I I N carries the antisymmetrised v (= (v0303 - v3003 - v0330 + v3030)/2) *)
Example C07_nonvacuous_mol :
  match from_opchains cover_model (mol_chains ex_half 4 ex_t ex_v) 4 0 with
  | Ok g => linked g = true /\ is_consistent_fuel 2000 g = Some true /\ glength g = Some 4%nat /\
            length (mol_chains ex_half 4 ex_t ex_v) = 52%nat /\
            keqb Qcring (den g [1; 3; 3; -1]) (ex_t 0 3) = true /\
            keqb Qcring (den g [2; 0; 0; 2]) (gint ex_half ex_v 0 3 0 3) = true /\
            keqb Qcring (den g [2; 0; 0; 2]) (mol_formula ex_half 4 ex_t ex_v [2; 0; 0; 2]) = true /\
            keqb Qcring (gint ex_half ex_v 0 3 0 3) 0%Qc = false
  | Err _ => False
  end.
Proof. vm_compute. repeat split; reflexivity. Qed.
(* spin orbitals, L = 2: NN (x) Id carries the on-site repulsion v_0000, CZ (x) AI the up-spin hopping t_01 *)
Example C07_nonvacuous_spin :
  match spin_chains ex_half 2 ex_t ex_v with
  | Ok cs =>
      match from_opchains cover_model cs 2 0 with
      | Ok g => linked g = true /\ is_consistent_fuel 2000 g = Some true /\ glength g = Some 2%nat /\ length cs = 26%nat /\
                keqb Qcring (den g [17; 0]) (spin_formula ex_half 2 ex_t ex_v [17; 0]) = true /\
                keqb Qcring (den g [17; 0]) 0%Qc = false /\
                keqb Qcring (den g [8; 9]) (ex_t 0 1) = true
      | Err _ => False
      end
  | Err _ => False
  end.
Proof. vm_compute. repeat split; reflexivity. Qed.
(* translation validation: the graph the IMPLEMENTATION built with optimize=False for L = 4 (Model/MolExampleData.v, generated from a
   run of pytenet) passes the check against the model's chain list, so C07_graph_chains_validated / C07_both_paths_agree apply *)
Example C07_nonvacuous_explicit :
  let cs := @mol_chains QIring (Q2Qc (1 # 2), Q2Qc 0) 4 (@tab2 QIring ex4_t) (@tab4 QIring ex4_v) in
  check_graph_chains (R := QIring) ex4_graph 4 0 cs ex4_fuel = true /\
  poly_eqb (walks ex4_graph 4 (g_t0 ex4_graph)) (chain_poly 4 0 cs) = true /\
  length (g_edges ex4_graph) = 78%nat /\
  match from_opchains cover_model cs 4 0 with Ok g => linked g = true | Err _ => False end.
Proof. vm_compute. repeat split; reflexivity. Qed.
