(* C17 — Operator trees and state automata unfold to graphs with the same meaning.
   Only statements, closed by [exact]/[apply]; proofs live in Proofs/C17*.v.
   Models: Model/AutOp.v (from_automaton, aut_den), Model/OpTree.v (insert_opchain, insert_subtree,
   from_optrees_raw = from_optrees up to simplify(), tree_den), Model/DenseOp.v (as_matrix of chains, trees, graphs). *)
From Coq Require Import ZArith List Bool Lia.
From PT Require Import Base.Scalar Base.BigSum Base.Mx Model.OpGraph Model.C17Common Model.OpTree Model.AutOp Model.DenseOp
                       Proofs.C17GraphSem Proofs.C17AutOp Proofs.C17AutPath Proofs.C17OpTree Proofs.C17Kron Proofs.C17Dense.
(* "both graphs are consistent and of the requested length" (section (d) at the end of this file) *)
From PT Require Import Model.Rewrites Proofs.RewritesBase Proofs.C17LenBase Proofs.C17LenAut Proofs.C17LenTree
                       Proofs.C17LenSimplify Proofs.C17LenTop.
(* totality of from_automaton (section (e) at the end of this file) *)
From PT Require Import Model.AutOpPath Proofs.C17AutFuel Proofs.C17AutTotal.
Import ListNotations.
Open Scope Z_scope.

(* ------------------------------------------------------------------------------------------------
   (a) automata.  For every coefficient ring, every automaton whose node lists agree with its edges
   (AutOp.is_consistent), every length L: if from_automaton returns a graph g (no assertion fired), then the
   coefficient of every word in g is the sum over all automaton paths of length L between the terminals,
   activity and coefficients taken at each site; words of another length have coefficient 0. *)
Theorem C17_from_automaton_den : forall (R : cring) (aut : autop R) (L : nat) (g : graph R),
  aut_consistent aut = true -> from_automaton aut L = Some g ->
  forall w, den g w = aut_den aut L w.
Proof. exact from_automaton_den. Qed.
Print Assumptions C17_from_automaton_den.

(* without any assumption on the automaton: the layer recurrence the code implements (pathwise, following the
   incoming edge-id lists, restricted to the active node sets), and the graph satisfies the invariant under
   which [den] is the path sum over its edge list *)
Theorem C17_from_automaton_layers_partial : forall (R : cring) (aut : autop R) (L : nat) (g : graph R),
  from_automaton_raw aut L = Ok g ->
  exists all, active_layers aut L = Ok all /\ OutInv g /\
    forall w, den g w = if Nat.eqb (length w) L
                        then apre_act aut (fun i => nth i all []) (rev w) (a_t1 aut) else k0 R.
Proof. exact from_automaton_raw_den. Qed.
Print Assumptions C17_from_automaton_layers_partial.

(* dead states: a node that the forward sweep does not reach after |wr| sites carries no path weight *)
Theorem C17_dead_states_contribute_nothing : forall (R : cring) (aut : autop R),
  aut_consistent aut = true ->
  forall wr x s, fwd aut (length wr) = Ok s -> ~ In x s -> apre aut (a_t0 aut) wr x = k0 R.
Proof. exact apre_fwd_support. Qed.
Print Assumptions C17_dead_states_contribute_nothing.

(* the returned graph passed the code's own assertion graph.is_consistent() *)
Theorem C17_from_automaton_consistent : forall (R : cring) (aut : autop R) (L : nat) (g : graph R),
  from_automaton aut L = Some g -> is_consistent g = Some true.
Proof.
  intros R aut L g H. unfold from_automaton, from_automaton_r in H.
  destruct (from_automaton_raw aut L) as [g'|]; simpl in H; [|discriminate].
  destruct (is_consistent g') as [[|]|] eqn:E; simpl in H; try discriminate. inversion H; subst. exact E.
Qed.
Print Assumptions C17_from_automaton_consistent.

(* The two statements that were left open here are proved in sections (d) and (e):
     from_automaton aut L = Some g -> glength g = Some L                         (C17_from_automaton_length)
     aut_consistent aut = true -> 1 <= L -> (exists w, aut_den aut L w <> 0) -> exists g, from_automaton aut L = Some g
                                                                                 (C17_from_automaton_total_den)
   (the second says that the code's assertions never fire when a path exists; L >= 1 is needed: for L = 0 the code
   raises ValueError although aut_den aut 0 [] = 1 when the two terminals coincide). *)

(* ------------------------------------------------------------------------------------------------
   (b) trees.  from_optrees_raw is from_optrees up to (not including) the final simplify(), whose effect on
   the meaning is covered by the rewrite theorems of C16.  For every coefficient ring, every list of trees
   (any branching, leaves at different depths, shared operator ids) with non-negative start sites and every
   L: if the model returns a graph g (tree heights fit, charges match), the coefficient of every word is the
   sum over the trees of [identities before istart] (x) [tree paths, leaves continued by identities]. *)
Theorem C17_from_optrees_raw_den : forall (R : cring) (ts : list (optree R)) (L : nat) (oid_id : Z) (g : graph R),
  Forall (fun t => 0 <= ot_istart t) ts ->
  from_optrees_raw ts (Z.of_nat L) oid_id = Some g ->
  forall w, den g w = optrees_den oid_id L ts w.
Proof. exact from_optrees_raw_den. Qed.
Print Assumptions C17_from_optrees_raw_den.

(* on words of length L no condition on the start sites is needed (a negative istart makes the code build
   longer paths: Proofs/C17OpTree.v, Example from_optrees_raw_negative_start) *)
Theorem C17_from_optrees_raw_den_len : forall (R : cring) (ts : list (optree R)) (L : nat) (oid_id : Z) (g : graph R),
  from_optrees_raw ts (Z.of_nat L) oid_id = Some g ->
  forall w, length w = L -> den g w = optrees_den oid_id L ts w.
Proof. exact from_optrees_raw_den_len. Qed.
Print Assumptions C17_from_optrees_raw_den_len.

(* structural part of consistency: outgoing edge-id lists and edge list agree (so [den] is the path sum over the edges) *)
Theorem C17_from_optrees_raw_outinv_partial : forall (R : cring) (ts : list (optree R)) (L : nat) (oid_id : Z) (g : graph R),
  from_optrees_raw ts (Z.of_nat L) oid_id = Some g -> OutInv g.
Proof. exact from_optrees_raw_outinv. Qed.
Print Assumptions C17_from_optrees_raw_outinv_partial.

(* NOT PROVED in general (validated on every generated case by check_from_optrees):
     from_optrees_raw ts L oid = Some g -> is_consistent g = Some true /\ glength g = Some L *)

(* non-vacuity: two trees, branching, leaves at different depths, shared operator ids, a start site > 0 *)
Example C17_optrees_nonvacuous :
  let t1 := mkoptree (@TNode GIring 0 [(1, (2, 0), @TNode GIring 0 [(2, (1, 0), @TNode GIring 0 []); (1, (3, 0), @TNode GIring 0 [(1, (1, 0), @TNode GIring 0 [])])]);
                                       (2, (-1, 0), @TNode GIring 0 [])]) 0 in
  let t2 := mkoptree (@TNode GIring 0 [(1, (1, 1), @TNode GIring 0 [])]) 1 in
  match from_optrees_raw [t1; t2] 3 0 with
  | Some g => glength_is g 3 && match is_consistent g with Some true => true | _ => false end &&
              keqb GIring (den g [1; 2; 0]) (2, 0) && keqb GIring (den g [1; 1; 1]) (6, 0) &&
              keqb GIring (den g [2; 0; 0]) (-1, 0) && keqb GIring (den g [0; 1; 0]) (1, 1) &&
              keqb GIring (optrees_den 0 3 [t1; t2] [1; 1; 1]) (6, 0) && keqb GIring (den g [1; 1; 0]) (0, 0)
  | None => false
  end = true.
Proof. vm_compute. reflexivity. Qed.

(* ------------------------------------------------------------------------------------------------
   (c) dense meaning: as_matrix = sum over words of (coefficient of the word) * Kronecker product of the
   mapped operators, entry by entry, for every operator map into d x d matrices. *)
Theorem C17_chain_dense : forall (R : cring) (opmap : Z -> mx R) (d : nat),
  (forall o, wf (opmap o) /\ nr (opmap o) = d /\ nc (opmap o) = d) ->
  forall (oids : list Z) (c : R),
    nr (chain_as_matrix opmap oids c) = (d ^ length oids)%nat /\
    nc (chain_as_matrix opmap oids c) = (d ^ length oids)%nat /\
    wf (chain_as_matrix opmap oids c) /\
    forall i j, (i < d ^ length oids)%nat -> (j < d ^ length oids)%nat ->
      get (chain_as_matrix opmap oids c) i j = kmul R c (get (kron_word opmap oids) i j).
Proof. exact chain_dense. Qed.
Print Assumptions C17_chain_dense.

(* graphs, direction 1 (default) and direction 0: for a layered graph (level function [lev]) whose nodes refer
   to edges that refer back to them (first clause of is_consistent) *)
Theorem C17_graph_dense_dir1 : forall (R : cring) (opmap : Z -> mx R) (d : nat),
  (forall o, wf (opmap o) /\ nr (opmap o) = d /\ nc (opmap o) = d) ->
  forall (g : graph R) (ops : list Z) (lev : Z -> nat),
    NoDup ops ->
    (forall e p, In e (g_edges g) -> In p (e_opics e) -> In (fst p) ops) ->
    lev (g_t1 g) = 0%nat ->
    (forall e, In e (g_edges g) -> lev (e_from e) = S (lev (e_to e))) ->
    forallb (node_refs_ok R g) (g_nodes g) = true ->
    forall M, graph_as_matrix opmap g 1 = Ok M ->
      nr M = (d ^ lev (g_t0 g))%nat /\ nc M = (d ^ lev (g_t0 g))%nat /\ wf M /\
      forall i j, (i < nr M)%nat -> (j < nc M)%nat ->
        get M i j = word_sum_entry opmap ops (lev (g_t0 g)) (den g) i j.
Proof.
  intros R opmap d Hop g ops lev Hnd Hops Hl0 Hl Hrefs. apply graph_dense1; auto.
  apply node_refs_ok_out. exact Hrefs.
Qed.
Print Assumptions C17_graph_dense_dir1.

Theorem C17_graph_dense_dir0 : forall (R : cring) (opmap : Z -> mx R) (d : nat),
  (forall o, wf (opmap o) /\ nr (opmap o) = d /\ nc (opmap o) = d) ->
  forall (g : graph R) (ops : list Z) (lev : Z -> nat),
    NoDup ops ->
    (forall e p, In e (g_edges g) -> In p (e_opics e) -> In (fst p) ops) ->
    lev (g_t0 g) = 0%nat ->
    (forall e, In e (g_edges g) -> lev (e_to e) = S (lev (e_from e))) ->
    forallb (node_refs_ok R g) (g_nodes g) = true ->
    forall M, graph_as_matrix opmap g 0 = Ok M ->
      nr M = (d ^ lev (g_t1 g))%nat /\ nc M = (d ^ lev (g_t1 g))%nat /\ wf M /\
      forall i j, (i < nr M)%nat -> (j < nc M)%nat ->
        get M i j = word_sum_entry opmap ops (lev (g_t1 g)) (den_rev g) i j.
Proof.
  intros R opmap d Hop g ops lev Hnd Hops Hl0 Hl Hrefs. apply graph_dense0; auto.
  apply node_refs_ok_in. exact Hrefs.
Qed.
Print Assumptions C17_graph_dense_dir0.

(* trees with at least one edge (OpTree.as_matrix of a single leaf returns zeros((1,1)), see the report);
   shallower leaves are padded with identities up to the height of the tree; the identity operator id must
   be mapped to the identity matrix *)
Theorem C17_tree_dense : forall (R : cring) (opmap : Z -> mx R) (d : nat),
  (forall o, wf (opmap o) /\ nr (opmap o) = d /\ nc (opmap o) = d) ->
  forall (ops : list Z) (oid_id : Z),
    (0 < d)%nat -> NoDup ops -> In oid_id ops -> opmap oid_id = idmx d ->
    forall (t : tree R) (M : mx R),
      is_leaf t = false -> tree_ops_okb R ops t = true -> subtree_as_matrix opmap t = Ok M ->
      nr M = (d ^ tree_height t)%nat /\ nc M = (d ^ tree_height t)%nat /\ wf M /\
      forall i j, (i < nr M)%nat -> (j < nc M)%nat ->
        get M i j = word_sum_entry opmap ops (tree_height t) (tree_den oid_id t) i j.
Proof. exact tree_dense. Qed.
Print Assumptions C17_tree_dense.

(* ------------------------------------------------------------------------------------------------
   Non-vacuity: the Ising automaton of pytenet/hamiltonian.py (ising_mpo) with J = 2, h = -1, g = 3 at Z[i]:
   it is consistent, from_automaton returns a graph of length 3, and the coefficients are the expected ones. *)
Definition ising_aut (J h g : GI) : autop GIring :=
  let c (o : Z) (x : GI) : nat -> list (Z * GI) := fun _ => [(o, x)] in
  let a : nat -> bool := fun _ => true in
  mkautop [mknode 0 [0] [0; 2; 4; 5] 0; mknode 1 [1; 3; 4; 5] [1] 0; mknode 2 [2] [3] 0]
          [@mkaedge GIring 0 0 0 (c 0 (1, 0)) a; @mkaedge GIring 1 1 1 (c 0 (1, 0)) a;
           @mkaedge GIring 2 0 2 (c 1 J) a; @mkaedge GIring 3 2 1 (c 1 (1, 0)) a;
           @mkaedge GIring 4 0 1 (c 1 h) a; @mkaedge GIring 5 0 1 (c 2 g) a] 0 1.

Example C17_ising_nonvacuous :
  let aut := ising_aut (2, 0) (-1, 0) (3, 0) in
  aut_consistent aut &&
  match from_automaton aut 3 with
  | Some g => glength_is g 3 &&
              keqb GIring (den g [1; 1; 0]) (2, 0) && keqb GIring (den g [0; 1; 1]) (2, 0) &&
              keqb GIring (den g [0; 2; 0]) (3, 0) && keqb GIring (den g [1; 0; 0]) (-1, 0) &&
              keqb GIring (den g [1; 0; 1]) (0, 0) && keqb GIring (aut_den aut 3 [1; 1; 0]) (2, 0) &&
              Nat.eqb (length (g_nodes g)) 8
  | None => false
  end = true.
Proof. vm_compute. reflexivity. Qed.

(* non-vacuity of the dense-meaning hypotheses: the Ising graph for L = 2 with the Pauli operator map is layered,
   refers back correctly, and graph_as_matrix returns a 4 x 4 matrix *)
Definition pauli_opmap : Z -> mx GIring :=
  fun o => if o =? 1 then @mkmx GIring 2 2 [[(1, 0); (0, 0)]; [(0, 0); (-1, 0)]]
           else if o =? 2 then @mkmx GIring 2 2 [[(0, 0); (1, 0)]; [(1, 0); (0, 0)]] else idmx 2.
Definition ising2 : graph GIring := Eval vm_compute in
  match from_automaton (ising_aut (2, 0) (-1, 0) (3, 0)) 2 with Some g => g | None => mkgraph [] [] 0 0 end.
Definition ising2_lev : Z -> nat := fun nid => if nid =? 0 then 2%nat else if nid =? 4 then 0%nat else 1%nat.

Example C17_graph_dense_nonvacuous :
  (forall o, wf (pauli_opmap o) /\ nr (pauli_opmap o) = 2%nat /\ nc (pauli_opmap o) = 2%nat) /\
  NoDup [0; 1; 2] /\
  (forall e p, In e (g_edges ising2) -> In p (e_opics e) -> In (fst p) [0; 1; 2]) /\
  ising2_lev (g_t1 ising2) = 0%nat /\
  (forall e, In e (g_edges ising2) -> ising2_lev (e_from e) = S (ising2_lev (e_to e))) /\
  forallb (node_refs_ok GIring ising2) (g_nodes ising2) = true.
Proof.
  split; [|split; [|split; [|split; [|split]]]].
  - intros o. unfold pauli_opmap. destruct (o =? 1); [|destruct (o =? 2)]; repeat split; reflexivity.
  - repeat constructor; simpl; intuition discriminate.
  - intros e p He Hp. unfold ising2 in He; cbn [g_edges In] in He.
    repeat (destruct He as [<-|He]; [cbn [e_opics In] in Hp; repeat (destruct Hp as [<-|Hp]; [cbn [fst In]; auto 8|]); destruct Hp|]).
    destruct He.
  - vm_compute. reflexivity.
  - intros e He. unfold ising2 in He; cbn [g_edges In] in He.
    repeat (destruct He as [<-|He]; [reflexivity|]). destruct He.
  - vm_compute. reflexivity.
Qed.
Example C17_graph_dense_nonvacuous_matrix :
  match graph_as_matrix pauli_opmap ising2 1, graph_as_matrix pauli_opmap ising2 0 with
  | Ok M, Ok M0 => Nat.eqb (nr M) 4 && keqb GIring (get M 0 0) (0, 0) && keqb GIring (get M 0 1) (3, 0) &&
                   keqb GIring (get M 1 1) (-2, 0) && mxeqb M M0
  | _, _ => false
  end = true.
Proof. vm_compute. reflexivity. Qed.

(* ------------------------------------------------------------------------------------------------
   (d) "Both graphs are consistent and of the requested length."  [WF] is C16's well-formedness
   (Proofs/RewritesBase.v: unique keys, duplicate-free edge-id lists, node <-> edge references in both directions,
   sorted opics, clean terminals, NO DANGLING NODES, a level function); [glength] follows the first out-edge from
   the start terminal exactly like OpGraph.length; [is_consistent_fuel] is the mirror of OpGraph.is_consistent
   (its breadth-first level search re-enumerates all walks, so for a fixed fuel it may answer None; it never
   answers Some false).  These replace the two "NOT PROVED in general" remarks of sections (a) and (b). *)

(* automata: the graph that from_automaton hands to its final assertion is well formed, has length L and cannot
   fail the consistency check.  Every active node of layer i+1 has an in-edge from layer i and every active node of
   layer i < L an out-edge into layer i+1, because active = forward reachable and backward co-reachable. *)
Theorem C17_from_automaton_raw_wellformed : forall (R : cring) (aut : autop R) (L : nat) (g : graph R),
  aut_consistent aut = true -> from_automaton_raw aut L = Ok g ->
  WF R g /\ glength g = Some L /\ forall fuel b, is_consistent_fuel fuel g = Some b -> b = true.
Proof. exact from_automaton_raw_wellformed. Qed.
Print Assumptions C17_from_automaton_raw_wellformed.

Theorem C17_from_automaton_length : forall (R : cring) (aut : autop R) (L : nat) (g : graph R),
  aut_consistent aut = true -> from_automaton aut L = Some g -> glength g = Some L.
Proof. exact from_automaton_length. Qed.
Print Assumptions C17_from_automaton_length.

(* a theorem about the construction (C17_from_automaton_consistent above only records that the model mirrors the
   code's own assertion): for every fuel the check cannot answer False *)
Theorem C17_from_automaton_consistent_all : forall (R : cring) (aut : autop R) (L : nat) (g : graph R) fuel b,
  aut_consistent aut = true -> from_automaton aut L = Some g -> is_consistent_fuel fuel g = Some b -> b = true.
Proof. exact from_automaton_consistent_all. Qed.
Print Assumptions C17_from_automaton_consistent_all.

(* the line [assert graph.is_consistent()] of from_automaton is unreachable as a failure: once the construction
   has produced its graph, the model's from_automaton_r returns it (or runs out of the model's own fuel) *)
Theorem C17_from_automaton_assert_unreachable : forall (R : cring) (aut : autop R) (L : nat) (g : graph R),
  aut_consistent aut = true -> from_automaton_raw aut L = Ok g ->
  from_automaton_r aut L = Ok g \/ from_automaton_r aut L = Err EFuel.
Proof. exact from_automaton_assert_unreachable. Qed.
Print Assumptions C17_from_automaton_assert_unreachable.

(* That the three assertions on the active layers never fire when a path exists, and that the model's fuel
   [cons_fuel] for the level search suffices, is proved in section (e) below. *)

(* the hypothesis [aut_consistent] is needed for the length: an automaton whose edge 2 -> 4 is missing from the
   out-list of node 2 (AutOp.is_consistent rejects it) yields a graph with a dangling node that passes
   OpGraph.is_consistent, and OpGraph.length (first out-edges) answers 1 instead of 3 *)
Example C17_length_needs_consistent_automaton :
  let c (o : Z) : nat -> list (Z * GI) := fun _ => [(o, (1, 0))] in
  let a : nat -> bool := fun _ => true in
  let aut := mkautop [mknode 0 [] [0; 2] 0; mknode 1 [5; 4] [] 0; mknode 2 [2] [] 0; mknode 3 [0] [1] 0;
                      mknode 4 [3] [4] 0; mknode 5 [1] [5] 0]
                     [@mkaedge GIring 0 0 3 (c 1) a; @mkaedge GIring 1 3 5 (c 1) a; @mkaedge GIring 5 5 1 (c 1) a;
                      @mkaedge GIring 2 0 2 (c 2) a; @mkaedge GIring 3 2 4 (c 2) a; @mkaedge GIring 4 4 1 (c 2) a] 0 1 in
  negb (aut_consistent aut) &&
  match from_automaton aut 3 with Some g => glength_is g 1 && negb (wfb g) | None => false end = true.
Proof. vm_compute. reflexivity. Qed.

(* trees, before simplify().  Identity strings are inserted before a tree's start site and after its leaves; leaves
   exactly at the terminal reuse the terminal node.  Hypotheses: the model accepts the list (charges consistent,
   heights fit), start sites are non-negative (a negative start site makes the code build paths longer than L), and
   for the length at least one tree (the empty list gives the two isolated terminals: consistent, length 0). *)
Theorem C17_from_optrees_raw_wellformed : forall (R : cring) (ts : list (optree R)) (L : nat) (oid_id : Z) (g : graph R),
  ts <> [] -> Forall (fun t => 0 <= ot_istart t) ts ->
  from_optrees_raw ts (Z.of_nat L) oid_id = Some g -> WF R g.
Proof. exact from_optrees_raw_WF. Qed.
Print Assumptions C17_from_optrees_raw_wellformed.

Theorem C17_from_optrees_raw_length : forall (R : cring) (ts : list (optree R)) (L : nat) (oid_id : Z) (g : graph R),
  ts <> [] -> Forall (fun t => 0 <= ot_istart t) ts ->
  from_optrees_raw ts (Z.of_nat L) oid_id = Some g -> glength g = Some L.
Proof. exact from_optrees_raw_length. Qed.
Print Assumptions C17_from_optrees_raw_length.

Theorem C17_from_optrees_raw_consistent : forall (R : cring) (ts : list (optree R)) (L : nat) (oid_id : Z) (g : graph R) fuel b,
  Forall (fun t => 0 <= ot_istart t) ts -> from_optrees_raw ts (Z.of_nat L) oid_id = Some g ->
  is_consistent_fuel fuel g = Some b -> b = true.
Proof. exact from_optrees_raw_consistent. Qed.
Print Assumptions C17_from_optrees_raw_consistent.

(* trees, after simplify() (through C16: C16_simplify, C16_simplify_terminates, C16_passes_own_check): simplify
   returns a graph; it is well formed, hence consistent; it denotes the padded-tree sum; it has length L (simplify
   keeps both terminals and every level function); it has no more nodes and edges than the raw graph. *)
Theorem C17_from_optrees_simplified : forall (R : cring) (ts : list (optree R)) (L : nat) (oid_id : Z) (g : graph R),
  ts <> [] -> Forall (fun t => 0 <= ot_istart t) ts ->
  from_optrees_raw ts (Z.of_nat L) oid_id = Some g ->
  (exists g', simplify g = Some g') /\
  forall g', simplify g = Some g' ->
    WF R g' /\ (forall w, den g' w = optrees_den oid_id L ts w) /\ glength g' = Some L /\
    (forall fuel b, is_consistent_fuel fuel g' = Some b -> b = true) /\
    (length (g_edges g') <= length (g_edges g))%nat /\ (length (g_nodes g') <= length (g_nodes g))%nat.
Proof. exact from_optrees_simplified. Qed.
Print Assumptions C17_from_optrees_simplified.

(* non-vacuity.  The Ising automaton (L = 5): consistent, the model returns a graph, C16's boolean well-formedness
   check and the length agree with the theorems.  A ragged tree list (branching, leaves at depths 1, 2, 3, one leaf
   exactly at the terminal, one tree starting at site 1): accepted, raw and simplified graphs well formed, length 3. *)
Example C17_ising_length_nonvacuous :
  let aut := ising_aut (2, 0) (-1, 0) (3, 0) in
  aut_consistent aut &&
  match from_automaton_raw aut 5, from_automaton aut 5 with
  | Ok g, Some g' => graph_eqb g g' && wfb g && glength_is g 5 && Nat.eqb (length (g_nodes g)) 14
  | _, _ => false
  end = true.
Proof. vm_compute. reflexivity. Qed.

Example C17_optrees_length_nonvacuous :
  let t1 := mkoptree (@TNode GIring 0 [(1, (2, 0), @TNode GIring 0 [(2, (1, 0), @TNode GIring 0 []); (1, (3, 0), @TNode GIring 0 [(1, (1, 0), @TNode GIring 0 [])])]);
                                       (2, (-1, 0), @TNode GIring 0 [])]) 0 in
  let t2 := mkoptree (@TNode GIring 0 [(1, (1, 1), @TNode GIring 0 [])]) 1 in
  forallb (fun t => 0 <=? ot_istart t) [t1; t2] &&
  match from_optrees_raw [t1; t2] 3 0 with
  | Some g => wfb g && glength_is g 3 &&
              match simplify g with
              | Some g' => wfb g' && glength_is g' 3 && Nat.ltb (length (g_nodes g')) (length (g_nodes g)) &&
                           keqb GIring (den g' [1; 1; 1]) (6, 0)
              | None => false
              end
  | None => false
  end = true.
Proof. vm_compute. reflexivity. Qed.

(* the side conditions are needed: the empty list has length 0, not L; a negative start site next to a regular
   tree reaches the end terminal at two different levels and fails the consistency check *)
Example C17_optrees_side_conditions_needed :
  match from_optrees_raw (@nil (optree GIring)) 2 0 with Some g => glength_is g 0 | None => false end &&
  match from_optrees_raw [mkoptree (@TNode GIring 0 []) (-1); mkoptree (@TNode GIring 0 []) 0] 1 0 with
  | Some g => match is_consistent g with Some false => true | _ => false end
  | None => false
  end = true.
Proof. vm_compute. reflexivity. Qed.

(* ------------------------------------------------------------------------------------------------
   (e) Totality of from_automaton: "for all automata ... with at least one path of the requested length, and
   all lengths L >= 1".  The hypothesis is the executable predicate [is_path aut L eids] of Model/AutOpPath.v: [eids]
   lists L edge ids; step i leaves the current node (starting at the start terminal) along an edge that is active at
   site i, and the last step arrives at the end terminal.  The model's error value covers every way the code can fail:
   ValueError (L < 1, duplicate node/edge ids in add_node/add_edge, max of an empty dictionary), KeyError (dictionary
   lookups autop.nodes[...] / autop.edges[...]), IndexError (nids_map[i][idx]), AssertionError (nids_active[0] ==
   [terminal 0], nids_active[-1] == [terminal 1], graph.is_consistent()) and the model's own fuel for is_consistent.
   The code's first assertion, len(nids_active) == length + 1, is not a branch of the model; it cannot fire
   (C17_active_layers_length). *)
Theorem C17_from_automaton_total : forall (R : cring) (aut : autop R),
  aut_consistent aut = true -> forall L : nat, (1 <= L)%nat -> (exists eids, is_path aut L eids = true) ->
  exists g, from_automaton aut L = Some g /\ from_automaton_r aut L = Ok g /\ from_automaton_raw aut L = Ok g.
Proof. exact from_automaton_total. Qed.
Print Assumptions C17_from_automaton_total.

(* converse: without a path the code stops at [assert nids_active[0] == [autop.nid_terminal[0]]] *)
Theorem C17_from_automaton_no_path_raises : forall (R : cring) (aut : autop R),
  aut_consistent aut = true -> forall L : nat, (1 <= L)%nat -> ~ (exists eids, is_path aut L eids = true) ->
  from_automaton_r aut L = Err EAssert.
Proof. exact from_automaton_no_path. Qed.
Print Assumptions C17_from_automaton_no_path_raises.

Theorem C17_from_automaton_returns_iff_path : forall (R : cring) (aut : autop R),
  aut_consistent aut = true -> forall L : nat, (1 <= L)%nat ->
  ((exists g, from_automaton aut L = Some g) <-> (exists eids, is_path aut L eids = true)).
Proof. exact from_automaton_some_iff. Qed.
Print Assumptions C17_from_automaton_returns_iff_path.

(* the hypothesis in terms of the path sum: some word has a non-zero coefficient *)
Theorem C17_from_automaton_total_den : forall (R : cring) (aut : autop R),
  aut_consistent aut = true -> forall L : nat, (1 <= L)%nat -> (exists w, aut_den aut L w <> k0 R) ->
  exists g, from_automaton aut L = Some g.
Proof. exact from_automaton_total_den. Qed.
Print Assumptions C17_from_automaton_total_den.

(* the model's fuel for the level search of is_consistent suffices on both constructions (this removes the
   alternative [Err EFuel] of C17_from_automaton_assert_unreachable and the "for every fuel" of
   C17_from_optrees_raw_consistent) *)
Theorem C17_from_automaton_fuel_suffices : forall (R : cring) (aut : autop R) (L : nat) (g : graph R),
  aut_consistent aut = true -> from_automaton_raw aut L = Ok g -> from_automaton_r aut L = Ok g.
Proof. exact from_automaton_fuel_suffices. Qed.
Print Assumptions C17_from_automaton_fuel_suffices.

Theorem C17_from_optrees_raw_is_consistent : forall (R : cring) (ts : list (optree R)) (L : nat) (oid_id : Z) (g : graph R),
  ts <> [] -> Forall (fun t => 0 <= ot_istart t) ts ->
  from_optrees_raw ts (Z.of_nat L) oid_id = Some g -> is_consistent g = Some true.
Proof. exact from_optrees_raw_is_consistent. Qed.
Print Assumptions C17_from_optrees_raw_is_consistent.

(* [assert len(nids_active) == length + 1] *)
Theorem C17_active_layers_length : forall (R : cring) (aut : autop R) (L : nat) (all : list (list Z)),
  active_layers aut L = Ok all -> length all = S L.
Proof. exact active_layers_length. Qed.
Print Assumptions C17_active_layers_length.

(* non-vacuity: an automaton with self loops (edges 0, 1), parallel edges 0 -> 1 (edges 4, 5), a dead state 3 (entered
   by edge 6, no way out), site-dependent activity (edge 2 only at sites 0, 1; edge 5 not at site 0) and site-dependent
   coefficients (edge 3).  It is consistent, [2; 3; 1] and [0; 5; 1] are paths of length 3, [5; 1; 1] is not (edge 5 is
   inactive at site 0), and the model returns a consistent graph of length 3 with the expected coefficients. *)
Definition total_aut : autop GIring :=
  let c (o : Z) (x : GI) : nat -> list (Z * GI) := fun _ => [(o, x)] in
  let a : nat -> bool := fun _ => true in
  mkautop [mknode 0 [0] [0; 2; 4; 5; 6] 0; mknode 1 [1; 3; 4; 5] [1] 0; mknode 2 [2] [3] 0; mknode 3 [6] [] 0]
          [@mkaedge GIring 0 0 0 (c 0 (1, 0)) a; @mkaedge GIring 1 1 1 (c 0 (1, 0)) a;
           @mkaedge GIring 2 0 2 (c 1 (1, 0)) (tab_active [true; true; false]);
           @mkaedge GIring 3 2 1 (@tab_opics GIring [[(2, (1, 0))]; [(2, (5, 0))]; [(2, (7, 0))]]) a;
           @mkaedge GIring 4 0 1 (c 3 (2, 0)) a; @mkaedge GIring 5 0 1 (c 4 (0, 1)) (tab_active [false; true; true]);
           @mkaedge GIring 6 0 3 (c 5 (1, 0)) a] 0 1.

Example C17_total_nonvacuous :
  aut_consistent total_aut && is_path total_aut 3 [2; 3; 1] && is_path total_aut 3 [0; 5; 1] &&
  negb (is_path total_aut 3 [5; 1; 1]) && negb (is_path total_aut 3 [6; 0; 0]) &&
  match from_automaton total_aut 3 with
  | Some g => glength_is g 3 && match is_consistent g with Some true => true | _ => false end &&
              keqb GIring (den g [1; 2; 0]) (5, 0) && keqb GIring (den g [0; 1; 2]) (7, 0) &&
              keqb GIring (den g [0; 4; 0]) (0, 1) && keqb GIring (den g [4; 0; 0]) (0, 0) &&
              keqb GIring (den g [3; 0; 0]) (2, 0) && keqb GIring (den g [5; 0; 0]) (0, 0) &&
              keqb GIring (aut_den total_aut 3 [0; 1; 2]) (7, 0)
  | None => false
  end = true.
Proof. vm_compute. reflexivity. Qed.

(* the converse is not vacuous either: 0 -> 2 -> 1 is a path of the underlying graph, but edge 2 is inactive at site 0
   and edge 3 at site 1, so no path of length 2 exists and the code raises AssertionError *)
Definition nopath_aut : autop GIring :=
  let c (o : Z) : nat -> list (Z * GI) := fun _ => [(o, (1, 0))] in
  mkautop [mknode 0 [] [2] 0; mknode 1 [3] [] 0; mknode 2 [2] [3] 0]
          [@mkaedge GIring 2 0 2 (c 1) (tab_active [false; true]); @mkaedge GIring 3 2 1 (c 2) (tab_active [true; false])] 0 1.
Example C17_no_path_nonvacuous :
  aut_consistent nopath_aut && negb (is_path nopath_aut 2 [2; 3]) &&
  res_graph_eqb (from_automaton_r nopath_aut 2) (Err EAssert) = true.
Proof. vm_compute. reflexivity. Qed.
