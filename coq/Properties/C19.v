(* C19 — Operands are never modified and results share no state with them.
   Theorems about the ownership model (Model/Alias.v); which descriptor each public operation has is
   validated against the real code by the correspondence check (byte snapshots, numpy.shares_memory) and, statically,
   by the source-derived write-set table of harness/writeset.py (Model/AliasStatic.v, theorems C19_static_* below). *)
From Coq Require Import List Arith ZArith Lia Bool.
From PT Require Import Model.Alias Proofs.AliasProofs Model.AliasStatic Proofs.AliasStaticProofs.
Import ListNotations.

(* Objects never share cells, in every reachable state of every history. *)
Theorem C19_no_sharing_invariant : forall es, Inv (run es (mkstate [] [])).
Proof. exact reachable_inv. Qed.
Print Assumptions C19_no_sharing_invariant.

(* Frame: through any history, an object that is not the documented target of an in-place event keeps
   its cells and their contents bit for bit. *)
Theorem C19_frame : forall es s i o, Inv s -> nth_error (objs s) i = Some o ->
  (forall e, In e es -> target_of e <> Some i) ->
  nth_error (objs (run es s)) i = Some o /\ obj_content (run es s) o = obj_content s o.
Proof. exact run_frame. Qed.
Print Assumptions C19_frame.

(* Pure operations (descriptor KPure) leave every existing object unchanged. *)
Theorem C19_pure_ops_frame : forall operands es s i o, Inv s -> nth_error (objs s) i = Some o ->
  Forall (fun e => allowed KPure operands e = true) es ->
  nth_error (objs (run es s)) i = Some o /\ obj_content (run es s) o = obj_content s o.
Proof. exact pure_op_frame. Qed.
Print Assumptions C19_pure_ops_frame.

(* In-place algorithms (descriptor KInPlace t) write only the documented target, never e.g. the Hamiltonian. *)
Theorem C19_inplace_writes_only_target : forall t operands es s i o, Inv s -> nth_error (objs s) i = Some o ->
  nth_error operands t <> Some i ->
  Forall (fun e => allowed (KInPlace t) operands e = true) es ->
  nth_error (objs (run es s)) i = Some o /\ obj_content (run es s) o = obj_content s o.
Proof. exact inplace_op_frame. Qed.
Print Assumptions C19_inplace_writes_only_target.

(* Results are fresh: no cell of a returned object belongs to any operand … *)
Theorem C19_results_fresh : forall s (c : list Z) i o x, Inv s -> nth_error (objs s) i = Some o -> In x o ->
  ~ In x (fresh_cells (heap s) (length c)).
Proof. exact pure_result_fresh. Qed.
Print Assumptions C19_results_fresh.

(* … hence any later mutation of the result never alters an operand. *)
Theorem C19_result_mutations_frame : forall c es s i o, Inv s -> nth_error (objs s) i = Some o ->
  (forall e, In e es -> target_of e = None \/ target_of e = Some (length (objs s))) ->
  obj_content (run es (step s (EPure c))) o = obj_content s o.
Proof. exact result_mutations_frame. Qed.
Print Assumptions C19_result_mutations_frame.

(* Non-vacuity: a concrete history — two operands, a sum (pure), an in-place edit and a rebinding of the result. *)
Example C19_nonvacuous :
  let s := run [EPure [1; 2]%Z; EPure [3]%Z] (mkstate [] []) in
  let s' := run [EPure [4; 5]%Z; EWrite 2 0 9%Z; ERebind 2 [7]%Z] s in
  obj_content s' [0; 1] = [1; 2]%Z /\ obj_content s' [2] = [3]%Z /\ nth_error (objs s') 2 = Some [5] /\
  obs_ok (desc_of Op_mps_add) [false; false] false false = true /\
  obs_ok (desc_of Op_tdvp_singlesite) [false; true] false false = true /\
  obs_ok (desc_of Op_tdvp_singlesite) [true; true] false false = false.
Proof. vm_compute. repeat split; reflexivity. Qed.

(* ---- static tie: the write-set table derived from the current source by harness/writeset.py ---- *)

(* the enumeration the coverage check runs over is complete (and duplicate free) *)
Theorem C19_all_ops_complete : forall o, In o all_ops.
Proof. exact all_ops_complete. Qed.
Print Assumptions C19_all_ops_complete.

Theorem C19_all_ops_nodup : NoDup all_ops.
Proof. exact all_ops_nodup. Qed.
Print Assumptions C19_all_ops_nodup.

(* If the one boolean evaluation of the correspondence check succeeds on the emitted table, the table assigns to EVERY
   public operation exactly its descriptor ... *)
Theorem C19_static_table_sound : forall t, static_check t = true -> forall o, lookup t o = Some (desc_of o).
Proof. exact static_table_sound. Qed.
Print Assumptions C19_static_table_sound.

(* ... and every row (every concrete function behind an operation, e.g. each Hamiltonian constructor) has the derived
   write-set [] for a pure operation and [k] for an in-place algorithm overwriting operand k: never two operands, never
   "unknown". *)
Theorem C19_static_rows_sound : forall t, static_check t = true ->
  forall o w, In (o, w) t -> match desc_of o with KPure => w = Some [] | KInPlace k => w = Some [k] end.
Proof. exact static_rows_sound. Qed.
Print Assumptions C19_static_rows_sound.

(* Link to the machine: an operation the table classifies as pure may emit, under its descriptor, no targeted event. *)
Theorem C19_static_pure_no_target : forall t, static_check t = true ->
  forall o operands e, lookup t o = Some KPure -> allowed (desc_of o) operands e = true -> target_of e = None.
Proof. exact static_pure_no_target. Qed.
Print Assumptions C19_static_pure_no_target.

(* Non-vacuity: Model/AliasStatic.v reference_table = the table derived from the unchanged tree (48 rows: 38 operations, add/multiply helpers and the eight
   Hamiltonian constructors) passes; tables with an extra write (vdot writing psi; TDVP writing H as well), with an
   unanalysable function, or lacking an operation do not. *)
Example C19_static_nonvacuous :
  static_check reference_table = true /\
  static_check ((Op_vdot, Some [1]) :: reference_table) = false /\
  static_check ((Op_tdvp_singlesite, Some [0; 1]) :: reference_table) = false /\
  static_check ((Op_qr, None) :: reference_table) = false /\
  static_check (tl reference_table) = true /\
  static_check (filter (fun r => negb (opname_eqb (fst r) Op_graph_flip)) reference_table) = false.
Proof. vm_compute. repeat split; reflexivity. Qed.
