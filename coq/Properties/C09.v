(* C09 — TDVP is exact on a complete manifold and exactly time-reversible.
   Only statements, closed by [exact]; proofs in Proofs/SweepsSched.v and Proofs/SweepsFlow.v; the model is
   Model/Sweeps.v, tied to pytenet/evolution.py by the trace correspondence of harness/props/c09.py (which also
   requires the recorded solver-call sequence to equal the lists below).

   FULL INTENDED STATEMENT (property text): on a complete manifold one or more TDVP steps reproduce exp(-dt*n*H) applied to
   the normalised initial state (both integrators); with exact local exponentials, single-site steps with dt followed by
   the same number of steps with -dt return the initial state for any bond dimension and any complex dt, once the result
   is multiplied by the norm reported by the second call, BECAUSE THE INTEGRATOR IS SYMMETRIC.

   WHAT IS PROVED HERE — the scheduling / symmetry core, for ALL L, all step counts and all oracles:
     * the local-solver calls of one single-site step are  K0(1/2) S0(-1/2) K1(1/2) ... K_{L-1}(1) ... S0(-1/2) K0(1/2)
       (C09_sched1_explicit; coefficients in units of dt/2), the two-site analogue K2_0(1/2) K_1(-1/2) ... K2_{L-2}(1) ...;
       each list is its own reverse (C09_tdvp1_schedule_palindrome, C09_tdvp2_schedule_palindrome); n steps concatenate;
       this is what the MODEL emits (C09_tdvp1_schedule, C09_tdvp2_schedule), and the model's trace is compared with
       the implementation's recorded call sequence on every run;
     * running with -dt is running with +dt and local solvers whose time argument is negated, i.e. the times of the
       schedule for -dt are the pointwise negation (C09_tdvp1_negated_dt, C09_negated_schedule_times);
     * opposite local flows on the same local problem cancel for exactly invertible local solvers (C09_local_flows_cancel).
   NOT PROVED (name kept with _partial where a fragment is stated): exactness on a complete manifold — a statement of
   analysis about the matrix exponential, of which the model has no definition (the local exponentials are oracles);
   reversibility at the level of the dense state (needs gauge covariance of every local flow under the unitary bond gauges
   introduced by the intermediate QR / orthonormalize calls).  Both are searched by prop() against scipy.linalg.expm. *)
From Coq Require Import ZArith QArith Qcanon List Bool Lia.
From PT Require Import Base.Scalar Base.Field Base.BigSum Base.Mx Model.Tensor Model.Operation Model.Sweeps
  Proofs.SweepsSched Proofs.SweepsFlow Proofs.SweepsCheck Proofs.SweepsExample.
Import ListNotations.

Theorem C09_tdvp1_schedule_palindrome : forall L, rev (sched1 L) = sched1 L.
Proof. exact sched1_palindrome. Qed.
Print Assumptions C09_tdvp1_schedule_palindrome.

Theorem C09_tdvp2_schedule_palindrome : forall L, rev (sched2 L) = sched2 L.
Proof. exact sched2_palindrome. Qed.
Print Assumptions C09_tdvp2_schedule_palindrome.

(* readable form for L = k+1 sites: KH = one-site step K_i, KB = zero-site step S_i on the bond (i, i+1) *)
Theorem C09_sched1_explicit : forall k,
  sched1 (S k) = flat_map (fun i => [mkcall KH i 1; mkcall KB i (-1)]) (seq 0 k) ++ [mkcall KH k 2] ++
                 flat_map (fun i => [mkcall KB i (-1); mkcall KH i 1]) (rev (seq 0 k)).
Proof. exact sched1_explicit. Qed.
Print Assumptions C09_sched1_explicit.

(* what the model emits, for every input and all oracles: n copies of the schedule; the sequence is a palindrome *)
Theorem C09_tdvp1_schedule : forall (R : cring) orth_right qr kexp kexp0 (H : mpo R) psi dt hdt n A qD nrm tr,
  tdvp_singlesite orth_right qr kexp kexp0 H psi dt hdt n = Some (A, qD, nrm, tr) ->
  solver_calls tr = ncat n (sched1 (length (o_A H))) /\ rev (solver_calls tr) = solver_calls tr.
Proof. exact tdvp1_schedule. Qed.
Print Assumptions C09_tdvp1_schedule.

Theorem C09_tdvp2_schedule : forall (R : cring) orth_right split kexp (H : mpo R) psi dt hdt n A qD nrm tr,
  tdvp_twosite orth_right split kexp H psi dt hdt n = Some (A, qD, nrm, tr) ->
  solver_calls tr = ncat n (sched2 (length (o_A H))) /\ rev (solver_calls tr) = solver_calls tr.
Proof. exact tdvp2_schedule. Qed.
Print Assumptions C09_tdvp2_schedule.

(* time reversal: -dt (and 0.5*(-dt) = -(0.5*dt)) = same run with time-negated local solvers *)
Theorem C09_tdvp1_negated_dt : forall (R : cring) orth_right qr kexp kexp0 (H : mpo R) psi dt hdt n,
  tdvp_singlesite orth_right qr kexp kexp0 H psi (kopp R dt) (kopp R hdt) n =
  tdvp_singlesite orth_right qr (kexp_rev R kexp) (kexp0_rev R kexp0) H psi dt hdt n.
Proof. exact tdvp1_negated_dt. Qed.
Print Assumptions C09_tdvp1_negated_dt.

Theorem C09_tdvp2_negated_dt : forall (R : cring) orth_right split kexp (H : mpo R) psi dt hdt n,
  tdvp_twosite orth_right split kexp H psi (kopp R dt) (kopp R hdt) n =
  tdvp_twosite orth_right split (kexp_rev R kexp) H psi dt hdt n.
Proof. exact tdvp2_negated_dt. Qed.
Print Assumptions C09_tdvp2_negated_dt.

(* the time passed for coefficient c under -dt is the time for -c under dt: the schedule is negated pointwise *)
Theorem C09_negated_schedule_times : forall (R : cring) (dt hdt : R) c, In c [1; -1; 2; -2]%Z ->
  tval (kopp R dt) (kopp R hdt) c = tval dt hdt (- c).
Proof. exact tval_neg_coef. Qed.
Print Assumptions C09_negated_schedule_times.

(* K_j(c) followed by K_j(-c) on the same local problem restores the tensors, for exactly invertible local solvers *)
Theorem C09_local_flows_cancel : forall (R : cring) kexp Hs dt hdt (st : sw R) j c,
  (forall p p' BL BR W A t, kexp p' BL BR W (kexp p BL BR W A t) (kopp R t) = A) ->
  In c [1; -1; 2; -2]%Z -> (j < length (s_A st))%nat ->
  let st2 := evolve_site kexp Hs dt hdt (evolve_site kexp Hs dt hdt st j c) j (- c) in
  s_A st2 = s_A st /\ s_qD st2 = s_qD st /\ s_BL st2 = s_BL st /\ s_BR st2 = s_BR st /\
  map (@t_call R) (s_tr st2) = mkcall KH j (- c) :: mkcall KH j c :: map (@t_call R) (s_tr st).
Proof. exact local_flows_cancel. Qed.
Print Assumptions C09_local_flows_cancel.

(* ---------------- non-vacuity ---------------- *)
Example C09_schedule_L4 :
  sched1 4 = [mkcall KH 0 1; mkcall KB 0 (-1); mkcall KH 1 1; mkcall KB 1 (-1); mkcall KH 2 1; mkcall KB 2 (-1); mkcall KH 3 2;
              mkcall KB 2 (-1); mkcall KH 2 1; mkcall KB 1 (-1); mkcall KH 1 1; mkcall KB 0 (-1); mkcall KH 0 1]%Z
  /\ sched2 4 = [mkcall KH2 0 1; mkcall KH 1 (-1); mkcall KH2 1 1; mkcall KH 2 (-1); mkcall KH2 2 2;
                 mkcall KH 2 (-1); mkcall KH2 1 1; mkcall KH 1 (-1); mkcall KH2 0 1]%Z
  /\ sched1 1 = [mkcall KH 0 2]%Z.
Proof. repeat split; vm_compute; reflexivity. Qed.

(* the hypothesis "the model returns Some ..." is met by a concrete run (rational instance of Proofs/SweepsExample.v, forward
   with dt and backward with -dt), and the conclusions are what the kernel computes *)
Example C09_schedule_nonvacuous :
  match tdvp_singlesite ex_orth ex_qr kexp_id kexp0_id exH exPsi exdt exhdt 2,
        tdvp_singlesite ex_orth ex_qr kexp_id kexp0_id exH exPsi (kopp CQ exdt) (kopp CQ exhdt) 2 with
  | Some (_, _, _, tr), Some (_, _, _, tr') =>
      list_eqb call_eqb (solver_calls tr) (ncat 2 (sched1 2)) && list_eqb call_eqb (rev (solver_calls tr)) (solver_calls tr)
      && list_eqb call_eqb (solver_calls tr') (solver_calls tr) && Nat.eqb (length (solver_calls tr)) 10
  | _, _ => false
  end = true.
Proof. vm_compute. reflexivity. Qed.
