(* C09 — TDVP is exact on a complete manifold and exactly time-reversible.
   Only statements, closed by [exact]; proofs in Proofs/SweepsSched.v and Proofs/SweepsFlow.v; the model is
   Model/Sweeps.v, tied to pytenet/evolution.py by the trace correspondence of harness/props/c09.py (which also
   requires the recorded solver-call sequence to equal the lists below).

   FULL INTENDED STATEMENT (property text): on a complete manifold one or more TDVP steps reproduce exp(-dt*n*H) applied to
   the normalised initial state (both integrators); with exact local exponentials, single-site steps with dt followed by
   the same number of steps with -dt return the initial state for any bond dimension and any complex dt, once the result
   is multiplied by the norm reported by the second call, BECAUSE THE INTEGRATOR IS SYMMETRIC.

   WHAT IS PROVED HERE — the scheduling / symmetry core, for ALL L, all step counts and all oracles:
     * the local-solver calls of one single-site step are  K0(1/2) S0(-1/2) K1(1/2) ... K_{L-1}(1) ... S0(-1/2) K0(1/2)
       (C09_sched1_explicit; coefficients in units of dt/2), the two-site analogue K2_0(1/2) K_1(-1/2) ... K2_{L-2}(1) ...;
       each list is its own reverse (C09_tdvp1_schedule_palindrome, C09_tdvp2_schedule_palindrome); n steps concatenate;
       this is what the MODEL emits (C09_tdvp1_schedule, C09_tdvp2_schedule), and the model's trace is compared with
       the implementation's recorded call sequence on every run;
     * running with -dt is running with +dt and local solvers whose time argument is negated, i.e. the times of the
       schedule for -dt are the pointwise negation (C09_tdvp1_negated_dt, C09_negated_schedule_times);
     * opposite local flows on the same local problem cancel for exactly invertible local solvers (C09_local_flows_cancel).
   NOT PROVED (name kept with _partial where a fragment is stated): exactness on a complete manifold — a statement of
   analysis about the matrix exponential, of which the model has no definition (the local exponentials are oracles);
   reversibility at the level of the dense state (needs gauge covariance of every local flow under the unitary bond gauges
   introduced by the intermediate QR / orthonormalize calls).  Both are searched by prop() against scipy.linalg.expm.
   UPDATE: the reversibility clause IS now proved, relative to explicit contracts, for every L and every number of steps --
   see the section REVERSIBILITY AT THE LEVEL OF THE DENSE STATE below (C09_reversible).
   UPDATE 2: the EXACTNESS clause is now proved for single-site TDVP WITHOUT quantum numbers, every L >= 1 and every number of
   steps, relative to an abstract exact global flow G and explicit contracts on the local solvers -- see the section EXACTNESS
   ON A COMPLETE MANIFOLD at the end of this file (C09_exact_complete, C09_exact_L1, C09_exact_L2).  Still NOT proved: the
   two-site integrator; the variant with quantum numbers (known to FAIL in some sectors: finding K1); that the floating-point
   Krylov exponential meets the contracts.
   UPDATE 3: contract (A) of the exactness theorem is no longer assumed: it is DERIVED (every L) from "the solver is natural with
   respect to unitary changes of basis" = similarity invariance of the matrix exponential, exp(t U^-1 H U) = U^-1 exp(tH) U; the
   tensor-network content (H_eff = V^H Hdense V with V unitary, for the model's environment blocks and MPO.as_matrix) is proved --
   see the section CONTRACT (A) REDUCED TO A FACT ABOUT THE MATRIX EXPONENTIAL at the end (C09_exact_complete_natural).
   UPDATE 4: the EXACTNESS clause is now proved for the TWO-SITE integrator as well (integrate_local_twosite, tol_split = 0, no quantum
   numbers), every L >= 2 and every number of steps, relative to the analogous contracts on the ONE solver oracle the code uses for the
   merged two-site and for the one-site problems, and to the exact-split contract per recorded split_mps_tensor call -- see the section
   EXACTNESS ON A COMPLETE MANIFOLD, TWO-SITE INTEGRATOR at the end (C09_exact2_complete, C09_exact2_L2, C09_exact2_L3,
   C09_exact2_complete_natural).  Still NOT proved: the variant with quantum numbers; that the floating-point Krylov exponential and the
   LAPACK SVD meet the contracts. *)
From Coq Require Import ZArith QArith Qcanon List Bool Lia.
From PT Require Import Base.Scalar Base.Field Base.BigSum Base.Mx Model.Tensor Model.Operation Model.Sweeps
  Proofs.SweepsSched Proofs.SweepsFlow Proofs.SweepsCheck Proofs.SweepsExample
  Proofs.OperationEntries Proofs.SweepsCanon Proofs.ReverseDefs Proofs.ReverseGauge Proofs.ReverseQR Proofs.ReverseFwd Proofs.ReversePair
  Proofs.ReverseL1 Proofs.ReverseLocal Proofs.ReverseTop Proofs.ReverseExample
  Proofs.ExactDefs Proofs.ExactLocal Proofs.ExactStep Proofs.ExactRun Proofs.ExactExample.
From PT Require Import Model.MPSOps Proofs.MPSOpsBase Proofs.MPSOpsLaws
  Proofs.ExactGlobalDefs Proofs.ExactGlobalTop Proofs.ExactGlobalExample.
From PT Require Import Proofs.OperationTwoSite Proofs.Exact2Defs Proofs.Exact2Local Proofs.Exact2Run Proofs.Exact2Global Proofs.Exact2Poly
  Proofs.Exact2Profile Proofs.Exact2Example.
Import ListNotations.

Theorem C09_tdvp1_schedule_palindrome : forall L, rev (sched1 L) = sched1 L.
Proof. exact sched1_palindrome. Qed.
Print Assumptions C09_tdvp1_schedule_palindrome.

Theorem C09_tdvp2_schedule_palindrome : forall L, rev (sched2 L) = sched2 L.
Proof. exact sched2_palindrome. Qed.
Print Assumptions C09_tdvp2_schedule_palindrome.

(* readable form for L = k+1 sites: KH = one-site step K_i, KB = zero-site step S_i on the bond (i, i+1) *)
Theorem C09_sched1_explicit : forall k,
  sched1 (S k) = flat_map (fun i => [mkcall KH i 1; mkcall KB i (-1)]) (seq 0 k) ++ [mkcall KH k 2] ++
                 flat_map (fun i => [mkcall KB i (-1); mkcall KH i 1]) (rev (seq 0 k)).
Proof. exact sched1_explicit. Qed.
Print Assumptions C09_sched1_explicit.

(* what the model emits, for every input and all oracles: n copies of the schedule; the sequence is a palindrome *)
Theorem C09_tdvp1_schedule : forall (R : cring) orth_right qr kexp kexp0 (H : mpo R) psi dt hdt n A qD nrm tr,
  tdvp_singlesite orth_right qr kexp kexp0 H psi dt hdt n = Some (A, qD, nrm, tr) ->
  solver_calls tr = ncat n (sched1 (length (o_A H))) /\ rev (solver_calls tr) = solver_calls tr.
Proof. exact tdvp1_schedule. Qed.
Print Assumptions C09_tdvp1_schedule.

Theorem C09_tdvp2_schedule : forall (R : cring) orth_right split kexp (H : mpo R) psi dt hdt n A qD nrm tr,
  tdvp_twosite orth_right split kexp H psi dt hdt n = Some (A, qD, nrm, tr) ->
  solver_calls tr = ncat n (sched2 (length (o_A H))) /\ rev (solver_calls tr) = solver_calls tr.
Proof. exact tdvp2_schedule. Qed.
Print Assumptions C09_tdvp2_schedule.

(* time reversal: -dt (and 0.5*(-dt) = -(0.5*dt)) = same run with time-negated local solvers *)
Theorem C09_tdvp1_negated_dt : forall (R : cring) orth_right qr kexp kexp0 (H : mpo R) psi dt hdt n,
  tdvp_singlesite orth_right qr kexp kexp0 H psi (kopp R dt) (kopp R hdt) n =
  tdvp_singlesite orth_right qr (kexp_rev R kexp) (kexp0_rev R kexp0) H psi dt hdt n.
Proof. exact tdvp1_negated_dt. Qed.
Print Assumptions C09_tdvp1_negated_dt.

Theorem C09_tdvp2_negated_dt : forall (R : cring) orth_right split kexp (H : mpo R) psi dt hdt n,
  tdvp_twosite orth_right split kexp H psi (kopp R dt) (kopp R hdt) n =
  tdvp_twosite orth_right split (kexp_rev R kexp) H psi dt hdt n.
Proof. exact tdvp2_negated_dt. Qed.
Print Assumptions C09_tdvp2_negated_dt.

(* the time passed for coefficient c under -dt is the time for -c under dt: the schedule is negated pointwise *)
Theorem C09_negated_schedule_times : forall (R : cring) (dt hdt : R) c, In c [1; -1; 2; -2]%Z ->
  tval (kopp R dt) (kopp R hdt) c = tval dt hdt (- c).
Proof. exact tval_neg_coef. Qed.
Print Assumptions C09_negated_schedule_times.

(* K_j(c) followed by K_j(-c) on the same local problem restores the tensors, for exactly invertible local solvers *)
Theorem C09_local_flows_cancel : forall (R : cring) kexp Hs dt hdt (st : sw R) j c,
  (forall p p' BL BR W A t, kexp p' BL BR W (kexp p BL BR W A t) (kopp R t) = A) ->
  In c [1; -1; 2; -2]%Z -> (j < length (s_A st))%nat ->
  let st2 := evolve_site kexp Hs dt hdt (evolve_site kexp Hs dt hdt st j c) j (- c) in
  s_A st2 = s_A st /\ s_qD st2 = s_qD st /\ s_BL st2 = s_BL st /\ s_BR st2 = s_BR st /\
  map (@t_call R) (s_tr st2) = mkcall KH j (- c) :: mkcall KH j c :: map (@t_call R) (s_tr st).
Proof. exact local_flows_cancel. Qed.
Print Assumptions C09_local_flows_cancel.

(* ---------------- non-vacuity ---------------- *)
Example C09_schedule_L4 :
  sched1 4 = [mkcall KH 0 1; mkcall KB 0 (-1); mkcall KH 1 1; mkcall KB 1 (-1); mkcall KH 2 1; mkcall KB 2 (-1); mkcall KH 3 2;
              mkcall KB 2 (-1); mkcall KH 2 1; mkcall KB 1 (-1); mkcall KH 1 1; mkcall KB 0 (-1); mkcall KH 0 1]%Z
  /\ sched2 4 = [mkcall KH2 0 1; mkcall KH 1 (-1); mkcall KH2 1 1; mkcall KH 2 (-1); mkcall KH2 2 2;
                 mkcall KH 2 (-1); mkcall KH2 1 1; mkcall KH 1 (-1); mkcall KH2 0 1]%Z
  /\ sched1 1 = [mkcall KH 0 2]%Z.
Proof. repeat split; vm_compute; reflexivity. Qed.

(* the hypothesis "the model returns Some ..." is met by a concrete run (rational instance of Proofs/SweepsExample.v, forward
   with dt and backward with -dt), and the conclusions are what the kernel computes *)
Example C09_schedule_nonvacuous :
  match tdvp_singlesite ex_orth ex_qr kexp_id kexp0_id exH exPsi exdt exhdt 2,
        tdvp_singlesite ex_orth ex_qr kexp_id kexp0_id exH exPsi (kopp CQ exdt) (kopp CQ exhdt) 2 with
  | Some (_, _, _, tr), Some (_, _, _, tr') =>
      list_eqb call_eqb (solver_calls tr) (ncat 2 (sched1 2)) && list_eqb call_eqb (rev (solver_calls tr)) (solver_calls tr)
      && list_eqb call_eqb (solver_calls tr') (solver_calls tr) && Nat.eqb (length (solver_calls tr)) 10
  | _, _ => false
  end = true.
Proof. vm_compute. reflexivity. Qed.

(* =====================================================================================================================
   REVERSIBILITY AT THE LEVEL OF THE DENSE STATE (second sentence of the property), relative to an explicit contract for
   "exact local exponentials" (Proofs/ReverseDefs.v):
     (a) kexp_flow / kexp0_flow : the local solver is a flow in its time argument (solver(0) = id,
         solver(t) o solver(s) = solver(s + t)), homogeneous (flow of a linear problem), shape preserving, and does not
         depend on the call position;
     (b) kexp_covariant / kexp0_covariant : the result transforms like the tensor when the bond bases of the local problem
         (environment blocks and tensor) are changed by unitaries  A[s] -> Gl^H A[s] Gr,  L[w] -> Gl^T L[w] conj(Gl),
         R[w] -> Gr^H R[w] Gr  (true for exp(t * apply_local_hamiltonian L R W); see C09_local_problem_gauge_covariant);
     (c) per recorded call (rev_tr_ok, Proofs/ReverseFwd.v): every QR answer satisfies LAPACK's contract qr_ok, is well
         formed and has an INVERTIBLE R factor, and (first call only) every evolved bond matrix is invertible -- full rank:
         the bond dimensions do not change.  That two valid factorisations then differ by a unitary on the new bond is
         PROVED (Proofs/ReverseQR.v, uniq_left / uniq_right), not assumed;
     (d) orth_regauge: the second call's psi.orthonormalize(mode='right'), whose input is already right-canonical, only
         re-gauges the bonds by unitaries and divides the first tensor by the norm it reports (nrm2 invertible).
   The statement: psi0' = the normalised input of the first call, (A1, qD1) the in-place result of n steps with dt, A2 the
   result of n further steps with -dt on it, nrm2 the number returned by the second call:  <w|psi0'> = nrm2 * <w|A2>
   for every basis word w.  All L >= 1, all n, every bond profile Ds with Ds 0 = Ds L = 1, any scalar dt of any cring. *)

(* L = 1: contract (a) alone; the orth oracle of the second call only has to preserve amplitudes up to its norm (C01) *)
Theorem C09_reversible_L1 : forall (R : cring) orth qr (kexp : kexp_t R) (kexp0 : kexp0_t R) (H : mpo R) psi dt hdt n d
    A1 qD1 nrm1 tr1 A2 qD2 nrm2 tr2,
  length (o_A H) = 1%nat ->
  tdvp_singlesite orth qr kexp kexp0 H psi dt hdt n = Some (A1, qD1, nrm1, tr1) ->
  let psi1 := mkmps (m_qd psi) qD1 A1 in
  tdvp_singlesite orth qr kexp kexp0 H psi1 (kopp R dt) (kopp R hdt) n = Some (A2, qD2, nrm2, tr2) ->
  kexp_flow d kexp ->
  Forall (wsite d 1 1) (m_A (fst (orth psi))) ->
  Forall (wsite d 1 1) (m_A (fst (orth psi1))) ->
  (forall w, In w (words d 1) -> amp A1 w = kmul R (snd (orth psi1)) (amp (m_A (fst (orth psi1))) w)) ->
  nrm2 = snd (orth psi1) /\
  forall w, In w (words d 1) -> amp (m_A (fst (orth psi))) w = kmul R nrm2 (amp A2 w).
Proof. exact reversible_L1. Qed.
Print Assumptions C09_reversible_L1.

(* target of contract (b): all four local functions of Model/Operation.v are covariant under unitary bond gauges, over any
   cring -- the two environment updates (used by the proof below), apply_local_hamiltonian and apply_local_bond_contraction
   (so that exp(t * H_eff) and every solver that is a polynomial / unitarily covariant function of H_eff meets (b)) *)
Theorem C09_local_problem_gauge_covariant : forall (R : cring) d Dl Dr Dwl Dwr (A : site R) (W : osite R) (Gl Gr : mx R),
  (0 < d)%nat -> (0 < Dwl)%nat -> (0 < Dwr)%nat -> wsite d Dl Dr A -> osite_ok d Dwl Dwr W -> unitary Dl Gl -> unitary Dr Gr ->
  (forall L, wenv Dwl Dl Dl L ->
     contraction_operator_step_left (gsite Gl Gr A) (gsite Gl Gr A) W (genvL Gl L) =
     genvL Gr (contraction_operator_step_left A A W L)) /\
  (forall E, wenv Dwr Dr Dr E ->
     contraction_operator_step_right (gsite Gl Gr A) (gsite Gl Gr A) W (genvR Gr E) =
     genvR Gl (contraction_operator_step_right A A W E)) /\
  (forall L E, wenv Dwl Dl Dl L -> wenv Dwr Dr Dr E ->
     apply_local_hamiltonian (genvL Gl L) (genvR Gr E) W (gsite Gl Gr A) = gsite Gl Gr (apply_local_hamiltonian L E W A)) /\
  (forall L E C, wenv Dwl Dl Dl L -> wenv Dwl Dr Dr E -> wmx Dl Dr C ->
     apply_local_bond_contraction (genvL Gl L) (genvR Gr E) (gmx Gl Gr C) = gmx Gl Gr (apply_local_bond_contraction L E C)).
Proof. exact local_problem_gauge_covariant. Qed.
Print Assumptions C09_local_problem_gauge_covariant.

(* contract (c) is a theorem once R is invertible: two factorisations (isometry) x (invertible) of the same tensor differ by a unitary *)
Theorem C09_qr_gauge_unique : forall (R : cring) d Dl k (C T0 : mx R) (Aq B0 : site R), (0 < d)%nat ->
  wsite d Dl k Aq -> wsite d Dl k B0 -> left_iso Aq -> left_iso B0 -> invertible k C -> invertible k T0 ->
  rmul_site Aq C = rmul_site B0 T0 ->
  exists U, unitary k U /\ Aq = rmul_site B0 U /\ C = mulmx (adjmx U) T0.
Proof. exact uniq_left. Qed.
Print Assumptions C09_qr_gauge_unique.

(* adjacent inverse pairs: the backward right-to-left body at site i+1 undoes the forward left-to-right body at site i, up to
   a new unitary on the bond (i, i+1); [Rel] = "gauge equivalent, the scalar c on the centre tensor" *)
Theorem C09_adjacent_pair_cancels : forall (R : cring) qr (kexp : kexp_t R) (kexp0 : kexp0_t R) Hs qd d Ds DW,
  (0 < d)%nat -> (forall j, (j < length Hs)%nat -> osite_ok d (DW j) (DW (S j)) (nth j Hs [])) -> (forall j, (0 < DW j)%nat) ->
  kexp_flow d kexp -> kexp0_flow kexp0 -> kexp_covariant d kexp -> kexp0_covariant kexp0 ->
  forall dt hdt c ci, kmul R c ci = k1 R ->
  forall (X b : sw R) i, FI Hs d Ds DW i X -> (S i < length Hs)%nat ->
  rev_tr_ok qr kexp0 true dt hdt (s_tr (tdvp1_lr qr kexp kexp0 Hs qd dt hdt X i)) ->
  Rel Hs Ds c (S i) (tdvp1_lr qr kexp kexp0 Hs qd dt hdt X i) b ->
  rev_tr_ok qr kexp0 false (kopp R dt) (kopp R hdt) (s_tr (tdvp1_rl qr kexp kexp0 Hs qd (kopp R dt) (kopp R hdt) b (S i))) ->
  Rel Hs Ds c i X (tdvp1_rl qr kexp kexp0 Hs qd (kopp R dt) (kopp R hdt) b (S i)).
Proof. exact undo_lr. Qed.
Print Assumptions C09_adjacent_pair_cancels.

(* the full statement, every L >= 1 and every number of steps *)
Theorem C09_reversible : forall (R : cring) orth qr (kexp : kexp_t R) (kexp0 : kexp0_t R) (H : mpo R) psi dt hdt n d Ds DW
    A1 qD1 nrm1 tr1 A2 qD2 nrm2 tr2,
  let L := length (o_A H) in
  tdvp_singlesite orth qr kexp kexp0 H psi dt hdt n = Some (A1, qD1, nrm1, tr1) ->
  let psi1 := mkmps (m_qd psi) qD1 A1 in
  tdvp_singlesite orth qr kexp kexp0 H psi1 (kopp R dt) (kopp R hdt) n = Some (A2, qD2, nrm2, tr2) ->
  (0 < d)%nat -> (forall j, (j < L)%nat -> osite_ok d (DW j) (DW (S j)) (nth j (o_A H) [])) -> (forall j, (0 < DW j)%nat) ->
  DW 0%nat = 1%nat -> DW L = 1%nat -> Ds 0%nat = 1%nat -> Ds L = 1%nat ->
  kexp_flow d kexp -> kexp0_flow kexp0 -> kexp_covariant d kexp -> kexp0_covariant kexp0 ->
  (forall j, (j < L)%nat -> wsite d (Ds j) (Ds (S j)) (nth j (m_A (fst (orth psi))) [])) ->
  (forall j, (0 < j < L)%nat -> right_iso (nth j (m_A (fst (orth psi))) [])) ->
  rev_tr_ok qr kexp0 true dt hdt (rev tr1) ->
  rev_tr_ok qr kexp0 false (kopp R dt) (kopp R hdt) (rev tr2) ->
  orth_regauge Ds L A1 (orth psi1) ->
  nrm2 = snd (orth psi1) /\
  forall w, In w (words d L) -> amp (m_A (fst (orth psi))) w = kmul R nrm2 (amp A2 w).
Proof. exact tdvp1_reversible. Qed.
Print Assumptions C09_reversible.

(* ---------------- non-vacuity of C09_reversible ----------------
   Proofs/ReverseExample.v: L = 2, d = 2, bond dimension 2, rational entries, 2 steps with dt = 1/3 and 2 steps with -1/3;
   local solver kexp(t) A = A + t * (sigma^+ on the physical leg) A  (an exact flow, NOT the identity; contracts (a), (b)
   proved for all arguments), QR oracle Q = 1, R = the matrix (per-call contracts evaluated by the kernel on both recorded
   traces), orth oracle = division of the first tensor by 2 with reported norm 2.  Every hypothesis of C09_reversible is
   discharged, so its conclusion holds for the instance: *)
Example C09_reversible_nonvacuous :
  rn x_run2 = snd (x_orth x_psi1) /\
  forall w, In w (words 2 2) -> amp (m_A (fst (x_orth xPsi))) w = kmul Qcring (rn x_run2) (amp (rA x_run2) w).
Proof. exact x_reversible. Qed.
(* ... the state after the first call differs from the start, the kernel computes the same conclusion, the reported norm is 2,
   and 18 calls were traced in the first run *)
Example C09_reversible_nontrivial :
  negb (list_eqb (keqb Qcring) (amps (rA x_run1)) (amps (m_A (fst (x_orth xPsi))))) &&
  list_eqb (keqb Qcring) (amps (m_A (fst (x_orth xPsi)))) (map (kmul Qcring (rn x_run2)) (amps (rA x_run2))) &&
  keqb Qcring (rn x_run2) (xq 2 1) && Nat.eqb (length (rt x_run1)) 18 = true.
Proof. exact x_nontrivial. Qed.

(* =====================================================================================================================
   EXACTNESS ON A COMPLETE MANIFOLD (first sentence of the property), single-site integrator, no quantum numbers, relative to
   an abstract exact global flow  G t : dense vectors -> dense vectors  (dense d L As = the amplitudes of the chain As on all
   words, in the order of [words] = as_vector).  Contracts (Proofs/ExactDefs.v; all restricted to the tensors W of the given
   operator and to the given bond profile Ds; none mentions a run):
     (F)  kexp_flowH       the site solver keeps shapes, solver(0) = id, solver(t) o solver(s) = solver(s + t);
     (S0) kexp0_shape      the bond solver keeps shapes;
     (IL) intertwine_left  site solver on Q.C = Q.(bond solver on C, left block updated by the model's
                           contraction_operator_step_left Q Q W BL) for left-UNITARY Q (Q^H Q = 1 and Q Q^H = 1);
     (IR) intertwine_right site solver on C.B = (bond solver on C, right block updated by contraction_operator_step_right).B
                           for right-unitary B;
          -- these encode  H_site (Q (x) 1) = (Q (x) 1) H_bond  (PROVED for the model's local operators:
             C09_local_operators_intertwine_left / _right below) plus  "H1 V = V H2  =>  exp(t H1) V = V exp(t H2)";
     (A)  kexp_global G m  if every tensor left of site m is left-unitary and every tensor right of it right-unitary (complete
                           frames) and the environment blocks are the ones the model builds from them, then evolving the tensor
                           at site m by the site solver for time t changes the dense state by G t
          -- encodes  H_eff = V^H H V  (Proofs/OperationLocal.v) plus  exp(t V^H H V) = V^H exp(t H) V  for unitary V;
     (G)  G_flow           G 0 = id and G t o G s = G (s + t) on dense vectors of chains.
   Hypotheses on the run: "complete manifold" = complete_profile (Ds 0 = Ds L = 1, d * Ds j = Ds (j+1) left of the split site
   m, Ds j = d * Ds (j+1) right of it; e.g. Ds j = min(d^j, d^(L-j)) with m = the middle), the orthonormalised start tensors
   right of m are right-unitary, hdt + hdt = dt, and per recorded QR call (ex_tr_ok): LAPACK's contract qr_ok, a well-formed R
   factor with as many rows as the input has columns, and orthonormal ROWS of Q when the input is square (over C a
   consequence of qr_ok; not derivable in a commutative ring without determinants).  No uniqueness of QR, no gauge covariance
   and no invertibility is needed.
   Conclusion, mirroring what evolution.py returns (the state is normalised by orthonormalize first, its norm is returned):
     nrm = the number reported by orthonormalize,  dense(result) = G (n * dt) (dense(normalised start state)).
   Proof (Lubich-Oseledets-Vandereycken): left of m the K-step and the S-step of a loop body cancel; at m the K-step is
   G(dt/2); right of m the S-step of one body cancels against the K-step of the next; symmetric in the backward half sweep. *)

(* the model's local operators intertwine: H_site (Q (x) 1) = (Q (x) 1) H_bond when Q Q^H = 1, and the mirror image *)
Theorem C09_local_operators_intertwine_left : forall (R : cring) d Dl k Dr Dwl Dwr (BL BR : env R) (W : osite R) (Q : site R) (C : mx R),
  (0 < d)%nat -> (0 < Dwl)%nat -> (0 < Dwr)%nat -> wsite d Dl k Q -> lcoiso Q -> wmx k Dr C -> osite_ok d Dwl Dwr W ->
  wenv Dwl Dl Dl BL -> wenv Dwr Dr Dr BR ->
  apply_local_hamiltonian BL BR W (rmul_site Q C) =
  rmul_site Q (apply_local_bond_contraction (contraction_operator_step_left Q Q W BL) BR C).
Proof. exact alh_intertwine_left. Qed.
Print Assumptions C09_local_operators_intertwine_left.

Theorem C09_local_operators_intertwine_right : forall (R : cring) d Dl k Dr Dwl Dwr (BL BR : env R) (W : osite R) (B : site R) (C : mx R),
  (0 < d)%nat -> (0 < Dwl)%nat -> (0 < Dwr)%nat -> wsite d k Dr B -> rcoiso B -> wmx Dl k C -> osite_ok d Dwl Dwr W ->
  wenv Dwl Dl Dl BL -> wenv Dwr Dr Dr BR ->
  apply_local_hamiltonian BL BR W (lmul_site C B) =
  lmul_site (apply_local_bond_contraction BL (contraction_operator_step_right B B W BR) C) B.
Proof. exact alh_intertwine_right. Qed.
Print Assumptions C09_local_operators_intertwine_right.

(* L = 1: the site flow is the global flow; contracts (F), (A), (G) only *)
Theorem C09_exact_L1 : forall (R : cring) orth qr (kexp : kexp_t R) (kexp0 : kexp0_t R) (H : mpo R) psi dt hdt n d Ds DW G A1 qD1 nrm tr,
  length (o_A H) = 1%nat ->
  tdvp_singlesite orth qr kexp kexp0 H psi dt hdt n = Some (A1, qD1, nrm, tr) ->
  (0 < d)%nat -> osite_ok d (DW 0%nat) (DW 1%nat) (nth 0 (o_A H) []) -> DW 0%nat = 1%nat -> DW 1%nat = 1%nat -> Ds 0%nat = 1%nat -> Ds 1%nat = 1%nat ->
  kexp_flowH (o_A H) d Ds DW kexp -> kexp_global (o_A H) d Ds G 0 kexp -> G_flow (o_A H) d G ->
  wsite d 1 1 (nth 0 (m_A (fst (orth psi))) []) ->
  nrm = snd (orth psi) /\ dense d 1 A1 = G (nmul n dt) (dense d 1 (m_A (fst (orth psi)))).
Proof. exact tdvp1_exact_L1. Qed.
Print Assumptions C09_exact_L1.

(* L = 2, d arbitrary, bond dimensions 1, d, 1 (split site 1) *)
Theorem C09_exact_L2 : forall (R : cring) orth qr (kexp : kexp_t R) (kexp0 : kexp0_t R) (H : mpo R) psi dt hdt n d DW G A1 qD1 nrm tr,
  let Ds := fun j => if Nat.eqb j 1 then d else 1%nat in
  length (o_A H) = 2%nat ->
  tdvp_singlesite orth qr kexp kexp0 H psi dt hdt n = Some (A1, qD1, nrm, tr) ->
  (0 < d)%nat -> (forall j, (j < 2)%nat -> osite_ok d (DW j) (DW (S j)) (nth j (o_A H) [])) -> (forall j, (0 < DW j)%nat) ->
  DW 0%nat = 1%nat -> DW 2%nat = 1%nat -> kadd R hdt hdt = dt ->
  kexp_flowH (o_A H) d Ds DW kexp -> kexp0_shape (o_A H) Ds DW kexp0 ->
  intertwine_left (o_A H) d Ds DW kexp kexp0 -> intertwine_right (o_A H) d Ds DW kexp kexp0 ->
  kexp_global (o_A H) d Ds G 1 kexp -> G_flow (o_A H) d G ->
  wsite d 1 d (nth 0 (m_A (fst (orth psi))) []) -> wsite d d 1 (nth 1 (m_A (fst (orth psi))) []) ->
  ex_tr_ok qr (rev tr) ->
  nrm = snd (orth psi) /\ dense d 2 A1 = G (nmul n dt) (dense d 2 (m_A (fst (orth psi)))).
Proof. exact tdvp1_exact_L2. Qed.
Print Assumptions C09_exact_L2.

(* every L >= 1, every number of steps, every complete bond profile / split site m *)
Theorem C09_exact_complete : forall (R : cring) orth qr (kexp : kexp_t R) (kexp0 : kexp0_t R) (H : mpo R) psi dt hdt n d Ds DW m G A1 qD1 nrm tr,
  let L := length (o_A H) in
  tdvp_singlesite orth qr kexp kexp0 H psi dt hdt n = Some (A1, qD1, nrm, tr) ->
  (0 < d)%nat -> (forall j, (j < L)%nat -> osite_ok d (DW j) (DW (S j)) (nth j (o_A H) [])) -> (forall j, (0 < DW j)%nat) ->
  DW 0%nat = 1%nat -> DW L = 1%nat -> complete_profile (o_A H) d Ds m -> kadd R hdt hdt = dt ->
  kexp_flowH (o_A H) d Ds DW kexp -> kexp0_shape (o_A H) Ds DW kexp0 ->
  intertwine_left (o_A H) d Ds DW kexp kexp0 -> intertwine_right (o_A H) d Ds DW kexp kexp0 ->
  kexp_global (o_A H) d Ds G m kexp -> G_flow (o_A H) d G ->
  (forall j, (j < L)%nat -> wsite d (Ds j) (Ds (S j)) (nth j (m_A (fst (orth psi))) [])) ->
  (forall j, (m < j < L)%nat -> runitary (nth j (m_A (fst (orth psi))) [])) ->
  ex_tr_ok qr (rev tr) ->
  nrm = snd (orth psi) /\ dense d L A1 = G (nmul n dt) (dense d L (m_A (fst (orth psi)))).
Proof. exact tdvp1_exact. Qed.
Print Assumptions C09_exact_complete.

(* ---------------- non-vacuity of C09_exact_complete ----------------
   Proofs/ExactExample.v: L = 2, d = 2, bond dimensions 1, 2, 1, rational entries, 2 steps with dt = 1/3;
   H = sigma^+ (x) sigma^+ as an MPO (H^2 = 0, exp(tH) = 1 + tH);  site solver A -> (A[0] + t BL[0]^T A[1] BR[0], A[1]) and bond
   solver C -> C + t BL[0]^T C BR[0] -- the (nilpotent, hence exact) first-order exponentials of the model's
   apply_local_hamiltonian / apply_local_bond_contraction (alh_x, albc_x), depending on the environment blocks;
   G t (v00, v01, v10, v11) = (v00 + t v11, v01, v10, v11);  the contracts (F), (S0), (IL), (IR), (A) with m = 1, (G) are proved
   for ALL arguments over any cring;  QR oracle = a fixed rational rotation Q, R = Q^H M (per-call contracts evaluated by the
   kernel on the recorded trace);  orth oracle = division of the first tensor by 2, reported norm 2. *)
Example C09_exact_nonvacuous :
  rn e_run = snd (x_orth e_Psi) /\
  dense 2 2 (rA e_run) = Gx Qcring (nmul e_steps e_dt) (dense 2 2 (m_A (fst (x_orth e_Psi)))).
Proof. exact e_exact. Qed.
(* ... the dense state after the run differs from the start, the kernel computes the same conclusion, the reported norm is 2,
   and 18 calls were traced *)
Example C09_exact_nontrivial :
  negb (list_eqb (keqb Qcring) (dense 2 2 (rA e_run)) (dense 2 2 (m_A (fst (x_orth e_Psi))))) &&
  list_eqb (keqb Qcring) (dense 2 2 (rA e_run)) (Gx Qcring (nmul e_steps e_dt) (dense 2 2 (m_A (fst (x_orth e_Psi))))) &&
  keqb Qcring (rn e_run) (xq 2 1) && Nat.eqb (length (rt e_run)) 18 = true.
Proof. exact e_nontrivial. Qed.

(* =====================================================================================================================
   CONTRACT (A) REDUCED TO A FACT ABOUT THE MATRIX EXPONENTIAL.
   Contract (A) [kexp_global] of C09_exact_complete mixes tensor-network algebra (frames, environment blocks) with analysis.
   The algebra is now PROVED for the model's own functions, over any cring and for every L >= 1 (Proofs/ExactGlobalFrames.v,
   ExactGlobalEmbed.v, ExactGlobalTop.v), and (A) is DERIVED from the contract
     solver_natural G m kexp   (Proofs/ExactGlobalDefs.v):  for all well-shaped environment blocks BL, BR and every UNITARY map E
        (linear, inner-product preserving, with a two-sided inverse E') from the site tensors of shape d x Ds m x Ds (m+1) onto the
        vectors of length d^L:  if  E (apply_local_hamiltonian BL BR W_m X) = Hdense * (E X)  for all X  (Hdense = the model's
        MPO.as_matrix, [Hvec]), then  E (kexp p BL BR W_m X t) = G t (E X)  for all X, t.
   Mathematical content: with kexp(t) = exp(c t H_loc) and G t = exp(c t Hdense) this is exactly the SIMILARITY INVARIANCE of the
   matrix exponential under unitaries,   exp(t U^-1 H U) = U^-1 exp(t H) U   (the hypothesis says H_loc = U^-1 Hdense U; equivalently
   "A U = U B  =>  exp(tA) U = U exp(tB)").  No frame, environment block or MPS occurs in it.  It also holds for a Krylov/Lanczos
   solver with G t = the same iteration run on Hdense (Lanczos uses only the operator, linear combinations and inner products) and
   for every polynomial in the operator (C09_nilpotent_solver_natural below).
   Hdense: [Hvec d Hs v] = matvec (opamp_table d Hs) v, and opamp_table d Hs IS what the model's MPO.as_matrix returns
   (C09_dense_operator_is_as_matrix; Proofs/MPSOpsDense.v, as_matrix_opamp -- property C03). *)

(* (1) the algebraic identity behind (A): at the split site m, between frames A_0..A_{m-1} left-unitary and A_{m+1}.. right-unitary,
   with EL / ER built by the model's contraction_operator_step_left / _right from [[[1]]], the embedding
   E Z = dense vector of (A_0, .., A_{m-1}, Z, A_{m+1}, ..) is a unitary map (exists E' with: lengths, additivity, homogeneity,
   <X|Y> = <E X|E Y>, E o E' = id on vectors of length d^L, E' o E = id on site tensors) and
   E (apply_local_hamiltonian (EL m) (ER m) W_m X) = Hdense * (E X):  "H_eff = V^H H V with V unitary".
   Uses C04's projection theorem (Proofs/OperationLocal.v, local_hamiltonian_projection) and E E^H = 1. *)
Theorem C09_complete_frames_unitary_embedding : forall (R : cring) (Hs : list (osite R)) d Ds DW m,
  let L := length Hs in
  (0 < d)%nat -> (forall j, (j < L)%nat -> osite_ok d (DW j) (DW (S j)) (nth j Hs [])) -> (forall j, (0 < DW j)%nat) ->
  DW 0%nat = 1%nat -> DW L = 1%nat -> Ds 0%nat = 1%nat -> Ds L = 1%nat -> (m < L)%nat ->
  forall (As : list (site R)) (EL ER : nat -> env R),
  length As = L -> (forall j, (j < L)%nat -> wsite d (Ds j) (Ds (S j)) (nth j As [])) ->
  (forall j, (j < m)%nat -> lunitary (nth j As [])) -> (forall j, (m < j < L)%nat -> runitary (nth j As [])) ->
  EL 0%nat = env_one -> (forall j, (j < m)%nat -> EL (S j) = contraction_operator_step_left (nth j As []) (nth j As []) (nth j Hs []) (EL j)) ->
  ER (L - 1)%nat = env_one -> (forall j, (m < j < L)%nat -> ER (j - 1)%nat = contraction_operator_step_right (nth j As []) (nth j As []) (nth j Hs []) (ER j)) ->
  let E := fun Z => dense d L (lset As m Z) in
  wenv (DW m) (Ds m) (Ds m) (EL m) /\ wenv (DW (S m)) (Ds (S m)) (Ds (S m)) (ER m) /\
  (exists Einv, unitary_emb Hs d Ds m E Einv) /\
  (forall X, wsite d (Ds m) (Ds (S m)) X ->
     E (apply_local_hamiltonian (EL m) (ER m) (nth m Hs []) X) = Hvec d Hs (E X)).
Proof. exact complete_frames_embedding. Qed.
Print Assumptions C09_complete_frames_unitary_embedding.

(* Hvec is the product with the matrix returned by the model's MPO.as_matrix *)
Theorem C09_dense_operator_is_as_matrix : forall (R : cring) d DsW (Hs : list (osite R)) M,
  ochain_shape d DsW Hs = true -> bdim1 DsW = true -> Hs <> [] -> MPSOps.as_matrix Hs = Some M ->
  forall v, Hvec d Hs v = matvec M v.
Proof. exact Hvec_as_matrix. Qed.
Print Assumptions C09_dense_operator_is_as_matrix.

(* (2) contract (A) follows from the naturality contract *)
Theorem C09_natural_implies_global : forall (R : cring) (Hs : list (osite R)) d Ds DW m,
  (0 < d)%nat -> (forall j, (j < length Hs)%nat -> osite_ok d (DW j) (DW (S j)) (nth j Hs [])) -> (forall j, (0 < DW j)%nat) ->
  DW 0%nat = 1%nat -> DW (length Hs) = 1%nat -> Ds 0%nat = 1%nat -> Ds (length Hs) = 1%nat -> (m < length Hs)%nat ->
  forall G (kexp : kexp_t R), solver_natural Hs d Ds DW G m kexp -> kexp_global Hs d Ds G m kexp.
Proof. exact natural_global. Qed.
Print Assumptions C09_natural_implies_global.

(* the main theorem with (A) replaced by the naturality contract; all other hypotheses as in C09_exact_complete *)
Theorem C09_exact_complete_natural : forall (R : cring) orth qr (kexp : kexp_t R) (kexp0 : kexp0_t R) (H : mpo R) psi dt hdt n d Ds DW m G A1 qD1 nrm tr,
  let L := length (o_A H) in
  tdvp_singlesite orth qr kexp kexp0 H psi dt hdt n = Some (A1, qD1, nrm, tr) ->
  (0 < d)%nat -> (forall j, (j < L)%nat -> osite_ok d (DW j) (DW (S j)) (nth j (o_A H) [])) -> (forall j, (0 < DW j)%nat) ->
  DW 0%nat = 1%nat -> DW L = 1%nat -> complete_profile (o_A H) d Ds m -> kadd R hdt hdt = dt ->
  kexp_flowH (o_A H) d Ds DW kexp -> kexp0_shape (o_A H) Ds DW kexp0 ->
  intertwine_left (o_A H) d Ds DW kexp kexp0 -> intertwine_right (o_A H) d Ds DW kexp kexp0 ->
  solver_natural (o_A H) d Ds DW G m kexp -> G_flow (o_A H) d G ->
  (forall j, (j < L)%nat -> wsite d (Ds j) (Ds (S j)) (nth j (m_A (fst (orth psi))) [])) ->
  (forall j, (m < j < L)%nat -> runitary (nth j (m_A (fst (orth psi))) [])) ->
  ex_tr_ok qr (rev tr) ->
  nrm = snd (orth psi) /\ dense d L A1 = G (nmul n dt) (dense d L (m_A (fst (orth psi)))).
Proof. exact tdvp1_exact_natural. Qed.
Print Assumptions C09_exact_complete_natural.

(* L = 1: contracts (F), naturality, (G) only;  L = 2 with bond dimensions 1, d, 1 *)
Theorem C09_exact_L1_natural : forall (R : cring) orth qr (kexp : kexp_t R) (kexp0 : kexp0_t R) (H : mpo R) psi dt hdt n d Ds DW G A1 qD1 nrm tr,
  length (o_A H) = 1%nat ->
  tdvp_singlesite orth qr kexp kexp0 H psi dt hdt n = Some (A1, qD1, nrm, tr) ->
  (0 < d)%nat -> osite_ok d (DW 0%nat) (DW 1%nat) (nth 0 (o_A H) []) -> (forall j, (0 < DW j)%nat) ->
  DW 0%nat = 1%nat -> DW 1%nat = 1%nat -> Ds 0%nat = 1%nat -> Ds 1%nat = 1%nat ->
  kexp_flowH (o_A H) d Ds DW kexp -> solver_natural (o_A H) d Ds DW G 0 kexp -> G_flow (o_A H) d G ->
  wsite d 1 1 (nth 0 (m_A (fst (orth psi))) []) ->
  nrm = snd (orth psi) /\ dense d 1 A1 = G (nmul n dt) (dense d 1 (m_A (fst (orth psi)))).
Proof. exact tdvp1_exact_L1_natural. Qed.
Print Assumptions C09_exact_L1_natural.

Theorem C09_exact_L2_natural : forall (R : cring) orth qr (kexp : kexp_t R) (kexp0 : kexp0_t R) (H : mpo R) psi dt hdt n d DW G A1 qD1 nrm tr,
  let Ds := fun j => if Nat.eqb j 1 then d else 1%nat in
  length (o_A H) = 2%nat ->
  tdvp_singlesite orth qr kexp kexp0 H psi dt hdt n = Some (A1, qD1, nrm, tr) ->
  (0 < d)%nat -> (forall j, (j < 2)%nat -> osite_ok d (DW j) (DW (S j)) (nth j (o_A H) [])) -> (forall j, (0 < DW j)%nat) ->
  DW 0%nat = 1%nat -> DW 2%nat = 1%nat -> kadd R hdt hdt = dt ->
  kexp_flowH (o_A H) d Ds DW kexp -> kexp0_shape (o_A H) Ds DW kexp0 ->
  intertwine_left (o_A H) d Ds DW kexp kexp0 -> intertwine_right (o_A H) d Ds DW kexp kexp0 ->
  solver_natural (o_A H) d Ds DW G 1 kexp -> G_flow (o_A H) d G ->
  wsite d 1 d (nth 0 (m_A (fst (orth psi))) []) -> wsite d d 1 (nth 1 (m_A (fst (orth psi))) []) ->
  ex_tr_ok qr (rev tr) ->
  nrm = snd (orth psi) /\ dense d 2 A1 = G (nmul n dt) (dense d 2 (m_A (fst (orth psi)))).
Proof. exact tdvp1_exact_L2_natural. Qed.
Print Assumptions C09_exact_L2_natural.

(* the contract holds for the exact polynomial exponential of the nilpotent example (H = sigma+ x sigma+, Proofs/ExactExample.v):
   kexp_x(t) X = X + t * apply_local_hamiltonian BL BR W X,  Gx t v = v + t * Hdense v;  for all arguments, over any cring, at both
   sites (only linearity of E and the length of E X are used -- polynomials are natural w.r.t. every linear intertwiner) *)
Theorem C09_nilpotent_solver_natural : forall (R : cring) Ds m, (m < 2)%nat ->
  solver_natural (Hsx R) 2 Ds DWx (Gx R) m (kexp_x R).
Proof. exact kexp_x_natural. Qed.
Print Assumptions C09_nilpotent_solver_natural.

(* non-vacuity of C09_exact_complete_natural: the rational run of C09_exact_nonvacuous, now through the naturality contract;
   the model's as_matrix of its operator succeeds and Hvec is the product with it *)
Example C09_exact_natural_nonvacuous :
  rn e_run = snd (x_orth e_Psi) /\
  dense 2 2 (rA e_run) = Gx Qcring (nmul e_steps e_dt) (dense 2 2 (m_A (fst (x_orth e_Psi)))).
Proof. exact e_exact_natural. Qed.
Example C09_exact_natural_as_matrix :
  exists M, MPSOps.as_matrix (o_A e_H) = Some M /\ forall v, Hvec 2 (o_A e_H) v = matvec M v.
Proof. exact e_as_matrix. Qed.

(* =====================================================================================================================
   EXACTNESS ON A COMPLETE MANIFOLD, TWO-SITE INTEGRATOR (integrate_local_twosite with tol_split = 0, no quantum numbers; the model is
   tdvp_twosite of Model/Sweeps.v: merge, forward two-site step, split, block update, backward one-site step), relative to the abstract
   exact global flow G.  The code uses ONE local solver (_local_hamiltonian_step) for the merged two-site problem (merged MPO tensor
   merge_mpo_tensor_pair, merged MPS tensor of shape d^2 x Ds i x Ds (i+2)) and for the one-site problem; so does the model (oracle kexp).
   Contracts (Proofs/ExactDefs.v, Proofs/Exact2Defs.v; restricted to the tensors of the given operator and the bond profile Ds):
     (F)   kexp_flowH        one-site problems: the solver keeps shapes, solver(0) = id, solver(t) o solver(s) = solver(s + t);
     (F2)  kexp2_flowH       the same for the merged two-site problems;
     (IL2) intertwine2_left  two-site solver on merge(Q, C) = merge(Q, one-site solver on C, left block updated by the model's
                             contraction_operator_step_left Q Q W_i BL) for left-UNITARY Q;
     (IR2) intertwine2_right two-site solver on merge(C, B) = merge(one-site solver on C with the right block updated by
                             contraction_operator_step_right B B W_{i+1} BR, B) for right-unitary B;
           -- these encode  H_pair (Q (x) 1) = (Q (x) 1) H_site  (PROVED for the model's local operators and merge functions:
              C09_pair_operators_intertwine_left / _right below) plus "H1 V = V H2  =>  exp(t H1) V = V exp(t H2)";
     (A2)  kexp2_global G i  if every tensor left of the pair (i, i+1) is left-unitary, every tensor right of it right-unitary and the
                             environment blocks are the ones the model builds from them, then replacing the pair by ANY exact factorisation of
                             the evolved merged tensor changes the dense state by G t;  needed at ONE pair only: i = min(m, L-2);
     (G)   G_flow.
   Per recorded split_mps_tensor call at the pair (i, i+1) (ex2_tr_ok / split_full): the split is EXACT (merging the two answers gives back
   the tensor that was split: tol = 0), the kept bond has the dimension Ds (i+1) of the profile (for Ds j = min(d^j, d^(L-j)) this is
   min(d*Ds i, d*Ds (i+2)) = all singular values: C09_min_profile_complete), and WHEN the factor that did not receive the singular values
   is square it is unitary (isometric as the SVD guarantees, plus the other Gram matrix, a consequence over C).  Nothing is asked of a
   non-square factor: the contract is weaker than what split_mps_tensor delivers.  No uniqueness of the SVD is needed.
   Hypotheses on the run as for the single-site theorem: complete_profile with split site m, start tensors right of m right-unitary,
   hdt + hdt = dt.  Conclusion:  nrm = the number reported by orthonormalize,  dense(result) = G (n * dt) (dense(normalised start state)).
   Proof (Proofs/Exact2Phase.v): in the forward sweep the two-site step at (i, i+1) and the backward one-site step at i+1 cancel while
   i+1 <= m (the split-off left tensor is square, hence unitary); at the complete pair (m, m+1) the two-site step is G(dt/2); right of it
   the pending backward step at site i cancels against the next two-site step at (i, i+1) through the right-unitary tensor at i+1; the
   rightmost pair (time dt) is G(dt) if it is the complete pair, otherwise half of it cancels the pending step; symmetric backward. *)

(* the exact-split contract, spelled out *)
Theorem C09_exact2_split_contract : forall (R : cring) d Dl k Dr left (Am A0 A1 : site R) q,
  split_full d Dl k Dr left Am (A0, A1, q) <->
  (wsite (d * d) Dl Dr Am ->
   wsite d Dl k A0 /\ wsite d k Dr A1 /\ c04_merge_site A0 A1 = Am /\
   (if left then k = (d * Dr)%nat -> runitary A1 else (d * Dl)%nat = k -> lunitary A0)).
Proof. exact split_full_spec. Qed.
Print Assumptions C09_exact2_split_contract.

(* the model's local operators and merge functions intertwine: H_pair (Q (x) 1) = (Q (x) 1) H_site when Q Q^H = 1, and the mirror image *)
Theorem C09_pair_operators_intertwine_left : forall (R : cring) d Dl k Dr Dwl Dwm Dwr (BL BR : env R) (W0 W1 : osite R) (Q C : site R),
  (0 < d)%nat -> (0 < Dwl)%nat -> (0 < Dwm)%nat -> (0 < Dwr)%nat -> wsite d Dl k Q -> lcoiso Q -> wsite d k Dr C ->
  osite_struct d W0 -> osite_struct d W1 -> osite_ok d Dwl Dwm W0 -> osite_ok d Dwm Dwr W1 ->
  wenv Dwl Dl Dl BL -> wenv Dwr Dr Dr BR ->
  apply_local_hamiltonian BL BR (c04_merge_osite W0 W1) (c04_merge_site Q C) =
  c04_merge_site Q (apply_local_hamiltonian (contraction_operator_step_left Q Q W0 BL) BR W1 C).
Proof. exact alh2_intertwine_left. Qed.
Print Assumptions C09_pair_operators_intertwine_left.

Theorem C09_pair_operators_intertwine_right : forall (R : cring) d Dl k Dr Dwl Dwm Dwr (BL BR : env R) (W0 W1 : osite R) (C B : site R),
  (0 < d)%nat -> (0 < Dwl)%nat -> (0 < Dwm)%nat -> (0 < Dwr)%nat -> wsite d Dl k C -> wsite d k Dr B -> rcoiso B ->
  osite_struct d W0 -> osite_struct d W1 -> osite_ok d Dwl Dwm W0 -> osite_ok d Dwm Dwr W1 ->
  wenv Dwl Dl Dl BL -> wenv Dwr Dr Dr BR ->
  apply_local_hamiltonian BL BR (c04_merge_osite W0 W1) (c04_merge_site C B) =
  c04_merge_site (apply_local_hamiltonian BL (contraction_operator_step_right B B W1 BR) W0 C) B.
Proof. exact alh2_intertwine_right. Qed.
Print Assumptions C09_pair_operators_intertwine_right.

(* L = 2: a single pair, the schedule is the single call K2_0(dt): the two-site solver IS the global flow; contracts (F2), (A2), (G) and
   the exact-split contract only *)
Theorem C09_exact2_L2 : forall (R : cring) orth split (kexp : kexp_t R) (H : mpo R) psi dt hdt n d DW G A1 qD1 nrm tr,
  let Ds := fun j => if Nat.eqb j 1 then d else 1%nat in
  length (o_A H) = 2%nat ->
  tdvp_twosite orth split kexp H psi dt hdt n = Some (A1, qD1, nrm, tr) ->
  (0 < d)%nat -> (forall j, (j < 2)%nat -> osite_ok d (DW j) (DW (S j)) (nth j (o_A H) [])) -> DW 0%nat = 1%nat -> DW 2%nat = 1%nat ->
  kexp2_flowH (o_A H) d Ds DW kexp -> kexp2_global (o_A H) d Ds G 0 kexp -> G_flow (o_A H) d G ->
  wsite d 1 d (nth 0 (m_A (fst (orth psi))) []) -> wsite d d 1 (nth 1 (m_A (fst (orth psi))) []) ->
  ex2_tr_ok split d Ds (rev tr) ->
  nrm = snd (orth psi) /\ dense d 2 A1 = G (nmul n dt) (dense d 2 (m_A (fst (orth psi)))).
Proof. exact tdvp2_exact_L2. Qed.
Print Assumptions C09_exact2_L2.

(* L = 3, bond dimensions 1, d, d, 1 (split site 1, complete pair (1, 2)) *)
Theorem C09_exact2_L3 : forall (R : cring) orth split (kexp : kexp_t R) (H : mpo R) psi dt hdt n d DW G A1 qD1 nrm tr,
  let Ds := fun j => if Nat.eqb j 1 then d else if Nat.eqb j 2 then d else 1%nat in
  length (o_A H) = 3%nat ->
  tdvp_twosite orth split kexp H psi dt hdt n = Some (A1, qD1, nrm, tr) ->
  (0 < d)%nat -> (forall j, (j < 3)%nat -> osite_ok d (DW j) (DW (S j)) (nth j (o_A H) [])) -> DW 0%nat = 1%nat -> DW 3%nat = 1%nat ->
  kadd R hdt hdt = dt ->
  kexp_flowH (o_A H) d Ds DW kexp -> kexp2_flowH (o_A H) d Ds DW kexp ->
  intertwine2_left (o_A H) d Ds DW kexp -> intertwine2_right (o_A H) d Ds DW kexp ->
  kexp2_global (o_A H) d Ds G 1 kexp -> G_flow (o_A H) d G ->
  wsite d 1 d (nth 0 (m_A (fst (orth psi))) []) -> wsite d d d (nth 1 (m_A (fst (orth psi))) []) ->
  wsite d d 1 (nth 2 (m_A (fst (orth psi))) []) -> runitary (nth 2 (m_A (fst (orth psi))) []) ->
  ex2_tr_ok split d Ds (rev tr) ->
  nrm = snd (orth psi) /\ dense d 3 A1 = G (nmul n dt) (dense d 3 (m_A (fst (orth psi)))).
Proof. exact tdvp2_exact_L3. Qed.
Print Assumptions C09_exact2_L3.

(* every L >= 2, every number of steps, every complete bond profile / split site m *)
Theorem C09_exact2_complete : forall (R : cring) orth split (kexp : kexp_t R) (H : mpo R) psi dt hdt n d Ds DW m G A1 qD1 nrm tr,
  let L := length (o_A H) in
  tdvp_twosite orth split kexp H psi dt hdt n = Some (A1, qD1, nrm, tr) ->
  (0 < d)%nat -> (forall j, (j < L)%nat -> osite_ok d (DW j) (DW (S j)) (nth j (o_A H) [])) ->
  DW 0%nat = 1%nat -> DW L = 1%nat -> complete_profile (o_A H) d Ds m -> kadd R hdt hdt = dt ->
  kexp_flowH (o_A H) d Ds DW kexp -> kexp2_flowH (o_A H) d Ds DW kexp ->
  intertwine2_left (o_A H) d Ds DW kexp -> intertwine2_right (o_A H) d Ds DW kexp ->
  kexp2_global (o_A H) d Ds G (Nat.min m (L - 2)) kexp -> G_flow (o_A H) d G ->
  (forall j, (j < L)%nat -> wsite d (Ds j) (Ds (S j)) (nth j (m_A (fst (orth psi))) [])) ->
  (forall j, (m < j < L)%nat -> runitary (nth j (m_A (fst (orth psi))) [])) ->
  ex2_tr_ok split d Ds (rev tr) ->
  (2 <= L)%nat /\ nrm = snd (orth psi) /\ dense d L A1 = G (nmul n dt) (dense d L (m_A (fst (orth psi)))).
Proof. exact tdvp2_exact. Qed.
Print Assumptions C09_exact2_complete.

(* the natural complete profile Ds j = min(d^j, d^(L-j)) meets the hypotheses: it is a complete profile with split site (L-1)/2, the
   complete pair lies inside the chain, and the middle bond of every pair has the dimension min(d*Ds i, d*Ds (i+2)) = the number of
   singular values split_mps_tensor keeps at tol = 0 *)
Theorem C09_min_profile_complete : forall (R : cring) (Hs : list (osite R)) d, (0 < d)%nat -> (2 <= length Hs)%nat ->
  let L := length Hs in let m := ((L - 1) / 2)%nat in
  complete_profile Hs d (minDs d L) m /\ (S m < L)%nat /\
  forall i, (S i < L)%nat -> minDs d L (S i) = Nat.min (d * minDs d L i) (d * minDs d L (S (S i))).
Proof. exact min_profile_complete. Qed.
Print Assumptions C09_min_profile_complete.

(* ---------------- contract (A2) reduced to a fact about the matrix exponential ----------------
   solver2_natural G i kexp (Proofs/Exact2Global.v): for all well-shaped blocks BL, BR and every UNITARY map E (linear, inner-product preserving,
   two-sided inverse) from the merged pair tensors of shape d^2 x Ds i x Ds (i+2) onto the vectors of length d^L: if
   E (apply_local_hamiltonian BL BR (merge W_i W_{i+1}) X) = Hdense * (E X) for all X, then E (kexp p BL BR (merge W_i W_{i+1}) X t) = G t (E X)
   -- the similarity invariance of the matrix exponential under unitaries, as for the single-site integrator.  (A2) FOLLOWS when the bond inside
   the pair is complete from the right, Ds (m+1) = d * Ds (m+2) (true for the pair (m, m+1) of a complete profile with m+1 < L):  the
   tensor-network content is proved by reduction to C09_complete_frames_unitary_embedding -- every merged tensor is merge(unm M, I) with I the
   right-unitary identity tensor, M |-> unm M is unitary, and the two-site operator is merge(one-site operator, I) by
   C09_pair_operators_intertwine_right. *)
Theorem C09_natural2_implies_global : forall (R : cring) (Hs : list (osite R)) d Ds DW m,
  (0 < d)%nat -> (forall j, (j < length Hs)%nat -> osite_ok d (DW j) (DW (S j)) (nth j Hs [])) ->
  (forall j, (j < length Hs)%nat -> osite_struct d (nth j Hs [])) -> (forall j, (0 < DW j)%nat) ->
  DW 0%nat = 1%nat -> DW (length Hs) = 1%nat -> Ds 0%nat = 1%nat -> Ds (length Hs) = 1%nat -> (S m < length Hs)%nat ->
  Ds (S m) = (d * Ds (S (S m)))%nat ->
  forall G (kexp : kexp_t R), solver2_natural Hs d Ds DW G m kexp -> kexp2_global Hs d Ds G m kexp.
Proof. exact natural2_global. Qed.
Print Assumptions C09_natural2_implies_global.

(* the main theorem with (A2) replaced by the naturality contract (split site m with m+1 < L: no loss for Ds j = min(d^j, d^(L-j))) *)
Theorem C09_exact2_complete_natural : forall (R : cring) orth split (kexp : kexp_t R) (H : mpo R) psi dt hdt n d Ds DW m G A1 qD1 nrm tr,
  let L := length (o_A H) in
  tdvp_twosite orth split kexp H psi dt hdt n = Some (A1, qD1, nrm, tr) ->
  (0 < d)%nat -> (forall j, (j < L)%nat -> osite_ok d (DW j) (DW (S j)) (nth j (o_A H) [])) ->
  (forall j, (j < L)%nat -> osite_struct d (nth j (o_A H) [])) -> (forall j, (0 < DW j)%nat) ->
  DW 0%nat = 1%nat -> DW L = 1%nat -> complete_profile (o_A H) d Ds m -> (S m < L)%nat -> kadd R hdt hdt = dt ->
  kexp_flowH (o_A H) d Ds DW kexp -> kexp2_flowH (o_A H) d Ds DW kexp ->
  intertwine2_left (o_A H) d Ds DW kexp -> intertwine2_right (o_A H) d Ds DW kexp ->
  solver2_natural (o_A H) d Ds DW G m kexp -> G_flow (o_A H) d G ->
  (forall j, (j < L)%nat -> wsite d (Ds j) (Ds (S j)) (nth j (m_A (fst (orth psi))) [])) ->
  (forall j, (m < j < L)%nat -> runitary (nth j (m_A (fst (orth psi))) [])) ->
  ex2_tr_ok split d Ds (rev tr) ->
  (2 <= L)%nat /\ nrm = snd (orth psi) /\ dense d L A1 = G (nmul n dt) (dense d L (m_A (fst (orth psi)))).
Proof. exact tdvp2_exact_natural. Qed.
Print Assumptions C09_exact2_complete_natural.

Theorem C09_exact2_L2_natural : forall (R : cring) orth split (kexp : kexp_t R) (H : mpo R) psi dt hdt n d DW G A1 qD1 nrm tr,
  let Ds := fun j => if Nat.eqb j 1 then d else 1%nat in
  length (o_A H) = 2%nat ->
  tdvp_twosite orth split kexp H psi dt hdt n = Some (A1, qD1, nrm, tr) ->
  (0 < d)%nat -> (forall j, (j < 2)%nat -> osite_ok d (DW j) (DW (S j)) (nth j (o_A H) [])) ->
  (forall j, (j < 2)%nat -> osite_struct d (nth j (o_A H) [])) -> (forall j, (0 < DW j)%nat) -> DW 0%nat = 1%nat -> DW 2%nat = 1%nat ->
  kexp2_flowH (o_A H) d Ds DW kexp -> solver2_natural (o_A H) d Ds DW G 0 kexp -> G_flow (o_A H) d G ->
  wsite d 1 d (nth 0 (m_A (fst (orth psi))) []) -> wsite d d 1 (nth 1 (m_A (fst (orth psi))) []) ->
  ex2_tr_ok split d Ds (rev tr) ->
  nrm = snd (orth psi) /\ dense d 2 A1 = G (nmul n dt) (dense d 2 (m_A (fst (orth psi)))).
Proof. exact tdvp2_exact_L2_natural. Qed.
Print Assumptions C09_exact2_L2_natural.

Theorem C09_exact2_L3_natural : forall (R : cring) orth split (kexp : kexp_t R) (H : mpo R) psi dt hdt n d DW G A1 qD1 nrm tr,
  let Ds := fun j => if Nat.eqb j 1 then d else if Nat.eqb j 2 then d else 1%nat in
  length (o_A H) = 3%nat ->
  tdvp_twosite orth split kexp H psi dt hdt n = Some (A1, qD1, nrm, tr) ->
  (0 < d)%nat -> (forall j, (j < 3)%nat -> osite_ok d (DW j) (DW (S j)) (nth j (o_A H) [])) ->
  (forall j, (j < 3)%nat -> osite_struct d (nth j (o_A H) [])) -> (forall j, (0 < DW j)%nat) -> DW 0%nat = 1%nat -> DW 3%nat = 1%nat ->
  kadd R hdt hdt = dt ->
  kexp_flowH (o_A H) d Ds DW kexp -> kexp2_flowH (o_A H) d Ds DW kexp ->
  intertwine2_left (o_A H) d Ds DW kexp -> intertwine2_right (o_A H) d Ds DW kexp ->
  solver2_natural (o_A H) d Ds DW G 1 kexp -> G_flow (o_A H) d G ->
  wsite d 1 d (nth 0 (m_A (fst (orth psi))) []) -> wsite d d d (nth 1 (m_A (fst (orth psi))) []) ->
  wsite d d 1 (nth 2 (m_A (fst (orth psi))) []) -> runitary (nth 2 (m_A (fst (orth psi))) []) ->
  ex2_tr_ok split d Ds (rev tr) ->
  nrm = snd (orth psi) /\ dense d 3 A1 = G (nmul n dt) (dense d 3 (m_A (fst (orth psi)))).
Proof. exact tdvp2_exact_L3_natural. Qed.
Print Assumptions C09_exact2_L3_natural.

(* the first-order polynomial solver  kexp_p(t) X = X + t * apply_local_hamiltonian BL BR W X  (one function for both kinds of local problem)
   meets (IL2), (IR2) and the naturality contract for EVERY operator chain, over any cring; it meets (F), (F2) when the local operators are
   nilpotent of order 2 (Proofs/Exact2Poly.v) *)
Theorem C09_poly_solver_intertwines : forall (R : cring) (Hs : list (osite R)) d Ds DW,
  (0 < d)%nat -> (forall j, (j < length Hs)%nat -> osite_ok d (DW j) (DW (S j)) (nth j Hs [])) ->
  (forall j, (j < length Hs)%nat -> osite_struct d (nth j Hs [])) -> (forall j, (0 < DW j)%nat) ->
  intertwine2_left Hs d Ds DW (kexp_p R) /\ intertwine2_right Hs d Ds DW (kexp_p R).
Proof. exact poly_intertwines. Qed.
Print Assumptions C09_poly_solver_intertwines.

Theorem C09_poly_solver_natural2 : forall (R : cring) (Hs : list (osite R)) d Ds DW,
  (0 < d)%nat -> (forall j, (j < length Hs)%nat -> osite_ok d (DW j) (DW (S j)) (nth j Hs [])) ->
  (forall j, (j < length Hs)%nat -> osite_struct d (nth j Hs [])) -> (forall j, (0 < DW j)%nat) ->
  forall (G : R -> list R -> list R) i, (S i < length Hs)%nat ->
  (forall t v, length v = length (words d (length Hs)) -> G t v = vadd v (vscale t (Hvec d Hs v))) ->
  solver2_natural Hs d Ds DW G i (kexp_p R).
Proof. exact poly_natural2. Qed.
Print Assumptions C09_poly_solver_natural2.

(* ---------------- non-vacuity of C09_exact2_complete_natural ----------------
   Proofs/Exact2Example.v: L = 4, d = 2, bond dimensions 1, 2, 4, 2, 1 (split site m = 1, complete pair (1, 2)), rational entries, 2 steps with
   dt = 1/3;  H = sigma^+ (x) sigma^+ (x) sigma^+ (x) sigma^+ as an MPO (H^2 = 0);  solver = kexp_p (exact: the one-site and the merged two-site
   local operators are nilpotent for ALL environment blocks, over any cring);  Gx4 t v = v + t * Hdense v = (v_0 + t v_15, v_1, ..);  every
   contract (F), (F2), (IL2), (IR2), naturality at the pair 1, (G) is proved for ALL arguments over any cring;  split oracle = a rational exact
   split through fixed rational unitaries (per-call contracts evaluated by the kernel on the recorded trace: 38 calls, 10 splits);  orth
   oracle = division of the first tensor by 2, reported norm 2.  The run exercises phase 1, both passages of the complete pair, the pending
   backward step through the rightmost pair and phase 4. *)
Theorem C09_nilpotent_solver_contracts2 : forall (R : cring) Ds,
  kexp_flowH (Hsx4 R) 2 Ds DWx (kexp_p R) /\ kexp2_flowH (Hsx4 R) 2 Ds DWx (kexp_p R) /\
  (forall i, (S i < 4)%nat -> solver2_natural (Hsx4 R) 2 Ds DWx (Gx4 R) i (kexp_p R)) /\ G_flow (Hsx4 R) 2 (Gx4 R).
Proof. exact e4_contracts. Qed.
Print Assumptions C09_nilpotent_solver_contracts2.

Example C09_exact2_nonvacuous :
  (2 <= 4)%nat /\ rn e4_run = snd (x_orth e4_Psi) /\
  dense 2 4 (rA e4_run) = Gx4 Qcring (nmul e4_steps e4_dt) (dense 2 4 (m_A (fst (x_orth e4_Psi)))).
Proof. exact e4_exact. Qed.
(* ... the dense state after the run differs from the start, the kernel computes the same conclusion, the reported norm is 2, 38 calls were
   traced, 10 of them exact splits, and the solver calls are two copies of the two-site schedule *)
Example C09_exact2_nontrivial :
  negb (list_eqb (keqb Qcring) (dense 2 4 (rA e4_run)) (dense 2 4 (m_A (fst (x_orth e4_Psi))))) &&
  list_eqb (keqb Qcring) (dense 2 4 (rA e4_run)) (Gx4 Qcring (nmul e4_steps e4_dt) (dense 2 4 (m_A (fst (x_orth e4_Psi))))) &&
  keqb Qcring (rn e4_run) (xq 2 1) && Nat.eqb (length (rt e4_run)) 38 &&
  Nat.eqb (length (filter (fun t => match c_kind (t_call t) with SPLITL | SPLITR => true | _ => false end) (rt e4_run))) 10 &&
  list_eqb call_eqb (solver_calls (rt e4_run)) (ncat 2 (sched2 4)) = true.
Proof. exact e4_nontrivial. Qed.
