(* C13 — Compression and vector-to-MPS conversion obey their truncation error bounds.
   Only statements, closed by [exact]/[apply]; proofs live in Proofs/CompressPartial.v and Proofs/Orth*.v.
   Model: Model/Orthonormalize.v [mps_compress] (mirror of pytenet/mps.py MPS.compress, local_orthonormalize_left_svd /
   right_svd) on top of Model/BondOps.v [block_svd], [retained]; numpy.linalg.qr / svd, the unstable argsort and abs of a
   complex number are the oracle arguments [dqr], [dsvd], [pick], [cabs].

   FULL INTENDED STATEMENT (only the parts marked PROVED below are theorems; the rest is validated numerically on every
   generated input by harness/props/c13.py and the model is tied to the code by the replay of MPS.compress):
     for every ordered field F, L >= 1, d >= 1, bond profile, charges, non-zero well-formed block-sparse MPS psi,
     0 <= tol < 1, both modes, oracles meeting their contracts (dqr_ok + real diagonal, dsvd_ok, pick_ok, cabs z >= 0 with
     cabs z ^2 = |z|^2) on the issued calls:  mps_compress tol mode psi = Some (psi', nrm, scale)  with
       (a) nrm >= 0, nrm^2 = <psi|psi>                                                        PROVED  (C13_compress_nrm_partial)
       (b) scale^2 = prod_i (1 - eps_i), eps_i <= tol the discarded relative weight at bond i   NOT PROVED (C12_retained_spec gives
           eps_i <= tol per split; the centre-norm bookkeeping across sites is missing)
       (c) hence 1 - L*tol <= (1-tol)^L <= scale^2 <= 1                                         algebra PROVED (C13_scale_bounds_partial:
           0 <= eps_i <= tol <= 1  ==>  1 - L.tol <= prod (1 - eps_i) <= 1), conditional on (b)
       (d) psi' normalised and canonical in the sweep direction, bond dimensions do not grow    NOT PROVED
       (e) the first truncated bond keeps exactly the Schmidt values [retained] prescribes      NOT PROVED
       (f) tol = 0  ==>  nrm * scale * amp psi' w = amp psi w                                   NOT PROVED
       (g) || nrm*scale*psi' - psi ||^2 = nrm^2 (1 - scale^2)   (stretch)                        NOT PROVED
       (h) MPS.from_vector(tol): relative error <= sqrt(L*tol)  (stretch; from_vector is not modelled)   NOT PROVED *)
From Coq Require Import ZArith QArith Qcanon List Bool Lia.
From PT Require Import Base.Scalar Base.Field Base.BigSum Base.Mx Model.Tensor Model.BondOps Model.Orthonormalize.
From PT Require Import Proofs.BondOpsSpec Proofs.OrthDefs Proofs.OrthSweep Proofs.OrthTop Proofs.OrthBool Proofs.CompressPartial.
Import ListNotations.
Open Scope nat_scope.

(* (a): whenever the model of MPS.compress returns (psi', nrm, scale) on a well-formed block-sparse MPS (first/last bond
   dimension 1, all bonds >= 1) and the QR oracle met LAPACK's contract on the calls of the preceding orthonormalisation
   (opposite mode), the returned norm is non-negative and its square is <psi|psi> = sum_w |amp psi w|^2. *)
Theorem C13_compress_nrm_partial : forall (F : ofield) dqr dsvd pick cabs (tol : F) (left : bool) (p p' : mps (Cx F)) (d : nat) nrm sc,
  1 <= d -> length (m_qd p) = d -> m_A p <> [] -> mps_ok p = true ->
  length (hd [] (m_qD p)) = 1 -> length (last (m_qD p) []) = 1 ->
  Forall (fun q => 1 <= length q) (m_qD p) ->
  Forall (qr_call_ok F dqr) (mps_orth_calls dqr (negb left) p) ->
  mps_compress dqr dsvd pick cabs tol left p = Some (p', nrm, sc) ->
  fle F (f0 F) nrm /\ norm2 d (m_A p) = cof (fmul F nrm nrm).
Proof. intros F dqr dsvd pick cabs tol left p p' d nrm sc. exact (compress_nrm_spec F dqr dsvd pick cabs tol left p p' d nrm sc). Qed.
Print Assumptions C13_compress_nrm_partial.

(* (c): Bernoulli over an ordered field.  nsmul L tol = tol + ... + tol (L times). *)
Theorem C13_scale_bounds_partial : forall (F : ofield) (eps : list F) (tol : F),
  (forall e, In e eps -> fle F (f0 F) e /\ fle F e tol) -> fle F tol (f1 F) ->
  fle F (fsub F (f1 F) (nsmul (length eps) tol)) (fprod (map (fun e => fsub F (f1 F) e) eps)) /\
  fle F (fprod (map (fun e => fsub F (f1 F) e) eps)) (f1 F) /\
  fle F (f0 F) (fprod (map (fun e => fsub F (f1 F) e) eps)).
Proof. intros F eps tol. exact (scale_bounds F eps tol). Qed.
Print Assumptions C13_scale_bounds_partial.

(* Non-vacuity: product state L = 2, d = 2, tensors (3,4) (x) (3,4), mode = 'left', tol = 1/10; the QR table (two calls of the
   right orthonormalisation), the SVD table (column (3/5,4/5) = (3/5,4/5)^T . 1 . [[1]]), argsort answer [0] and abs = real part
   (the final T is 1) meet the contracts; the model returns nrm = 25 and scale = 1. *)
Definition qq (n : Z) (d : positive) : Qc := Q2Qc (Qmake n d).
Definition cq (n : Z) (d : positive) : Cx QcF := (qq n d, qq 0 1).
Definition mc := @mkmx (Cx QcF).
Definition ex_p : mps (Cx QcF) :=
  mkmps [0; 0]%Z [[0]; [0]; [0]]%Z
    [ [mc 1 1 [[cq 3 1]]; mc 1 1 [[cq 4 1]]]; [mc 1 1 [[cq 3 1]]; mc 1 1 [[cq 4 1]]] ].
Definition ex_qtbl : list (mx (Cx QcF) * (mx (Cx QcF) * mx (Cx QcF))) :=
  [ (mc 2 1 [[cq 3 1]; [cq 4 1]], (mc 2 1 [[cq 3 5]; [cq 4 5]], mc 1 1 [[cq 5 1]]));
    (mc 2 1 [[cq 15 1]; [cq 20 1]], (mc 2 1 [[cq 3 5]; [cq 4 5]], mc 1 1 [[cq 25 1]])) ].
Definition ex_stbl : list (mx (Cx QcF) * (mx (Cx QcF) * list QcF * mx (Cx QcF))) :=
  [ (mc 2 1 [[cq 3 5]; [cq 4 5]], (mc 2 1 [[cq 3 5]; [cq 4 5]], [qq 1 1], mc 1 1 [[cq 1 1]])) ].
Definition ex_pick : list QcF -> list nat := fun _ => [0].
Definition ex_abs : Cx QcF -> QcF := fun z => fst z.
Example C13_nonvacuous :
  mps_ok ex_p = true /\
  Forall (qr_call_ok QcF (qr_oracle ex_qtbl)) (mps_orth_calls (qr_oracle ex_qtbl) false ex_p) /\
  match mps_compress (qr_oracle ex_qtbl) (svd_oracle ex_stbl) ex_pick ex_abs (qq 1 10) true ex_p with
  | Some (p', nrm, sc) => feqb QcF nrm (qq 25 1) && feqb QcF sc (qq 1 1) && mps_ok p' | None => false end = true.
Proof.
  split; [vm_compute; reflexivity|]. split; [apply qr_call_okb_sound; vm_compute; reflexivity|]. vm_compute; reflexivity.
Qed.
