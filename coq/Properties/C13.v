(* C13 — Compression and vector-to-MPS conversion obey their truncation error bounds.
   Only statements, closed by [exact]/[apply]; proofs live in Proofs/Compress{Partial,SVD,Local,Sweep,Top,Error,Bool,Right,Schmidt,SchmidtRight,SchmidtBool}.v and
   Proofs/Orth*.v.
   Model: Model/Orthonormalize.v [mps_compress] (mirror of pytenet/mps.py MPS.compress, local_orthonormalize_left_svd /
   right_svd) on top of Model/BondOps.v [block_svd], [retained]; numpy.linalg.qr / svd, the unstable argsort and abs of a
   complex number are the oracle arguments [dqr], [dsvd], [pick], [cabs].

   Vocabulary (Proofs/CompressTop.v, CompressLocal.v, CompressError.v):
     compress_args tol left p1   the arguments (tensor, charges behind, charges ahead) of the local truncation steps the sweep
                                 actually performs on the orthonormalised state p1, in order (depends on the oracle answers)
     step_mx left qd a           the matrix and charge vectors handed to split_matrix_svd by the step a
     svd_call_ok / compress_ok   LAPACK's contract [dsvd_ok] (C12) on the block SVD calls of every step and [pick_ok] (C12) on its argsort call
     svd_eps / compress_eps      eps_i = discarded relative weight [disc_weight S (retained pick S tol)] of step i (S its block spectrum)
     abs_ok cabs t               cabs t >= 0 and (cabs t)^2 = |t|^2, required only for the value T the sweep ends with ([compress_T])
     dist2 d al Bs As            sum over all words w of | al * amp Bs w - amp As w |^2

   FULL INTENDED STATEMENT and what is proved:
     for every ordered field F, L >= 1, d >= 1, bond profile (first/last bond 1, all bonds >= 1), charges, well-formed block-sparse
     MPS psi (also the zero state: the preliminary orthonormalisation always returns a normalised state), 0 <= tol < 1,
     oracles meeting their contracts on the issued calls:  mps_compress tol mode psi = Some (psi', nrm, scale)  with
       (a) nrm >= 0, nrm^2 = <psi|psi>                                                       PROVED both modes (C13_compress_nrm_partial),
       (b) scale >= 0, scale^2 = prod_i (1 - eps_i), L factors, 0 <= eps_i <= tol           PROVED both modes (C13_compress_left_spec / _right_spec)
       (c) 1 - L*tol <= scale^2 <= 1                                                         PROVED both modes (C13_compress_left_error / _right_error)
       (d) psi' well formed, block sparse, every site a left isometry, <psi'|psi'> = 1,
           new bond dimensions <= those after the preliminary orthonormalisation <= original  PROVED both modes (isometry = left for 'left', right for 'right')
       (e) the first truncated bond keeps exactly the Schmidt values [retained] prescribes   PROVED both modes
           (C13_first_bond_schmidt_left / _right at the end of this file, Proofs/CompressSchmidt*.v: the first call of the
            sweep is block_svd on the matrix M of the first (last) site of the canonical normalised state psi1; its block
            singular values S satisfy rho = Uf diag(S^2) Uf^H, rho Uf = Uf diag(S^2), Uf^H Uf = I, sum S^2 = tr rho = 1 for
            the reduced density matrix rho of that site - the Schmidt values across the cut, stated as an eigen-decomposition
            with explicit eigenvectors instead of through a spectral theorem; the kept values are S[retained pick S tol],
            the new bond dimension is the number of kept values, with the properties of C12_retained_spec.
            Earlier status, kept for the record: NOT PROVED as a theorem about mps_compress - C12_block_svd_spec gives
            s = S[retained pick S tol] for each local split; that the first call's S are the Schmidt values of the cut
            follows from the right-canonical form; the connecting lemma was not written.)
       (f) tol = 0  ==>  scale = 1 and nrm * scale * amp psi' w = amp psi w for every word w   PROVED both modes
       (g) <psi'|psi> = nrm*scale and || nrm*scale*psi' - psi ||^2 = nrm^2 (1 - scale^2) <= nrm^2 * L * tol
                                                                                             PROVED both modes (C13_compress_*_spec / _error)
       mode 'right' is obtained from the same orientation-free sweep induction: the right SVD step seen on the mirrored chain
           (sites reversed, matrices transposed, charges negated) meets [local_spec] (Proofs/CompressRight.v), sweeps of mirrored
           steps are mirror images, amplitudes / isometries / sparsity transfer as in Proofs/OrthRight.v.
       (h) MPS.from_vector(d, n, v, tol) (Model/FromVector.v): || as_vector(result) - v ||^2 <= n * tol * ||v||^2   PROVED (C13_from_vector_bound)
           for oracles meeting dsvd_ok / pick_ok on the calls the loop issues (tol = 0: exact, C03_from_vector_exact).
     Square roots are avoided: all bounds are stated for scale^2 and the squared distance. *)
From Coq Require Import ZArith QArith Qcanon List Bool Lia.
From PT Require Import Base.Scalar Base.Field Base.BigSum Base.Mx Model.Tensor Model.BondOps Model.Orthonormalize Model.FromVector.
From PT Require Import Proofs.BondOpsSpec Proofs.BondOpsRetained Proofs.BondOpsSVD Proofs.OrthDefs Proofs.OrthSweep Proofs.OrthTop Proofs.OrthBool Proofs.CompressPartial.
From PT Require Import Proofs.CompressLocal Proofs.CompressSweep Proofs.CompressTop Proofs.CompressError Proofs.CompressBool Proofs.CompressRight Proofs.FromVectorBound.
From PT Require Import Proofs.CompressSchmidt Proofs.CompressSchmidtRight Proofs.CompressSchmidtBool.
Import ListNotations.
Open Scope nat_scope.

(* (a): whenever the model of MPS.compress returns (psi', nrm, scale) on a well-formed block-sparse MPS (first/last bond
   dimension 1, all bonds >= 1) and the QR oracle met LAPACK's contract on the calls of the preceding orthonormalisation
   (opposite mode), the returned norm is non-negative and its square is <psi|psi> = sum_w |amp psi w|^2. *)
Theorem C13_compress_nrm_partial : forall (F : ofield) dqr dsvd pick cabs (tol : F) (left : bool) (p p' : mps (Cx F)) (d : nat) nrm sc,
  1 <= d -> length (m_qd p) = d -> m_A p <> [] -> mps_ok p = true ->
  length (hd [] (m_qD p)) = 1 -> length (last (m_qD p) []) = 1 ->
  Forall (fun q => 1 <= length q) (m_qD p) ->
  Forall (qr_call_ok F dqr) (mps_orth_calls dqr (negb left) p) ->
  mps_compress dqr dsvd pick cabs tol left p = Some (p', nrm, sc) ->
  fle F (f0 F) nrm /\ norm2 d (m_A p) = cof (fmul F nrm nrm).
Proof. intros F dqr dsvd pick cabs tol left p p' d nrm sc. exact (compress_nrm_spec F dqr dsvd pick cabs tol left p p' d nrm sc). Qed.
Print Assumptions C13_compress_nrm_partial.

(* (c): Bernoulli over an ordered field.  nsmul L tol = tol + ... + tol (L times). *)
Theorem C13_scale_bounds_partial : forall (F : ofield) (eps : list F) (tol : F),
  (forall e, In e eps -> fle F (f0 F) e /\ fle F e tol) -> fle F tol (f1 F) ->
  fle F (fsub F (f1 F) (nsmul (length eps) tol)) (fprod (map (fun e => fsub F (f1 F) e) eps)) /\
  fle F (fprod (map (fun e => fsub F (f1 F) e) eps)) (f1 F) /\
  fle F (f0 F) (fprod (map (fun e => fsub F (f1 F) e) eps)).
Proof. intros F eps tol. exact (scale_bounds F eps tol). Qed.
Print Assumptions C13_scale_bounds_partial.

(* (b),(d),(f),(g) for mode = 'left'.  For every well-formed block-sparse MPS with boundary bonds 1 and all bonds >= 1, every
   0 <= tol < 1, QR oracle meeting [qr_call_ok] on the calls of the preliminary right-orthonormalisation, SVD / argsort oracles
   meeting [compress_ok] on the steps of the truncation sweep and abs meeting [abs_ok] on the final value T:
   the model returns (psi', nrm, scale); psi' has the same qd and length, is well formed and block sparse under its new bond
   charges, boundary bonds 1, all bonds >= 1, D'_{i+1} <= min(d D'_i, D1_{i+1}) with D1 the dimensions after the preliminary
   orthonormalisation, D'_i <= D_i (original), every site a left isometry, <psi'|psi'> = 1; nrm >= 0, nrm^2 = <psi|psi>;
   scale >= 0 and scale^2 = prod over the L local truncations of (1 - eps_i) with 0 <= eps_i <= tol;
   tol = 0 gives scale = 1 and amp psi w = nrm * scale * amp psi' w; and <psi'|psi> = nrm * scale. *)
Theorem C13_compress_left_spec : forall (F : ofield) dqr dsvd pick cabs (p : mps (Cx F)) (d : nat) (tol : F),
  1 <= d -> length (m_qd p) = d -> m_A p <> [] -> mps_ok p = true ->
  length (hd [] (m_qD p)) = 1 -> length (last (m_qD p) []) = 1 ->
  Forall (fun q => 1 <= length q) (m_qD p) ->
  fle F (f0 F) tol -> flt F tol (f1 F) ->
  Forall (qr_call_ok F dqr) (mps_orth_calls dqr false p) ->
  (forall p1 n1, mps_orthonormalize dqr false p = Some (p1, n1) -> compress_ok dsvd pick tol true p1) ->
  (forall t, compress_T dqr dsvd pick tol true p = Some t -> abs_ok cabs t) ->
  exists p1 p' nrm sc,
    mps_orthonormalize dqr false p = Some (p1, nrm) /\
    mps_compress dqr dsvd pick cabs tol true p = Some (p', nrm, sc) /\
    m_qd p' = m_qd p /\ length (m_A p') = length (m_A p) /\ mps_ok p' = true /\
    length (hd [] (m_qD p')) = 1 /\ length (last (m_qD p') []) = 1 /\
    Forall (fun q => 1 <= length q) (m_qD p') /\
    bond_bound d (lens (m_qD p')) (lens (m_qD p1)) /\
    Forall2 le (lens (m_qD p')) (lens (m_qD p)) /\
    chain_liso (lens (m_qD p')) (m_A p') /\
    norm2 d (m_A p') = k1 (Cx F) /\
    fle F (f0 F) nrm /\ norm2 d (m_A p) = cof (fmul F nrm nrm) /\
    fle F (f0 F) sc /\
    length (compress_eps dsvd pick tol true p1) = length (m_A p) /\
    (forall e, In e (compress_eps dsvd pick tol true p1) -> fle F (f0 F) e /\ fle F e tol) /\
    fmul F sc sc = fprod (map (fun e => fsub F (f1 F) e) (compress_eps dsvd pick tol true p1)) /\
    (tol = f0 F -> sc = f1 F /\ forall w, length w = length (m_A p) -> letters d w ->
       amp (m_A p) w = kmul (Cx F) (kmul (Cx F) (cof nrm) (cof sc)) (amp (m_A p') w)) /\
    suml (words d (length (m_A p))) (fun w => kmul (Cx F) (kconj (Cx F) (amp (m_A p') w)) (amp (m_A p) w)) = cof (fmul F nrm sc).
Proof. intros F dqr dsvd pick cabs p d tol. exact (compress_left_spec F dqr dsvd pick cabs p d tol). Qed.
Print Assumptions C13_compress_left_spec.

(* (c),(g) for mode = 'left', same hypotheses: 1 - L tol <= scale^2 <= 1 (nsmul L tol = tol + ... + tol) and
   || nrm*scale*psi' - psi ||^2 = nrm^2 (1 - scale^2) <= nrm^2 L tol. *)
Theorem C13_compress_left_error : forall (F : ofield) dqr dsvd pick cabs (p : mps (Cx F)) (d : nat) (tol : F),
  1 <= d -> length (m_qd p) = d -> m_A p <> [] -> mps_ok p = true ->
  length (hd [] (m_qD p)) = 1 -> length (last (m_qD p) []) = 1 ->
  Forall (fun q => 1 <= length q) (m_qD p) ->
  fle F (f0 F) tol -> flt F tol (f1 F) ->
  Forall (qr_call_ok F dqr) (mps_orth_calls dqr false p) ->
  (forall p1 n1, mps_orthonormalize dqr false p = Some (p1, n1) -> compress_ok dsvd pick tol true p1) ->
  (forall t, compress_T dqr dsvd pick tol true p = Some t -> abs_ok cabs t) ->
  exists p' nrm sc,
    mps_compress dqr dsvd pick cabs tol true p = Some (p', nrm, sc) /\
    fle F (fsub F (f1 F) (nsmul (length (m_A p)) tol)) (fmul F sc sc) /\ fle F (fmul F sc sc) (f1 F) /\
    dist2 d (cof (fmul F nrm sc)) (m_A p') (m_A p) = cof (fmul F (fmul F nrm nrm) (fsub F (f1 F) (fmul F sc sc))) /\
    fle F (fmul F (fmul F nrm nrm) (fsub F (f1 F) (fmul F sc sc))) (fmul F (fmul F nrm nrm) (nsmul (length (m_A p)) tol)).
Proof. intros F dqr dsvd pick cabs p d tol. exact (compress_left_error F dqr dsvd pick cabs p d tol). Qed.
Print Assumptions C13_compress_left_error.

(* ---- mode = 'right': the mirror image.  Preliminary orthonormalisation in mode 'left', truncation sweep from the last site;
   every site of psi' is a right isometry, the bond bound runs from the right (reversed dimension lists); all other
   conclusions are those of C13_compress_left_spec. *)
Theorem C13_compress_right_spec : forall (F : ofield) dqr dsvd pick cabs (p : mps (Cx F)) (d : nat) (tol : F),
  1 <= d -> length (m_qd p) = d -> m_A p <> [] -> mps_ok p = true ->
  length (hd [] (m_qD p)) = 1 -> length (last (m_qD p) []) = 1 ->
  Forall (fun q => 1 <= length q) (m_qD p) ->
  fle F (f0 F) tol -> flt F tol (f1 F) ->
  Forall (qr_call_ok F dqr) (mps_orth_calls dqr true p) ->
  (forall p1 n1, mps_orthonormalize dqr true p = Some (p1, n1) -> compress_ok dsvd pick tol false p1) ->
  (forall t, compress_T dqr dsvd pick tol false p = Some t -> abs_ok cabs t) ->
  exists p1 p' nrm sc,
    mps_orthonormalize dqr true p = Some (p1, nrm) /\
    mps_compress dqr dsvd pick cabs tol false p = Some (p', nrm, sc) /\
    m_qd p' = m_qd p /\ length (m_A p') = length (m_A p) /\ mps_ok p' = true /\
    length (hd [] (m_qD p')) = 1 /\ length (last (m_qD p') []) = 1 /\
    Forall (fun q => 1 <= length q) (m_qD p') /\
    bond_bound d (rev (lens (m_qD p'))) (rev (lens (m_qD p1))) /\
    Forall2 le (lens (m_qD p')) (lens (m_qD p)) /\
    chain_riso (lens (m_qD p')) (m_A p') /\
    norm2 d (m_A p') = k1 (Cx F) /\
    fle F (f0 F) nrm /\ norm2 d (m_A p) = cof (fmul F nrm nrm) /\
    fle F (f0 F) sc /\
    length (compress_eps dsvd pick tol false p1) = length (m_A p) /\
    (forall e, In e (compress_eps dsvd pick tol false p1) -> fle F (f0 F) e /\ fle F e tol) /\
    fmul F sc sc = fprod (map (fun e => fsub F (f1 F) e) (compress_eps dsvd pick tol false p1)) /\
    (tol = f0 F -> sc = f1 F /\ forall w, length w = length (m_A p) -> letters d w ->
       amp (m_A p) w = kmul (Cx F) (kmul (Cx F) (cof nrm) (cof sc)) (amp (m_A p') w)) /\
    suml (words d (length (m_A p))) (fun w => kmul (Cx F) (kconj (Cx F) (amp (m_A p') w)) (amp (m_A p) w)) = cof (fmul F nrm sc).
Proof. intros F dqr dsvd pick cabs p d tol. exact (compress_right_spec F dqr dsvd pick cabs p d tol). Qed.
Print Assumptions C13_compress_right_spec.

Theorem C13_compress_right_error : forall (F : ofield) dqr dsvd pick cabs (p : mps (Cx F)) (d : nat) (tol : F),
  1 <= d -> length (m_qd p) = d -> m_A p <> [] -> mps_ok p = true ->
  length (hd [] (m_qD p)) = 1 -> length (last (m_qD p) []) = 1 ->
  Forall (fun q => 1 <= length q) (m_qD p) ->
  fle F (f0 F) tol -> flt F tol (f1 F) ->
  Forall (qr_call_ok F dqr) (mps_orth_calls dqr true p) ->
  (forall p1 n1, mps_orthonormalize dqr true p = Some (p1, n1) -> compress_ok dsvd pick tol false p1) ->
  (forall t, compress_T dqr dsvd pick tol false p = Some t -> abs_ok cabs t) ->
  exists p' nrm sc,
    mps_compress dqr dsvd pick cabs tol false p = Some (p', nrm, sc) /\
    fle F (fsub F (f1 F) (nsmul (length (m_A p)) tol)) (fmul F sc sc) /\ fle F (fmul F sc sc) (f1 F) /\
    dist2 d (cof (fmul F nrm sc)) (m_A p') (m_A p) = cof (fmul F (fmul F nrm nrm) (fsub F (f1 F) (fmul F sc sc))) /\
    fle F (fmul F (fmul F nrm nrm) (fsub F (f1 F) (fmul F sc sc))) (fmul F (fmul F nrm nrm) (nsmul (length (m_A p)) tol)).
Proof. intros F dqr dsvd pick cabs p d tol. exact (compress_right_error F dqr dsvd pick cabs p d tol). Qed.
Print Assumptions C13_compress_right_error.

(* the steps [compress_args] are exactly the steps whose block SVD calls the model lists in [compress_svd_calls] (both modes) *)
Theorem C13_compress_calls : forall (F : ofield) dsvd pick (tol : F) (left : bool) (p1 : mps (Cx F)),
  compress_svd_calls dsvd pick tol left p1 =
  flat_map (fun a => block_svd_calls (fst (fst (step_mx left (m_qd p1) a))) (snd (fst (step_mx left (m_qd p1) a))) (snd (step_mx left (m_qd p1) a)))
           (compress_args dsvd pick tol left p1).
Proof. intros F dsvd pick tol left p1. exact (compress_svd_calls_args F dsvd pick tol left p1). Qed.
Print Assumptions C13_compress_calls.

(* (h) MPS.from_vector.  For every d >= 1, n >= 1, vector v of length d^n, 0 <= tol < 1, SVD oracle meeting LAPACK's contract
   [dsvd_ok] (shapes, U diag(s) V = M, U^H U = I, V V^H = I, s >= 0) and argsort oracle meeting [pick_ok] on the calls the
   TT-SVD loop actually issues ([from_vector_calls], call i indexed by the iteration): the model returns an MPS psi of length n and
   sum_u | v_u - amp psi (u-th word) |^2 = e,  sum_u |v_u|^2 = nv  with  0 <= e <= (n tol) nv   (nsmul n tol = tol + ... + tol).
   (amp psi of the u-th word is entry u of as_vector, C03_as_vector_words.) *)
Theorem C13_from_vector_bound : forall (F : ofield) (dsvd : nat -> mx (Cx F) -> mx (Cx F) * list F * mx (Cx F))
    (srt : nat -> list F -> list nat) (tol : F) (d n : nat) (vec : list (Cx F)),
  fle F (f0 F) tol -> flt F tol (f1 F) ->
  0 < d -> 0 < n -> length vec = d ^ n ->
  Forall (fv_call_ok2 dsvd srt) (from_vector_calls dsvd srt d n vec tol) ->
  exists p e nv, from_vector dsvd srt d n vec tol = Some p /\ length (m_A p) = n /\
    sumn (d ^ n) (fun u => sq (ksub (Cx F) (nth u vec (k0 (Cx F))) (amp (m_A p) (nth u (words d n) [])))) = cof e /\
    sumn (d ^ n) (fun u => sq (nth u vec (k0 (Cx F)))) = cof nv /\
    fle F (f0 F) e /\ fle F e (fmul F (nsmul n tol) nv).
Proof. intros F dsvd srt tol d n vec Ht0 Ht1. exact (from_vector_bound F dsvd srt tol Ht0 Ht1 d n vec). Qed.
Print Assumptions C13_from_vector_bound.

(* Non-vacuity: product state L = 2, d = 2, tensors (3,4) (x) (3,4), mode = 'left', tol = 1/10; the QR table (two calls of the
   right orthonormalisation), the SVD table (column (3/5,4/5) = (3/5,4/5)^T . 1 . [[1]]), argsort answer [0] and abs = real part
   (the final T is 1) meet the contracts; the model returns nrm = 25 and scale = 1. *)
Definition qq (n : Z) (d : positive) : Qc := Q2Qc (Qmake n d).
Definition cq (n : Z) (d : positive) : Cx QcF := (qq n d, qq 0 1).
Definition mc := @mkmx (Cx QcF).
Definition ex_p : mps (Cx QcF) :=
  mkmps [0; 0]%Z [[0]; [0]; [0]]%Z
    [ [mc 1 1 [[cq 3 1]]; mc 1 1 [[cq 4 1]]]; [mc 1 1 [[cq 3 1]]; mc 1 1 [[cq 4 1]]] ].
Definition ex_qtbl : list (mx (Cx QcF) * (mx (Cx QcF) * mx (Cx QcF))) :=
  [ (mc 2 1 [[cq 3 1]; [cq 4 1]], (mc 2 1 [[cq 3 5]; [cq 4 5]], mc 1 1 [[cq 5 1]]));
    (mc 2 1 [[cq 15 1]; [cq 20 1]], (mc 2 1 [[cq 3 5]; [cq 4 5]], mc 1 1 [[cq 25 1]])) ].
Definition ex_stbl : list (mx (Cx QcF) * (mx (Cx QcF) * list QcF * mx (Cx QcF))) :=
  [ (mc 2 1 [[cq 3 5]; [cq 4 5]], (mc 2 1 [[cq 3 5]; [cq 4 5]], [qq 1 1], mc 1 1 [[cq 1 1]])) ].
Definition ex_pick : list QcF -> list nat := fun _ => [0].
Definition ex_abs : Cx QcF -> QcF := fun z => fst z.
Example C13_nonvacuous :
  mps_ok ex_p = true /\
  Forall (qr_call_ok QcF (qr_oracle ex_qtbl)) (mps_orth_calls (qr_oracle ex_qtbl) false ex_p) /\
  match mps_compress (qr_oracle ex_qtbl) (svd_oracle ex_stbl) ex_pick ex_abs (qq 1 10) true ex_p with
  | Some (p', nrm, sc) => feqb QcF nrm (qq 25 1) && feqb QcF sc (qq 1 1) && mps_ok p' | None => false end = true.
Proof.
  split; [vm_compute; reflexivity|]. split; [apply qr_call_okb_sound; vm_compute; reflexivity|]. vm_compute; reflexivity.
Qed.
(* the same instance meets every hypothesis of C13_compress_left_spec / _error (two truncation steps, both oracle contracts
   and the abs contract hold on the issued calls) *)
Example C13_left_nonvacuous :
  1 <= 2 /\ length (m_qd ex_p) = 2 /\ m_A ex_p <> [] /\ mps_ok ex_p = true /\
  length (hd [] (m_qD ex_p)) = 1 /\ length (last (m_qD ex_p) []) = 1 /\ Forall (fun q => 1 <= length q) (m_qD ex_p) /\
  fle QcF (f0 QcF) (qq 1 10) /\ flt QcF (qq 1 10) (f1 QcF) /\
  Forall (qr_call_ok QcF (qr_oracle ex_qtbl)) (mps_orth_calls (qr_oracle ex_qtbl) false ex_p) /\
  (forall p1 n1, mps_orthonormalize (qr_oracle ex_qtbl) false ex_p = Some (p1, n1) ->
     compress_ok (svd_oracle ex_stbl) ex_pick (qq 1 10) true p1) /\
  (forall t, compress_T (qr_oracle ex_qtbl) (svd_oracle ex_stbl) ex_pick (qq 1 10) true ex_p = Some t -> abs_ok ex_abs t) /\
  match mps_orthonormalize (qr_oracle ex_qtbl) false ex_p with
  | Some (p1, _) => length (compress_args (svd_oracle ex_stbl) ex_pick (qq 1 10) true p1) | None => 0 end = 2.
Proof.
  split; [lia|]. split; [reflexivity|]. split; [discriminate|]. split; [vm_compute; reflexivity|].
  split; [reflexivity|]. split; [reflexivity|]. split; [repeat constructor|].
  split; [vm_compute; reflexivity|]. split; [vm_compute; reflexivity|].
  split; [apply qr_call_okb_sound; vm_compute; reflexivity|].
  split; [apply (compress_hyp_of_bool QcF (qr_oracle ex_qtbl) (svd_oracle ex_stbl) ex_pick (qq 1 10) true ex_p); vm_compute; reflexivity|].
  split; [apply (abs_hyp_of_bool QcF (qr_oracle ex_qtbl) (svd_oracle ex_stbl) ex_pick ex_abs (qq 1 10) true ex_p); vm_compute; reflexivity|]. vm_compute; reflexivity.
Qed.
(* mode = 'right' on the same state: left-orthonormalisation uses the same two QR calls; both truncation steps split the
   1 x 2 row (3/5, 4/5) = [[1]] . 1 . (3/5, 4/5) *)
Definition ex_stbl_r : list (mx (Cx QcF) * (mx (Cx QcF) * list QcF * mx (Cx QcF))) :=
  [ (mc 1 2 [[cq 3 5; cq 4 5]], (mc 1 1 [[cq 1 1]], [qq 1 1], mc 1 2 [[cq 3 5; cq 4 5]])) ].
Example C13_right_nonvacuous :
  Forall (qr_call_ok QcF (qr_oracle ex_qtbl)) (mps_orth_calls (qr_oracle ex_qtbl) true ex_p) /\
  (forall p1 n1, mps_orthonormalize (qr_oracle ex_qtbl) true ex_p = Some (p1, n1) ->
     compress_ok (svd_oracle ex_stbl_r) ex_pick (qq 1 10) false p1) /\
  (forall t, compress_T (qr_oracle ex_qtbl) (svd_oracle ex_stbl_r) ex_pick (qq 1 10) false ex_p = Some t -> abs_ok ex_abs t) /\
  match mps_compress (qr_oracle ex_qtbl) (svd_oracle ex_stbl_r) ex_pick ex_abs (qq 1 10) false ex_p with
  | Some (p', nrm, sc) => feqb QcF nrm (qq 25 1) && feqb QcF sc (qq 1 1) && mps_ok p' | None => false end = true.
Proof.
  split; [apply qr_call_okb_sound; vm_compute; reflexivity|].
  split; [apply (compress_hyp_of_bool QcF (qr_oracle ex_qtbl) (svd_oracle ex_stbl_r) ex_pick (qq 1 10) false ex_p); vm_compute; reflexivity|].
  split; [apply (abs_hyp_of_bool QcF (qr_oracle ex_qtbl) (svd_oracle ex_stbl_r) ex_pick ex_abs (qq 1 10) false ex_p); vm_compute; reflexivity|].
  vm_compute; reflexivity.
Qed.
(* from_vector: d = 2, n = 1, v = (3, 4), tol = 1/10: one call, M = (3,4)^T = (3/5,4/5)^T . 5 . [[1]] *)
Definition fvb_vec : list (Cx QcF) := [cq 3 1; cq 4 1].
Definition fvb_svd (i : nat) (_ : mx (Cx QcF)) : mx (Cx QcF) * list QcF * mx (Cx QcF) :=
  (mc 2 1 [[cq 3 5]; [cq 4 5]], [qq 5 1], mc 1 1 [[cq 1 1]]).
Definition fvb_srt (i : nat) (_ : list QcF) : list nat := [0].
Example C13_from_vector_nonvacuous :
  Forall (fv_call_ok2 fvb_svd fvb_srt) (from_vector_calls fvb_svd fvb_srt 2 1 fvb_vec (qq 1 10)) /\
  length (from_vector_calls fvb_svd fvb_srt 2 1 fvb_vec (qq 1 10)) = 1 /\
  match from_vector fvb_svd fvb_srt 2 1 fvb_vec (qq 1 10) with Some p => Nat.eqb (length (m_A p)) 1 | None => false end = true.
Proof.
  split; [apply (fv_call_ok2b_ok QcF); vm_compute; reflexivity|]. split; vm_compute; reflexivity.
Qed.

(* ---- (e) the first truncated bond keeps exactly the Schmidt values prescribed by the tolerance rule ------------------------
   Vocabulary (Proofs/CompressSchmidt.v, mode 'left'; p1 = state after the preliminary right-orthonormalisation):
     first_mx p1 = site_mx (A[0])  the d x D1 matrix of the first site tensor (D0 = 1, so the row index is the physical index),
     first_q0 p1 = qnumber_flatten([qd, qD[0]]),  first_q1 p1 = qD[1]        the charge vectors of that split,
     first_spectrum dsvd p1 = S    all block singular values the oracle returns for the blocks of first_mx p1 (C12),
     first_kept dsvd pick tol p1 = retained pick S tol                       the index set kept by the tolerance rule,
     rho1 d As s s' = sum over the words w of sites 1..L-1 of amp As (s :: w) * conj (amp As (s' :: w))
                                   the reduced density matrix of the first site; rho1_mx d As the same as a d x d matrix,
     sqlist S = the squares of S.
   Statement, for every well-formed block-sparse MPS psi (boundary bonds 1, all bonds >= 1; for the zero state psi1 is still a
   normalised state and nrm = 0), 0 <= tol < 1 and oracles meeting their contracts on the issued calls (hypotheses of
   C13_compress_left_spec):
     psi1 is normalised, its sites >= 1 are right isometries and amp psi = nrm * amp psi1 (so psi1 = psi / ||psi|| for psi <> 0);
     (i)   the first step of the truncation sweep is (A[0], qD[0], qD[1]); it hands (first_mx, first_q0, first_q1) to
           split_matrix_svd, and these block SVD calls head the list [compress_svd_calls] of the model;
     (ii)  that split returns (u, s, v, q') with s = S[K], K = first_kept; the new first bond of the result psi' is q' with
           dimension |K| (and for L >= 2 the first tensor of psi' is u reshaped);
     (iii) rho1(psi1) = M M^H (the right part collapses by right-isometry), rho1(psi) = nrm^2 rho1(psi1), tr rho1(psi1) = 1,
           and there is Uf (d x |S|) with Uf^H Uf = I, rho1(psi1) = Uf diag(S^2) Uf^H (entrywise), rho1(psi1) Uf = Uf diag(S^2),
           u = the columns K of Uf;  S >= 0, sum S^2 = 1, |S| <= min(d, D1):
           the S^2 are the non-zero eigenvalues of the reduced density matrix with orthonormal eigenvectors the columns of Uf,
           i.e. S are the Schmidt values of psi / ||psi|| across cut 1 (any block structure, unsorted charges);
     (iv)  K obeys the tolerance rule of C12_retained_spec on these Schmidt values: strictly increasing indices, non-empty,
           discarded weight <= tol, every kept value >= every discarded one, discarding any further kept value would exceed
           tol, tol = 0 keeps exactly the non-zero values. *)
Theorem C13_first_bond_schmidt_left : forall (F : ofield) dqr dsvd pick cabs (p : mps (Cx F)) (d : nat) (tol : F),
  1 <= d -> length (m_qd p) = d -> m_A p <> [] -> mps_ok p = true ->
  length (hd [] (m_qD p)) = 1 -> length (last (m_qD p) []) = 1 ->
  Forall (fun q => 1 <= length q) (m_qD p) ->
  fle F (f0 F) tol -> flt F tol (f1 F) ->
  Forall (qr_call_ok F dqr) (mps_orth_calls dqr false p) ->
  (forall p1 n1, mps_orthonormalize dqr false p = Some (p1, n1) -> compress_ok dsvd pick tol true p1) ->
  (forall t, compress_T dqr dsvd pick tol true p = Some t -> abs_ok cabs t) ->
  exists p1 p' nrm sc,
    mps_orthonormalize dqr false p = Some (p1, nrm) /\
    mps_compress dqr dsvd pick cabs tol true p = Some (p', nrm, sc) /\
    length (m_A p1) = length (m_A p) /\ m_qd p1 = m_qd p /\ length (hd [] (m_qD p1)) = 1 /\
    norm2 d (m_A p1) = k1 (Cx F) /\ chain_riso (lens (m_qD p1)) (m_A p1) /\
    fle F (f0 F) nrm /\ norm2 d (m_A p) = cof (fmul F nrm nrm) /\
    (forall w, length w = length (m_A p) -> letters d w -> amp (m_A p) w = kmul (Cx F) (cof nrm) (amp (m_A p1) w)) /\
    wf (first_mx p1) /\ nr (first_mx p1) = d /\ nc (first_mx p1) = length (first_q1 p1) /\
    (forall s b, s < d -> b < length (first_q1 p1) -> get (first_mx p1) s b = get (sel (hd [] (m_A p1)) s) 0 b) /\
    (exists tl, compress_args dsvd pick tol true p1 = (hd [] (m_A p1), hd [] (m_qD p1), first_q1 p1) :: tl) /\
    step_mx true (m_qd p1) (hd [] (m_A p1), hd [] (m_qD p1), first_q1 p1) = (first_mx p1, first_q0 p1, first_q1 p1) /\
    (exists tl, compress_svd_calls dsvd pick tol true p1 = block_svd_calls (first_mx p1) (first_q0 p1) (first_q1 p1) ++ tl) /\
    (exists u s v q' Uf,
       block_svd dsvd pick (first_mx p1) (first_q0 p1) (first_q1 p1) tol = Some (u, s, v, q') /\
       s = map (fun i => nth i (first_spectrum dsvd p1) (f0 F)) (first_kept dsvd pick tol p1) /\
       length q' = length (first_kept dsvd pick tol p1) /\
       nth 1 (m_qD p') [] = q' /\
       (2 <= length (m_A p) -> hd [] (m_A p') = mx_site d 1 u) /\
       wf Uf /\ nr Uf = d /\ nc Uf = length (first_spectrum dsvd p1) /\
       mulmx (adjmx Uf) Uf = idmx (length (first_spectrum dsvd p1)) /\
       mulmx (rho1_mx d (m_A p1)) Uf = scalecols F Uf (sqlist (first_spectrum dsvd p1)) /\
       (forall t t', t < d -> t' < d -> rho1 d (m_A p1) t t' =
          sumn (length (first_spectrum dsvd p1)) (fun c =>
            kmul (Cx F) (kmul (Cx F) (get Uf t c)
                           (cof (fmul F (nth c (first_spectrum dsvd p1) (f0 F)) (nth c (first_spectrum dsvd p1) (f0 F)))))
                        (kconj (Cx F) (get Uf t' c)))) /\
       u = colsel (first_kept dsvd pick tol p1) Uf) /\
    rho1_mx d (m_A p1) = mulmx (first_mx p1) (adjmx (first_mx p1)) /\
    (forall t t', t < d -> t' < d -> rho1 d (m_A p) t t' = kmul (Cx F) (cof (fmul F nrm nrm)) (rho1 d (m_A p1) t t')) /\
    sumn d (fun t => rho1 d (m_A p1) t t) = k1 (Cx F) /\
    sqsum (first_spectrum dsvd p1) = f1 F /\
    (forall x, In x (first_spectrum dsvd p1) -> fle F (f0 F) x) /\
    length (first_spectrum dsvd p1) <= Nat.min d (length (first_q1 p1)) /\
    Sorted.StronglySorted lt (first_kept dsvd pick tol p1) /\
    (forall i, In i (first_kept dsvd pick tol p1) -> i < length (first_spectrum dsvd p1)) /\
    first_kept dsvd pick tol p1 <> [] /\
    fle F (disc_weight (first_spectrum dsvd p1) (first_kept dsvd pick tol p1)) tol /\
    (forall i j, In i (first_kept dsvd pick tol p1) -> j < length (first_spectrum dsvd p1) -> ~ In j (first_kept dsvd pick tol p1) ->
       fle F (nth j (first_spectrum dsvd p1) (f0 F)) (nth i (first_spectrum dsvd p1) (f0 F))) /\
    (forall m, In m (first_kept dsvd pick tol p1) ->
       flt F tol (fadd F (disc_weight (first_spectrum dsvd p1) (first_kept dsvd pick tol p1)) (weight (first_spectrum dsvd p1) m))) /\
    (tol = f0 F -> forall i, i < length (first_spectrum dsvd p1) ->
       (In i (first_kept dsvd pick tol p1) <-> nth i (first_spectrum dsvd p1) (f0 F) <> f0 F)).
Proof. intros F dqr dsvd pick cabs p d tol. exact (compress_first_bond_left F dqr dsvd pick cabs p d tol). Qed.
Print Assumptions C13_first_bond_schmidt_left.

(* mode = 'right': the mirror image (Proofs/CompressSchmidtRight.v).  p1 = state after the preliminary LEFT-orthonormalisation
   (sites <= L-2 left isometries); the first truncated bond is the LAST one.  last_site p1 = A[L-1],
   last_mx p1 = A[L-1].transpose((1,0,2)).reshape((D_{L-1}, d)) (column index = physical index, D_L = 1), last_q0 p1 = qD[L-1],
   last_q1 p1 = qnumber_flatten([-qd, qD[L]]), last_spectrum / last_kept as before, rhoL d As s s' = sum over the words w of
   sites 0..L-2 of amp As (w ++ [s]) * conj (amp As (w ++ [s'])) the reduced density matrix of the last site.
   rhoL(psi1) = (M^H M)^T = Vf^T diag(S^2) conj(Vf) with Vf Vf^H = I: the eigenvectors are the ROWS of the full right factor Vf,
   rhoL(psi1) Vf^T = Vf^T diag(S^2); the kept right factor v = rows K of Vf; the new last bond of psi' has dimension |K|. *)
Theorem C13_first_bond_schmidt_right : forall (F : ofield) dqr dsvd pick cabs (p : mps (Cx F)) (d : nat) (tol : F),
  1 <= d -> length (m_qd p) = d -> m_A p <> [] -> mps_ok p = true ->
  length (hd [] (m_qD p)) = 1 -> length (last (m_qD p) []) = 1 ->
  Forall (fun q => 1 <= length q) (m_qD p) ->
  fle F (f0 F) tol -> flt F tol (f1 F) ->
  Forall (qr_call_ok F dqr) (mps_orth_calls dqr true p) ->
  (forall p1 n1, mps_orthonormalize dqr true p = Some (p1, n1) -> compress_ok dsvd pick tol false p1) ->
  (forall t, compress_T dqr dsvd pick tol false p = Some t -> abs_ok cabs t) ->
  exists p1 p' nrm sc,
    mps_orthonormalize dqr true p = Some (p1, nrm) /\
    mps_compress dqr dsvd pick cabs tol false p = Some (p', nrm, sc) /\
    length (m_A p1) = length (m_A p) /\ m_qd p1 = m_qd p /\ length (last (m_qD p1) []) = 1 /\
    norm2 d (m_A p1) = k1 (Cx F) /\ chain_liso (lens (m_qD p1)) (m_A p1) /\
    fle F (f0 F) nrm /\ norm2 d (m_A p) = cof (fmul F nrm nrm) /\
    (forall w, length w = length (m_A p) -> letters d w -> amp (m_A p) w = kmul (Cx F) (cof nrm) (amp (m_A p1) w)) /\
    wf (last_mx p1) /\ nr (last_mx p1) = length (last_q0 p1) /\ nc (last_mx p1) = d /\
    (forall a s, a < length (last_q0 p1) -> s < d -> get (last_mx p1) a s = get (sel (last_site p1) s) a 0) /\
    (exists tl, compress_args dsvd pick tol false p1 = (last_site p1, hd [] (rev (m_qD p1)), last_q0 p1) :: tl) /\
    step_mx false (m_qd p1) (last_site p1, hd [] (rev (m_qD p1)), last_q0 p1) = (last_mx p1, last_q0 p1, last_q1 p1) /\
    (exists tl, compress_svd_calls dsvd pick tol false p1 = block_svd_calls (last_mx p1) (last_q0 p1) (last_q1 p1) ++ tl) /\
    (exists u s v q' Vf,
       block_svd dsvd pick (last_mx p1) (last_q0 p1) (last_q1 p1) tol = Some (u, s, v, q') /\
       s = map (fun i => nth i (last_spectrum dsvd p1) (f0 F)) (last_kept dsvd pick tol p1) /\
       length q' = length (last_kept dsvd pick tol p1) /\
       nth 1 (rev (m_qD p')) [] = q' /\
       (2 <= length (m_A p) -> hd [] (rev (m_A p')) = mx_site_r d 1 v) /\
       wf Vf /\ nr Vf = length (last_spectrum dsvd p1) /\ nc Vf = d /\
       mulmx Vf (adjmx Vf) = idmx (length (last_spectrum dsvd p1)) /\
       mulmx (rhoL_mx d (m_A p1)) (trmx Vf) = scalecols F (trmx Vf) (sqlist (last_spectrum dsvd p1)) /\
       (forall t t', t < d -> t' < d -> rhoL d (m_A p1) t t' =
          sumn (length (last_spectrum dsvd p1)) (fun c =>
            kmul (Cx F) (kmul (Cx F) (get Vf c t)
                           (cof (fmul F (nth c (last_spectrum dsvd p1) (f0 F)) (nth c (last_spectrum dsvd p1) (f0 F)))))
                        (kconj (Cx F) (get Vf c t')))) /\
       v = rowsel (last_kept dsvd pick tol p1) Vf) /\
    rhoL_mx d (m_A p1) = trmx (mulmx (adjmx (last_mx p1)) (last_mx p1)) /\
    (forall t t', t < d -> t' < d -> rhoL d (m_A p) t t' = kmul (Cx F) (cof (fmul F nrm nrm)) (rhoL d (m_A p1) t t')) /\
    sumn d (fun t => rhoL d (m_A p1) t t) = k1 (Cx F) /\
    sqsum (last_spectrum dsvd p1) = f1 F /\
    (forall x, In x (last_spectrum dsvd p1) -> fle F (f0 F) x) /\
    length (last_spectrum dsvd p1) <= Nat.min (length (last_q0 p1)) d /\
    Sorted.StronglySorted lt (last_kept dsvd pick tol p1) /\
    (forall i, In i (last_kept dsvd pick tol p1) -> i < length (last_spectrum dsvd p1)) /\
    last_kept dsvd pick tol p1 <> [] /\
    fle F (disc_weight (last_spectrum dsvd p1) (last_kept dsvd pick tol p1)) tol /\
    (forall i j, In i (last_kept dsvd pick tol p1) -> j < length (last_spectrum dsvd p1) -> ~ In j (last_kept dsvd pick tol p1) ->
       fle F (nth j (last_spectrum dsvd p1) (f0 F)) (nth i (last_spectrum dsvd p1) (f0 F))) /\
    (forall m, In m (last_kept dsvd pick tol p1) ->
       flt F tol (fadd F (disc_weight (last_spectrum dsvd p1) (last_kept dsvd pick tol p1)) (weight (last_spectrum dsvd p1) m))) /\
    (tol = f0 F -> forall i, i < length (last_spectrum dsvd p1) ->
       (In i (last_kept dsvd pick tol p1) <-> nth i (last_spectrum dsvd p1) (f0 F) <> f0 F)).
Proof. intros F dqr dsvd pick cabs p d tol. exact (compress_first_bond_right F dqr dsvd pick cabs p d tol). Qed.
Print Assumptions C13_first_bond_schmidt_right.

(* Non-vacuity with a genuinely truncating instance: L = 2, d = 2, all charges zero, psi = 4 |00> + 3 |11>
   (A[0][0] = (4 0), A[0][1] = (0 3), A[1] = identity columns), ||psi|| = 5, Schmidt values (4/5, 3/5) across the only cut,
   weights 16/25 and 9/25, tol = 2/5: the smaller weight 9/25 <= 2/5 is discarded, ONE of the two values is kept, the bond
   dimension drops from 2 to 1 and scale = 4/5.  QR table: the two calls of the right-orthonormalisation; SVD table: the
   2 x 2 diagonal matrix diag(4/5, 3/5) = I diag(4/5, 3/5) I and the column (4/5, 0)^T of the second step; argsort of the
   weights (16/25, 9/25) is [1; 0].  All hypotheses of C13_first_bond_schmidt_left hold, the model's first spectrum is
   [4/5; 3/5], the kept index set is [0], D1 before = 2, after = 1. *)
Definition sch_p : mps (Cx QcF) :=
  mkmps [0; 0]%Z [[0]; [0; 0]; [0]]%Z
    [ [mc 1 2 [[cq 4 1; cq 0 1]]; mc 1 2 [[cq 0 1; cq 3 1]]];
      [mc 2 1 [[cq 1 1]; [cq 0 1]]; mc 2 1 [[cq 0 1]; [cq 1 1]]] ].
Definition sch_I2 : mx (Cx QcF) := mc 2 2 [[cq 1 1; cq 0 1]; [cq 0 1; cq 1 1]].
Definition sch_qtbl : list (mx (Cx QcF) * (mx (Cx QcF) * mx (Cx QcF))) :=
  [ (sch_I2, (sch_I2, sch_I2));
    (mc 4 1 [[cq 4 1]; [cq 0 1]; [cq 0 1]; [cq 3 1]], (mc 4 1 [[cq 4 5]; [cq 0 1]; [cq 0 1]; [cq 3 5]], mc 1 1 [[cq 5 1]])) ].
Definition sch_stbl : list (mx (Cx QcF) * (mx (Cx QcF) * list QcF * mx (Cx QcF))) :=
  [ (mc 2 2 [[cq 4 5; cq 0 1]; [cq 0 1; cq 3 5]], (sch_I2, [qq 4 5; qq 3 5], sch_I2));
    (mc 2 1 [[cq 4 5]; [cq 0 1]], (mc 2 1 [[cq 1 1]; [cq 0 1]], [qq 4 5], mc 1 1 [[cq 1 1]])) ].
Definition sch_pick : list QcF -> list nat := fun sn => match sn with [_; _] => [1; 0] | _ => [0] end.
Definition sch_tol : QcF := qq 2 5.
Definition sch_flist_eqb (a b : list QcF) : bool :=
  Nat.eqb (length a) (length b) && forallb (fun xy => feqb QcF (fst xy) (snd xy)) (combine a b).
Example C13_first_bond_nonvacuous :
  1 <= 2 /\ length (m_qd sch_p) = 2 /\ m_A sch_p <> [] /\ mps_ok sch_p = true /\
  length (hd [] (m_qD sch_p)) = 1 /\ length (last (m_qD sch_p) []) = 1 /\ Forall (fun q => 1 <= length q) (m_qD sch_p) /\
  fle QcF (f0 QcF) sch_tol /\ flt QcF sch_tol (f1 QcF) /\
  Forall (qr_call_ok QcF (qr_oracle sch_qtbl)) (mps_orth_calls (qr_oracle sch_qtbl) false sch_p) /\
  (forall p1 n1, mps_orthonormalize (qr_oracle sch_qtbl) false sch_p = Some (p1, n1) ->
     compress_ok (svd_oracle sch_stbl) sch_pick sch_tol true p1) /\
  (forall t, compress_T (qr_oracle sch_qtbl) (svd_oracle sch_stbl) sch_pick sch_tol true sch_p = Some t -> abs_ok ex_abs t) /\
  match mps_orthonormalize (qr_oracle sch_qtbl) false sch_p with
  | Some (p1, _) =>
      sch_flist_eqb (first_spectrum (svd_oracle sch_stbl) p1) [qq 4 5; qq 3 5] &&
      natlist_eqb (first_kept (svd_oracle sch_stbl) sch_pick sch_tol p1) [0] &&
      Nat.eqb (length (first_q1 p1)) 2
  | None => false end = true /\
  match mps_compress (qr_oracle sch_qtbl) (svd_oracle sch_stbl) sch_pick ex_abs sch_tol true sch_p with
  | Some (p', nrm, sc) => feqb QcF nrm (qq 5 1) && feqb QcF sc (qq 4 5) && Nat.eqb (length (nth 1 (m_qD p') [])) 1 && mps_ok p'
  | None => false end = true.
Proof.
  split; [lia|]. split; [reflexivity|]. split; [discriminate|]. split; [vm_compute; reflexivity|].
  split; [reflexivity|]. split; [reflexivity|]. split; [repeat constructor|].
  split; [vm_compute; reflexivity|]. split; [vm_compute; reflexivity|].
  split; [apply qr_call_okb_sound; vm_compute; reflexivity|].
  split; [apply (compress_hyp_of_bool2 QcF (qr_oracle sch_qtbl) (svd_oracle sch_stbl) sch_pick sch_tol true sch_p); vm_compute; reflexivity|].
  split; [apply (abs_hyp_of_bool QcF (qr_oracle sch_qtbl) (svd_oracle sch_stbl) sch_pick ex_abs sch_tol true sch_p); vm_compute; reflexivity|].
  split; vm_compute; reflexivity.
Qed.
(* the same state in mode = 'right': left-orthonormalisation factorises diag(4, 3) = I . diag(4, 3) and the column (4,0,0,3)^T;
   the first truncation step splits the same matrix diag(4/5, 3/5) (now last_mx), the second the row (4/5, 0) *)
Definition sch_qtbl_r : list (mx (Cx QcF) * (mx (Cx QcF) * mx (Cx QcF))) :=
  [ (mc 2 2 [[cq 4 1; cq 0 1]; [cq 0 1; cq 3 1]], (sch_I2, mc 2 2 [[cq 4 1; cq 0 1]; [cq 0 1; cq 3 1]]));
    (mc 4 1 [[cq 4 1]; [cq 0 1]; [cq 0 1]; [cq 3 1]], (mc 4 1 [[cq 4 5]; [cq 0 1]; [cq 0 1]; [cq 3 5]], mc 1 1 [[cq 5 1]])) ].
Definition sch_stbl_r : list (mx (Cx QcF) * (mx (Cx QcF) * list QcF * mx (Cx QcF))) :=
  [ (mc 2 2 [[cq 4 5; cq 0 1]; [cq 0 1; cq 3 5]], (sch_I2, [qq 4 5; qq 3 5], sch_I2));
    (mc 1 2 [[cq 4 5; cq 0 1]], (mc 1 1 [[cq 1 1]], [qq 4 5], mc 1 2 [[cq 1 1; cq 0 1]])) ].
Example C13_first_bond_right_nonvacuous :
  Forall (qr_call_ok QcF (qr_oracle sch_qtbl_r)) (mps_orth_calls (qr_oracle sch_qtbl_r) true sch_p) /\
  (forall p1 n1, mps_orthonormalize (qr_oracle sch_qtbl_r) true sch_p = Some (p1, n1) ->
     compress_ok (svd_oracle sch_stbl_r) sch_pick sch_tol false p1) /\
  (forall t, compress_T (qr_oracle sch_qtbl_r) (svd_oracle sch_stbl_r) sch_pick sch_tol false sch_p = Some t -> abs_ok ex_abs t) /\
  match mps_orthonormalize (qr_oracle sch_qtbl_r) true sch_p with
  | Some (p1, _) =>
      sch_flist_eqb (last_spectrum (svd_oracle sch_stbl_r) p1) [qq 4 5; qq 3 5] &&
      natlist_eqb (last_kept (svd_oracle sch_stbl_r) sch_pick sch_tol p1) [0] &&
      Nat.eqb (length (last_q0 p1)) 2
  | None => false end = true /\
  match mps_compress (qr_oracle sch_qtbl_r) (svd_oracle sch_stbl_r) sch_pick ex_abs sch_tol false sch_p with
  | Some (p', nrm, sc) => feqb QcF nrm (qq 5 1) && feqb QcF sc (qq 4 5) && Nat.eqb (length (nth 1 (rev (m_qD p')) [])) 1 && mps_ok p'
  | None => false end = true.
Proof.
  split; [apply qr_call_okb_sound; vm_compute; reflexivity|].
  split; [apply (compress_hyp_of_bool2 QcF (qr_oracle sch_qtbl_r) (svd_oracle sch_stbl_r) sch_pick sch_tol false sch_p); vm_compute; reflexivity|].
  split; [apply (abs_hyp_of_bool QcF (qr_oracle sch_qtbl_r) (svd_oracle sch_stbl_r) sch_pick ex_abs sch_tol false sch_p); vm_compute; reflexivity|].
  split; vm_compute; reflexivity.
Qed.
