(* C16 — Operator-graph rewrites preserve the denoted operator and graph consistency.
   Only statements, closed by [exact]/[apply]; proofs live in Proofs/Rewrites*.v.

   [den g w]: coefficient of the word w (operator ids, left to right) in the operator denoted by the graph g
   (Model/OpGraph.v; sum over all start-end paths).  The rewrites are the executable mirrors of Model/Rewrites.v
   ([None] = the implementation raises, or fuel exhausted).  [WF] is well-formedness (Proofs/RewritesBase.v): unique
   dictionary keys, duplicate-free edge-id lists, node/edge cross references in both directions, sorted opics,
   terminals without outward edges, every node on a start-end path (no dangling nodes), a level function for all
   nodes.  [wfb] is its boolean, evaluated by the kernel on every graph of the correspondence check; a well-formed
   graph passes the mirror of OpGraph.is_consistent ([C16_passes_own_check]). *)
From Coq Require Import ZArith List Bool Lia.
From PT Require Import Base.Scalar Base.BigSum Model.OpGraph Model.Rewrites
  Proofs.RewritesBase Proofs.RewritesFlip Proofs.RewritesIso Proofs.RewritesRename
  Proofs.RewritesConsistent Proofs.RewritesAdd Proofs.RewritesAll.
Import ListNotations.
Open Scope Z_scope.

(* the boolean check means what it says *)
Theorem C16_wfb_sound : forall (R : cring) (g : graph R), wfb g = true -> WF R g.
Proof. exact wfb_WF. Qed.
Print Assumptions C16_wfb_sound.

(* a well-formed graph passes its own consistency check: the mirror of is_consistent never answers False
   (its level search re-enumerates all paths, so for a fixed fuel it may not finish: then the result is None) *)
Theorem C16_passes_own_check : forall (R : cring) (g : graph R) fuel b,
  WF R g -> is_consistent_fuel fuel g = Some b -> b = true.
Proof. exact WF_is_consistent_true. Qed.
Print Assumptions C16_passes_own_check.

(* as_matrix(direction = 0) and as_matrix(direction = 1) denote the same operator *)
Theorem C16_direction_independent : forall (R : cring) (g : graph R) w, WF R g -> den_rev g w = den g w.
Proof. exact den_rev_den. Qed.
Print Assumptions C16_direction_independent.

(* (a) flipping reverses the site order of every term and keeps the graph well-formed *)
Theorem C16_flip : forall (R : cring) (g : graph R),
  WF R g -> WF R (flip g) /\ forall w, den (flip g) w = den g (rev w).
Proof. intros R g W. split; [apply flip_WF; exact W|intros w; apply flip_den; exact W]. Qed.
Print Assumptions C16_flip.

(* (b) renaming a node id / an edge id (whenever the implementation accepts the request) *)
Theorem C16_rename_node : forall (R : cring) (g g' : graph R) cur new,
  WF R g -> rename_node_id g cur new = Some g' -> WF R g' /\ forall w, den g' w = den g w.
Proof. intros R g g' cur new W H. split; [eapply rename_node_WF; eauto|intros w; eapply rename_node_den; eauto]. Qed.
Print Assumptions C16_rename_node.
Theorem C16_rename_edge : forall (R : cring) (g g' : graph R) cur new,
  WF R g -> rename_edge_id g cur new = Some g' -> WF R g' /\ forall w, den g' w = den g w.
Proof. intros R g g' cur new W H. split; [eapply rename_edge_WF; eauto|intros w; eapply rename_edge_den; eauto]. Qed.
Print Assumptions C16_rename_edge.

(* (c) merge_edges under exactly the guards the code checks (both branches, both directions):
   consistency and denotation preserved, one edge fewer, no more nodes *)
Theorem C16_merge_edges : forall (R : cring) (g g' : graph R) eid1 eid2 dir,
  WF R g -> merge_edges g eid1 eid2 dir = Some g' ->
  WF R g' /\ (forall w, den g' w = den g w) /\
  S (length (g_edges g')) = length (g_edges g) /\ (length (g_nodes g') <= length (g_nodes g))%nat.
Proof. exact merge_edges_spec. Qed.
Print Assumptions C16_merge_edges.

(* (d) simplify: denotation and consistency preserved, node and edge counts do not increase, and the model
   never fails or runs out of fuel on a well-formed graph (no assertion of merge_edges can fire) *)
Theorem C16_simplify : forall (R : cring) (g g' : graph R),
  WF R g -> simplify g = Some g' ->
  WF R g' /\ (forall w, den g' w = den g w) /\
  (length (g_edges g') <= length (g_edges g))%nat /\ (length (g_nodes g') <= length (g_nodes g))%nat.
Proof. exact simplify_ok. Qed.
Print Assumptions C16_simplify.
Theorem C16_simplify_terminates : forall (R : cring) (g : graph R), WF R g -> exists g', simplify g = Some g'.
Proof. exact simplify_terminates. Qed.
Print Assumptions C16_simplify_terminates.

(* (e) add: for arbitrary (colliding) ids of the other graph and ANY enumeration order of the shared ids the result
   denotes the sum and is well-formed.  AddOK g h: h well-formed, both graphs of length >= 1 (distinct terminals),
   equal length (level functions with equal terminal difference). *)
Theorem C16_add : forall (R : cring) (g h g' : graph R) sn se,
  WF R g -> AddOK R g h ->
  is_enum_inter sn (nids R g) (nids R h) = true -> is_enum_inter se (eids R g) (eids R h) = true ->
  add g h sn se = Some g' -> WF R g' /\ (forall w, den g' w = kadd R (den g w) (den h w)).
Proof. exact add_ok. Qed.
Print Assumptions C16_add.

(* (f) any finite sequence of the rewrites (simplify, one simplification step, merge_edges, rename_node_id,
   rename_edge_id, flip, add) that the model accepts keeps the graph well-formed and transforms the denotation
   accordingly: unchanged / words reversed (flip) / plus the other operator (add) *)
Theorem C16_rewrite_history : forall (R : cring) (rs : list (rw R)) (g g' : graph R),
  WF R g -> hist_pre R g rs -> run_rws R g rs = Some g' ->
  WF R g' /\ (forall w, den g' w = hist_sem R rs (den g) w).
Proof. exact rewrite_history. Qed.
Print Assumptions C16_rewrite_history.

(* ---- non-vacuity (Gaussian integers): a graph with three parallel branches, cancelling coefficients and a
   charge that blocks one node fusion:  words [0;1] -> 1 - 1 + 2 = 2 and [0;0] -> i ---- *)
Definition c16_ex : graph GIring :=
  @mkgraph GIring
    [mknode 0 [] [0; 1; 2] 0; mknode 1 [0] [3] 0; mknode 3 [1] [4] 0; mknode 4 [2] [5] 1; mknode 2 [3; 4; 5] [] 0]
    [@mkedge GIring 0 0 1 [(0, (1, 0))]; @mkedge GIring 1 0 3 [(0, (1, 0))]; @mkedge GIring 2 0 4 [(0, (1, 0))];
     @mkedge GIring 3 1 2 [(1, (1, 0))]; @mkedge GIring 4 3 2 [(1, ((-1), 0))];
     @mkedge GIring 5 4 2 [(0, (0, 1)); (1, (2, 0))]] 0 2.
Example C16_nonvacuous_wf :
  wfb c16_ex = true /\ is_consistent_fuel 1000 c16_ex = Some true /\
  den c16_ex [0; 1] = (2, 0) /\ den c16_ex [0; 0] = (0, 1) /\ den (flip c16_ex) [1; 0] = (2, 0).
Proof. vm_compute. repeat split. Qed.
Example C16_nonvacuous_simplify :
  match simplify c16_ex with
  | Some g' => wfb g' && Nat.eqb (length (g_nodes g')) 4 && Nat.eqb (length (g_edges g')) 4 &&
               geqb (den g' [0; 1]) (2, 0) && geqb (den g' [0; 0]) (0, 1)
  | None => false
  end = true.
Proof. vm_compute. reflexivity. Qed.
(* add with fully colliding ids, in two different enumeration orders of the shared ids *)
Example C16_nonvacuous_add :
  match add c16_ex c16_ex [0; 1; 2; 3; 4] [0; 1; 2; 3; 4; 5], add c16_ex c16_ex [4; 2; 0; 3; 1] [5; 0; 3; 1; 4; 2] with
  | Some g1, Some g2 =>
      is_enum_inter [4; 2; 0; 3; 1] (nids GIring c16_ex) (nids GIring c16_ex) &&
      wfb g1 && wfb g2 && geqb (den g1 [0; 1]) (4, 0) && geqb (den g2 [0; 1]) (4, 0) && geqb (den g2 [0; 0]) (0, 2)
  | _, _ => false
  end = true.
Proof. vm_compute. reflexivity. Qed.
(* the hypotheses of C16_add are met by this pair *)
Example C16_nonvacuous_add_hyps : WF GIring c16_ex /\ AddOK GIring c16_ex c16_ex.
Proof.
  assert (W : WF GIring c16_ex) by (apply wfb_WF; vm_compute; reflexivity).
  split; [exact W|]. apply AddOK_self; [exact W|]. vm_compute. discriminate.
Qed.
Example C16_nonvacuous_history :
  match run_rws GIring c16_ex [RRenameNode 0 7; RMerge 1 0 0%nat; RFlip; RRenameEdge 5 (-3); RSimplify] with
  | Some g' => wfb g' && geqb (den g' [1; 0]) (2, 0) && Nat.eqb (length (g_edges g')) 4
  | None => false
  end = true.
Proof. vm_compute. reflexivity. Qed.
