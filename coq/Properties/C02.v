(* C02 — Quantum-number block sparsity is an invariant of every operation sequence.
   Only statements, closed by [exact]; proofs live in Proofs/Hist*.v; the state machine is Model/History.v.

   Vocabulary
     mps_ok p / mpo_ok o   (Model/Tensor.v) the invariant "Inv" of one object: every tensor has exactly the shape given by the
                           lengths of qd, qD[i], qD[i+1], and every non-zero entry obeys  qd[s] + qD[i][a] = qD[i+1][b]
                           (MPO: qd[s] - qd[t] + qD[i][a] = qD[i+1][b]);  [C02_inv_meaning] spells this out.
     state, op, step, run  (Model/History.v) pool of MPS / MPO values, the public operations, one step, a whole history.
                           Ring operations use the executable mirrors of the code (Model/MPSOps.v, Model/GraphMPO.v, validated
                           against /repo bit for bit by the correspondence check); a failing python assertion leaves the pool
                           unchanged.  LAPACK-dependent operations are the result functions [oracles].
     Inv s                 every MPS and MPO of the pool satisfies the invariant.
     oracle_ok_at O s o    what is assumed of the oracle call issued by operation o in state s (nothing for ring operations):
                             SplitMerge  C12's contract for split_matrix_svd on the one call issued: if the input satisfies the
                                         assertions of that routine then the factors are block sparse under the returned charges
                                         (shapes as stated by C12); [C02_split_contract_from_C12] derives it from C12's model
                             FromVector  the tensors returned by the TT-SVD loop chain up (shapes only; all charges are zero)
                             Orth, OrthMpo, Compress, Tdvp, Dmrg   the returned object satisfies the invariant (on operands
                                         satisfying it); for Orth (both modes) and OrthMpo (mode 'left') this is a theorem about
                                         the executable model of C01 under LAPACK's QR contract: [C02_orth_step_contract].
   What is proved without any hypothesis on oracles: all ring operations ([C02_history_inv_ring]), including that the
   sparsity assertions inside add_mps / add_mpo / multiply_mpo / apply_operator can never fire on operands satisfying the
   invariant.  The full statement of the property for the remaining operations,
       forall ops s, Inv s -> Inv (run O ops s)     with O the models of compress / TDVP / DMRG,
   is proved only relative to [oracles_ok] ([C02_history_inv_partial]); compress, TDVP and DMRG keep that explicit
   hypothesis (no Coq model of their sparsity), it is checked on every real run by harness/props/c02.py. *)
From Coq Require Import ZArith List Bool Lia.
From PT Require Import Base.Scalar Base.Field Base.BigSum Base.Mx Model.OpGraph Model.FromOpchains Model.GraphMPO Model.BondOps.
From PT Require Import Model.Orthonormalize Model.Tensor Model.MPSOps Model.History.
From PT Require Import Proofs.BondOpsPerm Proofs.BondOpsLoop Proofs.BondOpsSpec Proofs.BondOpsRetained Proofs.BondOpsSVD Proofs.OrthTop Proofs.MPSOpsTop.
From PT Require Import Proofs.HistSparse Proofs.HistChain Proofs.HistOps Proofs.HistInv Proofs.HistCharge Proofs.HistOrth Proofs.HistSplit.
From PT Require Import Proofs.HistExample.
Import ListNotations.
Open Scope nat_scope.

(* ---- meaning of the invariant ---- *)
Theorem C02_inv_meaning : forall (R : cring) (p : mps R) (o : mpo R),
  (mps_ok p = true <-> chainP (site_okP R (m_qd p)) (m_qD p) (m_A p)) /\
  (mpo_ok o = true <-> chainP (osite_okP R (o_qd o)) (o_qD o) (o_A o)) /\
  (forall qd ql qr (A : site R), site_okP R qd ql qr A <->
     site_shape (length qd) (length ql) (length qr) A = true /\
     forall s a b, s < length qd -> a < length ql -> b < length qr -> get (sel A s) a b <> k0 R ->
       (zget qd s + zget ql a = zget qr b)%Z) /\
  (forall qd ql qr (W : osite R), osite_okP R qd ql qr W <->
     osite_shape (length qd) (length ql) (length qr) W = true /\
     forall s t a b, s < length qd -> t < length qd -> a < length ql -> b < length qr -> get (osel W s t) a b <> k0 R ->
       (zget qd s - zget qd t + zget ql a = zget qr b)%Z).
Proof.
  intros R p o. split; [apply mps_ok_P|]. split; [apply mpo_ok_P|]. split.
  - intros qd ql qr A. unfold site_okP, msp. split; intros [H1 H2]; (split; [exact H1|]); intros; eapply H2; eauto.
  - intros qd ql qr W. unfold osite_okP, msp. split; intros [H1 H2]; (split; [exact H1|]); intros; eapply H2; eauto.
Qed.
Print Assumptions C02_inv_meaning.

(* ---- (a) one preservation theorem per ring operation ---- *)
(* the structural assertions of add_mps: equal length >= 1, equal qd, equal first and last bond charges *)
Theorem C02_add_mps_ok : forall (R : cring) (alpha : R) (p q : mps R),
  mps_ok p = true -> mps_ok q = true ->
  length (m_A p) = length (m_A q) -> m_A p <> [] -> m_qd p = m_qd q ->
  hd [] (m_qD p) = hd [] (m_qD q) -> last (m_qD p) [] = last (m_qD q) [] ->
  mps_ok (add_mps alpha p q) = true /\ add_mps_asserts alpha p q = true.
Proof.
  intros R alpha p q Hp Hq H1 H2 H3 H4 H5. assert (Hpre : add_mps_pre R p q) by (repeat split; assumption).
  split; [apply add_mps_ok|apply add_mps_asserts_never_fire]; assumption.
Qed.
Print Assumptions C02_add_mps_ok.

Theorem C02_add_mpo_ok : forall (R : cring) (alpha : R) (a b : mpo R),
  mpo_ok a = true -> mpo_ok b = true ->
  length (o_A a) = length (o_A b) -> o_A a <> [] -> o_qd a = o_qd b ->
  hd [] (o_qD a) = hd [] (o_qD b) -> last (o_qD a) [] = last (o_qD b) [] ->
  mpo_ok (add_mpo alpha a b) = true /\ add_mpo_asserts alpha a b = true.
Proof.
  intros R alpha a b Hp Hq H1 H2 H3 H4 H5. assert (Hpre : add_mpo_pre R a b) by (repeat split; assumption).
  split; [apply add_mpo_ok|apply add_mpo_asserts_never_fire]; assumption.
Qed.
Print Assumptions C02_add_mpo_ok.

Theorem C02_multiply_mpo_ok : forall (R : cring) (a b : mpo R),
  mpo_ok a = true -> mpo_ok b = true -> length (o_A a) = length (o_A b) -> o_qd a = o_qd b ->
  mpo_ok (multiply_mpo a b) = true /\ multiply_mpo_asserts a b = true.
Proof. intros R a b Ha Hb HL Hq. split; [apply multiply_mpo_ok|apply multiply_mpo_asserts_never_fire]; assumption. Qed.
Print Assumptions C02_multiply_mpo_ok.

(* apply_operator additionally asserts (MPS constructor) that the boundary bonds of the result have dimension 1 *)
Theorem C02_apply_operator_ok : forall (R : cring) (o : mpo R) (p : mps R),
  mpo_ok o = true -> mps_ok p = true -> length (o_A o) = length (m_A p) -> m_qd p = o_qd o ->
  mps_ok (apply_operator o p) = true /\
  (length (hd [] (m_qD (apply_operator o p))) = 1 -> length (last (m_qD (apply_operator o p)) []) = 1 ->
   apply_operator_asserts o p = true).
Proof.
  intros R o p Ho Hp HL Hq. split; [apply apply_operator_ok; assumption|].
  intros H1 H2. apply apply_operator_asserts_never_fire; assumption.
Qed.
Print Assumptions C02_apply_operator_ok.

(* whatever the model returns (i.e. whenever the python code does not raise) satisfies the invariant *)
Theorem C02_run_results_ok : forall (R : cring) (alpha : R) (p q r : mps R) (a b c : mpo R),
  (mps_ok p = true -> mps_ok q = true -> add_mps_run alpha p q = Some r -> mps_ok r = true) /\
  (mpo_ok a = true -> mpo_ok b = true -> add_mpo_run alpha a b = Some c -> mpo_ok c = true) /\
  (mpo_ok a = true -> mpo_ok b = true -> multiply_mpo_run a b = Some c -> mpo_ok c = true) /\
  (mpo_ok a = true -> mps_ok p = true -> apply_operator_run a p = Some r -> mps_ok r = true).
Proof.
  intros R alpha p q r a b c. split; [apply add_mps_run_ok|]. split; [apply add_mpo_run_ok|].
  split; [apply multiply_mpo_run_ok|apply apply_operator_run_ok].
Qed.
Print Assumptions C02_run_results_ok.

Theorem C02_identity_ok : forall (R : cring) (qd : list Z) (L : nat) (scale : R), mpo_ok (mpo_identity qd L scale) = true.
Proof. exact identity_ok. Qed.
Print Assumptions C02_identity_ok.

(* MPS(qd, qD, fill) / MPO(qd, qD, fill): whatever the entries before masking *)
Theorem C02_constructors_ok : forall (R : cring) qd qDs (f : nat -> nat -> nat -> nat -> R)
    (g : nat -> nat -> nat -> nat -> nat -> R) (p : mps R) (o : mpo R),
  (new_mps qd qDs f = Some p -> mps_ok p = true) /\ (new_mpo qd qDs g = Some o -> mpo_ok o = true).
Proof. intros R qd qDs f g p o. split; [apply new_mps_ok|apply new_mpo_ok]. Qed.
Print Assumptions C02_constructors_ok.

(* MPO.from_opgraph and with it every Hamiltonian constructor (they all end in from_opgraph) *)
Theorem C02_from_opgraph_ok : forall (R : cring) qd (g : graph R) opmap (o : mpo R) m,
  from_opgraph qd g opmap = Ok (o, m) -> mpo_ok o = true.
Proof. exact from_opgraph_ok. Qed.
Print Assumptions C02_from_opgraph_ok.

(* MPS.from_vector: charges are all zero and qD[i+1] has the length of the bond that tensor i ends on *)
Theorem C02_from_vector_ok : forall (R : cring) d (As : list (site R)),
  chain_shape d (1 :: map site_nc As) As = true -> mps_ok (from_vector_mps d As) = true.
Proof. exact from_vector_ok. Qed.
Print Assumptions C02_from_vector_ok.

(* the key lemma: contracting two charge-conserving tensors over their shared bond (merge_mps_tensor_pair) *)
Theorem C02_merge_ok : forall (R : cring) qd0 qd1 ql qm qr (A0 A1 : site R),
  site_okP R qd0 ql qm A0 -> site_okP R qd1 qm qr A1 -> site_okP R (qflat qd0 qd1) ql qr (merge_mps_tensor_pair A0 A1).
Proof. exact merge_pair_ok. Qed.
Print Assumptions C02_merge_ok.

(* split_mps_tensor: the reshaped tensor meets the assertions of split_matrix_svd, and if the answer of that routine is
   block sparse under the returned bond charges (C12) the two tensors satisfy the invariant under these charges,
   for 'left', 'right' and 'sqrt' *)
Theorem C02_split_ok : forall (R : cring) svd ksqrt (A : site R) qd0 qd1 qD0 qD2 distr,
  site_okP R (qflat qd0 qd1) qD0 qD2 A -> 0 < length qd0 * length qd1 ->
  let M := split_matrix (length qd0) (length qd1) A in
  let q0 := qflat qd0 qD0 in let q1 := qflat (map Z.opp qd1) qD2 in
  valid_in M q0 q1 = true /\
  (svd_ans_ok R M q0 q1 (svd M q0 q1) ->
   let '(B0, B1, qb) := split_mps_tensor svd ksqrt A qd0 qd1 qD0 qD2 distr in
   site_okP R qd0 qD0 qb B0 /\ site_okP R qd1 qb qD2 B1).
Proof.
  intros R svd ksqrt A qd0 qd1 qD0 qD2 distr HA Hd. cbv zeta. split; [apply split_input_valid; assumption|].
  intros Hans. apply split_ok; try assumption. destruct HA as [SA _]. rewrite qflat_length in SA. exact SA.
Qed.
Print Assumptions C02_split_ok.

(* ---- (b) the history theorem ---- *)
Theorem C02_step_inv : forall (R : cring) (O : oracles R) (s : state R) (o : op R),
  Inv R s -> oracle_ok_at R O s o -> Inv R (step O s o).
Proof. exact step_inv. Qed.
Print Assumptions C02_step_inv.

Theorem C02_history_inv_partial : forall (R : cring) (O : oracles R) (ops : list (op R)) (s : state R),
  Inv R s -> oracles_ok R O ops s -> Inv R (run O ops s).
Proof. exact history_inv_partial. Qed.
Print Assumptions C02_history_inv_partial.

(* every reachable state: after every prefix of the history *)
Theorem C02_history_inv_every_prefix : forall (R : cring) (O : oracles R) (ops1 ops2 : list (op R)) (s : state R),
  Inv R s -> oracles_ok R O (ops1 ++ ops2) s -> Inv R (run O ops1 s).
Proof. exact history_inv_every_prefix. Qed.
Print Assumptions C02_history_inv_every_prefix.

(* histories of constructors, +, -, @, apply_operator, identity, from_opgraph: no hypothesis *)
Theorem C02_history_inv_ring : forall (R : cring) (O : oracles R) (ops : list (op R)) (s : state R),
  Forall (ring_op R) ops -> Inv R s -> Inv R (run O ops s).
Proof. exact history_inv_ring. Qed.
Print Assumptions C02_history_inv_ring.

Theorem C02_inv_b_spec : forall (R : cring) (s : state R), inv_b s = true <-> Inv R s.
Proof. exact Inv_b. Qed.
Print Assumptions C02_inv_b_spec.

(* ---- the oracle hypotheses that are theorems about executable models ---- *)
(* MPS.orthonormalize (both modes): result function = the model of C01; hypotheses = those of C01 (d >= 1, L >= 1, boundary
   bonds of dimension 1, no empty bond, LAPACK's QR contract with real diagonal of R on the calls issued) *)
Theorem C02_orth_step_contract : forall (F : ofield) (dqr : mx (Cx F) -> mx (Cx F) * mx (Cx F))
    (O : oracles (Cx F)) (s : state (Cx F)) (i : nat) (left : bool),
  or_orth O = orth_result F dqr ->
  (forall p, nth_error (states s) i = Some p ->
     orth_pre F p /\ Forall (qr_call_ok F dqr) (mps_orth_calls dqr left p)) ->
  oracle_ok_at (Cx F) O s (Orth i left).
Proof. exact orth_step_contract. Qed.
Print Assumptions C02_orth_step_contract.

Theorem C02_orth_mpo_step_contract : forall (F : ofield) (dqr : mx (Cx F) -> mx (Cx F) * mx (Cx F))
    (O : oracles (Cx F)) (s : state (Cx F)) (a : nat),
  or_orth_mpo O = orth_mpo_result F dqr ->
  (forall x, nth_error (operators s) a = Some x ->
     orth_mpo_pre F x /\ Forall (qr_call_ok F dqr) (mpo_orth_calls dqr true x)) ->
  oracle_ok_at (Cx F) O s (OrthMpo a true).
Proof. exact orth_mpo_step_contract. Qed.
Print Assumptions C02_orth_mpo_step_contract.

(* split_matrix_svd: C12's theorem about the model [block_svd] gives the contract for every non-zero valid input *)
Theorem C02_split_contract_from_C12 : forall (F : ofield) (dsvd : mx (Cx F) -> mx (Cx F) * list F * mx (Cx F))
    (pick : list F -> list nat) (tol : F) (A : mx (Cx F)) (q0 q1 : list Z),
  valid_in A q0 q1 = true -> is_zeromx A = false -> fle F (f0 F) tol -> flt F tol (f1 F) ->
  Forall (fun B => dsvd_ok F B (dsvd B)) (block_svd_calls A q0 q1) ->
  (let S := block_svd_spectrum F dsvd A q0 q1 in pick_ok F (normsq S) (pick (normsq S))) ->
  svd_ans_ok (Cx F) A q0 q1 (svd_result F dsvd pick tol A q0 q1).
Proof. exact split_contract_from_C12. Qed.
Print Assumptions C02_split_contract_from_C12.

(* ---- (c) boundary (total) bond charges ---- *)
(* sums copy both boundary charge lists from the first operand *)
Theorem C02_boundary_add : forall (R : cring) (alpha : R) (p q : mps R) (a b : mpo R),
  (length (m_qD p) = length (m_qD q) -> m_qD p <> [] ->
     hd [] (m_qD (add_mps alpha p q)) = hd [] (m_qD p) /\ last (m_qD (add_mps alpha p q)) [] = last (m_qD p) []) /\
  (length (o_qD a) = length (o_qD b) -> o_qD a <> [] ->
     hd [] (o_qD (add_mpo alpha a b)) = hd [] (o_qD a) /\ last (o_qD (add_mpo alpha a b)) [] = last (o_qD a) []).
Proof. intros R alpha p q a b. split; intros HL Hne; apply add_qD_boundary; assumption. Qed.
Print Assumptions C02_boundary_add.

(* products and applications take the outer sum of the operands' boundary charges (operator first) *)
Theorem C02_boundary_mul : forall (R : cring) (a b : mpo R) (p : mps R),
  (length (o_qD a) = length (o_qD b) ->
     hd [] (o_qD (multiply_mpo a b)) = qflat (hd [] (o_qD a)) (hd [] (o_qD b)) /\
     last (o_qD (multiply_mpo a b)) [] = qflat (last (o_qD a) []) (last (o_qD b) [])) /\
  (length (o_qD a) = length (m_qD p) ->
     hd [] (m_qD (apply_operator a p)) = qflat (hd [] (o_qD a)) (hd [] (m_qD p)) /\
     last (m_qD (apply_operator a p)) [] = qflat (last (o_qD a) []) (last (m_qD p) [])).
Proof. exact mul_boundary. Qed.
Print Assumptions C02_boundary_mul.

(* the two-site update (merge + split; building block of two-site TDVP / DMRG) rebinds one inner bond only *)
Theorem C02_split_merge_keeps_total : forall (R : cring) (O : oracles R) (s : state R) i k distr tag (p p' : mps R),
  nth_error (states s) i = Some p -> mps_ok p = true -> oracle_ok_at R O s (SplitMerge i k distr tag) ->
  step_opt O s (SplitMerge i k distr tag) <> None ->
  nth_error (states (step O s (SplitMerge i k distr tag))) i = Some p' ->
  mps_ok p' = true /\ m_qd p' = m_qd p /\ hd [] (m_qD p') = hd [] (m_qD p) /\ last (m_qD p') [] = last (m_qD p) [] /\
  length (m_A p') = length (m_A p).
Proof. exact split_merge_step_keeps_total. Qed.
Print Assumptions C02_split_merge_keeps_total.

(* a non-zero amplitude fixes the difference of the boundary charges: "the dummy-bond branch is reachable only for the
   zero state" is the contrapositive *)
Theorem C02_amp_charge : forall (R : cring) (p : mps R) (w : list nat),
  mps_ok p = true -> length (hd [] (m_qD p)) = 1 -> length (last (m_qD p) []) = 1 ->
  length w = length (m_A p) -> Forall (fun s => s < length (m_qd p)) w -> amp (m_A p) w <> k0 R ->
  (zget (hd [] (m_qD p)) 0 + wcharge (m_qd p) w = zget (last (m_qD p) []) 0)%Z.
Proof. exact amp_charge. Qed.
Print Assumptions C02_amp_charge.

(* total_charge_kept: the model of MPS.orthonormalize (both modes) returns both boundary charge lists of a non-zero state
   unchanged *)
Theorem C02_total_charge_kept_orth : forall (F : ofield) (dqr : mx (Cx F) -> mx (Cx F) * mx (Cx F))
    (left : bool) (p : mps (Cx F)) (w : list nat),
  mps_ok p = true -> orth_pre F p -> Forall (qr_call_ok F dqr) (mps_orth_calls dqr left p) ->
  length w = length (m_A p) -> Forall (fun s => s < length (m_qd p)) w -> amp (m_A p) w <> k0 (Cx F) ->
  exists p' nrm, mps_orthonormalize dqr left p = Some (p', nrm) /\ mps_ok p' = true /\ m_qd p' = m_qd p /\
    hd [] (m_qD p') = hd [] (m_qD p) /\ last (m_qD p') [] = last (m_qD p) [].
Proof. exact orth_total_charge_kept. Qed.
Print Assumptions C02_total_charge_kept_orth.
(* Not proved (checked on every real run by the plugin): the same for compress, TDVP and DMRG. *)

(* ---- non-vacuity: a pool over Z[i] with U(1) charges qd = [0;1] (L = 2, bond charges [0] [0;1] [1] and [0] [1] [1],
        an operator with bond charges [0] [0;1] [0]); the history
          states[2] = psi + (2-i) phi; ops[1] = W @ W; states[3] = ops[1] states[2]; states[0] = states[3] - states[2];
          ops[2] = identity; ops[1] = ops[1] + 3 ops[2]; states[1] = ops[1] states[0]
        runs without a failing assertion; the invariant is evaluated before and after; all states are non-zero; the bond
        dimensions reach 75; the total charges stay [0] and [1]; and a tensor with one misplaced entry is rejected ---- *)
Example C02_nonvacuous :
  inv_b ex_pool && negb (mps_ok ex_bad) && forallb (fun o => match o with AddMps _ _ _ _ | SubMps _ _ _ | AddMpo _ _ _ _
                                                     | MulMpo _ _ _ | Apply _ _ _ | Identity _ _ _ _ => true | _ => false end) ex_ops &&
  match run_opt (no_oracles GIring) ex_ops ex_pool with
  | Some s => inv_b s && state_eqb s (run (no_oracles GIring) ex_ops ex_pool) &&
              Nat.eqb (length (states s)) 4 && Nat.eqb (length (operators s)) 3 &&
              forallb mps_nonzero (states s) &&
              forallb (fun p => boundary_eqb (m_qD p) (m_qD ex_psi)) (states s) &&
              existsb (fun p => existsb (fun q => Nat.leb 75 (length q)) (m_qD p)) (states s)
  | None => false
  end = true.
Proof. vm_compute. reflexivity. Qed.

(* ======================================================================================================================
   ROUND 2 — oracle hypotheses of [C02_history_inv_partial] discharged by the finished developments C13, C01, C04/C14/C15.
   Proofs: Proofs/Hist2{Compress,Krylov,Local,Solvers,Sweep,Dmrg,Top}.v.

   Now theorems about executable models (no longer hypotheses "the result satisfies the invariant"):
     Compress (both modes)        [C02_compress_step_contract]       from C13_compress_left_spec / _right_spec
     OrthMpo (mode 'right')       [C02_orth_mpo_right_step_contract] from C01_mpo_orth_right_spec
     Tdvp / Dmrg, single-site     [C02_tdvp_step_contract_partial], [C02_dmrg_step_contract_partial]: the sweep models of
                                  Model/Sweeps.v keep every site tensor block sparse under the CURRENT qD after every local
                                  solver call + QR, and every environment block under (psi.qD, H.qD, psi.qD) -- relative to
                                  per-call contracts that are themselves theorems for the Krylov solvers whenever the call
                                  returns ([C02_lanczos_calls_meet_contracts], no contract on norm / eigh_tridiagonal / exp),
                                  for bond_ops.qr by C11 ([C02_qr_contract_from_C11]) and for the preliminary
                                  psi.orthonormalize(mode='right') by C01 ([C02_orth_right_model_facts]).
     total charge through compress [C02_total_charge_kept_compress]  for a state with a non-zero amplitude and L*tol < 1.
   What remains a hypothesis: the two-site variants of Tdvp / Dmrg (merge + split with truncation: C02_split_ok covers one
   split; the two-site sweep invariant is not written), that the operator is charge neutral with non-empty bonds
   (hd / last of H.qD = [0]; needed: otherwise apply_local_hamiltonian leaves the sector), that the Krylov calls return
   (start tensor not zero), and total charge through Tdvp / Dmrg (qD[0] is rebound only by DMRG's final QR; not stated).
   ====================================================================================================================== *)
From PT Require Import Model.Operation Model.Krylov Model.Sweeps.
From PT Require Import Proofs.LinkFlatten Proofs.LinkSolvers Proofs.CompressTop Proofs.CompressBool Proofs.OrthBool Proofs.CompressPartial.
From PT Require Import Proofs.Hist2Compress Proofs.Hist2Krylov Proofs.Hist2Local Proofs.Hist2Solvers Proofs.Hist2Sweep Proofs.Hist2Dmrg Proofs.Hist2Top.
From PT Require Import Proofs.Hist2Example.

(* ---- target 1: the Compress step (both modes) and OrthMpo (mode 'right') ---- *)
(* result function = the model of MPS.compress with tolerance tolf tag; hypotheses = those of C13 (d >= 1, L >= 1, boundary
   bonds 1, no empty bond; 0 <= tol < 1; LAPACK's QR contract on the preliminary orthonormalisation, dsvd_ok / pick_ok on the
   truncation steps, abs on the final T -- on the calls issued) *)
Theorem C02_compress_step_contract : forall (F : ofield) dqr dsvd pick cabs (tolf : nat -> F)
    (O : oracles (Cx F)) (s : state (Cx F)) (i tag : nat) (left : bool),
  or_compress O = compress_result F dqr dsvd pick cabs tolf ->
  (forall p, nth_error (states s) i = Some p -> orth_pre F p /\ compress_hyps F dqr dsvd pick cabs (tolf tag) left p) ->
  oracle_ok_at (Cx F) O s (Compress i tag left).
Proof. exact compress_step_contract. Qed.
Print Assumptions C02_compress_step_contract.

(* the compressed object: invariant and boundary bonds of dimension 1 (so that it is again a valid operand) *)
Theorem C02_compress_result_ok : forall (F : ofield) dqr dsvd pick cabs (tolf : nat -> F) (tag : nat) (left : bool) (p : mps (Cx F)),
  mps_ok p = true -> orth_pre F p -> compress_hyps F dqr dsvd pick cabs (tolf tag) left p ->
  mps_ok (compress_result F dqr dsvd pick cabs tolf tag left p) = true /\
  length (hd [] (m_qD (compress_result F dqr dsvd pick cabs tolf tag left p))) = 1 /\
  length (last (m_qD (compress_result F dqr dsvd pick cabs tolf tag left p)) []) = 1.
Proof. exact compress_result_ok. Qed.
Print Assumptions C02_compress_result_ok.

Theorem C02_orth_mpo_right_step_contract : forall (F : ofield) (dqr : mx (Cx F) -> mx (Cx F) * mx (Cx F))
    (O : oracles (Cx F)) (s : state (Cx F)) (a : nat),
  or_orth_mpo O = orth_mpo_result F dqr ->
  (forall x, nth_error (operators s) a = Some x ->
     orth_mpo_pre F x /\ Forall (qr_call_ok F dqr) (mpo_orth_calls dqr false x)) ->
  oracle_ok_at (Cx F) O s (OrthMpo a false).
Proof. exact orth_mpo_right_step_contract. Qed.
Print Assumptions C02_orth_mpo_right_step_contract.

(* ---- target 2: total charge through MPS.compress (both modes) ---- *)
Theorem C02_total_charge_kept_compress : forall (F : ofield) dqr dsvd pick cabs (tol : F) (left : bool) (p : mps (Cx F)) (w : list nat),
  mps_ok p = true -> orth_pre F p -> compress_hyps F dqr dsvd pick cabs tol left p ->
  length w = length (m_A p) -> Forall (fun s => s < length (m_qd p)) w -> amp (m_A p) w <> k0 (Cx F) ->
  flt F (nsmul (length (m_A p)) tol) (f1 F) ->
  exists p' nrm sc, mps_compress dqr dsvd pick cabs tol left p = Some (p', nrm, sc) /\ mps_ok p' = true /\ m_qd p' = m_qd p /\
    hd [] (m_qD p') = hd [] (m_qD p) /\ last (m_qD p') [] = last (m_qD p) [].
Proof. exact compress_total_charge_kept. Qed.
Print Assumptions C02_total_charge_kept_compress.

(* the same with the bare hypothesis "the returned scale is not zero" instead of L*tol < 1 *)
Theorem C02_total_charge_kept_compress_scale : forall (F : ofield) dqr dsvd pick cabs (tol : F) (left : bool) (p : mps (Cx F)) (w : list nat),
  mps_ok p = true -> orth_pre F p -> compress_hyps F dqr dsvd pick cabs tol left p ->
  length w = length (m_A p) -> Forall (fun s => s < length (m_qd p)) w -> amp (m_A p) w <> k0 (Cx F) ->
  (forall p' nrm sc, mps_compress dqr dsvd pick cabs tol left p = Some (p', nrm, sc) -> sc <> f0 F) ->
  exists p' nrm sc, mps_compress dqr dsvd pick cabs tol left p = Some (p', nrm, sc) /\ mps_ok p' = true /\ m_qd p' = m_qd p /\
    hd [] (m_qD p') = hd [] (m_qD p) /\ last (m_qD p') [] = last (m_qD p) [].
Proof. exact compress_total_charge_kept_sc. Qed.
Print Assumptions C02_total_charge_kept_compress_scale.

(* ---- target 3a: zero patterns through the Krylov routines.  Z = set of forbidden positions; supp F Z x: x vanishes on Z.
        If Afunc preserves "vanishes on Z" and the start vector vanishes on Z, then so do all Lanczos / Arnoldi vectors, all
        returned Ritz vectors and the result of expm_krylov (both branches) -- for arbitrary answers of the numerical
        primitives (no oracle contract). ---- *)
Theorem C02_krylov_preserves_pattern : forall (F : ofield) (Z : nat -> Prop) (Afunc : list (Cx F) -> list (Cx F)) dnorm small deigh dexp dexpm,
  (forall x, supp F Z x -> supp F Z (Afunc x)) ->
  forall v m, supp F Z v ->
  (forall al be Vs wn, lanczos F Afunc dnorm small v m = Some (al, be, Vs, wn) -> Forall (supp F Z) Vs) /\
  (forall H Vs wn, arnoldi F Afunc dnorm small v m = Some (H, Vs, wn) -> Forall (supp F Z) Vs) /\
  (forall numeig ws us, eigh_krylov F Afunc dnorm small deigh v m numeig = Some (ws, us) -> Forall (supp F Z) us) /\
  (forall dt herm x, expm_krylov F Afunc dnorm small deigh dexp dexpm v dt m herm = Some x -> supp F Z x).
Proof.
  intros F Z Afunc dnorm small deigh dexp dexpm HA v m Hv. split; [|split; [|split]].
  - intros al be Vs wn. exact (lanczos_supp F Z Afunc dnorm small HA v m al be Vs wn Hv).
  - intros H Vs wn. exact (arnoldi_supp F Z Afunc dnorm small HA v m H Vs wn Hv).
  - intros numeig ws us. exact (eigh_krylov_supp F Z Afunc dnorm small HA deigh v m numeig ws us Hv).
  - intros dt herm x. exact (expm_krylov_supp F Z Afunc dnorm small HA deigh dexp dexpm v dt m herm x Hv).
Qed.
Print Assumptions C02_krylov_preserves_pattern.

(* ---- target 3b: the contraction lemmas (style of C02_merge_ok).  env_okP qk qw qb E: the block has shape
        (|qk|, |qw|, |qb|) and E[a, w, b] <> 0 -> qk[a] + qw[w] = qb[b]; the code's assertion
        is_qsparse(BR[i], [psi.qD[i+1], H.qD[i+1], -psi.qD[i+1]]) is the second half with qk = qb. ---- *)
Theorem C02_env_assertion_meaning : forall (R : cring) qk qw qb (E : env R),
  env_qsparse qk qw (Sweeps.zneg qb) E = true <->
  forall w a b, w < length qw -> a < length qk -> b < length qb -> get (esel E w) a b <> k0 R ->
    (zget qk a + zget qw w = zget qb b)%Z.
Proof. exact env_qsparse_spec. Qed.
Print Assumptions C02_env_assertion_meaning.

Theorem C02_local_contractions_ok : forall (R : cring) qd qwl qwr (W : osite R),
  0 < length qd -> 0 < length qwl -> 0 < length qwr -> osite_okP R qd qwl qwr W ->
  (* contraction_operator_step_right / _left *)
  (forall qal qar qbl qbr (A B : site R) (E : env R),
     site_okP R qd qal qar A -> site_okP R qd qbl qbr B -> env_okP R qar qwr qbr E ->
     env_okP R qal qwl qbl (contraction_operator_step_right A B W E)) /\
  (forall qal qar qbl qbr (A B : site R) (L : env R),
     site_okP R qd qal qar A -> site_okP R qd qbl qbr B -> env_okP R qal qwl qbl L ->
     env_okP R qar qwr qbr (contraction_operator_step_left A B W L)) /\
  (* apply_local_hamiltonian *)
  (forall ql qr (L E : env R) (X : site R),
     env_okP R ql qwl ql L -> env_okP R qr qwr qr E -> site_okP R qd ql qr X ->
     site_okP R qd ql qr (apply_local_hamiltonian L E W X)).
Proof.
  intros R qd qwl qwr W Hd Hwl Hwr HW. split; [|split].
  - intros qal qar qbl qbr A B E. exact (opstep_right_okP R qd qwl qwr W Hd Hwl Hwr HW qal qar qbl qbr A B E).
  - intros qal qar qbl qbr A B L. exact (opstep_left_okP R qd qwl qwr W Hd Hwl Hwr HW qal qar qbl qbr A B L).
  - intros ql qr L E X. exact (alh_okP R qd qwl qwr W Hd Hwl Hwr HW ql qr L E X).
Qed.
Print Assumptions C02_local_contractions_ok.

(* apply_local_bond_contraction on a bond matrix (C[a, b] <> 0 -> ql[a] = qr[b]) *)
Theorem C02_bond_contraction_ok : forall (R : cring) qw ql qr (L E : env R) (C : mx R), 0 < length qw ->
  env_okP R ql qw ql L -> env_okP R qr qw qr E -> bond_okP R ql qr C -> bond_okP R ql qr (apply_local_bond_contraction L E C).
Proof. exact albc_okP. Qed.
Print Assumptions C02_bond_contraction_ok.

(* ---- target 3c: the concrete local solvers (Proofs/LinkSolvers.v) keep block sparsity whenever the call returns ---- *)
Theorem C02_local_solvers_sparse : forall (F : ofield) dnorm small deigh dexp dexpm numiter qd qwl qwr ql qr
    (BL BR : env (Cx F)) (W : osite (Cx F)),
  0 < length qd -> 0 < length qwl -> 0 < length qwr -> osite_okP (Cx F) qd qwl qwr W ->
  env_okP (Cx F) ql qwl ql BL -> env_okP (Cx F) qr qwr qr BR ->
  (forall pos A t, site_okP (Cx F) qd ql qr A -> kexp_lanczos_returns F dnorm small deigh dexp dexpm numiter BL BR W A t ->
     site_okP (Cx F) qd ql qr (kexp_lanczos F dnorm small deigh dexp dexpm numiter pos BL BR W A t)) /\
  (forall pos A, site_okP (Cx F) qd ql qr A -> keig_lanczos_returns F dnorm small deigh numiter BL BR W A ->
     site_okP (Cx F) qd ql qr (snd (keig_lanczos F dnorm small deigh numiter pos BL BR W A))).
Proof.
  intros F dnorm small deigh dexp dexpm numiter qd qwl qwr ql qr BL BR W Hd Hwl Hwr HW HL HR. split.
  - intros pos A t. exact (kexp_lanczos_okP F dnorm small deigh dexp dexpm numiter qd qwl qwr ql qr BL BR W Hd Hwl Hwr HW HL HR pos A t).
  - intros pos A. exact (keig_lanczos_okP F dnorm small deigh numiter qd qwl qwr ql qr BL BR W Hd Hwl Hwr HW HL HR pos A).
Qed.
Print Assumptions C02_local_solvers_sparse.

Theorem C02_bond_solver_sparse : forall (F : ofield) dnorm small deigh dexp dexpm numiter qw ql qr pos
    (BL BR : env (Cx F)) (C : mx (Cx F)) (t : Cx F), 0 < length qw ->
  env_okP (Cx F) ql qw ql BL -> env_okP (Cx F) qr qw qr BR -> wfb C = true -> bond_okP (Cx F) ql qr C ->
  kexp0_lanczos_returns F dnorm small deigh dexp dexpm numiter BL BR C t ->
  bond_okP (Cx F) ql qr (kexp0_lanczos F dnorm small deigh dexp dexpm numiter pos BL BR C t).
Proof. exact kexp0_lanczos_okP. Qed.
Print Assumptions C02_bond_solver_sparse.

(* ---- target 3d: whole single-site runs.  [sp_tr_ok]: every recorded call meets its sparsity contract (solver answer block
        sparse under the charges of its start tensor if the arguments are; QR factors block sparse under the returned charges,
        which are non-empty and not longer than the matrix is wide). ---- *)
Theorem C02_tdvp1_run_sparse : forall (R : cring) orth qr kexp kexp0 (H : mpo R) (psi : mps R) dt hdt n A qD nrm tr,
  tdvp_singlesite orth qr kexp kexp0 H psi dt hdt n = Some (A, qD, nrm, tr) ->
  mpo_ok H = true -> o_qd H = m_qd psi -> Forall (fun q => 0 < length q) (o_qD H) ->
  hd [] (o_qD H) = [0%Z] -> last (o_qD H) [] = [0%Z] ->
  0 < length (m_qd psi) -> m_qd (fst (orth psi)) = m_qd psi -> mps_ok (fst (orth psi)) = true ->
  length (hd [] (m_qD (fst (orth psi)))) = 1 -> length (last (m_qD (fst (orth psi))) []) = 1 ->
  sp_tr_ok R qr kexp kexp0 (fun _ _ _ _ _ => (k0 R, [])) (o_A H) (m_qd psi) (o_qD H) dt hdt (rev tr) ->
  mps_ok (mkmps (m_qd psi) qD A) = true /\ nrm = snd (orth psi).
Proof. exact tdvp1_mps_ok. Qed.
Print Assumptions C02_tdvp1_run_sparse.

Theorem C02_dmrg1_run_sparse : forall (R : cring) orth qr keig (H : mpo R) (psi : mps R) n A qD ens tr,
  dmrg_singlesite orth qr keig H psi n = Some (A, qD, ens, tr) ->
  mpo_ok H = true -> o_qd H = m_qd psi -> Forall (fun q => 0 < length q) (o_qD H) ->
  hd [] (o_qD H) = [0%Z] -> last (o_qD H) [] = [0%Z] ->
  0 < length (m_qd psi) -> m_qd (fst (orth psi)) = m_qd psi -> mps_ok (fst (orth psi)) = true ->
  length (hd [] (m_qD (fst (orth psi)))) = 1 -> length (last (m_qD (fst (orth psi))) []) = 1 ->
  sp_tr_ok R qr (fun _ _ _ _ X _ => X) (fun _ _ _ C _ => C) keig (o_A H) (m_qd psi) (o_qD H) (k0 R) (k0 R) (rev tr) ->
  mps_ok (mkmps (m_qd psi) qD A) = true.
Proof. exact dmrg1_mps_ok. Qed.
Print Assumptions C02_dmrg1_run_sparse.

(* the prologue: the right operator blocks of a block-sparse state and operator are block sparse, i.e. the assertion
   is_qsparse(BR[i], ...) of the four sweep functions cannot fire, and the sweep invariant holds with centre 0 *)
Theorem C02_sweep_prologue_sparse : forall (R : cring) (qd : list Z), 0 < length qd ->
  forall (Hs : list (osite R)) (qWs : list (list Z)) orth (H : mpo R) psi st nrm,
  chainP (osite_okP R qd) qWs Hs -> (forall j, j <= length Hs -> 0 < length (nth j qWs [])) -> nth 0 qWs [] = [0%Z] ->
  sweep_init orth H psi = Some (st, nrm) ->
  o_A H = Hs -> o_qD H = qWs -> last qWs [] = [0%Z] ->
  m_qd (fst (orth psi)) = qd -> mps_ok (fst (orth psi)) = true ->
  length (hd [] (m_qD (fst (orth psi)))) = 1 -> length (last (m_qD (fst (orth psi))) []) = 1 ->
  ZQ R Hs qd qWs st 0 /\ gBL st 0 = env_one /\ s_tr st = [] /\ nrm = snd (orth psi).
Proof. exact ZQ_init. Qed.
Print Assumptions C02_sweep_prologue_sparse.

(* the per-call contracts are theorems for the Krylov-based solvers: what remains is "the solver call returns" and C11's
   conclusion for the QR calls *)
Theorem C02_lanczos_calls_meet_contracts : forall (F : ofield) dnorm small deigh dexp dexpm numiter qr
    (Hs : list (osite (Cx F))) qd qWs (dt hdt : Cx F),
  0 < length qd -> chainP (osite_okP (Cx F) qd) qWs Hs -> (forall j, j <= length Hs -> 0 < length (nth j qWs [])) ->
  forall tr, lz_tr_ok F dnorm small deigh dexp dexpm numiter qr Hs dt hdt tr ->
  sp_tr_ok (Cx F) qr (kexp_lanczos F dnorm small deigh dexp dexpm numiter) (kexp0_lanczos F dnorm small deigh dexp dexpm numiter)
           (keig_lanczos F dnorm small deigh numiter) Hs qd qWs dt hdt tr.
Proof. exact lz_tr_sp. Qed.
Print Assumptions C02_lanczos_calls_meet_contracts.

Theorem C02_qr_contract_from_C11 : forall (R : cring) (M Q Rm : mx R) (q0 q1 qi : list Z),
  bond_okP R q0 q1 M ->
  wf Rm -> nr Q = nr M -> nc Q = length qi -> nr Rm = length qi -> nc Rm = nc M -> 0 < length qi -> length qi <= Nat.min (nr M) (nc M) ->
  BondOpsLoop.qsp R Q q0 qi -> BondOpsLoop.qsp R Rm qi q1 -> wfb Rm = true ->
  qr_sp_ok R M q0 q1 (Q, Rm, qi).
Proof. exact qr_sp_of_C11. Qed.
Print Assumptions C02_qr_contract_from_C11.

Theorem C02_orth_right_model_facts : forall (F : ofield) dqr (p : mps (Cx F)),
  mps_ok p = true -> orth_pre F p -> Forall (qr_call_ok F dqr) (mps_orth_calls dqr false p) ->
  m_qd (fst (orth_right_model F dqr p)) = m_qd p /\ mps_ok (fst (orth_right_model F dqr p)) = true /\
  length (hd [] (m_qD (fst (orth_right_model F dqr p)))) = 1 /\ length (last (m_qD (fst (orth_right_model F dqr p))) []) = 1.
Proof. exact orth_right_model_facts. Qed.
Print Assumptions C02_orth_right_model_facts.

(* the Tdvp / Dmrg steps (single-site, twosite = false) of the state machine, result function = the sweep model *)
Theorem C02_tdvp_step_contract_partial : forall (R : cring) orth qr kexp kexp0 (tdvp_par : nat -> R * R * nat)
    (O : oracles R) (s : state R) (a i tag : nat),
  or_tdvp O false = tdvp1_result R orth qr kexp kexp0 tdvp_par ->
  (forall x p, nth_error (operators s) a = Some x -> nth_error (states s) i = Some p ->
     sweep_pre R orth x p /\ tdvp1_calls_ok R orth qr kexp kexp0 tdvp_par tag x p) ->
  oracle_ok_at R O s (Tdvp false a i tag).
Proof. exact tdvp1_step_contract. Qed.
Print Assumptions C02_tdvp_step_contract_partial.

Theorem C02_dmrg_step_contract_partial : forall (R : cring) orth qr keig (dmrg_par : nat -> nat)
    (O : oracles R) (s : state R) (a i tag : nat),
  or_dmrg O false = dmrg1_result R orth qr keig dmrg_par ->
  (forall x p, nth_error (operators s) a = Some x -> nth_error (states s) i = Some p ->
     sweep_pre R orth x p /\ dmrg1_calls_ok R orth qr keig dmrg_par tag x p) ->
  oracle_ok_at R O s (Dmrg false a i tag).
Proof. exact dmrg1_step_contract. Qed.
Print Assumptions C02_dmrg_step_contract_partial.
(* NOT PROVED (full statements):
     C02_tdvp_step_contract / C02_dmrg_step_contract for twosite = true:
       forall ..., or_tdvp O true = (result of Model/Sweeps.v tdvp_twosite) -> (split contract of C12 on every issued
       split_mps_tensor call, solver calls return) -> oracle_ok_at R O s (Tdvp true a i tag)          (and Dmrg true);
     total_charge_kept for Tdvp / Dmrg: hd and last of the returned qD equal those of psi for a non-zero state. *)

(* ---- non-vacuity, round 2 ----
   (1) the charged product state ex2_p (qd = [0;1], bond charges [0] [0] [1], total charge 1, amplitude 12 on the word (0,1))
       meets every hypothesis of C02_compress_step_contract / C02_total_charge_kept_compress in BOTH modes with tol = 1/10
       (L*tol = 1/5 < 1), and the model returns a state satisfying the invariant with unchanged boundary charges;
   (2) a one-site TDVP run over Z[i] (identity operator with bond charges [0] [0]) returns, and its recorded call meets the
       contract [sp_tr_ok]; all hypotheses of C02_tdvp1_run_sparse hold. *)
Example C02_compress_nonvacuous : forall left : bool,
  mps_ok ex2_p = true /\ orth_pre QcF ex2_p /\
  compress_hyps QcF (qr_oracle ex2_qtbl) (svd_oracle ex2_stbl) ex2_pick ex2_abs ex2_tol left ex2_p /\
  length ex2_word = length (m_A ex2_p) /\ Forall (fun s => s < length (m_qd ex2_p)) ex2_word /\
  amp (m_A ex2_p) ex2_word <> k0 (Cx QcF) /\
  flt QcF (nsmul (length (m_A ex2_p)) ex2_tol) (f1 QcF) /\
  match mps_compress (qr_oracle ex2_qtbl) (svd_oracle ex2_stbl) ex2_pick ex2_abs ex2_tol left ex2_p with
  | Some (p', nrm, sc) => mps_ok p' && boundary_eq2 p' ex2_p && feqb QcF nrm (qq2 12 1) && feqb QcF sc (qq2 1 1)
  | None => false end = true.
Proof.
  intros left. split; [vm_compute; reflexivity|].
  split. { split; [cbn; lia|]. split; [discriminate|]. split; [reflexivity|]. split; [reflexivity|]. repeat constructor. }
  split.
  { split; [vm_compute; reflexivity|]. split; [vm_compute; reflexivity|].
    split; [apply qr_call_okb_sound; destruct left; vm_compute; reflexivity|].
    split; [apply (compress_hyp_of_bool QcF (qr_oracle ex2_qtbl) (svd_oracle ex2_stbl) ex2_pick ex2_tol left ex2_p); destruct left; vm_compute; reflexivity|].
    apply (abs_hyp_of_bool QcF (qr_oracle ex2_qtbl) (svd_oracle ex2_stbl) ex2_pick ex2_abs ex2_tol left ex2_p); destruct left; vm_compute; reflexivity. }
  split; [reflexivity|]. split; [repeat constructor|].
  split. { intros E. apply (f_equal (fun z => keqb (Cx QcF) z (k0 (Cx QcF)))) in E. vm_compute in E. discriminate E. }
  split; [vm_compute; reflexivity|]. destruct left; vm_compute; reflexivity.
Qed.

Example C02_tdvp1_nonvacuous :
  match tdvp_singlesite ex2_orth ex2_qr ex2_kexp ex2_kexp0 ex2_H ex2_psi ((0, 1)%Z : GIring) ((0, 1)%Z : GIring) 2 with
  | Some (A, qD, nrm, tr) =>
      length tr = 2 /\ mps_ok (mkmps (m_qd ex2_psi) qD A) = true /\
      sp_tr_ok GIring ex2_qr ex2_kexp ex2_kexp0 (fun _ _ _ _ _ => (k0 GIring, [])) (o_A ex2_H) (m_qd ex2_psi) (o_qD ex2_H)
               ((0, 1)%Z : GIring) ((0, 1)%Z : GIring) (rev tr)
  | None => False end /\
  mpo_ok ex2_H = true /\ o_qd ex2_H = m_qd ex2_psi /\ Forall (fun q => 0 < length q) (o_qD ex2_H) /\
  hd [] (o_qD ex2_H) = [0%Z] /\ last (o_qD ex2_H) [] = [0%Z] /\ mps_ok (fst (ex2_orth ex2_psi)) = true.
Proof.
  split.
  - vm_compute tdvp_singlesite. split; [reflexivity|]. split; [vm_compute; reflexivity|].
    cbn [rev app sp_tr_ok]. split; [|split; [|exact I]]; unfold sp_call_ok; cbn [t_call c_kind c_site c_coef t_envs t_ten t_qs];
      intros ql qr' HA _ _; exact HA.
  - split; [vm_compute; reflexivity|]. split; [reflexivity|]. split; [repeat constructor|]. split; [reflexivity|].
    split; [reflexivity|]. vm_compute; reflexivity.
Qed.

(* ======================================================================================================================
   ROUND 3 — two-site TDVP / DMRG and the total charge through all four sweep functions.
   Proofs: Proofs/Hist3{Sweep2,Top,Charge,Example}.v.

   (1) Whole runs of the two-site mirrors (Model/Sweeps.v tdvp_twosite, dmrg_twosite; any number of steps / sweeps, L >= 2 for
       TDVP as asserted by the code, L >= 1 for DMRG) keep [mps_ok] and every environment block sparse
       ([C02_tdvp2_run_sparse], [C02_dmrg2_run_sparse]) relative to the per-call contracts [sp2_tr_ok]:
         KH2 / EIG2    the solver answer on the merged pair is block sparse under (flatten(qd, qd), qD[i], qD[i+2]) if its
                       arguments are -- a THEOREM for the Krylov solvers whenever the call returns
                       ([C02_lanczos2_calls_meet_contracts]; merged MPO tensor: [C02_merge_mpo_ok])
         SPLITL/R      split_mps_tensor returns factors that are block sparse under the returned bond charges -- C12's
                       conclusion; for the model of C03/C12 it follows from [svd_ans_ok] ([C02_split_contract_for_sweeps])
         QR            C11's conclusion (final QR of each DMRG sweep), KH / EIG / KB as in round 2.
       The History steps with twosite = true: [C02_tdvp_step_contract], [C02_dmrg_step_contract]; and the final form of the
       history theorem [C02_history_inv]: every result function of the state machine is its executable model and the only
       hypotheses are contracts of the numerical primitives on the calls actually issued + "solver calls return" + the
       operand conditions [sweep_pre] (operator charge neutral with non-empty bonds).
   (2) Total charge: [C02_total_charge_kept_tdvp] (both integrators; NO hypothesis on solver / QR / split calls: the sweeps
       rebind inner bonds only), [C02_total_charge_kept_dmrg] (both functions; the closing QR of a sweep rebinds qD[0], which
       is kept because the centre tensor has norm one: contracts of C02 and of C10 on the issued calls; every L >= 1).
   What remains a hypothesis: see [C02_history_inv]; for the DMRG charge theorem the C10 operand conditions (uniform shapes,
   right-canonical after the preliminary orthonormalisation: C01) and C10's exact-split contract (tol = 0).
   ====================================================================================================================== *)
From PT Require Import Proofs.SweepsGauge Proofs.SweepsRun Proofs.Sweeps2Run Proofs.OperationUniform Proofs.SweepsCanon.
From PT Require Import Proofs.Hist3Sweep2 Proofs.Hist3Top Proofs.Hist3Charge Proofs.Hist3Example.

(* ---- the merged MPO tensor of a two-site local problem (merge_mpo_tensor_pair), in the style of C02_merge_ok ---- *)
Theorem C02_merge_mpo_ok : forall (R : cring) qd0 qd1 ql qm qr (W0 W1 : osite R), 0 < length qd1 ->
  osite_okP R qd0 ql qm W0 -> osite_okP R qd1 qm qr W1 ->
  osite_okP R (Sweeps.qflat qd0 qd1) ql qr (c04_merge_osite W0 W1).
Proof. exact merge_osite_okP. Qed.
Print Assumptions C02_merge_mpo_ok.

(* ---- target 1: whole two-site runs ---- *)
Theorem C02_tdvp2_run_sparse : forall (R : cring) orth split kexp (H : mpo R) (psi : mps R) dt hdt n A qD nrm tr,
  tdvp_twosite orth split kexp H psi dt hdt n = Some (A, qD, nrm, tr) ->
  mpo_ok H = true -> o_qd H = m_qd psi -> Forall (fun q => 0 < length q) (o_qD H) ->
  hd [] (o_qD H) = [0%Z] -> last (o_qD H) [] = [0%Z] ->
  0 < length (m_qd psi) -> m_qd (fst (orth psi)) = m_qd psi -> mps_ok (fst (orth psi)) = true ->
  length (hd [] (m_qD (fst (orth psi)))) = 1 -> length (last (m_qD (fst (orth psi))) []) = 1 ->
  sp2_tr_ok R (no_qr R) split kexp (no_kexp0 R) (no_keig R) (o_A H) (m_qd psi) (o_qD H) dt hdt (rev tr) ->
  mps_ok (mkmps (m_qd psi) qD A) = true /\ nrm = snd (orth psi) /\ 2 <= length (o_A H).
Proof. exact tdvp2_mps_ok. Qed.
Print Assumptions C02_tdvp2_run_sparse.

Theorem C02_dmrg2_run_sparse : forall (R : cring) orth qr split keig (H : mpo R) (psi : mps R) n A qD ens tr,
  dmrg_twosite orth qr split keig H psi n = Some (A, qD, ens, tr) ->
  mpo_ok H = true -> o_qd H = m_qd psi -> Forall (fun q => 0 < length q) (o_qD H) ->
  hd [] (o_qD H) = [0%Z] -> last (o_qD H) [] = [0%Z] ->
  0 < length (m_qd psi) -> m_qd (fst (orth psi)) = m_qd psi -> mps_ok (fst (orth psi)) = true ->
  length (hd [] (m_qD (fst (orth psi)))) = 1 -> length (last (m_qD (fst (orth psi))) []) = 1 ->
  sp2_tr_ok R qr split (no_kexp R) (no_kexp0 R) keig (o_A H) (m_qd psi) (o_qD H) (k0 R) (k0 R) (rev tr) ->
  mps_ok (mkmps (m_qd psi) qD A) = true.
Proof. exact dmrg2_mps_ok. Qed.
Print Assumptions C02_dmrg2_run_sparse.

(* the sweep invariant behind both: after every loop body all site tensors are block sparse under the CURRENT qD and the
   environment blocks BL[0..i], BR[i..L-1] under (psi.qD[j], H.qD[j], psi.qD[j]); one time step / one sweep *)
Theorem C02_twosite_sweep_invariant : forall (R : cring) qr split kexp kexp0 keig (Hs : list (osite R)) qd qWs (dt hdt : R),
  0 < length qd -> chainP (osite_okP R qd) qWs Hs -> (forall j, j <= length Hs -> 0 < length (nth j qWs [])) -> nth 0 qWs [] = [0%Z] ->
  (forall st, 2 <= length Hs -> ZQ R Hs qd qWs st 0 ->
     sp2_tr_ok R qr split kexp kexp0 keig Hs qd qWs dt hdt (s_tr (tdvp2_step split kexp Hs qd dt hdt (length Hs) st)) ->
     ZQ R Hs qd qWs (tdvp2_step split kexp Hs qd dt hdt (length Hs) st) 0) /\
  (forall st, 1 <= length Hs -> ZQ R Hs qd qWs st 0 -> gBL st 0 = env_one ->
     sp2_tr_ok R qr split kexp kexp0 keig Hs qd qWs dt hdt (s_tr (fst (dmrg2_sweep qr split keig Hs qd (length Hs) st))) ->
     ZQ R Hs qd qWs (fst (dmrg2_sweep qr split keig Hs qd (length Hs) st)) 0 /\
     gBL (fst (dmrg2_sweep qr split keig Hs qd (length Hs) st)) 0 = env_one).
Proof.
  intros R qr split kexp kexp0 keig Hs qd qWs dt hdt Hd HWs HWpos HW0. split.
  - exact (tdvp2_step_sp R qr split kexp kexp0 keig Hs qd qWs dt hdt Hd HWs HWpos).
  - exact (dmrg2_sweep_sp R qr split kexp kexp0 keig Hs qd qWs dt hdt Hd HWs HWpos HW0).
Qed.
Print Assumptions C02_twosite_sweep_invariant.

(* the per-call contracts are theorems for the Krylov-based solvers on the merged pair: what remains is "the solver call
   returns", C12's conclusion for the split calls and C11's for the QR calls *)
Theorem C02_lanczos2_calls_meet_contracts : forall (F : ofield) dnorm small deigh dexp dexpm numiter qr split
    (Hs : list (osite (Cx F))) qd qWs (dt hdt : Cx F),
  0 < length qd -> chainP (osite_okP (Cx F) qd) qWs Hs -> (forall j, j <= length Hs -> 0 < length (nth j qWs [])) ->
  forall tr, lz2_tr_ok F dnorm small deigh dexp dexpm numiter qr split Hs dt hdt tr ->
  sp2_tr_ok (Cx F) qr split (kexp_lanczos F dnorm small deigh dexp dexpm numiter) (kexp0_lanczos F dnorm small deigh dexp dexpm numiter)
            (keig_lanczos F dnorm small deigh numiter) Hs qd qWs dt hdt tr.
Proof. exact lz2_tr_sp. Qed.
Print Assumptions C02_lanczos2_calls_meet_contracts.

(* split_mps_tensor = the model of C03 / C12 around split_matrix_svd: C12's conclusion [svd_ans_ok] for the one SVD call
   (a theorem for non-zero valid input: C02_split_contract_from_C12) gives the split contract of the sweeps *)
Theorem C02_split_contract_for_sweeps : forall (R : cring) svd ksqrt (Am : site R) q0 q1 q2 q3 distr, 0 < length q0 * length q1 ->
  (site_okP R (Sweeps.qflat q0 q1) q2 q3 Am ->
   svd_ans_ok R (split_matrix (length q0) (length q1) Am) (MPSOps.qflat q0 q2) (MPSOps.qflat (map Z.opp q1) q3)
     (svd (split_matrix (length q0) (length q1) Am) (MPSOps.qflat q0 q2) (MPSOps.qflat (map Z.opp q1) q3))) ->
  site_okP R (Sweeps.qflat q0 q1) q2 q3 Am -> split_sp_ok R q0 q1 q2 q3 (split_mps_tensor svd ksqrt Am q0 q1 q2 q3 distr).
Proof. exact split_sp_of_C12. Qed.
Print Assumptions C02_split_contract_for_sweeps.

(* the Tdvp / Dmrg steps with twosite = true of the state machine, result function = the sweep model *)
Theorem C02_tdvp_step_contract : forall (R : cring) orth split kexp (tdvp_par : nat -> R * R * nat)
    (O : oracles R) (s : state R) (a i tag : nat),
  or_tdvp O true = tdvp2_result R orth split kexp tdvp_par ->
  (forall x p, nth_error (operators s) a = Some x -> nth_error (states s) i = Some p ->
     sweep_pre R orth x p /\ tdvp2_calls_ok R orth split kexp tdvp_par tag x p) ->
  oracle_ok_at R O s (Tdvp true a i tag).
Proof. exact tdvp2_step_contract. Qed.
Print Assumptions C02_tdvp_step_contract.

Theorem C02_dmrg_step_contract : forall (R : cring) orth qr split keig (dmrg_par : nat -> nat)
    (O : oracles R) (s : state R) (a i tag : nat),
  or_dmrg O true = dmrg2_result R orth qr split keig dmrg_par ->
  (forall x p, nth_error (operators s) a = Some x -> nth_error (states s) i = Some p ->
     sweep_pre R orth x p /\ dmrg2_calls_ok R orth qr split keig dmrg_par tag x p) ->
  oracle_ok_at R O s (Dmrg true a i tag).
Proof. exact dmrg2_step_contract. Qed.
Print Assumptions C02_dmrg_step_contract.

(* ---- the history theorem, final form.  [model_oracles]: orthonormalize (MPS, MPO), compress and the four sweep functions
        are their executable models.  [contracts_ok]: along the history, for each operation,
          ring operations           nothing
          from_vector               the tensors returned by the TT-SVD loop chain up (shapes)
          merge + split             C12's conclusion for the one split_matrix_svd call ([C02_split_contract_from_C12])
          orthonormalize (MPS/MPO)  C01's operand conditions, LAPACK's QR contract on the calls issued
          compress                  the same + dsvd_ok / pick_ok / abs on the calls issued, 0 <= tol < 1
          TDVP / DMRG (1- and 2-site) [sweep_pre] (operator charge neutral with non-empty bonds; the facts of C01 about the
                                    preliminary orthonormalisation) and the per-call contracts of the emitted trace, which for
                                    the Krylov solvers reduce to "the call returns" ([C02_lanczos_calls_meet_contracts],
                                    [C02_lanczos2_calls_meet_contracts]), for bond_ops.qr to C11 and for split to C12.
        No hypothesis of the form "the result is block sparse" is left. ---- *)
Theorem C02_history_inv : forall (F : ofield) dqr dsvd pick cabs (tolf : nat -> F) orth qr split kexp kexp0 keig
    (tdvp_par : nat -> Cx F * Cx F * nat) (dmrg_par : nat -> nat) (O : oracles (Cx F)),
  model_oracles F dqr dsvd pick cabs tolf orth qr split kexp kexp0 keig tdvp_par dmrg_par O ->
  forall (ops : list (op (Cx F))) (s : state (Cx F)),
    Inv (Cx F) s -> contracts_ok F dqr dsvd pick cabs tolf orth qr split kexp kexp0 keig tdvp_par dmrg_par O ops s ->
    Inv (Cx F) (run O ops s).
Proof. exact history_inv_contracts. Qed.
Print Assumptions C02_history_inv.

(* ---- target 2: total charge through the sweeps ---- *)
(* both TDVP integrators: for a state with a non-zero amplitude the returned qD[0] and qD[L] are the input's, whatever the
   local solvers, QR and split calls return (hypotheses: those of C02_total_charge_kept_orth for the preliminary
   psi.orthonormalize(mode='right')) *)
Theorem C02_total_charge_kept_tdvp : forall (F : ofield) (dqr : mx (Cx F) -> mx (Cx F) * mx (Cx F)) (psi : mps (Cx F)) (w : list nat),
  mps_ok psi = true -> orth_pre F psi -> Forall (qr_call_ok F dqr) (mps_orth_calls dqr false psi) ->
  length w = length (m_A psi) -> Forall (fun s => s < length (m_qd psi)) w -> amp (m_A psi) w <> k0 (Cx F) ->
  (forall qr kexp kexp0 H dt hdt n A qD nrm tr,
     tdvp_singlesite (orth_right_model F dqr) qr kexp kexp0 H psi dt hdt n = Some (A, qD, nrm, tr) ->
     hd [] qD = hd [] (m_qD psi) /\ last qD [] = last (m_qD psi) []) /\
  (forall split kexp H dt hdt n A qD nrm tr,
     tdvp_twosite (orth_right_model F dqr) split kexp H psi dt hdt n = Some (A, qD, nrm, tr) ->
     hd [] qD = hd [] (m_qD psi) /\ last qD [] = last (m_qD psi) []).
Proof. exact tdvp_total_charge_kept. Qed.
Print Assumptions C02_total_charge_kept_tdvp.

(* the bookkeeping fact behind it, for arbitrary oracles: the sweeps return the boundary lists of the orthonormalised state *)
Theorem C02_tdvp_boundary : forall (R : cring) orth (H : mpo R) psi dt hdt n A qD nrm tr,
  mps_ok (fst (orth psi)) = true ->
  (forall qr kexp kexp0, tdvp_singlesite orth qr kexp kexp0 H psi dt hdt n = Some (A, qD, nrm, tr) ->
     hd [] qD = hd [] (m_qD (fst (orth psi))) /\ last qD [] = last (m_qD (fst (orth psi))) []) /\
  (forall split kexp, tdvp_twosite orth split kexp H psi dt hdt n = Some (A, qD, nrm, tr) ->
     hd [] qD = hd [] (m_qD (fst (orth psi))) /\ last qD [] = last (m_qD (fst (orth psi))) []).
Proof.
  intros R orth H psi dt hdt n A qD nrm tr Hok. split.
  - intros qr kexp kexp0 Hrun. exact (tdvp1_boundary R orth qr kexp kexp0 H psi dt hdt n A qD nrm tr Hrun Hok).
  - intros split kexp Hrun. exact (tdvp2_boundary R orth split kexp H psi dt hdt n A qD nrm tr Hrun Hok).
Qed.
Print Assumptions C02_tdvp_boundary.

(* DMRG's closing QR of site 0 keeps psi.qD[0]: the centre tensor has norm one (invariant Z of C10 with N = 1), so R of
   A[0]^T = Q R is a non-zero 1 x 1 matrix that is block sparse under (qbond, -qD[0]) *)
Theorem C02_final_qr_keeps_charge : forall (F : ofield) qr (Hs : list (osite (Cx F))) qd qWs d DsW,
  0 < length qd -> (forall j, j <= length Hs -> 0 < length (nth j qWs [])) ->
  0 < d -> OperationChains.ochain_ok (repeat d (length Hs)) DsW Hs -> hd 0 DsW = 1 ->
  forall st : sw (Cx F),
  ZQ (Cx F) Hs qd qWs st 0 -> gBL st 0 = env_one -> SweepsInv.Z (Cx F) Hs d st 0 -> SweepsInv.NN (Cx F) Hs d (s_A st) = k1 (Cx F) ->
  1 <= length Hs ->
  (let M := site_flat (site_tr (gA st 0)) in let q0 := Sweeps.qflat qd (Sweeps.zneg (gq st 1)) in let q1 := Sweeps.zneg (gq st 0) in
   (bond_okP (Cx F) q0 q1 M -> qr_sp_ok (Cx F) M q0 q1 (qr (length (s_tr st)) M q0 q1)) /\ qr_ok M (qr (length (s_tr st)) M q0 q1)) ->
  length (s_qD (dmrg_final_qr qr qd st)) = length (s_qD st) /\ gq (dmrg_final_qr qr qd st) 0 = gq st 0 /\
  gq (dmrg_final_qr qr qd st) (length Hs) = gq st (length Hs).
Proof. exact final_keeps_q0. Qed.
Print Assumptions C02_final_qr_keeps_charge.

(* both DMRG functions: hypotheses = those of the sparsity theorems (C02) and of the whole-run theorems of C10 (uniform
   shapes, right-canonical after the preliminary orthonormalisation; Ritz contract / exact split / QR factorisation on the
   calls issued); psi has a non-zero amplitude *)
Theorem C02_total_charge_kept_dmrg : forall (F : ofield) (dqr : mx (Cx F) -> mx (Cx F) * mx (Cx F)) (H : mpo (Cx F)) (psi : mps (Cx F))
    (w : list nat) d DsW Ds0,
  mps_ok psi = true -> orth_pre F psi -> Forall (qr_call_ok F dqr) (mps_orth_calls dqr false psi) ->
  length w = length (m_A psi) -> Forall (fun s => s < length (m_qd psi)) w -> amp (m_A psi) w <> k0 (Cx F) ->
  mpo_ok H = true -> o_qd H = m_qd psi -> Forall (fun q => 0 < length q) (o_qD H) ->
  hd [] (o_qD H) = [0%Z] -> last (o_qD H) [] = [0%Z] ->
  mpo_shapeb d DsW (o_A H) = true -> mps_shapeb d Ds0 (m_A (fst (orth_right_model F dqr psi))) = true ->
  Forall right_iso (m_A (fst (orth_right_model F dqr psi))) ->
  (forall qr keig n A qD ens tr,
     dmrg_singlesite (orth_right_model F dqr) qr keig H psi n = Some (A, qD, ens, tr) ->
     sp_tr_ok (Cx F) qr (fun _ _ _ _ X _ => X) (fun _ _ _ C _ => C) keig (o_A H) (m_qd psi) (o_qD H) (k0 (Cx F)) (k0 (Cx F)) (rev tr) ->
     rtr_ok qr keig (o_A H) d (rev tr) ->
     hd [] qD = hd [] (m_qD psi) /\ last qD [] = last (m_qD psi) []) /\
  (forall qr split keig n A qD ens tr,
     dmrg_twosite (orth_right_model F dqr) qr split keig H psi n = Some (A, qD, ens, tr) ->
     sp2_tr_ok (Cx F) qr split (no_kexp (Cx F)) (no_kexp0 (Cx F)) keig (o_A H) (m_qd psi) (o_qD H) (k0 (Cx F)) (k0 (Cx F)) (rev tr) ->
     rtr2_ok qr split keig (o_A H) d (rev tr) ->
     hd [] qD = hd [] (m_qD psi) /\ last qD [] = last (m_qD psi) []).
Proof. exact dmrg_total_charge_kept. Qed.
Print Assumptions C02_total_charge_kept_dmrg.
(* NOT PROVED HERE (full statements): C02_total_charge_kept_dmrg with a truncating split (tol_split > 0: C10's contract [split_ok]
   used here is the exact split; needed would be "the kept part of a norm-one tensor is not zero", i.e. tol < 1, and the
   renormalisation by the closing QR) -- CLOSED IN ROUND 4 below: C02_total_charge_kept_dmrg2_weak / _every_tol;
   the C10 operand conditions mps_shapeb / right_iso as consequences of C01 for orth_right_model (proved in the C08/C10 link
   development, not restated here). *)

(* ---- non-vacuity, round 3: a two-site TDVP run over Z[i] (L = 2, qd = [0;1], bond charges [0] [0;1] [1], identity operator,
        two time steps): the model returns, emits 6 calls (KH2, SPLITL, STR per step), every recorded call meets its contract
        [sp2_tr_ok] (the split answers are block sparse under the returned charges [1; 0]), all hypotheses of
        C02_tdvp2_run_sparse hold, the result satisfies the invariant, is not zero, and has the boundary charges [0], [1] of the
        input (conclusion of C02_tdvp_boundary). ---- *)
Example C02_tdvp2_nonvacuous :
  match tdvp_twosite ex3c_orth ex3c_split ex3c_kexp ex3c_H ex3c_psi ((0, 1)%Z : GIring) ((0, 1)%Z : GIring) 2 with
  | Some (A, qD, nrm, tr) =>
      length tr = 6 /\ mps_ok (mkmps (m_qd ex3c_psi) qD A) = true /\ mps_nonzero (mkmps (m_qd ex3c_psi) qD A) = true /\
      hd [] qD = [0%Z] /\ last qD [] = [1%Z] /\
      sp2_tr_ok GIring (no_qr GIring) ex3c_split ex3c_kexp (no_kexp0 GIring) (no_keig GIring) (o_A ex3c_H) (m_qd ex3c_psi) (o_qD ex3c_H)
                ((0, 1)%Z : GIring) ((0, 1)%Z : GIring) (rev tr)
  | None => False end /\
  mpo_ok ex3c_H = true /\ o_qd ex3c_H = m_qd ex3c_psi /\ Forall (fun q => 0 < length q) (o_qD ex3c_H) /\
  hd [] (o_qD ex3c_H) = [0%Z] /\ last (o_qD ex3c_H) [] = [0%Z] /\ mps_ok (fst (ex3c_orth ex3c_psi)) = true /\
  mps_nonzero ex3c_psi = true.
Proof.
  split.
  - vm_compute tdvp_twosite. split; [reflexivity|]. split; [vm_compute; reflexivity|]. split; [vm_compute; reflexivity|].
    split; [reflexivity|]. split; [reflexivity|].
    cbn [rev app sp2_tr_ok].
    repeat match goal with
    | |- _ /\ _ => split
    | |- True => exact I
    | |- sp2_call_ok _ _ _ _ _ _ _ _ _ _ _ _ _ =>
        unfold sp2_call_ok; cbn [t_call c_kind c_site c_coef t_envs t_ten t_qs]
    | |- sp_call_ok _ _ _ _ _ _ _ _ _ _ _ _ => unfold sp_call_ok; cbn [t_call c_kind c_site c_coef t_envs t_ten t_qs]; exact I
    | |- forall ql qr', _ -> _ -> _ -> site_okP _ _ _ _ _ => intros ql qr' HA _ _; exact HA
    | |- site_okP _ _ _ _ _ -> split_sp_ok _ _ _ _ _ _ => intros _; apply split_sp_okb_sound; vm_compute; reflexivity
    end.
  - split; [vm_compute; reflexivity|]. split; [reflexivity|]. split; [repeat constructor|]. split; [reflexivity|].
    split; [reflexivity|]. split; vm_compute; reflexivity.
Qed.

(* ======================================================================================================================
   REPAIRED LOCAL EIGENSOLVER (pytenet/minimization.py after "fix: limit Lanczos iterations in local energy minimization to
   the dimension of the local problem"):

       def _minimize_local_energy(L, R, W, Astart, numiter: int):
           numiter = min(numiter, Astart.size)
           w, u_ritz = eigh_krylov(lambda x: apply_local_hamiltonian(L, R, W, x.reshape(Astart.shape)).reshape(-1),
                                   Astart.reshape(-1), numiter, 1)

   The theorems above about keig_lanczos (the solver WITHOUT the cap) stay as they are.  The history theorem
   [C02_history_inv] and the run theorems [C02_dmrg1_run_sparse] / [C02_dmrg2_run_sparse] are generic in the eigensolver
   argument [keig]; what mentions keig_lanczos explicitly is C02_local_solvers_sparse and the two "calls meet contracts"
   theorems.  Their analogues for the capped solver keig_lanczos_cap (Proofs/LinkSolversCap.v: keig_lanczos with
   min(numiter, site_size A) iterations, site_size A = d*Dl*Dr = Astart.size) are below (Proofs/Hist2SolversCap.v); "the call
   returns" refers to the capped run (a zero-size start tensor gives cap 0: the call does not return, the code raises). *)
From PT Require Import Proofs.LinkSolversCap Proofs.Hist2SolversCap.

Theorem C02_local_eigensolver_cap_sparse : forall (F : ofield) dnorm small deigh numiter qd qwl qwr ql qr
    (BL BR : env (Cx F)) (W : osite (Cx F)),
  0 < length qd -> 0 < length qwl -> 0 < length qwr -> osite_okP (Cx F) qd qwl qwr W ->
  env_okP (Cx F) ql qwl ql BL -> env_okP (Cx F) qr qwr qr BR ->
  forall pos A, site_okP (Cx F) qd ql qr A -> keig_lanczos_cap_returns F dnorm small deigh numiter BL BR W A ->
    site_okP (Cx F) qd ql qr (snd (keig_lanczos_cap F dnorm small deigh numiter pos BL BR W A)).
Proof. exact keig_lanczos_cap_okP. Qed.
Print Assumptions C02_local_eigensolver_cap_sparse.

(* a returning call of the repaired solver had numiter >= 1 and a non-empty start tensor *)
Theorem C02_eigensolver_cap_returns_nonempty : forall (F : ofield) dnorm small deigh numiter (BL BR : env (Cx F)) (W : osite (Cx F)) (A : site (Cx F)),
  keig_lanczos_cap_returns F dnorm small deigh numiter BL BR W A -> 1 <= numiter /\ 1 <= site_size A.
Proof. exact keig_lanczos_cap_returns_pos. Qed.
Print Assumptions C02_eigensolver_cap_returns_nonempty.

(* single-site traces: per-call contracts with the capped eigensolver (the TDVP solvers are unchanged) *)
Theorem C02_lanczos_cap_calls_meet_contracts : forall (F : ofield) dnorm small deigh dexp dexpm numiter qr
    (Hs : list (osite (Cx F))) qd qWs (dt hdt : Cx F),
  0 < length qd -> chainP (osite_okP (Cx F) qd) qWs Hs -> (forall j, j <= length Hs -> 0 < length (nth j qWs [])) ->
  forall tr, lzc_tr_ok F dnorm small deigh dexp dexpm numiter qr Hs dt hdt tr ->
  sp_tr_ok (Cx F) qr (kexp_lanczos F dnorm small deigh dexp dexpm numiter) (kexp0_lanczos F dnorm small deigh dexp dexpm numiter)
           (keig_lanczos_cap F dnorm small deigh numiter) Hs qd qWs dt hdt tr.
Proof. exact lzc_tr_sp. Qed.
Print Assumptions C02_lanczos_cap_calls_meet_contracts.

(* two-site traces *)
Theorem C02_lanczos2_cap_calls_meet_contracts : forall (F : ofield) dnorm small deigh dexp dexpm numiter qr split
    (Hs : list (osite (Cx F))) qd qWs (dt hdt : Cx F),
  0 < length qd -> chainP (osite_okP (Cx F) qd) qWs Hs -> (forall j, j <= length Hs -> 0 < length (nth j qWs [])) ->
  forall tr, lzc2_tr_ok F dnorm small deigh dexp dexpm numiter qr split Hs dt hdt tr ->
  sp2_tr_ok (Cx F) qr split (kexp_lanczos F dnorm small deigh dexp dexpm numiter) (kexp0_lanczos F dnorm small deigh dexp dexpm numiter)
            (keig_lanczos_cap F dnorm small deigh numiter) Hs qd qWs dt hdt tr.
Proof. exact lzc2_tr_sp. Qed.
Print Assumptions C02_lanczos2_cap_calls_meet_contracts.

(* the instances of the generic run theorems: whole DMRG runs with the repaired solver keep [mps_ok] *)
Theorem C02_dmrg_cap_run_sparse : forall (F : ofield) dnorm small deigh numiter orth qr (H : mpo (Cx F)) (psi : mps (Cx F)) n A qD ens tr,
  mpo_ok H = true -> o_qd H = m_qd psi -> Forall (fun q => 0 < length q) (o_qD H) ->
  hd [] (o_qD H) = [0%Z] -> last (o_qD H) [] = [0%Z] ->
  0 < length (m_qd psi) -> m_qd (fst (orth psi)) = m_qd psi -> mps_ok (fst (orth psi)) = true ->
  length (hd [] (m_qD (fst (orth psi)))) = 1 -> length (last (m_qD (fst (orth psi))) []) = 1 ->
  (dmrg_singlesite orth qr (keig_lanczos_cap F dnorm small deigh numiter) H psi n = Some (A, qD, ens, tr) ->
   sp_tr_ok (Cx F) qr (fun _ _ _ _ X _ => X) (fun _ _ _ C _ => C) (keig_lanczos_cap F dnorm small deigh numiter)
            (o_A H) (m_qd psi) (o_qD H) (k0 (Cx F)) (k0 (Cx F)) (rev tr) ->
   mps_ok (mkmps (m_qd psi) qD A) = true) /\
  (forall split, dmrg_twosite orth qr split (keig_lanczos_cap F dnorm small deigh numiter) H psi n = Some (A, qD, ens, tr) ->
   sp2_tr_ok (Cx F) qr split (no_kexp (Cx F)) (no_kexp0 (Cx F)) (keig_lanczos_cap F dnorm small deigh numiter)
             (o_A H) (m_qd psi) (o_qD H) (k0 (Cx F)) (k0 (Cx F)) (rev tr) ->
   mps_ok (mkmps (m_qd psi) qD A) = true).
Proof.
  intros F dnorm small deigh numiter orth qr H psi n A qD ens tr HokH Eqd Hpos Hh0 Hl0 Hd Eqd1 Hok1 Hh1 Hl1. split.
  - intros Hrun Hok. exact (dmrg1_mps_ok (Cx F) orth qr _ H psi n A qD ens tr Hrun HokH Eqd Hpos Hh0 Hl0 Hd Eqd1 Hok1 Hh1 Hl1 Hok).
  - intros split Hrun Hok. exact (dmrg2_mps_ok (Cx F) orth qr split _ H psi n A qD ens tr Hrun HokH Eqd Hpos Hh0 Hl0 Hd Eqd1 Hok1 Hh1 Hl1 Hok).
Qed.
Print Assumptions C02_dmrg_cap_run_sparse.

(* ======================================================================================================================
   ROUND 4 — the three items left open by round 3.  Proofs: Proofs/Hist4*.v; new model file Model/BondOpsF5.v.

   (1) ZERO-TENSOR SPLIT.  [C02_history_inv] kept, for a SplitMerge step, the hypothesis [split_call_ok] ("valid input =>
       the answer of split_matrix_svd is block sparse under the returned charges"), which C02_split_contract_from_C12 proves for
       the model only when the merged matrix is NOT zero.  On a zero (or charge-forbidden, hence zero) matrix the code either
       returns the dummy bond (no shared charge: u = e_0, s = [0], v = 0, label q0[:1], or [0] for a matrix without rows after
       fix F5 -- Model/BondOps.v block_svd still returns q0[:1] = [] there; Model/BondOpsF5.v [block_svd5] is the mirror of the
       code as it stands and agrees with block_svd on every matrix with a row, [C02_block_svd5_agrees]) or, when charges are
       shared, runs LAPACK on zero blocks, gets singular values that are all zero and keeps NOTHING: bond dimension 0, q = [].
       Both answers meet the contract ([C02_split_zero_matrix_contract], [C02_split_zero_bond]); with C12 for the non-zero
       case: EVERY valid input ([C02_split_contract_all]).  [C02_history_inv_all_splits]: the result function of SplitMerge is
       the executable model and the hypothesis is LAPACK's contract on the issued calls (numpy.linalg.svd on the blocks;
       numpy.argsort only when the matrix is not zero; 0 <= tol < 1) -- [split_call_ok] is gone.  Same for the split calls of
       the two-site sweeps ([C02_split_model_for_sweeps], [C02_lanczos5_calls_meet_contracts]).
   (2) DMRG TOTAL CHARGE WITH tol_split > 0.  [C02_total_charge_kept_dmrg2_weak]: invariant "mixed canonical and NOT ZERO"
       instead of C10's "norm one"; contracts: the Ritz vector is not zero, the product of the split factors of a non-zero
       tensor is not zero and the orthonormal factor is an isometry, QR factorises.  [C02_truncated_split_keeps_nonzero]: that
       split contract is a THEOREM for the model whenever 0 <= tol < 1 (C12: discarded weight <= tol * total), hence
       [C02_total_charge_kept_dmrg2_every_tol] with LAPACK-level hypotheses only on the split calls.
   (3) SOLVER CALLS RETURN.  [C02_solver_returns_iff_norm] (no contract): a call returns iff numiter >= 1 and the value
       numpy.linalg.norm answers for the start tensor is > 0; [C02_solver_returns_iff]: under norm's contract on that one call,
       iff numiter >= 1 and the start tensor is not zero (all three solvers and the repaired eigensolver);
       [C02_nonzero_starts_meet_contracts]: traces.  Whole runs: [C02_dmrg2_eigensolver_calls_return_partial].
   ====================================================================================================================== *)
From PT Require Import Model.BondOpsF5.
From PT Require Import Proofs.KrylovLanczos Proofs.KrylovMatvec Proofs.LinkFlatten.
From PT Require Import Proofs.Hist4Zero Proofs.Hist4Top Proofs.Hist4Bool Proofs.Hist4Example.
From PT Require Import Proofs.Hist4Charge Proofs.Hist4SplitNz Proofs.Hist4ChargeTop Proofs.Hist4ChargeBool Proofs.Hist4ChargeExample.
From PT Require Import Proofs.Hist4Returns Proofs.Hist4ReturnsRun Proofs.Hist4ReturnsExample.
From PT Require Import Proofs.SweepsCheck Proofs.SweepsExample.
Open Scope nat_scope.

(* ---- (1) zero-tensor split ---- *)
(* the mirror of split_matrix_svd after fix F5 and the mirror used by C12 agree wherever the matrix has a row *)
Theorem C02_block_svd5_agrees : forall (F : ofield) (dsvd : mx (Cx F) -> mx (Cx F) * list F * mx (Cx F)) (pick : list F -> list nat)
    (A : mx (Cx F)) (q0 q1 : list Z) (tol : F),
  0 < nr A -> block_svd5 dsvd pick A q0 q1 tol = block_svd dsvd pick A q0 q1 tol.
Proof. exact block_svd5_rows. Qed.
Print Assumptions C02_block_svd5_agrees.

(* a zero matrix that passes the assertions of split_matrix_svd: the answer has len(q) = len(s) = bond dimension, the shapes
   chain, and both factors are block sparse under (q0, q) and (q, q1) -- for every tolerance; hypothesis: LAPACK's SVD contract
   on the (zero) blocks actually decomposed (none in the dummy branch) *)
Theorem C02_split_zero_matrix_contract : forall (F : ofield) (dsvd : mx (Cx F) -> mx (Cx F) * list F * mx (Cx F)) (pick : list F -> list nat)
    (A : mx (Cx F)) (q0 q1 : list Z) (tol : F),
  valid_in A q0 q1 = true -> is_zeromx A = true ->
  Forall (fun B => dsvd_ok F B (dsvd B)) (block_svd_calls A q0 q1) ->
  svd_ans_ok (Cx F) A q0 q1 (svd_result5 dsvd pick tol A q0 q1).
Proof. exact svd_ans_zero. Qed.
Print Assumptions C02_split_zero_matrix_contract.

(* which answer: no shared charge -> one dummy bond with singular value 0 and the label q0[:1] (or [0]); shared charge -> the
   bond dimension drops to ZERO *)
Theorem C02_split_zero_bond : forall (F : ofield) (dsvd : mx (Cx F) -> mx (Cx F) * list F * mx (Cx F)) (pick : list F -> list nat)
    (A : mx (Cx F)) (q0 q1 : list Z) (tol : F),
  valid_in A q0 q1 = true -> is_zeromx A = true ->
  Forall (fun B => dsvd_ok F B (dsvd B)) (block_svd_calls A q0 q1) ->
  let '(u, s, v, q) := svd_result5 dsvd pick tol A q0 q1 in
  (intersect1d q0 q1 = [] -> s = [k0 (Cx F)] /\ q = dummy_label A q0) /\ (intersect1d q0 q1 <> [] -> s = [] /\ q = []).
Proof. exact svd_zero_bond. Qed.
Print Assumptions C02_split_zero_bond.

(* every valid input, zero or not *)
Theorem C02_split_contract_all : forall (F : ofield) (dsvd : mx (Cx F) -> mx (Cx F) * list F * mx (Cx F)) (pick : list F -> list nat)
    (A : mx (Cx F)) (q0 q1 : list Z) (tol : F),
  valid_in A q0 q1 = true -> fle F (f0 F) tol -> flt F tol (f1 F) ->
  Forall (fun B => dsvd_ok F B (dsvd B)) (block_svd_calls A q0 q1) ->
  (is_zeromx A = false -> let S := block_svd_spectrum F dsvd A q0 q1 in pick_ok F (normsq S) (pick (normsq S))) ->
  svd_ans_ok (Cx F) A q0 q1 (svd_result5 dsvd pick tol A q0 q1).
Proof. exact split_contract_all. Qed.
Print Assumptions C02_split_contract_all.

(* the SplitMerge step: result function = the mirror; [split_lapack_ok] = LAPACK's contract on the calls of the one
   split_matrix_svd (only if its assertions pass) *)
Theorem C02_split_step_contract : forall (F : ofield) (dsvd : mx (Cx F) -> mx (Cx F) * list F * mx (Cx F)) (pick : list F -> list nat)
    (tols : nat -> F) (O : oracles (Cx F)) (s : state (Cx F)) (i k distr tag : nat),
  or_svd O tag = svd_result5 dsvd pick (tols tag) ->
  (forall p, nth_error (states s) i = Some p ->
     split_lapack_ok F dsvd pick (tols tag) (split_call (Cx F) k (m_qd p) (m_qD p) (m_A p))) ->
  oracle_ok_at (Cx F) O s (SplitMerge i k distr tag).
Proof. exact split_step_contract. Qed.
Print Assumptions C02_split_step_contract.

(* split_mps_tensor of the two-site sweeps = Model/MPSOps.v around the mirror ([split5]): the split contract of the sweeps
   for EVERY block-sparse merged tensor *)
Theorem C02_split_model_for_sweeps : forall (F : ofield) (dsvd : mx (Cx F) -> mx (Cx F) * list F * mx (Cx F)) (pick : list F -> list nat)
    (ksqrt : Cx F -> Cx F) (tol : F) (p : nat) (Am : site (Cx F)) (q0 q1 q2 q3 : list Z) (left : bool),
  0 < length q0 * length q1 ->
  svd_lapack_ok F dsvd pick tol (split_matrix (length q0) (length q1) Am) (MPSOps.qflat q0 q2) (MPSOps.qflat (map Z.opp q1) q3) ->
  site_okP (Cx F) (Sweeps.qflat q0 q1) q2 q3 Am ->
  split_sp_ok (Cx F) q0 q1 q2 q3 (split5 F dsvd pick ksqrt tol p Am q0 q1 q2 q3 left).
Proof. exact split5_sp_ok. Qed.
Print Assumptions C02_split_model_for_sweeps.

(* two-site traces with the Krylov solvers and the model split: what is left per call is "the solver call returns",
   LAPACK's SVD / argsort contract on the split calls, C11's conclusion on the QR calls *)
Theorem C02_lanczos5_calls_meet_contracts : forall (F : ofield) dnorm small deigh dexp dexpm numiter qr dsvd pick ksqrt (tol : F)
    (Hs : list (osite (Cx F))) qd qWs (dt hdt : Cx F),
  0 < length qd -> chainP (osite_okP (Cx F) qd) qWs Hs -> (forall j, j <= length Hs -> 0 < length (nth j qWs [])) ->
  forall tr, lz5_tr_ok F dnorm small deigh dexp dexpm numiter qr dsvd pick ksqrt tol Hs dt hdt tr ->
  sp2_tr_ok (Cx F) qr (split5 F dsvd pick ksqrt tol) (kexp_lanczos F dnorm small deigh dexp dexpm numiter)
            (kexp0_lanczos F dnorm small deigh dexp dexpm numiter) (keig_lanczos F dnorm small deigh numiter) Hs qd qWs dt hdt tr.
Proof. exact lz5_tr_sp. Qed.
Print Assumptions C02_lanczos5_calls_meet_contracts.

(* the history theorem: [model_oracles5] = model_oracles + "or_svd is the mirror of split_matrix_svd"; [contracts_ok5] =
   contracts_ok with the SplitMerge clause replaced by [split_lapack_ok].  No hypothesis about the ANSWER of split_matrix_svd is
   left; zero states, charge-forbidden states and bonds of dimension zero are covered. *)
Theorem C02_history_inv_all_splits : forall (F : ofield) dqr dsvd pick cabs (tolf tols : nat -> F) orth qr split kexp kexp0 keig
    (tdvp_par : nat -> Cx F * Cx F * nat) (dmrg_par : nat -> nat) (O : oracles (Cx F)),
  model_oracles5 F dqr dsvd pick cabs tolf tols orth qr split kexp kexp0 keig tdvp_par dmrg_par O ->
  forall (ops : list (op (Cx F))) (s : state (Cx F)),
    Inv (Cx F) s -> contracts_ok5 F dqr dsvd pick cabs tolf tols orth qr split kexp kexp0 keig tdvp_par dmrg_par O ops s ->
    Inv (Cx F) (run O ops s).
Proof. exact history_inv5. Qed.
Print Assumptions C02_history_inv_all_splits.

Theorem C02_history_inv_all_splits_every_prefix : forall (F : ofield) dqr dsvd pick cabs (tolf tols : nat -> F) orth qr split kexp kexp0 keig
    (tdvp_par : nat -> Cx F * Cx F * nat) (dmrg_par : nat -> nat) (O : oracles (Cx F)),
  model_oracles5 F dqr dsvd pick cabs tolf tols orth qr split kexp kexp0 keig tdvp_par dmrg_par O ->
  forall (ops1 ops2 : list (op (Cx F))) (s : state (Cx F)),
    Inv (Cx F) s -> contracts_ok5 F dqr dsvd pick cabs tolf tols orth qr split kexp kexp0 keig tdvp_par dmrg_par O (ops1 ++ ops2) s ->
    Inv (Cx F) (run O ops1 s).
Proof. exact history_inv5_prefix. Qed.
Print Assumptions C02_history_inv_all_splits_every_prefix.

(* ---- non-vacuity (1): a history over Q[i] (Proofs/Hist4Example.v) on a zero state in an allowed sector (L = 3) and a state in
        an unreachable sector (total charge 5): split at bond 1 of the zero state (shared charges: LAPACK is called on two zero
        blocks, the bond dimension drops to 0), split at bond 2 (the matrix has no rows: dummy bond labelled [0], fix F5), split
        of the forbidden state (dummy bond labelled q0[:1], the left factor e_0 is not zero), a subtraction and a 'sqrt' split.
        Every step is performed, all hypotheses of C02_history_inv_all_splits hold (checked by the sound boolean [hist5b]), the
        invariant holds before and after, and the bond dimensions / labels are those the implementation returns
        ([0] [] [0] [1]; [0] [0] [5]; [0] [0] [5]). ---- *)
Example C02_zero_split_nonvacuous :
  model_oracles5 QcF ex4_dqr ex4_dsvd ex4_pick ex2_abs ex4_tolf ex4_tols ex4_orth (no_qr (Cx QcF)) ex4_split (no_kexp (Cx QcF))
                 (no_kexp0 (Cx QcF)) (no_keig (Cx QcF)) ex4_tpar ex4_dpar ex4_O /\
  Inv (Cx QcF) ex4_pool /\
  contracts_ok5 QcF ex4_dqr ex4_dsvd ex4_pick ex2_abs ex4_tolf ex4_tols ex4_orth (no_qr (Cx QcF)) ex4_split (no_kexp (Cx QcF))
                (no_kexp0 (Cx QcF)) (no_keig (Cx QcF)) ex4_tpar ex4_dpar ex4_O ex4_ops ex4_pool /\
  match run_opt ex4_O ex4_ops ex4_pool with
  | Some s => inv_b s && state_eqb s (run ex4_O ex4_ops ex4_pool) && Nat.eqb (length (states s)) 3 &&
              zll_eqb (m_qD (nth 0 (states s) ex4_z3)) [[0]; []; [0]; [1]]%Z &&
              zll_eqb (m_qD (nth 1 (states s) ex4_z3)) [[0]; [0]; [5]]%Z &&
              zll_eqb (m_qD (nth 2 (states s) ex4_z3)) [[0]; [0]; [5]]%Z &&
              mps_all_zero (nth 0 (states s) ex4_z3) && negb (mps_all_zero (nth 1 (states s) ex4_z3))
  | None => false
  end = true.
Proof.
  split. { split; [repeat split; reflexivity|intros tag; reflexivity]. }
  split. { apply Inv_b. vm_compute. reflexivity. }
  split. { apply hist5b_sound. vm_compute. reflexivity. }
  vm_compute. reflexivity.
Qed.

(* ---- (2) total charge through two-site DMRG with a truncating split ---- *)
(* the closing QR keeps psi.qD[0] as soon as the (mixed-canonical) state is not zero *)
Theorem C02_final_qr_keeps_charge_nonzero : forall (F : ofield) qr (Hs : list (osite (Cx F))) qd qWs d DsW,
  0 < length qd -> (forall j, j <= length Hs -> 0 < length (nth j qWs [])) ->
  0 < d -> OperationChains.ochain_ok (repeat d (length Hs)) DsW Hs -> hd 0 DsW = 1 ->
  forall st : sw (Cx F),
  ZQ (Cx F) Hs qd qWs st 0 -> gBL st 0 = env_one -> SweepsInv.Z (Cx F) Hs d st 0 -> SweepsInv.NN (Cx F) Hs d (s_A st) <> k0 (Cx F) ->
  1 <= length Hs ->
  (let M := site_flat (site_tr (gA st 0)) in let q0 := Sweeps.qflat qd (Sweeps.zneg (gq st 1)) in let q1 := Sweeps.zneg (gq st 0) in
   (bond_okP (Cx F) q0 q1 M -> qr_sp_ok (Cx F) M q0 q1 (qr (length (s_tr st)) M q0 q1)) /\ qr_ok M (qr (length (s_tr st)) M q0 q1)) ->
  length (s_qD (dmrg_final_qr qr qd st)) = length (s_qD st) /\ gq (dmrg_final_qr qr qd st) 0 = gq st 0 /\
  gq (dmrg_final_qr qr qd st) (length Hs) = gq st (length Hs).
Proof. exact final_keeps_q0_nz. Qed.
Print Assumptions C02_final_qr_keeps_charge_nonzero.

(* whole runs, every L >= 1, ANY split function: contracts [sp2_tr_ok] (C02) and [wtr2_ok] on the calls issued --
     EIG2  keig_nz: the answer has the shape of the start tensor and <u|u> <> 0
     SPLIT (on a block-sparse tensor) split_nz: if <Am|Am> <> 0 then the shapes chain, the factor without the singular values
           is an isometry and <A0.A1|A0.A1> <> 0
     QR    qr_ok: M = Q R with orthonormal columns.
   Conclusions: the returned qD[0], qD[L] are the input's, and every start tensor handed to the eigensolver was an array of
   the merged shape with <Am|Am> <> 0 ([starts_nz]). *)
Theorem C02_total_charge_kept_dmrg2_weak : forall (F : ofield) (dqr : mx (Cx F) -> mx (Cx F) * mx (Cx F)) (H : mpo (Cx F)) (psi : mps (Cx F))
    (w : list nat) d DsW Ds0,
  mps_ok psi = true -> orth_pre F psi -> Forall (qr_call_ok F dqr) (mps_orth_calls dqr false psi) ->
  length w = length (m_A psi) -> Forall (fun s => s < length (m_qd psi)) w -> amp (m_A psi) w <> k0 (Cx F) ->
  mpo_ok H = true -> o_qd H = m_qd psi -> Forall (fun q => 0 < length q) (o_qD H) ->
  hd [] (o_qD H) = [0%Z] -> last (o_qD H) [] = [0%Z] ->
  mpo_shapeb d DsW (o_A H) = true -> mps_shapeb d Ds0 (m_A (fst (orth_right_model F dqr psi))) = true ->
  Forall right_iso (m_A (fst (orth_right_model F dqr psi))) ->
  forall qr split keig n A qD ens tr,
    dmrg_twosite (orth_right_model F dqr) qr split keig H psi n = Some (A, qD, ens, tr) ->
    sp2_tr_ok (Cx F) qr split (no_kexp (Cx F)) (no_kexp0 (Cx F)) keig (o_A H) (m_qd psi) (o_qD H) (k0 (Cx F)) (k0 (Cx F)) (rev tr) ->
    wtr2_ok qr split keig (o_A H) d (rev tr) ->
    hd [] qD = hd [] (m_qD psi) /\ last qD [] = last (m_qD psi) [] /\ starts_nz F d (rev tr).
Proof. exact dmrg2_total_charge_kept_nz. Qed.
Print Assumptions C02_total_charge_kept_dmrg2_weak.

(* C10's Ritz contract implies the weak eigensolver contract (the Ritz vector is normalised) *)
Theorem C02_ritz_contract_implies_weak : forall (F : ofield) dd (BL BR : env (Cx F)) (W : osite (Cx F)) (Am : site (Cx F)) (ans : Cx F * site (Cx F)),
  keig_ok dd BL BR W Am ans -> keig_nz dd Am ans.
Proof. exact keig_ok_nz. Qed.
Print Assumptions C02_ritz_contract_implies_weak.

(* the truncated split of the executable model keeps a non-zero part whenever 0 <= tol < 1: [split_nz] is a theorem *)
Theorem C02_truncated_split_keeps_nonzero : forall (F : ofield) (dsvd : mx (Cx F) -> mx (Cx F) * list F * mx (Cx F)) (pick : list F -> list nat)
    (ksqrt : Cx F -> Cx F) (tol : F) (p : nat) (Am : site (Cx F)) (q0 q1 q2 q3 : list Z) (left : bool),
  length q1 = length q0 -> 0 < length q0 ->
  svd_lapack_ok F dsvd pick tol (split_matrix (length q0) (length q1) Am) (MPSOps.qflat q0 q2) (MPSOps.qflat (map Z.opp q1) q3) ->
  site_okP (Cx F) (Sweeps.qflat q0 q1) q2 q3 Am ->
  split_nz (length q0) left Am (split5 F dsvd pick ksqrt tol p Am q0 q1 q2 q3 left).
Proof. exact split5_nz. Qed.
Print Assumptions C02_truncated_split_keeps_nonzero.

(* two-site DMRG with split_mps_tensor = the model at ANY tolerance 0 <= tol_split < 1: [dm5_tr_ok] asks, per recorded call,
     EIG2   block sparse answer (a theorem for the Krylov solver whenever it returns) of the right shape, not zero
     SPLIT  len(qd) = d, LAPACK's contract on numpy.linalg.svd / numpy.argsort, 0 <= tol < 1   (nothing about the answer)
     QR     C11's conclusion and M = Q R with orthonormal columns *)
Theorem C02_total_charge_kept_dmrg2_every_tol : forall (F : ofield) (dqr : mx (Cx F) -> mx (Cx F) * mx (Cx F)) dsvd pick ksqrt (tol : F)
    (H : mpo (Cx F)) (psi : mps (Cx F)) (w : list nat) d DsW Ds0,
  mps_ok psi = true -> orth_pre F psi -> Forall (qr_call_ok F dqr) (mps_orth_calls dqr false psi) ->
  length w = length (m_A psi) -> Forall (fun s => s < length (m_qd psi)) w -> amp (m_A psi) w <> k0 (Cx F) ->
  mpo_ok H = true -> o_qd H = m_qd psi -> Forall (fun q => 0 < length q) (o_qD H) ->
  hd [] (o_qD H) = [0%Z] -> last (o_qD H) [] = [0%Z] ->
  mpo_shapeb d DsW (o_A H) = true -> mps_shapeb d Ds0 (m_A (fst (orth_right_model F dqr psi))) = true ->
  Forall right_iso (m_A (fst (orth_right_model F dqr psi))) ->
  forall qr keig n A qD ens tr,
    dmrg_twosite (orth_right_model F dqr) qr (split5 F dsvd pick ksqrt tol) keig H psi n = Some (A, qD, ens, tr) ->
    dm5_tr_ok F qr keig dsvd pick tol (o_A H) (m_qd psi) (o_qD H) d (rev tr) ->
    hd [] qD = hd [] (m_qD psi) /\ last qD [] = last (m_qD psi) [] /\ starts_nz F d (rev tr).
Proof. exact dmrg2_total_charge_kept_tol. Qed.
Print Assumptions C02_total_charge_kept_dmrg2_every_tol.
(* NOT PROVED: that C10's exact-split contract [split_ok] implies [split_nz] (it does: A0.A1 = Am entrywise; not needed since
   the model is covered for every tol); the analogue for SINGLE-site DMRG needs no new theorem (no split: C02_total_charge_kept_dmrg). *)

(* ---- non-vacuity (2): two-site DMRG over Q[i] (Proofs/Hist4ChargeExample.v), L = 2, qd = [0; 1], bond charges [0] [0; 1] [1],
        psi = 4/5 |01> + 3/5 |10>, H = identity, one sweep, tol_split = 1/2, split = the executable model with LAPACK's answers
        on the two 1 x 1 blocks: the singular value 3/5 (cumulative weight 9/25 <= 1/2) is DISCARDED, the bond dimension drops
        from 2 to 1, the state becomes 4/5 |01> (not zero) and is renormalised by the closing QR.  The run returns, its trace
        (EIG2, SPLITL, STR, QR) meets [dm5_tr_ok] (sound boolean [dm5_okb]), the operand hypotheses of
        C02_total_charge_kept_dmrg2_every_tol hold for the (already right-canonical) state, and the returned state satisfies
        the invariant with qD = [0] [0] [1]: boundary charges kept, inner bond truncated.  (The run is only evaluated by
        vm_compute casts on boolean equations.) ---- *)
Example C02_dmrg2_truncating_nonvacuous :
  (* the run returns; its trace passes the sound boolean form of [dm5_tr_ok]; result: invariant, qD = [0] [0] [1], 4 calls *)
  match ex5_run with
  | Some (A, qD, ens, tr) =>
      dm5_okb ex5_qr ex5_dsvd ex5_pick ex5_tol 2 (rev tr) && mps_ok (mkmps (m_qd ex5_psi) qD A) &&
      zll_eqb qD [[0]; [0]; [1]]%Z && Nat.eqb (length tr) 4 && zll_eqb (m_qD ex5_psi) [[0]; [0; 1]; [1]]%Z
  | None => false
  end = true /\
  (forall A qD ens tr, ex5_run = Some (A, qD, ens, tr) ->
     dm5_tr_ok QcF ex5_qr keig_id ex5_dsvd ex5_pick ex5_tol (o_A ex5_H) (m_qd ex5_psi) (o_qD ex5_H) 2 (rev tr)) /\
  mps_ok ex5_psi = true /\ mpo_ok ex5_H = true /\ o_qd ex5_H = m_qd ex5_psi /\ Forall (fun q => 0 < length q) (o_qD ex5_H) /\
  hd [] (o_qD ex5_H) = [0%Z] /\ last (o_qD ex5_H) [] = [0%Z] /\
  mpo_shapeb 2 [1; 1; 1] (o_A ex5_H) = true /\ mps_shapeb 2 [1; 2; 1] (m_A (fst (ex5_orth ex5_psi))) = true /\
  Forall right_iso (m_A (fst (ex5_orth ex5_psi))) /\
  fle QcF (f0 QcF) ex5_tol /\ flt QcF (f0 QcF) ex5_tol /\ flt QcF ex5_tol (f1 QcF).
Proof.
  split; [vm_compute; reflexivity|]. split.
  { intros A qD ens tr E. apply dm5_okb_ok.
    refine (opt_check4 ex5_run (fun r => dm5_okb ex5_qr ex5_dsvd ex5_pick ex5_tol 2 (rev (snd r))) _ (A, qD, ens, tr) E).
    vm_compute. reflexivity. }
  split; [vm_compute; reflexivity|]. split; [vm_compute; reflexivity|]. split; [reflexivity|]. split; [repeat constructor|].
  split; [reflexivity|]. split; [reflexivity|]. split; [vm_compute; reflexivity|]. split; [vm_compute; reflexivity|].
  split; [repeat constructor; apply right_isob_ok; vm_compute; reflexivity|].
  split; [vm_compute; reflexivity|]. split; vm_compute; reflexivity.
Qed.

(* ---- (3) when the Krylov-based local solvers return ---- *)
(* no contract at all: the model raises only through  assert nrmv > 0  and  numiter = 0 *)
Theorem C02_solver_returns_iff_norm : forall (F : ofield) dnorm small deigh dexp dexpm numiter (BL BR : env (Cx F)) (W : osite (Cx F))
    (A : site (Cx F)) (t : Cx F),
  (kexp_lanczos_returns F dnorm small deigh dexp dexpm numiter BL BR W A t <->
   1 <= numiter /\ flt F (f0 F) (dnorm (site_vec F (length A) (sdl A) (sdr A) A))) /\
  (keig_lanczos_returns F dnorm small deigh numiter BL BR W A <->
   1 <= numiter /\ flt F (f0 F) (dnorm (site_vec F (length A) (sdl A) (sdr A) A))).
Proof.
  intros F dnorm small deigh dexp dexpm numiter BL BR W A t. split.
  - exact (kexp_returns_iff_norm F dnorm small deigh dexp dexpm numiter BL BR W A t).
  - exact (keig_returns_iff_norm F dnorm small deigh numiter BL BR W A).
Qed.
Print Assumptions C02_solver_returns_iff_norm.

(* under numpy.linalg.norm's contract on the FIRST norm call (answer >= 0, square = sum |entries|^2; [uniform]: the start
   tensor is an array): a call returns iff numiter >= 1 and the start tensor is not zero -- local Hamiltonian step (one-site
   and merged two-site), local bond step, eigensolver, and the repaired eigensolver with numiter capped by Astart.size *)
Theorem C02_solver_returns_iff : forall (F : ofield) dnorm small deigh dexp dexpm numiter (BL BR : env (Cx F)) (W : osite (Cx F))
    (A : site (Cx F)) (C : mx (Cx F)) (t : Cx F),
  (uniform F A -> norm_ok F (site_vec F (length A) (sdl A) (sdr A) A, dnorm (site_vec F (length A) (sdl A) (sdr A) A)) ->
     (kexp_lanczos_returns F dnorm small deigh dexp dexpm numiter BL BR W A t <-> 1 <= numiter /\ site_dot A A <> k0 (Cx F)) /\
     (keig_lanczos_returns F dnorm small deigh numiter BL BR W A <-> 1 <= numiter /\ site_dot A A <> k0 (Cx F)) /\
     (keig_lanczos_cap_returns F dnorm small deigh numiter BL BR W A <-> 1 <= numiter /\ site_dot A A <> k0 (Cx F))) /\
  (norm_ok F (site_vec F 1 (nr C) (nc C) [C], dnorm (site_vec F 1 (nr C) (nc C) [C])) ->
     (kexp0_lanczos_returns F dnorm small deigh dexp dexpm numiter BL BR C t <-> 1 <= numiter /\ site_dot [C] [C] <> k0 (Cx F))).
Proof.
  intros F dnorm small deigh dexp dexpm numiter BL BR W A C t. split.
  - intros HA Hn. split; [|split].
    + exact (kexp_returns_iff F dnorm small deigh dexp dexpm numiter BL BR W A t HA Hn).
    + exact (keig_returns_iff F dnorm small deigh numiter BL BR W A HA Hn).
    + exact (keig_cap_returns_iff F dnorm small deigh numiter BL BR W A HA Hn).
  - exact (kexp0_returns_iff F dnorm small deigh dexp dexpm numiter BL BR C t).
Qed.
Print Assumptions C02_solver_returns_iff.

(* traces: the hypothesis "solver calls return" of C02_lanczos_calls_meet_contracts / C02_lanczos2_calls_meet_contracts is
   "numiter >= 1 and every start tensor handed to a solver is a non-zero array" (+ norm's contract on the first norm call) *)
Theorem C02_nonzero_starts_meet_contracts : forall (F : ofield) dnorm small deigh dexp dexpm numiter qr split
    (Hs : list (osite (Cx F))) (dt hdt : Cx F), 1 <= numiter ->
  (forall tr, nz_tr_ok F dnorm qr Hs tr -> lz_tr_ok F dnorm small deigh dexp dexpm numiter qr Hs dt hdt tr) /\
  (forall tr, nz2_tr_ok F dnorm qr split Hs tr -> lz2_tr_ok F dnorm small deigh dexp dexpm numiter qr split Hs dt hdt tr).
Proof.
  intros F dnorm small deigh dexp dexpm numiter qr split Hs dt hdt Hm. split.
  - exact (nz_tr_lz F dnorm small deigh dexp dexpm numiter qr Hs dt hdt Hm).
  - exact (nz2_tr_lz2 F dnorm small deigh dexp dexpm numiter qr split Hs dt hdt Hm).
Qed.
Print Assumptions C02_nonzero_starts_meet_contracts.

(* whole runs, PARTIAL: for two-site DMRG the start tensors are not zero because the STATE is not ([starts_nz], a conclusion of
   C02_total_charge_kept_dmrg2_weak / _every_tol), so every call of the Krylov eigensolver (plain and repaired) returns.
   MISSING (full statement): the same for both TDVP integrators and single-site DMRG --
     forall runs, (state handed over has a non-zero amplitude) -> (norm's contract on the first norm call of each solver call,
     the conserving / Ritz contracts of C08 / C10 on the calls issued) -> every KH / KH2 / KB / EIG call of the trace returns;
   the invariants are there (C08: <A|A> is conserved and equals NN = 1 in mixed-canonical form; Proofs/LinkRunTDVP.v,
   LinkRunDMRG.v derive "every start tensor is not zero" inside their bridges) but the per-call conclusion is not exported. *)
Theorem C02_dmrg2_eigensolver_calls_return_partial : forall (F : ofield) dnorm small deigh numiter (Hs : list (osite (Cx F))) d,
  0 < d -> 1 <= numiter ->
  forall tr, starts_nz F d tr -> Forall (eig2_norm_ok F dnorm) tr -> Forall (eig2_returns F dnorm small deigh numiter Hs) tr.
Proof. exact eig2_calls_return. Qed.
Print Assumptions C02_dmrg2_eigensolver_calls_return_partial.

(* ---- non-vacuity (3): the merged start tensor of the DMRG example (entries 0, 4/5, 3/5, 0) with an exact norm oracle: all
        hypotheses of C02_solver_returns_iff hold, so the eigensolver and the Hamiltonian step return for numiter = 1 (also
        by evaluation of the Krylov model) and do not return for numiter = 0 or for the zero tensor of the same shape. ---- *)
Example C02_returns_nonvacuous :
  uniform QcF ex6_Am /\ norm_ok QcF (site_vec QcF 4 1 1 ex6_Am, ex6_dnorm (site_vec QcF 4 1 1 ex6_Am)) /\
  site_dot ex6_Am ex6_Am <> k0 CQ /\
  keig_lanczos_returns QcF ex6_dnorm ex6_small ex6_deigh 1 ex6_BL ex6_BL ex6_W ex6_Am /\
  kexp_lanczos_returns QcF ex6_dnorm ex6_small ex6_deigh ex6_dexp ex6_dexpm 1 ex6_BL ex6_BL ex6_W ex6_Am (k1 CQ) /\
  ~ keig_lanczos_returns QcF ex6_dnorm ex6_small ex6_deigh 0 ex6_BL ex6_BL ex6_W ex6_Am /\
  ~ keig_lanczos_returns QcF ex6_dnorm ex6_small ex6_deigh 1 ex6_BL ex6_BL ex6_W ex6_zero /\
  match eigh_krylov QcF (flat_op QcF 4 1 1 (apply_local_hamiltonian ex6_BL ex6_BL ex6_W)) ex6_dnorm ex6_small ex6_deigh
                    (site_vec QcF 4 1 1 ex6_Am) 1 1 with Some _ => true | None => false end = true.
Proof.
  assert (HU : uniform QcF ex6_Am) by (split; [cbn; lia|apply OperationEntries.site_shape_ok; vm_compute; reflexivity]).
  assert (HN : norm_ok QcF (site_vec QcF 4 1 1 ex6_Am, ex6_dnorm (site_vec QcF 4 1 1 ex6_Am))) by (apply norm_okb_ok; vm_compute; reflexivity).
  assert (HZ : site_dot ex6_Am ex6_Am <> k0 CQ).
  { intros E. apply (f_equal (fun z => keqb CQ z (k0 CQ))) in E. vm_compute in E. discriminate E. }
  assert (HU0 : uniform QcF ex6_zero) by (split; [cbn; lia|apply OperationEntries.site_shape_ok; vm_compute; reflexivity]).
  assert (HN0 : norm_ok QcF (site_vec QcF 4 1 1 ex6_zero, ex6_dnorm (site_vec QcF 4 1 1 ex6_zero))) by (apply norm_okb_ok; vm_compute; reflexivity).
  split; [exact HU|]. split; [exact HN|]. split; [exact HZ|].
  split; [apply (keig_returns_iff QcF ex6_dnorm ex6_small ex6_deigh 1 ex6_BL ex6_BL ex6_W ex6_Am HU HN); split; [lia|exact HZ]|].
  split; [apply (kexp_returns_iff QcF ex6_dnorm ex6_small ex6_deigh ex6_dexp ex6_dexpm 1 ex6_BL ex6_BL ex6_W ex6_Am (k1 CQ) HU HN); split; [lia|exact HZ]|].
  split. { intros H. apply (keig_returns_iff QcF ex6_dnorm ex6_small ex6_deigh 0 ex6_BL ex6_BL ex6_W ex6_Am HU HN) in H. destruct H as [H _]. lia. }
  split. { intros H. apply (keig_returns_iff QcF ex6_dnorm ex6_small ex6_deigh 1 ex6_BL ex6_BL ex6_W ex6_zero HU0 HN0) in H. destruct H as [_ H].
           apply H. apply (keqb_spec CQ). vm_compute. reflexivity. }
  vm_compute. reflexivity.
Qed.
