(* C02 — Quantum-number block sparsity is an invariant of every operation sequence.
   Only statements, closed by [exact]; proofs live in Proofs/Hist*.v; the state machine is Model/History.v.

   Vocabulary
     mps_ok p / mpo_ok o   (Model/Tensor.v) the invariant "Inv" of one object: every tensor has exactly the shape given by the
                           lengths of qd, qD[i], qD[i+1], and every non-zero entry obeys  qd[s] + qD[i][a] = qD[i+1][b]
                           (MPO: qd[s] - qd[t] + qD[i][a] = qD[i+1][b]);  [C02_inv_meaning] spells this out.
     state, op, step, run  (Model/History.v) pool of MPS / MPO values, the public operations, one step, a whole history.
                           Ring operations use the executable mirrors of the code (Model/MPSOps.v, Model/GraphMPO.v, validated
                           against /repo bit for bit by the correspondence check); a failing python assertion leaves the pool
                           unchanged.  LAPACK-dependent operations are the result functions [oracles].
     Inv s                 every MPS and MPO of the pool satisfies the invariant.
     oracle_ok_at O s o    what is assumed of the oracle call issued by operation o in state s (nothing for ring operations):
                             SplitMerge  C12's contract for split_matrix_svd on the one call issued: if the input satisfies the
                                         assertions of that routine then the factors are block sparse under the returned charges
                                         (shapes as stated by C12); [C02_split_contract_from_C12] derives it from C12's model
                             FromVector  the tensors returned by the TT-SVD loop chain up (shapes only; all charges are zero)
                             Orth, OrthMpo, Compress, Tdvp, Dmrg   the returned object satisfies the invariant (on operands
                                         satisfying it); for Orth (both modes) and OrthMpo (mode 'left') this is a theorem about
                                         the executable model of C01 under LAPACK's QR contract: [C02_orth_step_contract].
   What is proved without any hypothesis on oracles: all ring operations ([C02_history_inv_ring]), including that the
   sparsity assertions inside add_mps / add_mpo / multiply_mpo / apply_operator can never fire on operands satisfying the
   invariant.  The full statement of the property for the remaining operations,
       forall ops s, Inv s -> Inv (run O ops s)     with O the models of compress / TDVP / DMRG,
   is proved only relative to [oracles_ok] ([C02_history_inv_partial]); compress, TDVP and DMRG keep that explicit
   hypothesis (no Coq model of their sparsity), it is checked on every real run by harness/props/c02.py. *)
From Coq Require Import ZArith List Bool Lia.
From PT Require Import Base.Scalar Base.Field Base.BigSum Base.Mx Model.OpGraph Model.FromOpchains Model.GraphMPO Model.BondOps.
From PT Require Import Model.Orthonormalize Model.Tensor Model.MPSOps Model.History.
From PT Require Import Proofs.BondOpsPerm Proofs.BondOpsLoop Proofs.BondOpsSpec Proofs.BondOpsRetained Proofs.BondOpsSVD Proofs.OrthTop Proofs.MPSOpsTop.
From PT Require Import Proofs.HistSparse Proofs.HistChain Proofs.HistOps Proofs.HistInv Proofs.HistCharge Proofs.HistOrth Proofs.HistSplit.
From PT Require Import Proofs.HistExample.
Import ListNotations.
Open Scope nat_scope.

(* ---- meaning of the invariant ---- *)
Theorem C02_inv_meaning : forall (R : cring) (p : mps R) (o : mpo R),
  (mps_ok p = true <-> chainP (site_okP R (m_qd p)) (m_qD p) (m_A p)) /\
  (mpo_ok o = true <-> chainP (osite_okP R (o_qd o)) (o_qD o) (o_A o)) /\
  (forall qd ql qr (A : site R), site_okP R qd ql qr A <->
     site_shape (length qd) (length ql) (length qr) A = true /\
     forall s a b, s < length qd -> a < length ql -> b < length qr -> get (sel A s) a b <> k0 R ->
       (zget qd s + zget ql a = zget qr b)%Z) /\
  (forall qd ql qr (W : osite R), osite_okP R qd ql qr W <->
     osite_shape (length qd) (length ql) (length qr) W = true /\
     forall s t a b, s < length qd -> t < length qd -> a < length ql -> b < length qr -> get (osel W s t) a b <> k0 R ->
       (zget qd s - zget qd t + zget ql a = zget qr b)%Z).
Proof.
  intros R p o. split; [apply mps_ok_P|]. split; [apply mpo_ok_P|]. split.
  - intros qd ql qr A. unfold site_okP, msp. split; intros [H1 H2]; (split; [exact H1|]); intros; eapply H2; eauto.
  - intros qd ql qr W. unfold osite_okP, msp. split; intros [H1 H2]; (split; [exact H1|]); intros; eapply H2; eauto.
Qed.
Print Assumptions C02_inv_meaning.

(* ---- (a) one preservation theorem per ring operation ---- *)
(* the structural assertions of add_mps: equal length >= 1, equal qd, equal first and last bond charges *)
Theorem C02_add_mps_ok : forall (R : cring) (alpha : R) (p q : mps R),
  mps_ok p = true -> mps_ok q = true ->
  length (m_A p) = length (m_A q) -> m_A p <> [] -> m_qd p = m_qd q ->
  hd [] (m_qD p) = hd [] (m_qD q) -> last (m_qD p) [] = last (m_qD q) [] ->
  mps_ok (add_mps alpha p q) = true /\ add_mps_asserts alpha p q = true.
Proof.
  intros R alpha p q Hp Hq H1 H2 H3 H4 H5. assert (Hpre : add_mps_pre R p q) by (repeat split; assumption).
  split; [apply add_mps_ok|apply add_mps_asserts_never_fire]; assumption.
Qed.
Print Assumptions C02_add_mps_ok.

Theorem C02_add_mpo_ok : forall (R : cring) (alpha : R) (a b : mpo R),
  mpo_ok a = true -> mpo_ok b = true ->
  length (o_A a) = length (o_A b) -> o_A a <> [] -> o_qd a = o_qd b ->
  hd [] (o_qD a) = hd [] (o_qD b) -> last (o_qD a) [] = last (o_qD b) [] ->
  mpo_ok (add_mpo alpha a b) = true /\ add_mpo_asserts alpha a b = true.
Proof.
  intros R alpha a b Hp Hq H1 H2 H3 H4 H5. assert (Hpre : add_mpo_pre R a b) by (repeat split; assumption).
  split; [apply add_mpo_ok|apply add_mpo_asserts_never_fire]; assumption.
Qed.
Print Assumptions C02_add_mpo_ok.

Theorem C02_multiply_mpo_ok : forall (R : cring) (a b : mpo R),
  mpo_ok a = true -> mpo_ok b = true -> length (o_A a) = length (o_A b) -> o_qd a = o_qd b ->
  mpo_ok (multiply_mpo a b) = true /\ multiply_mpo_asserts a b = true.
Proof. intros R a b Ha Hb HL Hq. split; [apply multiply_mpo_ok|apply multiply_mpo_asserts_never_fire]; assumption. Qed.
Print Assumptions C02_multiply_mpo_ok.

(* apply_operator additionally asserts (MPS constructor) that the boundary bonds of the result have dimension 1 *)
Theorem C02_apply_operator_ok : forall (R : cring) (o : mpo R) (p : mps R),
  mpo_ok o = true -> mps_ok p = true -> length (o_A o) = length (m_A p) -> m_qd p = o_qd o ->
  mps_ok (apply_operator o p) = true /\
  (length (hd [] (m_qD (apply_operator o p))) = 1 -> length (last (m_qD (apply_operator o p)) []) = 1 ->
   apply_operator_asserts o p = true).
Proof.
  intros R o p Ho Hp HL Hq. split; [apply apply_operator_ok; assumption|].
  intros H1 H2. apply apply_operator_asserts_never_fire; assumption.
Qed.
Print Assumptions C02_apply_operator_ok.

(* whatever the model returns (i.e. whenever the python code does not raise) satisfies the invariant *)
Theorem C02_run_results_ok : forall (R : cring) (alpha : R) (p q r : mps R) (a b c : mpo R),
  (mps_ok p = true -> mps_ok q = true -> add_mps_run alpha p q = Some r -> mps_ok r = true) /\
  (mpo_ok a = true -> mpo_ok b = true -> add_mpo_run alpha a b = Some c -> mpo_ok c = true) /\
  (mpo_ok a = true -> mpo_ok b = true -> multiply_mpo_run a b = Some c -> mpo_ok c = true) /\
  (mpo_ok a = true -> mps_ok p = true -> apply_operator_run a p = Some r -> mps_ok r = true).
Proof.
  intros R alpha p q r a b c. split; [apply add_mps_run_ok|]. split; [apply add_mpo_run_ok|].
  split; [apply multiply_mpo_run_ok|apply apply_operator_run_ok].
Qed.
Print Assumptions C02_run_results_ok.

Theorem C02_identity_ok : forall (R : cring) (qd : list Z) (L : nat) (scale : R), mpo_ok (mpo_identity qd L scale) = true.
Proof. exact identity_ok. Qed.
Print Assumptions C02_identity_ok.

(* MPS(qd, qD, fill) / MPO(qd, qD, fill): whatever the entries before masking *)
Theorem C02_constructors_ok : forall (R : cring) qd qDs (f : nat -> nat -> nat -> nat -> R)
    (g : nat -> nat -> nat -> nat -> nat -> R) (p : mps R) (o : mpo R),
  (new_mps qd qDs f = Some p -> mps_ok p = true) /\ (new_mpo qd qDs g = Some o -> mpo_ok o = true).
Proof. intros R qd qDs f g p o. split; [apply new_mps_ok|apply new_mpo_ok]. Qed.
Print Assumptions C02_constructors_ok.

(* MPO.from_opgraph and with it every Hamiltonian constructor (they all end in from_opgraph) *)
Theorem C02_from_opgraph_ok : forall (R : cring) qd (g : graph R) opmap (o : mpo R) m,
  from_opgraph qd g opmap = Ok (o, m) -> mpo_ok o = true.
Proof. exact from_opgraph_ok. Qed.
Print Assumptions C02_from_opgraph_ok.

(* MPS.from_vector: charges are all zero and qD[i+1] has the length of the bond that tensor i ends on *)
Theorem C02_from_vector_ok : forall (R : cring) d (As : list (site R)),
  chain_shape d (1 :: map site_nc As) As = true -> mps_ok (from_vector_mps d As) = true.
Proof. exact from_vector_ok. Qed.
Print Assumptions C02_from_vector_ok.

(* the key lemma: contracting two charge-conserving tensors over their shared bond (merge_mps_tensor_pair) *)
Theorem C02_merge_ok : forall (R : cring) qd0 qd1 ql qm qr (A0 A1 : site R),
  site_okP R qd0 ql qm A0 -> site_okP R qd1 qm qr A1 -> site_okP R (qflat qd0 qd1) ql qr (merge_mps_tensor_pair A0 A1).
Proof. exact merge_pair_ok. Qed.
Print Assumptions C02_merge_ok.

(* split_mps_tensor: the reshaped tensor meets the assertions of split_matrix_svd, and if the answer of that routine is
   block sparse under the returned bond charges (C12) the two tensors satisfy the invariant under these charges,
   for 'left', 'right' and 'sqrt' *)
Theorem C02_split_ok : forall (R : cring) svd ksqrt (A : site R) qd0 qd1 qD0 qD2 distr,
  site_okP R (qflat qd0 qd1) qD0 qD2 A -> 0 < length qd0 * length qd1 ->
  let M := split_matrix (length qd0) (length qd1) A in
  let q0 := qflat qd0 qD0 in let q1 := qflat (map Z.opp qd1) qD2 in
  valid_in M q0 q1 = true /\
  (svd_ans_ok R M q0 q1 (svd M q0 q1) ->
   let '(B0, B1, qb) := split_mps_tensor svd ksqrt A qd0 qd1 qD0 qD2 distr in
   site_okP R qd0 qD0 qb B0 /\ site_okP R qd1 qb qD2 B1).
Proof.
  intros R svd ksqrt A qd0 qd1 qD0 qD2 distr HA Hd. cbv zeta. split; [apply split_input_valid; assumption|].
  intros Hans. apply split_ok; try assumption. destruct HA as [SA _]. rewrite qflat_length in SA. exact SA.
Qed.
Print Assumptions C02_split_ok.

(* ---- (b) the history theorem ---- *)
Theorem C02_step_inv : forall (R : cring) (O : oracles R) (s : state R) (o : op R),
  Inv R s -> oracle_ok_at R O s o -> Inv R (step O s o).
Proof. exact step_inv. Qed.
Print Assumptions C02_step_inv.

Theorem C02_history_inv_partial : forall (R : cring) (O : oracles R) (ops : list (op R)) (s : state R),
  Inv R s -> oracles_ok R O ops s -> Inv R (run O ops s).
Proof. exact history_inv_partial. Qed.
Print Assumptions C02_history_inv_partial.

(* every reachable state: after every prefix of the history *)
Theorem C02_history_inv_every_prefix : forall (R : cring) (O : oracles R) (ops1 ops2 : list (op R)) (s : state R),
  Inv R s -> oracles_ok R O (ops1 ++ ops2) s -> Inv R (run O ops1 s).
Proof. exact history_inv_every_prefix. Qed.
Print Assumptions C02_history_inv_every_prefix.

(* histories of constructors, +, -, @, apply_operator, identity, from_opgraph: no hypothesis *)
Theorem C02_history_inv_ring : forall (R : cring) (O : oracles R) (ops : list (op R)) (s : state R),
  Forall (ring_op R) ops -> Inv R s -> Inv R (run O ops s).
Proof. exact history_inv_ring. Qed.
Print Assumptions C02_history_inv_ring.

Theorem C02_inv_b_spec : forall (R : cring) (s : state R), inv_b s = true <-> Inv R s.
Proof. exact Inv_b. Qed.
Print Assumptions C02_inv_b_spec.

(* ---- the oracle hypotheses that are theorems about executable models ---- *)
(* MPS.orthonormalize (both modes): result function = the model of C01; hypotheses = those of C01 (d >= 1, L >= 1, boundary
   bonds of dimension 1, no empty bond, LAPACK's QR contract with real diagonal of R on the calls issued) *)
Theorem C02_orth_step_contract : forall (F : ofield) (dqr : mx (Cx F) -> mx (Cx F) * mx (Cx F))
    (O : oracles (Cx F)) (s : state (Cx F)) (i : nat) (left : bool),
  or_orth O = orth_result F dqr ->
  (forall p, nth_error (states s) i = Some p ->
     orth_pre F p /\ Forall (qr_call_ok F dqr) (mps_orth_calls dqr left p)) ->
  oracle_ok_at (Cx F) O s (Orth i left).
Proof. exact orth_step_contract. Qed.
Print Assumptions C02_orth_step_contract.

Theorem C02_orth_mpo_step_contract : forall (F : ofield) (dqr : mx (Cx F) -> mx (Cx F) * mx (Cx F))
    (O : oracles (Cx F)) (s : state (Cx F)) (a : nat),
  or_orth_mpo O = orth_mpo_result F dqr ->
  (forall x, nth_error (operators s) a = Some x ->
     orth_mpo_pre F x /\ Forall (qr_call_ok F dqr) (mpo_orth_calls dqr true x)) ->
  oracle_ok_at (Cx F) O s (OrthMpo a true).
Proof. exact orth_mpo_step_contract. Qed.
Print Assumptions C02_orth_mpo_step_contract.

(* split_matrix_svd: C12's theorem about the model [block_svd] gives the contract for every non-zero valid input *)
Theorem C02_split_contract_from_C12 : forall (F : ofield) (dsvd : mx (Cx F) -> mx (Cx F) * list F * mx (Cx F))
    (pick : list F -> list nat) (tol : F) (A : mx (Cx F)) (q0 q1 : list Z),
  valid_in A q0 q1 = true -> is_zeromx A = false -> fle F (f0 F) tol -> flt F tol (f1 F) ->
  Forall (fun B => dsvd_ok F B (dsvd B)) (block_svd_calls A q0 q1) ->
  (let S := block_svd_spectrum F dsvd A q0 q1 in pick_ok F (normsq S) (pick (normsq S))) ->
  svd_ans_ok (Cx F) A q0 q1 (svd_result F dsvd pick tol A q0 q1).
Proof. exact split_contract_from_C12. Qed.
Print Assumptions C02_split_contract_from_C12.

(* ---- (c) boundary (total) bond charges ---- *)
(* sums copy both boundary charge lists from the first operand *)
Theorem C02_boundary_add : forall (R : cring) (alpha : R) (p q : mps R) (a b : mpo R),
  (length (m_qD p) = length (m_qD q) -> m_qD p <> [] ->
     hd [] (m_qD (add_mps alpha p q)) = hd [] (m_qD p) /\ last (m_qD (add_mps alpha p q)) [] = last (m_qD p) []) /\
  (length (o_qD a) = length (o_qD b) -> o_qD a <> [] ->
     hd [] (o_qD (add_mpo alpha a b)) = hd [] (o_qD a) /\ last (o_qD (add_mpo alpha a b)) [] = last (o_qD a) []).
Proof. intros R alpha p q a b. split; intros HL Hne; apply add_qD_boundary; assumption. Qed.
Print Assumptions C02_boundary_add.

(* products and applications take the outer sum of the operands' boundary charges (operator first) *)
Theorem C02_boundary_mul : forall (R : cring) (a b : mpo R) (p : mps R),
  (length (o_qD a) = length (o_qD b) ->
     hd [] (o_qD (multiply_mpo a b)) = qflat (hd [] (o_qD a)) (hd [] (o_qD b)) /\
     last (o_qD (multiply_mpo a b)) [] = qflat (last (o_qD a) []) (last (o_qD b) [])) /\
  (length (o_qD a) = length (m_qD p) ->
     hd [] (m_qD (apply_operator a p)) = qflat (hd [] (o_qD a)) (hd [] (m_qD p)) /\
     last (m_qD (apply_operator a p)) [] = qflat (last (o_qD a) []) (last (m_qD p) [])).
Proof. exact mul_boundary. Qed.
Print Assumptions C02_boundary_mul.

(* the two-site update (merge + split; building block of two-site TDVP / DMRG) rebinds one inner bond only *)
Theorem C02_split_merge_keeps_total : forall (R : cring) (O : oracles R) (s : state R) i k distr tag (p p' : mps R),
  nth_error (states s) i = Some p -> mps_ok p = true -> oracle_ok_at R O s (SplitMerge i k distr tag) ->
  step_opt O s (SplitMerge i k distr tag) <> None ->
  nth_error (states (step O s (SplitMerge i k distr tag))) i = Some p' ->
  mps_ok p' = true /\ m_qd p' = m_qd p /\ hd [] (m_qD p') = hd [] (m_qD p) /\ last (m_qD p') [] = last (m_qD p) [] /\
  length (m_A p') = length (m_A p).
Proof. exact split_merge_step_keeps_total. Qed.
Print Assumptions C02_split_merge_keeps_total.

(* a non-zero amplitude fixes the difference of the boundary charges: "the dummy-bond branch is reachable only for the
   zero state" is the contrapositive *)
Theorem C02_amp_charge : forall (R : cring) (p : mps R) (w : list nat),
  mps_ok p = true -> length (hd [] (m_qD p)) = 1 -> length (last (m_qD p) []) = 1 ->
  length w = length (m_A p) -> Forall (fun s => s < length (m_qd p)) w -> amp (m_A p) w <> k0 R ->
  (zget (hd [] (m_qD p)) 0 + wcharge (m_qd p) w = zget (last (m_qD p) []) 0)%Z.
Proof. exact amp_charge. Qed.
Print Assumptions C02_amp_charge.

(* total_charge_kept: the model of MPS.orthonormalize (both modes) returns both boundary charge lists of a non-zero state
   unchanged *)
Theorem C02_total_charge_kept_orth : forall (F : ofield) (dqr : mx (Cx F) -> mx (Cx F) * mx (Cx F))
    (left : bool) (p : mps (Cx F)) (w : list nat),
  mps_ok p = true -> orth_pre F p -> Forall (qr_call_ok F dqr) (mps_orth_calls dqr left p) ->
  length w = length (m_A p) -> Forall (fun s => s < length (m_qd p)) w -> amp (m_A p) w <> k0 (Cx F) ->
  exists p' nrm, mps_orthonormalize dqr left p = Some (p', nrm) /\ mps_ok p' = true /\ m_qd p' = m_qd p /\
    hd [] (m_qD p') = hd [] (m_qD p) /\ last (m_qD p') [] = last (m_qD p) [].
Proof. exact orth_total_charge_kept. Qed.
Print Assumptions C02_total_charge_kept_orth.
(* Not proved (checked on every real run by the plugin): the same for compress, TDVP and DMRG. *)

(* ---- non-vacuity: a pool over Z[i] with U(1) charges qd = [0;1] (L = 2, bond charges [0] [0;1] [1] and [0] [1] [1],
        an operator with bond charges [0] [0;1] [0]); the history
          states[2] = psi + (2-i) phi; ops[1] = W @ W; states[3] = ops[1] states[2]; states[0] = states[3] - states[2];
          ops[2] = identity; ops[1] = ops[1] + 3 ops[2]; states[1] = ops[1] states[0]
        runs without a failing assertion; the invariant is evaluated before and after; all states are non-zero; the bond
        dimensions reach 75; the total charges stay [0] and [1]; and a tensor with one misplaced entry is rejected ---- *)
Example C02_nonvacuous :
  inv_b ex_pool && negb (mps_ok ex_bad) && forallb (fun o => match o with AddMps _ _ _ _ | SubMps _ _ _ | AddMpo _ _ _ _
                                                     | MulMpo _ _ _ | Apply _ _ _ | Identity _ _ _ _ => true | _ => false end) ex_ops &&
  match run_opt (no_oracles GIring) ex_ops ex_pool with
  | Some s => inv_b s && state_eqb s (run (no_oracles GIring) ex_ops ex_pool) &&
              Nat.eqb (length (states s)) 4 && Nat.eqb (length (operators s)) 3 &&
              forallb mps_nonzero (states s) &&
              forallb (fun p => boundary_eqb (m_qD p) (m_qD ex_psi)) (states s) &&
              existsb (fun p => existsb (fun q => Nat.leb 75 (length q)) (m_qD p)) (states s)
  | None => false
  end = true.
Proof. vm_compute. reflexivity. Qed.
