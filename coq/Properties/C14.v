(* C14 — Lanczos and Arnoldi iterations satisfy their Krylov factorisation relations.
   Only statements, closed by [exact]; proofs live in Proofs/Krylov*.v; the model is Model/Krylov.v
   (mirror of pytenet/krylov.py:8-101 over K = Cx F, F any ordered field).

   Conventions. Vectors are lists over K; [vdot] conjugates its first argument (np.vdot); the returned
   V is the list of its columns, [vat F Vs i] the i-th one; [Afunc] is any function on vectors with
     maps_len      : it maps vectors of length n to vectors of length n,
     self_adjoint  : <x, A y> = <A x, y> on vectors of length n        (Lanczos only; linearity is not needed);
   [dnorm] (numpy.linalg.norm) is constrained only on the calls actually issued ([lanczos_calls]):
     norm_ok (x, r) : 0 <= r /\ r*r = sum |x_i|^2;
   [small] (the test  beta < 100 n eps) only by  small_sound : small b = false -> 0 < b.
   k = number of returned vectors, m = numiter. *)
From Coq Require Import ZArith QArith Qcanon List Bool Arith Lia.
From PT Require Import Base.Scalar Base.Field Model.Krylov Proofs.KrylovVec Proofs.KrylovLanczos
  Proofs.KrylovArnoldi Proofs.KrylovMatvec Proofs.KrylovExamples.
Import ListNotations.
Open Scope nat_scope.

(* lanczos_iteration, all n >= 1, all m >= 1, every non-zero start vector: the call returns (no exception),
   [lanczos_post]: 1 <= k <= m, len alpha = k, len beta = k-1, warning issued <-> k < m,
   columns of length n and orthonormal, beta_i > 0, A v_j = beta_j v_{j+1} + alpha_j v_j + beta_{j-1} v_{j-1} (j < k-1),
   <v_{k-1}, A v_{k-1}> = alpha_{k-1}; alpha real by type; first column = v / ||v||. *)
Theorem C14_lanczos_spec :
  forall (F : ofield) (n : nat) (Afunc : list (Cx F) -> list (Cx F)) (dnorm : list (Cx F) -> F) (small : F -> bool),
  maps_len F n Afunc -> self_adjoint F n Afunc -> small_sound F small ->
  forall (v : list (Cx F)) (m : nat),
  length v = n -> v <> vzero n -> 1 <= m ->
  Forall (norm_ok F) (lanczos_calls F Afunc dnorm small v m) ->
  exists r, lanczos F Afunc dnorm small v m = Some r /\ lanczos_post F n Afunc m r /\
            vat F (snd (fst r)) 0 = vdivr v (dnorm v).
Proof. exact lanczos_spec. Qed.
Print Assumptions C14_lanczos_spec.

(* the projected map equals the returned tridiagonal matrix: (V^H A V)_ij = tridiag(alpha, beta)_ij for all i, j < k *)
Theorem C14_lanczos_tridiag :
  forall (F : ofield) (n : nat) (Afunc : list (Cx F) -> list (Cx F)), self_adjoint F n Afunc ->
  forall m al be Vs wn, lanczos_post F n Afunc m (al, be, Vs, wn) ->
  forall i j, i < length Vs -> j < length Vs ->
  vdot (vat F Vs i) (Afunc (vat F Vs j)) = tri F al be i j.
Proof. exact lanczos_tridiag. Qed.
Print Assumptions C14_lanczos_tridiag.

(* arnoldi_iteration for an arbitrary map (no linearity, no symmetry assumed): the call returns
   H = hmat k cols (k x k), [arnoldi_post]: 1 <= k <= m, warning <-> k < m, orthonormal columns, and the facts below *)
Theorem C14_arnoldi_spec :
  forall (F : ofield) (n : nat) (Afunc : list (Cx F) -> list (Cx F)) (dnorm : list (Cx F) -> F) (small : F -> bool),
  maps_len F n Afunc -> small_sound F small ->
  forall (v : list (Cx F)) (m : nat),
  length v = n -> v <> vzero n -> 1 <= m ->
  Forall (norm_ok F) (arnoldi_calls F Afunc dnorm small v m) ->
  exists cols Vs wn, arnoldi F Afunc dnorm small v m = Some (hmat (length Vs) cols, Vs, wn) /\
    arnoldi_post F n Afunc m (cols, Vs, wn) /\ vat F Vs 0 = vdivr v (dnorm v).
Proof. exact arnoldi_spec. Qed.
Print Assumptions C14_arnoldi_spec.

(* H is upper Hessenberg, H = V^H A V entrywise, A v_j = sum_{i <= j+1} H_ij v_i with real positive subdiagonal (j < k-1) *)
Theorem C14_arnoldi_relations :
  forall (F : ofield) (n : nat) (Afunc : list (Cx F) -> list (Cx F)) m cols Vs wn,
  arnoldi_post F n Afunc m (cols, Vs, wn) ->
  (forall i j, j < length Vs -> S j < i -> hentry cols i j = k0 (Cx F)) /\
  (forall i j, i < length Vs -> j < length Vs -> hentry cols i j = vdot (vat F Vs i) (Afunc (vat F Vs j))) /\
  (forall j, S j < length Vs ->
     Afunc (vat F Vs j) = lincomb n (map (fun i => hentry cols i j) (seq 0 (S (S j)))) Vs /\
     exists b, hentry cols (S j) j = cof b /\ flt F (f0 F) b).
Proof.
  intros F n Afunc m cols Vs wn H. split; [|split].
  - exact (arnoldi_hessenberg F n Afunc m cols Vs wn H).
  - exact (arnoldi_projection F n Afunc m cols Vs wn H).
  - exact (arnoldi_relation F n Afunc m cols Vs wn H).
Qed.
Print Assumptions C14_arnoldi_relations.

(* the map used in the correspondence check, x |-> A x with A given by rows, meets the hypotheses
   (self-adjoint when A is Hermitian); the threshold test is sound for a positive threshold *)
Theorem C14_matvec_hypotheses :
  forall (F : ofield) (n : nat) (A : list (list (Cx F))) (thr : F),
  mat_wf F n A -> maps_len F n (matvec A) /\ (hermitian F n A -> self_adjoint F n (matvec A)) /\
  (flt F (f0 F) thr -> small_sound F (small_thr F thr)).
Proof.
  intros F n A thr H. split; [|split].
  - exact (matvec_len F n A H).
  - exact (matvec_self_adjoint F n A H).
  - exact (small_thr_sound F thr).
Qed.
Print Assumptions C14_matvec_hypotheses.

(* Non-vacuity: a complex Hermitian 3x3 rational matrix and the start vector (1, -2i, 2): all hypotheses of
   C14_lanczos_spec hold (discharged by vm_compute in Proofs/KrylovExamples.v), the model returns
   alpha = (1, 0, -1), beta = (2, 1), three vectors, no warning *)
Example C14_lanczos_nonvacuous :
  (exists r, lanczos QcF (matvec ex_A1) dnorm_ex ex_small ex_v 3 = Some r /\
             lanczos_post QcF 3 (matvec ex_A1) 3 r /\ vat QcF (snd (fst r)) 0 = vdivr ex_v (dnorm_ex ex_v)) /\
  match lanczos QcF (matvec ex_A1) dnorm_ex ex_small ex_v 3 with
  | Some (al, be, Vs, wn) =>
      fl_approx QcF (qq 0 1) al [qq 1 1; qq 0 1; qq (-1) 1] && fl_approx QcF (qq 0 1) be [qq 2 1; qq 1 1] &&
      Nat.eqb (length Vs) 3 && negb wn
  | None => false end = true.
Proof. split; [exact ex1_lanczos|vm_compute; reflexivity]. Qed.

(* Non-vacuity, early termination: the start vector lies in a two-dimensional invariant subspace; with numiter = 3
   the model returns two vectors, alpha = (1, 0), beta = (2), and signals the breakdown *)
Example C14_lanczos_breakdown_nonvacuous :
  (exists r, lanczos QcF (matvec ex_A2) dnorm_ex ex_small ex_v 3 = Some r /\
             lanczos_post QcF 3 (matvec ex_A2) 3 r /\ vat QcF (snd (fst r)) 0 = vdivr ex_v (dnorm_ex ex_v)) /\
  match lanczos QcF (matvec ex_A2) dnorm_ex ex_small ex_v 3 with
  | Some (al, be, Vs, wn) =>
      fl_approx QcF (qq 0 1) al [qq 1 1; qq 0 1] && fl_approx QcF (qq 0 1) be [qq 2 1] && Nat.eqb (length Vs) 2 && wn
  | None => false end = true.
Proof. split; [exact ex2_lanczos|vm_compute; reflexivity]. Qed.

(* Non-vacuity for Arnoldi: a non-Hermitian rational matrix, numiter = 2: H = [[1, 2], [2, 0]] *)
Example C14_arnoldi_nonvacuous :
  (exists cols Vs wn, arnoldi QcF (matvec ex_A3) dnorm_ex ex_small ex_v 2 = Some (hmat (length Vs) cols, Vs, wn) /\
     arnoldi_post QcF 3 (matvec ex_A3) 2 (cols, Vs, wn) /\ vat QcF Vs 0 = vdivr ex_v (dnorm_ex ex_v)) /\
  match arnoldi QcF (matvec ex_A3) dnorm_ex ex_small ex_v 2 with
  | Some (H, Vs, wn) =>
      vecs_approx QcF (qq 0 1) H [[(qq 1 1, qq 0 1); (qq 2 1, qq 0 1)]; [(qq 2 1, qq 0 1); (qq 0 1, qq 0 1)]] &&
      Nat.eqb (length Vs) 2 && negb wn && negb (hermitianb QcF 3 ex_A3)
  | None => false end = true.
Proof. split; [exact ex3_arnoldi|vm_compute; reflexivity]. Qed.

(* ---------------------------------------------------------------------------------------------------------------
   Early termination on an EXACTLY vanishing residual closes the factorisation: A V = V T for all k returned columns
   (Proofs/KrylovExhaust.v). [lanczos_last be Vs] = lanczos_body (k-1) be Vs = (alpha_{k-1}, w_{k-1}, dnorm w_{k-1}) is
   the residual of the last step recomputed from the returned state (on the early-return path: exactly what the loop
   computed when it broke off); [tcol F k t j] is column j of the k x k matrix t, [tri F al be] = tridiag(alpha, beta),
   [hfun F H i j] = H[i][j]. "Exact breakdown" = the warning was issued (wn = true) and numpy.linalg.norm answered 0 on
   the last residual; by the norm contract on the calls issued this forces w_{k-1} = 0. Nothing is claimed when the
   norm is small but non-zero (floating point breakdown): then A V = V T holds only up to the residual. *)
From PT Require Import Proofs.KrylovRitz Proofs.KrylovPoly Proofs.KrylovExhaust Proofs.KrylovExamples15 Proofs.KrylovExamplesExhaust.

(* zero last residual (whether or not a breakdown was signalled) ==> A v_j = sum_l T_lj v_l for every j < k *)
Theorem C14_lanczos_zero_resid_AV_VT :
  forall (F : ofield) (n : nat) (Afunc : list (Cx F) -> list (Cx F)) (dnorm : list (Cx F) -> F),
  maps_len F n Afunc -> self_adjoint F n Afunc ->
  forall (m : nat) (al be : list F) (Vs : list (list (Cx F))) (wn : bool),
  lanczos_post F n Afunc m (al, be, Vs, wn) ->
  lanczos_last_resid F Afunc dnorm be Vs = vzero n ->
  forall j, j < length Vs -> Afunc (vat F Vs j) = lincomb n (tcol F (length Vs) (tri F al be) j) Vs.
Proof. exact lanczos_zero_resid_AV_VT. Qed.
Print Assumptions C14_lanczos_zero_resid_AV_VT.

(* breakdown signalled with norm answer 0: k < m, orthonormal columns, first column v/||v||, and A V = V T *)
Theorem C14_lanczos_exact_breakdown_AV_VT :
  forall (F : ofield) (n : nat) (Afunc : list (Cx F) -> list (Cx F)) (dnorm : list (Cx F) -> F) (small : F -> bool),
  maps_len F n Afunc -> self_adjoint F n Afunc -> small_sound F small ->
  forall (v : list (Cx F)) (m : nat) (al be : list F) (Vs : list (list (Cx F))),
  length v = n -> v <> vzero n -> 1 <= m ->
  Forall (norm_ok F) (lanczos_calls F Afunc dnorm small v m) ->
  lanczos F Afunc dnorm small v m = Some (al, be, Vs, true) ->
  lanczos_last_norm F Afunc dnorm be Vs = f0 F ->
  1 <= length Vs /\ length Vs < m /\ vat F Vs 0 = vdivr v (dnorm v) /\ orthonormal F n Vs /\
  forall j, j < length Vs -> Afunc (vat F Vs j) = lincomb n (tcol F (length Vs) (tri F al be) j) Vs.
Proof. exact lanczos_exact_breakdown_AV_VT. Qed.
Print Assumptions C14_lanczos_exact_breakdown_AV_VT.

Theorem C14_arnoldi_zero_resid_AV_VH :
  forall (F : ofield) (n : nat) (Afunc : list (Cx F) -> list (Cx F)) (dnorm : list (Cx F) -> F),
  maps_len F n Afunc ->
  forall (m : nat) (cols Vs : list (list (Cx F))) (wn : bool),
  arnoldi_post F n Afunc m (cols, Vs, wn) ->
  arnoldi_last_resid F Afunc dnorm Vs = vzero n ->
  forall j, j < length Vs -> Afunc (vat F Vs j) = lincomb n (tcol F (length Vs) (hentry cols) j) Vs.
Proof. exact arnoldi_zero_resid_AV_VH. Qed.
Print Assumptions C14_arnoldi_zero_resid_AV_VH.

Theorem C14_arnoldi_exact_breakdown_AV_VH :
  forall (F : ofield) (n : nat) (Afunc : list (Cx F) -> list (Cx F)) (dnorm : list (Cx F) -> F) (small : F -> bool),
  maps_len F n Afunc -> small_sound F small ->
  forall (v : list (Cx F)) (m : nat) (H Vs : list (list (Cx F))),
  length v = n -> v <> vzero n -> 1 <= m ->
  Forall (norm_ok F) (arnoldi_calls F Afunc dnorm small v m) ->
  arnoldi F Afunc dnorm small v m = Some (H, Vs, true) ->
  arnoldi_last_norm F Afunc dnorm Vs = f0 F ->
  1 <= length Vs /\ length Vs < m /\ vat F Vs 0 = vdivr v (dnorm v) /\ orthonormal F n Vs /\
  forall j, j < length Vs -> Afunc (vat F Vs j) = lincomb n (tcol F (length Vs) (hfun F H) j) Vs.
Proof. exact arnoldi_exact_breakdown_AV_VH. Qed.
Print Assumptions C14_arnoldi_exact_breakdown_AV_VH.

(* Non-vacuity: ex_A4 (Hermitian, rational), start vector (1,-2i,2) in a two-dimensional invariant subspace, numiter = 3:
   the residual at step 1 vanishes exactly, the exact-square-root norm oracle answers 0, the breakdown is signalled,
   two vectors are returned and A V = V T holds for both columns (Proofs/KrylovExamplesExhaust.v) *)
Example C14_exact_breakdown_nonvacuous :
  (exists al be Vs,
     lanczos QcF (matvec ex_A4) dnorm_ex ex_small ex_v 3 = Some (al, be, Vs, true) /\ length Vs = 2 /\
     forall j, j < length Vs -> matvec ex_A4 (vat QcF Vs j) = lincomb 3 (tcol QcF (length Vs) (tri QcF al be) j) Vs) /\
  match lanczos QcF (matvec ex_A4) dnorm_ex ex_small ex_v 3 with
  | Some (al, be, Vs, wn) =>
      fl_approx QcF (qq 0 1) al [qq 16 1; qq 9 1] && fl_approx QcF (qq 0 1) be [qq 12 1] && Nat.eqb (length Vs) 2 && wn &&
      feqb QcF (lanczos_last_norm QcF (matvec ex_A4) dnorm_ex be Vs) (f0 QcF)
  | None => false end = true.
Proof. split; [exact ex5_AV_VT|vm_compute; reflexivity]. Qed.
