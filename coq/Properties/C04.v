(* C04 — Inner products, expectation values and environment blocks match dense results.
   Only statements, closed by [exact]; proofs live in Proofs/Operation*.v.  The model is Model/Operation.v
   (executable mirror of pytenet/operation.py, tied to the code by harness/props/c04.py).

   Dense meaning (Model/Tensor.v): amp As w = <w|psi>, opamp Ws w w' = <w|O|w'>, words d L = all basis words.
   All theorems hold for every commutative ring with conjugation R, every L >= 1, every physical dimension
   d >= 1 and all bond profiles (bra, ket and operator independent); the shape hypotheses are the boolean
   predicates of Proofs/OperationUniform.v (shapes fit the stated bond profile, leading and trailing bond
   dimension 1, MPO bond dimensions positive).  Versions with a different physical dimension at every site
   (used for two-site problems: one site of dimension d^2) are in Proofs/OperationSpecs.v and
   Proofs/OperationLocal.v ([vdot_sites_spec], [local_hamiltonian_projection], ...). *)
From Coq Require Import ZArith List Bool Lia.
From PT Require Import Base.Scalar Base.BigSum Base.Mx Model.Tensor Model.Operation
  Proofs.OperationChains Proofs.OperationLocal Proofs.OperationUniform Proofs.OperationTwoSite.
Import ListNotations.

(* <chi|psi> with the FIRST argument conjugated *)
Theorem C04_vdot_spec : forall (R : cring) (chi psi : mps R) d Dchi Dpsi,
  mps_shapeb d Dpsi (m_A psi) = true -> mps_shapeb d Dchi (m_A chi) = true -> length (m_A chi) = length (m_A psi) ->
  vdot chi psi = Some (suml (words d (length (m_A psi))) (fun w => kmul R (kconj R (amp (m_A chi) w)) (amp (m_A psi) w))).
Proof. exact vdot_spec_u. Qed.
Print Assumptions C04_vdot_spec.

(* norm: square root (oracle dsqrt) of the real part (oracle re) of sum_w |<w|psi>|^2 *)
Theorem C04_norm_spec : forall (R : cring) (psi : mps R) d Dpsi (re dsqrt : R -> R),
  mps_shapeb d Dpsi (m_A psi) = true ->
  norm re dsqrt psi = Some (dsqrt (re (suml (words d (length (m_A psi)))
                        (fun w => kmul R (kconj R (amp (m_A psi) w)) (amp (m_A psi) w))))).
Proof. exact norm_spec_u. Qed.
Print Assumptions C04_norm_spec.

(* <chi|O|psi> *)
Theorem C04_operator_inner_product_spec : forall (R : cring) (chi : mps R) (op : mpo R) (psi : mps R) d Dchi Dop Dpsi,
  mps_shapeb d Dpsi (m_A psi) = true -> mps_shapeb d Dchi (m_A chi) = true -> mpo_shapeb d Dop (o_A op) = true ->
  length (m_A chi) = length (m_A psi) -> length (o_A op) = length (m_A psi) ->
  operator_inner_product chi op psi =
  Some (suml (words d (length (m_A psi))) (fun w => suml (words d (length (m_A psi))) (fun w' =>
    kmul R (kmul R (kconj R (amp (m_A chi) w)) (opamp (o_A op) w w')) (amp (m_A psi) w')))).
Proof. exact operator_inner_product_spec_u. Qed.
Print Assumptions C04_operator_inner_product_spec.

(* <psi|O|psi> *)
Theorem C04_operator_average_spec : forall (R : cring) (psi : mps R) (op : mpo R) d Dop Dpsi,
  mps_shapeb d Dpsi (m_A psi) = true -> mpo_shapeb d Dop (o_A op) = true -> length (o_A op) = length (m_A psi) ->
  operator_average psi op =
  Some (suml (words d (length (m_A psi))) (fun w => suml (words d (length (m_A psi))) (fun w' =>
    kmul R (kmul R (kconj R (amp (m_A psi) w)) (opamp (o_A op) w w')) (amp (m_A psi) w')))).
Proof. exact operator_average_spec_u. Qed.
Print Assumptions C04_operator_average_spec.

(* tr[op rho] = sum_{w,w'} <w|op|w'> <w'|rho|w> *)
Theorem C04_density_average_spec : forall (R : cring) (rho op : mpo R) d Drho Dop,
  mpo_shapeb d Drho (o_A rho) = true -> mpo_shapeb d Dop (o_A op) = true -> length (o_A op) = length (o_A rho) ->
  operator_density_average rho op =
  Some (suml (words d (length (o_A rho))) (fun w => suml (words d (length (o_A rho))) (fun w' =>
    kmul R (opamp (o_A op) w w') (opamp (o_A rho) w' w)))).
Proof. exact density_average_spec_u. Qed.
Print Assumptions C04_density_average_spec.

(* One-site effective operator.  Ket chain Al ++ [.] ++ Ar, bra chain Bl ++ [.] ++ Br (independent tensors and
   bond profiles, no canonical form), operator Wl ++ [W] ++ Wr.  With BL built by left steps from the sites before
   the local one and BR by right steps from the sites after it (both started from [[[1]]]), for ALL site tensors X, Y:
   <Y | H_eff X>  =  < embed Y | O | embed X >,  embed X = the chain with X at the local site. *)
Theorem C04_local_hamiltonian_is_projection :
  forall (R : cring) d (Al Ar Bl Br : list (site R)) (Wl Wr : list (osite R)) (X Y : site R) (W : osite R)
         DsAl DsBl DsWl Dar Dbr Dwr DsAr DsBr DsWr,
  local_shapeb d Al Ar Bl Br Wl Wr X Y W DsAl DsBl DsWl Dar Dbr Dwr DsAr DsBr DsWr = true ->
  let n := (length Al + S (length Ar))%nat in
  site_dot Y (apply_local_hamiltonian (lfold Al Bl Wl env_one) (rfold Ar Br Wr env_one) W X) =
  suml (words d n) (fun w => suml (words d n) (fun w' =>
    kmul R (kmul R (kconj R (amp (Bl ++ Y :: Br) w)) (opamp (Wl ++ W :: Wr) w w')) (amp (Al ++ X :: Ar) w'))).
Proof. exact local_hamiltonian_is_projection_u. Qed.
Print Assumptions C04_local_hamiltonian_is_projection.

(* Zero-site (bond) effective operator on the bond in front of site A: the bond matrix is absorbed into that site
   (cmul_site C A = [C . A[s]]_s); BR contains site A. *)
Theorem C04_local_bond_is_projection :
  forall (R : cring) d (Al Ar Bl Br : list (site R)) (Wl Wr : list (osite R)) (A B : site R) (W : osite R) (Cx Cy : mx R)
         DsAl DsBl DsWl Dar Dbr Dwr DsAr DsBr DsWr,
  local_shapeb d Al Ar Bl Br Wl Wr A B W DsAl DsBl DsWl Dar Dbr Dwr DsAr DsBr DsWr = true ->
  nr Cx = last DsAl 0%nat -> nc Cx = last DsAl 0%nat -> nr Cy = last DsBl 0%nat -> nc Cy = last DsBl 0%nat ->
  let n := (length Al + S (length Ar))%nat in
  frob Cy (apply_local_bond_contraction (lfold Al Bl Wl env_one) (rfold (A :: Ar) (B :: Br) (W :: Wr) env_one) Cx) =
  suml (words d n) (fun w => suml (words d n) (fun w' =>
    kmul R (kmul R (kconj R (amp (Bl ++ cmul_site Cy B :: Br) w)) (opamp (Wl ++ W :: Wr) w w'))
           (amp (Al ++ cmul_site Cx A :: Ar) w'))).
Proof. exact local_bond_is_projection_u. Qed.
Print Assumptions C04_local_bond_is_projection.

(* H_eff is Hermitian whenever the MPO is (bra and ket share the environment, as in DMRG/TDVP) *)
Theorem C04_heff_hermitian :
  forall (R : cring) d (Al Ar : list (site R)) (Wl Wr : list (osite R)) (X Y : site R) (W : osite R)
         DsAl DsWl Dar Dwr DsAr DsWr,
  local_shapeb d Al Ar Al Ar Wl Wr X Y W DsAl DsAl DsWl Dar Dar Dwr DsAr DsAr DsWr = true ->
  let n := (length Al + S (length Ar))%nat in
  (forall w w', In w (words d n) -> In w' (words d n) ->
     opamp (Wl ++ W :: Wr) w w' = kconj R (opamp (Wl ++ W :: Wr) w' w)) ->
  site_dot Y (apply_local_hamiltonian (lfold Al Al Wl env_one) (rfold Ar Ar Wr env_one) W X) =
  kconj R (site_dot X (apply_local_hamiltonian (lfold Al Al Wl env_one) (rfold Ar Ar Wr env_one) W Y)).
Proof. exact heff_hermitian_u. Qed.
Print Assumptions C04_heff_hermitian.

(* Two-site effective operator (sites i, i+1; W2 = merge_mpo_tensor_pair(W_i, W_{i+1}); X, Y arbitrary two-site tensors
   with d*d matrices indexed s0*d + s1 as merge_mps_tensor_pair produces them).  The embedded state has amplitude
   amp (Al ++ X :: Ar) (coarse_word i d w) at the fine word w, where coarse_word fuses the letters i, i+1. *)
Theorem C04_two_site_is_projection :
  forall (R : cring) d (Al Ar Bl Br : list (site R)) (Wl Wr : list (osite R)) (X Y : site R) (W0 W1 : osite R)
         DsAl DsBl DsWl Dar Dbr Dwm Dwr DsAr DsBr DsWr,
  local2_shapeb d Al Ar Bl Br Wl Wr X Y W0 W1 DsAl DsBl DsWl Dar Dbr Dwm Dwr DsAr DsBr DsWr = true ->
  let n := (length Al + S (S (length Ar)))%nat in
  let cg := coarse_word (length Al) d in
  site_dot Y (apply_local_hamiltonian (lfold Al Bl Wl env_one) (rfold Ar Br Wr env_one) (c04_merge_osite W0 W1) X) =
  suml (words d n) (fun w => suml (words d n) (fun w' =>
    kmul R (kmul R (kconj R (amp (Bl ++ Y :: Br) (cg w))) (opamp (Wl ++ W0 :: W1 :: Wr) w w')) (amp (Al ++ X :: Ar) (cg w')))).
Proof. exact two_site_is_projection_u. Qed.
Print Assumptions C04_two_site_is_projection.

(* ... and embedding the merged tensor of two neighbouring sites gives back the original state
   (per-site dimensions d0, d1; Prop-level shapes of Proofs/OperationChains.v, OperationLocal.v) *)
Theorem C04_merged_tensor_embeds_state :
  forall (R : cring) (Al : list (site R)) dsl DsAl d0 d1 Dal Dam Dar dsr DsAr (A0 A1 : site R) (Ar : list (site R)) w,
  chainx_ok dsl DsAl Al -> Proofs.OperationEntries.site_ok d0 Dal Dam A0 -> Proofs.OperationEntries.site_ok d1 Dam Dar A1 ->
  chain_ok dsr (Dar :: DsAr) Ar -> In w (gwords (dsl ++ d0 :: d1 :: dsr)) ->
  amp (Al ++ c04_merge_site A0 A1 :: Ar) (coarse_word (length dsl) d1 w) = amp (Al ++ A0 :: A1 :: Ar) w.
Proof. exact amp_merge. Qed.
Print Assumptions C04_merged_tensor_embeds_state.

(* NOT covered by the theorems (validated by the correspondence runs and the dense reference of harness/props/c04.py):
   floating-point rounding — the theorems are exact identities in every commutative ring with conjugation, the float64
   runs agree bit for bit with the model on integer inputs; np.sqrt and .real in norm are oracles of the model;
   the bond theorem is stated for a bond that has a site to its right (bonds 0..L-1), the boundary bond L only by runs. *)

(* ---------------- non-vacuity: a concrete complex instance, L = 3, d = 2, evaluated by the kernel ---------------- *)
Definition gm := @mkmx GIring.
Open Scope Z_scope.
Definition ex_psi : list (site GIring) := [[(gm 1%nat 2%nat [[(2, 0); (1, 1)]]); (gm 1%nat 2%nat [[(1, 2); (2, (-1))]])]; [(gm 2%nat 2%nat [[((-2), (-2)); ((-1), 1)]; [((-1), (-2)); (2, 0)]]); (gm 2%nat 2%nat [[(2, 2); ((-2), (-1))]; [(0, (-1)); (2, (-1))]])]; [(gm 2%nat 1%nat [[(1, 0)]; [((-1), 0)]]); (gm 2%nat 1%nat [[(2, 0)]; [(0, 0)]])]].
Definition ex_chi : list (site GIring) := [[(gm 1%nat 2%nat [[(0, 1); (2, 1)]]); (gm 1%nat 2%nat [[(2, (-1)); (1, 2)]])]; [(gm 2%nat 1%nat [[(0, 2)]; [((-1), 1)]]); (gm 2%nat 1%nat [[(2, (-2))]; [((-2), (-2))]])]; [(gm 1%nat 1%nat [[(0, (-2))]]); (gm 1%nat 1%nat [[((-2), 0)]])]].
Definition ex_op : list (osite GIring) := [[[(gm 1%nat 2%nat [[(2, 2); (2, (-2))]]); (gm 1%nat 2%nat [[(0, 1); (2, 0)]])]; [(gm 1%nat 2%nat [[(2, 0); (0, (-1))]]); (gm 1%nat 2%nat [[(2, 0); (2, 0)]])]]; [[(gm 2%nat 2%nat [[((-1), 2); (0, 0)]; [(0, 0); ((-1), (-2))]]); (gm 2%nat 2%nat [[(0, (-2)); (0, 0)]; [(0, 0); ((-1), 2)]])]; [(gm 2%nat 2%nat [[((-1), (-2)); (0, 0)]; [(0, 0); (0, 2)]]); (gm 2%nat 2%nat [[((-1), (-2)); (0, 0)]; [(0, 0); ((-1), 2)]])]]; [[(gm 2%nat 1%nat [[(2, 1)]; [(2, (-1))]]); (gm 2%nat 1%nat [[(1, (-1))]; [(2, 0)]])]; [(gm 2%nat 1%nat [[(2, 0)]; [(1, 1)]]); (gm 2%nat 1%nat [[((-1), (-2))]; [((-1), 2)]])]]].
Definition ex_rho : list (osite GIring) := [[[(gm 1%nat 1%nat [[(1, 0)]]); (gm 1%nat 1%nat [[(2, (-1))]])]; [(gm 1%nat 1%nat [[(1, 2)]]); (gm 1%nat 1%nat [[((-2), 2)]])]]; [[(gm 1%nat 2%nat [[((-2), 0); (0, (-2))]]); (gm 1%nat 2%nat [[(2, (-1)); (2, 0)]])]; [(gm 1%nat 2%nat [[(1, 1); (1, 0)]]); (gm 1%nat 2%nat [[((-2), 1); (1, 2)]])]]; [[(gm 2%nat 1%nat [[(1, 0)]; [((-1), (-1))]]); (gm 2%nat 1%nat [[(1, (-1))]; [(0, (-2))]])]; [(gm 2%nat 1%nat [[((-2), (-1))]; [((-2), 2)]]); (gm 2%nat 1%nat [[(1, 0)]; [((-1), (-1))]])]]].
Definition ex_X : site GIring := [(gm 2%nat 2%nat [[(0, 0); (2, 1)]; [((-1), 2); (0, (-2))]]); (gm 2%nat 2%nat [[(0, 0); (1, 0)]; [(0, (-1)); (1, (-1))]])].
Definition ex_Y : site GIring := [(gm 2%nat 1%nat [[((-2), 0)]; [(0, 2)]]); (gm 2%nat 1%nat [[(2, 2)]; [((-2), (-1))]])].
Definition ex_Yk : site GIring := [(gm 2%nat 2%nat [[((-2), 0); (1, (-2))]; [((-2), 2); ((-1), 2)]]); (gm 2%nat 2%nat [[(0, 0); (2, 2)]; [((-2), 1); (1, 2)]])].
Definition ex_Cx : mx GIring := (gm 2%nat 2%nat [[(2, 0); (0, (-2))]; [((-1), 1); ((-2), 2)]]).
Definition ex_Cy : mx GIring := (gm 2%nat 2%nat [[((-1), (-1)); (0, 2)]; [((-2), 2); ((-2), 1)]]).
Close Scope Z_scope.

Definition ex_words := words 2 3.
Definition gsum2 (f : list nat -> list nat -> GIring) : GIring := suml ex_words (fun w => suml ex_words (fun w' => f w w')).

(* hypotheses of C04_vdot_spec / C04_norm_spec hold, both sides agree and are non-zero *)
Example C04_vdot_nonvacuous :
  mps_shapeb 2 [1;2;2;1]%nat ex_psi && mps_shapeb 2 [1;2;1;1]%nat ex_chi && Nat.eqb (length ex_chi) (length ex_psi)
  && opt_eqb (vdot (mkmps [] [] ex_chi) (mkmps [] [] ex_psi))
             (suml ex_words (fun w => kmul GIring (kconj GIring (amp ex_chi w)) (amp ex_psi w)))
  && negb (opt_eqb (vdot (mkmps [] [] ex_chi) (mkmps [] [] ex_psi)) (0, 0)%Z)
  && negb (opt_eqb (vdot (mkmps [] [] ex_psi) (mkmps [] [] ex_chi)) (suml ex_words (fun w => kmul GIring (kconj GIring (amp ex_chi w)) (amp ex_psi w))))
  && negb (opt_eqb (norm (R:=GIring) (fun z => (fst z, 0%Z)) (fun z => z) (mkmps [] [] ex_psi)) (0, 0)%Z) = true.
Proof. vm_compute. reflexivity. Qed.

Example C04_operator_nonvacuous :
  mps_shapeb 2 [1;2;2;1]%nat ex_psi && mps_shapeb 2 [1;2;1;1]%nat ex_chi && mpo_shapeb 2 [1;2;2;1]%nat ex_op
  && mpo_shapeb 2 [1;1;2;1]%nat ex_rho
  && opt_eqb (operator_inner_product (mkmps [] [] ex_chi) (mkmpo [] [] ex_op) (mkmps [] [] ex_psi))
       (gsum2 (fun w w' => kmul GIring (kmul GIring (kconj GIring (amp ex_chi w)) (opamp ex_op w w')) (amp ex_psi w')))
  && negb (opt_eqb (operator_inner_product (mkmps [] [] ex_chi) (mkmpo [] [] ex_op) (mkmps [] [] ex_psi)) (0, 0)%Z)
  && opt_eqb (operator_average (mkmps [] [] ex_psi) (mkmpo [] [] ex_op))
       (gsum2 (fun w w' => kmul GIring (kmul GIring (kconj GIring (amp ex_psi w)) (opamp ex_op w w')) (amp ex_psi w')))
  && negb (opt_eqb (operator_average (mkmps [] [] ex_psi) (mkmpo [] [] ex_op)) (0, 0)%Z)
  && opt_eqb (operator_density_average (mkmpo [] [] ex_rho) (mkmpo [] [] ex_op))
       (gsum2 (fun w w' => kmul GIring (opamp ex_op w w') (opamp ex_rho w' w)))
  && negb (opt_eqb (operator_density_average (mkmpo [] [] ex_rho) (mkmpo [] [] ex_op)) (0, 0)%Z) = true.
Proof. vm_compute. reflexivity. Qed.

(* local problem at the middle site: independent bra and ket *)
Example C04_local_nonvacuous :
  let Al := firstn 1 ex_psi in let Ar := skipn 2 ex_psi in
  let Bl := firstn 1 ex_chi in let Br := skipn 2 ex_chi in
  let Wl := firstn 1 ex_op in let Wr := skipn 2 ex_op in let W := nth 1 ex_op [] in
  local_shapeb 2 Al Ar Bl Br Wl Wr ex_X ex_Y W [1;2]%nat [1;2]%nat [1;2]%nat 2 1 2 [1]%nat [1]%nat [1]%nat
  && keqb GIring (site_dot ex_Y (apply_local_hamiltonian (lfold Al Bl Wl env_one) (rfold Ar Br Wr env_one) W ex_X))
       (gsum2 (fun w w' => kmul GIring (kmul GIring (kconj GIring (amp (Bl ++ ex_Y :: Br) w)) (opamp ex_op w w')) (amp (Al ++ ex_X :: Ar) w')))
  && negb (keqb GIring (site_dot ex_Y (apply_local_hamiltonian (lfold Al Bl Wl env_one) (rfold Ar Br Wr env_one) W ex_X)) (0, 0)%Z)
  (* bond in front of the middle site *)
  && local_shapeb 2 Al Ar Bl Br Wl Wr (nth 1 ex_psi []) (nth 1 ex_chi []) W [1;2]%nat [1;2]%nat [1;2]%nat 2 1 2 [1]%nat [1]%nat [1]%nat
  && keqb GIring (frob ex_Cy (apply_local_bond_contraction (lfold Al Bl Wl env_one) (rfold (skipn 1 ex_psi) (skipn 1 ex_chi) (skipn 1 ex_op) env_one) ex_Cx))
       (gsum2 (fun w w' => kmul GIring (kmul GIring (kconj GIring (amp (Bl ++ cmul_site ex_Cy (nth 1 ex_chi []) :: Br) w)) (opamp ex_op w w'))
                                         (amp (Al ++ cmul_site ex_Cx (nth 1 ex_psi []) :: Ar) w')))
  && negb (keqb GIring (frob ex_Cy (apply_local_bond_contraction (lfold Al Bl Wl env_one) (rfold (skipn 1 ex_psi) (skipn 1 ex_chi) (skipn 1 ex_op) env_one) ex_Cx)) (0, 0)%Z)
  = true.
Proof. vm_compute. reflexivity. Qed.

(* the Hermiticity hypothesis is satisfiable by a non-trivial complex MPO (bond dimension 2), and the conclusion holds *)
Example C04_hermitian_nonvacuous :
  let Al := firstn 1 ex_psi in let Ar := skipn 2 ex_psi in
  let Wl := firstn 1 ex_op in let Wr := skipn 2 ex_op in let W := nth 1 ex_op [] in
  let H x y := site_dot y (apply_local_hamiltonian (lfold Al Al Wl env_one) (rfold Ar Ar Wr env_one) W x) in
  local_shapeb 2 Al Ar Al Ar Wl Wr ex_X ex_Yk W [1;2]%nat [1;2]%nat [1;2]%nat 2 2 2 [1]%nat [1]%nat [1]%nat
  && forallb (fun w => forallb (fun w' => keqb GIring (opamp ex_op w w') (kconj GIring (opamp ex_op w' w))) ex_words) ex_words
  && existsb (fun w => existsb (fun w' => negb (keqb GIring (opamp ex_op w w') (opamp ex_op w' w))) ex_words) ex_words
  && keqb GIring (H ex_X ex_Yk) (kconj GIring (H ex_Yk ex_X))
  && negb (keqb GIring (H ex_X ex_Yk) (H ex_Yk ex_X)) = true.
Proof. vm_compute. reflexivity. Qed.

(* two-site problem on sites 0,1 of the example (X2, Y2 arbitrary complex tensors with 4 matrices) *)
Open Scope Z_scope.
Definition ex_X2 : site GIring :=
  [gm 1%nat 2%nat [[(1, -1); (2, 0)]]; gm 1%nat 2%nat [[(0, 1); (-1, 2)]]; gm 1%nat 2%nat [[(2, 2); (1, 0)]]; gm 1%nat 2%nat [[(-2, 1); (0, -1)]]].
Definition ex_Y2 : site GIring :=
  [gm 1%nat 1%nat [[(1, 1)]]; gm 1%nat 1%nat [[(0, -2)]]; gm 1%nat 1%nat [[(2, 0)]]; gm 1%nat 1%nat [[(-1, 1)]]].
Close Scope Z_scope.
Example C04_two_site_nonvacuous :
  let Ar := skipn 2 ex_psi in let Br := skipn 2 ex_chi in let Wr := skipn 2 ex_op in
  let W0 := nth 0 ex_op [] in let W1 := nth 1 ex_op [] in
  let cg := coarse_word 0 2 in
  let v := site_dot ex_Y2 (apply_local_hamiltonian (lfold [] [] [] env_one) (rfold Ar Br Wr env_one) (c04_merge_osite W0 W1) ex_X2) in
  local2_shapeb 2 [] Ar [] Br [] Wr ex_X2 ex_Y2 W0 W1 [1]%nat [1]%nat [1]%nat 2 1 2 2 [1]%nat [1]%nat [1]%nat
  && keqb GIring v (gsum2 (fun w w' => kmul GIring (kmul GIring (kconj GIring (amp (ex_Y2 :: Br) (cg w))) (opamp ex_op w w')) (amp (ex_X2 :: Ar) (cg w'))))
  && negb (keqb GIring v (0, 0)%Z)
  && forallb (fun w => keqb GIring (amp (c04_merge_site (nth 0 ex_psi []) (nth 1 ex_psi []) :: Ar) (cg w)) (amp ex_psi w)) ex_words = true.
Proof. vm_compute. reflexivity. Qed.
