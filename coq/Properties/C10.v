(* C10 — DMRG energies are variational, consistent with the returned state and monotone.
   Only statements, closed by [exact]; proofs in Proofs/Sweeps*.v; the model is Model/Sweeps.v (dmrg_singlesite,
   dmrg_twosite: executable skeletons of pytenet/minimization.py with the local eigensolver, the block QR and the SVD split
   as oracles), tied to the code by the trace correspondence of harness/props/c10.py.

   FULL INTENDED STATEMENT (property text): for a Hermitian MPO, single-site and two-site DMRG (zero split tolerance) leave a
   normalised state whose energy expectation value equals the last reported energy; every reported energy is at least the
   exact ground-state energy (of the sector), never exceeds the energy of the normalised starting state, and the sequence
   of reported energies is non-increasing; on a complete manifold with enough iterations the ground energy is reached; the
   Hamiltonian is never modified.

   WHAT IS PROVED HERE
     * C10_dmrg1_whole_run: the whole single-site run (L >= 2, any number of sweeps, any bond profile), scalars in Cx F for an
       ARBITRARY ordered field F: the returned state is normalised; the last reported energy equals <psi|H|psi> of the
       returned state; the reported energies are non-increasing; none exceeds the energy of the normalised start state; each
       is >= lam for every lam with H >= lam on the dense space (in particular the ground energy).  Relative to the contracts
       of the oracle calls THE RUN ISSUES (read off the trace, Proofs/SweepsRun.v: dmrg_call_ok): block QR = LAPACK's
       contract; local eigensolver = Ritz contract (|A'| = 1, theta = <A'|H_eff A'>, theta <A|A> <= <A|H_eff A> for the start
       tensor A: what eigh_krylov returns, C15), MPS.orthonormalize returns right-isometric tensors.
     * C10_dmrg2_whole_run: the same five conclusions for the whole two-site run (L >= 2, any number of sweeps, any bond
       profile, zero split tolerance), relative to the contracts of the calls the run issues (Proofs/Sweeps2Run.v:
       dmrg2_call_ok): Ritz contract for the merged two-site problem (tensors of physical dimension d*d, merged MPO tensor);
       every split_mps_tensor call is EXACT: the minimiser factors entrywise through the two answers (merging undoes the
       split, C03_merge_split_id) and the factor that did not receive the singular values is an isometry ('right': A[i]
       left-isometric, 'left': A[i+1] right-isometric; C10_split_contract_spec); LAPACK's contract for the final QR.
       Induction over the two-site schedule with the invariant "sites < i left-isometric, sites > i+1 right-isometric, BL / BR
       the blocks of those sites" (Proofs/Sweeps2Inv.v: Z2); after a 'right' split the centre is handed to site i+1, the
       right-to-left sweep enters its first pair with the centre on the left and all later pairs with the centre on the right.
     * per local problem (one-site): C10_dmrg_energy_is_expectation, C10_dmrg_variational, C10_dmrg_monotone; which energy a
       sweep records (C10_dmrg1_reported_energy, C10_dmrg2_reported_energy); the call schedule of both algorithms.
   PARTIAL: reaching the exact ground energy on a complete manifold (spectral theory) is not attempted; a split with tol > 0 is
   outside the theorem (monotonicity is false then); rounding is measured by prop(); H is an argument of the model that
   nothing returns or updates (the plugin compares bytes). *)
From Coq Require Import ZArith QArith Qcanon List Bool Lia.
From PT Require Import Base.Scalar Base.Field Base.BigSum Base.Mx Model.Tensor Model.Operation Model.Sweeps
  Proofs.OperationEntries Proofs.OperationLocal Proofs.OperationUniform Proofs.OperationTwoSite
  Proofs.SweepsSched Proofs.SweepsCanon Proofs.SweepsLocal Proofs.SweepsGauge Proofs.SweepsRun Proofs.SweepsCheck Proofs.SweepsExample
  Proofs.Sweeps2Inv Proofs.Sweeps2Run Proofs.Sweeps2Check Proofs.Sweeps2Example.
Import ListNotations.

(* WHOLE RUN, single-site.  E0 = energy of the (normalised) state after the initial right-orthonormalisation. *)
Theorem C10_dmrg1_whole_run : forall (F : ofield) orth qr keig (H : mpo (Cx F)) psi n d DsW Ds0 lam A qD ens tr,
  dmrg_singlesite orth qr keig H psi n = Some (A, qD, ens, tr) ->
  mpo_shapeb d DsW (o_A H) = true -> mps_shapeb d Ds0 (m_A (fst (orth psi))) = true ->
  Forall right_iso (m_A (fst (orth psi))) ->
  (2 <= length (o_A H))%nat -> bounded_below d (length (o_A H)) (o_A H) lam ->
  rtr_ok qr keig (o_A H) d (rev tr) ->
  let L := length (o_A H) in
  let E0 := denergy d L (m_A (fst (orth psi))) (o_A H) in
  dnorm2 d L A = k1 (Cx F) /\ length ens = n /\
  Forall (fun e => fle F lam (cre e) /\ fle F (cre e) (cre E0)) ens /\ noninc ens /\
  (ens <> [] -> last ens (k0 (Cx F)) = denergy d L A (o_A H)).
Proof. exact dmrg1_run. Qed.
Print Assumptions C10_dmrg1_whole_run.

(* the same without the lower-bound clause (LB is any property that energies of normalised states have) *)
Theorem C10_dmrg1_whole_run_gen : forall (F : ofield) orth qr keig (H : mpo (Cx F)) psi n d DsW Ds0 (LB : Cx F -> Prop) A qD ens tr,
  dmrg_singlesite orth qr keig H psi n = Some (A, qD, ens, tr) ->
  mpo_shapeb d DsW (o_A H) = true -> mps_shapeb d Ds0 (m_A (fst (orth psi))) = true ->
  Forall right_iso (m_A (fst (orth psi))) ->
  (2 <= length (o_A H))%nat ->
  (forall B : list (site (Cx F)), dnorm2 d (length (o_A H)) B = k1 (Cx F) -> LB (denergy d (length (o_A H)) B (o_A H))) ->
  rtr_ok qr keig (o_A H) d (rev tr) ->
  let L := length (o_A H) in
  let E0 := denergy d L (m_A (fst (orth psi))) (o_A H) in
  dnorm2 d L A = k1 (Cx F) /\ length ens = n /\
  Forall (fun e => LB e /\ fle F (cre e) (cre E0)) ens /\ noninc ens /\
  (ens <> [] -> last ens (k0 (Cx F)) = denergy d L A (o_A H)).
Proof. exact dmrg1_run_gen. Qed.
Print Assumptions C10_dmrg1_whole_run_gen.

(* WHOLE RUN, two-site (tol_split = 0).  [rtr2_ok ... (rev tr)]: every call recorded in the emitted trace tr meets its contract
   (Proofs/Sweeps2Run.v: dmrg2_call_ok — keig_ok (d*d) with the merged MPO tensor for the calls EIG2, split_ok for the
   split_mps_tensor calls SPLITL / SPLITR, qr_ok for the final QR of each sweep). *)
Theorem C10_split_contract_spec : forall (R : cring) d left (Am A0 A1 : site R) q,
  split_ok d left Am (A0, A1, q) <->
  (forall Dl Dr, site_ok (d * d) Dl Dr Am ->
     exists k, site_ok d Dl k A0 /\ site_ok d k Dr A1 /\
       (forall s t a e, (s < length A0)%nat -> (t < d)%nat -> (a < Dl)%nat -> (e < Dr)%nat ->
          get (sel Am (s * d + t)) a e = sumn k (fun j => kmul R (get (sel A0 s) a j) (get (sel A1 t) j e))) /\
       (if left then right_iso A1 else left_iso A0)).
Proof. exact split_ok_spec. Qed.
Print Assumptions C10_split_contract_spec.

Theorem C10_dmrg2_whole_run : forall (F : ofield) orth qr split keig (H : mpo (Cx F)) psi n d DsW Ds0 lam A qD ens tr,
  dmrg_twosite orth qr split keig H psi n = Some (A, qD, ens, tr) ->
  mpo_shapeb d DsW (o_A H) = true -> mps_shapeb d Ds0 (m_A (fst (orth psi))) = true ->
  Forall right_iso (m_A (fst (orth psi))) ->
  (2 <= length (o_A H))%nat -> bounded_below d (length (o_A H)) (o_A H) lam ->
  rtr2_ok qr split keig (o_A H) d (rev tr) ->
  let L := length (o_A H) in
  let E0 := denergy d L (m_A (fst (orth psi))) (o_A H) in
  dnorm2 d L A = k1 (Cx F) /\ length ens = n /\
  Forall (fun e => fle F lam (cre e) /\ fle F (cre e) (cre E0)) ens /\ noninc ens /\
  (ens <> [] -> last ens (k0 (Cx F)) = denergy d L A (o_A H)).
Proof. exact dmrg2_run. Qed.
Print Assumptions C10_dmrg2_whole_run.

Theorem C10_dmrg2_whole_run_gen : forall (F : ofield) orth qr split keig (H : mpo (Cx F)) psi n d DsW Ds0 (LB : Cx F -> Prop) A qD ens tr,
  dmrg_twosite orth qr split keig H psi n = Some (A, qD, ens, tr) ->
  mpo_shapeb d DsW (o_A H) = true -> mps_shapeb d Ds0 (m_A (fst (orth psi))) = true ->
  Forall right_iso (m_A (fst (orth psi))) ->
  (2 <= length (o_A H))%nat ->
  (forall B : list (site (Cx F)), dnorm2 d (length (o_A H)) B = k1 (Cx F) -> LB (denergy d (length (o_A H)) B (o_A H))) ->
  rtr2_ok qr split keig (o_A H) d (rev tr) ->
  let L := length (o_A H) in
  let E0 := denergy d L (m_A (fst (orth psi))) (o_A H) in
  dnorm2 d L A = k1 (Cx F) /\ length ens = n /\
  Forall (fun e => LB e /\ fle F (cre e) (cre E0)) ens /\ noninc ens /\
  (ens <> [] -> last ens (k0 (Cx F)) = denergy d L A (o_A H)).
Proof. exact dmrg2_run_gen. Qed.
Print Assumptions C10_dmrg2_whole_run_gen.

(* ---- one local problem in mixed-canonical form (theta, X') = answer of the local eigensolver for the start tensor X ---- *)
Theorem C10_dmrg_energy_is_expectation : forall (F : ofield) d Ds (Al Ar : list (site (Cx F))) (Wl Wr : list (osite (Cx F))) (X' : site (Cx F)) (W : osite (Cx F))
    DsAl DsWl Dar Dwr DsAr DsWr,
  local_shapeb d Al Ar Al Ar Wl Wr X' X' W DsAl DsAl DsWl Dar Dar Dwr DsAr DsAr DsWr = true ->
  mps_shapeb d Ds (Al ++ X' :: Ar) = true -> Forall left_iso Al -> Forall right_iso Ar -> forall theta : Cx F,
  theta = site_dot X' (apply_local_hamiltonian (BLof Al Wl) (BRof Ar Wr) W X') -> site_dot X' X' = k1 (Cx F) ->
  theta = denergy d (length Al + S (length Ar)) (Al ++ X' :: Ar) (Wl ++ W :: Wr) /\
  dnorm2 d (length Al + S (length Ar)) (Al ++ X' :: Ar) = k1 (Cx F).
Proof. exact dmrg_local_energy_is_expectation. Qed.
Print Assumptions C10_dmrg_energy_is_expectation.

Theorem C10_dmrg_variational : forall (F : ofield) d Ds (Al Ar : list (site (Cx F))) (Wl Wr : list (osite (Cx F))) (X' : site (Cx F)) (W : osite (Cx F))
    DsAl DsWl Dar Dwr DsAr DsWr,
  local_shapeb d Al Ar Al Ar Wl Wr X' X' W DsAl DsAl DsWl Dar Dar Dwr DsAr DsAr DsWr = true ->
  mps_shapeb d Ds (Al ++ X' :: Ar) = true -> Forall left_iso Al -> Forall right_iso Ar -> forall theta : Cx F,
  theta = site_dot X' (apply_local_hamiltonian (BLof Al Wl) (BRof Ar Wr) W X') -> site_dot X' X' = k1 (Cx F) ->
  forall lam, bounded_below d (length Al + S (length Ar)) (Wl ++ W :: Wr) lam -> fle F lam (cre theta).
Proof. exact dmrg_local_variational. Qed.
Print Assumptions C10_dmrg_variational.

Theorem C10_dmrg_monotone : forall (F : ofield) d Ds (Al Ar : list (site (Cx F))) (Wl Wr : list (osite (Cx F))) (X X' : site (Cx F)) (W : osite (Cx F))
    DsAl DsWl Dar Dwr DsAr DsWr,
  local_shapeb d Al Ar Al Ar Wl Wr X X W DsAl DsAl DsWl Dar Dar Dwr DsAr DsAr DsWr = true ->
  local_shapeb d Al Ar Al Ar Wl Wr X' X' W DsAl DsAl DsWl Dar Dar Dwr DsAr DsAr DsWr = true ->
  mps_shapeb d Ds (Al ++ X :: Ar) = true -> mps_shapeb d Ds (Al ++ X' :: Ar) = true ->
  Forall left_iso Al -> Forall right_iso Ar -> forall theta : Cx F,
  theta = site_dot X' (apply_local_hamiltonian (BLof Al Wl) (BRof Ar Wr) W X') -> site_dot X' X' = k1 (Cx F) ->
  fle F (fmul F (cre theta) (cre (site_dot X X))) (cre (site_dot X (apply_local_hamiltonian (BLof Al Wl) (BRof Ar Wr) W X))) ->
  dnorm2 d (length Al + S (length Ar)) (Al ++ X :: Ar) = k1 (Cx F) ->
  fle F (cre (denergy d (length Al + S (length Ar)) (Al ++ X' :: Ar) (Wl ++ W :: Wr)))
        (cre (denergy d (length Al + S (length Ar)) (Al ++ X :: Ar) (Wl ++ W :: Wr))).
Proof. exact dmrg_local_monotone. Qed.
Print Assumptions C10_dmrg_monotone.

(* two-site local problem: the Ritz value of the merged tensor is the energy of the embedded state *)
Theorem C10_two_site_energy_partial : forall (R : cring) d (Al Ar : list (site R)) (Wl Wr : list (osite R)) (X : site R) (W0 W1 : osite R)
    DsAl DsWl Dar Dwm Dwr DsAr DsWr,
  local2_shapeb d Al Ar Al Ar Wl Wr X X W0 W1 DsAl DsAl DsWl Dar Dar Dwm Dwr DsAr DsAr DsWr = true ->
  site_dot X (apply_local_hamiltonian (BLof Al Wl) (BRof Ar Wr) (c04_merge_osite W0 W1) X) =
  denergy2 d (length Al + S (S (length Ar))) (length Al) (Al ++ X :: Ar) (Wl ++ W0 :: W1 :: Wr).
Proof. exact mixed_canonical_energy2_u. Qed.
Print Assumptions C10_two_site_energy_partial.

(* which number a sweep records: the Ritz value of its LAST local problem (site 1 resp. pair (0,1)); one number per sweep *)
Theorem C10_dmrg1_reported_energy : forall (R : cring) qr keig (Hs : list (osite R)) qd k (st : sw R),
  let L := S (S k) in
  let se := fold_left (dmrg1_rl qr keig Hs qd) (rev (seq 2 k)) (fold_left (dmrg1_lr qr keig Hs qd) (seq 0 (L - 1)) (st, k0 R)) in
  snd (dmrg1_sweep qr keig Hs qd L st) =
  fst (keig (length (s_tr (fst se))) (gBL (fst se) 1) (gBR (fst se) 1) (nth 1 Hs []) (gA (fst se) 1)).
Proof. exact dmrg1_reported_energy. Qed.
Print Assumptions C10_dmrg1_reported_energy.

Theorem C10_dmrg2_reported_energy : forall (R : cring) qr split keig (Hs : list (osite R)) qd k (st : sw R),
  let L := S (S k) in
  let se := fold_left (dmrg2_rl split keig Hs qd) (rev (seq 1 k)) (fold_left (dmrg2_lr split keig Hs qd) (seq 0 (L - 2)) (st, k0 R)) in
  snd (dmrg2_sweep qr split keig Hs qd L st) =
  fst (keig (length (s_tr (fst se))) (gBL (fst se) 0) (gBR (fst se) 1)
            (c04_merge_osite (nth 0 Hs []) (nth 1 Hs [])) (c04_merge_site (gA (fst se) 0) (gA (fst se) 1))).
Proof. exact dmrg2_reported_energy. Qed.
Print Assumptions C10_dmrg2_reported_energy.

(* the call sequence of n sweeps (all oracles, all inputs), one reported energy per sweep *)
Theorem C10_dmrg1_schedule : forall (R : cring) orth_right qr keig (H : mpo R) psi n A qD ens tr,
  dmrg_singlesite orth_right qr keig H psi n = Some (A, qD, ens, tr) ->
  map (@t_call R) tr = ncat n (dfull1 (length (o_A H))) /\ length ens = n.
Proof. exact dmrg1_trace. Qed.
Print Assumptions C10_dmrg1_schedule.
Theorem C10_dmrg2_schedule : forall (R : cring) orth_right qr split keig (H : mpo R) psi n A qD ens tr,
  dmrg_twosite orth_right qr split keig H psi n = Some (A, qD, ens, tr) ->
  map (@t_call R) tr = ncat n (dfull2 (length (o_A H))) /\ length ens = n.
Proof. exact dmrg2_trace. Qed.
Print Assumptions C10_dmrg2_schedule.

(* ---------------- non-vacuity ---------------- *)
(* the whole-run theorem on the rational instance of Proofs/SweepsExample.v (H = Z(x)Z + X(x)I, bond dimension 2, two sweeps,
   the local eigensolver returning the Rayleigh quotient of its start tensor — a Ritz pair): the run succeeds, every
   hypothesis except the semantic one on H holds by evaluation (contracts of all 14 recorded calls by the boolean versions
   of Proofs/SweepsCheck.v), and the conclusions are non-trivial (energies -8399/15625).  [bounded_below] holds for every
   Hermitian H with lam = minus the sum of the moduli of its entries; it is a hypothesis on H alone. *)
Example C10_dmrg1_whole_run_nonvacuous :
  match dmrg_singlesite ex_orth ex_qr keig_id exH exPsi 2 with
  | Some (A, qD, ens, tr) =>
      mpo_shapeb 2 [1; 2; 1]%nat (o_A exH) && mps_shapeb 2 [1; 2; 1]%nat (m_A (fst (ex_orth exPsi)))
      && forallb right_isob (m_A (fst (ex_orth exPsi))) && Nat.leb 2 (length (o_A exH)) && dtr_okb ex_qr (rev tr)
      && Nat.eqb (length tr) 14 && Nat.eqb (length ens) 2
      && keqb CQ (dnorm2 2 2 A) (k1 CQ) && keqb CQ (last ens (k0 CQ)) (denergy 2 2 A (o_A exH))
      && negb (keqb CQ (last ens (k0 CQ)) (k0 CQ))
  | None => false
  end = true.
Proof. vm_compute. reflexivity. Qed.
Theorem C10_example_contracts_hold : forall A qD ens tr,
  dmrg_singlesite ex_orth ex_qr keig_id exH exPsi 2 = Some (A, qD, ens, tr) -> dtr_okb ex_qr (rev tr) = true ->
  rtr_ok ex_qr keig_id (o_A exH) 2 (rev tr).
Proof. intros A qD ens tr _ H. apply rtr_ok_id. exact H. Qed.

(* the two-site whole-run theorem on the rational instance of Proofs/Sweeps2Example.v (L = 3, H = ZIZ + ZXI + XZI, bond
   dimensions 1-2-2-1, two sweeps, exact rational split oracle, Rayleigh-quotient eigensolver): the run succeeds, every
   hypothesis except the semantic one on H holds by evaluation (contracts of all 20 recorded calls — 6 EIG2, 6 splits, 2 QR —
   by the boolean versions of Proofs/Sweeps2Check.v), and the conclusions are non-trivial (energies 208201/390625) *)
Example C10_dmrg2_whole_run_nonvacuous :
  match dmrg_twosite ex_orth ex_qr ex3_split keig_id ex3H ex3Psi 2 with
  | Some (A, qD, ens, tr) =>
      mpo_shapeb 2 [1; 2; 2; 1]%nat (o_A ex3H) && mps_shapeb 2 [1; 2; 2; 1]%nat (m_A (fst (ex_orth ex3Psi)))
      && forallb right_isob (m_A (fst (ex_orth ex3Psi))) && Nat.leb 2 (length (o_A ex3H)) && dtr2_okb ex_qr ex3_split 2 (rev tr)
      && Nat.eqb (length tr) 20 && Nat.eqb (length ens) 2
      && Nat.eqb (length (filter (fun t => match c_kind (t_call t) with SPLITL | SPLITR => true | _ => false end) tr)) 6
      && keqb CQ (dnorm2 2 3 A) (k1 CQ) && keqb CQ (last ens (k0 CQ)) (denergy 2 3 A (o_A ex3H))
      && negb (keqb CQ (last ens (k0 CQ)) (k0 CQ)) && negb (list_eqb (fun a b => list_eqb mxeqb a b) A (m_A ex3Psi))
  | None => false
  end = true.
Proof. vm_compute. reflexivity. Qed.
Theorem C10_example2_contracts_hold : forall A qD ens tr,
  dmrg_twosite ex_orth ex_qr ex3_split keig_id ex3H ex3Psi 2 = Some (A, qD, ens, tr) -> dtr2_okb ex_qr ex3_split 2 (rev tr) = true ->
  rtr2_ok ex_qr ex3_split keig_id (o_A ex3H) 2 (rev tr).
Proof. intros A qD ens tr _ H. apply rtr2_ok_id. exact H. Qed.

(* ---------------------------------------------------------------------------------------------------------------
   LINK to C15 / C14 / C04 (linking round; lemmas in Proofs/Link*.v).  The abstract local eigensolver of the sweep is
   instantiated by the CONCRETE solver of pytenet/minimization.py,

     keig_lanczos dnorm small deigh numiter  =  _minimize_local_energy :
        w, u = eigh_krylov(lambda x: apply_local_hamiltonian(L, R, W, x.reshape(A.shape)).reshape(-1), A.reshape(-1), numiter, 1);
        return w[0], u[:, 0].reshape(A.shape)

   built from the Krylov model of C14/C15 (Model/Krylov.v) and the row-major flatten / unflatten bridge (Proofs/LinkFlatten.v).
   The oracles left are the numerical primitives: numpy.linalg.norm (dnorm), the breakdown test (small), eigh_tridiagonal
   (deigh), the block QR (qr) and MPS.orthonormalize (orth). *)
From PT Require Import Model.Krylov Proofs.KrylovLanczos Proofs.KrylovRitz Proofs.OperationChains Proofs.SweepsInv Proofs.LinkFlatten Proofs.LinkLocalOps
  Proofs.LinkSolvers Proofs.LinkCtx Proofs.LinkRunDMRG.

(* keig_from_krylov: ONE call of _minimize_local_energy meets the Ritz contract keig_ok, given shapes, self-adjointness of H_eff
   ([local_sa]: the conclusion of C04_heff_hermitian), a non-zero start tensor (otherwise the code raises) and the C14/C15
   contracts of the primitives on the calls this call issues ([keig_lanczos_calls_ok]: norm_ok on every numpy.linalg.norm call of
   the Lanczos loop; eigh_ok and eigh_sorted for the eigh_tridiagonal answer on the returned (alpha, beta)).
   From C15_ritz_vectors (|A'| = 1, theta = <A'|H_eff A'>) and C15_ritz_upper_bound (theta <A|A> <= <A|H_eff A>); the lower
   bound theta >= lam is not part of keig_ok: the sweep theorem derives it from theta = <psi|H|psi> (C10_dmrg_variational). *)
Theorem C10_keig_from_krylov : forall (F : ofield) dnorm small deigh numiter,
  small_sound F small -> (1 <= numiter)%nat ->
  forall d Dl Dr Dwl Dwr pos (BL BR : env (Cx F)) (W : osite (Cx F)) (A : site (Cx F)),
  (0 < d)%nat -> (0 < Dwl)%nat -> (0 < Dwr)%nat ->
  osite_ok d Dwl Dwr W -> env_ok Dwl Dl Dl BL -> env_ok Dwr Dr Dr BR -> site_ok d Dl Dr A ->
  local_sa F d Dl Dr (apply_local_hamiltonian BL BR W) ->
  site_dot A A <> k0 (Cx F) ->
  keig_lanczos_calls_ok F dnorm small deigh numiter BL BR W A ->
  keig_ok d BL BR W A (keig_lanczos F dnorm small deigh numiter pos BL BR W A).
Proof. exact keig_from_krylov. Qed.
Print Assumptions C10_keig_from_krylov.

(* at every state of the sweep (invariant Z: mixed-canonical, blocks = contractions of the neighbouring sites) the local problem
   has consistent shapes and, for a Hermitian MPO, a self-adjoint effective Hamiltonian; the start tensor carries the norm *)
Theorem C10_sweep_invariant_gives_local_problem : forall (F : ofield) (Hs : list (osite (Cx F))) d DsW,
  (0 < d)%nat -> ochain_ok (repeat d (length Hs)) DsW Hs -> hd 0%nat DsW = 1%nat ->
  forall (st : sw (Cx F)) i, Z (Cx F) Hs d st i ->
  exists Dl Dr Dwl Dwr, (0 < Dwl)%nat /\ (0 < Dwr)%nat /\ osite_ok d Dwl Dwr (nth i Hs []) /\
    env_ok Dwl Dl Dl (gBL st i) /\ env_ok Dwr Dr Dr (gBR st i) /\ site_ok d Dl Dr (gA st i) /\
    NN (Cx F) Hs d (s_A st) = site_dot (gA st i) (gA st i) /\
    (mpo_herm F Hs d -> local_sa F d Dl Dr (apply_local_hamiltonian (gBL st i) (gBR st i) (nth i Hs []))).
Proof. exact Z_local_ctx. Qed.
Print Assumptions C10_sweep_invariant_gives_local_problem.

(* along a run: the LAPACK-level contracts of the recorded calls ([lrtr_ok]: qr_ok for QR, keig_lanczos_calls_ok for EIG) imply
   the Ritz contracts of C10_dmrg1_whole_run *)
Theorem C10_dmrg1_lapack_to_ritz : forall (F : ofield) orth qr dnorm small deigh numiter (H : mpo (Cx F)) psi n d DsW Ds0 A qD ens tr,
  dmrg_singlesite orth qr (keig_lanczos F dnorm small deigh numiter) H psi n = Some (A, qD, ens, tr) ->
  mpo_shapeb d DsW (o_A H) = true -> mps_shapeb d Ds0 (m_A (fst (orth psi))) = true ->
  Forall right_iso (m_A (fst (orth psi))) -> (2 <= length (o_A H))%nat ->
  mpo_herm F (o_A H) d -> small_sound F small -> (1 <= numiter)%nat ->
  lrtr_ok qr dnorm small deigh numiter (o_A H) (rev tr) ->
  rtr_ok qr (keig_lanczos F dnorm small deigh numiter) (o_A H) d (rev tr).
Proof. exact dmrg1_lapack_to_ritz. Qed.
Print Assumptions C10_dmrg1_lapack_to_ritz.

(* WHOLE RUN, single-site, END TO END: with the Krylov-based eigensolver the only remaining hypotheses are LAPACK-level contracts on
   the calls actually issued (block QR, numpy.linalg.norm, eigh_tridiagonal incl. ascending order, sound breakdown test),
   right-isometry of MPS.orthonormalize's answer, Hermiticity of the MPO ([mpo_herm]) and, for the variational clause, H >= lam *)
Theorem C10_dmrg1_whole_run_lapack : forall (F : ofield) orth qr dnorm small deigh numiter (H : mpo (Cx F)) psi n d DsW Ds0 lam A qD ens tr,
  dmrg_singlesite orth qr (keig_lanczos F dnorm small deigh numiter) H psi n = Some (A, qD, ens, tr) ->
  mpo_shapeb d DsW (o_A H) = true -> mps_shapeb d Ds0 (m_A (fst (orth psi))) = true ->
  Forall right_iso (m_A (fst (orth psi))) ->
  (2 <= length (o_A H))%nat -> bounded_below d (length (o_A H)) (o_A H) lam ->
  mpo_herm F (o_A H) d -> small_sound F small -> (1 <= numiter)%nat ->
  lrtr_ok qr dnorm small deigh numiter (o_A H) (rev tr) ->
  let L := length (o_A H) in
  let E0 := denergy d L (m_A (fst (orth psi))) (o_A H) in
  dnorm2 d L A = k1 (Cx F) /\ length ens = n /\
  Forall (fun e => fle F lam (cre e) /\ fle F (cre e) (cre E0)) ens /\ noninc ens /\
  (ens <> [] -> last ens (k0 (Cx F)) = denergy d L A (o_A H)).
Proof. exact dmrg1_run_lapack. Qed.
Print Assumptions C10_dmrg1_whole_run_lapack.

(* NOT DONE in the linking round (statement kept for the record): the two-site analogue

   Theorem C10_dmrg2_whole_run_lapack : forall F orth qr split dnorm small deigh numiter H psi n d DsW Ds0 lam A qD ens tr,
     dmrg_twosite orth qr split (keig_lanczos F dnorm small deigh numiter) H psi n = Some (A, qD, ens, tr) ->
     mpo_shapeb d DsW (o_A H) = true -> mps_shapeb d Ds0 (m_A (fst (orth psi))) = true -> Forall right_iso (m_A (fst (orth psi))) ->
     2 <= length (o_A H) -> bounded_below d (length (o_A H)) (o_A H) lam -> mpo_herm F (o_A H) d -> small_sound F small -> 1 <= numiter ->
     lrtr2_ok ... (rev tr)    (* qr_ok, split_ok, keig_lanczos_calls_ok for EIG2 with d*d and the merged MPO tensor *) ->
     (the five conclusions of C10_dmrg2_whole_run).

   C10_keig_from_krylov already covers the merged two-site calls (d := d*d, W := the merged MPO tensor); missing is [local_sa] for the
   merged problem from the two-site invariant Z2 (C04_two_site_is_projection + mpo_herm) and the lock-step induction over the
   two-site schedule. *)

(* Non-vacuity of C10_keig_from_krylov (Proofs/LinkExamplesLocal.v): the same one-site problem (H = diag(1, -1), start tensor (3, 4),
   numiter = 2): every hypothesis holds; the model returns the Ritz value -1 (the ground energy) and the normalised tensor
   (4/5, -3/5) U-combination, i.e. a unit vector with <A'|H A'> = -1 <= <A|H A>/<A|A> = -7/25 *)
From PT Require Import Proofs.KrylovExamples Proofs.KrylovExamples15 Proofs.LinkExamplesLocal.
Example C10_keig_from_krylov_nonvacuous :
  keig_ok 2 lk_E lk_E lk_W lk_A (keig_lanczos QcF dnorm_ex ex_small lk_deigh 2 0 lk_E lk_E lk_W lk_A) /\
  (let r := keig_lanczos QcF dnorm_ex ex_small lk_deigh 2 0 lk_E lk_E lk_W lk_A in
   keqb CQ (fst r) (qq (-1) 1, qq 0 1) && keqb CQ (site_dot (snd r) (snd r)) (k1 CQ)
   && keqb CQ (site_dot (snd r) (apply_local_hamiltonian lk_E lk_E lk_W (snd r))) (qq (-1) 1, qq 0 1) && Nat.eqb (length (snd r)) 2) = true.
Proof. split; [exact lk_keig_ok|vm_compute; reflexivity]. Qed.

(* ---------------------------------------------------------------------------------------------------------------
   LINK, TWO-SITE (continuation of the linking round; lemmas in Proofs/Link2Ctx.v, Proofs/Link2RunDMRG.v).  The statement
   recorded above as NOT DONE is proved below as C10_dmrg2_whole_run_lapack: the abstract eigensolver argument of dmrg_twosite
   is instantiated by keig_lanczos = _minimize_local_energy applied to the merged two-site problem (physical dimension d*d,
   merged MPO tensor [Hm Hs i] as the code forms it). *)
From PT Require Import Proofs.OperationTwoSite Proofs.Sweeps2Inv Proofs.Link2Ctx Proofs.Link2RunDMRG.

(* at every state satisfying the two-site invariant Z2 the MERGED local problem at the pair (i, i+1) has consistent shapes
   (physical dimension d*d), its start tensor carries the norm of the state, and for a Hermitian MPO its effective Hamiltonian
   is self-adjoint ([local_sa]; from C04_two_site_is_projection + mpo_herm, Proofs/Link2Ctx.v: heff2_hermitian) *)
Theorem C10_two_site_invariant_gives_local_problem : forall (F : ofield) (Hs : list (osite (Cx F))) d DsW,
  (0 < d)%nat -> ochain_ok (repeat d (length Hs)) DsW Hs -> hd 0%nat DsW = 1%nat -> Forall (osite_struct d) Hs ->
  forall (st : sw (Cx F)) i, Z2 (Cx F) Hs d st i ->
  let M := c04_merge_site (gA st i) (gA st (S i)) in
  exists Dl Dr Dwl Dwr, (0 < Dwl)%nat /\ (0 < Dwr)%nat /\ osite_ok (d * d) Dwl Dwr (Hm Hs i) /\
    env_ok Dwl Dl Dl (gBL st i) /\ env_ok Dwr Dr Dr (gBR st (S i)) /\ site_ok (d * d) Dl Dr M /\
    NN (Cx F) Hs d (s_A st) = site_dot M M /\
    (mpo_herm F Hs d -> local_sa F (d * d) Dl Dr (apply_local_hamiltonian (gBL st i) (gBR st (S i)) (Hm Hs i))).
Proof. exact Z2_local_ctx. Qed.
Print Assumptions C10_two_site_invariant_gives_local_problem.

(* per entry: an EIG2 call issued at a state satisfying Z2 with norm one, whose oracle answers meet the Krylov contracts, meets
   the Ritz contract keig_ok (d*d) of C10_dmrg2_whole_run *)
Theorem C10_eig2_entry_from_krylov : forall (F : ofield) dnorm small deigh numiter (Hs : list (osite (Cx F))) d DsW,
  (0 < d)%nat -> ochain_ok (repeat d (length Hs)) DsW Hs -> hd 0%nat DsW = 1%nat -> Forall (osite_struct d) Hs ->
  mpo_herm F Hs d -> small_sound F small -> (1 <= numiter)%nat ->
  forall (st : sw (Cx F)) i p, Z2 (Cx F) Hs d st i -> NN (Cx F) Hs d (s_A st) = k1 (Cx F) ->
  let Am := c04_merge_site (gA st i) (gA st (S i)) in
  keig_lanczos_calls_ok F dnorm small deigh numiter (gBL st i) (gBR st (S i)) (Hm Hs i) Am ->
  keig_ok (d * d) (gBL st i) (gBR st (S i)) (Hm Hs i) Am
    (keig_lanczos F dnorm small deigh numiter p (gBL st i) (gBR st (S i)) (Hm Hs i) Am).
Proof. exact eig2_entry_from_krylov. Qed.
Print Assumptions C10_eig2_entry_from_krylov.

(* along a run: the LAPACK-level contracts of the recorded calls ([lrtr2_ok], Proofs/Link2RunDMRG.v: ldmrg2_call_ok — qr_ok for the
   final QR of each sweep, split_ok for SPLITL / SPLITR, keig_lanczos_calls_ok for EIG2 with the merged MPO tensor, flattened
   length d*d*Dl*Dr) imply the Ritz contracts of C10_dmrg2_whole_run *)
Theorem C10_dmrg2_lapack_to_ritz : forall (F : ofield) orth qr split dnorm small deigh numiter (H : mpo (Cx F)) psi n d DsW Ds0 A qD ens tr,
  dmrg_twosite orth qr split (keig_lanczos F dnorm small deigh numiter) H psi n = Some (A, qD, ens, tr) ->
  mpo_shapeb d DsW (o_A H) = true -> mps_shapeb d Ds0 (m_A (fst (orth psi))) = true ->
  Forall right_iso (m_A (fst (orth psi))) -> (2 <= length (o_A H))%nat ->
  mpo_herm F (o_A H) d -> small_sound F small -> (1 <= numiter)%nat ->
  lrtr2_ok qr split dnorm small deigh numiter (o_A H) d (rev tr) ->
  rtr2_ok qr split (keig_lanczos F dnorm small deigh numiter) (o_A H) d (rev tr).
Proof. exact dmrg2_lapack_to_ritz. Qed.
Print Assumptions C10_dmrg2_lapack_to_ritz.

(* WHOLE RUN, two-site (tol_split = 0), END TO END: with the Krylov-based eigensolver the only remaining hypotheses are
   LAPACK-level contracts on the calls actually issued (block QR, numpy.linalg.norm, eigh_tridiagonal incl. ascending order /
   the row-0 clause, sound breakdown test), the exact-split contract on the split_mps_tensor calls (C10_split_contract_spec),
   right-isometry of MPS.orthonormalize's answer, Hermiticity of the MPO ([mpo_herm]) and, for the variational clause, H >= lam *)
Theorem C10_dmrg2_whole_run_lapack : forall (F : ofield) orth qr split dnorm small deigh numiter (H : mpo (Cx F)) psi n d DsW Ds0 lam A qD ens tr,
  dmrg_twosite orth qr split (keig_lanczos F dnorm small deigh numiter) H psi n = Some (A, qD, ens, tr) ->
  mpo_shapeb d DsW (o_A H) = true -> mps_shapeb d Ds0 (m_A (fst (orth psi))) = true ->
  Forall right_iso (m_A (fst (orth psi))) ->
  (2 <= length (o_A H))%nat -> bounded_below d (length (o_A H)) (o_A H) lam ->
  mpo_herm F (o_A H) d -> small_sound F small -> (1 <= numiter)%nat ->
  lrtr2_ok qr split dnorm small deigh numiter (o_A H) d (rev tr) ->
  let L := length (o_A H) in
  let E0 := denergy d L (m_A (fst (orth psi))) (o_A H) in
  dnorm2 d L A = k1 (Cx F) /\ length ens = n /\
  Forall (fun e => fle F lam (cre e) /\ fle F (cre e) (cre E0)) ens /\ noninc ens /\
  (ens <> [] -> last ens (k0 (Cx F)) = denergy d L A (o_A H)).
Proof. exact dmrg2_run_lapack. Qed.
Print Assumptions C10_dmrg2_whole_run_lapack.

(* Non-vacuity of C10_dmrg2_whole_run_lapack (Proofs/Link2Examples.v): the rational instance of Proofs/Sweeps2Example.v (L = 3, d = 2,
   H = ZIZ + ZXI + XZI, bond dimensions 1-2-2-1, two sweeps) run with the REAL Krylov-based eigensolver, numiter = 1 (one Lanczos
   vector: numpy.linalg.norm on tensors of norm one, answered exactly by the rational square root; eigh_tridiagonal on the 1 x 1
   matrix [alpha_0] answered by w = (alpha_0), U = [[1]]; the solver returns the Rayleigh quotient and the normalised start tensor).
   The run succeeds; every hypothesis except the semantic one on H (H >= lam) holds by evaluation: the LAPACK-level contracts of all
   20 recorded calls (6 EIG2 on merged tensors of flattened length up to 16, 6 splits, 2 QR) by the boolean checker ldmrg2_okb, sound
   by ldmrg2_okb_ok; Hermiticity of H by mpo_hermb on all 64 word pairs; the conclusions are non-trivial (energies 208201/390625). *)
From PT Require Import Proofs.Link2Examples.
Example C10_dmrg2_whole_run_lapack_nonvacuous :
  match dmrg_twosite ex_orth ex_qr ex3_split ex1_keig ex3H ex3Psi 2 with
  | Some (A, qD, ens, tr) =>
      mpo_shapeb 2 [1; 2; 2; 1]%nat (o_A ex3H) && mps_shapeb 2 [1; 2; 2; 1]%nat (m_A (fst (ex_orth ex3Psi)))
      && forallb right_isob (m_A (fst (ex_orth ex3Psi))) && Nat.leb 2 (length (o_A ex3H)) && mpo_hermb (o_A ex3H) 2
      && ldmrg2_okb dnorm_ex ex_small ex1_deigh 1 ex_qr ex3_split (o_A ex3H) 2 (rev tr)
      && Nat.eqb (length tr) 20 && Nat.eqb (length ens) 2
      && Nat.eqb (length (filter (fun t => match c_kind (t_call t) with EIG2 => true | _ => false end) tr)) 6
      && keqb CQ (dnorm2 2 3 A) (k1 CQ) && keqb CQ (last ens (k0 CQ)) (denergy 2 3 A (o_A ex3H))
      && negb (keqb CQ (last ens (k0 CQ)) (k0 CQ)) && negb (list_eqb (fun a b => list_eqb mxeqb a b) A (m_A ex3Psi))
  | None => false
  end = true.
Proof. vm_compute. reflexivity. Qed.
(* ... and the theorem applies to it: every hypothesis but H >= lam discharged *)
Theorem C10_dmrg2_whole_run_lapack_example : forall lam A qD ens tr,
  dmrg_twosite ex_orth ex_qr ex3_split ex1_keig ex3H ex3Psi 2 = Some (A, qD, ens, tr) ->
  bounded_below 2 (length (o_A ex3H)) (o_A ex3H) lam ->
  let L := length (o_A ex3H) in
  let E0 := denergy 2 L (m_A (fst (ex_orth ex3Psi))) (o_A ex3H) in
  dnorm2 2 L A = k1 CQ /\ length ens = 2%nat /\
  Forall (fun e => fle QcF lam (cre e) /\ fle QcF (cre e) (cre E0)) ens /\ noninc ens /\
  (ens <> [] -> last ens (k0 CQ) = denergy 2 L A (o_A ex3H)).
Proof. exact dmrg2_run_lapack_example. Qed.
Print Assumptions C10_dmrg2_whole_run_lapack_example.

(* ---------------------------------------------------------------------------------------------------------------
   REPAIRED LOCAL EIGENSOLVER.  pytenet/minimization.py after "fix: limit Lanczos iterations in local energy minimization to
   the dimension of the local problem":

       def _minimize_local_energy(L, R, W, Astart, numiter: int):
           # the Krylov subspace cannot exceed the dimension of the local problem
           # (additional Lanczos iterations would only amplify rounding noise)
           numiter = min(numiter, Astart.size)
           w, u_ritz = eigh_krylov(
               lambda x: apply_local_hamiltonian(L, R, W, x.reshape(Astart.shape)).reshape(-1),
                   Astart.reshape(-1), numiter, 1)
           Aopt = u_ritz[:, 0].reshape(Astart.shape)
           return w[0], Aopt

   used by calculate_ground_state_local_singlesite (Astart = psi.A[i], size d*Dl*Dr) and calculate_ground_state_local_twosite
   (Astart = merge_mps_tensor_pair(psi.A[i], psi.A[i+1]), size d*d*Dl*Dr).  Model (Proofs/LinkSolversCap.v):

       site_size A                      := length A * sdl A * sdr A                        (Astart.size; a site is a list of d matrices Dl x Dr,
                                                                                            the merged tensor a list of d*d matrices)
       keig_lanczos_cap ... numiter ... A := keig_lanczos ... (Nat.min numiter (site_size A)) ... A
       keig_lanczos_cap_calls_ok          := keig_lanczos_calls_ok with the capped count   (contracts of norm / eigh_tridiagonal on the
                                                                                            calls the CAPPED Lanczos run issues)
       lrtr_cap_ok / lrtr2_cap_ok         := lrtr_ok / lrtr2_ok with keig_lanczos_cap_calls_ok on the EIG / EIG2 entries.

   The theorems above about keig_lanczos (no cap: the code before the repair) remain true and are kept.  The theorems below
   re-establish them for the repaired solver (Proofs/LinkRunDMRGCap.v: the lock-step inductions redone generically in the solver).
   Zero-size start tensors: the cap is 0, the code raises in lanczos_iteration (assert nrmv > 0), the model returns its error
   value; no positivity hypothesis on Dl, Dr is needed because the hypothesis "start tensor not zero" (along a run: norm one)
   forces d*Dl*Dr >= 1, hence 1 <= min(numiter, size) whenever 1 <= numiter. *)
From PT Require Import Proofs.LinkSolversCap Proofs.LinkRunDMRGCap Proofs.LinkCapExamples.

(* ONE call of the repaired _minimize_local_energy meets the Ritz contract keig_ok; hypotheses as in C10_keig_from_krylov, the
   primitives' contracts on the calls of the capped run *)
Theorem C10_keig_cap_from_krylov : forall (F : ofield) dnorm small deigh numiter,
  small_sound F small -> (1 <= numiter)%nat ->
  forall d Dl Dr Dwl Dwr pos (BL BR : env (Cx F)) (W : osite (Cx F)) (A : site (Cx F)),
  (0 < d)%nat -> (0 < Dwl)%nat -> (0 < Dwr)%nat ->
  osite_ok d Dwl Dwr W -> env_ok Dwl Dl Dl BL -> env_ok Dwr Dr Dr BR -> site_ok d Dl Dr A ->
  local_sa F d Dl Dr (apply_local_hamiltonian BL BR W) ->
  site_dot A A <> k0 (Cx F) ->
  keig_lanczos_cap_calls_ok F dnorm small deigh numiter BL BR W A ->
  keig_ok d BL BR W A (keig_lanczos_cap F dnorm small deigh numiter pos BL BR W A).
Proof. exact keig_cap_from_krylov. Qed.
Print Assumptions C10_keig_cap_from_krylov.

(* the cap is well defined on every non-zero tensor of consistent shape: Astart.size = d*Dl*Dr >= 1 *)
Theorem C10_nonzero_tensor_has_entries : forall (F : ofield) d Dl Dr (A : site (Cx F)),
  (0 < d)%nat -> site_ok d Dl Dr A -> site_dot A A <> k0 (Cx F) -> site_size A = (d * Dl * Dr)%nat /\ (1 <= site_size A)%nat.
Proof. intros F d Dl Dr A Hd HA Hnz. split; [exact (site_size_ok F d Dl Dr A Hd HA)|exact (site_size_pos F d Dl Dr A Hd HA Hnz)]. Qed.
Print Assumptions C10_nonzero_tensor_has_entries.

(* where the cap does not bite the repaired solver IS the old one *)
Theorem C10_keig_cap_is_keig_when_small : forall (F : ofield) dnorm small deigh numiter pos (BL BR : env (Cx F)) (W : osite (Cx F)) (A : site (Cx F)),
  (numiter <= site_size A)%nat ->
  keig_lanczos_cap F dnorm small deigh numiter pos BL BR W A = keig_lanczos F dnorm small deigh numiter pos BL BR W A.
Proof. exact keig_lanczos_cap_nocap. Qed.
Print Assumptions C10_keig_cap_is_keig_when_small.

Theorem C10_dmrg1_lapack_to_ritz_cap : forall (F : ofield) orth qr dnorm small deigh numiter (H : mpo (Cx F)) psi n d DsW Ds0 A qD ens tr,
  dmrg_singlesite orth qr (keig_lanczos_cap F dnorm small deigh numiter) H psi n = Some (A, qD, ens, tr) ->
  mpo_shapeb d DsW (o_A H) = true -> mps_shapeb d Ds0 (m_A (fst (orth psi))) = true ->
  Forall right_iso (m_A (fst (orth psi))) -> (2 <= length (o_A H))%nat ->
  mpo_herm F (o_A H) d -> small_sound F small -> (1 <= numiter)%nat ->
  lrtr_cap_ok qr dnorm small deigh numiter (o_A H) (rev tr) ->
  rtr_ok qr (keig_lanczos_cap F dnorm small deigh numiter) (o_A H) d (rev tr).
Proof. exact dmrg1_lapack_to_ritz_cap. Qed.
Print Assumptions C10_dmrg1_lapack_to_ritz_cap.

(* WHOLE RUN, single-site, END TO END, repaired solver *)
Theorem C10_dmrg1_whole_run_lapack_cap : forall (F : ofield) orth qr dnorm small deigh numiter (H : mpo (Cx F)) psi n d DsW Ds0 lam A qD ens tr,
  dmrg_singlesite orth qr (keig_lanczos_cap F dnorm small deigh numiter) H psi n = Some (A, qD, ens, tr) ->
  mpo_shapeb d DsW (o_A H) = true -> mps_shapeb d Ds0 (m_A (fst (orth psi))) = true ->
  Forall right_iso (m_A (fst (orth psi))) ->
  (2 <= length (o_A H))%nat -> bounded_below d (length (o_A H)) (o_A H) lam ->
  mpo_herm F (o_A H) d -> small_sound F small -> (1 <= numiter)%nat ->
  lrtr_cap_ok qr dnorm small deigh numiter (o_A H) (rev tr) ->
  let L := length (o_A H) in
  let E0 := denergy d L (m_A (fst (orth psi))) (o_A H) in
  dnorm2 d L A = k1 (Cx F) /\ length ens = n /\
  Forall (fun e => fle F lam (cre e) /\ fle F (cre e) (cre E0)) ens /\ noninc ens /\
  (ens <> [] -> last ens (k0 (Cx F)) = denergy d L A (o_A H)).
Proof. exact dmrg1_run_lapack_cap. Qed.
Print Assumptions C10_dmrg1_whole_run_lapack_cap.

(* two-site: per entry, trace level, whole run *)
Theorem C10_eig2_entry_cap_from_krylov : forall (F : ofield) dnorm small deigh numiter (Hs : list (osite (Cx F))) d DsW,
  (0 < d)%nat -> ochain_ok (repeat d (length Hs)) DsW Hs -> hd 0%nat DsW = 1%nat -> Forall (osite_struct d) Hs ->
  mpo_herm F Hs d -> small_sound F small -> (1 <= numiter)%nat ->
  forall (st : sw (Cx F)) i p, Z2 (Cx F) Hs d st i -> NN (Cx F) Hs d (s_A st) = k1 (Cx F) ->
  let Am := c04_merge_site (gA st i) (gA st (S i)) in
  keig_lanczos_cap_calls_ok F dnorm small deigh numiter (gBL st i) (gBR st (S i)) (Hm Hs i) Am ->
  keig_ok (d * d) (gBL st i) (gBR st (S i)) (Hm Hs i) Am
    (keig_lanczos_cap F dnorm small deigh numiter p (gBL st i) (gBR st (S i)) (Hm Hs i) Am).
Proof. exact eig2_entry_cap_from_krylov. Qed.
Print Assumptions C10_eig2_entry_cap_from_krylov.

Theorem C10_dmrg2_lapack_to_ritz_cap : forall (F : ofield) orth qr split dnorm small deigh numiter (H : mpo (Cx F)) psi n d DsW Ds0 A qD ens tr,
  dmrg_twosite orth qr split (keig_lanczos_cap F dnorm small deigh numiter) H psi n = Some (A, qD, ens, tr) ->
  mpo_shapeb d DsW (o_A H) = true -> mps_shapeb d Ds0 (m_A (fst (orth psi))) = true ->
  Forall right_iso (m_A (fst (orth psi))) -> (2 <= length (o_A H))%nat ->
  mpo_herm F (o_A H) d -> small_sound F small -> (1 <= numiter)%nat ->
  lrtr2_cap_ok qr split dnorm small deigh numiter (o_A H) d (rev tr) ->
  rtr2_ok qr split (keig_lanczos_cap F dnorm small deigh numiter) (o_A H) d (rev tr).
Proof. exact dmrg2_lapack_to_ritz_cap. Qed.
Print Assumptions C10_dmrg2_lapack_to_ritz_cap.

(* WHOLE RUN, two-site (tol_split = 0), END TO END, repaired solver *)
Theorem C10_dmrg2_whole_run_lapack_cap : forall (F : ofield) orth qr split dnorm small deigh numiter (H : mpo (Cx F)) psi n d DsW Ds0 lam A qD ens tr,
  dmrg_twosite orth qr split (keig_lanczos_cap F dnorm small deigh numiter) H psi n = Some (A, qD, ens, tr) ->
  mpo_shapeb d DsW (o_A H) = true -> mps_shapeb d Ds0 (m_A (fst (orth psi))) = true ->
  Forall right_iso (m_A (fst (orth psi))) ->
  (2 <= length (o_A H))%nat -> bounded_below d (length (o_A H)) (o_A H) lam ->
  mpo_herm F (o_A H) d -> small_sound F small -> (1 <= numiter)%nat ->
  lrtr2_cap_ok qr split dnorm small deigh numiter (o_A H) d (rev tr) ->
  let L := length (o_A H) in
  let E0 := denergy d L (m_A (fst (orth psi))) (o_A H) in
  dnorm2 d L A = k1 (Cx F) /\ length ens = n /\
  Forall (fun e => fle F lam (cre e) /\ fle F (cre e) (cre E0)) ens /\ noninc ens /\
  (ens <> [] -> last ens (k0 (Cx F)) = denergy d L A (o_A H)).
Proof. exact dmrg2_run_lapack_cap. Qed.
Print Assumptions C10_dmrg2_whole_run_lapack_cap.

(* what the capped trace contracts say, entry by entry *)
Theorem C10_lrtr_cap_ok_spec : forall (F : ofield) qr dnorm small deigh numiter (Hs : list (osite (Cx F))) t rest,
  lrtr_cap_ok qr dnorm small deigh numiter Hs (t :: rest) <->
  (match c_kind (t_call t), t_envs t, t_ten t, t_qs t with
   | EIG, [BL; BR], [A], _ => keig_lanczos_cap_calls_ok F dnorm small deigh numiter BL BR (nth (c_site (t_call t)) Hs []) A
   | QR, _, [[M]], [q0; q1] => qr_ok M (qr (length rest) M q0 q1)
   | _, _, _, _ => True
   end) /\ lrtr_cap_ok qr dnorm small deigh numiter Hs rest.
Proof. intros. reflexivity. Qed.
Print Assumptions C10_lrtr_cap_ok_spec.
Theorem C10_lrtr2_cap_ok_spec : forall (F : ofield) qr split dnorm small deigh numiter (Hs : list (osite (Cx F))) d t rest,
  lrtr2_cap_ok qr split dnorm small deigh numiter Hs d (t :: rest) <->
  (match c_kind (t_call t), t_envs t, t_ten t, t_qs t with
   | EIG2, [BL; BR], [Am], _ => keig_lanczos_cap_calls_ok F dnorm small deigh numiter BL BR (Hm Hs (c_site (t_call t))) Am
   | SPLITL, _, [Am], [q0; q1; q2; q3] => split_ok d true Am (split (length rest) Am q0 q1 q2 q3 true)
   | SPLITR, _, [Am], [q0; q1; q2; q3] => split_ok d false Am (split (length rest) Am q0 q1 q2 q3 false)
   | QR, _, [[M]], [q0; q1] => qr_ok M (qr (length rest) M q0 q1)
   | _, _, _, _ => True
   end) /\ lrtr2_cap_ok qr split dnorm small deigh numiter Hs d rest.
Proof. intros. reflexivity. Qed.
Print Assumptions C10_lrtr2_cap_ok_spec.

(* ---- non-vacuity with a cap that BITES (Proofs/LinkCapExamples.v), numiter = 25 = the default numiter_lanczos of pytenet ----
   (1) one call: the one-site problem of C10_keig_from_krylov_nonvacuous (H = diag(1, -1), start tensor (3, 4), size 2): the
       capped count is min(25, 2) = 2; every hypothesis of C10_keig_cap_from_krylov holds; the model returns the Ritz value -1
       and a unit vector with <A'|H A'> = -1. *)
Example C10_keig_cap_from_krylov_nonvacuous :
  Nat.min 25 (site_size lk_A) = 2%nat /\
  keig_ok 2 lk_E lk_E lk_W lk_A (keig_lanczos_cap QcF dnorm_ex ex_small lk_deigh 25 0 lk_E lk_E lk_W lk_A) /\
  (let r := keig_lanczos_cap QcF dnorm_ex ex_small lk_deigh 25 0 lk_E lk_E lk_W lk_A in
   keqb CQ (fst r) (qq (-1) 1, qq 0 1) && keqb CQ (site_dot (snd r) (snd r)) (k1 CQ)
   && keqb CQ (site_dot (snd r) (apply_local_hamiltonian lk_E lk_E lk_W (snd r))) (qq (-1) 1, qq 0 1) && Nat.eqb (length (snd r)) 2) = true.
Proof. split; [reflexivity|]. split; [exact lk_keig_cap_ok|vm_compute; reflexivity]. Qed.

(* (2) whole runs on two spins (L = 2, d = 2, bonds 1-1-1, H = Z (x) Z, psi = (3/5, 4/5) (x) (1, 0), two sweeps), repaired solver
       with numiter = 25: EVERY eigensolver entry of the trace has 1 <= Astart.size < 25 (sizes 2 single-site, 4 two-site:
       [cap_bites_everywhere]); the first single-site call runs exactly min(25, 2) = 2 Lanczos iterations without breakdown.  The
       runs succeed; every hypothesis except the semantic one on H (H >= lam) holds by evaluation (LAPACK-level contracts of the
       recorded calls by the boolean checkers ldmrg1_cap_okb / ldmrg2_cap_okb, sound by ldmrg1_cap_okb_ok / ldmrg2_cap_okb_ok); the
       conclusions are non-trivial: energies -1 (ground energy) below E0 = -7/25, the state changes. *)
Example C10_dmrg1_whole_run_lapack_cap_nonvacuous :
  match dmrg_singlesite ex_orth ex_qr c2_keig c2H c2Psi 2 with
  | Some (A, qD, ens, tr) =>
      mpo_shapeb 2 [1; 1; 1]%nat (o_A c2H) && mps_shapeb 2 [1; 1; 1]%nat (m_A (fst (ex_orth c2Psi)))
      && forallb right_isob (m_A (fst (ex_orth c2Psi))) && Nat.leb 2 (length (o_A c2H)) && mpo_hermb (o_A c2H) 2
      && ldmrg1_cap_okb dnorm_ex ex_small c2_deigh 25 ex_qr (o_A c2H) (rev tr)
      && cap_bites_everywhere 25 tr
      && Nat.eqb (length tr) 14 && Nat.eqb (length ens) 2
      && Nat.eqb (length (filter (fun t => match c_kind (t_call t) with EIG => true | _ => false end) tr)) 4
      && keqb CQ (dnorm2 2 2 A) (k1 CQ) && keqb CQ (last ens (k0 CQ)) (denergy 2 2 A (o_A c2H))
      && keqb CQ (last ens (k0 CQ)) (qq (-1) 1, qq 0 1)
      && keqb CQ (denergy 2 2 (m_A (fst (ex_orth c2Psi))) (o_A c2H)) (qq (-7) 25, qq 0 1)
      && negb (list_eqb (fun a b => list_eqb mxeqb a b) A (m_A c2Psi))
  | None => false
  end = true.
Proof. vm_compute. reflexivity. Qed.
Theorem C10_dmrg1_whole_run_lapack_cap_example : forall lam A qD ens tr,
  dmrg_singlesite ex_orth ex_qr c2_keig c2H c2Psi 2 = Some (A, qD, ens, tr) ->
  bounded_below 2 (length (o_A c2H)) (o_A c2H) lam ->
  let L := length (o_A c2H) in
  let E0 := denergy 2 L (m_A (fst (ex_orth c2Psi))) (o_A c2H) in
  dnorm2 2 L A = k1 CQ /\ length ens = 2%nat /\
  Forall (fun e => fle QcF lam (cre e) /\ fle QcF (cre e) (cre E0)) ens /\ noninc ens /\
  (ens <> [] -> last ens (k0 CQ) = denergy 2 L A (o_A c2H)).
Proof. exact dmrg1_run_lapack_cap_example. Qed.
Print Assumptions C10_dmrg1_whole_run_lapack_cap_example.

Example C10_dmrg2_whole_run_lapack_cap_nonvacuous :
  match dmrg_twosite ex_orth ex_qr ex3_split c2_keig c2H c2Psi 2 with
  | Some (A, qD, ens, tr) =>
      mpo_shapeb 2 [1; 1; 1]%nat (o_A c2H) && mps_shapeb 2 [1; 1; 1]%nat (m_A (fst (ex_orth c2Psi)))
      && forallb right_isob (m_A (fst (ex_orth c2Psi))) && Nat.leb 2 (length (o_A c2H)) && mpo_hermb (o_A c2H) 2
      && ldmrg2_cap_okb dnorm_ex ex_small c2_deigh 25 ex_qr ex3_split (o_A c2H) 2 (rev tr)
      && cap_bites_everywhere 25 tr
      && Nat.eqb (length tr) 8 && Nat.eqb (length ens) 2
      && Nat.eqb (length (filter (fun t => match c_kind (t_call t) with EIG2 => true | _ => false end) tr)) 2
      && keqb CQ (dnorm2 2 2 A) (k1 CQ) && keqb CQ (last ens (k0 CQ)) (denergy 2 2 A (o_A c2H))
      && keqb CQ (last ens (k0 CQ)) (qq (-1) 1, qq 0 1)
      && negb (list_eqb (fun a b => list_eqb mxeqb a b) A (m_A c2Psi))
  | None => false
  end = true.
Proof. vm_compute. reflexivity. Qed.
Theorem C10_dmrg2_whole_run_lapack_cap_example : forall lam A qD ens tr,
  dmrg_twosite ex_orth ex_qr ex3_split c2_keig c2H c2Psi 2 = Some (A, qD, ens, tr) ->
  bounded_below 2 (length (o_A c2H)) (o_A c2H) lam ->
  let L := length (o_A c2H) in
  let E0 := denergy 2 L (m_A (fst (ex_orth c2Psi))) (o_A c2H) in
  dnorm2 2 L A = k1 CQ /\ length ens = 2%nat /\
  Forall (fun e => fle QcF lam (cre e) /\ fle QcF (cre e) (cre E0)) ens /\ noninc ens /\
  (ens <> [] -> last ens (k0 CQ) = denergy 2 L A (o_A c2H)).
Proof. exact dmrg2_run_lapack_cap_example. Qed.
Print Assumptions C10_dmrg2_whole_run_lapack_cap_example.
