(* C03 — MPS/MPO arithmetic agrees with dense linear algebra.
   Only statements, closed by [exact]; proofs live in Proofs/MPSOps*.v; the model is Model/MPSOps.v.

   Dense meaning (Model/Tensor.v):  amp As w  = <w|psi>  = (A_1[w_1] ... A_L[w_L])_00,
                                    opamp Ws w w' = <w|O|w'> = (W_1[w_1,w'_1] ... W_L[w_L,w'_L])_00,
   words d L = all words in lexicographic order = row-major flat index of as_vector / as_matrix.
   Hypotheses: [mps_wf] / [mpo_wf] (shapes fit the quantum-number lists, boundary bond dimension 1, L >= 1),
   equal physical dimension and length of the operands, words of length L with letters < d.
   All theorems hold for every commutative ring with conjugation (R : cring), every L >= 1, every d and all bond
   profiles; nothing is assumed about block sparsity (the homomorphism laws do not need it).

   split_mps_tensor: the block SVD (split_matrix_svd) is an oracle argument of the model; [C03_merge_split_id] assumes of
   the one call issued that its answer reproduces the reshaped tensor, U diag(sigma) V = M (at tol = 0 this is C12's
   statement about split_matrix_svd), and for 'sqrt' that ksqrt(sigma_l)^2 = sigma_l.

   MPO.as_matrix(sparse_format=True): the reshape / hstack path is modelled literally ([as_matrix_sparse]); it is proved equal
   to the dense path for every L >= 1, d >= 1 and every bond profile ([C03_as_matrix_sparse]; loop invariant in
   Proofs/MPSOpsSparseFull.v), and compared bit for bit with the implementation on every generated case.

   MPS.from_vector (Model/FromVector.v: TT-SVD loop; numpy.linalg.svd and the unstable numpy.argsort inside
   retained_bond_indices are oracle arguments indexed by the loop iteration, scalars in the complexification of an arbitrary
   ordered field): [C03_from_vector_exact] proves for every n >= 1, d >= 1 and every vector of length d^n (zero or not) that at
   tol = 0 the model succeeds, returns a well-formed MPS with all quantum numbers zero, and as_vector of it is the input vector,
   provided every answer of the SVD oracle to a call the loop issues has LAPACK's shapes and satisfies U diag(s) V = M
   ([fv_svd_ok]; orthonormality and s >= 0 are not needed); NOTHING is assumed about the argsort oracle.  The branch
   `if len(idx) == 0: idx = [0]` (zero vector) is part of the model.
   Not proved here: from_vector with tol > 0 (the error bound is C13's subject; the truncating branch of the model is compared
   with the implementation by replay); d = 0 and nsites = 0 raise IndexError in the code and are the error value of the model. *)
From Coq Require Import ZArith List Bool Lia.
From PT Require Import Base.Scalar Base.BigSum Base.Mx Model.Tensor Model.MPSOps.
From PT Require Import Proofs.MPSOpsBase Proofs.MPSOpsAdd Proofs.MPSOpsMul Proofs.MPSOpsDense Proofs.MPSOpsTop.
From PT Require Import Proofs.MPSOpsShape Proofs.MPSOpsLaws Proofs.MPSOpsSplit Proofs.MPSOpsSparse Proofs.MPSOpsSparseFull.
From PT Require Import Base.Field Model.BondOps Model.FromVector Proofs.FromVectorExact.
Import ListNotations.

(* ---- sums and differences ---- *)
Theorem C03_add_mps_amp : forall (R : cring) (alpha : R) (p q : mps R) (w : list nat),
  mps_wf p = true -> mps_wf q = true ->
  length (m_qd p) = length (m_qd q) -> length (m_A p) = length (m_A q) ->
  wordb (length (m_qd p)) (length (m_A p)) w = true ->
  amp (m_A (add_mps alpha p q)) w = kadd R (amp (m_A p) w) (kmul R alpha (amp (m_A q) w)).
Proof. exact add_mps_amp. Qed.
Print Assumptions C03_add_mps_amp.

Theorem C03_sub_mps_amp : forall (R : cring) (p q : mps R) (w : list nat),
  mps_wf p = true -> mps_wf q = true ->
  length (m_qd p) = length (m_qd q) -> length (m_A p) = length (m_A q) ->
  wordb (length (m_qd p)) (length (m_A p)) w = true ->
  amp (m_A (add_mps (kopp R (k1 R)) p q)) w = ksub R (amp (m_A p) w) (amp (m_A q) w).
Proof. exact sub_mps_amp. Qed.
Print Assumptions C03_sub_mps_amp.

Theorem C03_add_mpo_opamp : forall (R : cring) (alpha : R) (a b : mpo R) (w w' : list nat),
  mpo_wf a = true -> mpo_wf b = true ->
  length (o_qd a) = length (o_qd b) -> length (o_A a) = length (o_A b) ->
  wordb (length (o_qd a)) (length (o_A a)) w = true -> wordb (length (o_qd a)) (length (o_A a)) w' = true ->
  opamp (o_A (add_mpo alpha a b)) w w' = kadd R (opamp (o_A a) w w') (kmul R alpha (opamp (o_A b) w w')).
Proof. exact add_mpo_opamp. Qed.
Print Assumptions C03_add_mpo_opamp.

Theorem C03_sub_mpo_opamp : forall (R : cring) (a b : mpo R) (w w' : list nat),
  mpo_wf a = true -> mpo_wf b = true ->
  length (o_qd a) = length (o_qd b) -> length (o_A a) = length (o_A b) ->
  wordb (length (o_qd a)) (length (o_A a)) w = true -> wordb (length (o_qd a)) (length (o_A a)) w' = true ->
  opamp (o_A (add_mpo (kopp R (k1 R)) a b)) w w' = ksub R (opamp (o_A a) w w') (opamp (o_A b) w w').
Proof. exact sub_mpo_opamp. Qed.
Print Assumptions C03_sub_mpo_opamp.

(* ---- composition = matrix product, application = matrix-vector product ---- *)
Theorem C03_multiply_mpo_opamp : forall (R : cring) (a b : mpo R) (w w' : list nat),
  mpo_wf a = true -> mpo_wf b = true ->
  length (o_qd a) = length (o_qd b) -> length (o_A a) = length (o_A b) ->
  wordb (length (o_qd a)) (length (o_A a)) w = true -> wordb (length (o_qd a)) (length (o_A a)) w' = true ->
  opamp (o_A (multiply_mpo a b)) w w' =
  suml (words (length (o_qd a)) (length (o_A a))) (fun u => kmul R (opamp (o_A a) w u) (opamp (o_A b) u w')).
Proof. exact multiply_mpo_opamp. Qed.
Print Assumptions C03_multiply_mpo_opamp.

Theorem C03_apply_operator_amp : forall (R : cring) (o : mpo R) (p : mps R) (w : list nat),
  mpo_wf o = true -> mps_wf p = true ->
  length (o_qd o) = length (m_qd p) -> length (o_A o) = length (m_A p) ->
  wordb (length (o_qd o)) (length (o_A o)) w = true ->
  amp (m_A (apply_operator o p)) w =
  suml (words (length (o_qd o)) (length (o_A o))) (fun u => kmul R (opamp (o_A o) w u) (amp (m_A p) u)).
Proof. exact apply_operator_amp. Qed.
Print Assumptions C03_apply_operator_amp.

(* ---- MPO.identity(qd, L, scale) denotes scale^L times the identity (scale sits on every site) ---- *)
Theorem C03_identity_opamp : forall (R : cring) (qd : list Z) (L : nat) (scale : R) (w w' : list nat),
  wordb (length qd) L w = true -> wordb (length qd) L w' = true ->
  opamp (o_A (mpo_identity qd L scale)) w w' =
  kmul R (kpow scale L) (if list_eqb Nat.eqb w w' then k1 R else k0 R).
Proof. exact identity_opamp. Qed.
Print Assumptions C03_identity_opamp.

Theorem C03_word_eqb : forall w w' : list nat, list_eqb Nat.eqb w w' = true <-> w = w'.
Proof. exact word_eqb_spec. Qed.
Print Assumptions C03_word_eqb.

(* ---- the arrays the user sees: as_vector / as_matrix (dense path) list amp / opamp in word order ---- *)
Theorem C03_as_vector_amp : forall (R : cring) (p : mps R),
  mps_wf p = true ->
  as_vector (m_A p) = Some (map (amp (m_A p)) (words (length (m_qd p)) (length (m_A p)))).
Proof. exact as_vector_words. Qed.
Print Assumptions C03_as_vector_amp.

Theorem C03_as_matrix_opamp : forall (R : cring) (o : mpo R),
  mpo_wf o = true ->
  as_matrix (o_A o) = Some (opamp_table (length (o_qd o)) (o_A o)).
Proof. exact as_matrix_words. Qed.
Print Assumptions C03_as_matrix_opamp.

Theorem C03_opamp_table_entry : forall (R : cring) (d : nat) (Ws : list (osite R)) (k k' : nat),
  (k < length (words d (length Ws)))%nat -> (k' < length (words d (length Ws)))%nat ->
  get (opamp_table d Ws) k k' = opamp Ws (nth k (words d (length Ws)) []) (nth k' (words d (length Ws)) []).
Proof. exact get_opamp_table. Qed.
Print Assumptions C03_opamp_table_entry.

(* ---- results are again well-formed, so the statements compose (chained expressions) ---- *)
Theorem C03_results_wf : forall (R : cring) (alpha : R) (p q : mps R) (a b : mpo R),
  (mps_wf p = true -> mps_wf q = true -> length (m_qd p) = length (m_qd q) -> length (m_A p) = length (m_A q) ->
     mps_wf (add_mps alpha p q) = true) /\
  (mpo_wf a = true -> mpo_wf b = true -> length (o_qd a) = length (o_qd b) -> length (o_A a) = length (o_A b) ->
     mpo_wf (add_mpo alpha a b) = true /\ mpo_wf (multiply_mpo a b) = true) /\
  (mpo_wf a = true -> mps_wf p = true -> length (o_qd a) = length (m_qd p) -> length (o_A a) = length (m_A p) ->
     mps_wf (apply_operator a p) = true) /\
  (forall qd L, (0 < L)%nat -> mpo_wf (mpo_identity qd L alpha) = true).
Proof. exact results_wf. Qed.
Print Assumptions C03_results_wf.

(* ---- the laws on the arrays the user sees: dense form of the result = same expression on the dense operands ---- *)
Theorem C03_add_mps_dense : forall (R : cring) (alpha : R) (p q : mps R),
  mps_wf p = true -> mps_wf q = true -> length (m_qd p) = length (m_qd q) -> length (m_A p) = length (m_A q) ->
  exists vp vq, as_vector (m_A p) = Some vp /\ as_vector (m_A q) = Some vq /\
    as_vector (m_A (add_mps alpha p q)) = Some (zipw (fun x y => kadd R x (kmul R alpha y)) vp vq).
Proof. exact add_mps_dense. Qed.
Print Assumptions C03_add_mps_dense.

Theorem C03_add_mpo_dense : forall (R : cring) (alpha : R) (a b : mpo R),
  mpo_wf a = true -> mpo_wf b = true -> length (o_qd a) = length (o_qd b) -> length (o_A a) = length (o_A b) ->
  exists Ma Mb, as_matrix (o_A a) = Some Ma /\ as_matrix (o_A b) = Some Mb /\
    as_matrix (o_A (add_mpo alpha a b)) = Some (addmx Ma (scalemx alpha Mb)).
Proof. exact add_mpo_dense. Qed.
Print Assumptions C03_add_mpo_dense.

Theorem C03_multiply_mpo_dense : forall (R : cring) (a b : mpo R),
  mpo_wf a = true -> mpo_wf b = true -> length (o_qd a) = length (o_qd b) -> length (o_A a) = length (o_A b) ->
  exists Ma Mb, as_matrix (o_A a) = Some Ma /\ as_matrix (o_A b) = Some Mb /\
    as_matrix (o_A (multiply_mpo a b)) = Some (mulmx Ma Mb).
Proof. exact multiply_mpo_dense. Qed.
Print Assumptions C03_multiply_mpo_dense.

Theorem C03_apply_operator_dense : forall (R : cring) (o : mpo R) (p : mps R),
  mpo_wf o = true -> mps_wf p = true -> length (o_qd o) = length (m_qd p) -> length (o_A o) = length (m_A p) ->
  exists M v, as_matrix (o_A o) = Some M /\ as_vector (m_A p) = Some v /\
    as_vector (m_A (apply_operator o p)) = Some (matvec M v).
Proof. exact apply_operator_dense. Qed.
Print Assumptions C03_apply_operator_dense.

(* ---- dense = sparse matrix form, for every number of sites, physical dimension and bond profile ---- *)
Theorem C03_as_matrix_sparse : forall (R : cring) (o : mpo R),
  mpo_wf o = true -> (0 < length (o_qd o))%nat ->
  as_matrix_sparse (length (o_qd o)) (o_A o) = as_matrix (o_A o).
Proof. exact as_matrix_sparse_dense. Qed.
Print Assumptions C03_as_matrix_sparse.

(* the single-site case in terms of the tensor alone (kept from the earlier partial result) *)
Theorem C03_as_matrix_sparse_single : forall (R : cring) (d : nat) (W : osite R),
  osite_shape d 1 1 W = true -> (0 < d)%nat -> as_matrix_sparse d [W] = as_matrix [W].
Proof. exact as_matrix_sparse_single. Qed.
Print Assumptions C03_as_matrix_sparse_single.

(* ---- from_vector at tol = 0 reproduces the vector ---- *)
Theorem C03_from_vector_exact : forall (F : ofield)
    (dsvd : nat -> mx (Cx F) -> mx (Cx F) * list F * mx (Cx F)) (srt : nat -> list F -> list nat)
    (d n : nat) (vec : list (Cx F)),
  (0 < d)%nat -> (0 < n)%nat -> length vec = (d ^ n)%nat ->
  Forall (fun c => fv_svd_ok (snd c) (dsvd (fst c) (snd c))) (from_vector_calls dsvd srt d n vec (f0 F)) ->
  exists p, from_vector dsvd srt d n vec (f0 F) = Some p /\
    mps_wf p = true /\ length (m_A p) = n /\
    m_qd p = repeat 0%Z d /\ (forall q, In q (m_qD p) -> forall x, In x q -> x = 0%Z) /\
    as_vector (m_A p) = Some vec.
Proof. exact from_vector_exact. Qed.
Print Assumptions C03_from_vector_exact.

(* the contract of one SVD answer, spelled out: LAPACK's shapes and U diag(s) V = M entrywise *)
Theorem C03_fv_svd_ok_spec : forall (F : ofield) (M u vt : mx (Cx F)) (s : list F),
  fv_svd_ok M (u, s, vt) <->
  (let k := Nat.min (nr M) (nc M) in
   nr u = nr M /\ nc u = k /\ length s = k /\ nr vt = k /\ nc vt = nc M /\
   forall i j, (i < nr M)%nat -> (j < nc M)%nat ->
     sumn k (fun l => kmul (Cx F) (kmul (Cx F) (get u i l) (cof (nth l s (f0 F)))) (get vt l j)) = get M i j).
Proof. intros. reflexivity. Qed.
Print Assumptions C03_fv_svd_ok_spec.

(* ---- merging two neighbouring tensors undoes a split, for every way of distributing the singular values
        (distr: 0 = 'left', 1 = 'right', >= 2 = 'sqrt') ---- *)
Theorem C03_merge_split_id : forall (R : cring)
    (svd : mx R -> list Z -> list Z -> mx R * list R * mx R * list Z) (ksqrt : R -> R)
    (A : site R) (qd0 qd1 qD0 qD2 : list Z) (distr D0 D2 : nat),
  let d0 := length qd0 in let d1 := length qd1 in
  site_shape (d0 * d1) D0 D2 A = true -> (0 < d0 * d1)%nat ->
  let M := split_matrix d0 d1 A in
  let ans := svd M (qflat qd0 qD0) (qflat (map Z.opp qd1) qD2) in
  svd_exact M ans ->
  ((2 <= distr)%nat -> forall l, (l < length (snd (fst (fst ans))))%nat ->
      kmul R (ksqrt (nth l (snd (fst (fst ans))) (k0 R))) (ksqrt (nth l (snd (fst (fst ans))) (k0 R)))
      = nth l (snd (fst (fst ans))) (k0 R)) ->
  let '(A0, A1, _) := split_mps_tensor svd ksqrt A qd0 qd1 qD0 qD2 distr in
  merge_mps_tensor_pair A0 A1 = A.
Proof. exact merge_split_id. Qed.
Print Assumptions C03_merge_split_id.

(* ---- bond quantum numbers of the results ---- *)
(* sum: boundary bonds copied from the first operand, inner bonds concatenated (first operand first) *)
Theorem C03_add_qD : forall (R : cring) (alpha : R) (p q : mps R) (a b : mpo R),
  m_qD (add_mps alpha p q) = add_qD (m_qD p) (m_qD q) /\ o_qD (add_mpo alpha a b) = add_qD (o_qD a) (o_qD b).
Proof. exact add_qD_spec. Qed.
Print Assumptions C03_add_qD.

Theorem C03_add_qD_nth : forall (qa qb : list (list Z)) (i : nat),
  length qa = length qb -> (i < length qa)%nat ->
  nth i (add_qD qa qb) [] =
    if Nat.eqb i 0 || Nat.eqb i (length qa - 1) then nth i qa [] else (nth i qa [] ++ nth i qb [])%list.
Proof. exact add_qD_nth. Qed.
Print Assumptions C03_add_qD_nth.

(* product / application: outer sum of the operands' bond charges, flattened row-major, on every bond *)
Theorem C03_mul_qD : forall (R : cring) (a b : mpo R) (p : mps R),
  o_qD (multiply_mpo a b) = zipw qflat (o_qD a) (o_qD b) /\ m_qD (apply_operator a p) = zipw qflat (o_qD a) (m_qD p) /\
  m_qd (apply_operator a p) = m_qd p /\ o_qd (multiply_mpo a b) = o_qd a.
Proof. exact mul_qD_spec. Qed.
Print Assumptions C03_mul_qD.

Theorem C03_qflat_nth : forall (qa qb : list Z) (i j : nat), (i < length qa)%nat -> (j < length qb)%nat ->
  nth (i * length qb + j) (qflat qa qb) 0%Z = (nth i qa 0 + nth j qb 0)%Z.
Proof. exact qflat_nth. Qed.
Print Assumptions C03_qflat_nth.

Theorem C03_identity_qD : forall (R : cring) (qd : list Z) (L : nat) (scale : R),
  o_qD (mpo_identity qd L scale) = repeat [0%Z] (S L) /\ o_qd (mpo_identity qd L scale) = qd /\
  length (o_A (mpo_identity qd L scale)) = L.
Proof. exact identity_qD_spec. Qed.
Print Assumptions C03_identity_qD.

(* ---- non-vacuity: concrete operands (L = 3, d = 2, bond dimensions 2 and 3, Gaussian-integer entries) meet the
        hypotheses, both sides of every equation are evaluated by the kernel, and the values are not all zero ---- *)
Example C03_add_mps_nonvacuous :
  let al : GIring := (2, (-1))%Z in
  mps_wf ex_p && mps_wf ex_q &&
  all_words 2 3 (fun w => wordb 2 3 w &&
     keqb GIring (amp (m_A (add_mps al ex_p ex_q)) w) (kadd GIring (amp (m_A ex_p) w) (kmul GIring al (amp (m_A ex_q) w)))) &&
  some_nonzero (map (amp (m_A ex_p)) (words 2 3)) && some_nonzero (map (amp (m_A ex_q)) (words 2 3)) &&
  match add_mps_run al ex_p ex_q with Some r => mps_wf r | None => false end = true.
Proof. vm_compute. reflexivity. Qed.

Example C03_add_mpo_nonvacuous :
  let al : GIring := ((-1), 0)%Z in
  mpo_wf ex_a && mpo_wf ex_b &&
  all_words 2 3 (fun w => all_words 2 3 (fun w' =>
     keqb GIring (opamp (o_A (add_mpo al ex_a ex_b)) w w')
                 (kadd GIring (opamp (o_A ex_a) w w') (kmul GIring al (opamp (o_A ex_b) w w'))))) &&
  some_nonzero (map (fun w => opamp (o_A ex_a) w w) (words 2 3)) &&
  match add_mpo_run al ex_a ex_b with Some r => mpo_wf r | None => false end = true.
Proof. vm_compute. reflexivity. Qed.

Example C03_multiply_mpo_nonvacuous :
  mpo_wf ex_a && mpo_wf ex_b &&
  all_words 2 3 (fun w => all_words 2 3 (fun w' =>
     keqb GIring (opamp (o_A (multiply_mpo ex_a ex_b)) w w')
                 (suml (words 2 3) (fun u => kmul GIring (opamp (o_A ex_a) w u) (opamp (o_A ex_b) u w'))))) &&
  some_nonzero (map (fun w => opamp (o_A (multiply_mpo ex_a ex_b)) w w) (words 2 3)) &&
  match multiply_mpo_run ex_a ex_b with Some r => mpo_wf r | None => false end = true.
Proof. vm_compute. reflexivity. Qed.

Example C03_apply_operator_nonvacuous :
  mpo_wf ex_a && mps_wf ex_q &&
  all_words 2 3 (fun w =>
     keqb GIring (amp (m_A (apply_operator ex_a ex_q)) w)
                 (suml (words 2 3) (fun u => kmul GIring (opamp (o_A ex_a) w u) (amp (m_A ex_q) u)))) &&
  some_nonzero (map (amp (m_A (apply_operator ex_a ex_q))) (words 2 3)) &&
  match apply_operator_run ex_a ex_q with Some r => mps_wf r | None => false end = true.
Proof. vm_compute. reflexivity. Qed.

Example C03_identity_nonvacuous :
  let sc : GIring := (1, 2)%Z in
  let I3 := @mpo_identity GIring [0; 1]%Z 3 sc in
  mpo_wf I3 &&
  all_words 2 3 (fun w => all_words 2 3 (fun w' =>
     keqb GIring (opamp (o_A I3) w w') (kmul GIring (kpow sc 3) (if list_eqb Nat.eqb w w' then k1 GIring else k0 GIring)))) &&
  keqb GIring (kpow sc 3) ((-11), (-2))%Z = true.
Proof. vm_compute. reflexivity. Qed.

Example C03_dense_nonvacuous :
  mps_wf ex_p && mpo_wf ex_a &&
  match as_vector (m_A ex_p) with Some v => vec_eqb v (map (amp (m_A ex_p)) (words 2 3)) && some_nonzero v | None => false end &&
  match as_matrix (o_A ex_a), as_matrix_sparse 2 (o_A ex_a) with
  | Some M, Some M' => mxeqb M (opamp_table 2 (o_A ex_a)) && mxeqb M' M && Nat.eqb (nr M) 8 && some_nonzero (concat (dat M))
  | _, _ => false end = true.
Proof. vm_compute. reflexivity. Qed.

(* chained expression ((A+B)@A) applied to (p - q): as_vector of the result equals the dense expression *)
Example C03_chain_nonvacuous :
  let one : GIring := (1, 0)%Z in let mone : GIring := ((-1), 0)%Z in
  let O := multiply_mpo (add_mpo one ex_a ex_b) ex_a in
  let psi := add_mps mone ex_p ex_q in
  let r := apply_operator O psi in
  mps_wf r &&
  match as_vector (m_A r), as_matrix (o_A ex_a), as_matrix (o_A ex_b), as_vector (m_A ex_p), as_vector (m_A ex_q) with
  | Some v, Some Ma, Some Mb, Some vp, Some vq =>
      vec_eqb v (matvec (mulmx (addmx Ma Mb) Ma) (zipw (fun x y => ksub GIring x y) vp vq)) && some_nonzero v
  | _, _, _, _, _ => false end = true.
Proof. vm_compute. reflexivity. Qed.

(* split / merge: an exact factorisation M = U diag(4, 9) V over Z[i] as the oracle answer; ksqrt 4 = 2, ksqrt 9 = 3 *)
Example C03_merge_split_nonvacuous :
  let qd0 := [0; 0]%Z in let qd1 := [0; 0; 0]%Z in
  site_shape 6 2 2 ex_A && mxeqb (split_matrix 2 3 ex_A) ex_M &&
  (* the oracle answer meets svd_exact (checked entry by entry) *)
  forallb (fun i => forallb (fun j =>
     keqb GIring (sumn 2 (fun l => kmul GIring (kmul GIring (get ex_U i l) (nth l ex_sigma (k0 GIring))) (get ex_V l j))) (get ex_M i j))
     (seq 0 6)) (seq 0 4) &&
  forallb (fun distr => let '(A0, A1, _) := split_mps_tensor ex_svd ex_sqrt ex_A qd0 qd1 [0; 0]%Z [0; 0]%Z distr in
                        site_eqb (merge_mps_tensor_pair A0 A1) ex_A) [0; 1; 2]%nat &&
  some_nonzero (concat (dat ex_M)) = true.
Proof. vm_compute. reflexivity. Qed.

(* from_vector: a rank-2 vector (d = 2, n = 2) with rational SVD answers and an argsort answer that is not sorted, and the zero
   vector (all singular values 0: the branch idx = [0]); the oracle answers meet the contract on the issued calls, the model
   succeeds with bond dimensions (1, 2, 1) resp. (1, 1, 1) and as_vector gives back the vector *)
Example C03_from_vector_nonvacuous :
  Forall (fun c => fv_svd_ok (snd c) (fvx_svd (fst c) (snd c))) (from_vector_calls fvx_svd fvx_srt 2 2 fvx_vec (f0 QcF)) /\
  Forall (fun c => fv_svd_ok (snd c) (fvx_svd0 (fst c) (snd c))) (from_vector_calls fvx_svd0 fvx_srt 2 2 fvx_zero (f0 QcF)) /\
  match from_vector fvx_svd fvx_srt 2 2 fvx_vec (f0 QcF), from_vector fvx_svd0 fvx_srt 2 2 fvx_zero (f0 QcF) with
  | Some p, Some z =>
      mps_wf p && list_eqb zl_eqb (m_qD p) [[0]; [0; 0]; [0]]%Z &&
      match as_vector (m_A p) with Some v => vec_eqb v fvx_vec | None => false end &&
      mps_wf z && list_eqb zl_eqb (m_qD z) [[0]; [0]; [0]]%Z &&
      match as_vector (m_A z) with Some v => vec_eqb v fvx_zero | None => false end
  | _, _ => false end = true.
Proof.
  split; [apply (fv_call_okb_ok QcF); vm_compute; reflexivity|].
  split; [apply (fv_call_okb_ok QcF); vm_compute; reflexivity|].
  vm_compute. reflexivity.
Qed.
