(* C01 — Orthonormalization never changes the represented state or operator.
   Only statements, closed by [exact]/[apply]; proofs live in Proofs/Orth*.v.
   Model: Model/Orthonormalize.v [mps_orthonormalize], [mpo_orthonormalize] (mirror of pytenet/mps.py MPS.orthonormalize,
   local_orthonormalize_left_qr / right_qr and of pytenet/mpo.py MPO.orthonormalize) on top of Model/BondOps.v [block_qr];
   numpy.linalg.qr is the oracle argument [dqr].

   Vocabulary (Proofs/OrthDefs.v, Proofs/OrthSweep.v, Proofs/OrthTop.v):
     amp As w            amplitude <w|psi> = (A_1[w_1] ... A_L[w_L])_00            (Model/Tensor.v)
     norm2 d As          sum over all words w in {0..d-1}^L of conj(amp As w) * amp As w   (= <psi|psi>, cf. C04_vdot_spec)
     liso Dl Dr A        sum_s A[s]^H A[s] = I_Dr, entry-wise;  chain_liso Ds As: every site, with bond dimensions Ds
     bond_bound pd D' D  D'_0 = first bonds unchanged in number, D'_{i+1} <= pd * D'_i and D'_{i+1} <= D_{i+1} for every i
     qr_call_ok F dqr B  LAPACK's contract on the call B: [dqr_ok] (shapes, Q R = B, Q^H Q = I) and diagonal of R real
     mps_orth_calls      the list of arguments of all numpy.linalg.qr calls issued by the sweep (depends on the answers) *)
From Coq Require Import ZArith QArith Qcanon List Bool Lia.
From PT Require Import Base.Scalar Base.Field Base.BigSum Base.Mx Model.Tensor Model.BondOps Model.Orthonormalize.
From PT Require Import Proofs.BondOpsSpec Proofs.OrthDefs Proofs.OrthQRExtra Proofs.OrthSweep Proofs.OrthTop Proofs.OrthBool.
From PT Require Import Proofs.OrthRight Proofs.OrthMPO Proofs.OrthMPORight.
Import ListNotations.
Open Scope nat_scope.

(* ---- MPS, mode = 'left' -----------------------------------------------------------------------------------------
   For every ordered field F (entries in its complexification), every L >= 1, d >= 1, every bond profile with
   D_0 = D_L = 1 and all D_i >= 1, all integer charges, every MPS that is well-formed and block sparse ([mps_ok]: the
   invariant of C02), and every oracle [dqr] whose answers satisfy LAPACK's contract on the calls the sweep actually issues:
   the model does not fail, and with (psi', nrm) its result
     - psi' has the same qd and length, is well-formed and block sparse under its new bond charges, first bond charges kept,
       last bond of dimension 1, all bonds >= 1, and  D'_{i+1} <= min(d * D'_i, D_{i+1});
     - every site tensor of psi' is a left isometry;
     - nrm >= 0;   amp psi w = nrm * amp psi' w  for every word w;   nrm^2 = <psi|psi>;   <psi'|psi'> = 1
       (for every input, also the zero state: the dummy-bond branch keeps isometries). *)
Theorem C01_orth_left_spec : forall (F : ofield) (dqr : mx (Cx F) -> mx (Cx F) * mx (Cx F)) (p : mps (Cx F)) (d : nat),
  1 <= d -> length (m_qd p) = d -> m_A p <> [] -> mps_ok p = true ->
  length (hd [] (m_qD p)) = 1 -> length (last (m_qD p) []) = 1 ->
  Forall (fun q => 1 <= length q) (m_qD p) ->
  Forall (qr_call_ok F dqr) (mps_orth_calls dqr true p) ->
  exists p' nrm, mps_orthonormalize dqr true p = Some (p', nrm) /\
    m_qd p' = m_qd p /\ length (m_A p') = length (m_A p) /\
    mps_ok p' = true /\
    hd [] (m_qD p') = hd [] (m_qD p) /\ length (last (m_qD p') []) = 1 /\
    Forall (fun q => 1 <= length q) (m_qD p') /\
    bond_bound d (lens (m_qD p')) (lens (m_qD p)) /\
    chain_liso (lens (m_qD p')) (m_A p') /\
    fle F (f0 F) nrm /\
    (forall w, length w = length (m_A p) -> letters d w ->
       amp (m_A p) w = kmul (Cx F) (cof nrm) (amp (m_A p') w)) /\
    norm2 d (m_A p) = cof (fmul F nrm nrm) /\
    norm2 d (m_A p') = k1 (Cx F).
Proof. intros F dqr p d. exact (orth_left_spec F dqr p d). Qed.
Print Assumptions C01_orth_left_spec.

(* ---- MPS, mode = 'right': the mirror image.  Every site tensor of psi' is a right isometry (sum_s A[s] A[s]^H = I), the last
   bond charges are kept, the first bond has dimension 1, and the bond bound runs from the right:
   D'_{i} <= min(d * D'_{i+1}, D_i)  (bond_bound on the reversed dimension lists).  Proved by showing that the model's right
   sweep is the left sweep on the reversed chain of transposed tensors with negated bond charges (Proofs/OrthRight.v
   [orth_right_mirror]), with the same oracle calls. *)
Theorem C01_orth_right_spec : forall (F : ofield) (dqr : mx (Cx F) -> mx (Cx F) * mx (Cx F)) (p : mps (Cx F)) (d : nat),
  1 <= d -> length (m_qd p) = d -> m_A p <> [] -> mps_ok p = true ->
  length (hd [] (m_qD p)) = 1 -> length (last (m_qD p) []) = 1 ->
  Forall (fun q => 1 <= length q) (m_qD p) ->
  Forall (qr_call_ok F dqr) (mps_orth_calls dqr false p) ->
  exists p' nrm, mps_orthonormalize dqr false p = Some (p', nrm) /\
    m_qd p' = m_qd p /\ length (m_A p') = length (m_A p) /\ mps_ok p' = true /\
    last (m_qD p') [] = last (m_qD p) [] /\ length (hd [] (m_qD p')) = 1 /\
    Forall (fun q => 1 <= length q) (m_qD p') /\
    bond_bound d (rev (lens (m_qD p'))) (rev (lens (m_qD p))) /\
    chain_riso (lens (m_qD p')) (m_A p') /\
    fle F (f0 F) nrm /\
    (forall w, length w = length (m_A p) -> letters d w ->
       amp (m_A p) w = kmul (Cx F) (cof nrm) (amp (m_A p') w)) /\
    norm2 d (m_A p) = cof (fmul F nrm nrm) /\
    norm2 d (m_A p') = k1 (Cx F).
Proof. intros F dqr p d. exact (orth_right_spec F dqr p d). Qed.
Print Assumptions C01_orth_right_spec.

(* ---- MPO, both modes: the model runs the MPS code on the view with physical index s*d + t and physical charge qd[s] - qd[t]
   ([mpo_view], validated against MPO.orthonormalize by the correspondence check).  opamp O w w' = <w|O|w'>;
   the Frobenius norm^2 of the operator is norm2 (d*d) of the view; isometry is stated for the view tensors
   (sum_{s,t} W[s][t]^H W[s][t] = I resp. sum_{s,t} W[s][t] W[s][t]^H = I). *)
Theorem C01_mpo_orth_left_spec : forall (F : ofield) (dqr : mx (Cx F) -> mx (Cx F) * mx (Cx F)) (o : mpo (Cx F)) (d : nat),
  1 <= d -> length (o_qd o) = d -> o_A o <> [] -> mpo_ok o = true ->
  length (hd [] (o_qD o)) = 1 -> length (last (o_qD o) []) = 1 ->
  Forall (fun q => 1 <= length q) (o_qD o) ->
  Forall (qr_call_ok F dqr) (mpo_orth_calls dqr true o) ->
  exists o' nrm, mpo_orthonormalize dqr true o = Some (o', nrm) /\
    o_qd o' = o_qd o /\ length (o_A o') = length (o_A o) /\ mpo_ok o' = true /\
    hd [] (o_qD o') = hd [] (o_qD o) /\ length (last (o_qD o') []) = 1 /\
    Forall (fun q => 1 <= length q) (o_qD o') /\
    bond_bound (d * d) (lens (o_qD o')) (lens (o_qD o)) /\
    chain_liso (lens (o_qD o')) (map oview (o_A o')) /\
    fle F (f0 F) nrm /\
    (forall w w', length w = length (o_A o) -> length w' = length (o_A o) -> letters d w -> letters d w' ->
       opamp (o_A o) w w' = kmul (Cx F) (cof nrm) (opamp (o_A o') w w')) /\
    norm2 (d * d) (map oview (o_A o)) = cof (fmul F nrm nrm) /\
    norm2 (d * d) (map oview (o_A o')) = k1 (Cx F).
Proof. intros F dqr o d. exact (mpo_orth_left_spec F dqr o d). Qed.
Print Assumptions C01_mpo_orth_left_spec.

Theorem C01_mpo_orth_right_spec : forall (F : ofield) (dqr : mx (Cx F) -> mx (Cx F) * mx (Cx F)) (o : mpo (Cx F)) (d : nat),
  1 <= d -> length (o_qd o) = d -> o_A o <> [] -> mpo_ok o = true ->
  length (hd [] (o_qD o)) = 1 -> length (last (o_qD o) []) = 1 ->
  Forall (fun q => 1 <= length q) (o_qD o) ->
  Forall (qr_call_ok F dqr) (mpo_orth_calls dqr false o) ->
  exists o' nrm, mpo_orthonormalize dqr false o = Some (o', nrm) /\
    o_qd o' = o_qd o /\ length (o_A o') = length (o_A o) /\ mpo_ok o' = true /\
    last (o_qD o') [] = last (o_qD o) [] /\ length (hd [] (o_qD o')) = 1 /\
    Forall (fun q => 1 <= length q) (o_qD o') /\
    bond_bound (d * d) (rev (lens (o_qD o'))) (rev (lens (o_qD o))) /\
    chain_riso (lens (o_qD o')) (map oview (o_A o')) /\
    fle F (f0 F) nrm /\
    (forall w w', length w = length (o_A o) -> length w' = length (o_A o) -> letters d w -> letters d w' ->
       opamp (o_A o) w w' = kmul (Cx F) (cof nrm) (opamp (o_A o') w w')) /\
    norm2 (d * d) (map oview (o_A o)) = cof (fmul F nrm nrm) /\
    norm2 (d * d) (map oview (o_A o')) = k1 (Cx F).
Proof. intros F dqr o d. exact (mpo_orth_right_spec F dqr o d). Qed.
Print Assumptions C01_mpo_orth_right_spec.

(* Not proved in Coq (validated on every generated input by harness/props/c01.py): that numpy.linalg.qr meets [qr_call_ok]
   (measured on every recorded call), rounding (the theorems are exact; prop checks isometry to 1e-8), and that the code
   computes what the model computes (replay, form R).  The sparsity / dimension statements need every bond dimension >= 1
   (true for every object the public constructors build). *)

(* len(A) == 0 returns 1 and leaves the object unchanged *)
Theorem C01_orth_empty : forall (F : ofield) dqr left (p : mps (Cx F)),
  m_A p = [] -> mps_orthonormalize dqr left p = Some (p, f1 F).
Proof. intros F dqr left p E. unfold mps_orthonormalize. rewrite E. reflexivity. Qed.
Print Assumptions C01_orth_empty.

(* Non-vacuity: L = 2, d = 2, bond dimensions [1,2,1], charges zero, rational entries;
   A_0 reshaped = [[3,2],[4,11]] = [[3/5,-4/5],[4/5,3/5]] . [[5,10],[0,5]];   A_1[0] = (1,0)^T, A_1[1] = (-2,2)^T,
   R . A_1 stacked = (5,0,10,10)^T = (1/3,0,2/3,2/3)^T . 15.  The oracle table meets the contract on both issued calls and the
   model returns nrm = 15. *)
Definition qq (n : Z) (d : positive) : Qc := Q2Qc (Qmake n d).
Definition cq (n : Z) (d : positive) : Cx QcF := (qq n d, qq 0 1).
Definition mc := @mkmx (Cx QcF).
Definition ex_p : mps (Cx QcF) :=
  mkmps [0; 0]%Z [[0]; [0; 0]; [0]]%Z
    [ [mc 1 2 [[cq 3 1; cq 2 1]]; mc 1 2 [[cq 4 1; cq 11 1]]];
      [mc 2 1 [[cq 1 1]; [cq 0 1]]; mc 2 1 [[cq (-2) 1]; [cq 2 1]]] ].
Definition ex_tbl : list (mx (Cx QcF) * (mx (Cx QcF) * mx (Cx QcF))) :=
  [ (mc 2 2 [[cq 3 1; cq 2 1]; [cq 4 1; cq 11 1]],
     (mc 2 2 [[cq 3 5; cq (-4) 5]; [cq 4 5; cq 3 5]], mc 2 2 [[cq 5 1; cq 10 1]; [cq 0 1; cq 5 1]]));
    (mc 4 1 [[cq 5 1]; [cq 0 1]; [cq 10 1]; [cq 10 1]],
     (mc 4 1 [[cq 1 3]; [cq 0 1]; [cq 2 3]; [cq 2 3]], mc 1 1 [[cq 15 1]])) ].
Definition ex_dqr := qr_oracle ex_tbl.
Example C01_nonvacuous :
  1 <= 2 /\ length (m_qd ex_p) = 2 /\ m_A ex_p <> [] /\ mps_ok ex_p = true /\
  length (hd [] (m_qD ex_p)) = 1 /\ length (last (m_qD ex_p) []) = 1 /\
  Forall (fun q => 1 <= length q) (m_qD ex_p) /\
  Forall (qr_call_ok QcF ex_dqr) (mps_orth_calls ex_dqr true ex_p) /\
  length (mps_orth_calls ex_dqr true ex_p) = 2 /\
  match mps_orthonormalize ex_dqr true ex_p with
  | Some (p', nrm) => feqb QcF nrm (qq 15 1) && list_eqb Nat.eqb (lens (m_qD p')) [1; 2; 1]
  | None => false end = true.
Proof.
  split; [lia|]. split; [reflexivity|]. split; [discriminate|]. split; [vm_compute; reflexivity|].
  split; [reflexivity|]. split; [reflexivity|].
  split. { repeat constructor. }
  split; [apply qr_call_okb_sound; vm_compute; reflexivity|].
  split; vm_compute; reflexivity.
Qed.

(* Non-vacuity for mode = 'right': product state L = 2, d = 2, tensors (3,4) (x) (3,4); two calls (columns (3,4) and (15,20));
   the oracle table meets the contract on both and the model returns nrm = 25. *)
Definition ex_r : mps (Cx QcF) :=
  mkmps [0; 0]%Z [[0]; [0]; [0]]%Z
    [ [mc 1 1 [[cq 3 1]]; mc 1 1 [[cq 4 1]]]; [mc 1 1 [[cq 3 1]]; mc 1 1 [[cq 4 1]]] ].
Definition ex_rtbl : list (mx (Cx QcF) * (mx (Cx QcF) * mx (Cx QcF))) :=
  [ (mc 2 1 [[cq 3 1]; [cq 4 1]], (mc 2 1 [[cq 3 5]; [cq 4 5]], mc 1 1 [[cq 5 1]]));
    (mc 2 1 [[cq 15 1]; [cq 20 1]], (mc 2 1 [[cq 3 5]; [cq 4 5]], mc 1 1 [[cq 25 1]])) ].
Example C01_right_nonvacuous :
  mps_ok ex_r = true /\ Forall (qr_call_ok QcF (qr_oracle ex_rtbl)) (mps_orth_calls (qr_oracle ex_rtbl) false ex_r) /\
  length (mps_orth_calls (qr_oracle ex_rtbl) false ex_r) = 2 /\
  match mps_orthonormalize (qr_oracle ex_rtbl) false ex_r with Some (_, nrm) => feqb QcF nrm (qq 25 1) | None => false end = true.
Proof.
  split; [vm_compute; reflexivity|]. split; [apply qr_call_okb_sound; vm_compute; reflexivity|]. split; vm_compute; reflexivity.
Qed.
(* Non-vacuity for the MPO theorems: one site, d = 2, O = diag(3, 4), both modes; one call (column (3,0,0,4)), nrm = 5 *)
Definition ex_o : mpo (Cx QcF) :=
  mkmpo [0; 0]%Z [[0]; [0]]%Z [ [[mc 1 1 [[cq 3 1]]; mc 1 1 [[cq 0 1]]]; [mc 1 1 [[cq 0 1]]; mc 1 1 [[cq 4 1]]]] ].
Definition ex_otbl : list (mx (Cx QcF) * (mx (Cx QcF) * mx (Cx QcF))) :=
  [ (mc 4 1 [[cq 3 1]; [cq 0 1]; [cq 0 1]; [cq 4 1]], (mc 4 1 [[cq 3 5]; [cq 0 1]; [cq 0 1]; [cq 4 5]], mc 1 1 [[cq 5 1]])) ].
Example C01_mpo_nonvacuous :
  mpo_ok ex_o = true /\
  Forall (qr_call_ok QcF (qr_oracle ex_otbl)) (mpo_orth_calls (qr_oracle ex_otbl) true ex_o) /\
  Forall (qr_call_ok QcF (qr_oracle ex_otbl)) (mpo_orth_calls (qr_oracle ex_otbl) false ex_o) /\
  length (mpo_orth_calls (qr_oracle ex_otbl) true ex_o) = 1 /\
  match mpo_orthonormalize (qr_oracle ex_otbl) true ex_o, mpo_orthonormalize (qr_oracle ex_otbl) false ex_o with
  | Some (_, n1), Some (_, n2) => feqb QcF n1 (qq 5 1) && feqb QcF n2 (qq 5 1) | _, _ => false end = true.
Proof.
  split; [vm_compute; reflexivity|]. split; [apply qr_call_okb_sound; vm_compute; reflexivity|].
  split; [apply qr_call_okb_sound; vm_compute; reflexivity|]. split; vm_compute; reflexivity.
Qed.
