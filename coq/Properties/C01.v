(* C01 — Orthonormalization never changes the represented state or operator.
   Only statements, closed by [exact]/[apply]; proofs live in Proofs/Orth*.v.
   Model: Model/Orthonormalize.v [mps_orthonormalize], [mpo_orthonormalize] (mirror of pytenet/mps.py MPS.orthonormalize,
   local_orthonormalize_left_qr / right_qr and of pytenet/mpo.py MPO.orthonormalize) on top of Model/BondOps.v [block_qr];
   numpy.linalg.qr is the oracle argument [dqr].

   Vocabulary (Proofs/OrthDefs.v, Proofs/OrthSweep.v, Proofs/OrthTop.v):
     amp As w            amplitude <w|psi> = (A_1[w_1] ... A_L[w_L])_00            (Model/Tensor.v)
     norm2 d As          sum over all words w in {0..d-1}^L of conj(amp As w) * amp As w   (= <psi|psi>, cf. C04_vdot_spec)
     liso Dl Dr A        sum_s A[s]^H A[s] = I_Dr, entry-wise;  chain_liso Ds As: every site, with bond dimensions Ds
     bond_bound pd D' D  D'_0 = first bonds unchanged in number, D'_{i+1} <= pd * D'_i and D'_{i+1} <= D_{i+1} for every i
     qr_call_ok F dqr B  LAPACK's contract on the call B: [dqr_ok] (shapes, Q R = B, Q^H Q = I) and diagonal of R real
     mps_orth_calls      the list of arguments of all numpy.linalg.qr calls issued by the sweep (depends on the answers) *)
From Coq Require Import ZArith QArith Qcanon List Bool Lia.
From PT Require Import Base.Scalar Base.Field Base.BigSum Base.Mx Model.Tensor Model.BondOps Model.Orthonormalize.
From PT Require Import Proofs.BondOpsSpec Proofs.OrthDefs Proofs.OrthQRExtra Proofs.OrthSweep Proofs.OrthTop.
Import ListNotations.
Open Scope nat_scope.

(* ---- MPS, mode = 'left' -----------------------------------------------------------------------------------------
   For every ordered field F (entries in its complexification), every L >= 1, d >= 1, every bond profile with
   D_0 = D_L = 1 and all D_i >= 1, all integer charges, every MPS that is well-formed and block sparse ([mps_ok]: the
   invariant of C02), and every oracle [dqr] whose answers satisfy LAPACK's contract on the calls the sweep actually issues:
   the model does not fail, and with (psi', nrm) its result
     - psi' has the same qd and length, is well-formed and block sparse under its new bond charges, first bond charges kept,
       last bond of dimension 1, all bonds >= 1, and  D'_{i+1} <= min(d * D'_i, D_{i+1});
     - every site tensor of psi' is a left isometry;
     - nrm >= 0;   amp psi w = nrm * amp psi' w  for every word w;   nrm^2 = <psi|psi>;   <psi'|psi'> = 1
       (for every input, also the zero state: the dummy-bond branch keeps isometries). *)
Theorem C01_orth_left_spec : forall (F : ofield) (dqr : mx (Cx F) -> mx (Cx F) * mx (Cx F)) (p : mps (Cx F)) (d : nat),
  1 <= d -> length (m_qd p) = d -> m_A p <> [] -> mps_ok p = true ->
  length (hd [] (m_qD p)) = 1 -> length (last (m_qD p) []) = 1 ->
  Forall (fun q => 1 <= length q) (m_qD p) ->
  Forall (qr_call_ok F dqr) (mps_orth_calls dqr true p) ->
  exists p' nrm, mps_orthonormalize dqr true p = Some (p', nrm) /\
    m_qd p' = m_qd p /\ length (m_A p') = length (m_A p) /\
    mps_ok p' = true /\
    hd [] (m_qD p') = hd [] (m_qD p) /\ length (last (m_qD p') []) = 1 /\
    Forall (fun q => 1 <= length q) (m_qD p') /\
    bond_bound d (lens (m_qD p')) (lens (m_qD p)) /\
    chain_liso (lens (m_qD p')) (m_A p') /\
    fle F (f0 F) nrm /\
    (forall w, length w = length (m_A p) -> letters d w ->
       amp (m_A p) w = kmul (Cx F) (cof nrm) (amp (m_A p') w)) /\
    norm2 d (m_A p) = cof (fmul F nrm nrm) /\
    norm2 d (m_A p') = k1 (Cx F).
Proof. intros F dqr p d. exact (orth_left_spec F dqr p d). Qed.
Print Assumptions C01_orth_left_spec.

(* len(A) == 0 returns 1 and leaves the object unchanged *)
Theorem C01_orth_empty : forall (F : ofield) dqr left (p : mps (Cx F)),
  m_A p = [] -> mps_orthonormalize dqr left p = Some (p, f1 F).
Proof. intros F dqr left p E. unfold mps_orthonormalize. rewrite E. reflexivity. Qed.
Print Assumptions C01_orth_empty.

(* Non-vacuity: L = 2, d = 2, bond dimensions [1,2,1], charges zero, rational entries;
   A_0 reshaped = [[3,2],[4,11]] = [[3/5,-4/5],[4/5,3/5]] . [[5,10],[0,5]];   A_1[0] = (1,0)^T, A_1[1] = (-2,2)^T,
   R . A_1 stacked = (5,0,10,10)^T = (1/3,0,2/3,2/3)^T . 15.  The oracle table meets the contract on both issued calls and the
   model returns nrm = 15. *)
Definition qq (n : Z) (d : positive) : Qc := Q2Qc (Qmake n d).
Definition cq (n : Z) (d : positive) : Cx QcF := (qq n d, qq 0 1).
Definition mc := @mkmx (Cx QcF).
Definition ex_p : mps (Cx QcF) :=
  mkmps [0; 0]%Z [[0]; [0; 0]; [0]]%Z
    [ [mc 1 2 [[cq 3 1; cq 2 1]]; mc 1 2 [[cq 4 1; cq 11 1]]];
      [mc 2 1 [[cq 1 1]; [cq 0 1]]; mc 2 1 [[cq (-2) 1]; [cq 2 1]]] ].
Definition ex_tbl : list (mx (Cx QcF) * (mx (Cx QcF) * mx (Cx QcF))) :=
  [ (mc 2 2 [[cq 3 1; cq 2 1]; [cq 4 1; cq 11 1]],
     (mc 2 2 [[cq 3 5; cq (-4) 5]; [cq 4 5; cq 3 5]], mc 2 2 [[cq 5 1; cq 10 1]; [cq 0 1; cq 5 1]]));
    (mc 4 1 [[cq 5 1]; [cq 0 1]; [cq 10 1]; [cq 10 1]],
     (mc 4 1 [[cq 1 3]; [cq 0 1]; [cq 2 3]; [cq 2 3]], mc 1 1 [[cq 15 1]])) ].
Definition ex_dqr := qr_oracle ex_tbl.
Lemma ex_rdiag : forall B, In B (map fst ex_tbl) -> rdiag_real QcF (ex_dqr B).
Proof.
  intros B [<-|[<-|[]]]; intros i Hi Hj; vm_compute in Hi, Hj.
  - destruct i as [|[|i]]; try lia; vm_compute; reflexivity.
  - destruct i as [|i]; try lia; vm_compute; reflexivity.
Qed.
Example C01_nonvacuous :
  1 <= 2 /\ length (m_qd ex_p) = 2 /\ m_A ex_p <> [] /\ mps_ok ex_p = true /\
  length (hd [] (m_qD ex_p)) = 1 /\ length (last (m_qD ex_p) []) = 1 /\
  Forall (fun q => 1 <= length q) (m_qD ex_p) /\
  Forall (qr_call_ok QcF ex_dqr) (mps_orth_calls ex_dqr true ex_p) /\
  length (mps_orth_calls ex_dqr true ex_p) = 2 /\
  match mps_orthonormalize ex_dqr true ex_p with
  | Some (p', nrm) => feqb QcF nrm (qq 15 1) && list_eqb Nat.eqb (lens (m_qD p')) [1; 2; 1]
  | None => false end = true.
Proof.
  split; [lia|]. split; [reflexivity|]. split; [discriminate|]. split; [vm_compute; reflexivity|].
  split; [reflexivity|]. split; [reflexivity|].
  split. { repeat constructor. }
  split.
  - replace (mps_orth_calls ex_dqr true ex_p) with (map fst ex_tbl) by (vm_compute; reflexivity).
    apply Forall_forall. intros B HB. split; [|apply ex_rdiag; exact HB].
    apply dqr_okb_sound. destruct HB as [<-|[<-|[]]]; vm_compute; reflexivity.
  - split; vm_compute; reflexivity.
Qed.
