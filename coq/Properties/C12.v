(* C12 — Block-sparse SVD split (pytenet/bond_ops.py: retained_bond_indices, split_matrix_svd) truncates exactly the
   smallest weights within tolerance.  Only statements, closed by [exact]/[apply]; proofs live in Proofs/BondOps*.v.
   Model: Model/BondOps.v [retained], [block_svd]; numpy.linalg.svd is the oracle argument [dsvd], the unstable
   numpy.argsort inside retained_bond_indices the oracle argument [pick]. *)
From Coq Require Import ZArith QArith Qcanon List Bool Lia Permutation Sorted.
From PT Require Import Base.Scalar Base.Field Base.BigSum Base.Mx Model.BondOps.
From PT Require Import Proofs.BondOpsPerm Proofs.BondOpsLoop Proofs.BondOpsSpec Proofs.BondOpsRetained Proofs.BondOpsSVD.
Import ListNotations.
Open Scope nat_scope.

(* ---- the truncation rule ------------------------------------------------------------------------------------
   For every ordered field F, every n, every s >= 0 not identically zero, every tolerance 0 <= tol < 1 and every [pick]
   whose answer on the normalised squares is a permutation of the indices sorting them ascending ([pick_ok]):
   the kept indices K = retained pick s tol are increasing and in range, non-empty;
   the discarded relative weight sum_{i not in K} s_i^2 / sum s^2 is <= tol; every kept value is >= every discarded
   value; discarding any kept value as well would exceed tol (maximality; in particular the smallest kept one);
   tol = 0 keeps exactly the non-zero values. *)
Theorem C12_retained_spec : forall (F : ofield) (pick : list F -> list nat) (s : list F) (tol : F),
  (forall x, In x s -> fle F (f0 F) x) -> (exists x, In x s /\ x <> f0 F) ->
  fle F (f0 F) tol -> flt F tol (f1 F) ->
  pick_ok F (normsq s) (pick (normsq s)) ->
  let K := retained pick s tol in
  StronglySorted lt K /\ (forall i, In i K -> i < length s) /\ K <> [] /\
  fle F (disc_weight s K) tol /\
  (forall i j, In i K -> j < length s -> ~ In j K -> fle F (nth j s (f0 F)) (nth i s (f0 F))) /\
  (forall m, In m K -> flt F tol (fadd F (disc_weight s K) (weight s m))) /\
  (tol = f0 F -> forall i, i < length s -> (In i K <-> nth i s (f0 F) <> f0 F)).
Proof. exact retained_spec. Qed.
Print Assumptions C12_retained_spec.

(* an all-zero vector returns no index *)
Theorem C12_retained_zero : forall (F : ofield) pick (s : list F) tol,
  (forall x, In x s -> x = f0 F) -> retained pick s tol = [].
Proof. exact retained_zero. Qed.
Print Assumptions C12_retained_zero.

(* ---- the split ----------------------------------------------------------------------------------------------
   For every ordered field F (matrices over its complexification), all shapes and charge vectors, every non-zero matrix A
   block sparse under (q0, q1), every 0 <= tol < 1, every oracle [dsvd] meeting LAPACK's contract [dsvd_ok] (shapes,
   U diag(s) V = B, U^H U = I, V V^H = I, s >= 0) on the issued calls and every [pick] meeting [pick_ok] on the issued
   call: with S the list of all block singular values ([block_svd_spectrum]) and K = retained pick S tol,
   the model does not fail and returns (u, s, v, q) with  s = S[K]  (so C12_retained_spec describes exactly which
   values are kept), u^H u = I, v v^H = I, every kept value > 0, u block sparse under (q0, q), v under (q, q1),
   length q = length s = nc u = nr v <= min m n, q non-empty, tol = 0 gives (u * s) v = A, and for every tol
   || A - (u * s) v ||_F^2 = sum of the discarded squared singular values  (S_i^2 over i not in K). *)
Theorem C12_block_svd_spec : forall (F : ofield) (dsvd : mx (Cx F) -> mx (Cx F) * list F * mx (Cx F))
    (pick : list F -> list nat) (A : mx (Cx F)) (q0 q1 : list Z) (tol : F),
  valid_in A q0 q1 = true -> is_zeromx A = false ->
  fle F (f0 F) tol -> flt F tol (f1 F) ->
  Forall (fun B => dsvd_ok F B (dsvd B)) (block_svd_calls A q0 q1) ->
  let S := block_svd_spectrum F dsvd A q0 q1 in
  pick_ok F (normsq S) (pick (normsq S)) ->
  (forall x, In x S -> fle F (f0 F) x) /\ (exists x, In x S /\ x <> f0 F) /\
  exists u s v q, block_svd dsvd pick A q0 q1 tol = Some (u, s, v, q) /\
    s = map (fun i => nth i S (f0 F)) (retained pick S tol) /\ q <> [] /\
    wf u /\ wf v /\ nr u = nr A /\ nc u = length s /\ nr v = length s /\ nc v = nc A /\ length q = length s /\
    length s <= Nat.min (nr A) (nc A) /\
    mulmx (adjmx u) u = idmx (length s) /\ mulmx v (adjmx v) = idmx (length s) /\
    (forall x, In x s -> flt F (f0 F) x) /\
    qsp (Cx F) u q0 q /\ qsp (Cx F) v q q1 /\
    (tol = f0 F -> mulmx (scalecols F u s) v = A) /\
    frob (submx A (mulmx (scalecols F u s) v)) (submx A (mulmx (scalecols F u s) v))
      = cof (fsum (map (sqv F S) (discarded S (retained pick S tol)))).
Proof.
  intros F dsvd pick A q0 q1 tol Hv Hnz Ht0 Ht1 Hc S Hp.
  destruct (block_svd_spec_gen F dsvd pick A q0 q1 tol Hv Hnz Ht0 Ht1 Hc Hp) as (H1 & H2 & [[[u s] v] q] & E & H).
  split; [exact H1|]. split; [exact H2|]. exists u, s, v, q. split; [exact E|exact H].
Qed.
Print Assumptions C12_block_svd_spec.
(* Zero matrix (only required: a product equal to zero, without raising): for every zero matrix with valid charge vectors,
   every tol and every oracle meeting the contract on the issued calls, the model returns factors whose product is A (= 0).
   (All block singular values are then zero, so retained returns no index and the intermediate dimension is 0; in the
   disjoint case the dummy bond of dimension 1 is returned.) *)
Theorem C12_block_svd_zero : forall (F : ofield) (dsvd : mx (Cx F) -> mx (Cx F) * list F * mx (Cx F))
    (pick : list F -> list nat) (A : mx (Cx F)) (q0 q1 : list Z) (tol : F),
  valid_in A q0 q1 = true -> is_zeromx A = true ->
  Forall (fun B => dsvd_ok F B (dsvd B)) (block_svd_calls A q0 q1) ->
  exists u s v q, block_svd dsvd pick A q0 q1 tol = Some (u, s, v, q) /\
    wf u /\ wf v /\ nr u = nr A /\ nc u = length s /\ nr v = length s /\ nc v = nc A /\
    mulmx (scalecols F u s) v = A.
Proof. exact block_svd_zero. Qed.
Print Assumptions C12_block_svd_zero.
(* Not modelled in Coq: pytenet.mps.split_mps_tensor (reshape/transposes around split_matrix_svd and the distribution of
   the singular values, which needs a square root for 'sqrt') and the non-mutation of the input array; both are checked
   numerically / byte-wise on every generated input by harness/props/c12.py (prop). *)

(* The booleans evaluated on every generated input by the correspondence check mean what they say. *)
Theorem C12_checker_sound : forall (F : ofield) tbl sort_idx (A : mx (Cx F)) q0 q1 (tol : F),
  (forall u s v q, check_svd tbl sort_idx A q0 q1 tol (Some (u, s, v, q)) = true ->
     block_svd (svd_oracle tbl) (fun _ => sort_idx) A q0 q1 tol = Some (u, s, v, q)) /\
  (forall (s : list F) K, check_retained sort_idx s tol K = true -> retained (fun _ => sort_idx) s tol = K).
Proof. intros F tbl sort_idx A q0 q1 tol. split; [intros u s v q; apply check_svd_sound|intros s K; apply check_retained_sound]. Qed.
Print Assumptions C12_checker_sound.

(* Non-vacuity: 3 x 3 rational input, unsorted q0 = [1;0;1], q1 = [0;1;1]; blocks [[2]] and
   [[3,-4/5],[4,3/5]] = [[3/5,-4/5],[4/5,3/5]] diag(5,1) I; spectrum S = [2;5;1], tol = 1/10, argsort answer [2;0;1];
   the singular value 1 (weight 1/30) is discarded, 2 and 5 are kept. *)
Definition qq (n : Z) (d : positive) : Qc := Q2Qc (Qmake n d).
Definition cq (n : Z) (d : positive) : Cx QcF := (qq n d, qq 0 1).
Definition mc := @mkmx (Cx QcF).
Definition exA : mx (Cx QcF) := mc 3 3 [[cq 0 1; cq 3 1; cq (-4) 5]; [cq 2 1; cq 0 1; cq 0 1]; [cq 0 1; cq 4 1; cq 3 5]].
Definition exq0 : list Z := [1; 0; 1]%Z.
Definition exq1 : list Z := [0; 1; 1]%Z.
Definition extbl : list (mx (Cx QcF) * (mx (Cx QcF) * list QcF * mx (Cx QcF))) :=
  [ (mc 1 1 [[cq 2 1]], (mc 1 1 [[cq 1 1]], [qq 2 1], mc 1 1 [[cq 1 1]]));
    (mc 2 2 [[cq 3 1; cq (-4) 5]; [cq 4 1; cq 3 5]],
     (mc 2 2 [[cq 3 5; cq (-4) 5]; [cq 4 5; cq 3 5]], [qq 5 1; qq 1 1], mc 2 2 [[cq 1 1; cq 0 1]; [cq 0 1; cq 1 1]])) ].
Definition expick : list QcF -> list nat := fun _ => [2; 0; 1].
Definition extol : QcF := qq 1 10.
Example C12_nonvacuous :
  valid_in exA exq0 exq1 = true /\ is_zeromx exA = false /\ fle QcF (f0 QcF) extol /\ flt QcF extol (f1 QcF) /\
  Forall (fun B => dsvd_ok QcF B (svd_oracle extbl B)) (block_svd_calls exA exq0 exq1) /\
  (let S := block_svd_spectrum QcF (svd_oracle extbl) exA exq0 exq1 in pick_ok QcF (normsq S) (expick (normsq S))) /\
  retained expick (block_svd_spectrum QcF (svd_oracle extbl) exA exq0 exq1) extol = [0; 1] /\
  match block_svd (svd_oracle extbl) expick exA exq0 exq1 extol with
  | Some (_, s, _, q) => zlist_eqb q [0; 1]%Z && Nat.eqb (length s) 2 | None => false end = true.
Proof.
  split; [vm_compute; reflexivity|]. split; [vm_compute; reflexivity|].
  split; [vm_compute; reflexivity|]. split; [vm_compute; reflexivity|].
  split; [apply dsvd_ok_forallb; vm_compute; reflexivity|].
  split.
  - cbv zeta. unfold expick. split.
    + replace (length (normsq (block_svd_spectrum QcF (svd_oracle extbl) exA exq0 exq1))) with 3 by (vm_compute; reflexivity).
      apply Permutation_sym. apply (Permutation_cons_app [2] [1] 0). apply perm_swap.
    + intros a b Hab Hb.
      replace (length (normsq (block_svd_spectrum QcF (svd_oracle extbl) exA exq0 exq1))) with 3 in Hb by (vm_compute; reflexivity).
      destruct a as [|[|[|a]]]; destruct b as [|[|[|b]]]; try lia; vm_compute; reflexivity.
  - split; vm_compute; reflexivity.
Qed.
