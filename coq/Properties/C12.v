(* C12 — Block-sparse SVD split (pytenet/bond_ops.py: retained_bond_indices, split_matrix_svd) truncates exactly the
   smallest weights within tolerance.  Only statements, closed by [exact]/[apply]; proofs live in Proofs/BondOps*.v.
   Model: Model/BondOps.v [retained], [block_svd]; numpy.linalg.svd is the oracle argument [dsvd], the unstable
   numpy.argsort inside retained_bond_indices the oracle argument [pick]. *)
From Coq Require Import ZArith QArith Qcanon List Bool Lia Permutation Sorted.
From PT Require Import Base.Scalar Base.Field Base.BigSum Base.Mx Model.BondOps.
From PT Require Import Proofs.BondOpsPerm Proofs.BondOpsLoop Proofs.BondOpsSpec Proofs.BondOpsRetained Proofs.BondOpsSVD.
Import ListNotations.
Open Scope nat_scope.

(* ---- the truncation rule ------------------------------------------------------------------------------------
   For every ordered field F, every n, every s >= 0 not identically zero, every tolerance 0 <= tol < 1 and every [pick]
   whose answer on the normalised squares is a permutation of the indices sorting them ascending ([pick_ok]):
   the kept indices K = retained pick s tol are increasing and in range, non-empty;
   the discarded relative weight sum_{i not in K} s_i^2 / sum s^2 is <= tol; every kept value is >= every discarded
   value; discarding any kept value as well would exceed tol (maximality; in particular the smallest kept one);
   tol = 0 keeps exactly the non-zero values. *)
Theorem C12_retained_spec : forall (F : ofield) (pick : list F -> list nat) (s : list F) (tol : F),
  (forall x, In x s -> fle F (f0 F) x) -> (exists x, In x s /\ x <> f0 F) ->
  fle F (f0 F) tol -> flt F tol (f1 F) ->
  pick_ok F (normsq s) (pick (normsq s)) ->
  let K := retained pick s tol in
  StronglySorted lt K /\ (forall i, In i K -> i < length s) /\ K <> [] /\
  fle F (disc_weight s K) tol /\
  (forall i j, In i K -> j < length s -> ~ In j K -> fle F (nth j s (f0 F)) (nth i s (f0 F))) /\
  (forall m, In m K -> flt F tol (fadd F (disc_weight s K) (weight s m))) /\
  (tol = f0 F -> forall i, i < length s -> (In i K <-> nth i s (f0 F) <> f0 F)).
Proof. exact retained_spec. Qed.
Print Assumptions C12_retained_spec.

(* an all-zero vector returns no index *)
Theorem C12_retained_zero : forall (F : ofield) pick (s : list F) tol,
  (forall x, In x s -> x = f0 F) -> retained pick s tol = [].
Proof. exact retained_zero. Qed.
Print Assumptions C12_retained_zero.

(* ---- the split ----------------------------------------------------------------------------------------------
   For every ordered field F (matrices over its complexification), all shapes and charge vectors, every non-zero matrix A
   block sparse under (q0, q1), every 0 <= tol < 1, every oracle [dsvd] meeting LAPACK's contract [dsvd_ok] (shapes,
   U diag(s) V = B, U^H U = I, V V^H = I, s >= 0) on the issued calls and every [pick] meeting [pick_ok] on the issued
   call: with S the list of all block singular values ([block_svd_spectrum]) and K = retained pick S tol,
   the model does not fail and returns (u, s, v, q) with  s = S[K]  (so C12_retained_spec describes exactly which
   values are kept), u^H u = I, v v^H = I, every kept value > 0, u block sparse under (q0, q), v under (q, q1),
   length q = length s = nc u = nr v <= min m n, q non-empty, tol = 0 gives (u * s) v = A, and for every tol
   || A - (u * s) v ||_F^2 = sum of the discarded squared singular values  (S_i^2 over i not in K). *)
Theorem C12_block_svd_spec : forall (F : ofield) (dsvd : mx (Cx F) -> mx (Cx F) * list F * mx (Cx F))
    (pick : list F -> list nat) (A : mx (Cx F)) (q0 q1 : list Z) (tol : F),
  valid_in A q0 q1 = true -> is_zeromx A = false ->
  fle F (f0 F) tol -> flt F tol (f1 F) ->
  Forall (fun B => dsvd_ok F B (dsvd B)) (block_svd_calls A q0 q1) ->
  let S := block_svd_spectrum F dsvd A q0 q1 in
  pick_ok F (normsq S) (pick (normsq S)) ->
  (forall x, In x S -> fle F (f0 F) x) /\ (exists x, In x S /\ x <> f0 F) /\
  exists u s v q, block_svd dsvd pick A q0 q1 tol = Some (u, s, v, q) /\
    s = map (fun i => nth i S (f0 F)) (retained pick S tol) /\ q <> [] /\
    wf u /\ wf v /\ nr u = nr A /\ nc u = length s /\ nr v = length s /\ nc v = nc A /\ length q = length s /\
    length s <= Nat.min (nr A) (nc A) /\
    mulmx (adjmx u) u = idmx (length s) /\ mulmx v (adjmx v) = idmx (length s) /\
    (forall x, In x s -> flt F (f0 F) x) /\
    qsp (Cx F) u q0 q /\ qsp (Cx F) v q q1 /\
    (tol = f0 F -> mulmx (scalecols F u s) v = A) /\
    frob (submx A (mulmx (scalecols F u s) v)) (submx A (mulmx (scalecols F u s) v))
      = cof (fsum (map (sqv F S) (discarded S (retained pick S tol)))).
Proof.
  intros F dsvd pick A q0 q1 tol Hv Hnz Ht0 Ht1 Hc S Hp.
  destruct (block_svd_spec_gen F dsvd pick A q0 q1 tol Hv Hnz Ht0 Ht1 Hc Hp) as (H1 & H2 & [[[u s] v] q] & E & H).
  split; [exact H1|]. split; [exact H2|]. exists u, s, v, q. split; [exact E|exact H].
Qed.
Print Assumptions C12_block_svd_spec.
(* Zero matrix (only required: a product equal to zero, without raising): for every zero matrix with valid charge vectors,
   every tol and every oracle meeting the contract on the issued calls, the model returns factors whose product is A (= 0).
   (All block singular values are then zero, so retained returns no index and the intermediate dimension is 0; in the
   disjoint case the dummy bond of dimension 1 is returned.) *)
Theorem C12_block_svd_zero : forall (F : ofield) (dsvd : mx (Cx F) -> mx (Cx F) * list F * mx (Cx F))
    (pick : list F -> list nat) (A : mx (Cx F)) (q0 q1 : list Z) (tol : F),
  valid_in A q0 q1 = true -> is_zeromx A = true ->
  Forall (fun B => dsvd_ok F B (dsvd B)) (block_svd_calls A q0 q1) ->
  exists u s v q, block_svd dsvd pick A q0 q1 tol = Some (u, s, v, q) /\
    wf u /\ wf v /\ nr u = nr A /\ nc u = length s /\ nr v = length s /\ nc v = nc A /\
    mulmx (scalecols F u s) v = A.
Proof. exact block_svd_zero. Qed.
Print Assumptions C12_block_svd_zero.
(* Not modelled in Coq: pytenet.mps.split_mps_tensor (reshape/transposes around split_matrix_svd and the distribution of
   the singular values, which needs a square root for 'sqrt') and the non-mutation of the input array; both are checked
   numerically / byte-wise on every generated input by harness/props/c12.py (prop). *)

(* The booleans evaluated on every generated input by the correspondence check mean what they say. *)
Theorem C12_checker_sound : forall (F : ofield) tbl sort_idx (A : mx (Cx F)) q0 q1 (tol : F),
  (forall u s v q, check_svd tbl sort_idx A q0 q1 tol (Some (u, s, v, q)) = true ->
     block_svd (svd_oracle tbl) (fun _ => sort_idx) A q0 q1 tol = Some (u, s, v, q)) /\
  (forall (s : list F) K, check_retained sort_idx s tol K = true -> retained (fun _ => sort_idx) s tol = K).
Proof. intros F tbl sort_idx A q0 q1 tol. split; [intros u s v q; apply check_svd_sound|intros s K; apply check_retained_sound]. Qed.
Print Assumptions C12_checker_sound.

(* Non-vacuity: 3 x 3 rational input, unsorted q0 = [1;0;1], q1 = [0;1;1]; blocks [[2]] and
   [[3,-4/5],[4,3/5]] = [[3/5,-4/5],[4/5,3/5]] diag(5,1) I; spectrum S = [2;5;1], tol = 1/10, argsort answer [2;0;1];
   the singular value 1 (weight 1/30) is discarded, 2 and 5 are kept. *)
Definition qq (n : Z) (d : positive) : Qc := Q2Qc (Qmake n d).
Definition cq (n : Z) (d : positive) : Cx QcF := (qq n d, qq 0 1).
Definition mc := @mkmx (Cx QcF).
Definition exA : mx (Cx QcF) := mc 3 3 [[cq 0 1; cq 3 1; cq (-4) 5]; [cq 2 1; cq 0 1; cq 0 1]; [cq 0 1; cq 4 1; cq 3 5]].
Definition exq0 : list Z := [1; 0; 1]%Z.
Definition exq1 : list Z := [0; 1; 1]%Z.
Definition extbl : list (mx (Cx QcF) * (mx (Cx QcF) * list QcF * mx (Cx QcF))) :=
  [ (mc 1 1 [[cq 2 1]], (mc 1 1 [[cq 1 1]], [qq 2 1], mc 1 1 [[cq 1 1]]));
    (mc 2 2 [[cq 3 1; cq (-4) 5]; [cq 4 1; cq 3 5]],
     (mc 2 2 [[cq 3 5; cq (-4) 5]; [cq 4 5; cq 3 5]], [qq 5 1; qq 1 1], mc 2 2 [[cq 1 1; cq 0 1]; [cq 0 1; cq 1 1]])) ].
Definition expick : list QcF -> list nat := fun _ => [2; 0; 1].
Definition extol : QcF := qq 1 10.
Example C12_nonvacuous :
  valid_in exA exq0 exq1 = true /\ is_zeromx exA = false /\ fle QcF (f0 QcF) extol /\ flt QcF extol (f1 QcF) /\
  Forall (fun B => dsvd_ok QcF B (svd_oracle extbl B)) (block_svd_calls exA exq0 exq1) /\
  (let S := block_svd_spectrum QcF (svd_oracle extbl) exA exq0 exq1 in pick_ok QcF (normsq S) (expick (normsq S))) /\
  retained expick (block_svd_spectrum QcF (svd_oracle extbl) exA exq0 exq1) extol = [0; 1] /\
  match block_svd (svd_oracle extbl) expick exA exq0 exq1 extol with
  | Some (_, s, _, q) => zlist_eqb q [0; 1]%Z && Nat.eqb (length s) 2 | None => false end = true.
Proof.
  split; [vm_compute; reflexivity|]. split; [vm_compute; reflexivity|].
  split; [vm_compute; reflexivity|]. split; [vm_compute; reflexivity|].
  split; [apply dsvd_ok_forallb; vm_compute; reflexivity|].
  split.
  - cbv zeta. unfold expick. split.
    + replace (length (normsq (block_svd_spectrum QcF (svd_oracle extbl) exA exq0 exq1))) with 3 by (vm_compute; reflexivity).
      apply Permutation_sym. apply (Permutation_cons_app [2] [1] 0). apply perm_swap.
    + intros a b Hab Hb.
      replace (length (normsq (block_svd_spectrum QcF (svd_oracle extbl) exA exq0 exq1))) with 3 in Hb by (vm_compute; reflexivity).
      destruct a as [|[|[|a]]]; destruct b as [|[|[|b]]]; try lia; vm_compute; reflexivity.
  - split; vm_compute; reflexivity.
Qed.

(* ==== pytenet.mps.split_mps_tensor: the two-site tensor split with all three singular-value distributions ==========
   (This part supersedes the remark "Not modelled in Coq: pytenet.mps.split_mps_tensor" further up.)
   Model: Model/SplitMps.v [split_mps_tensor_full dsvd pick ksqrt A qd0 qd1 qD distr tol] = the reshape
   A.reshape(d0,d1,D0,D2).transpose(0,2,1,3).reshape(d0*D0, d1*D2) [split_matrix], the charge vectors
   q0 = flatten(qd0, qD[0]), q1 = flatten(-qd1, qD[1]), the executable split_matrix_svd model [block_svd], the distribution
   of the singular values (distr 0 = 'left', 1 = 'right', 2 = 'sqrt'; anything else the ValueError) and the reshapes back.
   A site tensor of numpy shape (d, Dl, Dr) is the list of its d matrices.  Oracles: numpy.linalg.svd [dsvd], the unstable
   numpy.argsort [pick], numpy.sqrt on the kept singular values [ksqrt].  Proofs: Proofs/SplitMps{Reshape,Agree,Spec,Zero,Bool}.v. *)
From PT Require Import Model.Tensor Model.MPSOps Model.Orthonormalize Model.SplitMps.
From PT Require Import Proofs.OrthDefs Proofs.SplitMpsAgree Proofs.SplitMpsSpec Proofs.SplitMpsZero Proofs.SplitMpsBool.
Open Scope nat_scope.

(* The composed model is the model of Model/MPSOps.v (the one C03 speaks about: [split_mps_tensor] over an abstract
   split_matrix_svd oracle and an abstract square root) with the oracle instantiated by [block_svd] (singular values embedded
   into the complex scalars, [svd_of_block]) and the square root by [csqrt ksqrt]: whenever the composed model returns a
   value it is that model's value, and conversely wherever the input is a (d0*d1, D0, D2) array, the inner split does not
   raise and the distribution string is valid, the composed model returns that value. *)
Theorem C12_split_mps_agrees : forall (F : ofield) (dsvd : mx (Cx F) -> mx (Cx F) * list F * mx (Cx F))
    (pick : list F -> list nat) (ksqrt : F -> F) (A : site (Cx F)) (qd0 qd1 qD0 qD2 : list Z) (rest : list (list Z))
    (distr : nat) (tol : F),
  (forall r, split_mps_tensor_full dsvd pick ksqrt A qd0 qd1 (qD0 :: qD2 :: rest) distr tol = Some r ->
     r = split_mps_tensor (svd_of_block dsvd pick tol) (csqrt ksqrt) A qd0 qd1 qD0 qD2 distr) /\
  (forall U sigma V qb,
     site_shape (length qd0 * length qd1) (nr (sel A 0)) (nc (sel A 0)) A = true ->
     block_svd dsvd pick (split_arg_M A qd0 qd1) (split_arg_q0 qd0 qD0) (split_arg_q1 qd1 qD2) tol = Some (U, sigma, V, qb) ->
     distr <= 2 ->
     split_mps_tensor_full dsvd pick ksqrt A qd0 qd1 (qD0 :: qD2 :: rest) distr tol
     = Some (split_mps_tensor (svd_of_block dsvd pick tol) (csqrt ksqrt) A qd0 qd1 qD0 qD2 distr)).
Proof.
  intros F dsvd pick ksqrt A qd0 qd1 qD0 qD2 rest distr tol. split.
  - intros r. apply full_agrees.
  - intros U sigma V qb. apply agrees_full.
Qed.
Print Assumptions C12_split_mps_agrees.

(* The specification.  For every ordered field F (tensors over its complexification), all d0, d1 >= 1, all bond charge vectors
   qD0, qD2 (D0 = len qD0, D2 = len qD2; D0, D2 >= 1 follows from A <> 0), every two-site tensor A of shape (d0*d1, D0, D2)
   that is block sparse under (flatten(qd0, qd1), qD0, qD2) and not identically zero, every 0 <= tol < 1, every distribution
   distr in {0 'left', 1 'right', 2 'sqrt'}, every oracle [dsvd] meeting LAPACK's contract [dsvd_ok] on the calls issued, every
   [pick] meeting [pick_ok] on the one call issued, and - for 'sqrt' only - every [ksqrt] with ksqrt(x)^2 = x on the kept
   singular values (no sign condition is needed): with S the list of all block singular values of the matricised tensor,
   K = retained pick S tol (C12_retained_spec says exactly which indices these are), sg = S[K], k = len K,
   the model does not fail and returns (A0, A1, qbond) with
     len qbond = k, 1 <= k <= min(d0*D0, d1*D2), every kept singular value > 0,
     A0 of shape (d0, D0, k), A1 of shape (d1, k, D2),
     A0 block sparse under (qd0, qD0, qbond) and A1 under (qd1, qbond, qD2)  (the MPS site rule of Model/Tensor.v),
     ||A||^2 = sum S^2,
     sum over all entries |A - merge(A0, A1)|^2 = sum of the discarded S_i^2  <=  tol * ||A||^2,
     tol = 0  ==>  merge(A0, A1) = A  (as tensors; C03_merge_split_id without its abstract exactness hypothesis),
     'right': A0 is a left isometry,  sum_s A0[s]^H A0[s] = I_k   (entrywise [liso] and as the matrix [gram_l]),
     'left' : A1 is a right isometry, sum_s A1[s] A1[s]^H = I_k   ([riso], [gram_r]),
     'sqrt' : both Gram matrices equal diag(sg). *)
Theorem C12_split_mps_spec : forall (F : ofield) (dsvd : mx (Cx F) -> mx (Cx F) * list F * mx (Cx F))
    (pick : list F -> list nat) (ksqrt : F -> F) (A : site (Cx F)) (qd0 qd1 qD0 qD2 : list Z) (rest : list (list Z))
    (distr : nat) (tol : F),
  let d0 := length qd0 in let d1 := length qd1 in let D0 := length qD0 in let D2 := length qD2 in
  0 < d0 * d1 ->
  site_shape (d0 * d1) D0 D2 A = true -> site_qsparse (qflat qd0 qd1) qD0 qD2 A = true ->
  site_is_zero A = false ->
  fle F (f0 F) tol -> flt F tol (f1 F) -> distr <= 2 ->
  Forall (fun B => dsvd_ok F B (dsvd B)) (split_mps_calls A qd0 qd1 qD0 qD2) ->
  let S := block_svd_spectrum F dsvd (split_arg_M A qd0 qd1) (split_arg_q0 qd0 qD0) (split_arg_q1 qd1 qD2) in
  pick_ok F (normsq S) (pick (normsq S)) ->
  let K := retained pick S tol in
  let sg := map (fun i => nth i S (f0 F)) K in
  let k := length K in
  (distr = 2 -> forall x, In x sg -> fmul F (ksqrt x) (ksqrt x) = x) ->
  exists A0 A1 qb,
    split_mps_tensor_full dsvd pick ksqrt A qd0 qd1 (qD0 :: qD2 :: rest) distr tol = Some (A0, A1, qb) /\
    length qb = k /\ 1 <= k /\ k <= Nat.min (d0 * D0) (d1 * D2) /\
    (forall x, In x sg -> flt F (f0 F) x) /\
    site_shape d0 D0 k A0 = true /\ site_shape d1 k D2 A1 = true /\
    site_qsparse qd0 qD0 qb A0 = true /\ site_qsparse qd1 qb qD2 A1 = true /\
    site_nrm2 A = cof (sqsum S) /\
    site_dist2 A (merge_mps_tensor_pair A0 A1) = cof (fsum (map (sqv F S) (discarded S K))) /\
    fle F (fsum (map (sqv F S) (discarded S K))) (fmul F tol (sqsum S)) /\
    (tol = f0 F -> merge_mps_tensor_pair A0 A1 = A) /\
    (distr = 1 -> liso D0 k A0 /\ gram_l A0 = idmx k) /\
    (distr = 0 -> riso k D2 A1 /\ gram_r A1 = idmx k) /\
    (distr = 2 -> gram_l A0 = diagmx sg /\ gram_r A1 = diagmx sg).
Proof. exact split_mps_spec. Qed.
Print Assumptions C12_split_mps_spec.

(* The zero tensor: for every zero tensor of shape (d0*d1, D0, D2) (it is block sparse under any charges), every tol, every
   valid distribution, every [pick] and [ksqrt] whatsoever and every [dsvd] meeting its contract on the issued calls, the model
   returns without failure tensors of shapes (d0, D0, k), (d1, k, D2) whose merge is the input, i.e. the zero tensor. *)
Theorem C12_split_mps_zero : forall (F : ofield) (dsvd : mx (Cx F) -> mx (Cx F) * list F * mx (Cx F))
    (pick : list F -> list nat) (ksqrt : F -> F) (A : site (Cx F)) (qd0 qd1 qD0 qD2 : list Z) (rest : list (list Z))
    (distr : nat) (tol : F),
  let d0 := length qd0 in let d1 := length qd1 in let D0 := length qD0 in let D2 := length qD2 in
  0 < d0 * d1 ->
  site_shape (d0 * d1) D0 D2 A = true -> site_is_zero A = true -> distr <= 2 ->
  Forall (fun B => dsvd_ok F B (dsvd B)) (split_mps_calls A qd0 qd1 qD0 qD2) ->
  exists A0 A1 qb k,
    split_mps_tensor_full dsvd pick ksqrt A qd0 qd1 (qD0 :: qD2 :: rest) distr tol = Some (A0, A1, qb) /\
    site_shape d0 D0 k A0 = true /\ site_shape d1 k D2 A1 = true /\ (0 < D0 -> length qb = k) /\
    merge_mps_tensor_pair A0 A1 = A /\ site_is_zero (merge_mps_tensor_pair A0 A1) = true.
Proof. exact split_mps_zero. Qed.
Print Assumptions C12_split_mps_zero.

(* The hypotheses of C12_split_mps_spec in boolean form (evaluated in the Example below) mean what they say. *)
Theorem C12_split_hyp_sound : forall (F : ofield) (dsvd : mx (Cx F) -> mx (Cx F) * list F * mx (Cx F))
    (pick : list F -> list nat) (ksqrt : F -> F) (A : site (Cx F)) (qd0 qd1 qD0 qD2 : list Z) (distr : nat) (tol : F),
  split_hyp_okb dsvd pick ksqrt A qd0 qd1 qD0 qD2 distr tol = true ->
  let d0 := length qd0 in let d1 := length qd1 in let D0 := length qD0 in let D2 := length qD2 in
  let S := block_svd_spectrum F dsvd (split_arg_M A qd0 qd1) (split_arg_q0 qd0 qD0) (split_arg_q1 qd1 qD2) in
  let sg := map (fun i => nth i S (f0 F)) (retained pick S tol) in
  0 < d0 * d1 /\ site_shape (d0 * d1) D0 D2 A = true /\ site_qsparse (qflat qd0 qd1) qD0 qD2 A = true /\
  site_is_zero A = false /\ fle F (f0 F) tol /\ flt F tol (f1 F) /\ distr <= 2 /\
  Forall (fun B => dsvd_ok F B (dsvd B)) (split_mps_calls A qd0 qd1 qD0 qD2) /\
  pick_ok F (normsq S) (pick (normsq S)) /\
  (distr = 2 -> forall x, In x sg -> fmul F (ksqrt x) (ksqrt x) = x).
Proof. exact split_hyp_okb_sound. Qed.
Print Assumptions C12_split_hyp_sound.

(* Non-vacuity, one rational instance for each distribution: d0 = d1 = 2, D0 = D2 = 2, qd0 = qd1 = [0;1], qD0 = [0;1],
   qD2 = [1;2]; q0 = [0;1;1;2], q1 = [1;2;0;1] (unsorted: the column permutation is exercised); the matricised tensor has
   the blocks [[4]] (charge 0), [[27/5,-4/5],[36/5,3/5]] = [[3/5,-4/5],[4/5,3/5]] diag(9,1) I (charge 1), [[1/4]] (charge 2);
   S = [4;9;1;1/4], tol = 1/100: the value 1/4 (weight 1/1569) is discarded, the next weight 17/1569 exceeds tol;
   kept 4, 9, 1 with rational square roots 2, 3, 1; qbond = [0;1;1]. *)
Definition smA : site (Cx QcF) :=
  [ mc 2 2 [[cq 0 1; cq 0 1]; [cq 27 5; cq 0 1]]; mc 2 2 [[cq 4 1; cq 0 1]; [cq 0 1; cq (-4) 5]];
    mc 2 2 [[cq 36 5; cq 0 1]; [cq 0 1; cq 1 4]]; mc 2 2 [[cq 0 1; cq 3 5]; [cq 0 1; cq 0 1]] ].
Definition smqd : list Z := [0; 1]%Z.
Definition smqD0 : list Z := [0; 1]%Z.
Definition smqD2 : list Z := [1; 2]%Z.
Definition smtbl : list (mx (Cx QcF) * (mx (Cx QcF) * list QcF * mx (Cx QcF))) :=
  [ (mc 1 1 [[cq 4 1]], (mc 1 1 [[cq 1 1]], [qq 4 1], mc 1 1 [[cq 1 1]]));
    (mc 2 2 [[cq 27 5; cq (-4) 5]; [cq 36 5; cq 3 5]],
     (mc 2 2 [[cq 3 5; cq (-4) 5]; [cq 4 5; cq 3 5]], [qq 9 1; qq 1 1], mc 2 2 [[cq 1 1; cq 0 1]; [cq 0 1; cq 1 1]]));
    (mc 1 1 [[cq 1 4]], (mc 1 1 [[cq 1 1]], [qq 1 4], mc 1 1 [[cq 1 1]])) ].
Definition smpick : list QcF -> list nat := fun _ => [3; 2; 0; 1].
Definition smsqrt : QcF -> QcF := fun x =>
  if feqb QcF x (qq 4 1) then qq 2 1 else if feqb QcF x (qq 9 1) then qq 3 1 else if feqb QcF x (qq 1 1) then qq 1 1 else qq 0 1.
Definition smtol : QcF := qq 1 100.
Example C12_split_mps_nonvacuous :
  forallb (fun distr => split_hyp_okb (svd_oracle smtbl) smpick smsqrt smA smqd smqd smqD0 smqD2 distr smtol) [0; 1; 2] = true /\
  retained smpick (block_svd_spectrum QcF (svd_oracle smtbl) (split_arg_M smA smqd smqd) (split_arg_q0 smqd smqD0) (split_arg_q1 smqd smqD2)) smtol
    = [0; 1; 2] /\
  forallb (fun distr =>
    match split_mps_tensor_full (svd_oracle smtbl) smpick smsqrt smA smqd smqd [smqD0; smqD2] distr smtol with
    | Some (A0, A1, qb) => zlist_eqb qb [0; 1; 1]%Z && site_shape 2 2 3 A0 && site_shape 2 3 2 A1
                           && negb (site_eqb (merge_mps_tensor_pair A0 A1) smA)
    | None => false end) [0; 1; 2] = true.
Proof. split; [vm_compute; reflexivity|]. split; vm_compute; reflexivity. Qed.
