(* C05 — Operator chains compile to an equivalent operator graph and MPO.
   Only statements, closed by [exact]; proofs live in Proofs/ (FromOpchains*.v, GraphMPOSem.v, DenRev_C05.v,
   PampDen_C05.v, C05Final.v).  Models: Model/FromOpchains.v (OpGraph.from_opchains, OpChain.padded,
   _site_partition_halfchains, the cover an argument) and Model/GraphMPO.v (MPO.from_opgraph).

   FULL STATEMENT AIMED AT (DESIGN C05, "from_opchains_den"):
     forall cover chains L idn, wf_chains L chains = true -> (1 <= L) ->
       covers_ok cover chains L idn = true ->               (* the cover answers actually issued are valid covers *)
       exists g, from_opchains cover chains L idn = Ok g /\ is_consistent g /\ glength g = Some L /\
                 forall w, den g w = chains_den L idn chains w.
   PROVED BELOW for all inputs:
     - C05_from_opchains_ok_partial: under wf_chains and covers_ok the model returns a graph g (no assertion fires), g passes the
       linkage check [linked] (unique ids, duplicate-free edge-id lists, node <-> edge cross references in both directions,
       terminals present: everything is_consistent checks except levels / empty terminal lists / sorted opics), and
       den g = sum of the padded chains;  C05_from_opchains_ok_model: the same with the PROVED model of minimum_vertex_cover
       (C18_mvc_total) and no cover hypothesis at all;
     - C05_chains_den_full / C05_chains_den_rev: the meaning clause for EVERY run returning a graph, for every cover oracle;
     - everything about from_opgraph.
   [cover_okb] asks for a valid duplicate-free cover and, when the bipartite graph has one V vertex (the last site), size <= 1
   (any minimum cover): with a valid but non-minimum cover at the last site the code's [assert len(vlist_next) == 1] fires.
     - C05_consistent_cannot_fail: for every graph the model returns (any cover oracle) pytenet's own is_consistent never
       answers False, at any fuel (the code's final [assert graph.is_consistent()] cannot fail): cross references, sorted
       opics, clean terminals and an explicit level function (every edge goes up exactly one level), Proofs/FromOpchainsCons.v;
     - C05_glength: every returned graph (any cover oracle) has glength g = Some L: following first out-edges from the start
       node reaches the end node after exactly L steps, within the model's fuel (Proofs/FromOpchainsLen.v: partition converse,
       consumed edge => out-edge at u_nidl, every new node owns a next entry, node count);
     - C05_from_opchains_total: the headline -- wf chains, model cover, no cover hypothesis: Ok g, linked, consistency check
       cannot fail, glength g = Some L, den g = chain sum  (C05_from_opchains_total_partial: the same without the length).
     - C05_edge_charges (clause (c), bond quantum numbers): every edge of every returned graph (any cover oracle) carries exactly
       one operator, the operator oids[k] of some non-zero identity-padded chain at some position k < L, and its two end nodes
       carry that chain's interleaved charges qnums[k], qnums[k+1] (Proofs/FromOpchainsQ.v: every half-chain in flight after t
       sites is the t-suffix of a padded chain; per site the U-node's (qnum0, qnum1) are the charges of the edge's end nodes --
       the code's own asserts, made global).  Since every start->end path has L edges on levels 0..L-1 (level function of
       C05_consistent_cannot_fail) this fixes the charge of every node of every path edge by edge; NOT stated: that the witness
       chain is the same for all edges of one path (false in general: paths of a compressed graph mix chains that share charges). *)
From Coq Require Import ZArith List Bool Lia Sorted.
From PT Require Import Base.Scalar Base.BigSum Base.Mx Model.OpGraph Model.Tensor Model.FromOpchains Model.GraphMPO
                       Proofs.FromOpchainsPart Proofs.GraphMPOSem Proofs.DenRev_C05 Proofs.PampDen_C05
                       Proofs.FromOpchainsThm Proofs.C05Final Proofs.FromOpchainsOk3 Proofs.FromOpchainsCover
                       Proofs.FromOpchainsWF3 Proofs.FromOpchainsCons Proofs.C05Total Proofs.FromOpchainsLen Proofs.C05Len Proofs.FromOpchainsQ.
Import ListNotations.
Open Scope Z_scope.

(* (b) partial correctness for every cover oracle: if graph construction returns a graph, the operator it denotes
   (read from the end terminal) is the sum of the identity-padded chains — duplicates, accumulating and cancelling
   coefficients, a single chain with any coefficient, zero-coefficient chains, any start sites and lengths. *)
Theorem C05_chains_den_rev : forall (R : cring) cover (chains : list (chain R)) L idn g, (1 <= L)%nat ->
  from_opchains cover chains L idn = Ok g ->
  forall w, den_rev g w = chains_den L idn chains w.
Proof. exact from_opchains_den_rev. Qed.
Print Assumptions C05_chains_den_rev.

(* forward and backward path sums agree on every well-linked graph (any graph, not only generated ones) *)
Theorem C05_den_eq_den_rev : forall (R : cring) (g : graph R) w, linked g = true -> den g w = den_rev g w.
Proof. exact den_eq_den_rev. Qed.
Print Assumptions C05_den_eq_den_rev.

Theorem C05_chains_den : forall (R : cring) cover (chains : list (chain R)) L idn g, (1 <= L)%nat ->
  from_opchains cover chains L idn = Ok g -> linked g = true ->
  forall w, den g w = chains_den L idn chains w.
Proof. exact from_opchains_den. Qed.
Print Assumptions C05_chains_den.

(* first clause of the property: construction succeeds and is correct, under valid cover answers on the issued calls *)
Theorem C05_from_opchains_ok_partial : forall (R : cring) cover (chains : list (chain R)) L idn,
  wf_chains L chains = true -> covers_ok R cover chains L idn = true -> (1 <= L)%nat ->
  exists g, from_opchains cover chains L idn = Ok g /\ linked g = true /\ forall w, den g w = chains_den L idn chains w.
Proof. exact from_opchains_total. Qed.
Print Assumptions C05_from_opchains_ok_partial.

(* the same with the proved model of minimum_vertex_cover: no hypothesis on the cover *)
Theorem C05_from_opchains_ok_model : forall (R : cring) (chains : list (chain R)) L idn,
  wf_chains L chains = true -> (1 <= L)%nat ->
  exists g, from_opchains cover_model chains L idn = Ok g /\ linked g = true /\ forall w, den g w = chains_den L idn chains w.
Proof. exact from_opchains_total_model. Qed.
Print Assumptions C05_from_opchains_ok_model.

Theorem C05_cover_model_good : cover_good cover_model.
Proof. exact cover_model_good. Qed.
Print Assumptions C05_cover_model_good.

(* every returned graph is linked, and its forward meaning is the chain sum: no side condition *)
Theorem C05_chains_den_full : forall (R : cring) cover (chains : list (chain R)) L idn g, (1 <= L)%nat ->
  from_opchains cover chains L idn = Ok g -> linked g = true /\ forall w, den g w = chains_den L idn chains w.
Proof. exact from_opchains_den_full. Qed.
Print Assumptions C05_chains_den_full.

(* pytenet's own consistency check never answers False on a returned graph (any cover oracle, any fuel) *)
Theorem C05_consistent_cannot_fail : forall (R : cring) cover (chains : list (chain R)) L idn g, (1 <= L)%nat ->
  from_opchains cover chains L idn = Ok g -> forall fuel b, is_consistent_fuel fuel g = Some b -> b = true.
Proof. exact from_opchains_consistent. Qed.
Print Assumptions C05_consistent_cannot_fail.

(* headline without the length clause (kept; superseded by C05_from_opchains_total below) *)
Theorem C05_from_opchains_total_partial : forall (R : cring) (chains : list (chain R)) L idn,
  wf_chains L chains = true -> (1 <= L)%nat ->
  exists g, from_opchains cover_model chains L idn = Ok g /\ linked g = true /\
            (forall fuel b, is_consistent_fuel fuel g = Some b -> b = true) /\
            forall w, den g w = chains_den L idn chains w.
Proof. exact from_opchains_total_model_cons. Qed.
Print Assumptions C05_from_opchains_total_partial.

(* length: every returned graph has L sites along the first-out-edge path (pytenet's OpGraph.length), any cover oracle *)
Theorem C05_glength : forall (R : cring) cover (chains : list (chain R)) L idn g, (1 <= L)%nat ->
  from_opchains cover chains L idn = Ok g -> glength g = Some L.
Proof. exact from_opchains_glength. Qed.
Print Assumptions C05_glength.

(* headline, complete: no hypothesis on covers *)
Theorem C05_from_opchains_total : forall (R : cring) (chains : list (chain R)) L idn,
  wf_chains L chains = true -> (1 <= L)%nat ->
  exists g, from_opchains cover_model chains L idn = Ok g /\ linked g = true /\
            (forall fuel b, is_consistent_fuel fuel g = Some b -> b = true) /\
            glength g = Some L /\
            forall w, den g w = chains_den L idn chains w.
Proof. exact from_opchains_total_model_len. Qed.
Print Assumptions C05_from_opchains_total.

(* (c) bond quantum numbers: every edge is one operator of one non-zero padded chain at a position k < L; the charges of its
   end nodes are the chain's interleaved charges at k and k + 1 *)
Theorem C05_edge_charges : forall (R : cring) cover (chains : list (chain R)) L idn g, (1 <= L)%nat ->
  from_opchains cover chains L idn = Ok g ->
  forall e, In e (g_edges g) ->
    exists c k cf, In c chains /\ nonzero c = true /\ (k < L)%nat /\
      e_opics e = [(nth k (padded_oids L idn c) 0, cf)] /\
      (exists n, In n (g_nodes g) /\ n_id n = e_from e /\ n_q n = nth k (padded_qnums L c) 0) /\
      (exists n, In n (g_nodes g) /\ n_id n = e_to e /\ n_q n = nth (S k) (padded_qnums L c) 0).
Proof. exact from_opchains_charges. Qed.
Print Assumptions C05_edge_charges.

(* the regrouping lemma of the site partition (first-occurrence indexing, gamma accumulation) *)
Theorem C05_site_partition_regroup : forall (R : cring) (hcs : list (hchain * R)) (F : unode -> hchain -> R),
  suml hcs (fun hc => kmul R (snd hc) (F (split_u (fst hc)) (split_v (fst hc)))) = W R (site_partition hcs) F.
Proof. intros R hcs F. exact (proj1 (proj2 (site_partition_regroup R hcs)) F). Qed.
Print Assumptions C05_site_partition_regroup.

(* (a) from_opgraph: layers, bond quantum numbers = node charges in increasing id order, tensors, node map,
   block sparsity of the result *)
Theorem C05_from_opgraph_struct : forall (R : cring) qd (g : graph R) opmap o m,
  from_opgraph qd g opmap = Ok (o, m) ->
  exists ls,
    graph_layers g = Ok ([g_t0 g] :: ls) /\ closed R g ([g_t0 g] :: ls) /\ Forall (Sorted Z.le) ls /\
    o_qd o = qd /\ o_qD o = map (map (charge R g)) ([g_t0 g] :: ls) /\
    o_A o = tensors (length qd) g opmap [g_t0 g] ls /\
    m = nid_map_from 0 ([g_t0 g] :: ls) /\
    ochain_qsparse qd (o_qD o) (o_A o) = true.
Proof. exact from_opgraph_struct. Qed.
Print Assumptions C05_from_opgraph_struct.

Theorem C05_nid_map : forall ls k nid l i,
  In (nid, (l, i)) (nid_map_from k ls) <->
  exists l', l = (k + l')%nat /\ exists nids, nth_error ls l' = Some nids /\ nth_error nids i = Some nid.
Proof. exact nid_map_In. Qed.
Print Assumptions C05_nid_map.

(* the MPO denotes the operator of the graph: matrix element = sum over words of den * product of local entries *)
Theorem C05_from_opgraph_opamp : forall (R : cring) qd (g : graph R) opmap o m ls,
  from_opgraph qd g opmap = Ok (o, m) ->
  graph_layers g = Ok ls -> last ls [] = [g_t1 g] ->
  forall w w', length w = length (o_A o) -> length w' = length (o_A o) ->
  Forall (fun s => (s < length qd)%nat) w -> Forall (fun s => (s < length qd)%nat) w' ->
  opamp (o_A o) w w' =
  suml (zwords (alphabet g) (length w)) (fun word => kmul R (den g word) (wprod opmap word w w')).
Proof. exact from_opgraph_opamp_den. Qed.
Print Assumptions C05_from_opgraph_opamp.

(* chains -> graph -> MPO *)
Theorem C05_chains_to_mpo : forall (R : cring) cover (chains : list (chain R)) L idn g qd opmap o m ls, (1 <= L)%nat ->
  from_opchains cover chains L idn = Ok g -> linked g = true ->
  from_opgraph qd g opmap = Ok (o, m) ->
  graph_layers g = Ok ls -> last ls [] = [g_t1 g] ->
  forall w w', length w = length (o_A o) -> length w' = length (o_A o) ->
  Forall (fun s => (s < length qd)%nat) w -> Forall (fun s => (s < length qd)%nat) w' ->
  opamp (o_A o) w w' =
  suml (zwords (alphabet g) (length w)) (fun word => kmul R (chains_den L idn chains word) (wprod opmap word w w')).
Proof. exact chains_to_mpo. Qed.
Print Assumptions C05_chains_to_mpo.

(* ---- non-vacuity: concrete inputs meet every hypothesis (vm_compute) ---- *)
Definition ex_chains : list (chain Zring) :=
  [@mkchain Zring [1;2] [0;0;0] 2 0%nat; @mkchain Zring [1;3] [0;0;0] (-1) 0%nat; @mkchain Zring [2] [0;0] 3 1%nat;
   @mkchain Zring [1;2] [0;0;0] 5 0%nat; @mkchain Zring [0;3] [0;0;0] 4 0%nat; @mkchain Zring [0;3] [0;0;0] (-4) 0%nat].
Example C05_nonvacuous_chains :
  wf_chains 2 ex_chains = true /\ covers_ok Zring cover_model ex_chains 2 0 = true /\
  calls_okb cover_model 2 (mkst init_graph 1 0 (init_next 0 (filter nonzero ex_chains)) []) = true /\
  match from_opchains cover_model ex_chains 2 0 with
  | Ok g => linked g = true /\ is_consistent_fuel 200 g = Some true /\ glength g = Some 2%nat /\
            den g [1;2] = 7 /\ den g [0;3] = 0 /\ den g [0;2] = 3 /\ den g [1;3] = -1
  | Err _ => False
  end.
Proof. vm_compute. repeat split; reflexivity. Qed.
(* a single chain with coefficient 5 (the pre-repair failing input) *)
Example C05_nonvacuous_single :
  match from_opchains cover_model [@mkchain Zring [3] [0;0] 5 1%nat] 3 0 with
  | Ok g => linked g = true /\ is_consistent_fuel 200 g = Some true /\ glength g = Some 3%nat /\ den g [0;3;0] = 5
  | Err _ => False
  end.
Proof. vm_compute. repeat split; reflexivity. Qed.
(* charged chains (S+ S-, S- S+ shifted, Sz): the node charges are the interleaved chain charges *)
Example C05_nonvacuous_charges :
  match from_opchains cover_model [@mkchain Zring [1;-1] [0;2;0] 3 0%nat; @mkchain Zring [-1;1] [0;-2;0] 3 1%nat;
                                   @mkchain Zring [2] [0;0] 5 1%nat] 3 0 with
  | Ok g => glength g = Some 3%nat /\ map (fun n => (n_id n, n_q n)) (g_nodes g) = [(0, 0); (1, 2); (2, 0); (3, -2); (4, 0); (5, 0)] /\
            map (fun e => (e_from e, e_to e, e_opics e)) (g_edges g) =
              [(0, 1, [(1, 1)]); (0, 2, [(0, 1)]); (2, 3, [(-1, 1)]); (1, 4, [(-1, 3)]); (2, 4, [(2, 5)]); (3, 5, [(1, 3)]); (4, 5, [(0, 1)])]
  | Err _ => False
  end.
Proof. vm_compute. repeat split; reflexivity. Qed.
Definition ex_opmap : Z -> mx GIring :=
  opmap_of [(0, @mkmx GIring 2 2 [[(1,0);(0,0)];[(0,0);(1,0)]]); (1, @mkmx GIring 2 2 [[(0,0);(1,0)];[(2,0);(0,1)]]);
            (2, @mkmx GIring 2 2 [[(1,0);(2,0)];[(3,0);(-1,0)]]); (3, @mkmx GIring 2 2 [[(0,0);(-1,0)];[(1,0);(1,0)]])].
Example C05_nonvacuous_mpo :
  match from_opchains cover_model [@mkchain GIring [1;2] [0;0;0] (2,0) 0%nat; @mkchain GIring [1;3] [0;0;0] (0,1) 0%nat;
                                   @mkchain GIring [2] [0;0] (3,0) 1%nat] 2 0 with
  | Ok g => linked g = true /\
      match from_opgraph [0;0] g ex_opmap, graph_layers g with
      | Ok (o, m), Ok ls => last ls [] = [g_t1 g] /\ length (o_A o) = 2%nat /\ opamp (o_A o) [0%nat;1%nat] [1%nat;0%nat] = (6, 1)
      | _, _ => False
      end
  | Err _ => False
  end.
Proof. vm_compute. repeat split; reflexivity. Qed.
