(* C15 — Krylov approximations are bounded, and exact once the Krylov space is exhausted.
   Only statements, closed by [exact]; proofs in Proofs/KrylovExpm.v, Proofs/KrylovRitz.v; model Model/Krylov.v
   (mirror of pytenet/krylov.py:104-133 on top of the Lanczos/Arnoldi mirror of C14).

   Hypotheses on the map: maps_len, self_adjoint (see C14.v) and, for Rayleigh quotients of combinations,
   [linear] (additive, homogeneous, A 0 = 0 on vectors of length n). Oracle contracts, required only on the
   calls the model issues for the given input:
     norm_ok (x, r)            numpy.linalg.norm:   0 <= r, r^2 = sum |x_i|^2
     eigh_ok k al be (w, U)    eigh_tridiagonal:    U k x k real, U^T U = I, T U = U diag(w), T = tridiag(al, be)
     eigh_sorted k (w, U)      w_0 <= w_q,  (U U^T) e_0 = e_0
     eigh_orth k (w, U)        U^T U = I, first row of U of unit length      (all that the isometry needs)
     |dexp(dt * w_l)| = 1      numpy.exp at imaginary arguments

   NOT proved (explicit gap, partial): "once numiter reaches the dimension of the Krylov space the result
   equals the exact matrix exponential applied to the vector / the lowest Ritz value equals the smallest
   reachable eigenvalue". The model contains no matrix exponential and no spectral decomposition of A; these
   clauses are only searched numerically against scipy.linalg.expm / numpy.linalg.eigvalsh (stage C), for both
   branches. What is proved towards it is the polynomial statement C15_krylov_exhausted_poly below: if A V = V T
   (the iteration stopped with zero residual; assumed there as a hypothesis, for T tridiagonal or Hessenberg) then
   p(A) v = ||v|| V p(T) e_0 for every polynomial p. Missing: (i) that A V = V T follows from the breakdown test
   (needs the idealisation "small b -> b = 0"), (ii) the limit p -> exp. *)
From Coq Require Import ZArith QArith Qcanon List Bool Arith Lia.
From PT Require Import Base.Scalar Base.Field Model.Krylov Proofs.KrylovVec Proofs.KrylovLanczos
  Proofs.KrylovMatvec Proofs.KrylovExpm Proofs.KrylovRitz Proofs.KrylovPoly Proofs.KrylovExamples Proofs.KrylovExamples15.
Import ListNotations.
Open Scope nat_scope.

(* Hermitian branch of expm_krylov: for EVERY iteration count m >= 1 (below, at or above the Krylov dimension,
   early termination included) the call returns a vector of length n with ||x||^2 = ||v||^2 *)
Theorem C15_expm_hermitian_isometry :
  forall (F : ofield) (n : nat) (dexp : Cx F -> Cx F) (Afunc : list (Cx F) -> list (Cx F))
         (dnorm : list (Cx F) -> F) (small : F -> bool) (deigh : list F -> list F -> list F * list (list F))
         (dexpm : list (list (Cx F)) -> list (list (Cx F))),
  maps_len F n Afunc -> self_adjoint F n Afunc -> small_sound F small ->
  forall (v : list (Cx F)) (dt : Cx F) (m : nat),
  length v = n -> v <> vzero n -> 1 <= m ->
  Forall (norm_ok F) (lanczos_calls F Afunc dnorm small v m) ->
  expm_h_oracles_ok F dexp Afunc dnorm small deigh v dt m ->
  exists x, expm_krylov F Afunc dnorm small deigh dexp dexpm v dt m true = Some x /\ length x = n /\ nrm2 x = nrm2 v.
Proof. exact expm_hermitian_isometry. Qed.
Print Assumptions C15_expm_hermitian_isometry.

(* eigh_krylov, every m >= 1 and numeig: [ritz_post] = at most min(numeig, m) pairs are returned, the Ritz vectors have
   length n and are orthonormal, <u_q, A u_q> = theta_q, and theta_q >= lambda for every lambda with
   lambda <x,x> <= <x, A x> for all x (in particular for the smallest eigenvalue) *)
Theorem C15_ritz_vectors :
  forall (F : ofield) (n : nat) (Afunc : list (Cx F) -> list (Cx F)),
  maps_len F n Afunc -> linear F n Afunc ->
  forall (dnorm : list (Cx F) -> F) (small : F -> bool) (deigh : list F -> list F -> list F * list (list F)),
  self_adjoint F n Afunc -> small_sound F small ->
  forall (v : list (Cx F)) (m numeig : nat),
  length v = n -> v <> vzero n -> 1 <= m ->
  Forall (norm_ok F) (lanczos_calls F Afunc dnorm small v m) ->
  eigh_oracle_ok F Afunc dnorm small deigh v m ->
  exists ws us, eigh_krylov F Afunc dnorm small deigh v m numeig = Some (ws, us) /\ ritz_post F n Afunc m numeig ws us.
Proof. exact ritz_vectors. Qed.
Print Assumptions C15_ritz_vectors.

(* the lowest Ritz value is at most the Rayleigh quotient of the start vector: theta_0 <v,v> <= <v, A v> *)
Theorem C15_ritz_upper_bound :
  forall (F : ofield) (n : nat) (Afunc : list (Cx F) -> list (Cx F)),
  maps_len F n Afunc -> linear F n Afunc ->
  forall (dnorm : list (Cx F) -> F) (small : F -> bool) (deigh : list F -> list F -> list F * list (list F)),
  self_adjoint F n Afunc -> small_sound F small ->
  forall (v : list (Cx F)) (m numeig : nat),
  length v = n -> v <> vzero n -> 1 <= m -> 1 <= numeig ->
  Forall (norm_ok F) (lanczos_calls F Afunc dnorm small v m) ->
  eigh_oracle_ok F Afunc dnorm small deigh v m -> eigh_oracle_sorted F Afunc dnorm small deigh v m ->
  exists ws us, eigh_krylov F Afunc dnorm small deigh v m numeig = Some (ws, us) /\ 1 <= length ws /\
    fle F (fmul F (nth 0 ws (f0 F)) (nrm2 v)) (cre (vdot v (Afunc v))).
Proof. exact ritz_upper_bound. Qed.
Print Assumptions C15_ritz_upper_bound.

(* exhausted Krylov space, both branches (T any k x k matrix given as a function): A linear, A V = V T column by column
   ==> p(A) (V c) = V (p(T) c) for every polynomial p (coefficient list, Horner), in particular for the start vector
   v = nrm * v_0:  p(A) v = V p(T) (nrm e_0) *)
Theorem C15_krylov_exhausted_poly :
  forall (F : ofield) (n k : nat) (Afunc : list (Cx F) -> list (Cx F)) (t : nat -> nat -> Cx F) (Vs : list (list (Cx F))),
  maps_len F n Afunc -> linear F n Afunc -> (forall v, In v Vs -> length v = n) -> length Vs = k ->
  (forall j, j < k -> Afunc (vat F Vs j) = lincomb n (tcol F k t j) Vs) ->
  (forall (p c : list (Cx F)), length c = k ->
     pevalA F n Afunc p (lincomb n c Vs) = lincomb n (pevalT F k t p c) Vs) /\
  (forall (p : list (Cx F)) (v : list (Cx F)) (nrm : F), 0 < k -> nrm <> f0 F -> vat F Vs 0 = vdivr v nrm ->
     pevalA F n Afunc p v = lincomb n (pevalT F k t p (cscale (cof nrm) (e0 F k))) Vs).
Proof.
  intros F n k Afunc t Vs H1 H2 H3 H4 H5. split.
  - exact (krylov_exhausted_poly F n k Afunc t Vs H1 H2 H3 H4 H5).
  - exact (krylov_exhausted_poly_start F n k Afunc t Vs H1 H2 H3 H4 H5).
Qed.
Print Assumptions C15_krylov_exhausted_poly.

(* Non-vacuity: for ex_A2 the two Lanczos vectors returned at breakdown satisfy A V = V T with T = [[1,2],[2,0]]
   (checked by vm_compute in Proofs/KrylovExamples15.v); e.g. p = 1 + 2x + 3x^2 evaluated both ways *)
Example C15_poly_nonvacuous :
  (forall p : list (C QcF),
     pevalA QcF 3 (matvec ex_A2) p ex_v =
     lincomb 3 (pevalT QcF 2 ex2_t p (cscale (@cof QcF (dnorm_ex ex_v)) (e0 QcF 2))) ex2_Vs) /\
  (let p := [(qq 1 1, qq 0 1); (qq 2 1, qq 0 1); (qq 3 1, qq 0 1)] in
   vec_approx QcF (qq 0 1) (pevalA QcF 3 (matvec ex_A2) p ex_v)
     (lincomb 3 (pevalT QcF 2 ex2_t p (cscale (@cof QcF (dnorm_ex ex_v)) (e0 QcF 2))) ex2_Vs) &&
   negb (vec_approx QcF (qq 0 1) (pevalA QcF 3 (matvec ex_A2) p ex_v) ex_v) && Nat.eqb (length ex2_Vs) 2) = true.
Proof. split; [exact ex2_poly|vm_compute; reflexivity]. Qed.

(* the matrix-vector product of the correspondence check is linear *)
Theorem C15_matvec_linear :
  forall (F : ofield) (n : nat) (A : list (list (Cx F))), length A = n -> linear F n (matvec A).
Proof. exact matvec_linear. Qed.
Print Assumptions C15_matvec_linear.

(* Non-vacuity: complex Hermitian rational 3x3 matrix, start vector (1,-2i,2) in a two-dimensional invariant subspace,
   numiter = 2, rational orthogonal eigenvector matrix, a rational unimodular phase: all hypotheses hold
   (Proofs/KrylovExamples15.v, by vm_compute), and the model output is concrete *)
Example C15_isometry_nonvacuous :
  (exists x, expm_krylov QcF (matvec ex_A4) dnorm_ex ex_small deigh_ex dexp_ex (fun M => M) ex_v ex_dt 2 true = Some x /\
             length x = 3 /\ nrm2 x = nrm2 ex_v) /\
  match expm_krylov QcF (matvec ex_A4) dnorm_ex ex_small deigh_ex dexp_ex (fun M => M) ex_v ex_dt 2 true with
  | Some x => feqb QcF (nrm2 x) (qq 9 1) && negb (vec_approx QcF (qq 0 1) x ex_v)
  | None => false end = true.
Proof. split; [exact ex4_isometry|vm_compute; reflexivity]. Qed.

Example C15_ritz_nonvacuous :
  (exists ws us, eigh_krylov QcF (matvec ex_A4) dnorm_ex ex_small deigh_ex ex_v 2 2 = Some (ws, us) /\
                 ritz_post QcF 3 (matvec ex_A4) 2 2 ws us) /\
  (exists ws us, eigh_krylov QcF (matvec ex_A4) dnorm_ex ex_small deigh_ex ex_v 2 2 = Some (ws, us) /\ 1 <= length ws /\
     fle QcF (fmul QcF (nth 0 ws (f0 QcF)) (nrm2 ex_v)) (cre (vdot ex_v (matvec ex_A4 ex_v)))) /\
  match eigh_krylov QcF (matvec ex_A4) dnorm_ex ex_small deigh_ex ex_v 2 2 with
  | Some (ws, us) => fl_approx QcF (qq 0 1) ws [qq 0 1; qq 25 1] && Nat.eqb (length us) 2
  | None => false end = true.
Proof. split; [exact ex4_ritz|split; [exact ex4_upper|vm_compute; reflexivity]]. Qed.

(* ---------------------------------------------------------------------------------------------------------------
   LINK to C08 (added by the linking round; lemmas in Proofs/LinkExpmEnergy.v).  The ENERGY half of the conserving-solver
   contract: for the Hermitian branch of expm_krylov over Lanczos, every iteration count m >= 1 (early termination
   included), a linear self-adjoint map, unimodular phases and an eigh_tridiagonal answer (w, U) with U real k x k,
   U^T U = I, T U = U diag(w) and (U U^T) e_0 = e_0 ([expm_h_energy_oracles_ok]: eigh_ok /\ eigh_row0 /\ |dexp(dt w_l)| = 1
   on the call actually issued):  ||x'|| = ||v||  AND  <x'|A x'> = <v|A v>.
   (V^H A V = T exactly by C14_lanczos_tridiag; no invariance of the Krylov space is needed.) *)
From PT Require Import Proofs.LinkExpmEnergy Proofs.LinkExamples.
Theorem C15_expm_hermitian_energy :
  forall (F : ofield) (n : nat) (dexp : Cx F -> Cx F) (Afunc : list (Cx F) -> list (Cx F)),
  maps_len F n Afunc -> linear F n Afunc ->
  forall (dnorm : list (Cx F) -> F) (small : F -> bool) (deigh : list F -> list F -> list F * list (list F))
         (dexpm : list (list (Cx F)) -> list (list (Cx F))),
  self_adjoint F n Afunc -> small_sound F small ->
  forall (v : list (Cx F)) (dt : Cx F) (m : nat),
  length v = n -> v <> vzero n -> 1 <= m ->
  Forall (norm_ok F) (lanczos_calls F Afunc dnorm small v m) ->
  expm_h_energy_oracles_ok F dexp Afunc dnorm small deigh v dt m ->
  exists x, expm_krylov F Afunc dnorm small deigh dexp dexpm v dt m true = Some x /\
            length x = n /\ nrm2 x = nrm2 v /\ vdot x (Afunc x) = vdot v (Afunc v).
Proof. exact expm_hermitian_energy. Qed.
Print Assumptions C15_expm_hermitian_energy.

(* Non-vacuity: the instance of C15_isometry_nonvacuous also meets the energy contract (the eigenvector matrix is a
   rational rotation, so (U U^T) e_0 = e_0); the energy <v|A v> = 9 is non-zero and the result differs from v *)
Example C15_energy_nonvacuous :
  (exists x, expm_krylov QcF (matvec ex_A4) dnorm_ex ex_small deigh_ex dexp_ex (fun M => M) ex_v ex_dt 2 true = Some x /\
             length x = 3 /\ nrm2 x = nrm2 ex_v /\ vdot x (matvec ex_A4 x) = vdot ex_v (matvec ex_A4 ex_v)) /\
  match expm_krylov QcF (matvec ex_A4) dnorm_ex ex_small deigh_ex dexp_ex (fun M => M) ex_v ex_dt 2 true with
  | Some x => vec_approx QcF (qq 0 1) [vdot x (matvec ex_A4 x)] [vdot ex_v (matvec ex_A4 ex_v)] &&
              negb (vec_approx QcF (qq 0 1) [vdot ex_v (matvec ex_A4 ex_v)] [(qq 0 1, qq 0 1)]) &&
              negb (vec_approx QcF (qq 0 1) x ex_v)
  | None => false end = true.
Proof. split; [exact ex4_energy|vm_compute; reflexivity]. Qed.
