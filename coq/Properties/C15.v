(* C15 — Krylov approximations are bounded, and exact once the Krylov space is exhausted.
   Only statements, closed by [exact]; proofs in Proofs/KrylovExpm.v, Proofs/KrylovRitz.v; model Model/Krylov.v
   (mirror of pytenet/krylov.py:104-133 on top of the Lanczos/Arnoldi mirror of C14).

   Hypotheses on the map: maps_len, self_adjoint (see C14.v) and, for Rayleigh quotients of combinations,
   [linear] (additive, homogeneous, A 0 = 0 on vectors of length n). Oracle contracts, required only on the
   calls the model issues for the given input:
     norm_ok (x, r)            numpy.linalg.norm:   0 <= r, r^2 = sum |x_i|^2
     eigh_ok k al be (w, U)    eigh_tridiagonal:    U k x k real, U^T U = I, T U = U diag(w), T = tridiag(al, be)
     eigh_sorted k (w, U)      w_0 <= w_q,  (U U^T) e_0 = e_0
     eigh_orth k (w, U)        U^T U = I, first row of U of unit length      (all that the isometry needs)
     |dexp(dt * w_l)| = 1      numpy.exp at imaginary arguments

   NOT proved (explicit gap, partial): "once numiter reaches the dimension of the Krylov space the result
   equals the exact matrix exponential applied to the vector / the lowest Ritz value equals the smallest
   reachable eigenvalue". The model contains no matrix exponential and no spectral decomposition of A; these
   clauses are only searched numerically against scipy.linalg.expm / numpy.linalg.eigvalsh (stage C), for both
   branches. What is proved towards it is the polynomial statement C15_krylov_exhausted_poly below: if A V = V T
   (the iteration stopped with zero residual; assumed there as a hypothesis, for T tridiagonal or Hessenberg) then
   p(A) v = ||v|| V p(T) e_0 for every polynomial p. Missing: (i) that A V = V T follows from the breakdown test
   (needs the idealisation "small b -> b = 0"), (ii) the limit p -> exp.
   UPDATE: (i) is now proved for an exactly vanishing residual, and the exponential / smallest-reachable-eigenvalue clauses
   are proved relative to the defining property of exp(dt A) on eigenvectors -- see the block EXHAUSTION CLAUSES at the
   end of this file (and C14_lanczos_exact_breakdown_AV_VT, C14_arnoldi_exact_breakdown_AV_VH). *)
From Coq Require Import ZArith QArith Qcanon List Bool Arith Lia.
From PT Require Import Base.Scalar Base.Field Model.Krylov Proofs.KrylovVec Proofs.KrylovLanczos
  Proofs.KrylovMatvec Proofs.KrylovExpm Proofs.KrylovRitz Proofs.KrylovPoly Proofs.KrylovExamples Proofs.KrylovExamples15.
Import ListNotations.
Open Scope nat_scope.

(* Hermitian branch of expm_krylov: for EVERY iteration count m >= 1 (below, at or above the Krylov dimension,
   early termination included) the call returns a vector of length n with ||x||^2 = ||v||^2 *)
Theorem C15_expm_hermitian_isometry :
  forall (F : ofield) (n : nat) (dexp : Cx F -> Cx F) (Afunc : list (Cx F) -> list (Cx F))
         (dnorm : list (Cx F) -> F) (small : F -> bool) (deigh : list F -> list F -> list F * list (list F))
         (dexpm : list (list (Cx F)) -> list (list (Cx F))),
  maps_len F n Afunc -> self_adjoint F n Afunc -> small_sound F small ->
  forall (v : list (Cx F)) (dt : Cx F) (m : nat),
  length v = n -> v <> vzero n -> 1 <= m ->
  Forall (norm_ok F) (lanczos_calls F Afunc dnorm small v m) ->
  expm_h_oracles_ok F dexp Afunc dnorm small deigh v dt m ->
  exists x, expm_krylov F Afunc dnorm small deigh dexp dexpm v dt m true = Some x /\ length x = n /\ nrm2 x = nrm2 v.
Proof. exact expm_hermitian_isometry. Qed.
Print Assumptions C15_expm_hermitian_isometry.

(* eigh_krylov, every m >= 1 and numeig: [ritz_post] = at most min(numeig, m) pairs are returned, the Ritz vectors have
   length n and are orthonormal, <u_q, A u_q> = theta_q, and theta_q >= lambda for every lambda with
   lambda <x,x> <= <x, A x> for all x (in particular for the smallest eigenvalue) *)
Theorem C15_ritz_vectors :
  forall (F : ofield) (n : nat) (Afunc : list (Cx F) -> list (Cx F)),
  maps_len F n Afunc -> linear F n Afunc ->
  forall (dnorm : list (Cx F) -> F) (small : F -> bool) (deigh : list F -> list F -> list F * list (list F)),
  self_adjoint F n Afunc -> small_sound F small ->
  forall (v : list (Cx F)) (m numeig : nat),
  length v = n -> v <> vzero n -> 1 <= m ->
  Forall (norm_ok F) (lanczos_calls F Afunc dnorm small v m) ->
  eigh_oracle_ok F Afunc dnorm small deigh v m ->
  exists ws us, eigh_krylov F Afunc dnorm small deigh v m numeig = Some (ws, us) /\ ritz_post F n Afunc m numeig ws us.
Proof. exact ritz_vectors. Qed.
Print Assumptions C15_ritz_vectors.

(* the lowest Ritz value is at most the Rayleigh quotient of the start vector: theta_0 <v,v> <= <v, A v> *)
Theorem C15_ritz_upper_bound :
  forall (F : ofield) (n : nat) (Afunc : list (Cx F) -> list (Cx F)),
  maps_len F n Afunc -> linear F n Afunc ->
  forall (dnorm : list (Cx F) -> F) (small : F -> bool) (deigh : list F -> list F -> list F * list (list F)),
  self_adjoint F n Afunc -> small_sound F small ->
  forall (v : list (Cx F)) (m numeig : nat),
  length v = n -> v <> vzero n -> 1 <= m -> 1 <= numeig ->
  Forall (norm_ok F) (lanczos_calls F Afunc dnorm small v m) ->
  eigh_oracle_ok F Afunc dnorm small deigh v m -> eigh_oracle_sorted F Afunc dnorm small deigh v m ->
  exists ws us, eigh_krylov F Afunc dnorm small deigh v m numeig = Some (ws, us) /\ 1 <= length ws /\
    fle F (fmul F (nth 0 ws (f0 F)) (nrm2 v)) (cre (vdot v (Afunc v))).
Proof. exact ritz_upper_bound. Qed.
Print Assumptions C15_ritz_upper_bound.

(* exhausted Krylov space, both branches (T any k x k matrix given as a function): A linear, A V = V T column by column
   ==> p(A) (V c) = V (p(T) c) for every polynomial p (coefficient list, Horner), in particular for the start vector
   v = nrm * v_0:  p(A) v = V p(T) (nrm e_0) *)
Theorem C15_krylov_exhausted_poly :
  forall (F : ofield) (n k : nat) (Afunc : list (Cx F) -> list (Cx F)) (t : nat -> nat -> Cx F) (Vs : list (list (Cx F))),
  maps_len F n Afunc -> linear F n Afunc -> (forall v, In v Vs -> length v = n) -> length Vs = k ->
  (forall j, j < k -> Afunc (vat F Vs j) = lincomb n (tcol F k t j) Vs) ->
  (forall (p c : list (Cx F)), length c = k ->
     pevalA F n Afunc p (lincomb n c Vs) = lincomb n (pevalT F k t p c) Vs) /\
  (forall (p : list (Cx F)) (v : list (Cx F)) (nrm : F), 0 < k -> nrm <> f0 F -> vat F Vs 0 = vdivr v nrm ->
     pevalA F n Afunc p v = lincomb n (pevalT F k t p (cscale (cof nrm) (e0 F k))) Vs).
Proof.
  intros F n k Afunc t Vs H1 H2 H3 H4 H5. split.
  - exact (krylov_exhausted_poly F n k Afunc t Vs H1 H2 H3 H4 H5).
  - exact (krylov_exhausted_poly_start F n k Afunc t Vs H1 H2 H3 H4 H5).
Qed.
Print Assumptions C15_krylov_exhausted_poly.

(* Non-vacuity: for ex_A2 the two Lanczos vectors returned at breakdown satisfy A V = V T with T = [[1,2],[2,0]]
   (checked by vm_compute in Proofs/KrylovExamples15.v); e.g. p = 1 + 2x + 3x^2 evaluated both ways *)
Example C15_poly_nonvacuous :
  (forall p : list (C QcF),
     pevalA QcF 3 (matvec ex_A2) p ex_v =
     lincomb 3 (pevalT QcF 2 ex2_t p (cscale (@cof QcF (dnorm_ex ex_v)) (e0 QcF 2))) ex2_Vs) /\
  (let p := [(qq 1 1, qq 0 1); (qq 2 1, qq 0 1); (qq 3 1, qq 0 1)] in
   vec_approx QcF (qq 0 1) (pevalA QcF 3 (matvec ex_A2) p ex_v)
     (lincomb 3 (pevalT QcF 2 ex2_t p (cscale (@cof QcF (dnorm_ex ex_v)) (e0 QcF 2))) ex2_Vs) &&
   negb (vec_approx QcF (qq 0 1) (pevalA QcF 3 (matvec ex_A2) p ex_v) ex_v) && Nat.eqb (length ex2_Vs) 2) = true.
Proof. split; [exact ex2_poly|vm_compute; reflexivity]. Qed.

(* the matrix-vector product of the correspondence check is linear *)
Theorem C15_matvec_linear :
  forall (F : ofield) (n : nat) (A : list (list (Cx F))), length A = n -> linear F n (matvec A).
Proof. exact matvec_linear. Qed.
Print Assumptions C15_matvec_linear.

(* Non-vacuity: complex Hermitian rational 3x3 matrix, start vector (1,-2i,2) in a two-dimensional invariant subspace,
   numiter = 2, rational orthogonal eigenvector matrix, a rational unimodular phase: all hypotheses hold
   (Proofs/KrylovExamples15.v, by vm_compute), and the model output is concrete *)
Example C15_isometry_nonvacuous :
  (exists x, expm_krylov QcF (matvec ex_A4) dnorm_ex ex_small deigh_ex dexp_ex (fun M => M) ex_v ex_dt 2 true = Some x /\
             length x = 3 /\ nrm2 x = nrm2 ex_v) /\
  match expm_krylov QcF (matvec ex_A4) dnorm_ex ex_small deigh_ex dexp_ex (fun M => M) ex_v ex_dt 2 true with
  | Some x => feqb QcF (nrm2 x) (qq 9 1) && negb (vec_approx QcF (qq 0 1) x ex_v)
  | None => false end = true.
Proof. split; [exact ex4_isometry|vm_compute; reflexivity]. Qed.

Example C15_ritz_nonvacuous :
  (exists ws us, eigh_krylov QcF (matvec ex_A4) dnorm_ex ex_small deigh_ex ex_v 2 2 = Some (ws, us) /\
                 ritz_post QcF 3 (matvec ex_A4) 2 2 ws us) /\
  (exists ws us, eigh_krylov QcF (matvec ex_A4) dnorm_ex ex_small deigh_ex ex_v 2 2 = Some (ws, us) /\ 1 <= length ws /\
     fle QcF (fmul QcF (nth 0 ws (f0 QcF)) (nrm2 ex_v)) (cre (vdot ex_v (matvec ex_A4 ex_v)))) /\
  match eigh_krylov QcF (matvec ex_A4) dnorm_ex ex_small deigh_ex ex_v 2 2 with
  | Some (ws, us) => fl_approx QcF (qq 0 1) ws [qq 0 1; qq 25 1] && Nat.eqb (length us) 2
  | None => false end = true.
Proof. split; [exact ex4_ritz|split; [exact ex4_upper|vm_compute; reflexivity]]. Qed.

(* ---------------------------------------------------------------------------------------------------------------
   LINK to C08 (added by the linking round; lemmas in Proofs/LinkExpmEnergy.v).  The ENERGY half of the conserving-solver
   contract: for the Hermitian branch of expm_krylov over Lanczos, every iteration count m >= 1 (early termination
   included), a linear self-adjoint map, unimodular phases and an eigh_tridiagonal answer (w, U) with U real k x k,
   U^T U = I, T U = U diag(w) and (U U^T) e_0 = e_0 ([expm_h_energy_oracles_ok]: eigh_ok /\ eigh_row0 /\ |dexp(dt w_l)| = 1
   on the call actually issued):  ||x'|| = ||v||  AND  <x'|A x'> = <v|A v>.
   (V^H A V = T exactly by C14_lanczos_tridiag; no invariance of the Krylov space is needed.) *)
From PT Require Import Proofs.LinkExpmEnergy Proofs.LinkExamples.
Theorem C15_expm_hermitian_energy :
  forall (F : ofield) (n : nat) (dexp : Cx F -> Cx F) (Afunc : list (Cx F) -> list (Cx F)),
  maps_len F n Afunc -> linear F n Afunc ->
  forall (dnorm : list (Cx F) -> F) (small : F -> bool) (deigh : list F -> list F -> list F * list (list F))
         (dexpm : list (list (Cx F)) -> list (list (Cx F))),
  self_adjoint F n Afunc -> small_sound F small ->
  forall (v : list (Cx F)) (dt : Cx F) (m : nat),
  length v = n -> v <> vzero n -> 1 <= m ->
  Forall (norm_ok F) (lanczos_calls F Afunc dnorm small v m) ->
  expm_h_energy_oracles_ok F dexp Afunc dnorm small deigh v dt m ->
  exists x, expm_krylov F Afunc dnorm small deigh dexp dexpm v dt m true = Some x /\
            length x = n /\ nrm2 x = nrm2 v /\ vdot x (Afunc x) = vdot v (Afunc v).
Proof. exact expm_hermitian_energy. Qed.
Print Assumptions C15_expm_hermitian_energy.

(* Non-vacuity: the instance of C15_isometry_nonvacuous also meets the energy contract (the eigenvector matrix is a
   rational rotation, so (U U^T) e_0 = e_0); the energy <v|A v> = 9 is non-zero and the result differs from v *)
Example C15_energy_nonvacuous :
  (exists x, expm_krylov QcF (matvec ex_A4) dnorm_ex ex_small deigh_ex dexp_ex (fun M => M) ex_v ex_dt 2 true = Some x /\
             length x = 3 /\ nrm2 x = nrm2 ex_v /\ vdot x (matvec ex_A4 x) = vdot ex_v (matvec ex_A4 ex_v)) /\
  match expm_krylov QcF (matvec ex_A4) dnorm_ex ex_small deigh_ex dexp_ex (fun M => M) ex_v ex_dt 2 true with
  | Some x => vec_approx QcF (qq 0 1) [vdot x (matvec ex_A4 x)] [vdot ex_v (matvec ex_A4 ex_v)] &&
              negb (vec_approx QcF (qq 0 1) [vdot ex_v (matvec ex_A4 ex_v)] [(qq 0 1, qq 0 1)]) &&
              negb (vec_approx QcF (qq 0 1) x ex_v)
  | None => false end = true.
Proof. split; [exact ex4_energy|vm_compute; reflexivity]. Qed.

(* =================================================================================================================
   EXHAUSTION CLAUSES (Proofs/KrylovExhaust.v, KrylovExhaustSpec.v, KrylovExhaustTop.v, KrylovExhaustGen.v).
   This block supersedes item (i) of the gap stated in the header: A V = V T is now DERIVED whenever the iteration
   stopped on an exactly vanishing residual ("exact breakdown": the warning was issued and numpy.linalg.norm answered 0
   on the last residual -- by the norm contract on the calls issued this forces the residual vector to be 0; see
   C14_lanczos_exact_breakdown_AV_VT / C14_arnoldi_exact_breakdown_AV_VH), or more generally whenever the residual
   recomputed from the returned state, [lanczos_last_resid be Vs], is the zero vector ("zero_resid": also covers
   numiter = Krylov dimension, where the code does not compute that residual and no warning is issued).
   What is closed, for every n, numiter, ordered field:
     (a) polynomials: p(A) v = ||v|| V p(T) e_0 for every p, both branches, no separate hypothesis A V = V T;
     (b) eigh_krylov: every returned Ritz pair is an exact eigenpair of A with a unit eigenvector, every Ritz value is an
         eigenvalue reachable from v (some eigenvector not orthogonal to v; uses beta_i > 0: the first component of every
         eigenvector of an unreduced tridiagonal matrix is non-zero), the lowest Ritz value is <= every real eigenvalue
         of A reachable from v -- hence it EQUALS the smallest reachable eigenvalue -- and v is a combination of the
         Ritz vectors;
     (c) expm_krylov, Hermitian branch: the result equals E v for EVERY operator E on vectors of length n that is linear
         and multiplies each lam-eigenvector of A by dexp(dt lam)  ([E_spec]; the matrix exponential exp(dt A) has this
         property when dexp is the exponential function). No matrix exponential is constructed: the clause "equals the
         exact matrix exponential applied to the vector" is closed RELATIVE TO that defining property on eigenvectors;
     (d) general branch: the same for expm_krylov(hermitian=False) under the analogous contract for scipy.linalg.expm on
         the one call issued ([expm_g_ok]: Em = expm(dt H) is k x k and Em u = dexp(dt lam) u whenever H u = lam u) AND
         the extra hypothesis [e0_diag] that e_0 is a combination of eigenvectors of H (H diagonalisable on the relevant
         subspace; not automatic for non-normal A -- Jordan blocks are not covered).
   Still NOT proved: anything for a small but non-zero residual (floating point breakdown; numerical search only), and
   the full-dimension case numiter = n without breakdown (needs: n orthonormal vectors of length n span, i.e.
   V^H V = I ==> V V^H = I over an arbitrary ordered field; left to the numerical search). *)
From PT Require Import Base.BigSum Proofs.KrylovArnoldi Proofs.KrylovExhaust Proofs.KrylovExhaustSpec Proofs.KrylovExhaustTop Proofs.KrylovExhaustGen
  Proofs.KrylovExamplesExhaust.

(* (a) both branches, exact breakdown ==> p(A) v = V p(T) (||v|| e_0) for every polynomial p (coefficient list, Horner) *)
Theorem C15_exhausted_poly_exact_breakdown :
  forall (F : ofield) (n : nat) (Afunc : list (Cx F) -> list (Cx F)) (dnorm : list (Cx F) -> F) (small : F -> bool),
  maps_len F n Afunc -> small_sound F small -> linear F n Afunc ->
  forall (v : list (Cx F)) (m : nat), length v = n -> v <> vzero n -> 1 <= m ->
  (self_adjoint F n Afunc ->
   forall (al be : list F) (Vs : list (list (Cx F))),
   Forall (norm_ok F) (lanczos_calls F Afunc dnorm small v m) ->
   lanczos F Afunc dnorm small v m = Some (al, be, Vs, true) -> lanczos_last_norm F Afunc dnorm be Vs = f0 F ->
   forall p : list (Cx F),
     pevalA F n Afunc p v = lincomb n (pevalT F (length Vs) (tri F al be) p (cscale (cof (dnorm v)) (e0 F (length Vs)))) Vs) /\
  (forall (H Vs : list (list (Cx F))),
   Forall (norm_ok F) (arnoldi_calls F Afunc dnorm small v m) ->
   arnoldi F Afunc dnorm small v m = Some (H, Vs, true) -> arnoldi_last_norm F Afunc dnorm Vs = f0 F ->
   forall p : list (Cx F),
     pevalA F n Afunc p v = lincomb n (pevalT F (length Vs) (hfun F H) p (cscale (cof (dnorm v)) (e0 F (length Vs)))) Vs).
Proof.
  intros F n Afunc dnorm small H1 H2 H3 v m Hv Hnz Hm. split.
  - intros Hsa al be Vs HC HR Hb. exact (exhausted_poly_lanczos F n Afunc dnorm small H1 Hsa H2 v m al be Vs H3 Hv Hnz Hm HC HR Hb).
  - intros H Vs HC HR Hb. exact (exhausted_poly_arnoldi F n Afunc dnorm small H1 H2 v m H Vs H3 Hv Hnz Hm HC HR Hb).
Qed.
Print Assumptions C15_exhausted_poly_exact_breakdown.

(* (b) generic core: under A V = V T (T = tridiag(alpha, beta)) and a valid eigh_tridiagonal answer (w, U), the Ritz vector
   y_q = V u_q satisfies A y_q = w_q y_q, has length n and norm 1, and is not the zero vector *)
Theorem C15_exhausted_ritz_exact :
  forall (F : ofield) (n : nat) (Afunc : list (Cx F) -> list (Cx F)) (al be : list F) (Vs : list (list (Cx F)))
         (w : list F) (U : list (list F)) (k : nat),
  maps_len F n Afunc -> linear F n Afunc -> orthonormal F n Vs -> length Vs = k ->
  (forall j, j < k -> Afunc (vat F Vs j) = lincomb n (tcol F k (tri F al be) j) Vs) ->
  eigh_ok F k al be (w, U) ->
  forall q, q < k ->
  Afunc (ritz F n Vs U q) = cscale (cof (nth q w (f0 F))) (ritz F n Vs U q) /\ length (ritz F n Vs U q) = n /\
  vdot (ritz F n Vs U q) (ritz F n Vs U q) = k1 (Cx F) /\ ritz F n Vs U q <> vzero n.
Proof. exact ritz_exact. Qed.
Print Assumptions C15_exhausted_ritz_exact.

(* (b) for the model function: [ritz_exact_post]: min(numeig, k) pairs (theta_q, y_q) with length y_q = n, A y_q = theta_q y_q,
   <y_q,y_q> = 1, y_q <> 0, theta_q reachable from v ([reachable v lam]: exists x, A x = lam x and <x,v> <> 0), theta_0 <= theta_q;
   and for numeig >= 1: theta_0 <= lam for EVERY real lam reachable from v. Second conjunct: v = sum_q (||v|| U_0q) y_q. *)
Theorem C15_exhausted_ritz_exact_breakdown :
  forall (F : ofield) (n : nat) (Afunc : list (Cx F) -> list (Cx F)) (dnorm : list (Cx F) -> F) (small : F -> bool)
         (deigh : list F -> list F -> list F * list (list F)),
  maps_len F n Afunc -> linear F n Afunc -> self_adjoint F n Afunc -> small_sound F small ->
  forall (v : list (Cx F)) (m numeig : nat) (al be : list F) (Vs : list (list (Cx F))),
  length v = n -> v <> vzero n -> 1 <= m -> Forall (norm_ok F) (lanczos_calls F Afunc dnorm small v m) ->
  eigh_oracle_ok F Afunc dnorm small deigh v m -> eigh_oracle_sorted F Afunc dnorm small deigh v m ->
  lanczos F Afunc dnorm small v m = Some (al, be, Vs, true) ->
  lanczos_last_norm F Afunc dnorm be Vs = f0 F ->
  (exists ws us, eigh_krylov F Afunc dnorm small deigh v m numeig = Some (ws, us) /\ ritz_exact_post F n Afunc v Vs numeig ws us) /\
  v = lincomb n (cs_h F (snd (deigh al be)) (length Vs) (dnorm v)) (ritzs F n Vs (snd (deigh al be)) (length Vs)).
Proof. exact ritz_exhausted_breakdown. Qed.
Print Assumptions C15_exhausted_ritz_exact_breakdown.

(* the same whenever the last residual recomputed from the returned state is zero (no warning needed) *)
Theorem C15_exhausted_ritz_exact_zero_resid :
  forall (F : ofield) (n : nat) (Afunc : list (Cx F) -> list (Cx F)) (dnorm : list (Cx F) -> F) (small : F -> bool)
         (deigh : list F -> list F -> list F * list (list F)),
  maps_len F n Afunc -> linear F n Afunc -> self_adjoint F n Afunc -> small_sound F small ->
  forall (v : list (Cx F)) (m numeig : nat) (al be : list F) (Vs : list (list (Cx F))) (wn : bool),
  length v = n -> v <> vzero n -> 1 <= m -> Forall (norm_ok F) (lanczos_calls F Afunc dnorm small v m) ->
  eigh_oracle_ok F Afunc dnorm small deigh v m -> eigh_oracle_sorted F Afunc dnorm small deigh v m ->
  lanczos F Afunc dnorm small v m = Some (al, be, Vs, wn) ->
  lanczos_last_resid F Afunc dnorm be Vs = vzero n ->
  (exists ws us, eigh_krylov F Afunc dnorm small deigh v m numeig = Some (ws, us) /\ ritz_exact_post F n Afunc v Vs numeig ws us) /\
  v = lincomb n (cs_h F (snd (deigh al be)) (length Vs) (dnorm v)) (ritzs F n Vs (snd (deigh al be)) (length Vs)).
Proof. exact ritz_exhausted_zero_resid. Qed.
Print Assumptions C15_exhausted_ritz_exact_zero_resid.

(* (c) spectral form of the model output under A V = V T: with y_q the Ritz vectors (exact eigenvectors by (b)) and
   c_q = nrm U_0q:   V U diag(dexp(dt w)) U^T (nrm e_0) = sum_q (c_q dexp(dt w_q)) y_q   and   nrm v_0 = sum_q c_q y_q *)
Theorem C15_expm_exhausted_spectral_form :
  forall (F : ofield) (n : nat) (Afunc : list (Cx F) -> list (Cx F)) (al be : list F) (Vs : list (list (Cx F)))
         (w : list F) (U : list (list F)) (k : nat),
  orthonormal F n Vs -> length Vs = k ->
  (forall j, j < k -> Afunc (vat F Vs j) = lincomb n (tcol F k (tri F al be) j) Vs) ->
  eigh_ok F k al be (w, U) ->
  (forall j, j < k -> sumn k (fun q => kmul (Cx F) (cof (nth q (nth j U []) (f0 F))) (cof (nth q (nth 0 U []) (f0 F)))) = delta F j 0) ->
  forall (dexp : Cx F -> Cx F) (nrm : F) (dt : Cx F), 0 < k ->
  lincomb n (expm_coeffs_h F dexp nrm dt w U) Vs =
    lincomb n (map (fun q => kmul (Cx F) (kmul (Cx F) (cof nrm) (cof (nth q (nth 0 U []) (f0 F))))
                                         (dexp (kmul (Cx F) dt (cof (nth q w (f0 F)))))) (seq 0 k)) (ritzs F n Vs U k) /\
  rscale nrm (vat F Vs 0) = lincomb n (cs_h F U k nrm) (ritzs F n Vs U k).
Proof. exact expm_spectral_form. Qed.
Print Assumptions C15_expm_exhausted_spectral_form.

(* (c) Hermitian branch, exact breakdown: expm_krylov returns E v for every E meeting [E_spec dt E]:
   E linear on vectors of length n and E y = dexp(dt lam) y whenever A y = lam y (lam complex) *)
Theorem C15_expm_exhausted_exact_breakdown :
  forall (F : ofield) (n : nat) (Afunc : list (Cx F) -> list (Cx F)) (dnorm : list (Cx F) -> F) (small : F -> bool)
         (deigh : list F -> list F -> list F * list (list F)) (dexp : Cx F -> Cx F)
         (dexpm : list (list (Cx F)) -> list (list (Cx F))),
  maps_len F n Afunc -> linear F n Afunc -> self_adjoint F n Afunc -> small_sound F small ->
  forall (v : list (Cx F)) (dt : Cx F) (m : nat) (E : list (Cx F) -> list (Cx F)) (al be : list F) (Vs : list (list (Cx F))),
  length v = n -> v <> vzero n -> 1 <= m -> Forall (norm_ok F) (lanczos_calls F Afunc dnorm small v m) ->
  eigh_oracle_ok F Afunc dnorm small deigh v m -> eigh_oracle_sorted F Afunc dnorm small deigh v m ->
  E_spec F n Afunc dexp dt E ->
  lanczos F Afunc dnorm small v m = Some (al, be, Vs, true) ->
  lanczos_last_norm F Afunc dnorm be Vs = f0 F ->
  expm_krylov F Afunc dnorm small deigh dexp dexpm v dt m true = Some (E v).
Proof. exact expm_exhausted_breakdown. Qed.
Print Assumptions C15_expm_exhausted_exact_breakdown.

Theorem C15_expm_exhausted_zero_resid :
  forall (F : ofield) (n : nat) (Afunc : list (Cx F) -> list (Cx F)) (dnorm : list (Cx F) -> F) (small : F -> bool)
         (deigh : list F -> list F -> list F * list (list F)) (dexp : Cx F -> Cx F)
         (dexpm : list (list (Cx F)) -> list (list (Cx F))),
  maps_len F n Afunc -> linear F n Afunc -> self_adjoint F n Afunc -> small_sound F small ->
  forall (v : list (Cx F)) (dt : Cx F) (m : nat) (E : list (Cx F) -> list (Cx F)) (al be : list F) (Vs : list (list (Cx F))) (wn : bool),
  length v = n -> v <> vzero n -> 1 <= m -> Forall (norm_ok F) (lanczos_calls F Afunc dnorm small v m) ->
  eigh_oracle_ok F Afunc dnorm small deigh v m -> eigh_oracle_sorted F Afunc dnorm small deigh v m ->
  E_spec F n Afunc dexp dt E ->
  lanczos F Afunc dnorm small v m = Some (al, be, Vs, wn) ->
  lanczos_last_resid F Afunc dnorm be Vs = vzero n ->
  expm_krylov F Afunc dnorm small deigh dexp dexpm v dt m true = Some (E v).
Proof. exact expm_exhausted_zero_resid. Qed.
Print Assumptions C15_expm_exhausted_zero_resid.

(* (d) general branch, exact Arnoldi breakdown, under [expm_g_ok] (contract of the dense expm oracle on the call issued)
   and [e0_diag] (e_0 is a combination of eigenvectors of H) *)
Theorem C15_expm_exhausted_general_exact_breakdown :
  forall (F : ofield) (n : nat) (Afunc : list (Cx F) -> list (Cx F)) (dnorm : list (Cx F) -> F) (small : F -> bool)
         (deigh : list F -> list F -> list F * list (list F)) (dexp : Cx F -> Cx F)
         (dexpm : list (list (Cx F)) -> list (list (Cx F))),
  maps_len F n Afunc -> linear F n Afunc -> small_sound F small ->
  forall (v : list (Cx F)) (dt : Cx F) (m : nat) (E : list (Cx F) -> list (Cx F)) (H Vs : list (list (Cx F))),
  length v = n -> v <> vzero n -> 1 <= m -> Forall (norm_ok F) (arnoldi_calls F Afunc dnorm small v m) ->
  E_spec F n Afunc dexp dt E ->
  arnoldi F Afunc dnorm small v m = Some (H, Vs, true) ->
  arnoldi_last_norm F Afunc dnorm Vs = f0 F ->
  expm_g_ok F dexp dexpm dt H (length Vs) -> e0_diag F H (length Vs) ->
  expm_krylov F Afunc dnorm small deigh dexp dexpm v dt m false = Some (E v).
Proof. exact expm_exhausted_g_breakdown. Qed.
Print Assumptions C15_expm_exhausted_general_exact_breakdown.

(* an operator meeting E_spec for a non-constant scalar function exists for every linear A: dexp z = 1 + z, E = I + dt A *)
Theorem C15_E_spec_first_order :
  forall (F : ofield) (n : nat) (Afunc : list (Cx F) -> list (Cx F)),
  maps_len F n Afunc -> linear F n Afunc -> forall dt : Cx F, E_spec F n Afunc (dexp1 F) dt (E1 F Afunc dt).
Proof. exact E1_spec. Qed.
Print Assumptions C15_E_spec_first_order.

(* Non-vacuity (Proofs/KrylovExamplesExhaust.v): ex_A4, start vector (1,-2i,2) in a two-dimensional invariant subspace,
   numiter = 3 > Krylov dimension 2: exact breakdown at step 1 (norm answer 0, warning issued). With dexp z = 1 + z the
   operator E = I + dt A meets E_spec, and both branches of the model return exactly v + dt A v (dense oracle M |-> I + M);
   every polynomial is reproduced; the two Ritz pairs (0, 25) are exact eigenpairs and v is in their span. *)
Example C15_exhausted_nonvacuous :
  expm_krylov QcF (matvec ex_A4) dnorm_ex ex_small deigh_ex ex_dexp1 (fun M => M) ex_v ex_dt 3 true = Some (ex_E1 ex_v) /\
  expm_krylov QcF (matvec ex_A4) dnorm_ex ex_small deigh_ex ex_dexp1 (dexpm1 QcF) ex_v ex_dt 3 false = Some (ex_E1 ex_v) /\
  (forall p : list (C QcF), exists al be Vs,
     lanczos QcF (matvec ex_A4) dnorm_ex ex_small ex_v 3 = Some (al, be, Vs, true) /\
     pevalA QcF 3 (matvec ex_A4) p ex_v =
     lincomb 3 (pevalT QcF (length Vs) (tri QcF al be) p (cscale (@cof QcF (dnorm_ex ex_v)) (e0 QcF (length Vs)))) Vs) /\
  (exists al be Vs,
     lanczos QcF (matvec ex_A4) dnorm_ex ex_small ex_v 3 = Some (al, be, Vs, true) /\
     (exists ws us, eigh_krylov QcF (matvec ex_A4) dnorm_ex ex_small deigh_ex ex_v 3 2 = Some (ws, us) /\
                    ritz_exact_post QcF 3 (matvec ex_A4) ex_v Vs 2 ws us) /\
     ex_v = lincomb 3 (cs_h QcF (snd (deigh_ex al be)) (length Vs) (dnorm_ex ex_v)) (ritzs QcF 3 Vs (snd (deigh_ex al be)) (length Vs))) /\
  (match expm_krylov QcF (matvec ex_A4) dnorm_ex ex_small deigh_ex ex_dexp1 (fun M => M) ex_v ex_dt 3 true,
         expm_krylov QcF (matvec ex_A4) dnorm_ex ex_small deigh_ex ex_dexp1 (dexpm1 QcF) ex_v ex_dt 3 false with
   | Some x, Some x' =>
       vec_approx QcF (qq 0 1) x (vadd ex_v (cscale ex_dt (matvec ex_A4 ex_v))) && vec_approx QcF (qq 0 1) x' x &&
       negb (vec_approx QcF (qq 0 1) x ex_v)
   | _, _ => false end = true).
Proof.
  split; [exact ex5_expm|]. split; [exact ex6_expm|]. split; [exact ex5_poly|]. split; [exact ex5_ritz|].
  vm_compute. reflexivity.
Qed.
