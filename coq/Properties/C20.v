(* C20 — Compiled Hamiltonian MPOs are as compact as the operator allows.
   Only statements, closed by [exact]/[apply]; proofs live in Proofs/Compact*.v.
   Models: Model/FromOpchains.v (OpGraph.from_opchains, cover an argument), Model/Bipartite.v (minimum_vertex_cover, C18),
   Model/GraphMPO.v (layer discovery of MPO.from_opgraph), Model/Rewrites.v (simplify, C16), Model/Hamiltonians.v (built-in
   chain tables, linear fermionic graph), Model/HamIsing.v (Ising automaton), Model/Compact.v (certified covers, checkers).
   [bond_dims g] = widths of the node layers MPO.from_opgraph discovers in g = MPO.bond_dims (C05_from_opgraph_struct:
   qD = node charges per layer, tensors of shape (d, d, width_l, width_(l+1))).

   FULL STATEMENT AIMED AT:
     (1) for generic non-zero parameters, every built-in construction (chains, automaton, optimized molecular), every L and every cut:
         bond dimension = operator Schmidt rank of the dense operator;
     (2) for every chain list and every cut: bond dimension <= number of chains with non-zero coefficient;
     (3) simplify never increases any bond dimension.
   PROVED BELOW:
     (2) completely, for every cover oracle whose answers are certified (valid cover + matching of equal size), and
         unconditionally for the model of minimum_vertex_cover (certified on every call by C18): C20_opchains_bond_le_chains,
         C20_opchains_bond_le_chains_model.
     (3) completely for well-formed graphs (C16's WF: what OpGraph.is_consistent plus "no dangling nodes" means):
         C20_simplify_bond_le, C20_merge_edges_bond_le - no layer grows, no layer is added (the layers of a well-formed graph are
         the level sets of its level function; a merge keeps node ids, start terminal and level functions).
     (1) the Schmidt-rank half is NOT proved: "generic" is a measure-theoretic qualifier and rank is numerical -- prop only
         (harness/props/c20.py compares MPO.bond_dims with numerical operator Schmidt ranks).  PROVED instead, FOR EVERY L >= 1
         (second half of this file, C20_*_all_L): the closed-form bond dimensions of the model graphs of Ising (automaton route),
         XXZ spin-1/2 and spin-1, Bose-Hubbard and Fermi-Hubbard (from_opchains route) for all non-zero parameters, and for every
         chain list: bond dimension at cut k + 1 = size of the cover chosen at site k.  Still BOUNDED in L (L <= 8, sample
         parameter values, kernel computation): the hand-wired linear fermionic graph (C20_dims_linferm_bounded).
         The optimized molecular constructions have no Coq model here (prop only). *)
From Coq Require Import ZArith QArith Qcanon List Bool Lia.
From PT Require Import Base.Scalar Base.BigSum Base.Mx Model.OpGraph Model.Bipartite Model.FromOpchains Model.GraphMPO
                       Model.Rewrites Model.Hamiltonians Model.Compact
                       Proofs.RewritesBase Proofs.RewritesAll
                       Proofs.CompactCount Proofs.CompactLayers Proofs.CompactSweep Proofs.CompactCert Proofs.CompactSimplify.
Import ListNotations.
Open Scope Z_scope.

(* The counting argument for one site graph (all graphs): a valid cover (uc, vc) of a duplicate-free edge list together with
   a matching of the same size gives  sum_{i in uc} deg(i) + |vc| <= |E|  (the number of half-chains does not grow)
   and  |uc| + |vc| <= |E|  (the number of new nodes is at most the number of edges). *)
Theorem C20_halfchains_le_edges : forall (es : list (nat * nat)) (uc vc : list nat) (m : list (nat * nat)),
  NoDup uc -> NoDup vc -> (forall e, In e es -> In (fst e) uc \/ In (snd e) vc) ->
  incl m es -> NoDup (map fst m) -> NoDup (map snd m) -> length m = (length uc + length vc)%nat ->
  (list_sum (map (fun i => length (adj_u es i)) uc) + length vc <= length es)%nat /\ (length uc + length vc <= length es)%nat.
Proof.
  intros es uc vc m H1 H2 H3 H4 H5 H6 H7. split.
  - exact (halfchains_le_edges es uc vc m H1 H2 H3 H4 H5 H6 H7).
  - exact (cover_le_edges es uc vc m H4 H5 H7).
Qed.
Print Assumptions C20_halfchains_le_edges.

(* (2) For every coefficient ring, every chain list (any lengths, start sites, duplicates, zero coefficients), every L and
   every cover oracle: if all cover answers issued during the sweep are certified and the construction returns a graph,
   every layer width found by MPO.from_opgraph is at most the number of chains with non-zero coefficient, and there are at
   most L + 1 layers. *)
Theorem C20_opchains_bond_le_chains : forall (R : cring) cover (chains : list (chain R)) L idn g ws,
  (forall s0, start_state chains L idn = Some s0 -> calls_certified cover L s0) ->
  from_opchains cover chains L idn = Ok g -> bond_dims g = Some ws ->
  Forall (fun w => (w <= nz_count chains)%nat) ws /\ (length ws <= L + 1)%nat.
Proof. exact opchains_bond_le_chains. Qed.
Print Assumptions C20_opchains_bond_le_chains.

(* the model of minimum_vertex_cover is certified on every site graph (C18_mvc_total: valid cover, |cover| = |matching|) *)
Theorem C20_cover_model_certified : forall n_u n_v (es : list (nat * nat)),
  (forall e, In e es -> (fst e < n_u)%nat /\ (snd e < n_v)%nat) ->
  certifiedb n_u n_v es (cover_model n_u n_v es) (matching_model n_u n_v es) = true.
Proof. exact cover_model_certified. Qed.
Print Assumptions C20_cover_model_certified.

(* hence, with the real cover routine, the bound holds with no hypothesis on the cover at all *)
Theorem C20_opchains_bond_le_chains_model : forall (R : cring) (chains : list (chain R)) L idn g ws,
  from_opchains cover_model chains L idn = Ok g -> bond_dims g = Some ws ->
  Forall (fun w => (w <= nz_count chains)%nat) ws /\ (length ws <= L + 1)%nat.
Proof.
  intros R chains L idn g ws. apply opchains_bond_le_chains. intros s0 _. apply calls_certified_model.
Qed.
Print Assumptions C20_opchains_bond_le_chains_model.

(* the boolean evaluated on the RECORDED covers of the implementation in the correspondence check means what it says *)
Theorem C20_calls_certifiedb_sound : forall (R : cring) cover n (s : st R),
  calls_certifiedb cover n s = true -> calls_certified cover n s.
Proof. exact calls_certifiedb_sound. Qed.
Print Assumptions C20_calls_certifiedb_sound.

(* layers of a graph whose ids lie in consecutive blocks, edges going from each block to the next: widths <= block sizes *)
Theorem C20_layers_in_blocks : forall (R : cring) (beta : nat -> Z) (K N : nat),
  (forall i j, (i <= j <= S K)%nat -> beta i <= beta j) ->
  (forall j, (1 <= j <= K)%nat -> beta (S j) - beta j <= Z.of_nat N) ->
  forall g : graph R,
  (forall e, In e (g_edges g) -> exists j, (j < K)%nat /\ blk beta j (e_from e) /\ blk beta (S j) (e_to e)) ->
  forall ws, beta 0%nat <= g_t0 g < beta 1%nat -> bond_dims g = Some ws ->
  exists ws', ws = 1%nat :: ws' /\ Forall (fun w => (w <= N)%nat) ws' /\ (length ws' <= K)%nat.
Proof. exact bond_dims_le. Qed.
Print Assumptions C20_layers_in_blocks.

(* (3) simplify.  What C16 gives (C16_simplify): well-formedness and the denoted operator are preserved, the number of edges
   and the TOTAL number of nodes do not increase.  Added here: per layer.  For every coefficient ring and every well-formed
   graph g: if simplify returns g' (it always does: C16_simplify_terminates) and from_opgraph finds the layers of both, then
   g' has no more layers than g and every layer of g' is at most as wide as the corresponding layer of g. *)
Theorem C20_simplify_bond_le : forall (R : cring) (g g' : graph R) ws ws',
  WF R g -> simplify g = Some g' -> bond_dims g = Some ws -> bond_dims g' = Some ws' ->
  (length ws' <= length ws)%nat /\ forall i w', nth_error ws' i = Some w' -> exists w, nth_error ws i = Some w /\ (w' <= w)%nat.
Proof. exact simplify_bond_le. Qed.
Print Assumptions C20_simplify_bond_le.
(* the same for a single merge_edges call under exactly the guards the code checks (both branches, both directions) *)
Theorem C20_merge_edges_bond_le : forall (R : cring) (g g' : graph R) a b d ws ws',
  WF R g -> merge_edges g a b d = Some g' -> bond_dims g = Some ws -> bond_dims g' = Some ws' ->
  (length ws' <= length ws)%nat /\ forall i w', nth_error ws' i = Some w' -> exists w, nth_error ws i = Some w /\ (w' <= w)%nat.
Proof. exact merge_edges_bond_le. Qed.
Print Assumptions C20_merge_edges_bond_le.
(* the layers from_opgraph finds in a well-formed graph are exactly the level sets of any level function *)
Theorem C20_layers_are_level_sets : forall (R : cring) (g : graph R), WF R g ->
  forall lv, (forall e, In e (g_edges g) -> lv (e_to e) = lv (e_from e) + 1) ->
  forall ls, layers (S (length (g_nodes g))) g [g_t0 g] = Ok ls ->
  forall i l, nth_error ls i = Some l ->
  NoDup l /\ forall x, In x l <-> In x (nids R g) /\ lv x = lv (g_t0 g) + 1 + Z.of_nat i.
Proof. intros R g W lv Hlv ls H. exact (proj1 (graph_layers_levels R g W lv Hlv ls H)). Qed.
Print Assumptions C20_layers_are_level_sets.
(* C16's totals, restated *)
Theorem C20_simplify_totals : forall (R : cring) (g g' : graph R),
  WF R g -> simplify g = Some g' ->
  WF R g' /\ (forall w, den g' w = den g w) /\
  (length (g_nodes g') <= length (g_nodes g))%nat /\ (length (g_edges g') <= length (g_edges g))%nat.
Proof.
  intros R g g' W H. destruct (simplify_ok R g g' W H) as [A [B [C D]]]. auto.
Qed.
Print Assumptions C20_simplify_totals.

(* ---- BOUNDED kernel computations (L = 1 .. 8, sample parameter values): closed-form bond dimensions of the model graphs
        built with the model cover routine.  XXZ: [1,4,5,...,5,4,1] for L >= 4 and [1,4,..,4,1] below; Bose-Hubbard [1,4,...,4,1];
        Fermi-Hubbard [1,6,...,6,1]; linear fermionic [1,2,...,2,1].  (Ising [1,3,...,3,1]: Properties/C06.v, C06_ising_dims_bounded.) ---- *)
Definition qn (n : Z) : Qc := Q2Qc (inject_Z n).
Definition qhalf : Qc := Q2Qc (1 # 2).
Definition dims_ok (sp : hamspec Qcring) (L : nat) (ws : list nat) : bool := check_builtin_dims sp L ws.
Definition Ls : list nat := [1; 2; 3; 4; 5; 6; 7; 8]%nat.

Example C20_dims_xxz_bounded :
  forallb (fun L => dims_ok (@xxz_spec Qcring qhalf (qn 3) (qn 5) (qn 7)) L (dims_xxz L)) Ls = true.
Proof. vm_compute. reflexivity. Qed.
Example C20_dims_xxz1_bounded :
  forallb (fun L => dims_ok (@xxz1_spec Qcring qhalf (qn 1) (qn 3) (qn 5) (qn 7)) L (dims_xxz L)) Ls = true.
Proof. vm_compute. reflexivity. Qed.
Example C20_dims_bose_bounded :
  forallb (fun L => dims_ok (@bose_spec Qcring 3 (fun _ => qn 1) (qn 3) (qn 5) (qn 7)) L (dims_const L 4)) Ls = true.
Proof. vm_compute. reflexivity. Qed.
Example C20_dims_fermi_bounded :
  forallb (fun L => dims_ok (@fermi_spec Qcring qhalf (qn 3) (qn 5) (qn 7)) L (dims_const L 6)) Ls = true.
Proof. vm_compute. reflexivity. Qed.
Example C20_dims_linferm_bounded :
  forallb (fun L => check_graph_dims (linferm_graph (R := Qcring) (map (fun k => qn (Z.of_nat k + 2)) (seq 0 L)) true) (dims_const L 2)) Ls = true.
Proof. vm_compute. reflexivity. Qed.
(* non-generic points for contrast: without the ZZ term the bulk bond dimension drops to 4, without the flip terms to 3 *)
Example C20_dims_xxz_nongeneric :
  dims_ok (@xxz_spec Qcring qhalf (qn 3) (qn 0) (qn 7)) 6 [1; 4; 4; 4; 4; 4; 1]%nat &&
  dims_ok (@xxz_spec Qcring qhalf (qn 0) (qn 5) (qn 7)) 6 [1; 2; 3; 3; 3; 2; 1]%nat = true.
Proof. vm_compute. reflexivity. Qed.

(* ---- non-vacuity ---- *)
Definition c20_chains : list (chain Zring) :=
  [@mkchain Zring [1; 2] [0; 0; 0] 2 0%nat; @mkchain Zring [1; 3] [0; 0; 0] (-1) 0%nat; @mkchain Zring [2] [0; 0] 3 1%nat;
   @mkchain Zring [1; 2] [0; 0; 0] 5 1%nat; @mkchain Zring [3] [0; 0] 0 2%nat; @mkchain Zring [0; 3] [0; 0; 0] 4 0%nat].
Example C20_nonvacuous_bound :
  match from_opchains cover_model c20_chains 3 0, start_state c20_chains 3 0 with
  | Ok g, Some s0 => calls_certifiedb cover_model 3 s0 = true /\ nz_count c20_chains = 5%nat /\ bond_dims g = Some [1; 2; 2; 1]%nat
  | _, _ => False
  end.
Proof. vm_compute. repeat split; reflexivity. Qed.
(* a cover that is valid but not minimum is NOT certified, and the bound on the half-chain count fails for it *)
Example C20_nonvacuous_uncertified :
  let es := [(0, 0); (1, 0); (2, 0)]%nat in
  certifiedb 3 1 es (cover_allU 3%nat 1%nat es) (matching_model 3 1 es) = false /\
  certifiedb 3 1 es (cover_model 3%nat 1%nat es) (matching_model 3 1 es) = true.
Proof. vm_compute. split; reflexivity. Qed.
Example C20_nonvacuous_simplify :
  let g := @mkgraph GIring
    [mknode 0 [] [0; 1; 2] 0; mknode 1 [0] [3] 0; mknode 3 [1] [4] 0; mknode 4 [2] [5] 1; mknode 2 [3; 4; 5] [] 0]
    [@mkedge GIring 0 0 1 [(0, (1, 0))]; @mkedge GIring 1 0 3 [(0, (1, 0))]; @mkedge GIring 2 0 4 [(0, (1, 0))];
     @mkedge GIring 3 1 2 [(1, (1, 0))]; @mkedge GIring 4 3 2 [(1, ((-1), 0))];
     @mkedge GIring 5 4 2 [(0, (0, 1)); (1, (2, 0))]] 0 2 in
  check_simplify g [1; 3; 1]%nat [1; 2; 1]%nat = true /\ WF GIring g.
Proof. split; [vm_compute; reflexivity|apply wfb_WF; vm_compute; reflexivity]. Qed.

(* ================================================================================================================
   FOR EVERY LATTICE SIZE L (added; replaces "closed forms for L <= 8 by kernel computation" for Ising, the two XXZ models,
   Bose-Hubbard and Fermi-Hubbard; the hand-wired linear fermionic graph stays bounded, C20_dims_linferm_bounded).
   Proofs: Proofs/CompactAllL*.v.  What is proved about the MODEL graphs (Model/FromOpchains.v with the model of
   minimum_vertex_cover, Model/AutOp.v from_automaton):
   (a) every chain list, every certified cover oracle: the bond dimension at cut k + 1 IS the size of the vertex cover chosen
       at site k (C20_opchains_bond_dims_are_cover_sizes) = the maximum matching size of that site's bipartite graph (C18);
   (b) from_automaton: layer widths = numbers of active automaton states; Ising: [1,3,...,3,1] for every L >= 1 and ALL J, h, g
       (the automaton edges are active whatever their coefficients are, so also for J = 0, where the operator Schmidt rank is 2:
       the Ising MPO of the library is NOT compact at J = 0 -- the property only speaks of generic non-zero parameters);
   (c) XXZ spin-1/2 and spin-1 tables with non-zero J/2, D, h: dims_xxz L = [1,4,5,...,5,4,1] ([1,1], [1,4,1], [1,4,4,1] for
       L = 1, 2, 3) for every L >= 1, for ANY certified cover oracle (the minimum covers are not unique: the statement covers
       every choice), in particular for the model of minimum_vertex_cover.
   (d) nearest-neighbour tables without coincidences between one-site operators and charge-0 two-site terms ([table_okb],
       Proofs/CompactAllLNNTop.v), all coefficients non-zero: [1,w,...,w,1] with w = (number of two-site terms) + 2 for every
       L >= 1 and ANY certified cover oracle; instances Bose-Hubbard (w = 4, any local dimension) and Fermi-Hubbard (w = 6).
   How (c) and (d) are proved: an invariant of the half-chains in flight (one node carries exactly the not yet started terms,
   every other half-chain is a started or finished term); for a state satisfying it the site graph is explicit, a matching
   and an edge classification (= a cover) of the same size give the matching number, and a certified cover of that size must
   contain the identity vertex and none of the not yet started tails, which re-establishes the invariant whatever else the
   cover routine chooses.
   NOT proved at all (would need linear independence of operator families over the coefficient field, i.e. a rank argument
   about the dense matrices: for a cut k the d_k operators  left-part x right-part  selected by a maximum matching of the site
   graph would have to be shown linearly independent for generic parameters): that these numbers equal the operator Schmidt
   rank.  This stays numerical (prop in harness/props/c20.py). *)
From PT Require Import Model.AutOp Model.HamIsing Model.CompactAllL
                       Proofs.CompactAllLWidths Proofs.CompactAllLAut Proofs.CompactAllLIsing Proofs.CompactAllLXXZSite Proofs.CompactAllLXXZTop
                       Proofs.CompactAllLNNBody Proofs.CompactAllLNNSite Proofs.CompactAllLNNTop.

(* (a) bond dimensions = cover sizes.  [cover_sizes cover L s0] (Model/CompactAllL.v) lists |u_cover| + |v_cover| of the L
   covers chosen during the sweep started in the initial state s0 of from_opchains. *)
Theorem C20_opchains_bond_dims_are_cover_sizes : forall (R : cring) cover (chains : list (chain R)) L idn g, (1 <= L)%nat ->
  (forall s0, start_state chains L idn = Some s0 -> calls_certified cover L s0) ->
  from_opchains cover chains L idn = Ok g ->
  exists s0, start_state chains L idn = Some s0 /\ bond_dims g = Some (1%nat :: cover_sizes cover L s0).
Proof. exact opchains_bond_dims_sizes. Qed.
Print Assumptions C20_opchains_bond_dims_are_cover_sizes.

Theorem C20_opchains_bond_dims_are_cover_sizes_model : forall (R : cring) (chains : list (chain R)) L idn g, (1 <= L)%nat ->
  from_opchains cover_model chains L idn = Ok g ->
  exists s0, start_state chains L idn = Some s0 /\ bond_dims g = Some (1%nat :: cover_sizes cover_model L s0).
Proof. exact opchains_bond_dims_sizes_model. Qed.
Print Assumptions C20_opchains_bond_dims_are_cover_sizes_model.

(* (b) automata: the layers MPO.from_opgraph finds in the unrolled graph have as many nodes as there are active states
   (forward reachable from the start terminal and backward reachable from the end terminal, C17) *)
Theorem C20_from_automaton_bond_dims : forall (R : cring) (aut : autop R) (L : nat) (g : graph R) all,
  aut_consistent aut = true -> from_automaton_raw aut L = C17Common.Ok g -> active_layers aut L = C17Common.Ok all ->
  bond_dims g = Some (map (@length Z) all).
Proof. exact from_automaton_bond_dims. Qed.
Print Assumptions C20_from_automaton_bond_dims.

(* Ising, every L >= 1, every J h g in every coefficient ring: the graph exists and has bond dimensions [1,3,...,3,1] *)
Theorem C20_ising_bond_dims_all_L : forall (R : cring) (J h g : R) (L : nat), (1 <= L)%nat ->
  exists gr, ising_graph J h g L = Some gr /\ bond_dims gr = Some (dims_const L 3).
Proof. exact ising_bond_dims_all. Qed.
Print Assumptions C20_ising_bond_dims_all_L.

(* (c) XXZ.  The table  c1 (S+ S- + S- S+) + c2 Sz Sz + c3 Sz  with charge step c between the two flip operators, translated
   over L sites; c1, c2, c3 non-zero (decided by the ring's equality test, as the code's  coeff != 0  filter does).
   Every certified cover oracle, every graph it makes the construction return. *)
Theorem C20_xxz_table_bond_dims_all_L : forall (R : cring) (c : Z) cover (c1 c2 c3 : R) L g,
  keqb R c1 (k0 R) = false -> keqb R c2 (k0 R) = false -> keqb R c3 (k0 R) = false -> (1 <= L)%nat ->
  (forall s0, start_state (local_opchains_to_chains (xlop R c c1 c2 c3) L) L 0 = Some s0 -> calls_certified cover L s0) ->
  from_opchains cover (local_opchains_to_chains (xlop R c c1 c2 c3) L) L 0 = Ok g ->
  bond_dims g = Some (dims_xxz L).
Proof. exact xlop_bond_dims. Qed.
Print Assumptions C20_xxz_table_bond_dims_all_L.

(* the per-site statement behind it: the cover sizes along the sweep, from any state satisfying the invariant
   (one node carries exactly the not yet started terms, every other half-chain is a started or finished term) *)
Theorem C20_xxz_cover_sizes : forall (R : cring) (c : Z) cover n (s s' : st R) started,
  Psi c n started (map fst (s_next s)) -> calls_certified cover n s -> sweep cover n s = Ok s' ->
  cover_sizes cover n s = xxz_sizes n started.
Proof. exact xxz_sweep. Qed.
Print Assumptions C20_xxz_cover_sizes.

(* heisenberg_xxz_mpo, every L >= 1: the model graph (model cover routine) exists and has the closed-form bond dimensions *)
Theorem C20_xxz_bond_dims_all_L : forall (R : cring) (half J D h : R) (L : nat),
  keqb R (kmul R half J) (k0 R) = false -> keqb R D (k0 R) = false -> keqb R (kopp R h) (k0 R) = false -> (1 <= L)%nat ->
  exists g, spec_graph cover_model (xxz_spec half J D h) L = Ok g /\ bond_dims g = Some (dims_xxz L).
Proof. exact xxz_bond_dims_all. Qed.
Print Assumptions C20_xxz_bond_dims_all_L.

(* heisenberg_xxz_spin1_mpo *)
Theorem C20_xxz1_bond_dims_all_L : forall (R : cring) (half sq2 J D h : R) (L : nat),
  keqb R (kmul R half J) (k0 R) = false -> keqb R D (k0 R) = false -> keqb R (kopp R h) (k0 R) = false -> (1 <= L)%nat ->
  exists g, spec_graph cover_model (xxz1_spec half sq2 J D h) L = Ok g /\ bond_dims g = Some (dims_xxz L).
Proof. exact xxz1_bond_dims_all. Qed.
Print Assumptions C20_xxz1_bond_dims_all_L.

(* (d) tables without coincidences.  [glop R Tc Sc] = the local chain list made of the two-site terms Tc (o1, o2, charge;
   coefficient) followed by the one-site terms Sc; [table_okb] (Proofs/CompactAllLNNTop.v) = the side conditions: operator ids
   differ from the identity id 0, the pairs (o1, charge) and the pairs (o2, charge) are pairwise different, no one-site
   operator equals the first or second operator of a charge-0 two-site term, the first two one-site operators differ. *)
Theorem C20_nn_table_bond_dims_all_L : forall (R : cring) (Tc : list (term * R)) (Sc : list (Z * R)),
  table_okb (map fst Tc) (map fst Sc) = true ->
  forallb (fun x => negb (keqb R (snd x) (k0 R))) Tc = true -> forallb (fun x => negb (keqb R (snd x) (k0 R))) Sc = true ->
  forall cover L g, (1 <= L)%nat ->
  (forall s0, start_state (local_opchains_to_chains (glop R Tc Sc) L) L 0 = Some s0 -> calls_certified cover L s0) ->
  from_opchains cover (local_opchains_to_chains (glop R Tc Sc) L) L 0 = Ok g ->
  bond_dims g = Some (dims_const L (length Tc + 2)).
Proof. exact glop_bond_dims. Qed.
Print Assumptions C20_nn_table_bond_dims_all_L.

(* bose_hubbard_mpo, every local dimension d and every L >= 1 *)
Theorem C20_bose_bond_dims_all_L : forall (R : cring) d sq (t U mu : R) (L : nat),
  keqb R (kopp R t) (k0 R) = false -> keqb R U (k0 R) = false -> keqb R (kopp R mu) (k0 R) = false -> (1 <= L)%nat ->
  exists g, spec_graph cover_model (bose_spec d sq t U mu) L = Ok g /\ bond_dims g = Some (dims_const L 4).
Proof. exact bose_bond_dims_all. Qed.
Print Assumptions C20_bose_bond_dims_all_L.

(* fermi_hubbard_mpo, every L >= 1 *)
Theorem C20_fermi_bond_dims_all_L : forall (R : cring) (half t U mu : R) (L : nat),
  keqb R (kopp R t) (k0 R) = false -> keqb R U (k0 R) = false -> keqb R (kopp R mu) (k0 R) = false -> (1 <= L)%nat ->
  exists g, spec_graph cover_model (fermi_spec half t U mu) L = Ok g /\ bond_dims g = Some (dims_const L 6).
Proof. exact fermi_bond_dims_all. Qed.
Print Assumptions C20_fermi_bond_dims_all_L.

(* ---- consistency / non-vacuity: the hypotheses hold at the sample parameters of the bounded computations above, and the
        closed forms agree with the kernel-computed bond dimensions of the model graphs for L = 2 .. 8 ---- *)
Definition Ls28 : list nat := [2; 3; 4; 5; 6; 7; 8]%nat.
Example C20_allL_hypotheses_nonvacuous :
  keqb Qcring (kmul Qcring qhalf (qn 3)) (k0 Qcring) = false /\ keqb Qcring (qn 5) (k0 Qcring) = false /\
  keqb Qcring (kopp Qcring (qn 7)) (k0 Qcring) = false.
Proof. vm_compute. repeat split; reflexivity. Qed.
Example C20_allL_xxz_consistent :
  forallb (fun L => dims_ok (@xxz_spec Qcring qhalf (qn 3) (qn 5) (qn 7)) L (dims_xxz L) &&
                    dims_ok (@xxz1_spec Qcring qhalf (qn 1) (qn 3) (qn 5) (qn 7)) L (dims_xxz L) &&
                    nat_list_eqb (1%nat :: xxz_sizes L false) (dims_xxz L)) Ls28 = true.
Proof. vm_compute. reflexivity. Qed.
(* the cover sizes computed by running the model sweep = the closed form *)
Example C20_allL_cover_sizes_consistent :
  forallb (fun L => match start_state (spec_chains (@xxz_spec Qcring qhalf (qn 3) (qn 5) (qn 7)) L) L 0 with
                    | Some s0 => nat_list_eqb (cover_sizes cover_model L s0) (xxz_sizes L false)
                    | None => false end) Ls28 = true.
Proof. vm_compute. reflexivity. Qed.
Example C20_allL_ising_consistent :
  forallb (fun L => match ising_graph (R := GIring) (2, 0) (-1, 0) (3, 1) L with
                    | Some g => check_graph_dims g (dims_const L 3) | None => false end) Ls28 = true /\
  (* also at J = 0 (not a generic point: the operator Schmidt rank is 2 there) *)
  match ising_graph (R := GIring) (0, 0) (-1, 0) (3, 0) 5 with
  | Some g => check_graph_dims g [1; 3; 3; 3; 3; 1]%nat | None => false end = true.
Proof. split; vm_compute; reflexivity. Qed.
(* the two tables meet the side conditions; the XXZ table does not (Sz Sz has charge 0 and Sz is a one-site term) *)
Example C20_allL_tables :
  table_okb (map fst (bose_Tc Qcring (qn 1))) (map fst (bose_Sc Qcring (qn 3) (qn 5))) = true /\
  table_okb (map fst (fermi_Tc Qcring (qn 1))) (map fst (fermi_Sc Qcring (qn 3) (qn 5))) = true /\
  table_okb [(1, -1, 2); (-1, 1, -2); (2, 2, 0)] [2; 3] = false.
Proof. vm_compute. repeat split; reflexivity. Qed.
Example C20_allL_nn_consistent :
  keqb Qcring (kopp Qcring (qn 3)) (k0 Qcring) = false /\
  forallb (fun L => dims_ok (@bose_spec Qcring 3 (fun _ => qn 1) (qn 3) (qn 5) (qn 7)) L (dims_const L 4) &&
                    dims_ok (@fermi_spec Qcring qhalf (qn 3) (qn 5) (qn 7)) L (dims_const L 6) &&
                    nat_list_eqb (1%nat :: nn_sizes (map fst (fermi_Tc Qcring (qn 3))) L) (dims_const L 6)) Ls28 = true.
Proof. split; vm_compute; reflexivity. Qed.
