(* C06 — Built-in lattice Hamiltonians equal their textbook definitions.
   Only statements, closed by [exact]/[apply]; proofs live in Proofs/Ham*.v.
   Models: Model/Hamiltonians.v (_local_opchains_to_mpo shift loop; chain tables, quantum numbers and operator maps of
   heisenberg_xxz_mpo, heisenberg_xxz_spin1_mpo, bose_hubbard_mpo, fermi_hubbard_mpo; hand-wired graph of linear_fermionic_mpo),
   Model/HamIsing.v (automaton of ising_mpo), Model/HamFormulas.v (the textbook forms, written independently as sums over
   sites of identity-padded local words), on top of C05 (from_opchains, from_opgraph), C17 (from_automaton).
   Numbers that are not ring constants are arguments of the tables: [half] (0.5), [sq2] (sqrt 2), [sq k] (sqrt k).

   FULL STATEMENT AIMED AT: for every L >= 1 and all parameters (operator not identically zero) the MPO returned by each
   constructor has the dense matrix of the documented formula; Hermitian for real parameters; tensors block sparse.
   PROVED BELOW, for all L >= 1 and all parameter values in any commutative ring with conjugation:
     - the shift loop produces exactly the translates that fit, in the code's order (C06_shift_chains_spec / _In), and the chain
       list denotes  sum_lopc coeff . sum_i [word = I^i oids I^(L-len-i)]  (C06_shift_chains_den);
     - whenever from_opchains returns a graph for one of the four chain-built models (any cover oracle), the graph denotes the
       textbook word sum (C06_xxz_den, C06_xxz1_den, C06_bose_den, C06_fermi_den; L = 1, 2 included: longer local terms drop out),
       and the MPO from_opgraph makes of it has matrix elements  sum_word formula(word) . prod_i opmap(word_i)[s_i, t_i]  (C06_spec_mpo,
       under the per-case checked hypotheses of C05_chains_to_mpo: linked graph, last layer = end terminal);
     - linear fermionic: the hand-wired graph denotes sum_i coeff_i I^i (C|A) Z^(L-1-i) for every L (C06_linferm_den);
     - Ising: the graph from_automaton returns denotes J sum Z_i Z_(i+1) + sum (h Z_i + g X_i) for every L (C06_ising_den, with C17);
     - Hermiticity at word level for real parameters, every L (C06_*_hermitian) + opmap(adj o) = opmap(o)^H (finite checks);
     - kernel-checked finite facts over Q[i]: spin-1/2 matrices, su(2), XX+YY = (S+S- + S-S+)/2, Fermi-Hubbard site operators as
       Kronecker products, two-site hopping words = products of Jordan-Wigner strings, number operators, charges of every operator;
     - block sparsity of every MPO from_opgraph returns (C06_qsparse, from C05).
     - SUCCESS, every L >= 1, all parameters: the shifted chain lists are well formed (C06_shift_chains_wf: every local chain has leading
       and trailing charge 0 and fits after shifting) as soon as one local chain that fits has a non-zero coefficient ([some_term],
       C06_some_term_iff); hence with C05 (success, linkage, consistency, length, meaning; proved cover model, no cover hypothesis)
       C06_xxz_total, C06_xxz1_total, C06_bose_total, C06_fermi_total: the constructor's graph exists, is linked, cannot fail
       is_consistent, has length L and denotes the textbook formula -- no "returns Ok" hypothesis;
     - (d), added: THE JORDAN-WIGNER LINK FOR EVERY L (section (d) at the end; Proofs/HamJWDefs.v, HamJW1-6.v).  The second-quantised
       Fermi-Hubbard formula  -t sum_{i,s} (a+_{i,s} a_{i+1,s} + h.c.) + U sum_i (n_up - 1/2)(n_dn - 1/2) - mu sum_i (n_up + n_dn)  is written
       literally with Jordan-Wigner mode operators a_k = I^k A Z^(2L-1-k) on 2L modes (products = sitewise products with the signs of the
       2x2 table [omul] of C07); for every L the textbook word sum of the constructor's graph, with every site letter replaced by its
       expansion into pairs of mode letters, equals it on every mode word (C06_fermi_hubbard_jw_all_L, C06_fermi_hubbard_graph_jw; padding
       lemma C06_jw_padding, normal forms C06_jw_hopping_words / C06_jw_number_words for every L); the letter table is exact entry by entry
       over any ring with half + half = 1 (C06_fermi_letter_entries), substitution preserves matrix elements for any number of sites
       (C06_fermi_expand_sem), hence every matrix element of the MPO equals that of the second-quantised formula between occupation-number
       states (C06_fermi_hubbard_dense_jw, hypotheses of C06_spec_mpo); linear fermionic: graph = sum_i coeff_i JW(a+_i | a_i) with the same
       words (C06_linferm_jw); bosons: b+ b = n, [b, b+] = 1 below the top level, 2 (n(n-1)/2) = n(n-1) from sq k * sq k = k alone
       (C06_bose_opmap_relations).
   NOT PROVED (validated on every generated case by the correspondence check: identical graphs evaluated
   in Coq): [superseded by (d): the Jordan-Wigner padding lemma for general L is now proved]; that word products compose as matrix
   products is used through the checked 2x2 table [omul] (mixed-product property of the Kronecker product not restated); entries
   sqrt 2 / sqrt k of the spin-1 / boson maps are abstract elements (positions and adjoints checked with the roots replaced by 1; for
   spin 1 the adjoint identity is proved for any self-conjugate sq2; for bosons the algebraic relations are proved from sq k * sq k = k). *)
From Coq Require Import ZArith QArith Qcanon List Bool Lia Permutation.
From PT Require Import Base.Scalar Base.BigSum Base.Mx Model.OpGraph Model.C17Common Model.AutOp Model.HamIsing Proofs.HamIsingDen.
From PT Require Import Model.Tensor Model.FromOpchains Model.GraphMPO Model.Hamiltonians Model.HamFormulas
                       Proofs.DenRev_C05 Proofs.PampDen_C05 Proofs.GraphMPOSem Proofs.C05Final
                       Proofs.HamShift Proofs.HamFinite Proofs.HamHerm Proofs.HamLinFerm Proofs.HamTotal.
From PT Require Import Model.Molecular Model.MolFormula Proofs.HamJWDefs Proofs.HamJW1 Proofs.HamJW2 Proofs.HamJW3 Proofs.HamJW4 Proofs.HamJW5
                       Proofs.HamJW6.
Import ListNotations.
Open Scope Z_scope.
Notation OkG := FromOpchains.Ok.

(* ---------------- (a) the shift loop ---------------- *)
Theorem C06_shift_chains_spec : forall (R : cring) (lop : list (chain R)) L,
  local_opchains_to_chains lop L =
  flat_map (fun l => map (shift_chain l) (filter (fun i => Nat.leb (i + length (c_oids l)) L) (seq 0 (S L)))) lop.
Proof. exact shift_chains_spec. Qed.
Print Assumptions C06_shift_chains_spec.
Theorem C06_shift_chains_In : forall (R : cring) (lop : list (chain R)) L c,
  In c (local_opchains_to_chains lop L) <-> exists l i, In l lop /\ (i + length (c_oids l) <= L)%nat /\ c = shift_chain l i.
Proof. exact shift_chains_In. Qed.
Print Assumptions C06_shift_chains_In.
Theorem C06_shift_chains_den : forall (R : cring) (lop : list (chain R)) L idn w,
  chains_den L idn (local_opchains_to_chains lop L) w = local_sum L idn lop w.
Proof. exact shift_chains_den. Qed.
Print Assumptions C06_shift_chains_den.

(* ---------------- the four chain-built models: graph = textbook word sum, every L >= 1, all parameters ---------------- *)
Theorem C06_xxz_den : forall (R : cring) cover (half J D h : R) L g, (1 <= L)%nat ->
  spec_graph cover (xxz_spec half J D h) L = OkG g ->
  forall w, den_rev g w = xxz_formula half J D h L w /\ (linked g = true -> den g w = xxz_formula half J D h L w).
Proof. exact xxz_den. Qed.
Print Assumptions C06_xxz_den.
Theorem C06_xxz1_den : forall (R : cring) cover (half sq2 J D h : R) L g, (1 <= L)%nat ->
  spec_graph cover (xxz1_spec half sq2 J D h) L = OkG g ->
  forall w, den_rev g w = xxz_formula half J D h L w /\ (linked g = true -> den g w = xxz_formula half J D h L w).
Proof. exact xxz1_den. Qed.
Print Assumptions C06_xxz1_den.
Theorem C06_bose_den : forall (R : cring) cover d sq (t U mu : R) L g, (1 <= L)%nat ->
  spec_graph cover (bose_spec d sq t U mu) L = OkG g ->
  forall w, den_rev g w = bose_formula t U mu L w /\ (linked g = true -> den g w = bose_formula t U mu L w).
Proof. exact bose_den. Qed.
Print Assumptions C06_bose_den.
Theorem C06_fermi_den : forall (R : cring) cover (half t U mu : R) L g, (1 <= L)%nat ->
  spec_graph cover (fermi_spec half t U mu) L = OkG g ->
  forall w, den_rev g w = fermi_formula t U mu L w /\ (linked g = true -> den g w = fermi_formula t U mu L w).
Proof. exact fermi_den. Qed.
Print Assumptions C06_fermi_den.
(* ---------------- the constructors succeed: no "returns Ok" hypothesis (with C05's success/consistency theorems and the proved
   cover model).  [some_term lop L]: some local chain that fits into L sites has a non-zero coefficient, i.e. not all resulting
   chain coefficients vanish (C06_some_term_iff); otherwise the constructor raises (chain list empty after filtering). ---------------- *)
Theorem C06_shift_chains_wf : forall (R : cring) (lop : list (chain R)) L,
  forallb (local_ok R) lop = true -> existsb (@nonzero R) (local_opchains_to_chains lop L) = true ->
  wf_chains L (local_opchains_to_chains lop L) = true.
Proof. exact shift_chains_wf. Qed.
Print Assumptions C06_shift_chains_wf.
Theorem C06_some_term_iff : forall (R : cring) (lop : list (chain R)) L,
  some_term R lop L = true <-> existsb (@nonzero R) (local_opchains_to_chains lop L) = true.
Proof. intros R lop L. split; [apply some_term_nonzero|apply nonzero_some_term]. Qed.
Print Assumptions C06_some_term_iff.
Theorem C06_spec_total : forall (R : cring) (sp : hamspec R) L, (1 <= L)%nat ->
  forallb (local_ok R) (h_lop sp) = true -> some_term R (h_lop sp) L = true ->
  exists g, spec_graph cover_model sp L = OkG g /\ linked g = true /\
    (forall fuel b, is_consistent_fuel fuel g = Some b -> b = true) /\ glength g = Some L /\
    forall w, den g w = local_sum L (h_idn sp) (h_lop sp) w.
Proof. exact spec_graph_total. Qed.
Print Assumptions C06_spec_total.
Theorem C06_xxz_total : forall (R : cring) (half J D h : R) L, (1 <= L)%nat -> some_term R (xxz_lop half J D h) L = true ->
  exists g, spec_graph cover_model (xxz_spec half J D h) L = OkG g /\ linked g = true /\
    (forall fuel b, is_consistent_fuel fuel g = Some b -> b = true) /\ glength g = Some L /\
    forall w, den g w = xxz_formula half J D h L w.
Proof. exact xxz_total. Qed.
Print Assumptions C06_xxz_total.
Theorem C06_xxz1_total : forall (R : cring) (half sq2 J D h : R) L, (1 <= L)%nat -> some_term R (xxz1_lop half J D h) L = true ->
  exists g, spec_graph cover_model (xxz1_spec half sq2 J D h) L = OkG g /\ linked g = true /\
    (forall fuel b, is_consistent_fuel fuel g = Some b -> b = true) /\ glength g = Some L /\
    forall w, den g w = xxz_formula half J D h L w.
Proof. exact xxz1_total. Qed.
Print Assumptions C06_xxz1_total.
Theorem C06_bose_total : forall (R : cring) d sq (t U mu : R) L, (1 <= L)%nat -> some_term R (bose_lop t U mu) L = true ->
  exists g, spec_graph cover_model (bose_spec d sq t U mu) L = OkG g /\ linked g = true /\
    (forall fuel b, is_consistent_fuel fuel g = Some b -> b = true) /\ glength g = Some L /\
    forall w, den g w = bose_formula t U mu L w.
Proof. exact bose_total. Qed.
Print Assumptions C06_bose_total.
Theorem C06_fermi_total : forall (R : cring) (half t U mu : R) L, (1 <= L)%nat -> some_term R (fermi_lop t U mu) L = true ->
  exists g, spec_graph cover_model (fermi_spec half t U mu) L = OkG g /\ linked g = true /\
    (forall fuel b, is_consistent_fuel fuel g = Some b -> b = true) /\ glength g = Some L /\
    forall w, den g w = fermi_formula t U mu L w.
Proof. exact fermi_total. Qed.
Print Assumptions C06_fermi_total.
(* the tables in textbook form (used to instantiate C06_spec_mpo per model) *)
Theorem C06_tables : forall (R : cring) (half J D h t U mu : R) L w, (1 <= L)%nat ->
  local_sum L 0 (xxz_lop half J D h) w = xxz_formula half J D h L w /\
  local_sum L 0 (xxz1_lop half J D h) w = xxz_formula half J D h L w /\
  local_sum L 0 (bose_lop t U mu) w = bose_formula t U mu L w /\
  local_sum L 0 (fermi_lop t U mu) w = fermi_formula t U mu L w.
Proof.
  intros R half J D h t U mu L w HL. repeat split;
    [apply xxz_table|apply xxz1_table|apply bose_table|apply fermi_table]; exact HL.
Qed.
Print Assumptions C06_tables.

(* chains -> graph -> MPO: matrix elements of the MPO any constructor of this family returns *)
Theorem C06_spec_mpo : forall (R : cring) cover (sp : hamspec R) L g o m ls, (1 <= L)%nat ->
  spec_graph cover sp L = OkG g -> linked g = true ->
  from_opgraph (h_qd sp) g (opmap_of (h_opmap sp)) = OkG (o, m) ->
  graph_layers g = OkG ls -> last ls [] = [g_t1 g] ->
  forall w w', length w = length (o_A o) -> length w' = length (o_A o) ->
  Forall (fun s => (s < length (h_qd sp))%nat) w -> Forall (fun s => (s < length (h_qd sp))%nat) w' ->
  opamp (o_A o) w w' =
  suml (zwords (alphabet g) (length w))
       (fun word => kmul R (local_sum L (h_idn sp) (h_lop sp) word) (wprod (opmap_of (h_opmap sp)) word w w')).
Proof.
  intros R cover sp L g o m ls HL Hg Hl Hm Hls Hlast w w' Hw Hw' Fw Fw'.
  rewrite (chains_to_mpo R cover _ L _ g _ _ o m ls HL Hg Hl Hm Hls Hlast w w' Hw Hw' Fw Fw').
  apply suml_ext. intros word _. f_equal. apply shift_chains_den.
Qed.
Print Assumptions C06_spec_mpo.
(* every MPO from_opgraph returns is block sparse under the quantum numbers it carries (from C05) *)
Theorem C06_qsparse : forall (R : cring) qd (g : graph R) opmap o m,
  from_opgraph qd g opmap = OkG (o, m) -> ochain_qsparse qd (o_qD o) (o_A o) = true.
Proof.
  intros R qd g opmap o m H. destruct (from_opgraph_struct R qd g opmap o m H) as [ls [_ [_ [_ [_ [_ [_ [_ Hs]]]]]]]]. exact Hs.
Qed.
Print Assumptions C06_qsparse.

(* ---------------- (c) linear fermionic operators, every L ---------------- *)
Theorem C06_linferm_den : forall (R : cring) (coeff : list R) (create : bool), (1 <= length coeff)%nat ->
  forall w, den (linferm_graph coeff create) w = linferm_formula coeff (lf_oid create) w.
Proof. exact linferm_den. Qed.
Print Assumptions C06_linferm_den.

(* ---------------- Ising (automaton), every L ---------------- *)
Theorem C06_ising_den : forall (R : cring) (J h g : R) L gr, ising_graph J h g L = Some gr ->
  forall w, den gr w = if Nat.eqb (length w) L then ising_formula J h g L w else k0 R.
Proof. exact ising_den. Qed.
Print Assumptions C06_ising_den.

(* ---------------- Hermiticity: coefficient of the adjoint word = conjugate coefficient, real parameters, every L ---------------- *)
Theorem C06_xxz_hermitian : forall (R : cring) (half J D h : R) L w, (1 <= L)%nat ->
  kconj R half = half -> kconj R J = J -> kconj R D = D -> kconj R h = h ->
  xxz_formula half J D h L (map adjo_pm w) = kconj R (xxz_formula half J D h L w).
Proof. exact xxz_hermitian. Qed.
Print Assumptions C06_xxz_hermitian.
Theorem C06_bose_hermitian : forall (R : cring) (t U mu : R) L w, (1 <= L)%nat ->
  kconj R t = t -> kconj R U = U -> kconj R mu = mu ->
  bose_formula t U mu L (map adjo_pm w) = kconj R (bose_formula t U mu L w).
Proof. exact bose_hermitian. Qed.
Print Assumptions C06_bose_hermitian.
Theorem C06_fermi_hermitian : forall (R : cring) (t U mu : R) L w, (1 <= L)%nat ->
  kconj R t = t -> kconj R U = U -> kconj R mu = mu ->
  fermi_formula t U mu L (map adjo_fermi w) = kconj R (fermi_formula t U mu L w).
Proof. exact fermi_hermitian. Qed.
Print Assumptions C06_fermi_hermitian.
(* general form: any table that the chain adjoint (ids mapped, charges negated, coefficient conjugated) permutes *)
Theorem C06_local_sum_adj : forall (R : cring) (adjo : Z -> Z), (forall o, adjo (adjo o) = o) ->
  forall L idn (lop : list (chain R)) w, adjo idn = idn -> Permutation (map (chain_adj adjo) lop) lop ->
  local_sum L idn lop (map adjo w) = kconj R (local_sum L idn lop w).
Proof. exact local_sum_adj. Qed.
Print Assumptions C06_local_sum_adj.
Theorem C06_tables_adjoint : forall (R : cring) (half J D h t U mu : R),
  kconj R half = half -> kconj R J = J -> kconj R D = D -> kconj R h = h -> kconj R t = t -> kconj R U = U -> kconj R mu = mu ->
  Permutation (map (chain_adj adjo_pm) (xxz_lop half J D h)) (xxz_lop half J D h) /\
  Permutation (map (chain_adj adjo_pm) (xxz1_lop half J D h)) (xxz1_lop half J D h) /\
  Permutation (map (chain_adj adjo_pm) (bose_lop t U mu)) (bose_lop t U mu) /\
  Permutation (map (chain_adj adjo_fermi) (fermi_lop t U mu)) (fermi_lop t U mu).
Proof.
  intros. repeat split; [apply xxz_table_adj|apply xxz1_table_adj|apply bose_table_adj|apply fermi_table_adj]; assumption.
Qed.
Print Assumptions C06_tables_adjoint.
Theorem C06_xxz1_opmap_adjoint : forall (R : cring) (sq2 : R), kconj R sq2 = sq2 ->
  forall o, In o [-1; 0; 1; 2] -> adjmx (opmap_of (xxz1_opmap sq2) o) = opmap_of (xxz1_opmap sq2) (adjo_pm o).
Proof. exact xxz1_opmap_adjoint_gen. Qed.
Print Assumptions C06_xxz1_opmap_adjoint.

(* ---------------- (b) kernel-checked finite facts over Q[i] (vm_compute) ---------------- *)
Theorem C06_spin_half_facts :
  (* S+, S-, Sz, identity are the stated matrices; Sx = (S+ + S-)/2, Sy = (S+ - S-)/(2i) are half the Pauli matrices *)
  mxeqb (s_om 1) (m22q q0_ q1_ q0_ q0_) && mxeqb (s_om (-1)) (m22q q0_ q0_ q1_ q0_) &&
  mxeqb Sz (m22q qh q0_ q0_ (kopp QIring qh)) && mxeqb (s_om 0) (idmx 2) &&
  mxeqb Sx (m22q q0_ qh qh q0_) && mxeqb Sy (m22q q0_ qmi2 (kopp QIring qmi2) q0_) = true /\
  (* Sx (x) Sx + Sy (x) Sy = (1/2)(S+ (x) S- + S- (x) S+) as a 4x4 identity *)
  mxeqb (addmx (kronmx Sx Sx) (kronmx Sy Sy))
        (scalemx (R := QIring) qh (addmx (kronmx (s_om 1) (s_om (-1))) (kronmx (s_om (-1)) (s_om 1)))) = true /\
  (* opmap(adj o) = opmap(o)^H; every operator carries the charge its chains assign *)
  opmap_adj_okb (xxz_opmap (R := QIring) qh) adjo_pm = true /\ spec_charges_okb (xxz_spec (R := QIring) qh q1_ q1_ q1_) = true.
Proof. exact (conj spin_half_matrices (conj xx_plus_yy (conj xxz_opmap_adjoint xxz_charges))). Qed.
Print Assumptions C06_spin_half_facts.
Theorem C06_fermi_facts :
  (* two-site words of the table = products of Jordan-Wigner strings (modes up0, dn0, up1, dn1; I..I a Z..Z) *)
  mxeqb (mulmx (adjmx a_up0) a_up1) (kronmx (f_om 3) (f_om 2)) && mxeqb (mulmx (adjmx a_up1) a_up0) (kronmx (f_om 4) (f_om 1)) &&
  mxeqb (mulmx (adjmx a_dn0) a_dn1) (kronmx (f_om 5) (f_om 8)) && mxeqb (mulmx (adjmx a_dn1) a_dn0) (kronmx (f_om 6) (f_om 7)) = true /\
  (* n_up + n_dn and (n_up - 1/2)(n_dn - 1/2) from the site modes a (x) Z, I (x) a *)
  (let nup := mulmx (adjmx s_up) s_up in let ndn := mulmx (adjmx s_dn) s_dn in
   mxeqb (f_om 9) (addmx nup ndn) &&
   mxeqb (f_om 10) (mulmx (submx nup (scalemx (R := QIring) qh (idmx 4))) (submx ndn (scalemx (R := QIring) qh (idmx 4)))) = true) /\
  opmap_adj_okb (fermi_opmap (R := QIring) qh) adjo_fermi = true /\ spec_charges_okb (fermi_spec (R := QIring) qh q1_ q1_ q1_) = true.
Proof. exact (conj fermi_hopping_jw (conj fermi_number_ops (conj fermi_opmap_adjoint fermi_charges))). Qed.
Print Assumptions C06_fermi_facts.
Theorem C06_fermi_site_ops :
  let ad := adjmx fa in
  mxeqb (f_om 0) (idmx 4) &&
  mxeqb (f_om 1) (kronmx ad fI) && mxeqb (f_om 2) (kronmx fa fI) && mxeqb (f_om 3) (kronmx ad fZ) && mxeqb (f_om 4) (kronmx fa fZ) &&
  mxeqb (f_om 5) (kronmx fI ad) && mxeqb (f_om 6) (kronmx fI fa) && mxeqb (f_om 7) (kronmx fZ ad) && mxeqb (f_om 8) (kronmx fZ fa) = true.
Proof. exact fermi_site_ops. Qed.
Print Assumptions C06_fermi_site_ops.
Theorem C06_positions_spin1_bose_linferm :
  spec_charges_okb (xxz1_spec (R := QIring) qh q1_ q1_ q1_ q1_) = true /\
  forallb (fun d => spec_charges_okb (bose_spec (R := QIring) d (fun _ => q1_) q1_ q1_ q1_)) [1; 2; 3; 4; 5; 6]%nat = true /\
  forallb (fun d => opmap_adj_okb (bose_opmap (R := QIring) d (fun _ => q1_)) adjo_pm) [1; 2; 3; 4; 5; 6]%nat = true /\
  opmap_adj_okb (linferm_opmap (R := QIring)) adjo_pm = true.
Proof. exact (conj xxz1_charges_positions (conj bose_charges_positions (conj bose_adjoint_positions linferm_opmap_adjoint))). Qed.
Print Assumptions C06_positions_spin1_bose_linferm.

(* ---------------- non-vacuity: concrete parameters meet every hypothesis (vm_compute) ---------------- *)
Definition zq (n : Z) : Qc := Q2Qc (inject_Z n).
Definition hq : Qc := Q2Qc (1 # 2).
Example C06_nonvacuous_xxz :
  (* J = 3, D = 5, h = 7 on L = 3: coefficient of S+ S- I is J/2, of I Sz Sz is D, of I Sz I is -h; L = 1: only -h Sz; L = 2 *)
  match spec_graph cover_model (@xxz_spec Qcring hq (zq 3) (zq 5) (zq 7)) 3,
        spec_graph cover_model (@xxz_spec Qcring hq (zq 3) (zq 5) (zq 7)) 1,
        spec_graph cover_model (@xxz_spec Qcring hq (zq 3) (zq 5) (zq 7)) 2 with
  | OkG g3, OkG g1, OkG g2 =>
      linked g3 = true /\ den g3 [1; -1; 0] = Q2Qc (3 # 2) /\ den g3 [0; 2; 2] = zq 5 /\ den g3 [0; 2; 0] = zq (-7) /\ den g3 [1; 1; 0] = zq 0 /\
      linked g1 = true /\ den g1 [2] = zq (-7) /\ den g1 [1] = zq 0 /\
      linked g2 = true /\ den g2 [-1; 1] = Q2Qc (3 # 2) /\ den g2 [2; 0] = zq (-7)
  | _, _, _ => False
  end.
Proof. vm_compute. repeat split; reflexivity. Qed.
(* the hypothesis [some_term] of the _total theorems: met by generic parameters; with J = D = 0 only by the field term (any L);
   not met by the zero operator (where the constructor raises) *)
Example C06_nonvacuous_some_term :
  some_term Qcring (@xxz_lop Qcring hq (zq 3) (zq 5) (zq 7)) 1 = true /\ some_term Qcring (@xxz_lop Qcring hq (zq 0) (zq 0) (zq 7)) 4 = true /\
  some_term Qcring (@xxz_lop Qcring hq (zq 3) (zq 5) (zq 0)) 1 = false /\ some_term Qcring (@xxz_lop Qcring hq (zq 0) (zq 0) (zq 0)) 4 = false /\
  some_term Qcring (@fermi_lop Qcring (zq 2) (zq 0) (zq 0)) 2 = true /\ some_term Qcring (@bose_lop Qcring (zq 0) (zq 3) (zq 0)) 1 = true /\
  some_term Qcring (@xxz1_lop Qcring hq (zq 0) (zq 5) (zq 0)) 2 = true.
Proof. vm_compute. repeat split; reflexivity. Qed.
Example C06_nonvacuous_fermi_bose :
  match spec_graph cover_model (@fermi_spec Qcring hq (zq 2) (zq 3) (zq 5)) 3,
        spec_graph cover_model (@bose_spec Qcring 3 (fun _ => zq 1) (zq 2) (zq 3) (zq 5)) 2 with
  | OkG gf, OkG gb =>
      linked gf = true /\ den gf [3; 2; 0] = zq (-2) /\ den gf [0; 6; 7] = zq (-2) /\ den gf [0; 9; 0] = zq (-5) /\ den gf [10; 0; 0] = zq 3 /\
      linked gb = true /\ den gb [1; -1] = zq (-2) /\ den gb [0; 3] = zq 3 /\ den gb [2; 0] = zq (-5)
  | _, _ => False
  end.
Proof. vm_compute. repeat split; reflexivity. Qed.
Example C06_nonvacuous_mpo :
  (* hypotheses of C06_spec_mpo and the resulting matrix element <up,dn| H |dn,up> = J/2 for XXZ, L = 2 *)
  match spec_graph cover_model (@xxz_spec Qcring hq (zq 3) (zq 5) (zq 7)) 2 with
  | OkG g => linked g = true /\
      match from_opgraph [1; -1] g (opmap_of (@xxz_opmap Qcring hq)), graph_layers g with
      | OkG (o, m), OkG ls => last ls [] = [g_t1 g] /\ length (o_A o) = 2%nat /\ opamp (o_A o) [0%nat; 1%nat] [1%nat; 0%nat] = Q2Qc (3 # 2)
      | _, _ => False
      end
  | _ => False
  end.
Proof. vm_compute. repeat split; reflexivity. Qed.
Example C06_nonvacuous_ising_linferm :
  match ising_graph (R := Qcring) (zq 3) (zq 5) (zq 7) 3 with
  | Some g => den g [1; 1; 0] = zq 3 /\ den g [0; 1; 0] = zq 5 /\ den g [0; 0; 2] = zq 7 /\ den g [1; 0; 1] = zq 0
  | None => False
  end /\
  den (linferm_graph (R := Qcring) [zq 2; zq 0; zq 5] true) [0; 0; 1] = zq 5 /\
  den (linferm_graph (R := Qcring) [zq 2; zq 0; zq 5] true) [1; 2; 2] = zq 2 /\
  den (linferm_graph (R := Qcring) [zq 2; zq 0; zq 5] false) [0; -1; 2] = zq 0.
Proof. vm_compute. repeat split; reflexivity. Qed.
(* BOUNDED kernel computation (L = 1 .. 8, sample parameters): the Ising model graph has bond dimensions [1,3,...,3,1] *)
Example C06_ising_dims_bounded :
  forallb (fun L => match ising_graph (R := Qcring) (zq 3) (zq 5) (zq 7) L with
                    | Some g => match bond_dims g with Some ws => nat_list_eqb ws ([1%nat] ++ repeat 3%nat (L - 1) ++ [1%nat]) | None => false end
                    | None => false end) [1; 2; 3; 4; 5; 6; 7; 8]%nat = true.
Proof. vm_compute. reflexivity. Qed.

(* ================================================================================================================
   (d) THE JORDAN-WIGNER LINK FOR EVERY L  (Proofs/HamJWDefs.v, HamJW1.v .. HamJW6.v)
   The formula side is written literally in second quantisation (Proofs/HamJWDefs.v): formal sums [pol] of words of
   single-mode letters (I, C = a+, A = a, N, Z, M of Model/MolFormula.v), product [pmul] = bilinear extension of the sitewise
   word product [wmul] with the signs of the 2x2 multiplication table [omul] (C07_omul_table; re-checked below against the
   matrices used here), a_k = I^k A Z^(n-1-k), a+_k = I^k C Z^(n-1-k) (Z string to the right, as harness/hamref.py [modes]),
   2 L modes ordered (0 up, 0 dn, 1 up, 1 dn, ...), mode of (site i, spin s) = md i s = 2 i + s:
     fh_jw half t U mu L = -t sum_{i<L-1} sum_s (a+_{i,s} a_{i+1,s} + a+_{i+1,s} a_{i,s})
                           + U sum_i (n_{i,up} - half)(n_{i,dn} - half) - mu sum_i (n_{i,up} + n_{i,dn}),   n_k = a+_k a_k.
   Site letters (OID 0..10 of fermi_hubbard_mpo) <-> pairs (up letter, down letter): table [fh_etab]; only Nt = (N,I) + (I,N)
   and NI = (N,N) - half (N,I) - half (I,N) + half^2 (I,I) are composite.  [fh_expand half f] substitutes, multilinearly,
   every site letter of a coefficient function f on site words by its expansion and returns a coefficient function on mode words.
   ================================================================================================================ *)
(* the padding lemma, every length of the identity prefix and of the Z string: the product is decided inside the window *)
Theorem C06_jw_padding : forall a b l1 l2, length l1 = length l2 ->
  wmul (repeat OI a ++ l1 ++ repeat OZ b) (repeat OI a ++ l2 ++ repeat OZ b) =
  match wmul l1 l2 with Some (s, u) => Some (s, repeat OI a ++ u ++ repeat OI b) | None => None end.
Proof. exact wmul_IZ. Qed.
Print Assumptions C06_jw_padding.
(* normal forms for EVERY L: the hopping products a+_{i,s} a_{i+1,s}, a+_{i+1,s} a_{i,s} are, with sign +, the words
   I..I (C,Z)(A,I) I..I = CZ AI,  (A,Z)(C,I) = AZ CI,  (I,C)(Z,A) = IC ZA,  (I,A)(Z,C) = IA ZC  at sites i, i+1;
   n_{i,up} = (N,I), n_{i,dn} = (I,N) at site i *)
Theorem C06_jw_hopping_words : forall L i, (S i < L)%nat ->
  wmul (cre (2 * L) (md i 0)) (ann (2 * L) (md (S i) 0)) = Some (false, mw (2 * i) [OC; OZ; OA; OI] (2 * (L - 2 - i))) /\
  wmul (cre (2 * L) (md (S i) 0)) (ann (2 * L) (md i 0)) = Some (false, mw (2 * i) [OA; OZ; OC; OI] (2 * (L - 2 - i))) /\
  wmul (cre (2 * L) (md i 1)) (ann (2 * L) (md (S i) 1)) = Some (false, mw (2 * i) [OI; OC; OZ; OA] (2 * (L - 2 - i))) /\
  wmul (cre (2 * L) (md (S i) 1)) (ann (2 * L) (md i 1)) = Some (false, mw (2 * i) [OI; OA; OZ; OC] (2 * (L - 2 - i))).
Proof. intros L i H. exact (conj (hop_up_nf L i H) (conj (hop_up_rev_nf L i H) (conj (hop_dn_nf L i H) (hop_dn_rev_nf L i H)))). Qed.
Print Assumptions C06_jw_hopping_words.
Theorem C06_jw_number_words : forall L i, (i < L)%nat ->
  wmul (cre (2 * L) (md i 0)) (ann (2 * L) (md i 0)) = Some (false, mw (2 * i) [ON; OI] (2 * (L - 1 - i))) /\
  wmul (cre (2 * L) (md i 1)) (ann (2 * L) (md i 1)) = Some (false, mw (2 * i) [OI; ON] (2 * (L - 1 - i))).
Proof. intros L i H. exact (conj (num_up_nf L i H) (num_dn_nf L i H)). Qed.
Print Assumptions C06_jw_number_words.

(* THE LINK, every L (also L = 0, 1), every ring, every value of [half], t, U, mu, every mode word v (any length):
   the textbook word sum of the constructor's graph, read through the letter table, is the second-quantised formula *)
Theorem C06_fermi_hubbard_jw_all_L : forall (R : cring) (half t U mu : R) L v,
  fh_expand half (fermi_formula t U mu L) v = pcoef (fh_jw half t U mu L) v.
Proof. exact fermi_jw_all_L. Qed.
Print Assumptions C06_fermi_hubbard_jw_all_L.
(* ... hence for the graph the constructor builds (which exists, C06_fermi_total) *)
Theorem C06_fermi_hubbard_graph_jw : forall (R : cring) (half t U mu : R) L, (1 <= L)%nat -> some_term R (fermi_lop t U mu) L = true ->
  exists g, spec_graph cover_model (fermi_spec half t U mu) L = OkG g /\ linked g = true /\
    (forall fuel b, is_consistent_fuel fuel g = Some b -> b = true) /\ glength g = Some L /\
    forall v, fh_expand half (den g) v = pcoef (fh_jw half t U mu L) v.
Proof. exact fermi_graph_jw. Qed.
Print Assumptions C06_fermi_hubbard_graph_jw.

(* the letter table is exact: every entry of every 4x4 site operator of the operator map is the combination of products of
   entries of the 2x2 mode matrices (any ring with half + half = 1; site state s = |n_up n_dn>, n_up = s / 2) *)
Theorem C06_fermi_letter_entries : forall (R : cring) (half : R), kadd R half half = k1 R ->
  forall o s t, In o fh_alpha -> (s < 4)%nat -> (t < 4)%nat ->
  get (opmap_of (fermi_opmap half) o) s t =
  suml all_ops (fun x => suml all_ops (fun y =>
    kmul R (fh_e half o x y) (kmul R (get (opR x) (Nat.div s 2) (Nat.div t 2)) (get (opR y) (Nat.modulo s 2) (Nat.modulo t 2))))).
Proof. exact fh_entry. Qed.
Print Assumptions C06_fermi_letter_entries.
(* the same as 4x4 matrix identities over Q[i] (half = 1/2), [omul] against the matrices [opR], [opR] = the matrices of C07 *)
Theorem C06_fermi_letter_table :
  fh_table_okb (R := QIring) qh = true /\
  forallb (fun a => forallb (fun b => mxeqb (mulmx (opR a) (opR b)) (sopR (omul a b))) all_ops) all_ops = true /\
  forallb (fun a => mxeqb (opR (R := Zring) a) (op_mx a)) all_ops = true.
Proof. exact (conj fh_table_checked (conj omul_opR_table opR_op_mx)). Qed.
Print Assumptions C06_fermi_letter_table.
(* substituting letters preserves the operator, for ANY coefficient function f on site words and any number of sites:
   sum_{site words} f(word) <s|word|t> = sum_{mode words} (fh_expand f)(v) <bits s|v|bits t> *)
Theorem C06_fermi_expand_sem : forall (R : cring) (half : R), kadd R half half = k1 R ->
  forall (s t : list nat) (f : list Z -> R), length s = length t ->
  Forall (fun x => (x < 4)%nat) s -> Forall (fun x => (x < 4)%nat) t ->
  suml (zwords fh_alpha (length s)) (fun word => kmul R (f word) (wprod (opmap_of (fermi_opmap half)) word s t)) =
  suml (opwords (2 * length s)) (fun v => kmul R (fh_expand half f v) (mprod v (bits s) (bits t))).
Proof. exact fh_expand_sem. Qed.
Print Assumptions C06_fermi_expand_sem.
(* DENSE MATRIX, every L >= 1: every matrix element of the MPO from_opgraph makes of the constructor's graph (hypotheses of
   C06_spec_mpo) is the matrix element of the second-quantised Jordan-Wigner formula between the occupation-number states *)
Theorem C06_fermi_hubbard_dense_jw : forall (R : cring) cover (half t U mu : R) L g o m ls,
  kadd R half half = k1 R -> (1 <= L)%nat ->
  spec_graph cover (fermi_spec half t U mu) L = OkG g -> linked g = true ->
  from_opgraph (fermi_qd) g (opmap_of (fermi_opmap half)) = OkG (o, m) ->
  graph_layers g = OkG ls -> last ls [] = [g_t1 g] ->
  forall w w', length w = length (o_A o) -> length w' = length (o_A o) ->
  Forall (fun s => (s < 4)%nat) w -> Forall (fun s => (s < 4)%nat) w' ->
  opamp (o_A o) w w' =
  suml (opwords (2 * length w)) (fun v => kmul R (pcoef (fh_jw half t U mu L) v) (mprod v (bits w) (bits w'))).
Proof. exact fermi_dense_jw. Qed.
Print Assumptions C06_fermi_hubbard_dense_jw.

(* linear fermionic operators, every L: the graph denotes sum_i coeff_i . JW(a+_i | a_i) with the same Jordan-Wigner words
   [jw n k o] = I^k o Z^(n-1-k), letters read through the ids of linear_fermionic_mpo (A = -1, I = 0, C = 1, Z = 2) *)
Theorem C06_linferm_jw : forall (R : cring) (coeff : list R) (create : bool), (1 <= length coeff)%nat ->
  forall w, den (linferm_graph coeff create) w = pcoef_ids lf_id (lf_jw coeff create) w.
Proof. exact linferm_jw. Qed.
Print Assumptions C06_linferm_jw.

(* Bose-Hubbard operator map over ANY commutative ring: the only property of np.sqrt used is sq k * sq k = k (1 <= k < d);
   then b+ b = n, [b, b+] = 1 below the top level and -(d-1) on it (truncation), and 2 (n(n-1)/2) = n (n - 1) *)
Theorem C06_bose_opmap_relations : forall (R : cring) (d : nat) (sq : nat -> R),
  (forall k, (1 <= k < d)%nat -> kmul R (sq k) (sq k) = rnat k) ->
  mulmx (bo_bd R d sq) (bo_b R d sq) = bo_n R d sq /\
  submx (mulmx (bo_b R d sq) (bo_bd R d sq)) (mulmx (bo_bd R d sq) (bo_b R d sq)) =
    tab d d (fun i j => if Nat.eqb i j then (if Nat.ltb (S i) d then k1 R else kopp R (rnat i)) else k0 R) /\
  addmx (bo_ni R d sq) (bo_ni R d sq) = mulmx (bo_n R d sq) (submx (bo_n R d sq) (idmx d)).
Proof. exact bose_opmap_relations. Qed.
Print Assumptions C06_bose_opmap_relations.

(* ---------------- non-vacuity of (d) (vm_compute; both sides evaluated independently) ---------------- *)
(* L = 2, ALL 1296 mode words, and selected words at L = 3, 4 (integers, half := 3: the word identity holds for every value) *)
Example C06_nonvacuous_jw :
  forallb (fun v => Z.eqb (fh_expand (R := Zring) 3 (fermi_formula (R := Zring) 2 5 7 2) v) (pcoef (fh_jw (R := Zring) 3 2 5 7 2) v)) (opwords 4) = true /\
  pcoef (fh_jw (R := Zring) 3 2 5 7 2) [OC; OZ; OA; OI] = -2 /\ pcoef (fh_jw (R := Zring) 3 2 5 7 2) [OI; OA; OZ; OC] = -2 /\
  pcoef (fh_jw (R := Zring) 3 2 5 7 2) [ON; ON; OI; OI] = 5 /\ pcoef (fh_jw (R := Zring) 3 2 5 7 2) [OI; OI; OI; ON] = -7 + 5 * -3 /\
  pcoef (fh_jw (R := Zring) 3 2 5 7 2) [OI; OI; OI; OI] = 2 * (5 * 9) /\
  forallb (fun v => Z.eqb (fh_expand (R := Zring) 3 (fermi_formula (R := Zring) 2 5 7 4) v) (pcoef (fh_jw (R := Zring) 3 2 5 7 4) v))
          [[OI; OI; OI; OC; OZ; OA; OI; OI]; [OI; OI; OI; OI; OA; OZ; OC; OI]; [OI; OI; OI; OI; OI; OI; ON; ON]; [OI; OC; OZ; OZ; OZ; OA; OI; OI]] = true /\
  pcoef (fh_jw (R := Zring) 3 2 5 7 4) [OI; OI; OI; OC; OZ; OA; OI; OI] = -2 /\
  pcoef (fh_jw (R := Zring) 3 2 5 7 4) [OI; OC; OZ; OZ; OZ; OA; OI; OI] = 0.
Proof. vm_compute. repeat split; reflexivity. Qed.
(* the hypotheses of C06_fermi_hubbard_dense_jw are met (rationals, half = 1/2, t = 2, U = 3, mu = 5, L = 2) and the element
   <up,0| H |0,up> = -t is reproduced by the mode-word sum *)
Example C06_nonvacuous_dense_jw :
  kadd Qcring hq hq = k1 Qcring /\
  match spec_graph cover_model (@fermi_spec Qcring hq (zq 2) (zq 3) (zq 5)) 2 with
  | OkG g => linked g = true /\
      match from_opgraph fermi_qd g (opmap_of (@fermi_opmap Qcring hq)), graph_layers g with
      | OkG (o, m), OkG ls => last ls [] = [g_t1 g] /\ length (o_A o) = 2%nat /\
          keqb Qcring (opamp (o_A o) [2%nat; 0%nat] [0%nat; 2%nat]) (zq (-2)) = true /\
          keqb Qcring (suml (opwords 4) (fun v => kmul Qcring (pcoef (fh_jw (R := Qcring) hq (zq 2) (zq 3) (zq 5) 2) v)
                                                 (mprod v (bits [2%nat; 0%nat]) (bits [0%nat; 2%nat])))) (zq (-2)) = true
      | _, _ => False
      end
  | _ => False
  end.
Proof. split; [apply Qc_is_canon; reflexivity|]. vm_compute. repeat split; reflexivity. Qed.
Example C06_nonvacuous_linferm_bose :
  pcoef_ids lf_id (lf_jw (R := Qcring) [zq 2; zq 0; zq 5] true) [0; 0; 1] = zq 5 /\
  pcoef_ids lf_id (lf_jw (R := Qcring) [zq 2; zq 0; zq 5] true) [1; 2; 2] = zq 2 /\
  (* the hypothesis sq k * sq k = k of C06_bose_opmap_relations is satisfiable: d = 2 over Z with sq 1 = 1 (for d >= 3 the ring must contain sqrt 2, ...) *)
  (forall k, (1 <= k < 2)%nat -> kmul Zring ((fun _ => 1) k) ((fun _ => 1) k) = rnat (R := Zring) k).
Proof. split; [|split]; try (vm_compute; reflexivity). intros k Hk. assert (k = 1%nat) by lia. subst. reflexivity. Qed.
