(* C08 — Real-time TDVP conserves norm, energy and quantum numbers.
   Only statements, closed by [exact]; proofs live in Proofs/Sweeps*.v.  The model is Model/Sweeps.v (executable sweep
   skeletons of pytenet/evolution.py over an arbitrary commutative ring with conjugation, the numerical callees as
   oracle arguments), tied to the code by the trace correspondence of harness/props/c08.py.

   FULL INTENDED STATEMENT (property text): for a Hermitian MPO and purely imaginary dt, single-site TDVP and two-site
   TDVP with zero split tolerance keep the norm of the evolved state at one and its energy at the initial value up to
   rounding, for any number of steps and any number of local Krylov iterations; both return the norm of the input
   state, evolve the normalised input, never modify H; single-site TDVP never increases a bond dimension.

   WHAT IS PROVED HERE
     * C08_tdvp1_conserves: the whole single-site run (any L >= 1, any number of steps, any bond profile), relative to the
       contracts of the oracle calls THE RUN ISSUES (read off the emitted trace): block QR = LAPACK's contract (Q.R = M,
       Q^H Q = I, 1 <= k <= n), local solvers preserve <x|x> and <x|H_eff x> (what the Lanczos exponential of a Hermitian
       map gives for imaginary time, for every iteration count; Hermiticity and imaginary dt enter only through this
       contract), MPS.orthonormalize returns right-isometric tensors.  Exact identities in every commutative ring with
       conjugation; "up to rounding" is measured by prop(), not proved.
     * C08_tdvp2_conserves: the whole two-site run (any L >= 2, any number of steps, any bond profile), relative to the
       contracts of the calls the run issues (Proofs/Sweeps2Run.v: tdvp2_call_ok): the one-site and the merged two-site
       local solver preserve <x|x> and <x|H_eff x>; every split_mps_tensor call is EXACT (tol = 0): the tensor that was split
       factors entrywise through the two answers (merging undoes the split, C03_merge_split_id) and the factor that did not
       receive the singular values is an isometry ('right': A[i] left-isometric, 'left': A[i+1] right-isometric;
       C08_split_contract_spec); MPS.orthonormalize returns right-isometric tensors.  Induction over the two-site schedule
       with the invariant "sites < i left-isometric, sites > i+1 right-isometric, BL / BR the blocks of those sites"
       (Proofs/Sweeps2Inv.v: Z2), entered with the centre on the left site of the pair (left-to-right sweep, rightmost pair)
       or on its right site (right-to-left sweep, after the backward one-site step).
     * the mixed-canonical identities behind them (norm, one-site / two-site / zero-site energy), the return value, the QR
       shape bound, and per-step conservation for one-site and zero-site steps.
   PARTIAL: that the bond dimensions never increase is proved per QR call (C08_qr_never_increases_bond_partial), not along a
   whole run; a split with tol > 0 (truncation) is outside the theorem (the property text asks for zero tolerance); H is an
   argument of the model that no function returns or updates (the plugin compares the bytes of H before and after). *)
From Coq Require Import ZArith QArith Qcanon List Bool Lia.
From PT Require Import Base.Scalar Base.Field Base.BigSum Base.Mx Model.Tensor Model.Operation Model.Sweeps
  Proofs.OperationEntries Proofs.OperationLocal Proofs.OperationUniform Proofs.OperationTwoSite
  Proofs.SweepsSched Proofs.SweepsCanon Proofs.SweepsLocal Proofs.SweepsGauge Proofs.SweepsRun Proofs.SweepsCheck Proofs.SweepsExample
  Proofs.Sweeps2Inv Proofs.Sweeps2Run Proofs.Sweeps2Check Proofs.Sweeps2Example.
Import ListNotations.

(* <psi|psi> = <A_i|A_i> in mixed-canonical form (sites before i left-isometric, after i right-isometric) *)
Theorem C08_mixed_canonical_norm : forall (R : cring) d Ds (Al Ar : list (site R)) (X : site R),
  mps_shapeb d Ds (Al ++ X :: Ar) = true -> Forall left_iso Al -> Forall right_iso Ar ->
  dnorm2 d (length Al + S (length Ar)) (Al ++ X :: Ar) = site_dot X X.
Proof. exact mixed_canonical_norm_u. Qed.
Print Assumptions C08_mixed_canonical_norm.

Theorem C08_mixed_canonical_vdot : forall (R : cring) d Ds (Al Ar : list (site R)) (X : site R) qd qD,
  mps_shapeb d Ds (Al ++ X :: Ar) = true -> Forall left_iso Al -> Forall right_iso Ar ->
  vdot (mkmps qd qD (Al ++ X :: Ar)) (mkmps qd qD (Al ++ X :: Ar)) = Some (site_dot X X).
Proof. exact mixed_canonical_vdot_u. Qed.
Print Assumptions C08_mixed_canonical_vdot.

(* <psi|H|psi> = <A_i | H_eff A_i> with BL / BR the blocks built by Operation.v's steps from the sites before / after i
   (BLof Al Wl = lfold Al Al Wl [[[1]]], BRof Ar Wr = rfold Ar Ar Wr [[[1]]]); no canonical form needed *)
Theorem C08_mixed_canonical_energy : forall (R : cring) d (Al Ar : list (site R)) (Wl Wr : list (osite R)) (X : site R) (W : osite R)
    DsAl DsWl Dar Dwr DsAr DsWr Dpsi Dop qd qD oqD,
  local_shapeb d Al Ar Al Ar Wl Wr X X W DsAl DsAl DsWl Dar Dar Dwr DsAr DsAr DsWr = true ->
  mps_shapeb d Dpsi (Al ++ X :: Ar) = true -> mpo_shapeb d Dop (Wl ++ W :: Wr) = true ->
  operator_average (mkmps qd qD (Al ++ X :: Ar)) (mkmpo qd oqD (Wl ++ W :: Wr)) =
  Some (site_dot X (apply_local_hamiltonian (BLof Al Wl) (BRof Ar Wr) W X)).
Proof. exact mixed_canonical_operator_average. Qed.
Print Assumptions C08_mixed_canonical_energy.

(* zero-site (bond) analogue: C in front of the right-isometric tensor A *)
Theorem C08_mixed_canonical_bond_norm : forall (R : cring) d Ds (Al Ar : list (site R)) (A : site R) (C : mx R),
  mps_shapeb d Ds (Al ++ A :: Ar) = true -> nr C = sdl A -> nc C = sdl A ->
  Forall left_iso Al -> Forall right_iso (A :: Ar) ->
  dnorm2 d (length Al + S (length Ar)) (Al ++ cmul_site C A :: Ar) = frob C C.
Proof. exact mixed_canonical_bond_norm_u. Qed.
Print Assumptions C08_mixed_canonical_bond_norm.

Theorem C08_mixed_canonical_bond_energy : forall (R : cring) d (Al Ar : list (site R)) (Wl Wr : list (osite R)) (A : site R) (W : osite R) (C : mx R)
    DsAl DsWl Dar Dwr DsAr DsWr,
  local_shapeb d Al Ar Al Ar Wl Wr A A W DsAl DsAl DsWl Dar Dar Dwr DsAr DsAr DsWr = true ->
  nr C = last DsAl 0%nat -> nc C = last DsAl 0%nat ->
  frob C (apply_local_bond_contraction (BLof Al Wl) (BRof (A :: Ar) (W :: Wr)) C) =
  denergy d (length Al + S (length Ar)) (Al ++ cmul_site C A :: Ar) (Wl ++ W :: Wr).
Proof. exact mixed_canonical_bond_energy_u. Qed.
Print Assumptions C08_mixed_canonical_bond_energy.

(* two-site energy (merged tensor X, merged MPO tensor as the code forms it) *)
Theorem C08_two_site_energy_partial : forall (R : cring) d (Al Ar : list (site R)) (Wl Wr : list (osite R)) (X : site R) (W0 W1 : osite R)
    DsAl DsWl Dar Dwm Dwr DsAr DsWr,
  local2_shapeb d Al Ar Al Ar Wl Wr X X W0 W1 DsAl DsAl DsWl Dar Dar Dwm Dwr DsAr DsAr DsWr = true ->
  site_dot X (apply_local_hamiltonian (BLof Al Wl) (BRof Ar Wr) (c04_merge_osite W0 W1) X) =
  denergy2 d (length Al + S (S (length Ar))) (length Al) (Al ++ X :: Ar) (Wl ++ W0 :: W1 :: Wr).
Proof. exact mixed_canonical_energy2_u. Qed.
Print Assumptions C08_two_site_energy_partial.

(* one local step with a solver that preserves <x|x> and <x|H_eff x> conserves norm and energy of the state *)
Theorem C08_local_step_conserves : forall (R : cring) d Ds (Al Ar : list (site R)) (Wl Wr : list (osite R)) (X X' : site R) (W : osite R)
    DsAl DsWl Dar Dwr DsAr DsWr,
  local_shapeb d Al Ar Al Ar Wl Wr X X W DsAl DsAl DsWl Dar Dar Dwr DsAr DsAr DsWr = true ->
  local_shapeb d Al Ar Al Ar Wl Wr X' X' W DsAl DsAl DsWl Dar Dar Dwr DsAr DsAr DsWr = true ->
  mps_shapeb d Ds (Al ++ X :: Ar) = true -> mps_shapeb d Ds (Al ++ X' :: Ar) = true ->
  Forall left_iso Al -> Forall right_iso Ar ->
  site_dot X' X' = site_dot X X ->
  site_dot X' (apply_local_hamiltonian (BLof Al Wl) (BRof Ar Wr) W X') = site_dot X (apply_local_hamiltonian (BLof Al Wl) (BRof Ar Wr) W X) ->
  let n := (length Al + S (length Ar))%nat in
  dnorm2 d n (Al ++ X' :: Ar) = dnorm2 d n (Al ++ X :: Ar) /\
  denergy d n (Al ++ X' :: Ar) (Wl ++ W :: Wr) = denergy d n (Al ++ X :: Ar) (Wl ++ W :: Wr).
Proof. exact local_step_conserves. Qed.
Print Assumptions C08_local_step_conserves.

(* both integrators return the nrm of the initial right-orthonormalisation (and issue the fixed call sequence) *)
Theorem C08_tdvp1_returns_initial_norm : forall (R : cring) orth_right qr kexp kexp0 (H : mpo R) psi dt hdt n A qD nrm tr,
  tdvp_singlesite orth_right qr kexp kexp0 H psi dt hdt n = Some (A, qD, nrm, tr) ->
  map (@t_call R) tr = ncat n (full1 (length (o_A H))) /\ nrm = snd (orth_right psi).
Proof. exact tdvp1_trace. Qed.
Print Assumptions C08_tdvp1_returns_initial_norm.
Theorem C08_tdvp2_returns_initial_norm : forall (R : cring) orth_right split kexp (H : mpo R) psi dt hdt n A qD nrm tr,
  tdvp_twosite orth_right split kexp H psi dt hdt n = Some (A, qD, nrm, tr) ->
  map (@t_call R) tr = ncat n (full2 (length (o_A H))) /\ nrm = snd (orth_right psi).
Proof. exact tdvp2_trace. Qed.
Print Assumptions C08_tdvp2_returns_initial_norm.

(* the sweeps start from the orthonormalised (normalised) state and from its right blocks *)
Theorem C08_sweeps_start_from_normalized_input : forall (R : cring) (orth_right : mps R -> mps R * R) H psi st nrm,
  sweep_init orth_right H psi = Some (st, nrm) ->
  s_A st = m_A (fst (orth_right psi)) /\ nrm = snd (orth_right psi) /\ gBL st 0 = env_one /\
  forall i, (i < length (s_A st))%nat -> gBR st i = BRof (skipn (S i) (s_A st)) (skipn (S i) (o_A H)).
Proof. exact sweep_init_blocks. Qed.
Print Assumptions C08_sweeps_start_from_normalized_input.

(* a QR step never increases the bond dimension (LAPACK's k <= n) *)
Theorem C08_qr_never_increases_bond_partial : forall (R : cring) (X : site R) (Q C : mx R) qb,
  qr_ok (site_flat X) (Q, C, qb) -> (sdr (site_unflat (length X) (sdl X) Q) <= sdr X)%nat.
Proof. exact qr_left_bond_bound. Qed.
Print Assumptions C08_qr_never_increases_bond_partial.

(* WHOLE RUN, single-site: the returned state has norm one and the energy of the normalised input, the return value is
   the reported norm.  [ttr_ok ... (rev tr)]: every call recorded in the emitted trace tr meets its contract
   (Proofs/SweepsRun.v: tdvp_call_ok — qr_ok for QR, kexp_ok for the one-site and kexp0_ok for the zero-site solver). *)
Theorem C08_tdvp1_conserves : forall (R : cring) orth qr kexp kexp0 (H : mpo R) psi dt hdt n d DsW Ds0 A qD nrm tr,
  tdvp_singlesite orth qr kexp kexp0 H psi dt hdt n = Some (A, qD, nrm, tr) ->
  mpo_shapeb d DsW (o_A H) = true -> mps_shapeb d Ds0 (m_A (fst (orth psi))) = true ->
  Forall right_iso (m_A (fst (orth psi))) ->
  ttr_ok qr kexp kexp0 (o_A H) dt hdt d (rev tr) ->
  let L := length (o_A H) in
  nrm = snd (orth psi) /\
  dnorm2 d L A = k1 R /\
  denergy d L A (o_A H) = denergy d L (m_A (fst (orth psi))) (o_A H).
Proof. exact tdvp1_run. Qed.
Print Assumptions C08_tdvp1_conserves.

(* WHOLE RUN, two-site (tol_split = 0).  [ttr2_ok ... (rev tr)]: every call recorded in the emitted trace tr meets its contract
   (Proofs/Sweeps2Run.v: tdvp2_call_ok — kexp_ok d for the one-site solver calls KH, kexp_ok (d*d) with the merged MPO tensor
   for the two-site calls KH2, split_ok for the split_mps_tensor calls SPLITL / SPLITR). *)
Theorem C08_split_contract_spec : forall (R : cring) d left (Am A0 A1 : site R) q,
  split_ok d left Am (A0, A1, q) <->
  (forall Dl Dr, site_ok (d * d) Dl Dr Am ->
     exists k, site_ok d Dl k A0 /\ site_ok d k Dr A1 /\
       (forall s t a e, (s < length A0)%nat -> (t < d)%nat -> (a < Dl)%nat -> (e < Dr)%nat ->
          get (sel Am (s * d + t)) a e = sumn k (fun j => kmul R (get (sel A0 s) a j) (get (sel A1 t) j e))) /\
       (if left then right_iso A1 else left_iso A0)).
Proof. exact split_ok_spec. Qed.
Print Assumptions C08_split_contract_spec.

Theorem C08_tdvp2_conserves : forall (R : cring) orth split kexp (H : mpo R) psi dt hdt n d DsW Ds0 A qD nrm tr,
  tdvp_twosite orth split kexp H psi dt hdt n = Some (A, qD, nrm, tr) ->
  mpo_shapeb d DsW (o_A H) = true -> mps_shapeb d Ds0 (m_A (fst (orth psi))) = true ->
  Forall right_iso (m_A (fst (orth psi))) ->
  ttr2_ok split kexp (o_A H) dt hdt d (rev tr) ->
  let L := length (o_A H) in
  (2 <= L)%nat /\ nrm = snd (orth psi) /\
  dnorm2 d L A = k1 R /\
  denergy d L A (o_A H) = denergy d L (m_A (fst (orth psi))) (o_A H).
Proof. exact tdvp2_run. Qed.
Print Assumptions C08_tdvp2_conserves.

(* ---------------- non-vacuity ---------------- *)
(* mixed-canonical identities on a Gaussian-integer instance: left part / right part isometric, complex centre tensor *)
Definition gm8 := @mkmx GIring.
Open Scope Z_scope.
Definition c8_Al : list (site GIring) := [[gm8 1%nat 2%nat [[(1, 0); (0, 0)]]; gm8 1%nat 2%nat [[(0, 0); (0, 1)]]]].
Definition c8_X : site GIring := [gm8 2%nat 2%nat [[(1, 2); (0, -1)]; [(2, 0); (1, 1)]]; gm8 2%nat 2%nat [[(0, 1); (3, 0)]; [(-1, 1); (2, -2)]]].
Definition c8_Ar : list (site GIring) := [[gm8 2%nat 1%nat [[(0, 1)]; [(0, 0)]]; gm8 2%nat 1%nat [[(0, 0)]; [(-1, 0)]]]].
Definition c8_W (a b c dd : Z) : list (list (mx GIring)) :=
  [[gm8 1%nat 1%nat [[(a, 0)]]; gm8 1%nat 1%nat [[(b, 1)]]]; [gm8 1%nat 1%nat [[(b, -1)]]; gm8 1%nat 1%nat [[(dd, 0)]]]].
Close Scope Z_scope.
Example C08_mixed_canonical_nonvacuous :
  let psi := c8_Al ++ c8_X :: c8_Ar in
  let Wl := [c8_W 1 2 0 (-1)%Z]%Z in let W := (c8_W 2 0 0 3)%Z in let Wr := [c8_W (-1) 1 0 2]%Z in
  mps_shapeb 2 [1; 2; 2; 1]%nat psi && forallb left_isob c8_Al && forallb right_isob c8_Ar
  && keqb GIring (dnorm2 2%nat 3%nat psi) (site_dot c8_X c8_X) && negb (keqb GIring (dnorm2 2%nat 3%nat psi) (0, 0)%Z)
  && local_shapeb 2 c8_Al c8_Ar c8_Al c8_Ar Wl Wr c8_X c8_X W [1; 2]%nat [1; 2]%nat [1; 1]%nat 2 2 1 [1]%nat [1]%nat [1]%nat
  && keqb GIring (denergy 2%nat 3%nat psi (Wl ++ W :: Wr)) (site_dot c8_X (apply_local_hamiltonian (BLof c8_Al Wl) (BRof c8_Ar Wr) W c8_X))
  && negb (keqb GIring (denergy 2%nat 3%nat psi (Wl ++ W :: Wr)) (0, 0)%Z) = true.
Proof. vm_compute. reflexivity. Qed.

(* the whole-run theorem on the rational instance of Proofs/SweepsExample.v (H = Z(x)Z + X(x)I, bond dimension 2, two steps):
   the run succeeds, every hypothesis holds (contracts of all 18 recorded calls checked by the boolean versions of
   Proofs/SweepsCheck.v), and the conclusion is a non-trivial equality (energy -8399/15625) *)
Example C08_tdvp1_conserves_nonvacuous :
  match tdvp_singlesite ex_orth ex_qr kexp_id kexp0_id exH exPsi exdt exhdt 2 with
  | Some (A, qD, nrm, tr) =>
      mpo_shapeb 2 [1; 2; 1]%nat (o_A exH) && mps_shapeb 2 [1; 2; 1]%nat (m_A (fst (ex_orth exPsi)))
      && forallb right_isob (m_A (fst (ex_orth exPsi))) && qrs_okb ex_qr (rev tr) && Nat.eqb (length tr) 18
      && keqb CQ (dnorm2 2 2 A) (k1 CQ) && keqb CQ (denergy 2 2 A (o_A exH)) (denergy 2 2 (m_A exPsi) (o_A exH))
      && negb (keqb CQ (denergy 2 2 A (o_A exH)) (k0 CQ))
  | None => false
  end = true.
Proof. vm_compute. reflexivity. Qed.
Theorem C08_example_contracts_hold : forall A qD nrm tr,
  tdvp_singlesite ex_orth ex_qr kexp_id kexp0_id exH exPsi exdt exhdt 2 = Some (A, qD, nrm, tr) -> qrs_okb ex_qr (rev tr) = true ->
  ttr_ok ex_qr kexp_id kexp0_id (o_A exH) exdt exhdt 2 (rev tr).
Proof. intros A qD nrm tr _ H. apply ttr_ok_id. exact H. Qed.

(* the two-site whole-run theorem on the rational instance of Proofs/Sweeps2Example.v (L = 3, H = ZIZ + ZXI + XZI, bond
   dimensions 1-2-2-1, two steps, exact rational split oracle): the run succeeds, every hypothesis holds (split contracts of
   all 6 split calls among the 22 recorded calls checked by the boolean version of Proofs/Sweeps2Check.v; the identity solver
   meets kexp_ok), the returned tensors differ from the input (the gauge moved), and the conclusion is a non-trivial equality
   (energy 208201/390625) *)
Example C08_tdvp2_conserves_nonvacuous :
  match tdvp_twosite ex_orth ex3_split kexp_id ex3H ex3Psi exdt exhdt 2 with
  | Some (A, qD, nrm, tr) =>
      mpo_shapeb 2 [1; 2; 2; 1]%nat (o_A ex3H) && mps_shapeb 2 [1; 2; 2; 1]%nat (m_A (fst (ex_orth ex3Psi)))
      && forallb right_isob (m_A (fst (ex_orth ex3Psi))) && splits_okb ex3_split 2 (rev tr) && Nat.eqb (length tr) 22
      && Nat.eqb (length (filter (fun t => match c_kind (t_call t) with SPLITL | SPLITR => true | _ => false end) tr)) 6
      && keqb CQ (dnorm2 2 3 A) (k1 CQ) && keqb CQ (denergy 2 3 A (o_A ex3H)) (denergy 2 3 (m_A ex3Psi) (o_A ex3H))
      && negb (keqb CQ (denergy 2 3 A (o_A ex3H)) (k0 CQ)) && negb (list_eqb (fun a b => list_eqb mxeqb a b) A (m_A ex3Psi))
  | None => false
  end = true.
Proof. vm_compute. reflexivity. Qed.
Theorem C08_example2_contracts_hold : forall A qD nrm tr,
  tdvp_twosite ex_orth ex3_split kexp_id ex3H ex3Psi exdt exhdt 2 = Some (A, qD, nrm, tr) -> splits_okb ex3_split 2 (rev tr) = true ->
  ttr2_ok ex3_split kexp_id (o_A ex3H) exdt exhdt 2 (rev tr).
Proof. intros A qD nrm tr _ H. apply ttr2_ok_id. exact H. Qed.

(* ---------------------------------------------------------------------------------------------------------------
   LINK to C15 / C14 / C04 (linking round; lemmas in Proofs/Link*.v).  The abstract local-solver arguments of the sweep are
   instantiated by the CONCRETE solvers of pytenet/evolution.py,

     kexp_lanczos  dnorm small deigh dexp dexpm numiter  =  _local_hamiltonian_step :
        expm_krylov(lambda x: apply_local_hamiltonian(L, R, W, x.reshape(A.shape)).reshape(-1), A.reshape(-1), -dt, numiter, hermitian=True).reshape(A.shape)
     kexp0_lanczos dnorm small deigh dexp dexpm numiter  =  _local_bond_step (apply_local_bond_contraction, C.reshape(-1)),

   built from the Krylov model of C14/C15 (Model/Krylov.v) and the row-major flatten / unflatten bridge
   (Proofs/LinkFlatten.v: site_vec / vec_site, site_dot = vdot on flattened tensors).  The oracles left are the numerical
   primitives: numpy.linalg.norm (dnorm), the breakdown test (small), eigh_tridiagonal (deigh), numpy.exp (dexp), the block QR
   (qr) and MPS.orthonormalize (orth). *)
From PT Require Import Model.Krylov Proofs.KrylovLanczos Proofs.KrylovRitz Proofs.LinkExpmEnergy Proofs.LinkFlatten Proofs.LinkLocalOps
  Proofs.LinkSolvers Proofs.LinkCtx Proofs.LinkBond Proofs.LinkRunTDVP.

(* flatten / unflatten bridge: np.vdot(Y.reshape(-1), X.reshape(-1)) = <Y|X>, reshape round trip *)
Theorem C08_flatten_bridge : forall (F : ofield) (d Dl Dr : nat) (Y X : site (Cx F)) (x : list (Cx F)),
  (0 < d)%nat -> site_ok d Dl Dr Y ->
  Krylov.vdot (site_vec F d Dl Dr Y) (site_vec F d Dl Dr X) = site_dot Y X /\
  (length x = (d * Dl * Dr)%nat -> site_vec F d Dl Dr (vec_site F d Dl Dr x) = x) /\
  site_ok d Dl Dr (vec_site F d Dl Dr x) /\ length (site_vec F d Dl Dr X) = (d * Dl * Dr)%nat.
Proof.
  intros F d Dl Dr Y X x Hd HY. split; [exact (vdot_site_vec F d Dl Dr Y X Hd HY)|].
  split; [exact (site_vec_vec_site F d Dl Dr x)|]. split; [exact (vec_site_ok F d Dl Dr x)|exact (length_site_vec F d Dl Dr X)].
Qed.
Print Assumptions C08_flatten_bridge.

(* the flattened effective Hamiltonian  x |-> apply_local_hamiltonian(L, R, W, x.reshape(shape)).reshape(-1)  maps vectors of length
   d*Dl*Dr to such vectors, is linear, and is self-adjoint w.r.t. vdot whenever H_eff is self-adjoint w.r.t. site_dot
   ([local_sa]: the conclusion of C04_heff_hermitian for a Hermitian MPO) *)
Theorem C08_flat_heff_hypotheses : forall (F : ofield) (d Dl Dr Dwl Dwr : nat) (BL BR : env (Cx F)) (W : osite (Cx F)),
  (0 < d)%nat -> (0 < Dwl)%nat -> (0 < Dwr)%nat -> osite_ok d Dwl Dwr W -> env_ok Dwl Dl Dl BL -> env_ok Dwr Dr Dr BR ->
  let Af := flat_op F d Dl Dr (apply_local_hamiltonian BL BR W) in
  maps_len F (d * Dl * Dr) Af /\ linear F (d * Dl * Dr) Af /\
  (local_sa F d Dl Dr (apply_local_hamiltonian BL BR W) -> self_adjoint F (d * Dl * Dr) Af).
Proof.
  intros F d Dl Dr Dwl Dwr BL BR W Hd Hwl Hwr HW HL HR Af. split; [exact (flat_op_len F d Dl Dr _)|].
  split; [exact (flat_op_linear F d Dl Dr _ (alh_local_op F d Dl Dr Dwl Dwr BL BR W Hd Hwl Hwr HW HL HR))|].
  exact (flat_op_self_adjoint F d Dl Dr _ Hd).
Qed.
Print Assumptions C08_flat_heff_hypotheses.

(* kexp_from_krylov: ONE call of _local_hamiltonian_step meets the conserving contract kexp_ok, given shapes, self-adjointness of
   H_eff, a non-zero start tensor (otherwise the code raises) and the C14/C15 contracts of the primitives on the calls this
   call issues ([kexp_lanczos_calls_ok]: norm_ok on every numpy.linalg.norm call of the Lanczos loop; for the returned
   (alpha, beta, V): eigh_ok /\ eigh_row0 of the eigh_tridiagonal answer and |exp(-dt w_l)| = 1) *)
Theorem C08_kexp_from_krylov : forall (F : ofield) dnorm small deigh dexp dexpm numiter,
  small_sound F small -> (1 <= numiter)%nat ->
  forall d Dl Dr Dwl Dwr pos (BL BR : env (Cx F)) (W : osite (Cx F)) (A : site (Cx F)) (t : Cx F),
  (0 < d)%nat -> (0 < Dwl)%nat -> (0 < Dwr)%nat ->
  osite_ok d Dwl Dwr W -> env_ok Dwl Dl Dl BL -> env_ok Dwr Dr Dr BR -> site_ok d Dl Dr A ->
  local_sa F d Dl Dr (apply_local_hamiltonian BL BR W) ->
  site_dot A A <> k0 (Cx F) ->
  kexp_lanczos_calls_ok F dnorm small deigh dexp numiter BL BR W A t ->
  kexp_ok d BL BR W A (kexp_lanczos F dnorm small deigh dexp dexpm numiter pos BL BR W A t).
Proof. exact kexp_from_krylov. Qed.
Print Assumptions C08_kexp_from_krylov.

(* ... and ONE call of _local_bond_step meets kexp0_ok ([bond_sa]: the zero-site operator is self-adjoint w.r.t. frob) *)
Theorem C08_kexp0_from_krylov : forall (F : ofield) dnorm small deigh dexp dexpm numiter,
  small_sound F small -> (1 <= numiter)%nat ->
  forall Dw pos (BL BR : env (Cx F)) (C : mx (Cx F)) (t : Cx F),
  (0 < Dw)%nat -> env_ok Dw (nr C) (nr C) BL -> env_ok Dw (nc C) (nc C) BR ->
  bond_sa F (nr C) (nc C) BL BR ->
  frob C C <> k0 (Cx F) ->
  kexp0_lanczos_calls_ok F dnorm small deigh dexp numiter BL BR C t ->
  kexp0_ok BL BR C (kexp0_lanczos F dnorm small deigh dexp dexpm numiter pos BL BR C t).
Proof. exact kexp0_from_krylov. Qed.
Print Assumptions C08_kexp0_from_krylov.

(* along a run the self-adjointness and non-vanishing hypotheses are consequences of the sweep invariant: the LAPACK-level
   contracts of the recorded calls ([lttr_ok]: qr_ok for QR, kexp_lanczos_calls_ok for the one-site calls KH,
   kexp0_lanczos_calls_ok for the zero-site calls KB) imply the conserving-solver contracts of C08_tdvp1_conserves *)
Theorem C08_tdvp1_lapack_to_conserving : forall (F : ofield) orth qr dnorm small deigh dexp dexpm numiter (H : mpo (Cx F)) psi dt hdt n d DsW Ds0 A qD nrm tr,
  tdvp_singlesite orth qr (kexp_lanczos F dnorm small deigh dexp dexpm numiter) (kexp0_lanczos F dnorm small deigh dexp dexpm numiter) H psi dt hdt n = Some (A, qD, nrm, tr) ->
  mpo_shapeb d DsW (o_A H) = true -> mps_shapeb d Ds0 (m_A (fst (orth psi))) = true ->
  Forall right_iso (m_A (fst (orth psi))) ->
  mpo_herm F (o_A H) d -> small_sound F small -> (1 <= numiter)%nat ->
  lttr_ok qr dnorm small deigh dexp numiter (o_A H) dt hdt (rev tr) ->
  ttr_ok qr (kexp_lanczos F dnorm small deigh dexp dexpm numiter) (kexp0_lanczos F dnorm small deigh dexp dexpm numiter) (o_A H) dt hdt d (rev tr).
Proof. exact tdvp1_lapack_to_conserving. Qed.
Print Assumptions C08_tdvp1_lapack_to_conserving.

(* WHOLE RUN, single-site, END TO END: with the Krylov-based solvers the only remaining hypotheses are LAPACK-level contracts on
   the calls actually issued (block QR, numpy.linalg.norm, eigh_tridiagonal, unimodular numpy.exp at the issued arguments, the
   breakdown test being sound), right-isometry of MPS.orthonormalize's answer, and Hermiticity of the MPO
   ([mpo_herm]: <w|H|w'> = conj <w'|H|w> for all words, the hypothesis of C04_heff_hermitian).  Scalars: Cx F, F any ordered field. *)
Theorem C08_tdvp1_conserves_lapack : forall (F : ofield) orth qr dnorm small deigh dexp dexpm numiter (H : mpo (Cx F)) psi dt hdt n d DsW Ds0 A qD nrm tr,
  tdvp_singlesite orth qr (kexp_lanczos F dnorm small deigh dexp dexpm numiter) (kexp0_lanczos F dnorm small deigh dexp dexpm numiter) H psi dt hdt n = Some (A, qD, nrm, tr) ->
  mpo_shapeb d DsW (o_A H) = true -> mps_shapeb d Ds0 (m_A (fst (orth psi))) = true ->
  Forall right_iso (m_A (fst (orth psi))) ->
  mpo_herm F (o_A H) d -> small_sound F small -> (1 <= numiter)%nat ->
  lttr_ok qr dnorm small deigh dexp numiter (o_A H) dt hdt (rev tr) ->
  let L := length (o_A H) in
  nrm = snd (orth psi) /\
  dnorm2 d L A = k1 (Cx F) /\
  denergy d L A (o_A H) = denergy d L (m_A (fst (orth psi))) (o_A H).
Proof. exact tdvp1_run_lapack. Qed.
Print Assumptions C08_tdvp1_conserves_lapack.

(* NOT DONE in the linking round (statement kept for the record): the two-site analogue

   Theorem C08_tdvp2_conserves_lapack : forall F orth split dnorm small deigh dexp dexpm numiter H psi dt hdt n d DsW Ds0 A qD nrm tr,
     tdvp_twosite orth split (kexp_lanczos F dnorm small deigh dexp dexpm numiter) H psi dt hdt n = Some (A, qD, nrm, tr) ->
     mpo_shapeb d DsW (o_A H) = true -> mps_shapeb d Ds0 (m_A (fst (orth psi))) = true -> Forall right_iso (m_A (fst (orth psi))) ->
     mpo_herm F (o_A H) d -> small_sound F small -> 1 <= numiter ->
     lttr2_ok ... (rev tr)     (* split_ok for SPLITL / SPLITR, kexp_lanczos_calls_ok for KH and for KH2 with the merged MPO tensor *) ->
     2 <= L /\ nrm = snd (orth psi) /\ dnorm2 d L A = k1 /\ denergy d L A (o_A H) = denergy d L (m_A (fst (orth psi))) (o_A H).

   The per-call theorem C08_kexp_from_krylov already covers the merged two-site calls (d := d*d, W := the merged MPO tensor);
   missing is [local_sa] for the merged problem from the two-site invariant Z2 (C04_two_site_is_projection + mpo_herm, as
   Proofs/LinkCtx.v does for the one-site problem from C04_heff_hermitian) and the lock-step induction over the two-site schedule. *)

(* Non-vacuity of C08_kexp_from_krylov (Proofs/LinkExamplesLocal.v): one site, d = 2, H = diag(1, -1), start tensor (3, 4),
   numiter = 2 (norms 5 and 24/25, T = [[-7/25, 24/25], [24/25, 7/25]], eigh answer w = (-1, 1) with a rational rotation,
   constant unimodular phase): every hypothesis holds, the model output is concrete, differs from the input, and has the
   norm 25 and the energy -7 of the start tensor *)
From PT Require Import Proofs.KrylovExamples Proofs.KrylovExamples15 Proofs.LinkExamplesLocal.
Example C08_kexp_from_krylov_nonvacuous :
  kexp_ok 2 lk_E lk_E lk_W lk_A (kexp_lanczos QcF dnorm_ex ex_small lk_deigh dexp_ex (fun M => M) 2 0 lk_E lk_E lk_W lk_A lk_t) /\
  (let A' := kexp_lanczos QcF dnorm_ex ex_small lk_deigh dexp_ex (fun M => M) 2 0 lk_E lk_E lk_W lk_A lk_t in
   keqb CQ (site_dot A' A') (qq 25 1, qq 0 1) && keqb CQ (site_dot A' (apply_local_hamiltonian lk_E lk_E lk_W A')) (qq (-7) 1, qq 0 1)
   && keqb CQ (site_dot lk_A (apply_local_hamiltonian lk_E lk_E lk_W lk_A)) (qq (-7) 1, qq 0 1)
   && negb (keqb CQ (get (sel A' 0) 0 0) (get (sel lk_A 0) 0 0)) && Nat.eqb (length A') 2) = true.
Proof. split; [exact lk_kexp_ok|vm_compute; reflexivity]. Qed.

(* ---------------------------------------------------------------------------------------------------------------
   LINK, TWO-SITE (continuation of the linking round; lemmas in Proofs/Link2Ctx.v, Proofs/Link2RunTDVP.v).  The statement
   recorded above as NOT DONE is proved below as C08_tdvp2_conserves_lapack: the abstract solver argument of tdvp_twosite is
   instantiated by the SAME concrete solver kexp_lanczos = _local_hamiltonian_step for both kinds of local problem the
   integrator issues, the merged two-site step (physical dimension d*d, merged MPO tensor [Hm Hs i] as the code forms it) and
   the backward one-site step. *)
From PT Require Import Proofs.OperationChains Proofs.SweepsInv Proofs.Link2Ctx Proofs.Link2RunTDVP.

(* the two-site analogue of C04_heff_hermitian: for a Hermitian operator the merged two-site effective operator (bra and ket
   sharing the environment) is self-adjoint w.r.t. site_dot on tensors of the merged shape (from C04_two_site_is_projection) *)
Theorem C08_heff2_hermitian : forall (R : cring) (Al Ar : list (site R)) (Wl Wr : list (osite R)) (X Y : site R) (W0 W1 : osite R)
    dsl dsr d0 d1 Dal Dar Dwl Dwm Dwr DsAl DsWl DsAr DsWr,
  chainx_ok dsl DsAl Al -> ochainx_ok dsl DsWl Wl ->
  hd 0%nat DsAl = 1%nat -> hd 0%nat DsWl = 1%nat ->
  last DsAl 0%nat = Dal -> last DsWl 0%nat = Dwl ->
  (0 < d0)%nat -> (0 < d1)%nat -> (0 < Dwr)%nat ->
  site_ok (d0 * d1) Dal Dar X -> site_ok (d0 * d1) Dal Dar Y ->
  osite_struct d0 W0 -> osite_struct d1 W1 -> osite_ok d0 Dwl Dwm W0 -> osite_ok d1 Dwm Dwr W1 ->
  chain_ok dsr (Dar :: DsAr) Ar -> ochain_ok dsr (Dwr :: DsWr) Wr ->
  (forall w w', In w (gwords (dsl ++ d0 :: d1 :: dsr)) -> In w' (gwords (dsl ++ d0 :: d1 :: dsr)) ->
     opamp (Wl ++ W0 :: W1 :: Wr) w w' = kconj R (opamp (Wl ++ W0 :: W1 :: Wr) w' w)) ->
  site_dot Y (apply_local_hamiltonian (lfold Al Al Wl env_one) (rfold Ar Ar Wr env_one) (c04_merge_osite W0 W1) X) =
  kconj R (site_dot X (apply_local_hamiltonian (lfold Al Al Wl env_one) (rfold Ar Ar Wr env_one) (c04_merge_osite W0 W1) Y)).
Proof. exact heff2_hermitian. Qed.
Print Assumptions C08_heff2_hermitian.

(* at every state satisfying the two-site invariant Z2 (sites < i left-isometric, sites > i+1 right-isometric, blocks =
   contractions of those sites) the MERGED local problem at the pair (i, i+1) has consistent shapes (physical dimension d*d),
   its start tensor carries the norm of the state, and for a Hermitian MPO its effective Hamiltonian is self-adjoint ([local_sa]) *)
Theorem C08_two_site_invariant_gives_local_problem : forall (F : ofield) (Hs : list (osite (Cx F))) d DsW,
  (0 < d)%nat -> ochain_ok (repeat d (length Hs)) DsW Hs -> hd 0%nat DsW = 1%nat -> Forall (osite_struct d) Hs ->
  forall (st : sw (Cx F)) i, Z2 (Cx F) Hs d st i ->
  let M := c04_merge_site (gA st i) (gA st (S i)) in
  exists Dl Dr Dwl Dwr, (0 < Dwl)%nat /\ (0 < Dwr)%nat /\ osite_ok (d * d) Dwl Dwr (Hm Hs i) /\
    env_ok Dwl Dl Dl (gBL st i) /\ env_ok Dwr Dr Dr (gBR st (S i)) /\ site_ok (d * d) Dl Dr M /\
    SweepsInv.NN (Cx F) Hs d (s_A st) = site_dot M M /\
    (mpo_herm F Hs d -> local_sa F (d * d) Dl Dr (apply_local_hamiltonian (gBL st i) (gBR st (S i)) (Hm Hs i))).
Proof. exact Z2_local_ctx. Qed.
Print Assumptions C08_two_site_invariant_gives_local_problem.

(* per entry: a KH2 call issued at a state satisfying Z2 with norm one, whose oracle answers meet the Krylov contracts, meets
   the conserving contract kexp_ok (d*d) of C08_tdvp2_conserves *)
Theorem C08_kh2_entry_from_krylov : forall (F : ofield) dnorm small deigh dexp dexpm numiter (Hs : list (osite (Cx F))) d DsW,
  (0 < d)%nat -> ochain_ok (repeat d (length Hs)) DsW Hs -> hd 0%nat DsW = 1%nat -> Forall (osite_struct d) Hs ->
  mpo_herm F Hs d -> small_sound F small -> (1 <= numiter)%nat ->
  forall (st : sw (Cx F)) i p t, Z2 (Cx F) Hs d st i -> SweepsInv.NN (Cx F) Hs d (s_A st) = k1 (Cx F) ->
  let Am := c04_merge_site (gA st i) (gA st (S i)) in
  kexp_lanczos_calls_ok F dnorm small deigh dexp numiter (gBL st i) (gBR st (S i)) (Hm Hs i) Am t ->
  kexp_ok (d * d) (gBL st i) (gBR st (S i)) (Hm Hs i) Am
    (kexp_lanczos F dnorm small deigh dexp dexpm numiter p (gBL st i) (gBR st (S i)) (Hm Hs i) Am t).
Proof. exact kh2_entry_from_krylov. Qed.
Print Assumptions C08_kh2_entry_from_krylov.

(* along a run: the LAPACK-level contracts of the recorded calls ([lttr2_ok], Proofs/Link2RunTDVP.v: ltdvp2_call_ok —
   kexp_lanczos_calls_ok for the one-site calls KH (MPO tensor of the site) and for the two-site calls KH2 (merged MPO tensor,
   flattened length d*d*Dl*Dr); split_ok for SPLITL / SPLITR) imply the conserving-solver contracts of C08_tdvp2_conserves *)
Theorem C08_tdvp2_lapack_to_conserving : forall (F : ofield) orth split dnorm small deigh dexp dexpm numiter (H : mpo (Cx F)) psi dt hdt n d DsW Ds0 A qD nrm tr,
  tdvp_twosite orth split (kexp_lanczos F dnorm small deigh dexp dexpm numiter) H psi dt hdt n = Some (A, qD, nrm, tr) ->
  mpo_shapeb d DsW (o_A H) = true -> mps_shapeb d Ds0 (m_A (fst (orth psi))) = true ->
  Forall right_iso (m_A (fst (orth psi))) ->
  mpo_herm F (o_A H) d -> small_sound F small -> (1 <= numiter)%nat ->
  lttr2_ok split dnorm small deigh dexp numiter (o_A H) dt hdt d (rev tr) ->
  ttr2_ok split (kexp_lanczos F dnorm small deigh dexp dexpm numiter) (o_A H) dt hdt d (rev tr).
Proof. exact tdvp2_lapack_to_conserving. Qed.
Print Assumptions C08_tdvp2_lapack_to_conserving.

(* WHOLE RUN, two-site (tol_split = 0), END TO END: with the Krylov-based solver the only remaining hypotheses are LAPACK-level
   contracts on the calls actually issued (numpy.linalg.norm, eigh_tridiagonal incl. the row-0 clause, unimodular numpy.exp at the
   issued arguments, the breakdown test being sound), the exact-split contract on the split_mps_tensor calls (C08_split_contract_spec),
   right-isometry of MPS.orthonormalize's answer, and Hermiticity of the MPO ([mpo_herm]).  Scalars: Cx F, F any ordered field. *)
Theorem C08_tdvp2_conserves_lapack : forall (F : ofield) orth split dnorm small deigh dexp dexpm numiter (H : mpo (Cx F)) psi dt hdt n d DsW Ds0 A qD nrm tr,
  tdvp_twosite orth split (kexp_lanczos F dnorm small deigh dexp dexpm numiter) H psi dt hdt n = Some (A, qD, nrm, tr) ->
  mpo_shapeb d DsW (o_A H) = true -> mps_shapeb d Ds0 (m_A (fst (orth psi))) = true ->
  Forall right_iso (m_A (fst (orth psi))) ->
  mpo_herm F (o_A H) d -> small_sound F small -> (1 <= numiter)%nat ->
  lttr2_ok split dnorm small deigh dexp numiter (o_A H) dt hdt d (rev tr) ->
  let L := length (o_A H) in
  (2 <= L)%nat /\ nrm = snd (orth psi) /\
  dnorm2 d L A = k1 (Cx F) /\
  denergy d L A (o_A H) = denergy d L (m_A (fst (orth psi))) (o_A H).
Proof. exact tdvp2_run_lapack. Qed.
Print Assumptions C08_tdvp2_conserves_lapack.

(* Non-vacuity of C08_tdvp2_conserves_lapack (Proofs/Link2Examples.v): the rational instance of Proofs/Sweeps2Example.v (L = 3, d = 2,
   H = ZIZ + ZXI + XZI, bond dimensions 1-2-2-1, two steps) run with the REAL Krylov-based solver, numiter = 1 (one Lanczos vector:
   every numpy.linalg.norm call is on a tensor of norm one, answered exactly by the rational square root; eigh_tridiagonal on the
   1 x 1 matrix [alpha_0] answered by w = (alpha_0), U = [[1]]; numpy.exp answered by the unimodular constant 3/5 + 4/5 i, so each of
   the 10 local steps multiplies its tensor by that phase) and an exact rational split oracle (ex3p_split).  The run succeeds; ALL
   hypotheses of the theorem hold by evaluation (the LAPACK-level contracts of the 10 solver calls — 6 merged two-site, flattened
   length up to 16, and 4 one-site — and of the 6 split calls by the boolean checker ltdvp2_okb, sound by ltdvp2_okb_ok; Hermiticity
   of H by mpo_hermb on all 64 word pairs); the evolved state differs from the input (amplitude of |000>), and the conclusion is a
   non-trivial equality (energy 208201/390625). *)
From PT Require Import Proofs.KrylovExamples Proofs.KrylovExamples15 Proofs.Link2Examples.
Example C08_tdvp2_conserves_lapack_nonvacuous :
  match tdvp_twosite ex_orth ex3p_split ex1p_kexp ex3H ex3Psi exdt exhdt 2 with
  | Some (A, qD, nrm, tr) =>
      mpo_shapeb 2 [1; 2; 2; 1]%nat (o_A ex3H) && mps_shapeb 2 [1; 2; 2; 1]%nat (m_A (fst (ex_orth ex3Psi)))
      && forallb right_isob (m_A (fst (ex_orth ex3Psi))) && mpo_hermb (o_A ex3H) 2
      && ltdvp2_okb dnorm_ex ex_small ex1_deigh dexp_ex 1 ex3p_split (o_A ex3H) exdt exhdt 2 (rev tr) && Nat.eqb (length tr) 22
      && Nat.eqb (length (filter (fun t => match c_kind (t_call t) with KH | KH2 => true | _ => false end) tr)) 10
      && Nat.eqb (length (filter (fun t => match c_kind (t_call t) with SPLITL | SPLITR => true | _ => false end) tr)) 6
      && keqb CQ (dnorm2 2 3 A) (k1 CQ) && keqb CQ (denergy 2 3 A (o_A ex3H)) (denergy 2 3 (m_A ex3Psi) (o_A ex3H))
      && negb (keqb CQ (denergy 2 3 A (o_A ex3H)) (k0 CQ))
      && negb (keqb CQ (amp A [0; 0; 0]%nat) (amp (m_A ex3Psi) [0; 0; 0]%nat))
  | None => false
  end = true.
Proof. vm_compute. reflexivity. Qed.
(* ... and the theorem applies to it: every hypothesis discharged, conclusion obtained for the model's run *)
Theorem C08_tdvp2_conserves_lapack_example : forall A qD nrm tr,
  tdvp_twosite ex_orth ex3p_split ex1p_kexp ex3H ex3Psi exdt exhdt 2 = Some (A, qD, nrm, tr) ->
  let L := length (o_A ex3H) in
  (2 <= L)%nat /\ nrm = snd (ex_orth ex3Psi) /\ dnorm2 2 L A = k1 CQ /\
  denergy 2 L A (o_A ex3H) = denergy 2 L (m_A (fst (ex_orth ex3Psi))) (o_A ex3H).
Proof. exact tdvp2_run_lapack_example. Qed.
Print Assumptions C08_tdvp2_conserves_lapack_example.
