(* C09 exactness — what each loop body of one single-site TDVP step does to the DENSE state on a complete manifold
   (Lubich-Oseledets-Vandereycken exactness argument, split site m):
     phase 1  left-to-right bodies at sites i < m: the K-step (site flow, +dt/2) and the S-step (bond flow, -dt/2) cancel,
              because the new left tensor Q is left-unitary and the site flow on Q.C is Q.(bond flow on C)            [ph1_lr]
     site m   both frames complete: the K-step is the global flow G(dt/2)                                          [ph12, ph1_mid]
     phase 2  left-to-right bodies at sites i > m: the S-step of body i-1 and the K-step of body i cancel (the pending
              bond matrix is absorbed in a right-unitary tensor)                                                   [ph2_lr, ph2_mid]
     phase 3  right-to-left bodies at sites i > m: the K-step of the previous body and the S-step of this body cancel
                                                                                                                   [ph3_rl]
     site m   the pending K-step is the global flow G(dt/2)                                                          [ph34]
     phase 4  right-to-left bodies at sites i <= m: S-step and K-step cancel (left-unitary neighbour)                [ph4_rl]
   No statement about QR uniqueness or gauges is needed. *)
From Coq Require Import ZArith Arith List Lia Ring Setoid Bool.
From PT Require Import Base.Scalar Base.BigSum Base.Mx Model.Tensor Model.Operation Model.Sweeps
  Proofs.OperationEntries Proofs.OperationLocal Proofs.SweepsCanon Proofs.SweepsFlow Proofs.SweepsGauge
  Proofs.ReverseDefs Proofs.ReverseMx Proofs.ReverseGauge Proofs.ReverseQR Proofs.ReverseFwd
  Proofs.ExactDefs Proofs.ExactAmp Proofs.ExactQR Proofs.ExactStep.
Import ListNotations.

Section Phase.
  Variable R : cring.
  Add Ring Rring_exact_phase : (k_rt R).
  Notation site := (site R).
  Notation osite := (osite R).
  Notation env := (env R).
  Notation mx := (mx R).
  Notation sw := (sw R).
  Variable qr : nat -> mx -> list BinNums.Z -> list BinNums.Z -> mx * mx * list BinNums.Z.
  Variable kexp : kexp_t R.
  Variable kexp0 : kexp0_t R.
  Variable Hs : list osite.
  Variable qd : list BinNums.Z.
  Variable d : nat.
  Variables Ds DW : nat -> nat.
  Notation L := (length Hs).
  Variables (dt hdt : R).
  Notation lr := (tdvp1_lr qr kexp kexp0 Hs qd dt hdt).
  Notation rl := (tdvp1_rl qr kexp kexp0 Hs qd dt hdt).
  Notation mid := (tdvp1_mid kexp Hs dt hdt).
  Notation ok := (ex_tr_ok qr).
  Hypothesis Hd : 0 < d.
  Hypothesis HW : forall j, j < L -> osite_ok d (DW j) (DW (S j)) (nth j Hs []).
  Hypothesis HDW : forall j, 0 < DW j.
  Variable m : nat.
  Hypothesis Hprof : complete_profile Hs d Ds m.
  Hypothesis Hk : kexp_flowH Hs d Ds DW kexp.
  Hypothesis Hk0 : kexp0_shape Hs Ds DW kexp0.
  Hypothesis HIL : intertwine_left Hs d Ds DW kexp kexp0.
  Hypothesis HIR : intertwine_right Hs d Ds DW kexp kexp0.
  Variable G : R -> list R -> list R.
  Hypothesis HG : kexp_global Hs d Ds G m kexp.
  Hypothesis Hdt : kadd R hdt hdt = dt.
  Notation EIi := (EI Hs d Ds DW m).
  Notation dn := (dense d L).
  Notation Wat i := (nth i Hs []).

  (* ---------------- consequences of (F) ---------------- *)
  Lemma kflow i p q r BL BR A s t u : i < L -> wsite d (Ds i) (Ds (S i)) A -> wenv (DW i) (Ds i) (Ds i) BL ->
    wenv (DW (S i)) (Ds (S i)) (Ds (S i)) BR -> kadd R s t = u ->
    kexp q BL BR (Wat i) (kexp p BL BR (Wat i) A s) t = kexp r BL BR (Wat i) A u.
  Proof. intros Hi HA HL HR <-. apply (Hk i p q r BL BR A s t Hi HA HL HR). Qed.
  Lemma kflow0 i p q BL BR A s t : i < L -> wsite d (Ds i) (Ds (S i)) A -> wenv (DW i) (Ds i) (Ds i) BL ->
    wenv (DW (S i)) (Ds (S i)) (Ds (S i)) BR -> kadd R s t = k0 R ->
    kexp q BL BR (Wat i) (kexp p BL BR (Wat i) A s) t = A.
  Proof.
    intros Hi HA HL HR E. rewrite (kflow i p q p BL BR A s t (k0 R) Hi HA HL HR E).
    apply (Hk i p p p BL BR A s t Hi HA HL HR).
  Qed.
  Lemma r_hm : kadd R hdt (kopp R hdt) = k0 R. Proof. ring. Qed.
  Lemma r_mh : kadd R (kopp R hdt) hdt = k0 R. Proof. ring. Qed.
  Lemma r_md : kadd R (kopp R hdt) dt = hdt. Proof. rewrite <- Hdt. ring. Qed.

  (* ---------------- moving the bond matrix between two states ---------------- *)
  (* X has (Aq.C, B) at sites (i, i+1) -- after replacing its i-th tensor --, X' has (Aq, C.B) -- after replacing its (i+1)-th *)
  Lemma move_lr (X X' : sw) i (Aq : site) (C : mx) (Z : site) : S i < L ->
    length (s_A X) = L -> length (s_A X') = L ->
    (forall j, j < L -> wsite d (Ds j) (Ds (S j)) (gA X j)) ->
    wsite d (Ds i) (Ds (S i)) Aq -> wmx (Ds (S i)) (Ds (S i)) C ->
    (forall j, gA X' j = if Nat.eqb j i then Aq else if Nat.eqb j (S i) then Z else gA X j) ->
    dn (lset (s_A X') (S i) (lmul_site C (gA X (S i)))) = dn (lset (s_A X) i (rmul_site Aq C)).
  Proof.
    intros HSi lA lA' Hsh HAq HC EA. symmetry.
    assert (HB : wsite d (Ds (S i)) (Ds (S (S i))) (gA X (S i))) by (apply Hsh; exact HSi).
    apply (dense_pair_ext R d Ds Hd L _ _ i); try (rewrite lset_length; assumption); try assumption.
    - intros j Hj. rewrite nth_lset_if by lia. destruct (Nat.eqb_spec j i) as [->|N]; [|apply Hsh; exact Hj].
      apply (wsite_rmul R d (Ds (S i)) (Ds i) (Ds (S i))); assumption.
    - intros j Hj. rewrite nth_lset_if by lia. destruct (Nat.eqb_spec j (S i)) as [->|N].
      + apply (wsite_lmul R d (Ds (S i)) (Ds (S i))); assumption.
      + change (nth j (s_A X') []) with (gA X' j). rewrite EA. replace (Nat.eqb j (S i)) with false by (symmetry; apply Nat.eqb_neq; lia).
        destruct (Nat.eqb_spec j i) as [->|N']; [exact HAq|apply Hsh; exact Hj].
    - intros j Hj N1 N2. rewrite !nth_lset_if by lia.
      replace (Nat.eqb j (S i)) with false by (symmetry; apply Nat.eqb_neq; lia).
      replace (Nat.eqb j i) with false by (symmetry; apply Nat.eqb_neq; lia).
      change (nth j (s_A X') []) with (gA X' j). rewrite EA.
      replace (Nat.eqb j (S i)) with false by (symmetry; apply Nat.eqb_neq; lia).
      replace (Nat.eqb j i) with false by (symmetry; apply Nat.eqb_neq; lia). reflexivity.
    - intros s t Hs0 Ht. rewrite !nth_lset_if by lia. rewrite !Nat.eqb_refl.
      replace (Nat.eqb (S i) i) with false by (symmetry; apply Nat.eqb_neq; lia).
      replace (Nat.eqb i (S i)) with false by (symmetry; apply Nat.eqb_neq; lia).
      change (nth i (s_A X') []) with (gA X' i). rewrite EA, Nat.eqb_refl.
      change (nth (S i) (s_A X) []) with (gA X (S i)).
      apply (pair_move_left R d (Ds i) (Ds (S i)) (Ds (S (S i)))); assumption.
  Qed.
  (* X has (P, C.Aq) at sites (k, k+1) -- after replacing its (k+1)-th tensor --, X' has (P.C, Aq) -- after replacing its k-th *)
  Lemma move_rl (X X' : sw) k (Aq : site) (C : mx) (Z : site) : S k < L ->
    length (s_A X) = L -> length (s_A X') = L ->
    (forall j, j < L -> wsite d (Ds j) (Ds (S j)) (gA X j)) ->
    wsite d (Ds (S k)) (Ds (S (S k))) Aq -> wmx (Ds (S k)) (Ds (S k)) C ->
    (forall j, gA X' j = if Nat.eqb j k then Z else if Nat.eqb j (S k) then Aq else gA X j) ->
    dn (lset (s_A X') k (rmul_site (gA X k) C)) = dn (lset (s_A X) (S k) (lmul_site C Aq)).
  Proof.
    intros HSk lA lA' Hsh HAq HC EA.
    assert (HP : wsite d (Ds k) (Ds (S k)) (gA X k)) by (apply Hsh; lia).
    apply (dense_pair_ext R d Ds Hd L _ _ k); try (rewrite lset_length; assumption); try assumption.
    - intros j Hj. rewrite nth_lset_if by lia. destruct (Nat.eqb_spec j k) as [->|N].
      + apply (wsite_rmul R d (Ds (S k)) (Ds k) (Ds (S k))); assumption.
      + change (nth j (s_A X') []) with (gA X' j). rewrite EA. replace (Nat.eqb j k) with false by (symmetry; apply Nat.eqb_neq; lia).
        destruct (Nat.eqb_spec j (S k)) as [->|N']; [exact HAq|apply Hsh; exact Hj].
    - intros j Hj. rewrite nth_lset_if by lia. destruct (Nat.eqb_spec j (S k)) as [->|N]; [|apply Hsh; exact Hj].
      apply (wsite_lmul R d (Ds (S k)) (Ds (S k))); assumption.
    - intros j Hj N1 N2. rewrite !nth_lset_if by lia.
      replace (Nat.eqb j (S k)) with false by (symmetry; apply Nat.eqb_neq; lia).
      replace (Nat.eqb j k) with false by (symmetry; apply Nat.eqb_neq; lia).
      change (nth j (s_A X') []) with (gA X' j). rewrite EA.
      replace (Nat.eqb j (S k)) with false by (symmetry; apply Nat.eqb_neq; lia).
      replace (Nat.eqb j k) with false by (symmetry; apply Nat.eqb_neq; lia). reflexivity.
    - intros s t Hs0 Ht. rewrite !nth_lset_if by lia. rewrite !Nat.eqb_refl.
      replace (Nat.eqb (S k) k) with false by (symmetry; apply Nat.eqb_neq; lia).
      replace (Nat.eqb k (S k)) with false by (symmetry; apply Nat.eqb_neq; lia).
      change (nth (S k) (s_A X') []) with (gA X' (S k)). rewrite EA, Nat.eqb_refl.
      replace (Nat.eqb (S k) k) with false by (symmetry; apply Nat.eqb_neq; lia).
      change (nth k (s_A X) []) with (gA X k).
      apply (pair_move_left R d (Ds k) (Ds (S k)) (Ds (S (S k)))); assumption.
  Qed.

  Lemma lset_gA (X : sw) i : lset (s_A X) i (gA X i) = s_A X.
  Proof. unfold gA. apply lset_nth. Qed.

  (* ---------------- phase 1 ---------------- *)
  Theorem ph1_lr (X : sw) i : EIi i X -> i < m -> ok (s_tr (lr X i)) -> dn (s_A (lr X i)) = dn (s_A X).
  Proof.
    intros HEI Him Hok. pose proof Hprof as (_ & _ & HmL & PL & PR). assert (HSi : S i < L) by lia.
    destruct (elr_facts R qr kexp kexp0 Hs qd d Ds DW dt hdt Hd HW m Hk Hk0 X i HEI HSi Hok)
      as (p & p' & Aq & C & HA1 & HAq & Hiso & Hco & HC & EA1 & HC1 & HBLn & EA & EBL & EBR & l1 & l2 & l3).
    cbv zeta in *. destruct HEI as (lA & lBL & lBR & Hsh & Hlu & Hru & HwL & HwR & HrL & HrR & H0 & HL1).
    set (W := nth i Hs []) in *. set (BL := gBL X i) in *. set (BR := gBR X i) in *.
    set (C1 := kexp0 p' (contraction_operator_step_left Aq Aq W BL) BR C (kopp R hdt)) in *.
    assert (HBL : wenv (DW i) (Ds i) (Ds i) BL) by (apply HwL; lia).
    assert (HBR : wenv (DW (S i)) (Ds (S i)) (Ds (S i)) BR) by (apply HwR; lia).
    assert (HAi : wsite d (Ds i) (Ds (S i)) (gA X i)) by (apply Hsh; lia).
    assert (HU : lunitary Aq) by (split; [exact Hiso|apply Hco; apply PL; exact Him]).
    assert (EAi : gA X i = rmul_site Aq C1).
    { rewrite <- (kflow0 i p p BL BR (gA X i) hdt (kopp R hdt) ltac:(lia) HAi HBL HBR r_hm). fold W. rewrite EA1.
      apply (HIL i p p' BL BR Aq C (kopp R hdt)); try assumption; lia. }
    rewrite <- (lset_gA (lr X i) (S i)), <- (lset_gA X i).
    rewrite (EA (S i)), Nat.eqb_refl. replace (Nat.eqb (S i) i) with false by (symmetry; apply Nat.eqb_neq; lia).
    rewrite EAi.
    apply (move_lr X (lr X i) i Aq C1 (lmul_site C1 (gA X (S i)))); try assumption.
  Qed.

  (* ---------------- phase 2: a bond matrix is pending in front of site i ---------------- *)
  Definition Ph2 (i : nat) (st : sw) (phi1 : list R) : Prop :=
    EIi i st /\ m < i /\ exists (C : mx) (B : site) (p : nat),
      wmx (Ds i) (Ds i) C /\ wsite d (Ds i) (Ds (S i)) B /\ runitary B /\
      gBR st (i - 1) = contraction_operator_step_right B B (Wat i) (gBR st i) /\
      gA st i = lmul_site (kexp0 p (gBL st i) (gBR st (i - 1)) C (kopp R hdt)) B /\
      dn (lset (s_A st) i (lmul_site C B)) = phi1.

  (* common end of the two lemmas below: the body at site i started from A1 = (the tensor that the pending problem hides) *)
  Lemma ph2_make (X : sw) i phi1 : EIi i X -> m <= i -> S i < L -> ok (s_tr (lr X i)) ->
    (forall p, dn (lset (s_A X) i (kexp p (gBL X i) (gBR X i) (Wat i) (gA X i) hdt)) = phi1) ->
    Ph2 (S i) (lr X i) phi1.
  Proof.
    intros HEI Hmi HSi Hok Hphi.
    pose proof (EI_lr R qr kexp kexp0 Hs qd d Ds DW dt hdt Hd HW m Hprof Hk Hk0 X i HEI HSi Hok) as HEI'.
    destruct (elr_facts R qr kexp kexp0 Hs qd d Ds DW dt hdt Hd HW m Hk Hk0 X i HEI HSi Hok)
      as (p & p' & Aq & C & HA1 & HAq & Hiso & Hco & HC & EA1 & HC1 & HBLn & EA & EBL & EBR & l1 & l2 & l3).
    cbv zeta in *. destruct HEI as (lA & lBL & lBR & Hsh & Hlu & Hru & HwL & HwR & HrL & HrR & H0 & HL1).
    split; [exact HEI'|]. split; [lia|].
    exists C, (gA X (S i)), p'. replace (S i - 1) with i by lia.
    split; [exact HC|]. split; [apply Hsh; exact HSi|]. split; [apply Hru; lia|].
    split.
    { rewrite !EBR. replace i with (S i - 1) at 1 by lia. apply HrR. lia. }
    split.
    { rewrite (EA (S i)), Nat.eqb_refl. replace (Nat.eqb (S i) i) with false by (symmetry; apply Nat.eqb_neq; lia).
      rewrite (EBL (S i)), Nat.eqb_refl, EBR. reflexivity. }
    rewrite <- (Hphi p), EA1.
    eapply (move_lr X (lr X i) i Aq C); try eassumption.
  Qed.

  Theorem ph12 (X : sw) phi : EIi m X -> dn (s_A X) = phi -> S m < L -> ok (s_tr (lr X m)) -> Ph2 (S m) (lr X m) (G hdt phi).
  Proof.
    intros HEI Hphi HSm Hok. apply ph2_make; try assumption; [lia|].
    intros p. destruct HEI as (lA & lBL & lBR & Hsh & Hlu & Hru & HwL & HwR & HrL & HrR & H0 & HL1).
    rewrite (HG (s_A X) (gBL X) (gBR X) p (gA X m) hdt); try assumption.
    - rewrite lset_gA, Hphi. reflexivity.
    - apply Hsh. lia.
    - intros j Hj. apply Hlu; assumption.
    - intros j Hj. apply Hru; lia.
  Qed.

  Theorem ph2_lr (X : sw) i phi1 : Ph2 i X phi1 -> S i < L -> ok (s_tr (lr X i)) -> Ph2 (S i) (lr X i) phi1.
  Proof.
    intros (HEI & Hmi & Co & Bo & po & HCo & HBo & HUo & EBR0 & EAi & Hphi) HSi Hok.
    apply ph2_make; try assumption; [lia|].
    intros p. destruct HEI as (lA & lBL & lBR & Hsh & Hlu & Hru & HwL & HwR & HrL & HrR & H0 & HL1).
    assert (HBL : wenv (DW i) (Ds i) (Ds i) (gBL X i)) by (apply HwL; lia).
    assert (HBR : wenv (DW (S i)) (Ds (S i)) (Ds (S i)) (gBR X i)) by (apply HwR; lia).
    assert (HY : wsite d (Ds i) (Ds (S i)) (lmul_site Co Bo)) by (apply (wsite_lmul R d (Ds i) (Ds i)); assumption).
    assert (EAi' : gA X i = kexp p (gBL X i) (gBR X i) (Wat i) (lmul_site Co Bo) (kopp R hdt)).
    { rewrite EAi, EBR0. symmetry. apply (HIR i p po (gBL X i) (gBR X i) Bo Co (kopp R hdt)); try assumption; lia. }
    rewrite EAi' at 1. rewrite (kflow0 i p p (gBL X i) (gBR X i) (lmul_site Co Bo) (kopp R hdt) hdt ltac:(lia) HY HBL HBR r_mh).
    exact Hphi.
  Qed.

  (* ---------------- phase 3: a site step is pending at the centre ---------------- *)
  Definition Ph3 (i : nat) (st : sw) (phi1 : list R) : Prop :=
    EIi i st /\ exists (Ap : site) (p : nat), wsite d (Ds i) (Ds (S i)) Ap /\
      gA st i = kexp p (gBL st i) (gBR st i) (Wat i) Ap hdt /\ dn (lset (s_A st) i Ap) = phi1.

  Theorem ph2_mid (X : sw) phi1 : Ph2 (L - 1) X phi1 -> Ph3 (L - 1) (mid X (L - 1)) phi1.
  Proof.
    intros (HEI & Hmi & Co & Bo & po & HCo & HBo & HUo & EBR0 & EAi & Hphi).
    assert (HiL : L - 1 < L) by lia.
    pose proof (EI_mid R kexp Hs d Ds DW dt hdt Hd m Hk X (L - 1) HEI HiL) as HEI'.
    destruct HEI as (lA & lBL & lBR & Hsh & Hlu & Hru & HwL & HwR & HrL & HrR & H0 & HL1).
    set (i := L - 1) in *.
    assert (HBL : wenv (DW i) (Ds i) (Ds i) (gBL X i)) by (apply HwL; lia).
    assert (HBR : wenv (DW (S i)) (Ds (S i)) (Ds (S i)) (gBR X i)) by (apply HwR; lia).
    assert (HY : wsite d (Ds i) (Ds (S i)) (lmul_site Co Bo)) by (apply (wsite_lmul R d (Ds i) (Ds i)); assumption).
    split; [exact HEI'|]. exists (lmul_site Co Bo), (length (s_tr X)). split; [exact HY|].
    unfold tdvp1_mid. unfold gA at 1, gBL at 1, gBR at 1. cbn [s_A s_BL s_BR]. change (tval dt hdt 2) with dt.
    rewrite nth_lset_same by lia. rewrite lset_lset. split; [|exact Hphi].
    assert (EAi' : gA X i = kexp po (gBL X i) (gBR X i) (Wat i) (lmul_site Co Bo) (kopp R hdt)).
    { rewrite EAi, EBR0. symmetry. apply (HIR i po po (gBL X i) (gBR X i) Bo Co (kopp R hdt)); try assumption; lia. }
    rewrite EAi'. apply (kflow i po _ _ (gBL X i) (gBR X i) (lmul_site Co Bo) (kopp R hdt) dt hdt); try assumption; try lia; apply r_md.
  Qed.

  Theorem ph3_rl (X : sw) k phi1 : Ph3 (S k) X phi1 -> m < S k -> S k < L -> ok (s_tr (rl X (S k))) -> Ph3 k (rl X (S k)) phi1.
  Proof.
    intros (HEI & Ap & pa & HAp & EAi & Hphi) Hmk HkL Hok. pose proof Hprof as (_ & _ & HmL & PL & PR).
    pose proof (EI_rl R qr kexp kexp0 Hs qd d Ds DW dt hdt Hd HW m Hprof Hk Hk0 X k HEI HkL Hok) as HEI'.
    destruct (erl_facts R qr kexp kexp0 Hs qd d Ds DW dt hdt Hd HW m Hk Hk0 X k HEI HkL Hok)
      as (p' & p'' & Aq & Ct & HAq & Hiso & Hco & HCt & EX & HC1 & HBRn & HApn & HAp1 & EA & EBL & EBR & l1 & l2 & l3).
    cbv zeta in *. destruct HEI as (lA & lBL & lBR & Hsh & Hlu & Hru & HwL & HwR & HrL & HrR & H0 & HL1).
    set (BRn := contraction_operator_step_right Aq Aq (Wat (S k)) (gBR X (S k))) in *.
    set (C1 := kexp0 p' (gBL X (S k)) BRn Ct (kopp R hdt)) in *.
    assert (HBL : wenv (DW (S k)) (Ds (S k)) (Ds (S k)) (gBL X (S k))) by (apply HwL; lia).
    assert (HBR : wenv (DW (S (S k))) (Ds (S (S k))) (Ds (S (S k))) (gBR X (S k))) by (apply HwR; lia).
    assert (HU : runitary Aq) by (split; [exact Hiso|apply Hco; symmetry; apply PR; lia]).
    (* the pending tensor is C1 . Aq *)
    assert (EAp : Ap = lmul_site C1 Aq).
    { rewrite <- (kflow0 (S k) pa pa (gBL X (S k)) (gBR X (S k)) Ap hdt (kopp R hdt) HkL HAp HBL HBR r_hm).
      rewrite <- EAi, EX. apply (HIR (S k) pa p' (gBL X (S k)) (gBR X (S k)) Aq Ct (kopp R hdt)); try assumption. }
    split; [exact HEI'|]. exists (rmul_site (gA X k) C1), p''. split; [exact HApn|]. split.
    - rewrite (EA k), Nat.eqb_refl, EBL, (EBR k), Nat.eqb_refl. reflexivity.
    - rewrite <- Hphi, EAp. eapply (move_rl X (rl X (S k)) k Aq C1); try eassumption.
  Qed.

  Theorem ph34 (X : sw) phi1 : Ph3 m X phi1 -> dn (s_A X) = G hdt phi1.
  Proof.
    intros (HEI & Ap & pa & HAp & EAi & Hphi).
    destruct HEI as (lA & lBL & lBR & Hsh & Hlu & Hru & HwL & HwR & HrL & HrR & H0 & HL1).
    rewrite <- (lset_gA X m), EAi, <- Hphi.
    apply (HG (s_A X) (gBL X) (gBR X) pa Ap hdt); try assumption.
    - intros j Hj. apply Hlu; assumption.
    - intros j Hj. apply Hru; lia.
  Qed.

  (* ---------------- phase 4 ---------------- *)
  Theorem ph4_rl (X : sw) k : EIi (S k) X -> S k <= m -> ok (s_tr (rl X (S k))) -> dn (s_A (rl X (S k))) = dn (s_A X).
  Proof.
    intros HEI Hkm Hok. pose proof Hprof as (_ & _ & HmL & PL & PR). assert (HkL : S k < L) by lia.
    destruct (erl_facts R qr kexp kexp0 Hs qd d Ds DW dt hdt Hd HW m Hk Hk0 X k HEI HkL Hok)
      as (p' & p'' & Aq & Ct & HAq & Hiso & Hco & HCt & EX & HC1 & HBRn & HApn & HAp1 & EA & EBL & EBR & l1 & l2 & l3).
    cbv zeta in *. destruct HEI as (lA & lBL & lBR & Hsh & Hlu & Hru & HwL & HwR & HrL & HrR & H0 & HL1).
    set (BRn := contraction_operator_step_right Aq Aq (Wat (S k)) (gBR X (S k))) in *.
    set (C1 := kexp0 p' (gBL X (S k)) BRn Ct (kopp R hdt)) in *.
    set (P := gA X k) in *.
    assert (HP : wsite d (Ds k) (Ds (S k)) P) by (apply Hsh; lia).
    assert (HUP : lunitary P) by (apply Hlu; lia).
    assert (HBLk : wenv (DW k) (Ds k) (Ds k) (gBL X k)) by (apply HwL; lia).
    assert (HY : wsite d (Ds k) (Ds (S k)) (rmul_site P Ct)) by (apply (wsite_rmul R d (Ds (S k)) (Ds k) (Ds (S k))); assumption).
    (* P . C1 is the site flow of P . Ct for -dt/2 *)
    assert (EAp : rmul_site P C1 = kexp p'' (gBL X k) BRn (Wat k) (rmul_site P Ct) (kopp R hdt)).
    { symmetry. unfold C1. rewrite (HrL k ltac:(lia)). fold P.
      apply (HIL k p'' p' (gBL X k) BRn P Ct (kopp R hdt)); try assumption; lia. }
    assert (EAp1 : gA (rl X (S k)) k = rmul_site P Ct).
    { rewrite (EA k), Nat.eqb_refl, EAp. apply (kflow0 k p'' p'' (gBL X k) BRn (rmul_site P Ct) (kopp R hdt) hdt); try assumption; [lia|apply r_mh]. }
    rewrite <- (lset_gA (rl X (S k)) k), <- (lset_gA X (S k)). rewrite EAp1, EX.
    eapply (move_rl X (rl X (S k)) k Aq Ct); try eassumption.
  Qed.

  (* ---------------- the middle step when the split site is the last site ---------------- *)
  Theorem ph1_mid (X : sw) : EIi (L - 1) X -> m = L - 1 -> dn (s_A (mid X (L - 1))) = G dt (dn (s_A X)).
  Proof.
    intros HEI Em. destruct HEI as (lA & lBL & lBR & Hsh & Hlu & Hru & HwL & HwR & HrL & HrR & H0 & HL1).
    pose proof Hprof as (_ & _ & HmL & _). rewrite <- Em in Hlu, Hru, HwL, HwR, HrL, HrR, HL1 |- *.
    unfold tdvp1_mid. cbn [s_A]. change (tval dt hdt 2) with dt.
    rewrite (HG (s_A X) (gBL X) (gBR X) (length (s_tr X)) (gA X m) dt); try assumption.
    - rewrite lset_gA. reflexivity.
    - apply Hsh. lia.
    - intros j Hj. apply Hlu; assumption.
    - intros j Hj. apply Hru; lia.
    - rewrite <- Em. exact HL1.
  Qed.
End Phase.

Arguments Ph2 {R} kexp0 Hs d Ds DW hdt m i st phi1. Arguments Ph3 {R} kexp Hs d Ds DW hdt m i st phi1.
