(* C09 exactness, two-site — from loop bodies to whole steps and whole runs: one step of integrate_local_twosite on a complete
   manifold applies G dt to the dense state, n steps apply G (n dt); the prologue (orthonormalize, right blocks) establishes
   the structural invariant.  Top statements: [tdvp2_exact] (every L >= 2), [tdvp2_exact_L2], [tdvp2_exact_L3]. *)
From Coq Require Import ZArith Arith List Lia Ring Setoid Bool.
From PT Require Import Base.Scalar Base.BigSum Base.Mx Model.Tensor Model.Operation Model.Sweeps
  Proofs.OperationEntries Proofs.SweepsCanon Proofs.SweepsFlow Proofs.SweepsSched Proofs.SweepsLocal Proofs.SweepsRun Proofs.SweepsGauge
  Proofs.Sweeps2Inv Proofs.Sweeps2Run
  Proofs.ReverseDefs Proofs.ReverseMx Proofs.ReverseGauge Proofs.ReverseL1 Proofs.ReverseQR Proofs.ReverseFwd Proofs.ReverseTop
  Proofs.ExactDefs Proofs.ExactAmp Proofs.ExactStep Proofs.ExactRun Proofs.Exact2Defs Proofs.Exact2Step Proofs.Exact2Phase.
Import ListNotations.

Section Run2.
  Variable R : cring.
  Add Ring Rring_exact2_run : (k_rt R).
  Notation site := (site R).
  Notation osite := (osite R).
  Notation env := (env R).
  Notation mx := (mx R).
  Notation sw := (sw R).
  Variable split : nat -> site -> list BinNums.Z -> list BinNums.Z -> list BinNums.Z -> list BinNums.Z -> bool -> site * site * list BinNums.Z.
  Variable kexp : kexp_t R.
  Variable Hs : list osite.
  Variable qd : list BinNums.Z.
  Variable d : nat.
  Variables Ds DW : nat -> nat.
  Notation L := (length Hs).
  Variables (dt hdt : R).
  Notation lr := (tdvp2_lr split kexp Hs qd dt hdt).
  Notation rl := (tdvp2_rl split kexp Hs qd dt hdt).
  Notation mid := (tdvp2_mid split kexp Hs qd dt hdt).
  Notation step := (tdvp2_step split kexp Hs qd dt hdt L).
  Notation ok := (ex2_tr_ok split d Ds).
  Hypothesis Hd : 0 < d.
  Hypothesis HW : forall j, j < L -> osite_ok d (DW j) (DW (S j)) (nth j Hs []).
  Hypothesis HDW : forall j, 0 < DW j.
  Variable m : nat.
  Hypothesis Hprof : complete_profile Hs d Ds m.
  Hypothesis Hk : kexp_flowH Hs d Ds DW kexp.
  Hypothesis Hk2 : kexp2_flowH Hs d Ds DW kexp.
  Hypothesis HIL : intertwine2_left Hs d Ds DW kexp.
  Hypothesis HIR : intertwine2_right Hs d Ds DW kexp.
  Variable G : R -> list R -> list R.
  Hypothesis HG : kexp2_global Hs d Ds G (Nat.min m (L - 2)) kexp.
  Hypothesis HGf : G_flow Hs d G.
  Hypothesis Hdt : kadd R hdt hdt = dt.
  Hypothesis HL2 : 2 <= L.
  Notation EIi := (EI Hs d Ds DW m).
  Notation dn := (dense d L).
  Notation Ph2i := (Ph2 kexp Hs d Ds DW hdt m).
  Notation Ph3i := (Ph3 kexp Hs d Ds DW hdt m).

  Definition PLf2 (phi : list R) (i : nat) (st : sw) : Prop :=
    if Nat.leb i m then EIi i st /\ dn (s_A st) = phi else Ph2i i st (G hdt phi).
  Definition PRf2 (phi : list R) (k : nat) (st : sw) : Prop :=
    if Nat.ltb m k then Ph3i k st (G hdt phi) else EIi k st /\ dn (s_A st) = G hdt (G hdt phi).

  Theorem step2_exact (X : sw) : EIi 0 X -> ok (s_tr (step X)) -> EIi 0 (step X) /\ dn (s_A (step X)) = G dt (dn (s_A X)).
  Proof.
    intros HEI Hok1. set (phi := dn (s_A X)). pose proof Hprof as (_ & _ & HmL & _).
    unfold tdvp2_step in *. cbv zeta in *.
    set (X1 := fold_left lr (seq 0 (L - 2)) X) in *. set (X2 := mid X1 (L - 2)) in *.
    pose proof (suf_tdvp2_lr R split kexp Hs qd dt hdt) as mlr. pose proof (suf_tdvp2_rl R split kexp Hs qd dt hdt) as mrl.
    pose proof (ex2_tr_ok_suffix R split d Ds) as sF.
    assert (Hok2 : ok (s_tr X2)).
    { destruct (fold_mono (@s_tr R) rl mrl (rev (seq 0 (L - 2))) X2) as [new E]. rewrite E in Hok1. exact (sF _ _ Hok1). }
    assert (Hok0 : ok (s_tr X1)).
    { destruct (suf_tdvp2_mid R split kexp Hs qd dt hdt X1 (L - 2)) as [new E]. fold X2 in E. rewrite E in Hok2. exact (sF _ _ Hok2). }
    assert (Hphi2 : G hdt (G hdt phi) = G dt phi).
    { unfold phi. rewrite (proj2 (HGf (s_A X)) hdt hdt), Hdt. reflexivity. }
    (* left-to-right sweep *)
    assert (G1 : PLf2 phi (0 + (L - 2)) X1).
    { unfold X1. apply (fold_up (@s_tr R) lr mlr ok sF (PLf2 phi) (L - 2) 0 X); [|exact Hok0|].
      - unfold PLf2. cbn [Nat.leb]. split; [exact HEI|reflexivity].
      - intros i s' Hi HP Hok. unfold PLf2 in *.
        destruct (Nat.leb_spec i m) as [Him|Him].
        + destruct HP as [HE Hph]. destruct (Nat.leb_spec (S i) m) as [Him'|Him'].
          * split; [apply (EI2_lr R split kexp Hs qd d Ds DW dt hdt Hd HW m Hprof Hk Hk2 s' i HE ltac:(lia) Hok)|].
            rewrite <- Hph. apply (ph1_lr2 R split kexp Hs qd d Ds DW dt hdt Hd HW m Hprof Hk Hk2 HIL s' i HE ltac:(lia) ltac:(lia) Hok).
          * assert (i = m) by lia. subst i.
            apply (ph12_2 R split kexp Hs qd d Ds DW dt hdt Hd HW m Hprof Hk Hk2 G (Nat.min m (L - 2)) HG s' phi ltac:(lia) HE Hph ltac:(lia) Hok).
        + destruct (Nat.leb_spec (S i) m) as [Him'|Him']; [lia|].
          apply (ph2_lr2 R split kexp Hs qd d Ds DW dt hdt Hd HW m Hprof Hk Hk2 HIR s' i (G hdt phi) HP ltac:(lia) Hok). }
    cbn [Nat.add] in G1.
    (* the rightmost pair *)
    assert (G2 : PRf2 phi (L - 2) X2).
    { unfold PLf2 in G1. unfold PRf2, X2. destruct (Nat.leb_spec (L - 2) m) as [Hlm|Hlm].
      - destruct G1 as [HE Hph].
        replace (Nat.ltb m (L - 2)) with false by (symmetry; apply Nat.ltb_ge; lia).
        split; [apply (EI2_mid R split kexp Hs qd d Ds DW dt hdt Hd HW m Hprof Hk2 X1 (L - 2) HE ltac:(lia) Hok2)|].
        rewrite (ph_mid_G R split kexp Hs qd d Ds DW dt hdt Hd HW m Hk2 G (Nat.min m (L - 2)) HG X1 (L - 2) ltac:(lia) HE Hlm ltac:(lia) Hok2).
        rewrite Hph, Hphi2. reflexivity.
      - replace (Nat.ltb m (L - 2)) with true by (symmetry; apply Nat.ltb_lt; lia).
        apply (ph2_mid2 R split kexp Hs qd d Ds DW dt hdt Hd HW m Hprof Hk Hk2 HIR Hdt X1 (L - 2) (G hdt phi) G1 ltac:(lia) Hok2). }
    (* right-to-left sweep *)
    assert (G3 : PRf2 phi 0 (fold_left rl (rev (seq 0 (L - 2))) X2)).
    { apply (fold_down0 (@s_tr R) rl mrl ok sF (PRf2 phi) (L - 2) X2 G2 Hok1).
      intros k s' Hk' HP Hok. unfold PRf2 in *.
      destruct (Nat.ltb_spec m (S k)) as [Hmk|Hmk].
      - destruct (Nat.ltb_spec m k) as [Hmk'|Hmk'].
        + apply (ph3_rl2 R split kexp Hs qd d Ds DW dt hdt Hd HW m Hprof Hk Hk2 HIR s' k (G hdt phi) HP Hmk' ltac:(lia) Hok).
        + assert (k = m) by lia. subst k. pose proof HP as (HE & _).
          split; [apply (EI2_rl R split kexp Hs qd d Ds DW dt hdt Hd HW m Hprof Hk Hk2 s' m HE ltac:(lia) Hok)|].
          apply (ph34_2 R split kexp Hs qd d Ds DW dt hdt Hd HW m Hk Hk2 HIR G (Nat.min m (L - 2)) HG s' (G hdt phi) ltac:(lia) HP ltac:(lia) Hok).
      - destruct HP as [HE Hph]. replace (Nat.ltb m k) with false by (symmetry; apply Nat.ltb_ge; lia).
        split; [apply (EI2_rl R split kexp Hs qd d Ds DW dt hdt Hd HW m Hprof Hk Hk2 s' k HE ltac:(lia) Hok)|].
        rewrite <- Hph. apply (ph4_rl2 R split kexp Hs qd d Ds DW dt hdt Hd HW m Hk Hk2 HIL s' k HE Hmk ltac:(lia) Hok). }
    unfold PRf2 in G3. cbn [Nat.ltb Nat.leb] in G3. destruct G3 as [HE Hph]. split; [exact HE|]. rewrite Hph. exact Hphi2.
  Qed.

  Theorem iter2_exact n : forall (X : sw) (As0 : list site) (tau : R),
    EIi 0 X -> dn (s_A X) = G tau (dn As0) -> ok (s_tr (iter n step X)) ->
    EIi 0 (iter n step X) /\ dn (s_A (iter n step X)) = G (kadd R tau (nmul n dt)) (dn As0).
  Proof.
    induction n as [|n IH]; intros X As0 tau HEI Hph Hok.
    - cbn [iter nmul]. split; [exact HEI|]. rewrite Hph. f_equal. ring.
    - cbn [iter] in *.
      assert (Hok1 : ok (s_tr (step X))).
      { destruct (suf_tdvp2_iter R split kexp Hs qd dt hdt n (step X)) as [new E]. rewrite E in Hok. exact (ex2_tr_ok_suffix R split d Ds _ _ Hok). }
      destruct (step2_exact X HEI Hok1) as [HE1 Hd1].
      destruct (IH (step X) As0 (kadd R tau dt) HE1) as [HE2 Hd2]; [|exact Hok|].
      + rewrite Hd1, Hph. apply (proj2 (HGf As0)).
      + split; [exact HE2|]. rewrite Hd2. f_equal. rewrite nmul_S. ring.
  Qed.
End Run2.

Section Top2.
  Variable R : cring.
  Add Ring Rring_exact2_top : (k_rt R).
  Notation site := (site R).
  Notation osite := (osite R).
  Notation mx := (mx R).
  Notation sw := (sw R).

  Theorem tdvp2_exact orth split (kexp : kexp_t R) (H : mpo R) psi dt hdt n d Ds DW m G A1 qD1 nrm tr :
    let L := length (o_A H) in
    tdvp_twosite orth split kexp H psi dt hdt n = Some (A1, qD1, nrm, tr) ->
    0 < d -> (forall j, j < L -> osite_ok d (DW j) (DW (S j)) (nth j (o_A H) [])) ->
    DW 0 = 1 -> DW L = 1 -> complete_profile (o_A H) d Ds m -> kadd R hdt hdt = dt ->
    kexp_flowH (o_A H) d Ds DW kexp -> kexp2_flowH (o_A H) d Ds DW kexp ->
    intertwine2_left (o_A H) d Ds DW kexp -> intertwine2_right (o_A H) d Ds DW kexp ->
    kexp2_global (o_A H) d Ds G (Nat.min m (L - 2)) kexp -> G_flow (o_A H) d G ->
    (forall j, j < L -> wsite d (Ds j) (Ds (S j)) (nth j (m_A (fst (orth psi))) [])) ->
    (forall j, m < j < L -> runitary (nth j (m_A (fst (orth psi))) [])) ->
    ex2_tr_ok split d Ds (rev tr) ->
    2 <= L /\ nrm = snd (orth psi) /\ dense d L A1 = G (nmul n dt) (dense d L (m_A (fst (orth psi)))).
  Proof.
    intros L Hrun Hd HW HW0 HWL Hprof Hdt Hk Hk2 HIL HIR HG HGf Hsh Hru Hok.
    unfold tdvp_twosite in Hrun.
    destruct (Nat.ltb_spec (length (o_A H)) 2) as [|HL2]; [discriminate|]. fold L in HL2.
    destruct (sweep_init orth H psi) as [[st n1]|] eqn:E1; [|discriminate].
    destruct (sweep_init_rec R orth H psi st n1 E1) as (a1 & a2 & a3 & HL & a5 & a6 & a7 & a8 & a9 & a10).
    fold L in HL, a5, a6, a7, a9, a10.
    injection Hrun as EA1 _ En Etr. split; [exact HL2|]. split; [congruence|].
    rewrite <- Etr, rev_involutive in Hok. rewrite <- a1 in Hsh, Hru |- *.
    assert (E0 : EI (o_A H) d Ds DW m 0 st) by (apply (init_EI R (o_A H) d Ds DW m st); assumption).
    fold L in EA1, Hok.
    destruct (iter2_exact R split kexp (o_A H) (m_qd psi) d Ds DW dt hdt Hd HW m Hprof Hk Hk2 HIL HIR G HG HGf Hdt HL2 n st (s_A st) (k0 R) E0) as [_ Hden].
    - symmetry. apply (proj1 (HGf (s_A st))).
    - exact Hok.
    - fold L in Hden. rewrite <- EA1, Hden. f_equal. ring.
  Qed.

  (* ---------------- L = 3, bond dimensions 1, d, d, 1 (split site 1; the complete pair is (1, 2)) ---------------- *)
  Theorem tdvp2_exact_L3 orth split (kexp : kexp_t R) (H : mpo R) psi dt hdt n d DW G A1 qD1 nrm tr :
    let Ds := fun j => if Nat.eqb j 1 then d else if Nat.eqb j 2 then d else 1 in
    length (o_A H) = 3 ->
    tdvp_twosite orth split kexp H psi dt hdt n = Some (A1, qD1, nrm, tr) ->
    0 < d -> (forall j, j < 3 -> osite_ok d (DW j) (DW (S j)) (nth j (o_A H) [])) -> DW 0 = 1 -> DW 3 = 1 ->
    kadd R hdt hdt = dt ->
    kexp_flowH (o_A H) d Ds DW kexp -> kexp2_flowH (o_A H) d Ds DW kexp ->
    intertwine2_left (o_A H) d Ds DW kexp -> intertwine2_right (o_A H) d Ds DW kexp ->
    kexp2_global (o_A H) d Ds G 1 kexp -> G_flow (o_A H) d G ->
    wsite d 1 d (nth 0 (m_A (fst (orth psi))) []) -> wsite d d d (nth 1 (m_A (fst (orth psi))) []) ->
    wsite d d 1 (nth 2 (m_A (fst (orth psi))) []) -> runitary (nth 2 (m_A (fst (orth psi))) []) ->
    ex2_tr_ok split d Ds (rev tr) ->
    nrm = snd (orth psi) /\ dense d 3 A1 = G (nmul n dt) (dense d 3 (m_A (fst (orth psi)))).
  Proof.
    intros Ds HL Hrun Hd HW HW0 HW3 Hdt Hk Hk2 HIL HIR HG HGf Hs0 Hs1 Hs2 Hu2 Hok.
    pose proof (tdvp2_exact orth split kexp H psi dt hdt n d Ds DW 1 G A1 qD1 nrm tr) as T. cbv zeta in T. rewrite HL in T.
    apply T; try assumption.
    - unfold complete_profile. rewrite HL. unfold Ds. cbn [Nat.eqb]. split; [reflexivity|]. split; [reflexivity|]. split; [lia|]. split.
      + intros j Hj. assert (j = 0) by lia. subst j. cbn [Nat.eqb]. lia.
      + intros j Hj. assert (j = 2) by lia. subst j. cbn [Nat.eqb]. lia.
    - intros j Hj. destruct j as [|[|[|j]]]; [exact Hs0|exact Hs1|exact Hs2|lia].
    - intros j Hj. assert (j = 2) by lia. subst j. exact Hu2.
  Qed.
End Top2.

(* ---------------- L = 2: a single pair, the two-site solver IS the global flow; only (F2), (A2), (G) and the exact-split
   contract are needed (no intertwining, no one-site solver: the schedule is the single call K2_0(dt)) ---------------- *)
Section TopL2.
  Variable R : cring.
  Add Ring Rring_exact2_top2 : (k_rt R).
  Notation site := (site R).
  Notation osite := (osite R).
  Notation mx := (mx R).
  Notation sw := (sw R).
  Variable split : nat -> site -> list BinNums.Z -> list BinNums.Z -> list BinNums.Z -> list BinNums.Z -> bool -> site * site * list BinNums.Z.
  Variable kexp : kexp_t R.
  Variable Hs : list osite.
  Variable qd : list BinNums.Z.
  Variable d : nat.
  Variables Ds DW : nat -> nat.
  Variables (dt hdt : R).
  Hypothesis Hd : 0 < d.
  Hypothesis HW : forall j, j < length Hs -> osite_ok d (DW j) (DW (S j)) (nth j Hs []).
  Hypothesis HL : length Hs = 2.
  Hypothesis Hprof : complete_profile Hs d Ds 1.
  Hypothesis Hk2 : kexp2_flowH Hs d Ds DW kexp.
  Variable G : R -> list R -> list R.
  Hypothesis HG : kexp2_global Hs d Ds G 0 kexp.
  Hypothesis HGf : G_flow Hs d G.
  Notation step := (tdvp2_step split kexp Hs qd dt hdt (length Hs)).
  Notation ok := (ex2_tr_ok split d Ds).

  Lemma step2_exact_L2 (X : sw) : EI Hs d Ds DW 1 0 X -> ok (s_tr (step X)) ->
    EI Hs d Ds DW 1 0 (step X) /\ dense d (length Hs) (s_A (step X)) = G dt (dense d (length Hs) (s_A X)).
  Proof.
    intros HEI Hok. unfold tdvp2_step in *. replace (length Hs - 2) with 0 in * by lia. cbn [seq rev fold_left] in *.
    split.
    - apply (EI2_mid R split kexp Hs qd d Ds DW dt hdt Hd HW 1 Hprof Hk2 X 0 HEI ltac:(lia) Hok).
    - apply (ph_mid_G R split kexp Hs qd d Ds DW dt hdt Hd HW 1 Hk2 G 0 HG X 0 eq_refl HEI ltac:(lia) ltac:(lia) Hok).
  Qed.

  Lemma iter2_exact_L2 n : forall (X : sw) (As0 : list site) (tau : R),
    EI Hs d Ds DW 1 0 X -> dense d (length Hs) (s_A X) = G tau (dense d (length Hs) As0) -> ok (s_tr (iter n step X)) ->
    dense d (length Hs) (s_A (iter n step X)) = G (kadd R tau (nmul n dt)) (dense d (length Hs) As0).
  Proof.
    induction n as [|n IH]; intros X As0 tau HEI Hph Hok.
    - cbn [iter nmul]. rewrite Hph. f_equal. ring.
    - cbn [iter] in *.
      assert (Hok1 : ok (s_tr (step X))).
      { destruct (suf_tdvp2_iter R split kexp Hs qd dt hdt n (step X)) as [new E]. rewrite E in Hok. exact (ex2_tr_ok_suffix R split d Ds _ _ Hok). }
      destruct (step2_exact_L2 X HEI Hok1) as [HE1 Hd1].
      rewrite (IH (step X) As0 (kadd R tau dt) HE1); [|rewrite Hd1, Hph; apply (proj2 (HGf As0))|exact Hok].
      f_equal. rewrite nmul_S. ring.
  Qed.
End TopL2.

Section TopL2Thm.
Variable R : cring.
Add Ring Rring_exact2_top2b : (k_rt R).
Theorem tdvp2_exact_L2 orth split (kexp : kexp_t R) (H : mpo R) psi dt hdt n d DW G A1 qD1 nrm tr :
  let Ds := fun j => if Nat.eqb j 1 then d else 1 in
  length (o_A H) = 2 ->
  tdvp_twosite orth split kexp H psi dt hdt n = Some (A1, qD1, nrm, tr) ->
  0 < d -> (forall j, j < 2 -> osite_ok d (DW j) (DW (S j)) (nth j (o_A H) [])) -> DW 0 = 1 -> DW 2 = 1 ->
  kexp2_flowH (o_A H) d Ds DW kexp -> kexp2_global (o_A H) d Ds G 0 kexp -> G_flow (o_A H) d G ->
  wsite d 1 d (nth 0 (m_A (fst (orth psi))) []) -> wsite d d 1 (nth 1 (m_A (fst (orth psi))) []) ->
  ex2_tr_ok split d Ds (rev tr) ->
  nrm = snd (orth psi) /\ dense d 2 A1 = G (nmul n dt) (dense d 2 (m_A (fst (orth psi)))).
Proof.
  intros Ds HL Hrun Hd HW HW0 HW2 Hk2 HG HGf Hs0 Hs1 Hok.
  unfold tdvp_twosite in Hrun. rewrite HL in Hrun. cbn [Nat.ltb Nat.leb] in Hrun.
  destruct (sweep_init orth H psi) as [[st n1]|] eqn:E1; [|discriminate].
  destruct (sweep_init_rec R orth H psi st n1 E1) as (a1 & a2 & a3 & HL1 & a5 & a6 & a7 & a8 & a9 & a10).
  injection Hrun as EA1 _ En Etr. split; [congruence|].
  rewrite <- Etr, rev_involutive in Hok.
  assert (Hprof : complete_profile (o_A H) d Ds 1).
  { unfold complete_profile. rewrite HL. unfold Ds. cbn [Nat.eqb]. split; [reflexivity|]. split; [reflexivity|]. split; [lia|]. split.
    - intros j Hj. assert (j = 0) by lia. subst j. cbn [Nat.eqb]. lia.
    - intros j Hj. lia. }
  assert (E0 : EI (o_A H) d Ds DW 1 0 st).
  { apply (init_EI R (o_A H) d Ds DW 1 st); try assumption.
    - intros j Hj. apply HW. lia.
    - rewrite HL. exact HW2.
    - intros j Hj. unfold gA. rewrite a1. rewrite HL in Hj. destruct j as [|[|j]]; [exact Hs0|exact Hs1|lia].
    - intros j Hj. lia. }
  assert (HW' : forall j, j < length (o_A H) -> osite_ok d (DW j) (DW (S j)) (nth j (o_A H) [])) by (intros j Hj; apply HW; lia).
  pose proof (iter2_exact_L2 R split kexp (o_A H) (m_qd psi) d Ds DW dt hdt Hd HW' HL Hprof Hk2 G HG HGf n st (s_A st) (k0 R) E0) as Hden.
  rewrite HL in *. rewrite <- EA1, <- a1. rewrite Hden.
  - f_equal. ring.
  - symmetry. pose proof (proj1 (HGf (s_A st))) as H0. rewrite HL in H0. exact H0.
  - exact Hok.
Qed.
End TopL2Thm.
