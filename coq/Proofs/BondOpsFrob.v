(* Frobenius norm of U diag(w) V for U with orthonormal columns and V with orthonormal rows (raw index sums). *)
From Coq Require Import ZArith List Bool Lia Arith Ring.
From PT Require Import Base.Scalar Base.BigSum Base.Mx Model.BondOps Proofs.BondOpsLoop.
Import ListNotations.

Section Frob.
  Variable R : cring.
  Add Ring Rring_frob : (k_rt R).
  Notation rO := (k0 R). Notation rI := (k1 R).
  Infix "+!" := (kadd R) (at level 50, left associativity).
  Infix "*!" := (kmul R) (at level 40, left associativity).
  Notation cj := (kconj R).

  Lemma sumn2_factor m n (a b : nat -> R) (w : R) :
    sumn m (fun i => sumn n (fun j => a i *! w *! b j)) = sumn m a *! w *! sumn n b.
  Proof.
    rewrite (sumn_ext R m _ (fun i => a i *! (w *! sumn n b))).
    - rewrite sumn_scal_r. ring.
    - intros i Hi. rewrite sumn_scal_l. ring.
  Qed.

  Lemma conj_delta k l : cj (delta R k l) = delta R k l.
  Proof. unfold delta. destruct (Nat.eqb k l); [apply kconj_1|apply kconj_0]. Qed.

  Lemma frob_usv m n D (U V : nat -> nat -> R) (w : nat -> R) :
    (forall k l, k < D -> l < D -> sumn m (fun i => cj (U i k) *! U i l) = delta R k l) ->
    (forall k l, k < D -> l < D -> sumn n (fun j => V k j *! cj (V l j)) = delta R k l) ->
    sumn m (fun i => sumn n (fun j =>
      cj (sumn D (fun c => U i c *! w c *! V c j)) *! sumn D (fun d => U i d *! w d *! V d j)))
    = sumn D (fun c => cj (w c) *! w c).
  Proof.
    intros HU HV.
    set (X := fun i j c d => (cj (U i c) *! U i d) *! (cj (w c) *! w d) *! (cj (V c j) *! V d j)).
    transitivity (sumn m (fun i => sumn n (fun j => sumn D (fun c => sumn D (fun d => X i j c d))))).
    { apply sumn_ext; intros i Hi. apply sumn_ext; intros j Hj.
      rewrite sumn_conj. rewrite <- sumn_scal_r. apply sumn_ext; intros c Hc.
      rewrite <- sumn_scal_l. apply sumn_ext; intros d Hd. unfold X. rewrite !kconj_mul. ring. }
    transitivity (sumn m (fun i => sumn D (fun c => sumn n (fun j => sumn D (fun d => X i j c d))))).
    { apply sumn_ext; intros i Hi. apply sumn_exch. }
    transitivity (sumn D (fun c => sumn m (fun i => sumn n (fun j => sumn D (fun d => X i j c d))))).
    { apply sumn_exch. }
    apply sumn_ext; intros c Hc.
    transitivity (sumn m (fun i => sumn D (fun d => sumn n (fun j => X i j c d)))).
    { apply sumn_ext; intros i Hi. apply sumn_exch. }
    transitivity (sumn D (fun d => sumn m (fun i => sumn n (fun j => X i j c d)))).
    { apply sumn_exch. }
    rewrite (sumn_single R D c); [| exact Hc |].
    - unfold X. rewrite sumn2_factor. rewrite (HU c c Hc Hc).
      assert (E : sumn n (fun j => cj (V c j) *! V c j) = delta R c c).
      { rewrite <- (conj_delta c c). rewrite <- (HV c c Hc Hc). rewrite sumn_conj.
        apply sumn_ext; intros j Hj. rewrite kconj_mul, kconj_inv. ring. }
      rewrite E. unfold delta. rewrite Nat.eqb_refl. ring.
    - intros d Hd Hne. unfold X. rewrite sumn2_factor. rewrite (HU c d Hc Hd).
      unfold delta. replace (Nat.eqb c d) with false by (symmetry; apply Nat.eqb_neq; lia). ring.
  Qed.
End Frob.
