(* Link 2b: the local operators of pytenet/operation.py as entrywise linear operators on site tensors of a fixed shape:
   apply_local_hamiltonian L R W (one-site; also the merged two-site problem, with d*d and the merged MPO tensor)
   and apply_local_bond_contraction L R (on the one-matrix site [C]). *)
From Coq Require Import ZArith List Bool Arith Lia Ring Field.
From PT Require Import Base.Scalar Base.Field Base.BigSum Base.Mx Model.Tensor Model.Operation Model.Krylov
  Proofs.OperationEntries Proofs.KrylovVec Proofs.KrylovLanczos Proofs.KrylovMatvec Proofs.KrylovRitz Proofs.LinkFlatten.
Import ListNotations.

Section Helpers.
  Variable F : ofield.
  Notation K := (Cx F).
  Add Ring Kring_llo0 : (k_rt (Cx F)).
  Infix "+" := (kadd K). Infix "*" := (kmul K).
  Lemma mul_add_r (a b l x : K) : x = a + b -> x * l = a * l + b * l.
  Proof. intros ->. ring. Qed.
  Lemma mul_add_l (w a b x : K) : x = a + b -> w * x = w * a + w * b.
  Proof. intros ->. ring. Qed.
  Lemma mul_scal_r (k a l x : K) : x = k * a -> x * l = k * (a * l).
  Proof. intros ->. ring. Qed.
  Lemma mul_scal_l (k w a x : K) : x = k * a -> w * x = k * (w * a).
  Proof. intros ->. ring. Qed.
End Helpers.

Section AlhOp.
  Variable F : ofield.
  Notation K := (Cx F).
  Add Ring Kring_llo1 : (k_rt (Cx F)).
  Infix "+" := (kadd K). Infix "*" := (kmul K).
  Variables d Dl Dr Dwl Dwr : nat.
  Variables (BL BR : env K) (W : osite K).
  Hypothesis Hd : (0 < d)%nat.
  Hypothesis Hwl : (0 < Dwl)%nat.
  Hypothesis Hwr : (0 < Dwr)%nat.
  Hypothesis HW : osite_ok d Dwl Dwr W.
  Hypothesis HL : env_ok Dwl Dl Dl BL.
  Hypothesis HR : env_ok Dwr Dr Dr BR.

  Lemma alh_site_ok (X : site K) : site_ok d Dl Dr (apply_local_hamiltonian BL BR W X).
  Proof.
    destruct (osite_ok_odl K d Dwl Dwr W Hd HW) as (_ & _ & E9).
    destruct (env_ok_edl K Dwl Dl Dl BL Hwl HL) as (_ & G2 & _). destruct (env_ok_edl K Dwr Dr Dr BR Hwr HR) as (_ & G5 & _).
    unfold apply_local_hamiltonian. cbv zeta. rewrite E9, G2, G5. split.
    - unfold tabl. rewrite map_length, seq_length. reflexivity.
    - intros s Hs. unfold sel, tabl. rewrite (nth_map_seq (zeromx 0 0)) by exact Hs. split; reflexivity.
  Qed.

  Theorem alh_local_op : local_op F d Dl Dr (apply_local_hamiltonian BL BR W).
  Proof.
    split.
    - intros X _. apply alh_site_ok.
    - intros X Y Z HX HY HZ Hent s b c Hs Hb Hc.
      rewrite !(get_local_hamiltonian K d Dl Dr Dl Dr Dwl Dwr) by assumption.
      rewrite <- sumn_add. apply sumn_ext; intros a Ha. rewrite <- sumn_add. apply sumn_ext; intros wl Hwl'.
      apply mul_add_r. rewrite <- sumn_add. apply sumn_ext; intros t Ht. rewrite <- sumn_add. apply sumn_ext; intros wr Hwr'.
      apply mul_add_l. rewrite <- sumn_add. apply sumn_ext; intros c' Hc'. rewrite (Hent t a c') by assumption. ring.
    - intros k X Z HX HZ Hent s b c Hs Hb Hc.
      rewrite !(get_local_hamiltonian K d Dl Dr Dl Dr Dwl Dwr) by assumption.
      rewrite <- sumn_scal_l. apply sumn_ext; intros a Ha. rewrite <- sumn_scal_l. apply sumn_ext; intros wl Hwl'.
      apply mul_scal_r. rewrite <- sumn_scal_l. apply sumn_ext; intros t Ht. rewrite <- sumn_scal_l. apply sumn_ext; intros wr Hwr'.
      apply mul_scal_l. rewrite <- sumn_scal_l. apply sumn_ext; intros c' Hc'. rewrite (Hent t a c') by assumption. ring.
  Qed.
End AlhOp.

Section OneSite.
  Variable F : ofield.
  Notation K := (Cx F).
  Lemma sel_one (M : mx K) : sel [M] 0 = M. Proof. reflexivity. Qed.
  Lemma mx_site_ok Dl Dr (C : mx K) : nr C = Dl -> nc C = Dr -> site_ok 1 Dl Dr [C].
  Proof. intros H1 H2. split; [reflexivity|]. intros s Hs. assert (s = 0)%nat as -> by lia. rewrite sel_one. auto. Qed.
End OneSite.

Section BondOp.
  Variable F : ofield.
  Notation K := (Cx F).
  Add Ring Kring_llo2 : (k_rt (Cx F)).
  Infix "+" := (kadd K). Infix "*" := (kmul K).
  Variables Dl Dr Dw : nat.
  Variables (BL BR : env K).
  Hypothesis Hw : (0 < Dw)%nat.
  Hypothesis HL : env_ok Dw Dl Dl BL.
  Hypothesis HR : env_ok Dw Dr Dr BR.

  (* the zero-site operator on the one-matrix site [C] *)
  Definition bond_op (S : site K) : site K := [apply_local_bond_contraction BL BR (sel S 0)].


  Theorem bond_local_op : local_op F 1 Dl Dr bond_op.
  Proof.
    destruct (env_ok_edl K Dw Dl Dl BL Hw HL) as (_ & G2 & _). destruct (env_ok_edl K Dw Dr Dr BR Hw HR) as (_ & G5 & _).
    split.
    - intros X _. unfold bond_op. apply mx_site_ok; unfold apply_local_bond_contraction; cbv zeta; cbn [nr nc tab]; assumption.
    - intros X Y Z [_ HX] [_ HY] [_ HZ] Hent s b c Hs Hb Hc. assert (s = 0)%nat as -> by lia. unfold bond_op. rewrite !sel_one.
      destruct (HX 0%nat ltac:(lia)) as [X1 X2]. destruct (HY 0%nat ltac:(lia)) as [Y1 Y2]. destruct (HZ 0%nat ltac:(lia)) as [Z1 Z2].
      rewrite !(get_local_bond K Dl Dr Dl Dr Dw) by assumption.
      rewrite <- sumn_add. apply sumn_ext; intros a Ha. rewrite <- sumn_add. apply sumn_ext; intros w Hw'.
      apply mul_add_l. rewrite <- sumn_add. apply sumn_ext; intros c' Hc'. rewrite (Hent 0%nat a c') by (assumption || lia). ring.
    - intros k X Z [_ HX] [_ HZ] Hent s b c Hs Hb Hc. assert (s = 0)%nat as -> by lia. unfold bond_op. rewrite !sel_one.
      destruct (HX 0%nat ltac:(lia)) as [X1 X2]. destruct (HZ 0%nat ltac:(lia)) as [Z1 Z2].
      rewrite !(get_local_bond K Dl Dr Dl Dr Dw) by assumption.
      rewrite <- sumn_scal_l. apply sumn_ext; intros a Ha. rewrite <- sumn_scal_l. apply sumn_ext; intros w Hw'.
      apply mul_scal_l. rewrite <- sumn_scal_l. apply sumn_ext; intros c' Hc'. rewrite (Hent 0%nat a c') by (assumption || lia). ring.
  Qed.
End BondOp.

Section Frob.
  Variable F : ofield.
  Notation K := (Cx F).
  Add Ring Kring_llo3 : (k_rt (Cx F)).
  (* <[Y] | [X]> = frob Y X *)
  Lemma site_dot_one (Y X : mx K) : site_dot [Y] [X] = frob Y X.
  Proof. unfold site_dot, frob, sdl, sdr. cbn [length sumn]. rewrite !sel_one. ring. Qed.
End Frob.
