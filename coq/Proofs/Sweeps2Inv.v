(* C08/C10, two-site sweeps — the two-site form of the mixed-canonical invariant of the sweep state (Model/Sweeps.v):
   sites < i left-isometric, sites > i+1 right-isometric, BL[0..i] / BR[i+1..] the blocks of those sites, the pair
   (A[i], A[i+1]) arbitrary.  Evaluation of norm and energy at the pair through ANY tensor M of the merged shape whose
   entries factor through the pair (M[s*d+t] = A0[s] . A1[t] entrywise: the merged tensor itself, or the tensor that an
   exact split was applied to); hand-over between the one-site invariant [Z] of Proofs/SweepsInv.v and the two-site one
   (centre on the left or on the right site of the pair), and back after a split that leaves one factor isometric. *)
From Coq Require Import ZArith Arith List Lia Ring Setoid Bool.
From PT Require Import Base.Scalar Base.BigSum Base.Mx Model.Tensor Model.Operation Model.Sweeps
  Proofs.OperationSums Proofs.OperationEntries Proofs.OperationChains Proofs.OperationLocal Proofs.OperationUniform
  Proofs.OperationTwoSite Proofs.SweepsCanon Proofs.SweepsFlow Proofs.SweepsLocal Proofs.SweepsGauge Proofs.SweepsBond Proofs.SweepsInv.
Import ListNotations.

(* ---------------- words ---------------- *)
Lemma in_gwords_cons_intro d ds s w : s < d -> In w (gwords ds) -> In (s :: w) (gwords (d :: ds)).
Proof. intros Hs Hw. cbn [gwords]. apply in_flat_map. exists s. split; [apply in_seq; lia|]. apply in_map. exact Hw. Qed.

Lemma in_coarse dsl : forall d0 d1 dsr w, In w (gwords (dsl ++ d0 :: d1 :: dsr)) ->
  In (coarse_word (length dsl) d1 w) (gwords (dsl ++ (d0 * d1) :: dsr)).
Proof.
  induction dsl as [|x dsl IH]; intros d0 d1 dsr w Hw; cbn [app length] in *.
  - apply in_gwords_cons in Hw. destruct Hw as (s0 & w1 & -> & Hs0 & Hw).
    apply in_gwords_cons in Hw. destruct Hw as (s1 & v & -> & Hs1 & Hv).
    cbn [coarse_word]. apply in_gwords_cons_intro; [nia|exact Hv].
  - apply in_gwords_cons in Hw. destruct Hw as (s & w1 & -> & Hs & Hw).
    cbn [coarse_word]. apply in_gwords_cons_intro; [exact Hs|]. apply IH. exact Hw.
Qed.

Lemma skipn_len_app {T} (l r : list T) : skipn (length l) (l ++ r) = r.
Proof. induction l; [reflexivity|]. cbn [length skipn app]. exact IHl. Qed.
Lemma skipn_Ds_last (dsl : list nat) : forall (DsAl rest : list nat), length DsAl = S (length dsl) ->
  skipn (length dsl) (DsAl ++ rest) = last DsAl 0 :: rest.
Proof.
  induction dsl as [|x dsl IH]; intros DsAl rest H.
  - destruct DsAl as [|D [|? ?]]; cbn [length] in H; try discriminate. reflexivity.
  - destruct DsAl as [|D [|D' Ds']]; cbn [length] in H; try discriminate. cbn [length skipn app].
    change (last (D :: D' :: Ds') 0) with (last (D' :: Ds') 0). apply (IH (D' :: Ds')). cbn [length]. lia.
Qed.

Section Ext.
  Variable R : cring.
  Add Ring Rring_sweeps2_inv_a : (k_rt R).
  Infix "*" := (kmul R).
  Notation site := (site R).
  Notation osite := (osite R).
  Notation mx := (mx R).

  Lemma chainx_Ds_length (Al : list site) : forall dsl DsAl, chainx_ok dsl DsAl Al -> length DsAl = S (length dsl).
  Proof.
    induction Al as [|A Al IH]; intros dsl DsAl H.
    - apply chainx_ok_nil_inv in H. destruct H as [-> [D ->]]. reflexivity.
    - apply chainx_ok_cons_inv in H. destruct H as (d & ds' & Dl & Dr & Ds' & -> & -> & _ & _ & H).
      pose proof (IH _ _ H) as E. cbn [length] in *. lia.
  Qed.

  (* amplitudes depend on a site tensor only through its entries *)
  Theorem amp_site_ext (Al Ar : list site) (X X' : site) dsl DsAl d0 Dl Dr dsr DsAr :
    chainx_ok dsl DsAl Al -> last DsAl 0%nat = Dl -> hd 0%nat DsAl = 1%nat -> (0 < d0)%nat ->
    site_ok d0 Dl Dr X -> site_ok d0 Dl Dr X' -> chain_ok dsr (Dr :: DsAr) Ar ->
    (forall s a c, (s < d0)%nat -> (a < Dl)%nat -> (c < Dr)%nat -> get (sel X s) a c = get (sel X' s) a c) ->
    forall w, In w (gwords (dsl ++ d0 :: dsr)) -> amp (Al ++ X :: Ar) w = amp (Al ++ X' :: Ar) w.
  Proof.
    intros HAl Hl Hh Hd0 HX HX' HAr Hent w Hw.
    destruct (chain_glue R Al dsl DsAl d0 Dl Dr X dsr DsAr Ar HAl Hl Hd0 HX HAr) as [C1 h1].
    destruct (chain_glue R Al dsl DsAl d0 Dl Dr X' dsr DsAr Ar HAl Hl Hd0 HX' HAr) as [C2 h2].
    assert (Hlen : length Al = length dsl) by (apply (chainx_ok_length R dsl DsAl Al HAl)).
    pose proof (chainx_Ds_length Al dsl DsAl HAl) as HlenD.
    rewrite !amp_cvec.
    apply (cvec_prefix_ext R Al (dsl ++ d0 :: dsr) (DsAl ++ Dr :: DsAr) (DsAl ++ Dr :: DsAr) (X :: Ar) (X' :: Ar));
      try assumption; try reflexivity.
    - intros w' a' Hw' Ha'. rewrite Hlen, skipn_len_app in Hw'. rewrite Hlen, (skipn_Ds_last dsl DsAl _ HlenD), Hl in Ha'. cbn [hd] in Ha'.
      apply in_gwords_cons in Hw'. destruct Hw' as (s & w1 & -> & Hs & Hw1).
      rewrite (cvec_cons R d0 dsr Dl Dr DsAr) by (try assumption; apply chain_ok_cons; assumption).
      rewrite (cvec_cons R d0 dsr Dl Dr DsAr) by (try assumption; apply chain_ok_cons; assumption).
      apply sumn_ext; intros c Hc. rewrite Hent by assumption. reflexivity.
    - rewrite h1, Hh. lia.
  Qed.

  (* M[s*d1 + t] = A0[s] . A1[t] entrywise (bond dimension k between the factors) *)
  Definition fac2 (d1 Dl k Dr : nat) (M A0 A1 : site) : Prop :=
    forall s t a e, (s < length A0)%nat -> (t < d1)%nat -> (a < Dl)%nat -> (e < Dr)%nat ->
      get (sel M (s * d1 + t)) a e = sumn k (fun j => get (sel A0 s) a j * get (sel A1 t) j e).

  Lemma fac2_merge d0 d1 Dl k Dr (A0 A1 : site) : site_ok d0 Dl k A0 -> site_ok d1 k Dr A1 ->
    fac2 d1 Dl k Dr (c04_merge_site A0 A1) A0 A1.
  Proof.
    intros [L0 K0] [L1 K1] s t a e Hs Ht Ha He. rewrite (merge_sel R d1) by assumption.
    rewrite L0 in Hs. destruct (K0 s Hs) as [F1 F2]. destruct (K1 t Ht) as [F3 F4].
    rewrite get_mulmx by lia. rewrite F2. reflexivity.
  Qed.

  Lemma fac2_entries d0 d1 Dl k Dr (M A0 A1 : site) : (0 < d1)%nat -> site_ok d0 Dl k A0 -> site_ok d1 k Dr A1 ->
    fac2 d1 Dl k Dr M A0 A1 ->
    forall u a c, (u < d0 * d1)%nat -> (a < Dl)%nat -> (c < Dr)%nat -> get (sel M u) a c = get (sel (c04_merge_site A0 A1) u) a c.
  Proof.
    intros Hd1 H0 H1 HM u a c Hu Ha Hc.
    assert (Eu : u = ((u / d1) * d1 + u mod d1)%nat) by (rewrite Nat.mul_comm; apply Nat.div_mod; lia).
    assert (Hs0 : (u / d1 < d0)%nat) by (apply Nat.div_lt_upper_bound; lia).
    assert (Hs1 : (u mod d1 < d1)%nat) by (apply Nat.mod_upper_bound; lia).
    pose proof (fac2_merge d0 d1 Dl k Dr A0 A1 H0 H1) as HM'. destruct H0 as [L0 _].
    rewrite Eu. rewrite HM by (try assumption; lia). rewrite HM' by (try assumption; lia). reflexivity.
  Qed.
End Ext.

Arguments fac2 {R} d1 Dl k Dr M A0 A1.

Section Inv2.
  Variable R : cring.
  Add Ring Rring_sweeps2_inv : (k_rt R).
  Infix "*" := (kmul R).
  Notation site := (site R).
  Notation osite := (osite R).
  Notation env := (env R).
  Notation mx := (mx R).
  Notation cj := (kconj R).
  Notation sw := (sw R).

  Variable Hs : list osite.
  Variable d : nat.
  Variable DsW : list nat.
  Hypothesis Hd : 0 < d.
  Hypothesis HWs : ochain_ok (repeat d (length Hs)) DsW Hs.
  Hypothesis HhW : hd 0 DsW = 1.
  (* list structure of the MPO tensors (d rows of d matrices): part of mpo_shapeb, not of ochain_ok *)
  Hypothesis HWst : Forall (osite_struct d) Hs.
  Notation L := (length Hs).
  Notation NN := (NN R Hs d).
  Notation EE := (EE R Hs d).
  Notation alh := (alh R).
  Notation Z := (Z R Hs d).

  (* the merged MPO tensor of the pair (i, i+1), as the code forms it *)
  Definition Hm (i : nat) : osite := c04_merge_osite (nth i Hs []) (nth (S i) Hs []).

  Lemma ochain_split2 i : S i < L ->
    exists Wl W0 W1 Wr DsWl Dwm Dwr DsWr, Hs = Wl ++ W0 :: W1 :: Wr /\ length Wl = i /\
      ochainx_ok (repeat d i) DsWl Wl /\ hd 0 DsWl = 1 /\ 0 < Dwr /\
      osite_ok d (last DsWl 0) Dwm W0 /\ osite_ok d Dwm Dwr W1 /\
      ochain_ok (repeat d (length Wr)) (Dwr :: DsWr) Wr.
  Proof.
    intros Hi.
    destruct (ochain_split R d DsW Hd HhW i Hs DsW HWs ltac:(lia)) as (Wl & W & Wr & DsWl & Dwr & DsWr & EH & Hl & HWl & HhWl & HDwr & HW & HWr).
    destruct Wr as [|W1 Wr'].
    { exfalso. pose proof (f_equal (@length _) EH) as E. rewrite app_length in E. cbn [length] in E. lia. }
    cbn [length repeat] in HWr. apply ochain_ok_cons_inv in HWr.
    destruct HWr as (d0 & ds' & Dl0 & D2 & DsWr' & E1 & E2 & _ & HD2 & HW1 & HWr'). injection E1 as <- <-. injection E2 as <- ->.
    exists Wl, W, W1, Wr', DsWl, Dwr, D2, DsWr'. rewrite HhW in HhWl. auto 10.
  Qed.

  (* ---------------- evaluation of norm and energy at a pair ---------------- *)
  Lemma zip2_eval (Al Ar : list site) DsAl Dar DsAr :
    (length Al + S (S (length Ar)))%nat = L ->
    chainx_ok (repeat d (length Al)) DsAl Al -> hd 0 DsAl = 1 -> chain_ok (repeat d (length Ar)) (Dar :: DsAr) Ar ->
    Forall left_iso Al -> Forall right_iso Ar ->
    forall (M Y0 Y1 : site) k, site_ok (d * d) (last DsAl 0) Dar M -> site_ok d (last DsAl 0) k Y0 -> site_ok d k Dar Y1 ->
      fac2 d (last DsAl 0) k Dar M Y0 Y1 ->
      NN (Al ++ Y0 :: Y1 :: Ar) = site_dot M M /\
      EE (Al ++ Y0 :: Y1 :: Ar) =
        site_dot M (alh (BLof Al (firstn (length Al) Hs)) (BRof Ar (skipn (S (S (length Al))) Hs)) (Hm (length Al)) M).
  Proof.
    intros HL HAl Hh HAr Hli Hri M Y0 Y1 k HM HY0 HY1 Hfac.
    destruct (ochain_split2 (length Al) ltac:(lia)) as (Wl & W0 & W1 & Wr & DsWl & Dwm & Dwr & DsWr & EH & Hl & HWl & HhWl & HDwr & HW0 & HW1 & HWr).
    assert (HlenWr : length Wr = length Ar).
    { pose proof (f_equal (@length _) EH) as E. rewrite app_length in E. cbn [length] in E. lia. }
    rewrite HlenWr in HWr.
    assert (F1 : firstn (length Al) Hs = Wl) by (rewrite EH, <- Hl; apply firstn_app_exact).
    assert (F2 : skipn (S (S (length Al))) Hs = Wr).
    { rewrite EH, <- Hl. clear. induction Wl as [|a Wl IH]; [reflexivity|]. cbn [app length]. exact IH. }
    assert (F3 : nth (length Al) Hs [] = W0) by (rewrite EH, <- Hl; apply nth_middle).
    assert (F4 : nth (S (length Al)) Hs [] = W1) by (rewrite EH, <- Hl; apply nth_app_mid2).
    assert (S0 : osite_struct d W0).
    { rewrite Forall_forall in HWst. apply HWst. rewrite EH. apply in_or_app. right. left. reflexivity. }
    assert (S1 : osite_struct d W1).
    { rewrite Forall_forall in HWst. apply HWst. rewrite EH. apply in_or_app. right. right. left. reflexivity. }
    unfold Hm. rewrite F1, F2, F3, F4.
    assert (Hdd : 0 < d * d) by (apply Nat.mul_pos_pos; exact Hd).
    set (dsl := repeat d (length Al)) in *. set (dsr := repeat d (length Ar)) in *.
    assert (Hlen : length dsl = length Al) by (unfold dsl; apply repeat_length).
    (* fine amplitudes = coarse amplitudes of the chain with M at the pair *)
    assert (Hamp : forall w, In w (gwords (dsl ++ d :: d :: dsr)) ->
              amp (Al ++ Y0 :: Y1 :: Ar) w = amp (Al ++ M :: Ar) (coarse_word (length dsl) d w)).
    { intros w Hw. rewrite <- (amp_merge R Al dsl DsAl d d (last DsAl 0) k Dar dsr DsAr Y0 Y1 Ar w) by assumption.
      symmetry. apply (amp_site_ext R Al Ar M (c04_merge_site Y0 Y1) dsl DsAl (d * d) (last DsAl 0) Dar dsr DsAr); try assumption; try reflexivity.
      - apply (merge_site_ok R d d (last DsAl 0) k Dar); assumption.
      - intros u a c Hu Ha Hc. apply (fac2_entries R d d (last DsAl 0) k Dar); assumption.
      - apply in_coarse. exact Hw. }
    destruct (chain_glue R Al dsl DsAl (d * d) (last DsAl 0) Dar M dsr DsAr Ar HAl eq_refl Hdd HM HAr) as [G g].
    assert (EW : words d L = gwords (dsl ++ d :: d :: dsr)) by (rewrite <- HL; symmetry; apply words_glue2).
    unfold NN, EE, SweepsInv.NN, SweepsInv.EE, dnorm2, denergy, alh, SweepsInv.alh. rewrite EW. split.
    - transitivity (suml (gwords (dsl ++ d :: d :: dsr))
                      (fun w => (fun u => cj (amp (Al ++ M :: Ar) u) * amp (Al ++ M :: Ar) u) (coarse_word (length dsl) d w))).
      { apply suml_ext; intros w Hw. cbv beta. rewrite (Hamp w Hw). reflexivity. }
      rewrite <- (suml_coarse R dsl d d dsr (fun u => cj (amp (Al ++ M :: Ar) u) * amp (Al ++ M :: Ar) u)).
      apply (mixed_canonical_norm_g R Al Ar M _ _ G); [rewrite g; exact Hh|exact Hli|exact Hri].
    - symmetry. rewrite EH. unfold BLof, BRof.
      rewrite (two_site_projection R Al Ar Al Ar Wl Wr M M W0 W1 dsl dsr d d
                 (last DsAl 0) Dar (last DsAl 0) Dar (last DsWl 0) Dwm Dwr DsAl DsAl DsWl DsAr DsAr DsWr); auto;
        try (unfold dsl; rewrite <- Hl in HWl; exact HWl).
      cbv zeta. apply suml_ext; intros w Hw. apply suml_ext; intros w' Hw'.
      rewrite (Hamp w Hw), (Hamp w' Hw'). reflexivity.
  Qed.

  (* ---------------- the two-site invariant ---------------- *)
  Definition Z2 (st : sw) (i : nat) : Prop :=
    exists Al X0 X1 Ar DsAl Dm Dar DsAr,
      s_A st = Al ++ X0 :: X1 :: Ar /\ length Al = i /\ (i + S (S (length Ar)))%nat = L /\
      chainx_ok (repeat d i) DsAl Al /\ hd 0 DsAl = 1 /\ site_ok d (last DsAl 0) Dm X0 /\ site_ok d Dm Dar X1 /\
      chain_ok (repeat d (length Ar)) (Dar :: DsAr) Ar /\
      Forall left_iso Al /\ Forall right_iso Ar /\
      (forall j, j <= i -> gBL st j = BLof (firstn j Al) (firstn j Hs)) /\
      (forall j, j <= length Ar -> gBR st (S i + j) = BRof (skipn j Ar) (skipn (S (S i + j)) Hs)) /\
      length (s_BL st) = L /\ length (s_BR st) = L.

  (* centre on the left site of the pair *)
  Lemma Z_Z2_left (st : sw) i : Z st i -> S i < L -> Z2 st i.
  Proof.
    intros (Al & X & Ar & DsAl & Dar & DsAr & EA & Hlen & HL & HAl & Hh & HX & HAr & Hli & Hri & HBL & HBR & lBL & lBR) HSi.
    destruct Ar as [|B Ar']; [cbn [length] in HL; lia|].
    cbn [length repeat] in HAr, HL. apply chain_ok_cons_inv in HAr.
    destruct HAr as (d0 & ds' & Dl0 & D2 & DsAr' & E1 & E2 & _ & HB & HAr'). injection E1 as <- <-. injection E2 as <- ->.
    exists Al, X, B, Ar', DsAl, Dar, D2, DsAr'.
    split; [exact EA|]. split; [exact Hlen|]. split; [lia|]. split; [exact HAl|]. split; [exact Hh|]. split; [exact HX|]. split; [exact HB|].
    split; [exact HAr'|]. split; [exact Hli|]. split; [exact (Forall_inv_tail Hri)|]. split; [exact HBL|].
    split; [|split; assumption].
    intros j Hj. pose proof (HBR (S j) ltac:(cbn [length]; lia)) as E. cbn [skipn] in E.
    replace (S i + j)%nat with (i + S j)%nat by lia. exact E.
  Qed.

  (* centre on the right site of the pair *)
  Lemma Z_Z2_right (st : sw) i : Z st (S i) -> Z2 st i.
  Proof.
    intros (Al & X & Ar & DsAl & Dar & DsAr & EA & Hlen & HL & HAl & Hh & HX & HAr & Hli & Hri & HBL & HBR & lBL & lBR).
    destruct (snoc_split Al) as (Al' & P & ->); [destruct Al; [cbn [length] in Hlen; lia|discriminate]|].
    rewrite app_length in Hlen. cbn [length] in Hlen. assert (Hl' : length Al' = i) by lia.
    cbn [repeat] in HAl. rewrite repeat_cons in HAl.
    destruct (chainx_unsnoc R Al' _ DsAl P HAl) as (dsl' & DsAl' & dp & E1 & E2 & Hdp & HAl' & HP & Hh' & Hlen').
    destruct (repeat_snoc_inv d dsl' dp i) as [-> ->]; [cbn [repeat]; rewrite repeat_cons; exact E1|lia|].
    exists Al', P, X, Ar, DsAl', (last DsAl 0), Dar, DsAr.
    split; [rewrite EA, <- app_assoc; reflexivity|]. split; [exact Hl'|]. split; [lia|]. split; [exact HAl'|]. split; [congruence|].
    split; [exact HP|]. split; [exact HX|]. split; [exact HAr|].
    split; [apply Forall_app in Hli; destruct Hli as [Hli1 _]; exact Hli1|]. split; [exact Hri|].
    split. { intros j Hj. rewrite <- (firstn_app_le Al' [P]) by lia. apply HBL. lia. }
    split; [|split; assumption].
    intros j Hj. exact (HBR j Hj).
  Qed.

  Definition heff2 (st : sw) (i : nat) (Y : site) : R := site_dot Y (alh (gBL st i) (gBR st (S i)) (Hm i) Y).

  (* replacing the pair by factors of a tensor M' of the merged shape *)
  Theorem Z2_center (st : sw) i : Z2 st i ->
    let M := c04_merge_site (gA st i) (gA st (S i)) in
    exists Dl Dr, site_ok (d * d) Dl Dr M /\ NN (s_A st) = site_dot M M /\ EE (s_A st) = heff2 st i M /\
      forall (M' A0 A1 : site) k (st' : sw), site_ok (d * d) Dl Dr M' -> site_ok d Dl k A0 -> site_ok d k Dr A1 ->
        fac2 d Dl k Dr M' A0 A1 ->
        s_A st' = lset (lset (s_A st) i A0) (S i) A1 -> s_BL st' = s_BL st -> s_BR st' = s_BR st ->
        Z2 st' i /\ NN (s_A st') = site_dot M' M' /\ EE (s_A st') = heff2 st i M' /\ gA st' i = A0 /\ gA st' (S i) = A1.
  Proof.
    intros (Al & X0 & X1 & Ar & DsAl & Dm & Dar & DsAr & EA & Hlen & HL & HAl & Hh & HX0 & HX1 & HAr & Hli & Hri & HBL & HBR & lBL & lBR) M.
    subst i.
    assert (GA0 : gA st (length Al) = X0) by (unfold gA; rewrite EA; apply nth_middle).
    assert (GA1 : gA st (S (length Al)) = X1) by (unfold gA; rewrite EA; apply nth_app_mid2).
    assert (GL : gBL st (length Al) = BLof Al (firstn (length Al) Hs)) by (rewrite (HBL (length Al)) by lia; rewrite firstn_all; reflexivity).
    assert (GR : gBR st (S (length Al)) = BRof Ar (skipn (S (S (length Al))) Hs)).
    { pose proof (HBR 0 ltac:(lia)) as E. rewrite Nat.add_0_r in E. exact E. }
    pose proof (zip2_eval Al Ar DsAl Dar DsAr HL HAl Hh HAr Hli Hri) as Hev.
    exists (last DsAl 0), Dar. unfold heff2, M. rewrite GA0, GA1, GL, GR, EA.
    assert (HM : site_ok (d * d) (last DsAl 0) Dar (c04_merge_site X0 X1)) by (apply (merge_site_ok R d d _ Dm); assumption).
    destruct (Hev _ X0 X1 Dm HM HX0 HX1 (fac2_merge R d d _ Dm _ X0 X1 HX0 HX1)) as [N1 E1].
    split; [exact HM|]. split; [exact N1|]. split; [exact E1|].
    intros M' A0 A1 k st' HM' HA0 HA1 Hfac EA' EBL EBR. rewrite lset_app_mid, lset_app_mid2 in EA'. rewrite EA'.
    destruct (Hev M' A0 A1 k HM' HA0 HA1 Hfac) as [N2 E2].
    split; [|split; [exact N2|split; [exact E2|split; [unfold gA; rewrite EA'; apply nth_middle|unfold gA; rewrite EA'; apply nth_app_mid2]]]].
    exists Al, A0, A1, Ar, DsAl, k, Dar, DsAr. unfold gBL, gBR in *. rewrite EBL, EBR.
    split; [exact EA'|]. split; [reflexivity|]. split; [exact HL|]. split; [exact HAl|]. split; [exact Hh|]. split; [exact HA0|]. split; [exact HA1|].
    split; [exact HAr|]. split; [exact Hli|]. split; [exact Hri|]. split; [exact HBL|]. split; [exact HBR|]. split; assumption.
  Qed.

  Lemma lfold_snoc' (Al : list site) : forall (Wl : list osite) (A : site) (W : osite) (E : env), length Wl = length Al ->
    lfold (Al ++ [A]) (Al ++ [A]) (Wl ++ [W]) E = contraction_operator_step_left A A W (lfold Al Al Wl E).
  Proof.
    induction Al as [|B Al IH]; intros [|V Wl] A W E Hl; cbn [length] in Hl; try discriminate; [reflexivity|].
    cbn [app lfold]. apply IH. lia.
  Qed.
  Lemma firstn_S_nth' {T} (l : list T) n dflt : n < length l -> firstn (S n) l = firstn n l ++ [nth n l dflt].
  Proof.
    revert n; induction l as [|a l IH]; intros [|n] H; cbn [length] in H; try lia; [reflexivity|].
    cbn [firstn nth app]. f_equal. apply IH. lia.
  Qed.
  Lemma skipn_nth_cons {T} (l : list T) n dflt : n < length l -> skipn n l = nth n l dflt :: skipn (S n) l.
  Proof.
    revert n; induction l as [|a l IH]; intros [|n] Hn; cbn [length] in Hn; try lia; [reflexivity|]. cbn [skipn nth]. apply IH. lia.
  Qed.

  (* hand-over to the one-site invariant: after a split that leaves A[i] left-isometric the centre is the site i+1 ... *)
  Theorem Z2_to_right (st st' : sw) i : Z2 st i -> left_iso (gA st i) ->
    s_A st' = s_A st -> s_BR st' = s_BR st ->
    s_BL st' = lset (s_BL st) (S i) (contraction_operator_step_left (gA st i) (gA st i) (nth i Hs []) (gBL st i)) ->
    Z st' (S i).
  Proof.
    intros (Al & X0 & X1 & Ar & DsAl & Dm & Dar & DsAr & EA & Hlen & HL & HAl & Hh & HX0 & HX1 & HAr & Hli & Hri & HBL & HBR & lBL & lBR) Hiso EA' EBR EBL.
    subst i.
    assert (GA0 : gA st (length Al) = X0) by (unfold gA; rewrite EA; apply nth_middle). rewrite GA0 in *.
    assert (GL : gBL st (length Al) = BLof Al (firstn (length Al) Hs)) by (rewrite (HBL (length Al)) by lia; rewrite firstn_all; reflexivity).
    destruct (chainx_snoc R d Hd Al _ DsAl Dm X0 HAl HX0) as (HAl' & Hlast' & Hh').
    assert (Hlen1 : length (Al ++ [X0]) = S (length Al)) by (rewrite app_length; cbn [length]; lia).
    exists (Al ++ [X0]), X1, Ar, (DsAl ++ [Dm]), Dar, DsAr.
    split; [rewrite EA', EA, <- app_assoc; reflexivity|]. split; [exact Hlen1|]. split; [lia|].
    split; [cbn [repeat]; rewrite repeat_cons; exact HAl'|]. split; [congruence|]. split; [rewrite Hlast'; exact HX1|]. split; [exact HAr|].
    split; [apply Forall_app; split; [exact Hli|constructor; [exact Hiso|constructor]]|]. split; [exact Hri|].
    split.
    { intros j Hj. unfold gBL. rewrite EBL. destruct (Nat.eq_dec j (S (length Al))) as [->|Hne].
      - rewrite nth_lset_same by lia. rewrite firstn_all2 by lia.
        rewrite (firstn_S_nth' Hs (length Al) []) by lia. unfold BLof. rewrite lfold_snoc' by (rewrite firstn_length_le; lia).
        rewrite GL. reflexivity.
      - rewrite nth_lset_other by lia. rewrite firstn_app_le by lia. apply HBL. lia. }
    split.
    { intros j Hj. unfold gBR. rewrite EBR. exact (HBR j Hj). }
    split; [rewrite EBL, lset_length; exact lBL|rewrite EBR; exact lBR].
  Qed.

  (* ... and after a split that leaves A[i+1] right-isometric it is the site i *)
  Theorem Z2_to_left (st st' : sw) i : Z2 st i -> right_iso (gA st (S i)) ->
    s_A st' = s_A st -> s_BL st' = s_BL st ->
    s_BR st' = lset (s_BR st) i (contraction_operator_step_right (gA st (S i)) (gA st (S i)) (nth (S i) Hs []) (gBR st (S i))) ->
    Z st' i.
  Proof.
    intros (Al & X0 & X1 & Ar & DsAl & Dm & Dar & DsAr & EA & Hlen & HL & HAl & Hh & HX0 & HX1 & HAr & Hli & Hri & HBL & HBR & lBL & lBR) Hiso EA' EBL EBR.
    subst i.
    assert (GA1 : gA st (S (length Al)) = X1) by (unfold gA; rewrite EA; apply nth_app_mid2). rewrite GA1 in *.
    assert (GR : gBR st (S (length Al)) = BRof Ar (skipn (S (S (length Al))) Hs)).
    { pose proof (HBR 0 ltac:(lia)) as E. rewrite Nat.add_0_r in E. exact E. }
    exists Al, X0, (X1 :: Ar), DsAl, Dm, (Dar :: DsAr). cbn [length repeat].
    split; [rewrite EA', EA; reflexivity|]. split; [reflexivity|]. split; [lia|]. split; [exact HAl|]. split; [exact Hh|]. split; [exact HX0|].
    split; [apply chain_ok_cons; assumption|]. split; [exact Hli|]. split; [constructor; assumption|].
    split. { intros j Hj. unfold gBL. rewrite EBL. apply HBL. exact Hj. }
    split.
    { intros j Hj. unfold gBR. rewrite EBR. destruct j as [|j].
      - rewrite Nat.add_0_r. rewrite nth_lset_same by lia. change (skipn 0 (X1 :: Ar)) with (X1 :: Ar). rewrite GR.
        rewrite (skipn_nth_cons Hs (S (length Al)) []) by lia. reflexivity.
      - rewrite nth_lset_other by lia. change (skipn (S j) (X1 :: Ar)) with (skipn j Ar).
        replace (length Al + S j)%nat with (S (length Al) + j)%nat by lia.
        apply (HBR j). cbn [length] in Hj. lia. }
    split; [rewrite EBL; exact lBL|rewrite EBR, lset_length; exact lBR].
  Qed.
End Inv2.

Arguments Hm {R} Hs i. Arguments heff2 {R} Hs st i Y.

(* the list structure of the MPO tensors follows from the boolean shape check *)
Lemma ochain_shape_struct (R : cring) d : forall Ds (Ws : list (osite R)), ochain_shape d Ds Ws = true -> Forall (osite_struct d) Ws.
Proof.
  intros Ds Ws. revert Ds. induction Ws as [|W Ws IH]; intros Ds H; [constructor|].
  destruct Ds as [|Dl [|Dr Ds']]; try (cbn [ochain_shape] in H; discriminate).
  change (osite_shape d Dl Dr W && ochain_shape d (Dr :: Ds') Ws = true) in H.
  apply andb_true_iff in H. destruct H as [H1 H2]. constructor; [exact (osite_shape_struct R d Dl Dr W H1)|exact (IH _ H2)].
Qed.
Lemma mpo_shapeb_struct (R : cring) d Ds (Ws : list (osite R)) : mpo_shapeb d Ds Ws = true -> Forall (osite_struct d) Ws.
Proof.
  unfold mpo_shapeb. rewrite !andb_true_iff. intros H. apply (ochain_shape_struct R d Ds). tauto.
Qed.
