(* C05 (b), part 2: one pass of the site loop of from_opchains preserves the meaning
   (single-site step lemma), for EVERY cover answer: the final [assert not edges] is what makes
   every edge of the bipartite graph be consumed exactly once. *)
From Coq Require Import ZArith List Lia Bool Ring.
From PT Require Import Base.Scalar Base.BigSum Model.OpGraph Model.FromOpchains
                       Proofs.FromOpchainsGraph Proofs.FromOpchainsPart.
Import ListNotations.
Open Scope Z_scope.

Lemma fold_res_err {A B} (f : res A -> B -> res A) (Hf : forall e b, f (Err e) b = Err e) l e :
  fold_left f l (Err e) = Err e.
Proof. induction l; simpl; auto. rewrite Hf. auto. Qed.

Lemma fold_res_inv {A B} (f : res A -> B -> res A) (I : A -> Prop) :
  (forall e b, f (Err e) b = Err e) ->
  forall l a a', I a -> (forall a b a', In b l -> I a -> f (Ok a) b = Ok a' -> I a') ->
  fold_left f l (Ok a) = Ok a' -> I a'.
Proof.
  intros Hf. induction l as [|b l IH]; simpl; intros a a' Ha Hs H.
  - inversion H; subst; exact Ha.
  - destruct (f (Ok a) b) as [a1|er] eqn:E.
    + apply (IH a1 a').
      * apply (Hs a b a1); auto.
      * intros x y z Hy. apply Hs. right; exact Hy.
      * exact H.
    + rewrite fold_res_err in H by exact Hf. discriminate.
Qed.

Section Sem.
  Variable R : cring.
  Add Ring Rring_sem : (k_rt R).
  Notation "0r" := (k0 R). Notation "1r" := (k1 R).
  Infix "+r" := (kadd R) (at level 50, left associativity).
  Infix "*r" := (kmul R) (at level 40, left associativity).
  Notation graph := (graph R).
  Notation st := (st R).
  Notation part := (part R).

  Definition ind (b : bool) : R := if b then 1r else 0r.

  Lemma suml_premove {e} l (f : nat * nat -> R) : pmem e l = true -> suml l f = f e +r suml (premove e l) f.
  Proof.
    induction l as [|x l IH]; simpl; [discriminate|]. unfold pmem in *. simpl.
    destruct (pair_eqb e x) eqn:E; simpl.
    - apply pair_eqb_eq in E. subst. reflexivity.
    - intros H. rewrite (IH H). ring.
  Qed.
  Lemma opics_coeff_single o x (c : R) : opics_coeff o [(x, c)] = ind (x =? o) *r c.
  Proof. unfold opics_coeff, ind. simpl. destruct (x =? o); ring. Qed.
  Lemma new_edge_single a b c x (y : R) : e_opics (new_edge a b c [(x, y)]) = [(x, y)].
  Proof. reflexivity. Qed.

  Section Site.
    Variables (g0 : graph) (nb0 eb0 : Z) (p : part) (pre : list Z) (o : Z) (rest : list Z).
    Hypothesis Hg0 : ginv R g0 nb0 eb0.
    Hypothesis HU : Forall (fun u => u_nidl u < nb0) (p_u p).
    Hypothesis Hp : pinv R p.

    Definition D (m : Z) : R := den_to g0 pre m.
    Definition gam (e : nat * nat) : R := match gamma_get e (p_gamma p) with Some c => c | None => 0r end.
    Definition Tm (e : nat * nat) : R :=
      gam e *r (D (u_nidl (nthu R p (fst e))) *r ind (u_oid (nthu R p (fst e)) =? o) *r
                ind (zlist_eqb (h_oids (nthv R p (snd e))) rest)).
    Definition Phi (g : graph) (nx : list (hchain * R)) : R :=
      suml nx (fun hc => snd hc *r den_to g (o :: pre) (h_nidl (fst hc)) *r ind (zlist_eqb (h_oids (fst hc)) rest)).
    Definition TOT : R := suml (p_edges p) Tm.

    Record SI (c : st) : Prop := mkSI {
      si_g : ginv R (s_g c) (s_nid c) (s_eid c);
      si_nb : nb0 <= s_nid c;
      si_t0 : g_t0 (s_g c) = g_t0 g0;
      si_old : forall m, m < nb0 -> in_edges (s_g c) m = in_edges g0 m;
      si_nx : Forall (fun hc => nb0 <= h_nidl (fst hc) < s_nid c) (s_next c);
      si_pv : Forall (fun hc : hchain * R => exists v, In v (p_v p) /\ h_oids (fst hc) = h_oids v /\ h_qnums (fst hc) = h_qnums v) (s_next c);
      si_phi : Phi (s_g c) (s_next c) +r suml (s_rem c) Tm = TOT }.

    Lemma Phi_app g a b : Phi g (a ++ b) = Phi g a +r Phi g b.
    Proof. unfold Phi. apply suml_app. Qed.

    Lemma Phi_same g g' nb eb nx : ginv R g nb eb -> g_t0 g' = g_t0 g ->
      (forall m, m < nb -> in_edges g' m = in_edges g m) ->
      Forall (fun hc : hchain * R => h_nidl (fst hc) < nb) nx -> Phi g' nx = Phi g nx.
    Proof.
      intros Hg Ht Hin Hn. unfold Phi. apply suml_ext. intros hc Hhc.
      rewrite Forall_forall in Hn. rewrite (den_to_same R g g' nb eb nb Hg Ht Hin) by (apply Hn; exact Hhc).
      reflexivity.
    Qed.

    Lemma D_same g : g_t0 g = g_t0 g0 -> (forall m, m < nb0 -> in_edges g m = in_edges g0 m) ->
      forall m, m < nb0 -> den_to g pre m = D m.
    Proof. intros Ht Hin m Hm. apply (den_to_same R g0 g nb0 eb0 nb0 Hg0 Ht Hin). exact Hm. Qed.

    Lemma nthu_lt i u : nth_error (p_u p) i = Some u -> nthu R p i = u /\ u_nidl u < nb0.
    Proof.
      intros H. split; [apply (nth_error_nth _ _ _ H)|].
      rewrite Forall_forall in HU. apply HU. eapply nth_error_In. exact H.
    Qed.

    (* ---- the U branch ---- *)
    Lemma u_step_SI c i c' : SI c -> u_step p (Ok c) i = Ok c' -> SI c'.
    Proof.
      intros HS H. unfold u_step in H. cbn [bind] in H.
      destruct (nth_error (p_u p) i) as [u|] eqn:Eu; [|discriminate].
      destruct (nthu_lt _ _ Eu) as [Enu Hul].
      set (eid := s_eid c) in *. set (nid := s_nid c) in *.
      set (enew := new_edge eid (u_nidl u) nid [(u_oid u, 1r)]) in *.
      destruct (add_edge (s_g c) enew) as [g1|] eqn:Ea; [|discriminate].
      destruct (find_node g1 (u_nidl u)) as [np|]; [|discriminate].
      destruct (negb (n_q np =? u_q0 u)); [discriminate|].
      set (gb := upd_node g1 (u_nidl u) (node_add_eid eid 1)) in *.
      destruct (add_node gb (mknode nid [eid] [] (u_q1 u))) as [g2|] eqn:En; [|discriminate].
      destruct HS as [Sg Snb St0 Sold Snx Spv Sphi].
      destruct (ginv_add_edge R _ _ _ _ _ Sg (eq_refl : e_id enew = eid) Ea) as [G1 [T1 [N1 [I1 F1]]]].
      destruct (ginv_upd_out R g1 nid (eid + 1) (u_nidl u) eid G1) as [Gb [Tb [Ib [Fb Nb]]]].
      fold gb in Gb, Tb, Ib, Fb, Nb.
      assert (Eb : edges_of gb [eid] = [enew]).
      { unfold edges_of. cbn [flat_map]. rewrite Fb. fold eid in F1. rewrite F1. reflexivity. }
      assert (Hsrc : Forall (fun e : gedge R => e_from e < nid /\ e_to e = nid) (edges_of gb (n_in (mknode nid [eid] [] (u_q1 u))))).
      { cbn [n_in]. rewrite Eb. constructor; [|constructor]. cbn. split; [lia|reflexivity]. }
      destruct (ginv_add_node R gb nid (eid + 1) (mknode nid [eid] [] (u_q1 u)) g2 Gb eq_refl ltac:(cbn; constructor; [lia|constructor]) Hsrc En)
        as [G2 [T2 [I2 [I2n [F2 N2]]]]].
      cbn [n_in] in I2n. rewrite Eb in I2n.
      assert (Iold : forall m, m < nid -> in_edges g2 m = in_edges (s_g c) m).
      { intros m Hm. rewrite I2 by lia. rewrite Ib. apply I1. }
      assert (T20 : g_t0 g2 = g_t0 g0) by congruence.
      assert (Iold0 : forall m, m < nb0 -> in_edges g2 m = in_edges g0 m).
      { intros m Hm. rewrite Iold by lia. apply Sold. exact Hm. }
      (* value of the new node *)
      assert (Vnew : den_to g2 (o :: pre) nid = ind (u_oid u =? o) *r 1r *r D (u_nidl u)).
      { cbn [den_to]. rewrite I2n. cbn [suml]. unfold enew at 1. rewrite new_edge_single, opics_coeff_single.
        change (e_from enew) with (u_nidl u). rewrite (D_same g2 T20 Iold0) by exact Hul. ring. }
      (* the inner loop *)
      set (UI := fun cc : st => s_g cc = g2 /\ s_nid cc = nid + 1 /\ s_eid cc = eid + 1 /\
                   Forall (fun hc => nb0 <= h_nidl (fst hc) < nid + 1) (s_next cc) /\
                   Forall (fun hc : hchain * R => exists v, In v (p_v p) /\ h_oids (fst hc) = h_oids v /\ h_qnums (fst hc) = h_qnums v) (s_next cc) /\
                   Phi g2 (s_next cc) +r suml (s_rem cc) Tm = TOT).
      assert (HUI : UI c').
      { refine (fold_res_inv (u_inner p i nid) UI (fun e b => eq_refl) _ _ _ _ _ H).
        - unfold UI. cbn [s_g s_nid s_eid s_next s_rem]. repeat split; auto.
          + eapply Forall_impl; [|exact Snx]. intros hc Hh. cbn in *. lia.
          + rewrite <- Sphi. f_equal.
            apply (Phi_same (s_g c) g2 nid eid); auto; [congruence|].
            eapply Forall_impl; [|exact Snx]. intros hc Hh. cbn in *. lia.
        - intros cc j cc' _ [E1 [E2 [E3 [E4 [E6 E5]]]]] Hj. unfold u_inner in Hj. cbn [bind] in Hj.
          destruct (nth_error (p_v p) j) as [v|] eqn:Ev; [|discriminate].
          destruct (gamma_get (i, j) (p_gamma p)) as [cf|] eqn:Egm; [|discriminate].
          destruct (pmem (i, j) (s_rem cc)) eqn:Em; [|discriminate].
          inversion Hj; subst cc'. unfold UI. cbn [s_g s_nid s_eid s_next s_rem].
          repeat split; auto.
          + apply Forall_app. split; [exact E4|]. constructor; [cbn; lia|constructor].
          + apply Forall_app. split; [exact E6|]. constructor; [|constructor].
            exists v. cbn. split; [eapply nth_error_In; exact Ev|auto].
          + rewrite <- E5. rewrite Phi_app. rewrite (suml_premove (s_rem cc) Tm Em).
            assert (X : Phi g2 [(mkh (h_oids v) (h_qnums v) nid, cf)] = Tm (i, j)).
            { unfold Phi, Tm, gam. cbn [suml fst snd h_nidl h_oids]. rewrite Egm, Vnew, Enu.
              unfold nthv. rewrite (nth_error_nth _ _ _ Ev). ring. }
            rewrite X. ring. }
      destruct HUI as [E1 [E2 [E3 [E4 [E6 E5]]]]]. destruct c' as [cg cn ce cx cr]. cbn in *. subst.
      constructor; cbn; auto. lia.
    Qed.

    (* ---- the V branch ---- *)
    Lemma v_step_SI c j c' : SI c -> v_step p (Ok c) j = Ok c' -> SI c'.
    Proof.
      intros HS H. unfold v_step in H. cbn [bind] in H.
      destruct (nth_error (p_v p) j) as [v|] eqn:Ev; [|discriminate].
      destruct (h_qnums v) as [|q qs] eqn:Eq; [discriminate|].
      set (nid := s_nid c) in *.
      destruct (add_node (s_g c) (mknode nid [] [] q)) as [g1|] eqn:En; [|discriminate].
      destruct HS as [Sg Snb St0 Sold Snx Spv Sphi].
      destruct (ginv_add_node R (s_g c) nid (s_eid c) (mknode nid [] [] q) g1 Sg eq_refl ltac:(constructor) ltac:(constructor) En)
        as [G1 [T1 [I1 [I1n [F1 N1]]]]].
      cbn [n_in] in I1n. change (edges_of (s_g c) []) with (@nil (gedge R)) in I1n.
      set (hv := (mkh (h_oids v) (q :: qs) nid, 1r)) in *.
      set (inval := fun g : graph => suml (in_edges g nid) (fun e => opics_coeff o (e_opics e) *r D (e_from e))).
      set (VI := fun cc : st =>
                   ginv R (s_g cc) (nid + 1) (s_eid cc) /\ g_t0 (s_g cc) = g_t0 g0 /\
                   (forall m, m < nid -> in_edges (s_g cc) m = in_edges (s_g c) m) /\
                   s_nid cc = nid + 1 /\ s_next cc = s_next c ++ [hv] /\
                   (exists nn, find_node (s_g cc) nid = Some nn) /\
                   Forall (fun e : gedge R => e_from e < nb0) (in_edges (s_g cc) nid) /\
                   Phi (s_g c) (s_next c) +r inval (s_g cc) *r ind (zlist_eqb (h_oids v) rest) +r suml (s_rem cc) Tm = TOT).
      assert (HVI : VI c').
      { refine (fold_res_inv (v_inner p j nid q) VI (fun e b => eq_refl) _ _ _ _ _ H).
        - unfold VI. cbn [s_g s_nid s_eid s_next s_rem].
          split; [exact G1|]. split; [congruence|]. split; [intros m Hm; apply I1; lia|].
          split; [reflexivity|]. split; [reflexivity|]. split; [eexists; exact N1|].
          split; [rewrite I1n; constructor|].
          unfold inval. rewrite I1n. cbn [suml]. rewrite <- Sphi. ring.
        - intros cc i cc' _ [V1 [V2 [V3 [V4 [V5 [[nn V6] [V7 V8]]]]]]] Hi. unfold v_inner in Hi. cbn [bind] in Hi.
          destruct (pmem (i, j) (s_rem cc)) eqn:Em; cbn [negb] in Hi; [|inversion Hi; subst cc'; unfold VI; eauto 10].
          destruct (nth_error (p_u p) i) as [u|] eqn:Eu; [|discriminate].
          destruct (nthu_lt _ _ Eu) as [Enu Hul].
          destruct (gamma_get (i, j) (p_gamma p)) as [cf|] eqn:Egm; [|discriminate].
          destruct (negb (u_q1 u =? q)); [discriminate|].
          destruct (find_node (s_g cc) (u_nidl u)) as [np|]; [|discriminate].
          destruct (negb (n_q np =? u_q0 u)); [discriminate|].
          set (enew := new_edge (s_eid cc) (u_nidl u) nid [(u_oid u, cf)]) in *.
          destruct (add_connect_edge (s_g cc) enew) as [g2|] eqn:Ec; [|discriminate].
          inversion Hi; subst cc'. clear Hi.
          destruct (ginv_connect R (s_g cc) (nid + 1) (s_eid cc) enew g2 nn V1 eq_refl
                      ltac:(cbn; lia) ltac:(cbn; lia) V6 Ec) as [G2 [T2 [I2 [I2n [N2 Q2]]]]].
          change (e_to enew) with nid in *.
          unfold VI. cbn [s_g s_nid s_eid s_next s_rem].
          split; [exact G2|]. split; [congruence|].
          split; [intros m Hm; rewrite I2 by lia; apply V3; exact Hm|].
          split; [exact V4|]. split; [exact V5|].
          split; [destruct (Q2 nid nn V6) as [n' [Hn' _]]; eexists; exact Hn'|].
          split; [rewrite I2n; apply Forall_app; split; [exact V7|]; constructor; [exact Hul|constructor]|].
          rewrite <- V8. rewrite (suml_premove (s_rem cc) Tm Em).
          assert (X : inval g2 = inval (s_g cc) +r ind (u_oid u =? o) *r cf *r D (u_nidl u)).
          { unfold inval. rewrite I2n, suml_app. cbn [suml]. unfold enew at 1.
            rewrite new_edge_single, opics_coeff_single. change (e_from enew) with (u_nidl u). ring. }
          rewrite X. unfold Tm, gam. cbn [fst snd]. rewrite Egm, Enu. unfold nthv. rewrite (nth_error_nth _ _ _ Ev). ring. }
      destruct HVI as [V1 [V2 [V3 [V4 [V5 [[nn V6] [V7 V8]]]]]]].
      assert (Iold0 : forall m, m < nb0 -> in_edges (s_g c') m = in_edges g0 m).
      { intros m Hm. rewrite V3 by lia. apply Sold. exact Hm. }
      constructor.
      - rewrite V4. exact V1.
      - lia.
      - exact V2.
      - exact Iold0.
      - rewrite V5, V4. apply Forall_app. split.
        + eapply Forall_impl; [|exact Snx]. intros hc Hh. cbn in *. lia.
        + constructor; [cbn; lia|constructor].
      - rewrite V5. apply Forall_app. split; [exact Spv|]. constructor; [|constructor].
        exists v. unfold hv. cbn. split; [eapply nth_error_In; exact Ev|auto].
      - rewrite <- V8, V5, Phi_app. f_equal. f_equal.
        + apply (Phi_same (s_g c) (s_g c') nid (s_eid c)); auto; [congruence|].
          eapply Forall_impl; [|exact Snx]. intros hc Hh. cbn in *. lia.
        + unfold Phi, hv. cbn [suml fst snd h_nidl h_oids]. cbn [den_to]. unfold inval.
          assert (Y : suml (in_edges (s_g c') nid) (fun e => opics_coeff o (e_opics e) *r den_to (s_g c') pre (e_from e)) =
                      suml (in_edges (s_g c') nid) (fun e => opics_coeff o (e_opics e) *r D (e_from e))).
          { apply suml_ext. intros e He. rewrite Forall_forall in V7.
            rewrite (D_same (s_g c') V2 Iold0) by (apply V7; exact He). reflexivity. }
          rewrite Y. ring.
    Qed.

    (* ---- the whole site step ---- *)
    Lemma site_step_SI cv s s' :
      s_g s = g0 -> s_nid s = nb0 -> s_eid s = eb0 ->
      site_step p cv s = Ok s' ->
      SI s' /\ s_rem s' = [].
    Proof.
      intros E1 E2 E3 H. unfold site_step in H.
      destruct (fold_left (v_step p) (snd cv) (fold_left (u_step p) (fst cv)
                  (Ok (mkst (s_g s) (s_nid s) (s_eid s) [] (p_edges p))))) as [s2|] eqn:E; [|discriminate].
      cbn [bind] in H. destruct (s_rem s2) eqn:Er; [|discriminate]. inversion H; subst s'. split; [|exact Er].
      destruct (fold_left (u_step p) (fst cv) (Ok (mkst (s_g s) (s_nid s) (s_eid s) [] (p_edges p)))) as [s1|er] eqn:EU;
        [|rewrite fold_res_err in E by reflexivity; discriminate].
      assert (S0 : SI (mkst (s_g s) (s_nid s) (s_eid s) [] (p_edges p))).
      { rewrite E1, E2, E3. constructor; cbn; auto; try lia. unfold Phi, TOT. cbn [suml]. ring. }
      assert (S1 : SI s1).
      { refine (fold_res_inv (u_step p) SI (fun e b => eq_refl) _ _ _ S0 _ EU).
        intros a b a' _ Ha Hs. eapply u_step_SI; eauto. }
      refine (fold_res_inv (v_step p) SI (fun e b => eq_refl) _ _ _ S1 _ E).
      intros a b a' _ Ha Hs. eapply v_step_SI; eauto.
    Qed.
  End Site.
End Sem.
