(* C08/C10 — executable versions of the oracle contracts (for the non-vacuity examples of Properties/C08.v, C10.v):
   boolean QR contract, and the contracts of the trivial local solvers (kexp = identity: conserves everything;
   keig = (Rayleigh quotient of the start tensor, start tensor): a Ritz pair of a zero-dimensional Krylov space). *)
From Coq Require Import ZArith Arith List Lia Ring Field Setoid Bool.
From PT Require Import Base.Scalar Base.Field Base.BigSum Base.Mx Model.Tensor Model.Operation Model.Sweeps
  Proofs.OperationEntries Proofs.SweepsCanon Proofs.SweepsGauge Proofs.SweepsInv Proofs.SweepsRun.
Import ListNotations.

Section Check.
  Variable R : cring.
  Notation dlt a b := (if Nat.eqb a b then k1 R else k0 R).

  Definition qr_okb (M : mx R) (ans : mx R * mx R * list BinNums.Z) : bool :=
    let '(Q, C, _) := ans in
    Nat.eqb (nr Q) (nr M) && Nat.eqb (nc Q) (nr C) && Nat.eqb (nc C) (nc M) && Nat.ltb 0 (nc Q) && Nat.leb (nc Q) (nc M) &&
    forallb (fun i => forallb (fun j => keqb R (get M i j) (sumn (nc Q) (fun k => kmul R (get Q i k) (get C k j)))) (seq 0 (nc M))) (seq 0 (nr M)) &&
    forallb (fun c => forallb (fun c' => keqb R (sumn (nr Q) (fun i => kmul R (get Q i c) (kconj R (get Q i c')))) (dlt c c')) (seq 0 (nc Q))) (seq 0 (nc Q)).
  Lemma qr_okb_ok M ans : qr_okb M ans = true -> qr_ok M ans.
  Proof.
    destruct ans as [[Q C] q]. unfold qr_okb, qr_ok. rewrite !andb_true_iff, !Nat.eqb_eq, Nat.ltb_lt, Nat.leb_le, !forallb_forall.
    intros ((((((H1 & H2) & H3) & H4) & H5) & H6) & H7). repeat (split; [assumption|]). split.
    - intros i j Hi Hj. specialize (H6 i ltac:(apply in_seq; lia)). rewrite forallb_forall in H6. apply keqb_spec, H6, in_seq. lia.
    - intros c c' Hc Hc'. specialize (H7 c ltac:(apply in_seq; lia)). rewrite forallb_forall in H7. apply keqb_spec, H7, in_seq. lia.
  Qed.

  (* ---- TDVP with identity local solvers ---- *)
  Definition kexp_id : nat -> env R -> env R -> osite R -> site R -> R -> site R := fun _ _ _ _ A _ => A.
  Definition kexp0_id : nat -> env R -> env R -> mx R -> R -> mx R := fun _ _ _ C _ => C.
  Variable qr : nat -> mx R -> list BinNums.Z -> list BinNums.Z -> mx R * mx R * list BinNums.Z.

  Fixpoint qrs_okb (tr : list (tcall R)) : bool :=
    match tr with
    | [] => true
    | t :: rest =>
        (match c_kind (t_call t), t_ten t, t_qs t with
         | QR, [[M]], [q0; q1] => qr_okb M (qr (length rest) M q0 q1)
         | _, _, _ => true
         end) && qrs_okb rest
    end.

  Lemma ttr_ok_id Hs dt hdt d tr : qrs_okb tr = true -> ttr_ok qr kexp_id kexp0_id Hs dt hdt d tr.
  Proof.
    induction tr as [|t rest IH]; [intros _; exact I|]. cbn [qrs_okb ttr_ok]. rewrite andb_true_iff. intros [H1 H2].
    split; [|exact (IH H2)]. clear IH H2. unfold tdvp_call_ok. destruct t as [[k i c] envs ten qs]. cbn [t_call c_kind c_site c_coef t_envs t_ten t_qs] in *.
    destruct k; try exact I.
    - destruct envs as [|BL [|BR [|? ?]]]; try exact I. destruct ten as [|A [|? ?]]; try exact I.
      unfold kexp_id, kexp_ok. auto.
    - destruct envs as [|BL [|BR [|? ?]]]; try exact I. destruct ten as [|[|C [|? ?]] [|? ?]]; try exact I.
      unfold kexp0_id, kexp0_ok. auto.
    - destruct ten as [|[|M [|? ?]] [|? ?]]; try exact I. destruct qs as [|q0 [|q1 [|? ?]]]; try exact I.
      apply qr_okb_ok. exact H1.
  Qed.
End Check.

Arguments qr_okb {R} M ans. Arguments kexp_id {R}. Arguments kexp0_id {R}. Arguments qrs_okb {R} qr tr.

Section CheckDMRG.
  Variable F : ofield.
  Add Field Ffield_sweeps_check : (f_ft F).
  Notation K := (Cx F).
  Variable qr : nat -> mx K -> list BinNums.Z -> list BinNums.Z -> mx K * mx K * list BinNums.Z.

  Definition keig_id : nat -> env K -> env K -> osite K -> site K -> K * site K :=
    fun _ BL BR W A => (site_dot A (apply_local_hamiltonian BL BR W A), A).

  Fixpoint dtr_okb (tr : list (tcall K)) : bool :=
    match tr with
    | [] => true
    | t :: rest =>
        (match c_kind (t_call t), t_envs t, t_ten t, t_qs t with
         | EIG, [BL; BR], [A], _ => keqb K (site_dot A A) (k1 K)
         | QR, _, [[M]], [q0; q1] => qr_okb M (qr (length rest) M q0 q1)
         | _, _, _, _ => true
         end) && dtr_okb rest
    end.

  Lemma rtr_ok_id Hs d tr : dtr_okb tr = true -> rtr_ok qr keig_id Hs d tr.
  Proof.
    induction tr as [|t rest IH]; [intros _; exact I|]. cbn [dtr_okb rtr_ok]. rewrite andb_true_iff. intros [H1 H2].
    split; [|exact (IH H2)]. clear IH H2. unfold dmrg_call_ok. destruct t as [[k i c] envs ten qs]. cbn [t_call c_kind c_site c_coef t_envs t_ten t_qs] in *.
    destruct k; try exact I.
    - destruct envs as [|BL [|BR [|? ?]]]; try exact I. destruct ten as [|A [|? ?]]; try exact I.
      apply keqb_spec in H1. unfold keig_id, keig_ok, alh. cbn [fst snd]. split; [auto|]. split; [exact H1|]. split; [reflexivity|].
      rewrite H1. cbn [cre fst k1 Cx K]. eapply fle_eq; [| reflexivity | apply fle_refl].
      destruct (f_ft F) as [Rth _ _ _]. rewrite (Rmul_comm Rth), (Rmul_1_l Rth). reflexivity.
    - destruct ten as [|[|M [|? ?]] [|? ?]]; try exact I. destruct qs as [|q0 [|q1 [|? ?]]]; try exact I.
      apply qr_okb_ok. exact H1.
  Qed.
End CheckDMRG.

Arguments keig_id {F}. Arguments dtr_okb {F} qr tr.
