(* lanczos_iteration: output shapes, orthonormality, three-term recurrence, V^H A V = tridiag. *)
From Coq Require Import ZArith List Bool Arith Lia Ring Field.
From PT Require Import Base.Scalar Base.Field Base.BigSum Model.Krylov Proofs.KrylovVec.
Import ListNotations.

Section Lanczos.
  Variable F : ofield.
  Notation K := (Cx F).
  Add Field Ffield_kl : (f_ft F).
  Add Ring Kring_kl : (k_rt (Cx F)).
  Notation vec := (list K).
  Variable n : nat.
  Variable Afunc : vec -> vec.
  Variable dnorm : vec -> F.
  Variable small : F -> bool.

  (* what is assumed of the map (on vectors of length n) and of the breakdown test *)
  Definition maps_len : Prop := forall x : vec, length x = n -> length (Afunc x) = n.
  Definition self_adjoint : Prop :=
    forall x y : vec, length x = n -> length y = n -> vdot x (Afunc y) = vdot (Afunc x) y.
  Definition small_sound : Prop := forall b, small b = false -> flt F (f0 F) b.
  (* contract of numpy.linalg.norm on one call (argument, answer) *)
  Definition norm_ok (c : vec * F) : Prop :=
    fle F (f0 F) (snd c) /\ fmul F (snd c) (snd c) = nrm2 (fst c).

  Definition vat (Vs : list vec) (i : nat) : vec := nth i Vs [].
  Definition fat (l : list F) (i : nat) : F := nth i l (f0 F).
  Definition delta (i j : nat) : K := if Nat.eqb i j then k1 K else k0 K.
  Definition orthonormal (Vs : list vec) : Prop :=
    (forall i, i < length Vs -> length (vat Vs i) = n) /\
    (forall i j, i < length Vs -> j < length Vs -> vdot (vat Vs i) (vat Vs j) = delta i j).
  Definition lterm (be : list F) (Vs : list vec) (j : nat) : vec :=
    match j with O => vzero n | S j' => rscale (fat be j') (vat Vs j') end.
  (* A v_j = beta_j v_{j+1} + (alpha_j v_j + beta_{j-1} v_{j-1}) *)
  Definition recur (al be : list F) (Vs : list vec) (j : nat) : Prop :=
    Afunc (vat Vs j) =
    vadd (rscale (fat be j) (vat Vs (S j))) (vadd (rscale (fat al j) (vat Vs j)) (lterm be Vs j)).
  (* entries of tridiag(alpha, beta) *)
  Definition tri (al be : list F) (i j : nat) : K :=
    if Nat.eqb i j then cof (fat al i) else if Nat.eqb (S i) j then cof (fat be i)
    else if Nat.eqb i (S j) then cof (fat be j) else k0 K.

  Definition lanczos_post (m : nat) (r : list F * list F * list vec * bool) : Prop :=
    let '(al, be, Vs, wn) := r in
    let k := length Vs in
    1 <= k /\ k <= m /\ length al = k /\ S (length be) = k /\ (wn = true <-> k < m) /\
    orthonormal Vs /\ (forall i, S i < k -> flt F (f0 F) (fat be i)) /\
    (forall i, S i < k -> recur al be Vs i) /\
    vdot (vat Vs (k - 1)) (Afunc (vat Vs (k - 1))) = cof (fat al (k - 1)).

  Hypothesis A_len : maps_len.
  Hypothesis A_sa : self_adjoint.
  Hypothesis small_pos : small_sound.

  Lemma delta_refl i : delta i i = k1 K.
  Proof. unfold delta. rewrite Nat.eqb_refl. reflexivity. Qed.
  Lemma delta_neq i j : i <> j -> delta i j = k0 K.
  Proof. intros H. unfold delta. apply Nat.eqb_neq in H. rewrite H. reflexivity. Qed.

  Lemma vat_app1 (Vs Ws : list vec) i : i < length Vs -> vat (Vs ++ Ws) i = vat Vs i.
  Proof. intros H. unfold vat. apply app_nth1. exact H. Qed.
  Lemma vat_app2 (Vs : list vec) x i : i = length Vs -> vat (Vs ++ [x]) i = x.
  Proof. intros ->. unfold vat. rewrite app_nth2, Nat.sub_diag by lia. reflexivity. Qed.
  Lemma fat_app1 (l l' : list F) i : i < length l -> fat (l ++ l') i = fat l i.
  Proof. intros H. unfold fat. apply app_nth1. exact H. Qed.
  Lemma fat_app2 (l : list F) x i : i = length l -> fat (l ++ [x]) i = x.
  Proof. intros ->. unfold fat. rewrite app_nth2, Nat.sub_diag by lia. reflexivity. Qed.

  Lemma lterm_app be be' (Vs Ws : list vec) j : j <= length be -> j <= length Vs ->
    lterm (be ++ be') (Vs ++ Ws) j = lterm be Vs j.
  Proof. intros H1 H2. destruct j; cbn [lterm]; [reflexivity|]. rewrite fat_app1, vat_app1 by lia. reflexivity. Qed.
  Lemma recur_app al al' be be' (Vs Ws : list vec) i : i < length al -> i < length be -> S i < length Vs ->
    recur al be Vs i -> recur (al ++ al') (be ++ be') (Vs ++ Ws) i.
  Proof.
    intros H1 H2 H3 H. unfold recur in *.
    rewrite !vat_app1, !fat_app1, lterm_app by lia. exact H.
  Qed.
  Lemma recur_app_al al al' be (Vs : list vec) i : i < length al ->
    recur al be Vs i -> recur (al ++ al') be Vs i.
  Proof. intros H1 H. unfold recur in *. rewrite fat_app1 by lia. exact H. Qed.

  Lemma length_lterm be (Vs : list vec) j : orthonormal Vs -> j <= length Vs -> length (lterm be Vs j) = n.
  Proof.
    intros [Hl _] Hj. destruct j; cbn [lterm]; [apply length_vzero|]. apply length_rscale. apply Hl. lia.
  Qed.

  (* <v_i, lterm_j> *)
  Lemma vdot_lterm_r be (Vs : list vec) i j : orthonormal Vs -> i < length Vs -> j <= length Vs ->
    vdot (vat Vs i) (lterm be Vs j) = if Nat.eqb (S i) j then cof (fat be i) else k0 K.
  Proof.
    intros [Hl Ho] Hi Hj. destruct j as [|j']; cbn [lterm].
    - rewrite vdot_zero_r. reflexivity.
    - rewrite vdot_rscale_r, Ho by lia. cbn [Nat.eqb]. unfold delta.
      destruct (Nat.eqb i j') eqn:E; [apply Nat.eqb_eq in E; subst; ring|ring].
  Qed.
  Lemma vdot_lterm_l be (Vs : list vec) i j : orthonormal Vs -> i < length Vs -> j <= length Vs ->
    vdot (lterm be Vs j) (vat Vs i) = if Nat.eqb (S i) j then cof (fat be i) else k0 K.
  Proof.
    intros Ho Hi Hj. rewrite <- vdot_conj, vdot_lterm_r by assumption.
    destruct (Nat.eqb (S i) j); [apply conj_cof|apply kconj_0].
  Qed.

  (* the strictly upper part of V^H A V from the recurrence of the smaller index *)
  Lemma recur_lengths al be (Vs : list vec) i : orthonormal Vs -> S i < length Vs ->
    length (rscale (fat be i) (vat Vs (S i))) = n /\ length (rscale (fat al i) (vat Vs i)) = n /\
    length (lterm be Vs i) = n /\ length (vadd (rscale (fat al i) (vat Vs i)) (lterm be Vs i)) = n.
  Proof.
    intros Ho Hi. pose proof Ho as [Hl _].
    assert (L1 : length (rscale (fat be i) (vat Vs (S i))) = n) by (apply length_rscale, Hl; lia).
    assert (L2 : length (rscale (fat al i) (vat Vs i)) = n) by (apply length_rscale, Hl; lia).
    assert (L3 : length (lterm be Vs i) = n) by (apply length_lterm; [exact Ho|lia]).
    repeat split; try assumption. apply length_vadd; assumption.
  Qed.

  Lemma entry_upper al be (Vs : list vec) i j : orthonormal Vs -> i < j -> j < length Vs -> recur al be Vs i ->
    vdot (vat Vs i) (Afunc (vat Vs j)) = if Nat.eqb (S i) j then cof (fat be i) else k0 K.
  Proof.
    intros Ho Hij Hj Hr. pose proof Ho as [Hl Hd].
    destruct (recur_lengths al be Vs i Ho ltac:(lia)) as (L1 & L2 & L3 & L23).
    rewrite A_sa by (apply Hl; lia). rewrite Hr.
    rewrite vdot_add_l by (rewrite L1, L23; reflexivity).
    rewrite vdot_add_l by (rewrite L2, L3; reflexivity).
    rewrite !vdot_rscale_l. rewrite vdot_lterm_l by (assumption || lia). rewrite !Hd by lia.
    rewrite (delta_neq i j) by lia.
    replace (Nat.eqb (S j) i) with false by (symmetry; apply Nat.eqb_neq; lia).
    unfold delta. destruct (Nat.eqb (S i) j); ring.
  Qed.

  Lemma entry_diag al be (Vs : list vec) i : orthonormal Vs -> S i < length Vs -> recur al be Vs i ->
    vdot (vat Vs i) (Afunc (vat Vs i)) = cof (fat al i).
  Proof.
    intros Ho Hi Hr. pose proof Ho as [Hl Hd].
    destruct (recur_lengths al be Vs i Ho Hi) as (L1 & L2 & L3 & L23).
    rewrite Hr.
    rewrite vdot_add_r by (rewrite L1, L23; reflexivity).
    rewrite vdot_add_r by (rewrite L2, L3; reflexivity).
    rewrite !vdot_rscale_r. rewrite vdot_lterm_r by (assumption || lia). rewrite !Hd by lia.
    rewrite delta_refl, (delta_neq i (S i)) by lia.
    replace (Nat.eqb (S i) i) with false by (symmetry; apply Nat.eqb_neq; lia). ring.
  Qed.

  (* <A x, x> is real for a self-adjoint map *)
  Lemma rayleigh_real (x : vec) : length x = n -> vdot x (Afunc x) = cof (cre (vdot (Afunc x) x)).
  Proof.
    intros Hx. set (z := vdot (Afunc x) x).
    assert (Hz : kconj K z = z). { unfold z. rewrite vdot_conj. apply A_sa; exact Hx. }
    rewrite <- vdot_conj. fold z. rewrite Hz. apply conj_fixed_real. exact Hz.
  Qed.

  (* ---- the loop invariant ---- *)
  Definition inv (j : nat) (al be : list F) (Vs : list vec) : Prop :=
    length Vs = S j /\ length al = j /\ length be = j /\ orthonormal Vs /\
    (forall i, i < j -> flt F (f0 F) (fat be i)) /\ (forall i, i < j -> recur al be Vs i).

  Lemma body_w j be (Vs : list vec) : length (vat Vs j) = n ->
    lanczos_body F Afunc dnorm j be Vs =
    let vj := vat Vs j in
    let a := cre (vdot (Afunc vj) vj) in
    let w' := vsub (Afunc vj) (vadd (rscale a vj) (lterm be Vs j)) in (a, w', dnorm w').
  Proof.
    intros Hl. unfold lanczos_body. fold (vat Vs j). destruct j as [|j']; cbn [lterm].
    - rewrite vadd_zero_r by (apply length_rscale; exact Hl). reflexivity.
    - reflexivity.
  Qed.

  (* the residual is orthogonal to all previous vectors *)
  Lemma resid_orth j al be (Vs : list vec) i : inv j al be Vs -> i <= j ->
    let vj := vat Vs j in
    let a := cre (vdot (Afunc vj) vj) in
    vdot (vat Vs i) (vsub (Afunc vj) (vadd (rscale a vj) (lterm be Vs j))) = k0 K.
  Proof.
    intros (HV & Ha & Hb & Ho & Hpos & Hrec) Hi vj a. pose proof Ho as [Hl Hd].
    assert (Lj : length vj = n) by (apply Hl; lia).
    assert (L2 : length (rscale a vj) = n) by (apply length_rscale; exact Lj).
    assert (L3 : length (lterm be Vs j) = n) by (apply length_lterm; [exact Ho|lia]).
    assert (L23 : length (vadd (rscale a vj) (lterm be Vs j)) = n) by (apply length_vadd; assumption).
    rewrite vdot_sub_r by (rewrite A_len, L23 by exact Lj; reflexivity).
    rewrite vdot_add_r by (rewrite L2, L3; reflexivity).
    rewrite vdot_rscale_r. rewrite vdot_lterm_r by (assumption || lia). unfold vj at 2. rewrite Hd by lia.
    destruct (Nat.eq_dec i j) as [->|Hne].
    - fold vj. rewrite rayleigh_real by exact Lj. fold a. rewrite delta_refl.
      replace (Nat.eqb (S j) j) with false by (symmetry; apply Nat.eqb_neq; lia). ring.
    - unfold vj at 1. rewrite (entry_upper al be Vs i j Ho) by (try lia; apply Hrec; lia).
      rewrite (delta_neq i j) by exact Hne. destruct (Nat.eqb (S i) j); ring.
  Qed.

  Lemma norm_pos (x : vec) b : norm_ok (x, b) -> small b = false -> flt F (f0 F) b /\ b <> f0 F.
  Proof.
    intros _ Hs. pose proof (small_pos b Hs) as H. split; [exact H|]. intros E. apply (flt_neq F _ _ H). symmetry. exact E.
  Qed.

  Lemma unit_vdivr (x : vec) b : norm_ok (x, b) -> b <> f0 F -> vdot (vdivr x b) (vdivr x b) = k1 K.
  Proof.
    intros [_ Hb] Hn. cbn [fst snd] in Hb. rewrite vdot_vdivr_l, vdot_vdivr_r, vdot_self, <- Hb, <- !cof_mul, <- cof_1.
    f_equal. field. exact Hn.
  Qed.

  (* one more pass of the loop keeps the invariant *)
  Lemma inv_step j al be (Vs : list vec) : inv j al be Vs ->
    let vj := vat Vs j in
    let a := cre (vdot (Afunc vj) vj) in
    let w' := vsub (Afunc vj) (vadd (rscale a vj) (lterm be Vs j)) in
    forall b, norm_ok (w', b) -> small b = false ->
    inv (S j) (al ++ [a]) (be ++ [b]) (Vs ++ [vdivr w' b]).
  Proof.
    intros HI vj a w' b Hn Hs. pose proof HI as (HV & Ha & Hb & Ho & Hpos & Hrec). pose proof Ho as [Hl Hd].
    destruct (norm_pos w' b Hn Hs) as [Hbpos Hbne].
    assert (Lj : length vj = n) by (apply Hl; lia).
    assert (Lu : length (vadd (rscale a vj) (lterm be Vs j)) = n).
    { apply length_vadd; [apply length_rscale; exact Lj|apply length_lterm; [exact Ho|lia]]. }
    assert (Lw : length w' = n). { apply length_vsub; [apply A_len; exact Lj|exact Lu]. }
    assert (Horth : forall i, i <= j -> vdot (vat Vs i) (vdivr w' b) = k0 K).
    { intros i Hi. rewrite vdot_vdivr_r. unfold w', a, vj. rewrite (resid_orth j al be Vs i HI Hi). ring. }
    repeat split.
    - rewrite app_length. cbn [length]. lia.
    - rewrite app_length. cbn [length]. lia.
    - rewrite app_length. cbn [length]. lia.
    - intros i Hi. rewrite app_length in Hi. cbn [length] in Hi.
      destruct (Nat.eq_dec i (S j)) as [->|Hne].
      + rewrite vat_app2 by lia. apply length_vdivr. exact Lw.
      + rewrite vat_app1 by lia. apply Hl. lia.
    - intros i i' Hi Hi'. rewrite app_length in Hi, Hi'. cbn [length] in Hi, Hi'.
      destruct (Nat.eq_dec i (S j)) as [->|Hne]; destruct (Nat.eq_dec i' (S j)) as [->|Hne'].
      + rewrite !vat_app2 by lia. rewrite delta_refl. apply unit_vdivr; assumption.
      + rewrite vat_app2, vat_app1 by lia. rewrite <- vdot_conj, Horth by lia. rewrite delta_neq by lia. apply kconj_0.
      + rewrite vat_app1, vat_app2 by lia. rewrite Horth by lia. rewrite delta_neq by lia. reflexivity.
      + rewrite !vat_app1 by lia. apply Hd; lia.
    - intros i Hi. destruct (Nat.eq_dec i j) as [->|Hne].
      + rewrite fat_app2 by lia. exact Hbpos.
      + rewrite fat_app1 by lia. apply Hpos. lia.
    - intros i Hi. destruct (Nat.eq_dec i j) as [->|Hne].
      + unfold recur. rewrite (vat_app2 Vs _ (S j)) by lia. rewrite !vat_app1, !fat_app2, lterm_app by lia.
        fold vj. rewrite rscale_vdivr by exact Hbne. unfold w'. fold a.
        rewrite vsub_vadd; [reflexivity|]. rewrite A_len, Lu by exact Lj. reflexivity.
      + apply recur_app; try lia. apply Hrec. lia.
  Qed.

  (* leaving the loop (final iteration or breakdown) *)
  Lemma inv_exit j al be (Vs : list vec) m wn : inv j al be Vs -> S j <= m -> (wn = true <-> S j < m) ->
    lanczos_post m (al ++ [cre (vdot (Afunc (vat Vs j)) (vat Vs j))], be, Vs, wn).
  Proof.
    intros (HV & Ha & Hb & Ho & Hpos & Hrec) Hm Hw. pose proof Ho as [Hl Hd]. unfold lanczos_post. rewrite HV.
    repeat split; try lia; try (apply Hw); try (apply Hl); try (apply Hd).
    - rewrite app_length. cbn [length]. lia.
    - intros i Hi. apply Hpos. lia.
    - intros i Hi. apply recur_app_al; [lia|]. apply Hrec. lia.
    - replace (S j - 1) with j by lia. rewrite fat_app2 by lia. apply rayleigh_real. apply Hl. lia.
  Qed.

  Lemma lanczos_loop_spec fuel : forall j al be (Vs : list vec),
    inv j al be Vs -> Forall norm_ok (lanczos_loop_calls F Afunc dnorm small fuel j be Vs) ->
    lanczos_post (j + fuel + 1) (lanczos_loop F Afunc dnorm small fuel j al be Vs).
  Proof.
    induction fuel as [|fuel IH]; intros j al be Vs HI HC.
    - cbn [lanczos_loop]. apply inv_exit; [exact HI|lia|]. split; [discriminate|lia].
    - pose proof HI as (HV & _ & _ & [Hl _] & _). cbn [lanczos_loop lanczos_loop_calls] in *.
      rewrite body_w in * by (apply Hl; lia). cbv zeta in *.
      set (vj := vat Vs j) in *. set (a := cre (vdot (Afunc vj) vj)) in *.
      set (w' := vsub (Afunc vj) (vadd (rscale a vj) (lterm be Vs j))) in *.
      inversion HC as [|c cs Hc Hcs]; subst c cs.
      destruct (small (dnorm w')) eqn:Hs.
      + apply inv_exit; [exact HI|lia|]. split; [lia|reflexivity].
      + replace (j + S fuel + 1) with (S j + fuel + 1) by lia. apply IH; [|exact Hcs].
        apply (inv_step j al be Vs HI (dnorm w') Hc Hs).
  Qed.

  Theorem lanczos_spec (v : vec) m : length v = n -> v <> vzero n -> 1 <= m ->
    Forall norm_ok (lanczos_calls F Afunc dnorm small v m) ->
    exists r, lanczos F Afunc dnorm small v m = Some r /\ lanczos_post m r /\
              vat (snd (fst r)) 0 = vdivr v (dnorm v).
  Proof.
    intros Hv Hnz Hm HC. unfold lanczos, lanczos_calls in *. destruct m as [|m']; [lia|].
    inversion HC as [|c cs Hc Hcs]; subst c cs.
    assert (Hne : dnorm v <> f0 F).
    { intros E. destruct Hc as [_ Hc]. cbn [fst snd] in Hc. rewrite E in Hc. apply Hnz. rewrite <- Hv. apply nrm2_zero. rewrite <- Hc. ring. }
    assert (Hpos : flt F (f0 F) (dnorm v)).
    { apply fle_neq_lt; [apply Hc|]. intros E. apply Hne. symmetry. exact E. }
    unfold fltb. unfold flt in Hpos. rewrite Hpos. cbn [negb].
    eexists. split; [reflexivity|].
    assert (HI : inv 0 [] [] [vdivr v (dnorm v)]).
    { unfold inv. repeat split; try reflexivity; try (intros; lia).
      - intros i Hi. cbn [length] in Hi. replace i with 0 by lia. apply length_vdivr. exact Hv.
      - intros i j Hi Hj. cbn [length] in Hi, Hj. replace i with 0 by lia. replace j with 0 by lia.
        unfold vat. cbn [nth]. rewrite delta_refl. apply unit_vdivr; assumption. }
    pose proof (lanczos_loop_spec m' 0 [] [] [vdivr v (dnorm v)] HI Hcs) as HP.
    replace (0 + m' + 1) with (S m') in HP by lia. split; [exact HP|].
    clear HP HC Hcs. generalize (@nil F) at 1 2. generalize (@nil F).
    assert (G : forall fuel j al be (Vs : list vec), 0 < length Vs ->
              vat (snd (fst (lanczos_loop F Afunc dnorm small fuel j al be Vs))) 0 = vat Vs 0).
    { induction fuel as [|fuel IH]; intros j al be Vs HVs; cbn [lanczos_loop].
      - reflexivity.
      - destruct (lanczos_body F Afunc dnorm j be Vs) as [[a w'] b]. destruct (small b); [reflexivity|].
        rewrite IH by (rewrite app_length; cbn [length]; lia). apply vat_app1. exact HVs. }
    intros be al. rewrite G by (cbn [length]; lia). reflexivity.
  Qed.

  (* V^H A V = tridiag(alpha, beta), entrywise *)
  Theorem lanczos_tridiag m al be (Vs : list vec) wn : lanczos_post m (al, be, Vs, wn) ->
    forall i j, i < length Vs -> j < length Vs -> vdot (vat Vs i) (Afunc (vat Vs j)) = tri al be i j.
  Proof.
    intros (H1 & Hm & Hal & Hbe & Hw & Ho & Hpos & Hrec & Hlast) i j Hi Hj. pose proof Ho as [Hl Hd]. unfold tri.
    destruct (Nat.lt_trichotomy i j) as [Hlt|[->|Hgt]].
    - rewrite (entry_upper al be Vs i j Ho Hlt Hj) by (apply Hrec; lia).
      replace (Nat.eqb i j) with false by (symmetry; apply Nat.eqb_neq; lia).
      destruct (Nat.eqb (S i) j) eqn:E; [reflexivity|].
      replace (Nat.eqb i (S j)) with false by (symmetry; apply Nat.eqb_neq; lia). reflexivity.
    - rewrite Nat.eqb_refl. destruct (Nat.eq_dec (S j) (length Vs)) as [E|E].
      + replace j with (length Vs - 1) by lia. exact Hlast.
      + apply (entry_diag al be Vs j Ho); [lia|]. apply Hrec. lia.
    - rewrite <- vdot_conj, <- A_sa by (apply Hl; lia).
      rewrite (entry_upper al be Vs j i Ho Hgt Hi) by (apply Hrec; lia).
      replace (Nat.eqb i j) with false by (symmetry; apply Nat.eqb_neq; lia).
      replace (Nat.eqb (S i) j) with false by (symmetry; apply Nat.eqb_neq; lia).
      rewrite (Nat.eqb_sym i (S j)). destruct (Nat.eqb (S j) i); [apply conj_cof|apply kconj_0].
  Qed.
End Lanczos.
