(* C03 — add_mps / add_mpo: the dense form of the block construction is the sum of the dense forms. *)
From Coq Require Import ZArith List Lia Bool Arith Ring.
From PT Require Import Base.Scalar Base.BigSum Base.Mx Model.Tensor Model.MPSOps Proofs.MPSOpsBase.
Import ListNotations.

Section Add.
  Variable R : cring.
  Add Ring Rring_c03add : (k_rt R).
  Notation "0" := (k0 R). Notation "1" := (k1 R).
  Infix "+" := (kadd R). Infix "*" := (kmul R).
  Notation mx := (mx R).
  Notation site := (site R). Notation osite := (osite R).

  (* the block construction on bare lists of matrices *)
  Definition idzip (f : mx -> mx -> mx) (M N : mx) : mx := f M N.

  Lemma add_mid_single T zip (A B : T) Bs : add_mid zip [A] (B :: Bs) = [zip (@col_mx R) A B].
  Proof. reflexivity. Qed.
  Lemma add_mid_cons T zip (A A2 : T) As B Bs :
    add_mid zip (A :: A2 :: As) (B :: Bs) = zip (@diag_mx R) A B :: add_mid zip (A2 :: As) Bs.
  Proof. reflexivity. Qed.
  Lemma add_chain_single T zip (alpha : R) (A B : T) Bs : add_chain zip alpha [A] (B :: Bs) = [zip (blk_add alpha) A B].
  Proof. reflexivity. Qed.
  Lemma add_chain_cons T zip (alpha : R) (A A2 : T) As B Bs :
    add_chain zip alpha (A :: A2 :: As) (B :: Bs) = zip (blk_row alpha) A B :: add_mid zip (A2 :: As) Bs.
  Proof. reflexivity. Qed.

  (* picking by a word commutes with the block construction *)
  Lemma pick_add_mid d (As Bs : list site) w :
    length As = length Bs -> length w = length As -> Forall (fun A => length A = d) As ->
    Forall (fun s => (s < d)%nat) w ->
    pick (add_mid site_zip As Bs) w = add_mid idzip (pick As w) (pick Bs w).
  Proof.
    revert Bs w; induction As as [|A As IH]; intros Bs w HL Hw HA Hs.
    - destruct w; reflexivity.
    - destruct Bs as [|B Bs]; [discriminate HL|]. destruct w as [|s w]; [discriminate Hw|].
      pose proof (Forall_inv HA) as HdA; pose proof (Forall_inv_tail HA) as HA'; cbv beta in HdA.
      pose proof (Forall_inv Hs) as Hs1; pose proof (Forall_inv_tail Hs) as Hs'; cbv beta in Hs1.
      destruct As as [|A2 As].
      + destruct Bs; [|discriminate HL]. destruct w; [|discriminate Hw].
        rewrite add_mid_single. cbn [pick]. rewrite add_mid_single. unfold idzip.
        rewrite sel_site_zip by lia. reflexivity.
      + destruct Bs as [|B2 Bs]; [discriminate HL|]. destruct w as [|s2 w]; [discriminate Hw|].
        rewrite add_mid_cons. change (pick (A :: A2 :: As) (s :: s2 :: w)) with (sel A s :: pick (A2 :: As) (s2 :: w)).
        change (pick (B :: B2 :: Bs) (s :: s2 :: w)) with (sel B s :: pick (B2 :: Bs) (s2 :: w)).
        change (pick (site_zip (@diag_mx R) A B :: add_mid site_zip (A2 :: As) (B2 :: Bs)) (s :: s2 :: w))
          with (sel (site_zip (@diag_mx R) A B) s :: pick (add_mid site_zip (A2 :: As) (B2 :: Bs)) (s2 :: w)).
        rewrite (IH (B2 :: Bs) (s2 :: w)); [| simpl in *; lia | simpl in *; lia | exact HA' | exact Hs'].
        change (pick (A2 :: As) (s2 :: w)) with (sel A2 s2 :: pick As w).
        change (pick (B2 :: Bs) (s2 :: w)) with (sel B2 s2 :: pick Bs w).
        rewrite add_mid_cons. unfold idzip at 2. rewrite sel_site_zip by lia. reflexivity.
  Qed.

  Lemma pick_add_chain d alpha (As Bs : list site) w :
    length As = length Bs -> length w = length As -> Forall (fun A => length A = d) As ->
    Forall (fun s => (s < d)%nat) w ->
    pick (add_chain site_zip alpha As Bs) w = add_chain idzip alpha (pick As w) (pick Bs w).
  Proof.
    intros HL Hw HA Hs.
    destruct As as [|A As]; [destruct w; reflexivity|].
    destruct Bs as [|B Bs]; [discriminate HL|]. destruct w as [|s w]; [discriminate Hw|].
    pose proof (Forall_inv HA) as HdA; pose proof (Forall_inv_tail HA) as HA'; cbv beta in HdA.
      pose proof (Forall_inv Hs) as Hs1; pose proof (Forall_inv_tail Hs) as Hs'; cbv beta in Hs1.
    destruct As as [|A2 As].
    - destruct Bs; [|discriminate HL]. destruct w; [|discriminate Hw].
      rewrite add_chain_single. cbn [pick]. rewrite add_chain_single. unfold idzip.
      rewrite sel_site_zip by lia. reflexivity.
    - destruct Bs as [|B2 Bs]; [discriminate HL|]. destruct w as [|s2 w]; [discriminate Hw|].
      rewrite add_chain_cons. change (pick (A :: A2 :: As) (s :: s2 :: w)) with (sel A s :: pick (A2 :: As) (s2 :: w)).
      change (pick (B :: B2 :: Bs) (s :: s2 :: w)) with (sel B s :: pick (B2 :: Bs) (s2 :: w)).
      change (pick (site_zip (blk_row alpha) A B :: add_mid site_zip (A2 :: As) (B2 :: Bs)) (s :: s2 :: w))
        with (sel (site_zip (blk_row alpha) A B) s :: pick (add_mid site_zip (A2 :: As) (B2 :: Bs)) (s2 :: w)).
      rewrite (pick_add_mid d); [| simpl in *; lia | simpl in *; lia | exact HA' | exact Hs'].
      change (pick (A2 :: As) (s2 :: w)) with (sel A2 s2 :: pick As w).
      change (pick (B2 :: Bs) (s2 :: w)) with (sel B2 s2 :: pick Bs w).
      rewrite add_chain_cons. unfold idzip at 1. rewrite sel_site_zip by lia. reflexivity.
  Qed.

  Lemma opick_add_mid d (As Bs : list osite) w w' :
    length As = length Bs -> length w = length As -> length w' = length As -> Forall (fun A => length A = d) As ->
    Forall (fun s => (s < d)%nat) w -> Forall (fun s => (s < d)%nat) w' ->
    opick (add_mid osite_zip As Bs) w w' = add_mid idzip (opick As w w') (opick Bs w w').
  Proof.
    revert Bs w w'; induction As as [|A As IH]; intros Bs w w' HL Hw Hw' HA Hs Hs'.
    - destruct w, w'; reflexivity.
    - destruct Bs as [|B Bs]; [discriminate HL|]. destruct w as [|s w]; [discriminate Hw|].
      destruct w' as [|t w']; [discriminate Hw'|].
      pose proof (Forall_inv HA) as HdA; pose proof (Forall_inv_tail HA) as HA'; cbv beta in HdA.
      pose proof (Forall_inv Hs) as Hs1; pose proof (Forall_inv_tail Hs) as Hs2; cbv beta in Hs1.
      pose proof (Forall_inv Hs') as Ht1; pose proof (Forall_inv_tail Hs') as Ht2; cbv beta in Ht1.
      destruct As as [|A2 As].
      + destruct Bs; [|discriminate HL]. destruct w; [|discriminate Hw]. destruct w'; [|discriminate Hw'].
        rewrite add_mid_single. cbn [opick]. rewrite add_mid_single. unfold idzip.
        rewrite osel_osite_zip by lia. reflexivity.
      + destruct Bs as [|B2 Bs]; [discriminate HL|]. destruct w as [|s2 w]; [discriminate Hw|].
        destruct w' as [|t2 w']; [discriminate Hw'|].
        rewrite add_mid_cons.
        change (opick (A :: A2 :: As) (s :: s2 :: w) (t :: t2 :: w'))
          with (osel A s t :: opick (A2 :: As) (s2 :: w) (t2 :: w')).
        change (opick (B :: B2 :: Bs) (s :: s2 :: w) (t :: t2 :: w'))
          with (osel B s t :: opick (B2 :: Bs) (s2 :: w) (t2 :: w')).
        change (opick (osite_zip (@diag_mx R) A B :: add_mid osite_zip (A2 :: As) (B2 :: Bs)) (s :: s2 :: w) (t :: t2 :: w'))
          with (osel (osite_zip (@diag_mx R) A B) s t :: opick (add_mid osite_zip (A2 :: As) (B2 :: Bs)) (s2 :: w) (t2 :: w')).
        rewrite (IH (B2 :: Bs) (s2 :: w) (t2 :: w'));
          [| simpl in *; lia | simpl in *; lia | simpl in *; lia | exact HA' | exact Hs2 | exact Ht2].
        change (opick (A2 :: As) (s2 :: w) (t2 :: w')) with (osel A2 s2 t2 :: opick As w w').
        change (opick (B2 :: Bs) (s2 :: w) (t2 :: w')) with (osel B2 s2 t2 :: opick Bs w w').
        rewrite add_mid_cons. unfold idzip at 2. rewrite osel_osite_zip by lia. reflexivity.
  Qed.

  Lemma opick_add_chain d alpha (As Bs : list osite) w w' :
    length As = length Bs -> length w = length As -> length w' = length As -> Forall (fun A => length A = d) As ->
    Forall (fun s => (s < d)%nat) w -> Forall (fun s => (s < d)%nat) w' ->
    opick (add_chain osite_zip alpha As Bs) w w' = add_chain idzip alpha (opick As w w') (opick Bs w w').
  Proof.
    intros HL Hw Hw' HA Hs Hs'.
    destruct As as [|A As]; [destruct w, w'; reflexivity|].
    destruct Bs as [|B Bs]; [discriminate HL|]. destruct w as [|s w]; [discriminate Hw|].
    destruct w' as [|t w']; [discriminate Hw'|].
    pose proof (Forall_inv HA) as HdA; pose proof (Forall_inv_tail HA) as HA'; cbv beta in HdA.
    pose proof (Forall_inv Hs) as Hs1; pose proof (Forall_inv_tail Hs) as Hs2; cbv beta in Hs1.
    pose proof (Forall_inv Hs') as Ht1; pose proof (Forall_inv_tail Hs') as Ht2; cbv beta in Ht1.
    destruct As as [|A2 As].
    - destruct Bs; [|discriminate HL]. destruct w; [|discriminate Hw]. destruct w'; [|discriminate Hw'].
      rewrite add_chain_single. cbn [opick]. rewrite add_chain_single. unfold idzip.
      rewrite osel_osite_zip by lia. reflexivity.
    - destruct Bs as [|B2 Bs]; [discriminate HL|]. destruct w as [|s2 w]; [discriminate Hw|].
      destruct w' as [|t2 w']; [discriminate Hw'|].
      rewrite add_chain_cons.
      change (opick (A :: A2 :: As) (s :: s2 :: w) (t :: t2 :: w'))
        with (osel A s t :: opick (A2 :: As) (s2 :: w) (t2 :: w')).
      change (opick (B :: B2 :: Bs) (s :: s2 :: w) (t :: t2 :: w'))
        with (osel B s t :: opick (B2 :: Bs) (s2 :: w) (t2 :: w')).
      change (opick (osite_zip (blk_row alpha) A B :: add_mid osite_zip (A2 :: As) (B2 :: Bs)) (s :: s2 :: w) (t :: t2 :: w'))
        with (osel (osite_zip (blk_row alpha) A B) s t :: opick (add_mid osite_zip (A2 :: As) (B2 :: Bs)) (s2 :: w) (t2 :: w')).
      rewrite (opick_add_mid d);
        [| simpl in *; lia | simpl in *; lia | simpl in *; lia | exact HA' | exact Hs2 | exact Ht2].
      change (opick (A2 :: As) (s2 :: w) (t2 :: w')) with (osel A2 s2 t2 :: opick As w w').
      change (opick (B2 :: Bs) (s2 :: w) (t2 :: w')) with (osel B2 s2 t2 :: opick Bs w w').
      rewrite add_chain_cons. unfold idzip at 1. rewrite osel_osite_zip by lia. reflexivity.
  Qed.

  Lemma last_cons2 {A} (x y : A) l d : last (x :: y :: l) d = last (y :: l) d.
  Proof. reflexivity. Qed.

  (* the running column vector through block-diagonal sites: [X ; Y] *)
  Lemma mprod_add_mid (Ms : list mx) : forall Ns DsA DsB n n1 n2,
    Ms <> [] -> length Ms = length Ns -> mchain DsA Ms -> mchain DsB Ns -> last DsA 0%nat = last DsB 0%nat ->
    mprod n (add_mid idzip Ms Ns) = col_mx (mprod n1 Ms) (mprod n2 Ns).
  Proof.
    induction Ms as [|M Ms IH]; intros Ns DsA DsB n n1 n2 Hne HL HA HB Hlast; [contradiction|].
    destruct Ns as [|N Ns]; [discriminate HL|].
    destruct DsA as [|Da [|Da' DsA]]; simpl in HA; try contradiction.
    destruct DsB as [|Db [|Db' DsB]]; simpl in HB; try contradiction.
    destruct HA as (wM & rM & cM & HA). destruct HB as (wN & rN & cN & HB).
    destruct Ms as [|M2 Ms].
    - destruct Ns; [|discriminate HL]. rewrite add_mid_single. unfold idzip.
      rewrite !mprod_single by (try apply wf_col_mx; assumption). reflexivity.
    - destruct Ns as [|N2 Ns]; [discriminate HL|].
      rewrite add_mid_cons. unfold idzip at 1.
      change (mprod n (diag_mx M N :: add_mid idzip (M2 :: Ms) (N2 :: Ns)))
        with (mulmx (diag_mx M N) (mprod (nc (diag_mx M N)) (add_mid idzip (M2 :: Ms) (N2 :: Ns)))).
      rewrite (IH (N2 :: Ns) (Da' :: DsA) (Db' :: DsB) _ (nc M) (nc N));
        [| discriminate | simpl in *; lia | exact HA | exact HB | exact Hlast].
      change (mprod n1 (M :: M2 :: Ms)) with (mulmx M (mprod (nc M) (M2 :: Ms))).
      change (mprod n2 (N :: N2 :: Ns)) with (mulmx N (mprod (nc N) (N2 :: Ns))).
      apply mulmx_diag_col.
      + rewrite nr_mprod. simpl in HA. destruct DsA; try tauto. destruct HA as (_ & Hr & _). congruence.
      + rewrite nr_mprod. simpl in HB. destruct DsB; try tauto. destruct HB as (_ & Hr & _). congruence.
      + rewrite (nc_mprod' R _ _ _ _ HA), (nc_mprod' R _ _ _ _ HB). exact Hlast.
  Qed.

  Lemma mprod_add_chain alpha (Ms Ns : list mx) DsA DsB :
    Ms <> [] -> length Ms = length Ns -> mchain DsA Ms -> mchain DsB Ns ->
    hd 0%nat DsA = 1%nat -> hd 0%nat DsB = 1%nat -> last DsA 0%nat = 1%nat -> last DsB 0%nat = 1%nat ->
    get (mprod 1 (add_chain idzip alpha Ms Ns)) 0 0 = get (mprod 1 Ms) 0 0 + alpha * get (mprod 1 Ns) 0 0.
  Proof.
    intros Hne HL HA HB HhA HhB HlA HlB.
    destruct Ms as [|M Ms]; [contradiction|]. destruct Ns as [|N Ns]; [discriminate HL|].
    destruct DsA as [|Da [|Da' DsA]]; simpl in HA; try contradiction.
    destruct DsB as [|Db [|Db' DsB]]; simpl in HB; try contradiction.
    destruct HA as (wM & rM & cM & HA). destruct HB as (wN & rN & cN & HB).
    simpl in HhA, HhB. subst Da Db.
    destruct Ms as [|M2 Ms].
    - destruct Ns; [|discriminate HL]. rewrite add_chain_single. unfold idzip.
      destruct DsA; simpl in HA; try contradiction. destruct DsB; simpl in HB; try contradiction.
      simpl in HlA, HlB. subst Da' Db'.
      rewrite !mprod_single by (try apply wf_addmx; assumption).
      unfold blk_add. rewrite get_addmx, get_scalemx by lia. reflexivity.
    - destruct Ns as [|N2 Ns]; [discriminate HL|].
      rewrite add_chain_cons. unfold idzip at 1.
      change (mprod 1 (blk_row alpha M N :: add_mid idzip (M2 :: Ms) (N2 :: Ns)))
        with (mulmx (blk_row alpha M N) (mprod (nc (blk_row alpha M N)) (add_mid idzip (M2 :: Ms) (N2 :: Ns)))).
      rewrite (mprod_add_mid (M2 :: Ms) (N2 :: Ns) (Da' :: DsA) (Db' :: DsB) _ (nc M) (nc N));
        [| discriminate | simpl in *; lia | exact HA | exact HB | ].
      2:{ rewrite last_cons2 in HlA, HlB. congruence. }
      change (mprod 1 (M :: M2 :: Ms)) with (mulmx M (mprod (nc M) (M2 :: Ms))).
      change (mprod 1 (N :: N2 :: Ns)) with (mulmx N (mprod (nc N) (N2 :: Ns))).
      set (X := mprod (nc M) (M2 :: Ms)). set (Y := mprod (nc N) (N2 :: Ns)).
      assert (HX : nr X = nc M).
      { unfold X. rewrite nr_mprod. simpl in HA. destruct DsA; try tauto. destruct HA as (_ & Hr & _). congruence. }
      assert (HY : nr Y = nc N).
      { unfold Y. rewrite nr_mprod. simpl in HB. destruct DsB; try tauto. destruct HB as (_ & Hr & _). congruence. }
      assert (HcX : nc X = 1%nat).
      { unfold X. rewrite (nc_mprod' R _ _ _ _ HA). rewrite last_cons2 in HlA. exact HlA. }
      assert (HcY : nc Y = 1%nat).
      { unfold Y. rewrite (nc_mprod' R _ _ _ _ HB). rewrite last_cons2 in HlB. exact HlB. }
      unfold blk_row. rewrite get_mulmx_row_col; rewrite ?nr_scalemx, ?nc_scalemx; try lia.
      rewrite mulmx_scalemx_l, get_scalemx by (rewrite ?nr_mulmx, ?nc_mulmx; lia). reflexivity.
  Qed.

  (* ---------- statements about tensors ---------- *)
  Theorem add_chain_amp d alpha (As Bs : list site) DsA DsB w :
    chain_shape d DsA As = true -> chain_shape d DsB Bs = true -> bdim1 DsA = true -> bdim1 DsB = true ->
    As <> [] -> length As = length Bs -> word_ok d (length As) w ->
    amp (add_chain site_zip alpha As Bs) w = amp As w + alpha * amp Bs w.
  Proof.
    intros HA HB H1A H1B Hne HL Hw.
    apply bdim1_spec in H1A. apply bdim1_spec in H1B. destruct H1A, H1B.
    unfold amp. destruct Hw as [Hl Hw].
    rewrite (pick_add_chain d); [| exact HL | exact Hl | eapply chain_shape_sites; eauto | exact Hw].
    apply (mprod_add_chain alpha _ _ DsA DsB); auto.
    - destruct As; [contradiction|]. destruct w; [discriminate Hl|]. discriminate.
    - rewrite !length_pick; congruence.
    - eapply mchain_pick; eauto. split; assumption.
    - eapply mchain_pick; eauto. split; [congruence|assumption].
  Qed.

  Theorem add_ochain_opamp d alpha (As Bs : list osite) DsA DsB w w' :
    ochain_shape d DsA As = true -> ochain_shape d DsB Bs = true -> bdim1 DsA = true -> bdim1 DsB = true ->
    As <> [] -> length As = length Bs -> word_ok d (length As) w -> word_ok d (length As) w' ->
    opamp (add_chain osite_zip alpha As Bs) w w' = opamp As w w' + alpha * opamp Bs w w'.
  Proof.
    intros HA HB H1A H1B Hne HL Hw Hw'.
    apply bdim1_spec in H1A. apply bdim1_spec in H1B. destruct H1A, H1B.
    unfold opamp. destruct Hw as [Hl Hw]. destruct Hw' as [Hl' Hw'].
    rewrite (opick_add_chain d); [| exact HL | exact Hl | exact Hl' | eapply ochain_shape_sites; eauto | exact Hw | exact Hw'].
    apply (mprod_add_chain alpha _ _ DsA DsB); auto.
    - destruct As; [contradiction|]. destruct w; [discriminate Hl|]. destruct w'; [discriminate Hl'|]. discriminate.
    - rewrite !length_opick; congruence.
    - eapply mchain_opick; eauto; split; assumption.
    - eapply mchain_opick; eauto; split; (congruence || assumption).
  Qed.

  (* ---------- bond quantum numbers of a sum ---------- *)
  Lemma add_qD_mid_length (qa qb : list (list Z)) : length qa = length qb -> length (add_qD_mid qa qb) = length qa.
  Proof.
    revert qb; induction qa as [|a qa IH]; intros [|b qb] H; try discriminate H; [reflexivity|].
    destruct qa as [|a2 qa]; [reflexivity|]. destruct qb as [|b2 qb]; [discriminate H|].
    change (add_qD_mid (a :: a2 :: qa) (b :: b2 :: qb)) with ((a ++ b)%list :: add_qD_mid (a2 :: qa) (b2 :: qb)).
    change (length ((a ++ b)%list :: add_qD_mid (a2 :: qa) (b2 :: qb))) with (S (length (add_qD_mid (a2 :: qa) (b2 :: qb)))).
    rewrite IH; [reflexivity | simpl in H |- *; lia].
  Qed.
  Lemma add_qD_length (qa qb : list (list Z)) : length qa = length qb -> length (add_qD qa qb) = length qa.
  Proof.
    destruct qa as [|a qa], qb as [|b qb]; simpl; intros H; try discriminate; auto.
    rewrite add_qD_mid_length by lia. reflexivity.
  Qed.
  (* inner bonds: concatenation; last bond: copied from the first operand *)
  Lemma add_qD_mid_nth (qa qb : list (list Z)) i : length qa = length qb -> (i < length qa)%nat ->
    nth i (add_qD_mid qa qb) [] =
      if Nat.eqb i (length qa - 1) then nth i qa [] else (nth i qa [] ++ nth i qb [])%list.
  Proof.
    revert qb i; induction qa as [|a qa IH]; intros [|b qb] i H Hi; simpl in H, Hi; try discriminate; try lia.
    destruct qa as [|a2 qa].
    - destruct i; [reflexivity|simpl in Hi; lia].
    - destruct qb as [|b2 qb]; [discriminate H|].
      change (add_qD_mid (a :: a2 :: qa) (b :: b2 :: qb)) with ((a ++ b)%list :: add_qD_mid (a2 :: qa) (b2 :: qb)).
      destruct i as [|i]; [reflexivity|].
      change (nth (S i) ((a ++ b)%list :: add_qD_mid (a2 :: qa) (b2 :: qb)) []) with (nth i (add_qD_mid (a2 :: qa) (b2 :: qb)) []).
      rewrite IH by (simpl in *; lia).
      replace (length (a :: a2 :: qa) - 1)%nat with (S (length (a2 :: qa) - 1)) by (simpl; lia).
      change (nth (S i) (a :: a2 :: qa) []) with (nth i (a2 :: qa) []).
      change (nth (S i) (b :: b2 :: qb) []) with (nth i (b2 :: qb) []).
      reflexivity.
  Qed.
  Theorem add_qD_nth (qa qb : list (list Z)) i : length qa = length qb -> (i < length qa)%nat ->
    nth i (add_qD qa qb) [] =
      if Nat.eqb i 0 || Nat.eqb i (length qa - 1) then nth i qa [] else (nth i qa [] ++ nth i qb [])%list.
  Proof.
    destruct qa as [|a qa], qb as [|b qb]; simpl length; intros H Hi; try discriminate; try lia.
    destruct i as [|i]; [reflexivity|].
    change (nth (S i) (add_qD (a :: qa) (b :: qb)) []) with (nth i (add_qD_mid qa qb) []).
    rewrite add_qD_mid_nth by lia.
    change (nth (S i) (a :: qa) []) with (nth i qa []). change (nth (S i) (b :: qb) []) with (nth i qb []).
    replace (S (length qa) - 1)%nat with (length qa) by lia.
    cbn [Nat.eqb orb]. destruct qa as [|a2 qa]; [simpl in Hi; lia|].
    replace (length (a2 :: qa) - 1)%nat with (length qa) by (simpl; lia).
    change (length (a2 :: qa)) with (S (length qa)). reflexivity.
  Qed.
End Add.
