(* C17, totality of from_automaton.  For a consistent automaton (AutOp.is_consistent) and L >= 1:
     the automaton has a path of L steps between its terminals (Model/AutOpPath.v: is_path, site-dependent activity)
       <->  the model of OpGraph.from_automaton returns a graph (no exception, no assertion of the code fires, the
            model's fuel for the final is_consistent suffices);
     without such a path the model ends in the AssertionError of the line [assert nids_active[0] == [...]].
   Part A: the reachability sweeps never raise (KeyError) and stay inside the node dictionary.
   Part B: membership in the backward / forward sets = existence of a path.
   Part C: the left-to-right sweep never raises (fresh node / edge ids, index lookups).
   Part D: assembly. *)
From Coq Require Import ZArith List Lia Bool Permutation.
From PT Require Import Base.Scalar Base.BigSum Model.OpGraph Model.Rewrites Model.C17Common Model.AutOp Model.AutOpPath
                       Proofs.RewritesBase Proofs.RewritesConsistent
                       Proofs.C17GraphSem Proofs.C17AutOp Proofs.C17AutPath Proofs.C17LenBase Proofs.C17LenAut
                       Model.OpTree Proofs.C17LenTree Proofs.C17AutFuel.
Import ListNotations.
Open Scope Z_scope.

Lemma existsb_find {A} (p : A -> bool) (l : list A) : existsb p l = true -> exists a, find p l = Some a.
Proof.
  induction l as [|x t IH]; cbn [existsb find]; intros H; [discriminate|].
  destruct (p x); [eauto|]. apply IH. exact H.
Qed.

Lemma sequence_map_ok {A B} (f : A -> res B) (l : list A) :
  (forall a, In a l -> exists b, f a = Ok b) -> exists r, sequence (map f l) = Ok r.
Proof.
  induction l as [|x t IH]; intros H; cbn [map sequence]; [eexists; reflexivity|].
  destruct (H x (or_introl eq_refl)) as [b Hb]. rewrite Hb. cbn [bind].
  destruct IH as [r Hr]; [intros a Ha; apply H; right; exact Ha|]. rewrite Hr. cbn [bind]. eexists; reflexivity.
Qed.

Lemma Forall2_len {A B} (Q : A -> B -> Prop) l1 l2 : Forall2 Q l1 l2 -> length l1 = length l2.
Proof. induction 1; cbn [length]; congruence. Qed.

Lemma Forall2_in_r {A B} (Q : A -> B -> Prop) l1 l2 b : Forall2 Q l1 l2 -> In b l2 -> exists a, In a l1 /\ Q a b.
Proof.
  induction 1 as [|x y l l' Hxy HF IH]; intros Hb; [destruct Hb|]. destruct Hb as [<-|Hb].
  - exists x. split; [left; reflexivity|exact Hxy].
  - destruct (IH Hb) as [a [Ha Hq]]. exists a. split; [right; exact Ha|exact Hq].
Qed.

Lemma last_is_nth {A} (l : list A) d : l <> [] -> last l d = nth (length l - 1) l d.
Proof.
  induction l as [|x t IH]; intros H; [congruence|]. destruct t as [|y t']; [reflexivity|].
  change (last (x :: y :: t') d) with (last (y :: t') d). rewrite IH by discriminate.
  cbn [length]. replace (S (S (length t')) - 1)%nat with (S (S (length t') - 1)) by lia. reflexivity.
Qed.

Lemma filter_none (t : Z) (s : list Z) : ~ In t s -> filter (fun x => zmem x [t]) s = [].
Proof.
  induction s as [|x s' IH]; intros H; [reflexivity|]. cbn [filter zmem existsb].
  destruct (Z.eqb_spec x t) as [->|Hne]; [exfalso; apply H; left; reflexivity|]. cbn [orb]. apply IH.
  intros Hin. apply H. right. exact Hin.
Qed.
Lemma filter_single (t : Z) (s : list Z) : NoDup s -> In t s -> filter (fun x => zmem x [t]) s = [t].
Proof.
  induction s as [|x s' IH]; intros Hnd H; [destruct H|]. inversion Hnd; subst. cbn [filter zmem existsb].
  destruct (Z.eqb_spec x t) as [->|Hne]; cbn [orb].
  - f_equal. apply filter_none. assumption.
  - apply IH; [assumption|]. destruct H as [->|H]; [congruence|exact H].
Qed.

Section AutTotal.
  Variable R : cring.
  Notation graph := (graph R).
  Notation gedge := (gedge R).
  Notation aedge := (aedge R).
  Variable aut : autop R.

  (* the hypothesis of the property: some list of edge ids is a path of L steps between the terminals *)
  Definition has_path (L : nat) : Prop := exists eids, is_path aut L eids = true.

  Definition Known (x : Z) : Prop := exists n, afind_node aut x = Some n.

  (* ================= Part C (needs no consistency): fresh ids ================= *)
  Definition NFresh (st : bstate R) : Prop := forall x, In x (nids R (b_g st)) -> x < b_nid st.
  Definition EFresh (st : bstate R) : Prop := forall x, In x (eids R (b_g st)) -> x < b_eid st.

  Lemma build_edge_ok i act_i map_i m' st ea : length map_i = length act_i -> EFresh st ->
    exists st', build_edge i act_i map_i m' (Ok st) ea = Ok st' /\ EFresh st' /\
                nids R (b_g st') = nids R (b_g st) /\ b_nid st' = b_nid st.
  Proof.
    intros Hlen HE. unfold build_edge. cbn [bind].
    destruct (ae_active ea i); cbn [negb]; [|exists st; auto].
    destruct (index_of (ae_from ea) act_i) as [idx|] eqn:Hidx; [|exists st; auto].
    destruct (nth_error map_i idx) as [m0|] eqn:Hm0.
    2:{ exfalso. apply nth_error_None in Hm0. apply index_of_nth in Hidx.
        assert (idx < length act_i)%nat by (apply nth_error_Some; congruence). lia. }
    set (e0 := new_edge (b_eid st) m0 m' (ae_opics ea i)).
    assert (Hadd : exists g', add_connect_edge (b_g st) e0 = Some g').
    { unfold add_connect_edge, add_edge. destruct (has_edge_id (b_g st) (e_id e0)) eqn:Hh; [|eexists; reflexivity].
      exfalso. apply In_eids_has in Hh. specialize (HE _ Hh). cbn in HE. lia. }
    destruct Hadd as [g' Hadd]. rewrite Hadd. cbn [of_opt bind].
    destruct (add_connect_edge_eq R (b_g st) g' e0 Hadd) as [_ Hg'].
    eexists. split; [reflexivity|]. unfold EFresh. cbn [b_g b_nid b_eid]. subst g'. split; [|split; [|reflexivity]].
    - intros x Hx. unfold eids in Hx. cbn [g_edges] in Hx. rewrite map_app in Hx. apply in_app_or in Hx.
      destruct Hx as [Hx|[<-|[]]]; [specialize (HE x Hx); lia|cbn; lia].
    - unfold nids. cbn [g_nodes]. rewrite map_map. apply map_ext. intros n. reflexivity.
  Qed.

  Lemma build_edges_ok i act_i map_i m' : length map_i = length act_i -> forall es st, EFresh st ->
    exists st', fold_left (build_edge i act_i map_i m') es (Ok st) = Ok st' /\ EFresh st' /\
                nids R (b_g st') = nids R (b_g st) /\ b_nid st' = b_nid st.
  Proof.
    intros Hlen. induction es as [|ea t IH]; intros st HE; cbn [fold_left]; [exists st; auto|].
    destruct (build_edge_ok i act_i map_i m' st ea Hlen HE) as [st1 [E1 [HE1 [N1 B1]]]]. rewrite E1.
    destruct (IH st1 HE1) as [st' [E' [HE' [N' B']]]]. exists st'. split; [exact E'|]. split; [exact HE'|].
    split; congruence.
  Qed.

  Lemma lookup_edges_total l : (forall eid, In eid l -> exists e, afind_edge aut eid = Some e) ->
    exists es, lookup_edges aut l = Ok es.
  Proof.
    induction l as [|eid t IH]; intros H; cbn [lookup_edges]; [eexists; reflexivity|].
    destruct (H eid (or_introl eq_refl)) as [e He]. rewrite He.
    destruct IH as [es Hes]; [intros x Hx; apply H; right; exact Hx|]. rewrite Hes. cbn [bind]. eexists; reflexivity.
  Qed.
  Lemma lookup_nodes_total l : (forall x, In x l -> Known x) -> exists ns, lookup_nodes aut l = Ok ns.
  Proof.
    induction l as [|a t IH]; intros H; cbn [lookup_nodes]; [eexists; reflexivity|].
    destruct (H a (or_introl eq_refl)) as [n Hn]. rewrite Hn.
    destruct IH as [ns Hns]; [intros x Hx; apply H; right; exact Hx|]. rewrite Hns. cbn [bind]. eexists; reflexivity.
  Qed.

  Definition in_found (na : gnode) : Prop := forall eid, In eid (n_in na) -> exists e, afind_edge aut eid = Some e.

  Lemma build_node_ok i act_i map_i st lay na : length map_i = length act_i -> NFresh st -> EFresh st -> in_found na ->
    exists st', build_node aut i act_i map_i (Ok (st, lay)) na = Ok (st', lay ++ [b_nid st]) /\
                NFresh st' /\ EFresh st' /\ (forall x, In x (nids R (b_g st)) -> In x (nids R (b_g st'))).
  Proof.
    intros Hlen HN HE Hf. unfold build_node. cbn [bind fst snd].
    assert (Hadd : add_node (b_g st) (mknode (b_nid st) [] [] (n_q na)) =
                   Some (mkgraph (g_nodes (b_g st) ++ [mknode (b_nid st) [] [] (n_q na)]) (g_edges (b_g st))
                                 (g_t0 (b_g st)) (g_t1 (b_g st)))).
    { unfold add_node. cbn [n_id]. destruct (has_node (b_g st) (b_nid st)) eqn:Hh; [|reflexivity].
      exfalso. apply In_nids_has in Hh. specialize (HN _ Hh). lia. }
    rewrite Hadd. cbn [of_opt bind].
    destruct (lookup_edges_total (n_in na) Hf) as [es Hes]. rewrite Hes. cbn [bind].
    set (g1 := mkgraph (g_nodes (b_g st) ++ [mknode (b_nid st) [] [] (n_q na)]) (g_edges (b_g st)) (g_t0 (b_g st)) (g_t1 (b_g st))).
    destruct (build_edges_ok i act_i map_i (b_nid st) Hlen es (mkb g1 (b_nid st + 1) (b_eid st))) as [st' [E' [HE' [N' B']]]].
    { intros x Hx. cbn [b_g b_eid] in *. apply HE. exact Hx. }
    rewrite E'. cbn [bind]. exists st'. split; [reflexivity|]. cbn [b_g b_nid] in N', B'.
    assert (Hn1 : nids R g1 = nids R (b_g st) ++ [b_nid st]) by (unfold nids, g1; cbn [g_nodes]; rewrite map_app; reflexivity).
    split; [|split; [exact HE'|]].
    - intros x Hx. rewrite N', Hn1 in Hx. rewrite B'. apply in_app_or in Hx.
      destruct Hx as [Hx|[<-|[]]]; [specialize (HN x Hx); lia|lia].
    - intros x Hx. rewrite N', Hn1. apply in_or_app. left. exact Hx.
  Qed.

  Lemma build_nodes_ok i act_i map_i : length map_i = length act_i -> forall nas st lay,
    NFresh st -> EFresh st -> (forall na, In na nas -> in_found na) ->
    exists st' lay', fold_left (build_node aut i act_i map_i) nas (Ok (st, lay)) = Ok (st', lay') /\
                     NFresh st' /\ EFresh st' /\ length lay' = (length lay + length nas)%nat /\
                     (forall x, In x (nids R (b_g st)) -> In x (nids R (b_g st'))).
  Proof.
    intros Hlen. induction nas as [|na t IH]; intros st lay HN HE Hf; cbn [fold_left].
    - exists st, lay. repeat split; auto; cbn [length]; lia.
    - destruct (build_node_ok i act_i map_i st lay na Hlen HN HE (Hf na (or_introl eq_refl))) as [st1 [E1 [HN1 [HE1 I1]]]].
      rewrite E1. destruct (IH st1 (lay ++ [b_nid st]) HN1 HE1) as [st' [lay' [E' [HN' [HE' [L' I']]]]]].
      { intros na' Hna'. apply Hf. right. exact Hna'. }
      exists st', lay'. split; [exact E'|]. split; [exact HN'|]. split; [exact HE'|]. split; [|auto].
      rewrite L', app_length. cbn [length]. lia.
  Qed.

  (* every node that the dictionary holds refers to existing edges (first half of AutOp.is_consistent) *)
  Hypothesis Hin_found : forall x n, afind_node aut x = Some n -> in_found n.

  Lemma build_layers_ok : forall rest act_i i map_i st,
    length map_i = length act_i -> NFresh st -> EFresh st ->
    (forall a, In a rest -> forall x, In x a -> Known x) ->
    exists st', build_layers aut i (act_i :: rest) map_i st = Ok st' /\
                (forall x, In x (nids R (b_g st)) -> In x (nids R (b_g st'))).
  Proof.
    induction rest as [|act_next rest IH]; intros act_i i map_i st Hlen HN HE HK.
    - cbn [build_layers]. exists st. auto.
    - cbn [build_layers]. unfold build_layer.
      destruct (lookup_nodes_total act_next) as [nas Hnas]; [apply HK; left; reflexivity|]. rewrite Hnas. cbn [bind].
      pose proof (lookup_nodes_ok R aut _ _ Hnas) as HF2.
      destruct (build_nodes_ok i act_i map_i Hlen nas st [] HN HE) as [st1 [lay1 [E1 [HN1 [HE1 [L1 I1]]]]]].
      { intros na Hna. destruct (Forall2_in_r _ _ _ na HF2 Hna) as [a [_ Ha]]. eapply Hin_found. exact Ha. }
      rewrite E1. cbn [bind fst snd].
      destruct (IH act_next (S i) lay1 st1) as [st' [E' I']]; auto.
      { rewrite L1. cbn [length Nat.add]. symmetry. eapply Forall2_len. exact HF2. }
      { intros a Ha. apply HK. right. exact Ha. }
      exists st'. split; [exact E'|auto].
  Qed.
End AutTotal.

Section AutTotalMain.
  Variable R : cring.
  Notation aedge := (aedge R).
  Variable aut : autop R.
  Hypothesis Hcons : aut_consistent aut = true.
  Notation Known := (Known R aut).

  (* ================= Part A: the reachability sweeps never raise ================= *)
  Lemma node_eids_found n dir eid : In n (a_nodes aut) -> (dir <= 1)%nat -> In eid (node_eids n dir) ->
    exists e, afind_edge aut eid = Some e.
  Proof.
    intros Hn Hd Hin. destruct (cons_parts R aut Hcons) as [_ [Hnodes _]]. destruct (Hnodes n Hn) as [_ [_ Hrefs]].
    unfold anode_refs_ok in Hrefs. rewrite forallb_forall in Hrefs.
    assert (Hd' : In dir [0%nat; 1%nat]) by (cbn; lia). specialize (Hrefs dir Hd'). rewrite forallb_forall in Hrefs.
    specialize (Hrefs eid Hin). destruct (afind_edge aut eid) as [e|]; [eauto|discriminate].
  Qed.

  Lemma in_found_all x n : afind_node aut x = Some n -> in_found R aut n.
  Proof.
    intros Hn eid Hin. destruct (afind_node_some R aut x n Hn) as [Hnin _].
    apply (node_eids_found n 0%nat eid Hnin); [lia|exact Hin].
  Qed.

  Lemma known_terminals : Known (a_t0 aut) /\ Known (a_t1 aut).
  Proof.
    pose proof Hcons as H. unfold aut_consistent in H. repeat rewrite andb_true_iff in H. destruct H as [[_ H0] H1].
    apply existsb_find in H0. apply existsb_find in H1. split; [exact H0|exact H1].
  Qed.

  Lemma fold_step_edge_ok dir i : forall eids s, (forall eid, In eid eids -> exists e, afind_edge aut eid = Some e) ->
    exists s', fold_left (step_edge R aut dir i) eids (Ok s) = Ok s'.
  Proof.
    induction eids as [|eid t IH]; intros s H; cbn [fold_left]; [eexists; reflexivity|].
    destruct (H eid (or_introl eq_refl)) as [e He].
    assert (E : step_edge R aut dir i (Ok s) eid = Ok (if ae_active e i then zset_add (ae_nid e dir) s else s)).
    { unfold step_edge. cbn [bind]. rewrite He. reflexivity. }
    rewrite E. apply IH. intros x Hx. apply H. right. exact Hx.
  Qed.

  Lemma fold_step_node_ok dir i : (dir <= 1)%nat -> forall prev s, (forall x, In x prev -> Known x) ->
    exists s', fold_left (step_node R aut dir i) prev (Ok s) = Ok s'.
  Proof.
    intros Hd. induction prev as [|nid t IH]; intros s H; cbn [fold_left]; [eexists; reflexivity|].
    destruct (H nid (or_introl eq_refl)) as [n Hn].
    destruct (afind_node_some R aut nid n Hn) as [Hnin _].
    destruct (fold_step_edge_ok dir i (node_eids n dir) s) as [s1 Hs1].
    { intros eid Heid. eapply node_eids_found; eauto. }
    assert (E : step_node R aut dir i (Ok s) nid = Ok s1).
    { unfold step_node. cbn [bind]. rewrite Hn. exact Hs1. }
    rewrite E. apply IH. intros x Hx. apply H. right. exact Hx.
  Qed.

  Lemma step_ok dir i prev : (dir <= 1)%nat -> (forall x, In x prev -> Known x) ->
    exists s', step aut dir i prev = Ok s' /\ forall y, In y s' -> Known y.
  Proof.
    intros Hd H. destruct (fold_step_node_ok dir i Hd prev [] H) as [s' Hs']. exists s'. split; [exact Hs'|].
    intros y Hy. destruct (step_complete R aut dir i prev s' Hs') as [_ C].
    destruct (C y Hy) as [nid [n [eid [e [_ [_ [_ [He [_ Hy']]]]]]]]].
    destruct (afind_edge_some R aut eid e He) as [Hee _].
    destruct (edge_ends R aut Hcons e Hee) as [[n0 [H0 _]] [n1 [H1 _]]].
    rewrite <- Hy'. destruct dir as [|dir]; cbn [ae_nid]; [exists n0|exists n1]; assumption.
  Qed.

  Lemma fwd_ok i : exists s, fwd aut i = Ok s /\ forall y, In y s -> Known y.
  Proof.
    induction i as [|j IH]; cbn [fwd].
    - eexists. split; [reflexivity|]. intros y [<-|[]]. apply known_terminals.
    - destruct IH as [s [Hs HK]]. rewrite Hs. cbn [bind]. apply step_ok; [lia|exact HK].
  Qed.
  Lemma back_ok L k : exists s, back aut L k = Ok s /\ forall y, In y s -> Known y.
  Proof.
    induction k as [|j IH]; cbn [back].
    - eexists. split; [reflexivity|]. intros y [<-|[]]. apply known_terminals.
    - destruct IH as [s [Hs HK]]. rewrite Hs. cbn [bind]. apply step_ok; [lia|exact HK].
  Qed.

  Lemma active_layers_ok L : exists all, active_layers aut L = Ok all.
  Proof.
    unfold active_layers. apply sequence_map_ok. intros i _. unfold active_layer.
    destruct (back_ok L (L - i)) as [s0 [H0 _]]. destruct (fwd_ok i) as [s1 [H1 _]]. rewrite H0, H1. cbn [bind].
    eexists; reflexivity.
  Qed.

  (* the first assertion of the code, [assert len(nids_active) == length + 1], is not a branch of the model:
     it cannot fire *)
  Lemma active_layers_length L all : active_layers aut L = Ok all -> length all = S L.
  Proof.
    intros Hall. unfold active_layers in Hall. apply sequence_length in Hall. rewrite map_length, seq_length in Hall. exact Hall.
  Qed.

  (* ================= Part B: membership in the sweeps = existence of a path ================= *)
  Lemma back_step L i : (i < L)%nat -> back aut L (L - i) = bind (back aut L (L - S i)) (step aut 0 i).
  Proof.
    intros Hi. replace (L - i)%nat with (S (L - S i)) by lia. cbn [back].
    replace (L - S (L - S i))%nat with i by lia. reflexivity.
  Qed.

  Lemma path_parts i x eid t : is_path_from aut i x (eid :: t) = true ->
    exists e, afind_edge aut eid = Some e /\ ae_from e = x /\ ae_active e i = true /\ is_path_from aut (S i) (ae_to e) t = true.
  Proof.
    cbn [is_path_from]. destruct (afind_edge aut eid) as [e|]; [|discriminate]. intros Hp.
    apply andb_true_iff in Hp. destruct Hp as [Hp Hrest]. apply andb_true_iff in Hp. destruct Hp as [Hfrom Hact].
    apply Z.eqb_eq in Hfrom. exists e. auto.
  Qed.

  Lemma path_back L : forall eids i x, is_path_from aut i x eids = true -> (i + length eids = L)%nat ->
    forall s, back aut L (L - i) = Ok s -> In x s.
  Proof.
    induction eids as [|eid t IH]; intros i x Hp Hlen s Hs.
    - cbn [is_path_from] in Hp. cbn [length] in Hlen. replace (L - i)%nat with 0%nat in Hs by lia. cbn [back] in Hs.
      inversion Hs; subst s. apply Z.eqb_eq in Hp. left. symmetry; exact Hp.
    - destruct (path_parts i x eid t Hp) as [e [He [Hfrom [Hact Hrest]]]]. cbn [length] in Hlen.
      rewrite back_step in Hs by lia.
      destruct (back_ok L (L - S i)) as [s0 [Hs0 _]]. rewrite Hs0 in Hs. cbn [bind] in Hs.
      assert (Hto : In (ae_to e) s0) by (apply (IH (S i) (ae_to e) Hrest ltac:(lia) s0 Hs0)).
      destruct (afind_edge_some R aut eid e He) as [Hee Heid].
      destruct (edge_ends R aut Hcons e Hee) as [_ [n [Hn Hin]]].
      rewrite <- Hfrom. change (ae_from e) with (ae_nid e 0).
      apply (step_sound R aut 0 i s0 s (ae_to e) n eid e Hs Hto Hn); [rewrite <- Heid; exact Hin|exact He|exact Hact].
  Qed.

  Lemma path_fwd : forall eids i x s, is_path_from aut i x eids = true -> fwd aut i = Ok s -> In x s ->
    forall s', fwd aut (i + length eids) = Ok s' -> In (a_t1 aut) s'.
  Proof.
    induction eids as [|eid t IH]; intros i x s Hp Hs Hx s' Hs'.
    - cbn [is_path_from] in Hp. cbn [length] in Hs'. rewrite Nat.add_0_r in Hs'. rewrite Hs in Hs'. inversion Hs'; subst s'.
      apply Z.eqb_eq in Hp. rewrite <- Hp. exact Hx.
    - destruct (path_parts i x eid t Hp) as [e [He [Hfrom [Hact Hrest]]]].
      cbn [length] in Hs'. rewrite Nat.add_succ_r in Hs'. change (S (i + length t)) with (S i + length t)%nat in Hs'.
      destruct (fwd_ok (S i)) as [s1 [Hs1 _]].
      apply (IH (S i) (ae_to e) s1 Hrest Hs1); [|exact Hs'].
      cbn [fwd] in Hs1. rewrite Hs in Hs1. cbn [bind] in Hs1.
      destruct (afind_edge_some R aut eid e He) as [Hee Heid].
      destruct (edge_ends R aut Hcons e Hee) as [[n [Hn Hin]] _].
      change (ae_to e) with (ae_nid e 1).
      apply (step_sound R aut 1 i s s1 x n eid e Hs1 Hx); [rewrite <- Hfrom; exact Hn|rewrite <- Heid; exact Hin|exact He|exact Hact].
  Qed.

  Lemma back_path L : forall k s x, (k <= L)%nat -> back aut L k = Ok s -> In x s ->
    exists eids, length eids = k /\ is_path_from aut (L - k) x eids = true.
  Proof.
    induction k as [|k IH]; intros s x Hk Hs Hx; cbn [back] in Hs.
    - inversion Hs; subst s. destruct Hx as [<-|[]]. exists []. split; [reflexivity|]. cbn [is_path_from]. apply Z.eqb_refl.
    - destruct (back aut L k) as [s0|] eqn:Hs0; cbn [bind] in Hs; [|discriminate].
      destruct (step_complete R aut 0 (L - S k) s0 s Hs) as [_ C].
      destruct (C x Hx) as [nid [n [eid [e [Hnid [Hn [Hin [He [Hact Hfrom]]]]]]]]].
      destruct (afind_node_some R aut nid n Hn) as [Hnin Hnid'].
      pose proof (anode_refs R aut Hcons n eid e 0%nat Hnin ltac:(lia) Hin He) as Hto. cbn [ae_nid Nat.sub] in Hto, Hfrom.
      destruct (IH s0 nid ltac:(lia) eq_refl Hnid) as [eids [Hlen Hp]].
      exists (eid :: eids). split; [cbn [length]; lia|]. cbn [is_path_from]. rewrite He, Hfrom, Z.eqb_refl, Hact. cbn [andb].
      replace (S (L - S k)) with (L - k)%nat by lia. rewrite Hto, Hnid'. exact Hp.
  Qed.

  (* the property's hypothesis, decided by the backward sweep *)
  Lemma has_path_back L b0 : back aut L L = Ok b0 -> (has_path R aut L <-> In (a_t0 aut) b0).
  Proof.
    intros Hb. split.
    - intros [eids Hp]. unfold is_path in Hp. apply andb_true_iff in Hp. destruct Hp as [Hlen Hp]. apply Nat.eqb_eq in Hlen.
      apply (path_back L eids 0%nat (a_t0 aut) Hp ltac:(lia) b0). rewrite Nat.sub_0_r. exact Hb.
    - intros Hin. destruct (back_path L L b0 (a_t0 aut) (le_n _) Hb Hin) as [eids [Hlen Hp]]. exists eids.
      unfold is_path. rewrite Hlen, Nat.eqb_refl. rewrite Nat.sub_diag in Hp. exact Hp.
  Qed.

  Lemma has_path_dec L : has_path R aut L \/ ~ has_path R aut L.
  Proof.
    destruct (back_ok L L) as [b0 [Hb _]]. destruct (in_dec Z.eq_dec (a_t0 aut) b0) as [Hin|Hnin].
    - left. apply (has_path_back L b0 Hb). exact Hin.
    - right. intros Hp. apply Hnin. apply (has_path_back L b0 Hb). exact Hp.
  Qed.

  (* ================= Part D: assembly ================= *)
  Theorem from_automaton_raw_total L : (1 <= L)%nat -> has_path R aut L -> exists g, from_automaton_raw aut L = Ok g.
  Proof.
    intros HL [eids Hp]. unfold is_path in Hp. apply andb_true_iff in Hp. destruct Hp as [Hlen Hp]. apply Nat.eqb_eq in Hlen.
    unfold from_automaton_raw. destruct (Nat.ltb_spec L 1) as [|_]; [lia|].
    destruct (active_layers_ok L) as [all Hall]. rewrite Hall. cbn [bind].
    pose proof (active_layers_length L all Hall) as Hlenall.
    destruct (layer_parts R aut L all Hall 0%nat ltac:(lia)) as [b0 [f0 [Hb0 [Hf0 E0]]]].
    destruct (layer_parts R aut L all Hall L (le_n _)) as [bL [fL [HbL [HfL EL]]]].
    rewrite Nat.sub_0_r in Hb0. rewrite Nat.sub_diag in HbL. cbn [fwd] in Hf0. cbn [back] in HbL.
    inversion Hf0; subst f0. inversion HbL; subst bL.
    assert (A0 : nth 0 all [] = [a_t0 aut]).
    { rewrite E0. apply filter_single; [apply zinc_NoDup; eapply back_zinc; exact Hb0|].
      apply (path_back L eids 0%nat (a_t0 aut) Hp ltac:(lia) b0). rewrite Nat.sub_0_r. exact Hb0. }
    assert (AL : last all [] = [a_t1 aut]).
    { rewrite last_is_nth by (destruct all; discriminate). rewrite Hlenall. replace (S L - 1)%nat with L by lia. rewrite EL.
      cbn [filter].
      assert (Hin : In (a_t1 aut) fL).
      { apply (path_fwd eids 0%nat (a_t0 aut) [a_t0 aut] Hp eq_refl (or_introl eq_refl)). cbn [Nat.add]. rewrite Hlen. exact HfL. }
      apply zmem_in in Hin. rewrite Hin. reflexivity. }
    rewrite A0, AL. cbn [zl_eq1]. rewrite !Z.eqb_refl. cbn [negb].
    destruct known_terminals as [[n0 Hn0] _]. rewrite Hn0. cbv zeta.
    set (g0 := mkgraph [mknode 0 [] [] (n_q n0); mknode (-1) [] [] 0] [] 0 (-1)).
    destruct all as [|a0 rest]; [discriminate|]. cbn [nth] in A0. cbn [length] in Hlenall.
    destruct (build_layers_ok R aut in_found_all rest a0 0%nat [0] (mkb g0 1 0)) as [st [Hst Hincl]].
    - rewrite A0. reflexivity.
    - intros x Hx. cbn in Hx. cbn [b_nid]. destruct Hx as [<-|[<-|[]]]; lia.
    - intros x Hx. cbn in Hx. destruct Hx.
    - intros a Ha x Hx. destruct (In_nth rest a [] Ha) as [k [Hk Hnth]].
      destruct (layer_parts R aut L (a0 :: rest) Hall (S k) ltac:(lia)) as [bk [fk [Hbk [_ Ek]]]].
      cbn [nth] in Ek. rewrite Hnth in Ek. rewrite Ek in Hx. apply filter_In in Hx. destruct Hx as [Hx _].
      destruct (back_ok L (L - S k)) as [s [Hs HK]]. rewrite Hs in Hbk. inversion Hbk; subst s. apply HK. exact Hx.
    - rewrite Hst. cbn [bind]. unfold max_nid.
      destruct (g_nodes (b_g st)) as [|nd nds] eqn:Hnodes.
      + exfalso. assert (H0 : In 0 (nids R (b_g st))) by (apply Hincl; cbn; auto). unfold nids in H0. rewrite Hnodes in H0. destruct H0.
      + cbn [bind]. eexists; reflexivity.
  Qed.

  (* totality: with a path of L >= 1 steps no exception is raised, no assertion fires, the fuel suffices *)
  Theorem from_automaton_total L : (1 <= L)%nat -> has_path R aut L ->
    exists g, from_automaton aut L = Some g /\ from_automaton_r aut L = Ok g /\ from_automaton_raw aut L = Ok g.
  Proof.
    intros HL Hp. destruct (from_automaton_raw_total L HL Hp) as [g Hg]. exists g.
    assert (E : from_automaton_r aut L = Ok g).
    { unfold from_automaton_r. rewrite Hg. cbn [bind].
      rewrite (Built_is_consistent R g L (from_automaton_raw_built R aut Hcons L g Hg)). reflexivity. }
    split; [unfold from_automaton; rewrite E; reflexivity|]. split; [exact E|exact Hg].
  Qed.

  (* converse: without such a path the code stops at [assert nids_active[0] == [autop.nid_terminal[0]]] *)
  Theorem from_automaton_no_path L : (1 <= L)%nat -> ~ has_path R aut L -> from_automaton_r aut L = Err EAssert.
  Proof.
    intros HL Hnp. unfold from_automaton_r, from_automaton_raw. destruct (Nat.ltb_spec L 1) as [|_]; [lia|].
    destruct (active_layers_ok L) as [all Hall]. rewrite Hall. cbn [bind].
    destruct (layer_parts R aut L all Hall 0%nat ltac:(lia)) as [b0 [f0 [Hb0 [Hf0 E0]]]].
    rewrite Nat.sub_0_r in Hb0. cbn [fwd] in Hf0. inversion Hf0; subst f0.
    assert (A0 : nth 0 all [] = []).
    { rewrite E0. apply filter_none. intros Hin. apply Hnp. apply (has_path_back L b0 Hb0). exact Hin. }
    rewrite A0. cbn [zl_eq1 negb bind]. reflexivity.
  Qed.

  Theorem from_automaton_some_iff L : (1 <= L)%nat -> ((exists g, from_automaton aut L = Some g) <-> has_path R aut L).
  Proof.
    intros HL. split.
    - intros [g Hg]. destruct (has_path_dec L) as [Hp|Hnp]; [exact Hp|exfalso].
      unfold from_automaton in Hg. rewrite (from_automaton_no_path L HL Hnp) in Hg. discriminate.
    - intros Hp. destruct (from_automaton_total L HL Hp) as [g [Hg _]]. exists g. exact Hg.
  Qed.
End AutTotalMain.

(* a non-zero coefficient of the automaton's path sum exhibits a path: the earlier formulation of the hypothesis *)
Section AutDenPath.
  Variable R : cring.
  Add Ring Rring_c17auttot : (k_rt R).
  Variable aut : autop R.
  Hypothesis Hcons : aut_consistent aut = true.

  Lemma suml_nonzero {A} (l : list A) (f : A -> R) : suml l f <> k0 R -> exists a, In a l /\ f a <> k0 R.
  Proof.
    induction l as [|a t IH]; cbn [suml]; intros H; [congruence|].
    destruct (keqb R (f a) (k0 R)) eqn:E.
    - apply keqb_spec in E. destruct IH as [b [Hb Hfb]].
      { intros Ht. apply H. rewrite E, Ht. ring. }
      exists b. split; [right; exact Hb|exact Hfb].
    - apply keqb_false in E. exists a. split; [left; reflexivity|exact E].
  Qed.

  Lemma aut_den_from_path : forall w i x, aut_den_from aut i w x <> k0 R ->
    exists eids, length eids = length w /\ is_path_from aut i x eids = true.
  Proof.
    induction w as [|o w IH]; intros i x H; cbn [aut_den_from] in H.
    - exists []. split; [reflexivity|]. cbn [is_path_from]. destruct (x =? a_t1 aut); [reflexivity|congruence].
    - apply suml_nonzero in H. destruct H as [e [He Hne]].
      destruct (ae_from e =? x) eqn:Hfrom; cbn [andb] in Hne; [|congruence].
      destruct (ae_active e i) eqn:Hact; [|congruence].
      assert (Hrest : aut_den_from aut (S i) w (ae_to e) <> k0 R).
      { intros E. apply Hne. rewrite E. ring. }
      destruct (IH (S i) (ae_to e) Hrest) as [eids [Hlen Hp]].
      exists (ae_id e :: eids). split; [cbn [length]; congruence|].
      cbn [is_path_from]. rewrite (afind_edge_self R aut Hcons e He), Hfrom, Hact, Hp. reflexivity.
  Qed.

  Lemma aut_den_has_path L w : aut_den aut L w <> k0 R -> has_path R aut L.
  Proof.
    unfold aut_den. destruct (Nat.eqb_spec (length w) L) as [E|]; [|congruence]. intros H.
    destruct (aut_den_from_path w 0%nat (a_t0 aut) H) as [eids [Hlen Hp]]. exists eids.
    unfold is_path. rewrite Hlen, E, Nat.eqb_refl, Hp. reflexivity.
  Qed.

  Theorem from_automaton_total_den L : (1 <= L)%nat -> (exists w, aut_den aut L w <> k0 R) ->
    exists g, from_automaton aut L = Some g.
  Proof.
    intros HL [w Hw]. destruct (from_automaton_total R aut Hcons L HL (aut_den_has_path L w Hw)) as [g [Hg _]]. eauto.
  Qed.
End AutDenPath.

Print Assumptions from_automaton_total.
Print Assumptions from_automaton_no_path.
Print Assumptions from_automaton_some_iff.
Print Assumptions from_automaton_total_den.

(* the model's fuel for the final is_consistent suffices on both constructions *)
Theorem from_automaton_fuel_suffices (R : cring) (aut : autop R) (L : nat) (g : graph R) :
  aut_consistent aut = true -> from_automaton_raw aut L = Ok g -> from_automaton_r aut L = Ok g.
Proof.
  intros Hc H. unfold from_automaton_r. rewrite H. cbn [bind].
  rewrite (Built_is_consistent R g L (from_automaton_raw_built R aut Hc L g H)). reflexivity.
Qed.
Theorem from_optrees_raw_is_consistent (R : cring) (ts : list (optree R)) (L : nat) (oid_id : Z) (g : graph R) :
  ts <> [] -> Forall (fun t => 0 <= ot_istart t) ts ->
  from_optrees_raw ts (Z.of_nat L) oid_id = Some g -> is_consistent g = Some true.
Proof. intros H1 H2 H. eapply Built_is_consistent. eapply from_optrees_raw_built; eauto. Qed.
Print Assumptions from_automaton_fuel_suffices.
Print Assumptions from_optrees_raw_is_consistent.
