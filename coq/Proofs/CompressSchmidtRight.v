(* C13 — clause (e) for mode = 'right': the first truncated bond of the right-to-left sweep (the LAST bond) keeps exactly the
   Schmidt values across the last cut that the tolerance rule prescribes.  Mirror image of Proofs/CompressSchmidt.v:
   the state after the preliminary LEFT-orthonormalisation has left-isometric sites 0..L-2; the reduced density matrix of the
   last site is computed on the mirrored chain (sites reversed, matrices transposed: Proofs/OrthRight.v [amp_mirror],
   [chain_riso_mirror]) with [rho1_gram]; the eigenvectors are the ROWS of the right factor Vf. *)
From Coq Require Import ZArith List Bool Lia Arith Permutation Sorted Ring Field.
From PT Require Import Base.Scalar Base.Field Base.BigSum Base.Mx Model.Tensor Model.BondOps Model.Orthonormalize.
From PT Require Import Proofs.BondOpsPerm Proofs.BondOpsLoop Proofs.BondOpsSpec Proofs.MPSOpsBase Proofs.MPSOpsShape Proofs.MPSOpsMul.
From PT Require Import Proofs.BondOpsRetained Proofs.BondOpsFrob Proofs.BondOpsSVD.
From PT Require Import Proofs.OrthDefs Proofs.OrthQRExtra Proofs.OrthGram Proofs.OrthLocal Proofs.OrthSweep Proofs.OrthTop Proofs.OrthRight.
From PT Require Import Proofs.CompressPartial Proofs.CompressSVD Proofs.CompressLocal Proofs.CompressSweep Proofs.CompressTop Proofs.CompressError.
From PT Require Import Proofs.CompressRight Proofs.CompressSchmidt.
Import ListNotations.
Open Scope nat_scope.

Section GramAlgL.
  Variable R : cring.
  Add Ring Rring_cschr1 : (k_rt R).
  Infix "*!" := (kmul R) (at level 40, left associativity).
  Notation cj := (kconj R).

  (* (A^T conj A)[j,j'] = sum_c V[c,j] |w_c|^2 conj(V[c,j'])  for A = U diag(w) V with orthonormal columns of U *)
  Lemma gram_of_factor_l m D (U : nat -> nat -> R) (V : nat -> nat -> R) (w : nat -> R) (j j' : nat) :
    (forall k l, k < D -> l < D -> sumn m (fun a => cj (U a k) *! U a l) = delta R k l) ->
    sumn m (fun a => sumn D (fun c => U a c *! w c *! V c j) *! cj (sumn D (fun c => U a c *! w c *! V c j')))
    = sumn D (fun c => V c j *! (w c *! cj (w c)) *! cj (V c j')).
  Proof.
    intros HU.
    set (X := fun c e => w c *! V c j *! cj (w e) *! cj (V e j')).
    transitivity (sumn m (fun a => sumn D (fun c => sumn D (fun e => X c e *! (cj (U a e) *! U a c))))).
    { apply sumn_ext; intros a Ha. rewrite sumn_conj, (sum_mul2 R).
      apply sumn_ext; intros c Hc. apply sumn_ext; intros e He. unfold X. rewrite !kconj_mul. ring. }
    rewrite sumn_exch. apply sumn_ext; intros c Hc.
    transitivity (sumn D (fun e => X c e *! delta R e c)).
    { rewrite sumn_exch. apply sumn_ext; intros e He. rewrite sumn_scal_l. rewrite (HU e c He Hc). reflexivity. }
    unfold delta. rewrite (sumn_delta_r R D c (fun e => X c e) Hc). unfold X. ring.
  Qed.
End GramAlgL.

Section RhoL.
  Variable R : cring.
  Add Ring Rring_cschr2 : (k_rt R).
  Infix "*!" := (kmul R) (at level 40, left associativity).
  Notation cj := (kconj R).
  Notation site := (site R).

  (* the reduced density matrix of the last site is the reduced density matrix of the first site of the mirrored chain *)
  Lemma rhoL_mirror d (As Ms : list site) s s' : As <> [] -> length Ms = length As -> s < d -> s' < d ->
    (forall w, length w = length As -> letters d w -> amp Ms (rev w) = amp As w) ->
    rhoL d As s s' = rho1 d Ms s s'.
  Proof.
    intros Hne Hlen Hs Hs' H. unfold rhoL, rho1. rewrite Hlen.
    rewrite <- (suml_words_rev R d (length As - 1) (fun w => amp Ms (s :: w) *! cj (amp Ms (s' :: w)))).
    apply suml_ext. intros w Hw. apply words_ok in Hw. destruct Hw as [Hlw Hw].
    assert (HL : length As - 1 + 1 = length As) by (destruct As; [congruence|simpl; lia]).
    assert (L1 : forall t, length (w ++ [t]) = length As) by (intros t; rewrite app_length; simpl; lia).
    assert (L2 : forall t, t < d -> letters d (w ++ [t])).
    { intros t Ht. apply Forall_app. split; [exact Hw|constructor; [exact Ht|constructor]]. }
    rewrite <- (H (w ++ [s]) (L1 s) (L2 s Hs)). rewrite <- (H (w ++ [s']) (L1 s') (L2 s' Hs')).
    rewrite !rev_app_distr. reflexivity.
  Qed.

  Lemma rhoL_trace d (As : list site) : As <> [] -> sumn d (fun s => rhoL d As s s) = norm2 d As.
  Proof.
    intros Hne. unfold norm2, rhoL.
    assert (HL : length As = S (length As - 1)) by (destruct As; [congruence|simpl; lia]).
    transitivity (suml (words d (S (length As - 1))) (fun w => cj (amp As w) *! amp As w)); [|rewrite <- HL; reflexivity].
    rewrite (suml_words_snoc R). rewrite (sumn_suml_exch R).
    apply suml_ext; intros w Hw. apply sumn_ext; intros s Hs. ring.
  Qed.

  Lemma rhoL_scale d (As Bs : list site) (c : R) s s' : As <> [] -> length Bs = length As -> s < d -> s' < d ->
    (forall w, length w = length As -> letters d w -> amp As w = c *! amp Bs w) ->
    rhoL d As s s' = (c *! cj c) *! rhoL d Bs s s'.
  Proof.
    intros Hne Hlen Hs Hs' H. unfold rhoL. rewrite Hlen. rewrite <- suml_scal_l. apply suml_ext. intros w Hw.
    apply words_ok in Hw. destruct Hw as [Hlw Hw].
    assert (HL : length As - 1 + 1 = length As) by (destruct As; [congruence|simpl; lia]).
    assert (L1 : forall t, length (w ++ [t]) = length As) by (intros t; rewrite app_length; simpl; lia).
    assert (L2 : forall t, t < d -> letters d (w ++ [t])).
    { intros t Ht. apply Forall_app. split; [exact Hw|constructor; [exact Ht|constructor]]. }
    rewrite (H (w ++ [s]) (L1 s) (L2 s Hs)). rewrite (H (w ++ [s']) (L1 s') (L2 s' Hs')).
    rewrite kconj_mul. ring.
  Qed.
End RhoL.

Section SchmidtR.
  Variable F : ofield.
  Add Field Ffield_cschr3 : (f_ft F).
  Notation CF := (Cx F).
  Add Ring CFring_cschr3 : (k_rt CF).
  Notation mx := (mx CF).
  Notation site := (site CF).
  Infix "*!" := (kmul CF) (at level 40, left associativity).
  Notation cj := (kconj CF).
  Notation emb := (@cof F).

  Variable dqr : mx -> mx * mx.
  Variable dsvd : mx -> mx * list F * mx.
  Variable pick : list F -> list nat.
  Variable cabs : CF -> F.

  (* the matrix and the two charge vectors handed to split_matrix_svd by the first step of the right sweep on p1:
     A[L-1].transpose((1,0,2)).reshape((D_{L-1}, d * 1)), qD[L-1], qnumber_flatten([-qd, qD[L]]) *)
  Definition last_site (p1 : mps CF) : site := hd [] (rev (m_A p1)).
  Definition last_mx (p1 : mps CF) : mx := site_mx_r (last_site p1).
  Definition last_q0 (p1 : mps CF) : list Z := nth 1 (rev (m_qD p1)) [].
  Definition last_q1 (p1 : mps CF) : list Z := qflat (zneg (m_qd p1)) (hd [] (rev (m_qD p1))).
  Definition last_spectrum (p1 : mps CF) : list F := block_svd_spectrum F dsvd (last_mx p1) (last_q0 p1) (last_q1 p1).
  Definition last_kept (tol : F) (p1 : mps CF) : list nat := retained pick (last_spectrum p1) tol.
  Definition rhoL_mx (d : nat) (As : list site) : mx := tab d d (fun s s' => rhoL d As s s').

  Theorem compress_first_bond_right (p : mps CF) (d : nat) (tol : F) :
    1 <= d -> length (m_qd p) = d -> m_A p <> [] -> mps_ok p = true ->
    length (hd [] (m_qD p)) = 1 -> length (last (m_qD p) []) = 1 ->
    Forall (fun q => 1 <= length q) (m_qD p) ->
    fle F (f0 F) tol -> flt F tol (f1 F) ->
    Forall (qr_call_ok F dqr) (mps_orth_calls dqr true p) ->
    (forall p1 n1, mps_orthonormalize dqr true p = Some (p1, n1) -> compress_ok dsvd pick tol false p1) ->
    (forall t, compress_T dqr dsvd pick tol false p = Some t -> abs_ok cabs t) ->
    exists p1 p' nrm sc,
      mps_orthonormalize dqr true p = Some (p1, nrm) /\
      mps_compress dqr dsvd pick cabs tol false p = Some (p', nrm, sc) /\
      length (m_A p1) = length (m_A p) /\ m_qd p1 = m_qd p /\ length (last (m_qD p1) []) = 1 /\
      norm2 d (m_A p1) = k1 CF /\ chain_liso (lens (m_qD p1)) (m_A p1) /\
      fle F (f0 F) nrm /\ norm2 d (m_A p) = emb (fmul F nrm nrm) /\
      (forall w, length w = length (m_A p) -> letters d w -> amp (m_A p) w = emb nrm *! amp (m_A p1) w) /\
      (* (i) *)
      wf (last_mx p1) /\ nr (last_mx p1) = length (last_q0 p1) /\ nc (last_mx p1) = d /\
      (forall a s, a < length (last_q0 p1) -> s < d -> get (last_mx p1) a s = get (sel (last_site p1) s) a 0) /\
      (exists tl, compress_args dsvd pick tol false p1 = (last_site p1, hd [] (rev (m_qD p1)), last_q0 p1) :: tl) /\
      step_mx false (m_qd p1) (last_site p1, hd [] (rev (m_qD p1)), last_q0 p1) = (last_mx p1, last_q0 p1, last_q1 p1) /\
      (exists tl, compress_svd_calls dsvd pick tol false p1 = block_svd_calls (last_mx p1) (last_q0 p1) (last_q1 p1) ++ tl) /\
      (* (ii), (iii) *)
      (exists u s v q' Vf,
         block_svd dsvd pick (last_mx p1) (last_q0 p1) (last_q1 p1) tol = Some (u, s, v, q') /\
         s = map (fun i => nth i (last_spectrum p1) (f0 F)) (last_kept tol p1) /\
         length q' = length (last_kept tol p1) /\
         nth 1 (rev (m_qD p')) [] = q' /\
         (2 <= length (m_A p) -> hd [] (rev (m_A p')) = mx_site_r d 1 v) /\
         wf Vf /\ nr Vf = length (last_spectrum p1) /\ nc Vf = d /\
         mulmx Vf (adjmx Vf) = idmx (length (last_spectrum p1)) /\
         mulmx (rhoL_mx d (m_A p1)) (trmx Vf) = scalecols F (trmx Vf) (sqlist (last_spectrum p1)) /\
         (forall t t', t < d -> t' < d -> rhoL d (m_A p1) t t' =
            sumn (length (last_spectrum p1)) (fun c =>
              get Vf c t *! emb (fmul F (nth c (last_spectrum p1) (f0 F)) (nth c (last_spectrum p1) (f0 F))) *! cj (get Vf c t'))) /\
         v = rowsel (last_kept tol p1) Vf) /\
      rhoL_mx d (m_A p1) = trmx (mulmx (adjmx (last_mx p1)) (last_mx p1)) /\
      (forall t t', t < d -> t' < d -> rhoL d (m_A p) t t' = emb (fmul F nrm nrm) *! rhoL d (m_A p1) t t') /\
      sumn d (fun t => rhoL d (m_A p1) t t) = k1 CF /\
      sqsum (last_spectrum p1) = f1 F /\
      (forall x, In x (last_spectrum p1) -> fle F (f0 F) x) /\
      length (last_spectrum p1) <= Nat.min (length (last_q0 p1)) d /\
      (* (iv) *)
      StronglySorted lt (last_kept tol p1) /\ (forall i, In i (last_kept tol p1) -> i < length (last_spectrum p1)) /\
      last_kept tol p1 <> [] /\
      fle F (disc_weight (last_spectrum p1) (last_kept tol p1)) tol /\
      (forall i j, In i (last_kept tol p1) -> j < length (last_spectrum p1) -> ~ In j (last_kept tol p1) ->
         fle F (nth j (last_spectrum p1) (f0 F)) (nth i (last_spectrum p1) (f0 F))) /\
      (forall m, In m (last_kept tol p1) ->
         flt F tol (fadd F (disc_weight (last_spectrum p1) (last_kept tol p1)) (weight (last_spectrum p1) m))) /\
      (tol = f0 F -> forall i, i < length (last_spectrum p1) ->
         (In i (last_kept tol p1) <-> nth i (last_spectrum p1) (f0 F) <> f0 F)).
  Proof.
    intros Hd Lqd Hne Hok Hfirst Hlast Hpos Htol0 Htol1 Hcalls Hsvd Habs.
    destruct (compress_right_spec F dqr dsvd pick cabs p d tol Hd Lqd Hne Hok Hfirst Hlast Hpos Htol0 Htol1 Hcalls Hsvd Habs)
      as (p1 & p' & nrm & sc & E1 & E2 & _).
    destruct (orth_left_spec F dqr p d Hd Lqd Hne Hok Hfirst Hlast Hpos Hcalls)
      as (p1' & nrm' & E1' & Hqd1 & Hlen1 & Hok1 & Hhd1 & Hlast1 & Hpos1 & Hbb1 & Hliso1 & Hnrm & Hamp1 & Hn2 & Hn1).
    rewrite E1 in E1'. inversion E1'; subst p1' nrm'. clear E1'.
    specialize (Hsvd p1 nrm E1).
    exists p1, p', nrm, sc.
    split; [exact E1|]. split; [exact E2|]. split; [exact Hlen1|]. split; [exact Hqd1|]. split; [exact Hlast1|].
    split; [exact Hn1|]. split; [exact Hliso1|]. split; [exact Hnrm|]. split; [exact Hn2|]. split; [exact Hamp1|].
    unfold last_kept, last_spectrum, last_mx, last_q0, last_q1, last_site.
    unfold mps_compress in E2. cbn [negb] in E2. rewrite E1 in E2.
    unfold compress_ok, compress_args in Hsvd. rewrite compress_svd_calls_args. unfold compress_args.
    destruct p1 as [qd1 qDs1 As1]. cbn [m_qd m_qD m_A] in *. subst qd1.
    set (qd := m_qd p) in *.
    assert (HneA1 : As1 <> []) by (intros ->; destruct (m_A p); [congruence|simpl in Hlen1; discriminate]).
    unfold mps_ok in Hok1. cbn [m_qd m_qD m_A] in Hok1. rewrite Lqd in Hok1.
    apply andb_true_iff in Hok1. destruct Hok1 as [Hshape1 Hsparse1]. fold (lens qDs1) in Hshape1.
    assert (Hh1 : hd 0 (lens qDs1) = 1) by (rewrite hd_lens, Hhd1; exact Hfirst).
    assert (Hl1 : last (lens qDs1) 0 = 1) by (rewrite last_lens; exact Hlast1).
    destruct (ok_mirror CF d qd As1 qDs1 Lqd Hshape1 Hsparse1) as [HshapeM HsparseM].
    assert (HrisoM : chain_riso (lens (rev (map zneg qDs1))) (rev (map (@trs CF) As1))).
    { rewrite lens_mirror. apply (chain_riso_mirror CF d); assumption. }
    assert (HhdM : length (hd [] (rev (map zneg qDs1))) = 1).
    { rewrite hd_rev. change (@nil Z) with (zneg []). rewrite last_map_f, zneg_length. exact Hlast1. }
    assert (HlastM : length (last (rev (map zneg qDs1)) []) = 1).
    { rewrite last_rev. change (@nil Z) with (zneg []). rewrite hd_map_f, zneg_length. rewrite Hhd1. exact Hfirst. }
    assert (HwfA1 : Forall (Forall (@wf CF)) (rev As1)) by (apply Forall_rev; apply (chain_shape_wf F dqr dsvd pick d (lens qDs1)); exact Hshape1).
    assert (HampM1 : forall w, length w = length As1 -> letters d w -> amp (rev (map (@trs CF) As1)) (rev w) = amp As1 w).
    { intros w Hlw Hw. apply (amp_mirror CF d (lens qDs1)); assumption. }
    assert (HlenM : length (rev (map (@trs CF) As1)) = length As1) by (rewrite rev_length, map_length; reflexivity).
    rewrite <- (map_rev (@trs CF) As1) in HshapeM, HsparseM, HrisoM, HampM1, HlenM.
    rewrite <- (map_rev zneg qDs1) in HshapeM, HsparseM, HrisoM, HhdM, HlastM.
    destruct (rev As1) as [|A0 rest] eqn:EA.
    { exfalso. apply HneA1. rewrite <- (rev_involutive As1), EA. reflexivity. }
    destruct (rev qDs1) as [|q0 qrest] eqn:EQ.
    { unfold lens in HshapeM. cbn [map chain_shape] in HshapeM. discriminate. }
    destruct qrest as [|qa qrest]; [unfold lens in HshapeM; simpl in HshapeM; discriminate|].
    cbn [map hd nth] in *.
    assert (HwA0 : Forall (@wf CF) A0) by exact (Forall_inv HwfA1).
    (* the last site, its shape and sparsity, read off the mirrored chain *)
    unfold lens in HshapeM, HrisoM. cbn [map] in HshapeM, HrisoM.
    assert (Lzq0 : length (zneg q0) = 1) by exact HhdM.
    assert (Lq0 : length q0 = 1) by (rewrite <- (zneg_length q0); exact Lzq0).
    rewrite Lzq0 in HshapeM, HrisoM.
    assert (HshapeM' := HshapeM). rewrite chain_shape_cons in HshapeM'. apply andb_true_iff in HshapeM'. destruct HshapeM' as [HsT0 HsRestM].
    rewrite (chain_qsparse_cons CF) in HsparseM. apply andb_true_iff in HsparseM. destruct HsparseM as [HqT0 HqRestM].
    destruct HrisoM as [HrT0 HrRestM].
    assert (HsA0 : site_shape d (length qa) 1 A0 = true).
    { pose proof (site_shape_trs CF d _ _ (trs A0) HsT0) as H. rewrite (trs_invol CF A0 HwA0), zneg_length in H. exact H. }
    assert (HqA0 : site_qsparse qd qa q0 A0 = true).
    { pose proof (site_qsparse_trs CF d qd (zneg q0) (zneg qa) (trs A0) Lqd) as H. rewrite Lzq0 in H.
      specialize (H HsT0 HqT0). rewrite (trs_invol CF A0 HwA0), !zneg_invol in H. exact H. }
    assert (HA := site_shape_site_ok CF d (length qa) 1 A0 HsA0).
    destruct (site_ok_dims CF d _ _ A0 Hd HA) as (D1 & D2 & D3).
    set (M := site_mx_r A0) in *.
    assert (Hnr : nr M = length qa) by exact D1.
    assert (Hnc : nc M = d) by (change (nc M) with (length A0 * sDr A0); rewrite D2, D3; lia).
    assert (HwfM : wf M) by (apply wf_tab).
    assert (HgM : forall a s, a < length qa -> s < d -> get M a s = get (sel A0 s) a 0).
    { intros a s Ha Hs. pose proof (get_site_mx_r F d (length qa) 1 A0 s a 0 Hd HA Hs Ha ltac:(lia)) as H.
      replace (s * 1 + 0) with s in H by lia. exact H. }
    assert (HlastD : last (length (zneg qa) :: map (@length Z) (map zneg qrest)) 0 = 1).
    { change (last (lens (zneg qa :: map zneg qrest)) 0 = 1). rewrite last_lens.
      replace (last (zneg qa :: map zneg qrest) []) with (last (zneg q0 :: zneg qa :: map zneg qrest) []) by reflexivity. exact HlastM. }
    assert (Hcn : cn2 A0 = emb (f1 F)).
    { rewrite <- (cn2_trs F A0). unfold cn2. transitivity (delta CF 0 0); [|reflexivity].
      rewrite <- (HrT0 0 0 ltac:(lia) ltac:(lia)). rewrite length_trs, D3. apply sumn_ext. intros s Hs.
      destruct (site_shape_sel CF d _ _ (trs A0) s HsT0 Hs) as (Hw & Hr & Hc).
      unfold frob. rewrite Hr, Hc. cbn [sumn].
      transitivity (sumn (length (zneg qa)) (fun j => cj (get (sel (trs A0) s) 0 j) *! get (sel (trs A0) s) 0 j)); [ring|].
      apply sumn_ext. intros b Hb. ring. }
    assert (Hfr : frob M M = emb (f1 F)) by (unfold M; rewrite (frob_site_mx_r F d _ _ A0 Hd HA); exact Hcn).
    assert (Hv : valid_in M qa (qflat (zneg qd) q0) = true)
      by (apply (valid_in_site_mx_r F d (length qa) 1 A0 qd qa q0 Hd Lqd eq_refl Lq0 HA (site_qsparse_qsp CF _ _ _ A0 HqA0))).
    (* the first step *)
    assert (HrestE : rest = [] -> qrest = []).
    { intros ->. simpl in HsRestM. destruct qrest; [reflexivity|simpl in HsRestM; discriminate]. }
    destruct (sweep_args_first CF (stepRs dsvd pick tol qd) A0 q0 rest qa qrest HrestE) as (tl & Eargs).
    rewrite Eargs in Hsvd. assert (Hok0 := Forall_inv Hsvd). unfold cstep_ok, step_mx in Hok0. cbn [fst snd] in Hok0. fold M in Hok0.
    destruct (svd_step_facts F d qd tol dsvd pick Hd Lqd Htol0 Htol1 M qa (qflat (zneg qd) q0) (f1 F) Hv Hfr (f1_pos F) Hok0)
      as (u & s & v & q & E & Hwu & Hwv & Hnru & Hncu & Hnrv & Hncv & Hls & Hq1 & Hmin & Huu & Hvv & _ & _ & _ & _ & _ & _ & _ & _ & _ & Hs).
    assert (Hnz : is_zeromx M = false).
    { apply (nonzero_of_norm F M (f1 F) Hfr). intros E0. apply (flt_irrefl F (f0 F)). rewrite <- E0 at 2. apply f1_pos. }
    destruct Hok0 as [Hcalls0 Hpick0].
    destruct (block_svd_spec_gen F dsvd pick M qa (qflat (zneg qd) q0) tol Hv Hnz Htol0 Htol1 Hcalls0 Hpick0) as (Hnn & Hnez & _).
    destruct (block_svd_ext F dsvd pick M qa (qflat (zneg qd) q0) tol Hv Hnz Hcalls0) as (Hnorm & _).
    destruct (block_svd_full F dsvd pick M qa (qflat (zneg qd) q0) tol Hv Hnz Hcalls0)
      as (Uf & Vf & HwUf & HnrUf & HncUf & HwVf & HnrVf & HncVf & HlenS & Hfac & HUo & HVo & HKlt & Hsel).
    destruct (Hsel u s v q E) as [_ Hvsel]. clear Hsel.
    set (S := block_svd_spectrum F dsvd M qa (qflat (zneg qd) q0)) in *.
    set (K := retained pick S tol) in *.
    destruct (retained_spec F pick S tol Hnn Hnez Htol0 Htol1 Hpick0) as (RS1 & RS2 & RS3 & RS4 & RS5 & RS6 & RS7).
    fold K in RS1, RS2, RS3, RS4, RS5, RS6, RS7.
    rewrite Hnr in *. rewrite Hnc in *.
    (* rho = M^T conj(M) entrywise, through the mirrored chain *)
    assert (Hrho : forall t t', t < d -> t' < d ->
              rhoL d As1 t t' = sumn (length qa) (fun a => get M a t *! cj (get M a t'))).
    { intros t t' Ht Ht'.
      rewrite (rhoL_mirror CF d As1 (trs A0 :: map (@trs CF) rest) t t' HneA1 HlenM Ht Ht' HampM1).
      rewrite (rho1_gram CF d (length (zneg qa)) (map (@length Z) (map zneg qrest)) (trs A0) (map (@trs CF) rest) t t'
                 HshapeM HrRestM HlastD Ht Ht').
      rewrite zneg_length. apply sumn_ext; intros b Hb. rewrite !HgM by assumption. rewrite !(sel_trs CF).
      destruct (site_shape_sel CF d _ _ A0 t HsA0 Ht) as (_ & Hr1 & Hc1).
      destruct (site_shape_sel CF d _ _ A0 t' HsA0 Ht') as (_ & Hr2 & Hc2).
      unfold trmx. rewrite !get_tab by lia. reflexivity. }
    assert (Hspec : forall t t', t < d -> t' < d -> rhoL d As1 t t' =
              sumn (length S) (fun c => get Vf c t *! emb (fmul F (nth c S (f0 F)) (nth c S (f0 F))) *! cj (get Vf c t'))).
    { intros t t' Ht Ht'. rewrite (Hrho t t' Ht Ht').
      transitivity (sumn (length qa) (fun a =>
         sumn (length S) (fun c => get Uf a c *! emb (nth c S (f0 F)) *! get Vf c t) *!
         cj (sumn (length S) (fun c => get Uf a c *! emb (nth c S (f0 F)) *! get Vf c t')))).
      { apply sumn_ext; intros a Ha. rewrite !Hfac by assumption. reflexivity. }
      rewrite (gram_of_factor_l CF (length qa) (length S) (fun i c => get Uf i c) (fun c j => get Vf c j)
                 (fun c => emb (nth c S (f0 F))) t t' HUo).
      apply sumn_ext; intros c Hc. rewrite (conj_cof F), <- (cof_mul F). reflexivity. }
    assert (HVo' : forall a b, a < length S -> b < length S -> sumn d (fun t => cj (get Vf a t) *! get Vf b t) = delta CF a b).
    { intros a b Ha Hb.
      transitivity (delta CF b a); [|unfold delta; rewrite (Nat.eqb_sym a b); reflexivity]. rewrite <- (HVo b a Hb Ha).
      apply sumn_ext; intros t Ht. ring. }
    (* assemble *)
    split; [exact HwfM|]. split; [reflexivity|]. split; [reflexivity|]. split; [exact HgM|].
    split. { exists tl. exact Eargs. }
    split; [reflexivity|].
    split. { rewrite Eargs. cbn [flat_map step_mx fst snd]. eexists. reflexivity. }
    split.
    { exists u, s, v, q, Vf. split; [exact E|]. split; [exact Hs|].
      split. { rewrite <- Hls, Hs, map_length. reflexivity. }
      unfold compress_core in E2.
      destruct (sweep (stepRs dsvd pick tol qd) A0 q0 rest (qa :: qrest)) as [[[As' qs'] T]|] eqn:ES; [|discriminate E2].
      destruct (is111 T); [|discriminate E2].
      destruct (sweep_first CF _ _ _ _ _ _ _ _ ES) as (next & A' & n' & q' & As'' & qs'' & Est & -> & -> & Hne').
      cbn [hd] in Est. unfold stepRs, local_right_svd in Est. fold M in Est. rewrite E in Est.
      destruct (Nat.eqb (nr u) (sDr next)); [|discriminate Est]. inversion Est; subst A' n' q'. clear Est.
      assert (Ep : exists f, m_qD p' = rev (q0 :: q :: qs'') /\
                             m_A p' = rev (map_last f (mx_site_r (length A0) (sDr A0) v :: As''))).
      { inversion E2. eexists. split; reflexivity. }
      destruct Ep as (f & Ep1 & Ep2). rewrite Ep1, Ep2, !rev_involutive. cbn [nth].
      split; [reflexivity|].
      split.
      { intros HL. rewrite D3, D2. apply hd_map_last. apply Hne'. intros ->.
        assert (length As1 = 1) by (rewrite <- (rev_length As1), EA; reflexivity). lia. }
      split; [exact HwVf|]. split; [exact HnrVf|]. split; [exact HncVf|].
      split.
      { apply mx_ext; [apply wf_mulmx|apply wf_tab| | |].
        - rewrite nr_mulmx, nr_idmx. exact HnrVf.
        - rewrite nc_mulmx, nc_adjmx, nc_idmx. exact HnrVf.
        - rewrite nr_mulmx, nc_mulmx, nc_adjmx, HnrVf. intros k l Hk Hl.
          rewrite get_mulmx by (rewrite ?nc_adjmx; lia). rewrite HncVf.
          transitivity (delta CF k l); [|rewrite get_idmx by assumption; reflexivity].
          rewrite <- (HVo k l Hk Hl). apply sumn_ext; intros i Hi. rewrite get_adjmx by lia. reflexivity. }
      split.
      { assert (HnrT : nr (trmx Vf) = d) by exact HncVf. assert (HncT : nc (trmx Vf) = length S) by exact HnrVf.
        apply mx_ext; [apply wf_mulmx|apply wf_tab| | |].
        - rewrite nr_mulmx, nr_scalecols. unfold rhoL_mx. rewrite nr_tab. lia.
        - rewrite nc_mulmx, nc_scalecols. reflexivity.
        - rewrite nr_mulmx, nc_mulmx. unfold rhoL_mx at 1. rewrite nr_tab, HncT. intros i k Hi Hk.
          rewrite get_mulmx by (unfold rhoL_mx; rewrite ?nr_tab; lia). unfold rhoL_mx. rewrite nc_tab.
          unfold scalecols. rewrite get_tab by lia. unfold sqlist. rewrite (nth_map_lt _ _ _ (f0 F)) by exact Hk.
          unfold trmx at 2. rewrite get_tab by lia.
          rewrite <- (eigen_of_spectral CF d (length S) (fun i c => get Vf c i)
                        (fun c => emb (fmul F (nth c S (f0 F)) (nth c S (f0 F)))) i k Hk HVo').
          apply sumn_ext; intros t Ht. rewrite get_tab by lia. rewrite (Hspec i t Hi Ht).
          unfold trmx. rewrite get_tab by lia. reflexivity. }
      split; [exact Hspec|exact Hvsel]. }
    split.
    { apply mx_ext; [apply wf_tab|apply wf_tab| | |].
      - unfold rhoL_mx, trmx. rewrite !nr_tab, nc_mulmx. lia.
      - unfold rhoL_mx, trmx. rewrite !nc_tab, nr_mulmx, nr_adjmx. lia.
      - unfold rhoL_mx. rewrite nr_tab, nc_tab. intros t t' Ht Ht'. rewrite get_tab by assumption.
        unfold trmx. rewrite get_tab by (rewrite ?nc_mulmx, ?nr_mulmx, ?nr_adjmx; lia).
        rewrite get_mulmx by (rewrite ?nr_adjmx; lia). rewrite nc_adjmx, Hnr. rewrite (Hrho t t' Ht Ht').
        apply sumn_ext; intros b Hb. rewrite get_adjmx by lia. ring. }
    split.
    { intros t t' Ht Ht'. rewrite (rhoL_scale CF d (m_A p) As1 (emb nrm) t t' Hne Hlen1 Ht Ht' Hamp1).
      rewrite (conj_cof F), <- (cof_mul F). reflexivity. }
    split; [rewrite (rhoL_trace CF d As1 HneA1); exact Hn1|].
    split. { apply (cof_inj F). rewrite <- Hnorm. exact Hfr. }
    split; [exact Hnn|]. split; [exact HlenS|].
    split; [exact RS1|]. split; [exact RS2|]. split; [exact RS3|]. split; [exact RS4|]. split; [exact RS5|].
    split; [exact RS6|exact RS7].
  Qed.
End SchmidtR.

Arguments last_site {F} p1. Arguments last_mx {F} p1. Arguments last_q0 {F} p1. Arguments last_q1 {F} p1.
Arguments last_spectrum {F} dsvd p1. Arguments last_kept {F} dsvd pick tol p1. Arguments rhoL_mx {F} d As.
