(* C12: bond_ops.split_matrix_svd on arbitrary charge vectors. *)
From Coq Require Import ZArith List Bool Lia Arith Permutation Sorted Ring Field.
From PT Require Import Base.Scalar Base.Field Base.BigSum Base.Mx Model.BondOps.
From PT Require Import Proofs.BondOpsPerm Proofs.BondOpsLoop Proofs.BondOpsSpec Proofs.BondOpsRetained Proofs.BondOpsFrob.
Import ListNotations.

Section SVDSpec.
  Variable F : ofield.
  Add Field Ffield_svd : (f_ft F).
  Notation CF := (Cx F).
  Add Ring CFring_svd : (k_rt CF).
  Notation mx := (mx CF).
  Notation cO := (k0 CF). Notation cI := (k1 CF).
  Infix "*!" := (kmul CF) (at level 40, left associativity).
  Notation cj := (kconj CF).
  Notation emb := (@cof F).
  Definition nonneg (x : F) : Prop := fle F (f0 F) x.

  (* (u * s) : columns scaled by the singular values *)
  Definition scalecols (U : mx) (sv : list F) : mx :=
    tab (nr U) (nc U) (fun i c => get U i c *! emb (nth c sv (f0 F))).

  Lemma nr_scalecols U sv : nr (scalecols U sv) = nr U. Proof. reflexivity. Qed.
  Lemma nc_scalecols U sv : nc (scalecols U sv) = nc U. Proof. reflexivity. Qed.

  (* LAPACK's contract for numpy.linalg.svd(B, full_matrices=False) *)
  Definition dsvd_ok (B : mx) (r : mx * list F * mx) : Prop :=
    let '(U, sv, V) := r in
    let k := Nat.min (nr B) (nc B) in
    wf U /\ wf V /\ nr U = nr B /\ nc U = k /\ length sv = k /\ nr V = k /\ nc V = nc B /\
    mulmx (scalecols U sv) V = B /\ mulmx (adjmx U) U = idmx k /\ mulmx V (adjmx V) = idmx k /\
    Forall nonneg sv.

  Lemma wt_cof (sv : list F) c : c < length sv -> wt CF F emb sv c = emb (nth c sv (f0 F)).
  Proof. apply (wt_nth CF F emb (f0 F)). Qed.

  Lemma dsvd_fac_ok dsvd B : dsvd_ok B (dsvd B) -> fac_ok CF F emb True nonneg B (dsvd B).
  Proof.
    unfold dsvd_ok, fac_ok. destruct (dsvd B) as [[U sv] V].
    intros (HwU & HwV & HnrU & HncU & Hlen & HnrV & HncV & HUSV & HUU & HVV & Hpos).
    repeat split; try assumption; try lia.
    - intros i j Hi Hj.
      assert (E : get B i j = get (mulmx (scalecols U sv) V) i j) by (rewrite HUSV; reflexivity).
      rewrite E, get_mulmx by (unfold scalecols; rewrite ?nr_tab; lia).
      replace (nc (scalecols U sv)) with (length sv) by (unfold scalecols; rewrite nc_tab; lia).
      apply sumn_ext. intros c Hc. unfold scalecols. rewrite get_tab by lia. rewrite wt_cof by exact Hc. reflexivity.
    - intros k l Hk Hl.
      assert (E : get (mulmx (adjmx U) U) k l = get (idmx (Nat.min (nr B) (nc B))) k l) by (rewrite HUU; reflexivity).
      rewrite get_mulmx in E by (rewrite ?nr_adjmx; lia). rewrite get_idmx in E by lia.
      rewrite nc_adjmx, HnrU in E. unfold delta. rewrite <- E.
      apply sumn_ext. intros i Hi. rewrite get_adjmx by lia. reflexivity.
    - intros _ k l Hk Hl.
      assert (E : get (mulmx V (adjmx V)) k l = get (idmx (Nat.min (nr B) (nc B))) k l) by (rewrite HVV; reflexivity).
      rewrite get_mulmx in E by (rewrite ?nc_adjmx; lia). rewrite get_idmx in E by lia.
      rewrite HncV in E. unfold delta. rewrite <- E.
      apply sumn_ext. intros j Hj. rewrite get_adjmx by lia. reflexivity.
  Qed.

  (* all singular values of the blocks, in the order the loop produces them *)
  Definition block_svd_spectrum (dsvd : mx -> mx * list F * mx) (A : mx) (q0 q1 : list Z) : list F :=
    match intersect1d q0 q1 with
    | [] => []
    | qis => let si := sort_input A q0 q1 in
             match block_loop dsvd (sA si) (sq0 si) (sq1 si) qis with Some st => bS st | None => [] end
    end.

  Lemma post_mul_svd (A : mx) q0 q1 pr st : wf A -> post CF F emb True nonneg A q0 q1 pr st ->
    mulmx (adjmx (bU st)) (bU st) = idmx (bD st) /\ mulmx (bV st) (adjmx (bV st)) = idmx (bD st) /\
    (pr -> mulmx (scalecols (bU st) (bS st)) (bV st) = A).
  Proof.
    intros HwfA P. destruct P as [P_wfU P_wfV P_nrU P_ncU P_nrV P_ncV P_lenS P_lenq P_D P_Usp P_Vsp P_prod P_orth P_co P_PT].
    split; [|split].
    - apply mx_ext; [apply wf_mulmx|apply wf_idmx| | |]; rewrite ?nr_mulmx, ?nc_mulmx, ?nr_adjmx, ?nr_idmx, ?nc_idmx; try assumption.
      intros k l Hk Hl. rewrite get_mulmx by (rewrite ?nr_adjmx; assumption). rewrite get_idmx by lia.
      rewrite nc_adjmx, P_nrU. rewrite <- P_ncU in *. change (if Nat.eqb k l then cI else cO) with (delta CF k l).
      rewrite <- (P_orth k l) by lia.
      apply sumn_ext. intros i Hi. rewrite get_adjmx by lia. reflexivity.
    - apply mx_ext; [apply wf_mulmx|apply wf_idmx| | |]; rewrite ?nr_mulmx, ?nc_mulmx, ?nc_adjmx, ?nr_idmx, ?nc_idmx; try assumption.
      intros k l Hk Hl. rewrite get_mulmx by (rewrite ?nc_adjmx; assumption). rewrite get_idmx by lia.
      rewrite P_ncV. rewrite <- P_nrV in *. change (if Nat.eqb k l then cI else cO) with (delta CF k l).
      rewrite <- (P_co I k l) by lia.
      apply sumn_ext. intros j Hj. rewrite get_adjmx by lia. reflexivity.
    - intros Hpr. apply mx_ext; [apply wf_mulmx|exact HwfA| | |]; rewrite ?nr_mulmx, ?nc_mulmx, ?nr_scalecols; try assumption.
      intros i j Hi Hj. rewrite get_mulmx by (rewrite ?nr_scalecols; assumption).
      rewrite nc_scalecols, P_ncU. rewrite <- (P_prod Hpr) by lia.
      apply sumn_ext. intros c Hc. unfold scalecols. rewrite get_tab by lia. rewrite wt_cof by lia. reflexivity.
  Qed.

  Lemma all_zero_or_not (l : list F) : (forall x, In x l -> x = f0 F) \/ (exists x, In x l /\ x <> f0 F).
  Proof.
    induction l as [|a l IH].
    - left. intros x [].
    - destruct (feqb F a (f0 F)) eqn:E.
      + apply feqb_spec in E. destruct IH as [IH|(x & Hx & Hn)].
        * left. intros x [<-|Hx]; auto.
        * right. exists x. split; [right; exact Hx|exact Hn].
      + right. exists a. split; [left; reflexivity|]. intros E2. apply feqb_spec in E2. congruence.
  Qed.

  Lemma weight_zero (s : list F) m : nth m s (f0 F) = f0 F -> weight s m = f0 F.
  Proof.
    intros H. unfold weight, normsq.
    destruct (lt_dec m (length s)) as [Hm|Hm].
    - rewrite (nth_map_lt _ _ _ (f0 F)) by exact Hm. rewrite H. rewrite (Fdiv_def (f_ft F)). ring.
    - apply nth_overflow. rewrite map_length. lia.
  Qed.

  (* ---- sums of squared singular values inside the complexification ---- *)
  Lemma cof_add a b : kadd CF (emb a) (emb b) = emb (fadd F a b).
  Proof. unfold cof. change (cadd F (a, f0 F) (b, f0 F) = (fadd F a b, f0 F)). unfold cadd. cbn [fst snd]. f_equal. ring. Qed.
  Lemma cof_mul a b : emb a *! emb b = emb (fmul F a b).
  Proof. unfold cof. change (cmul F (a, f0 F) (b, f0 F) = (fmul F a b, f0 F)). unfold cmul. cbn [fst snd]. f_equal; ring. Qed.
  Lemma conj_cof a : cj (emb a) = emb a.
  Proof. unfold cof. change (cconj F (a, f0 F) = (a, f0 F)). unfold cconj. cbn [fst snd]. f_equal. ring. Qed.
  Lemma cof_inj a b : emb a = emb b -> a = b.
  Proof. unfold cof. intros H. inversion H. reflexivity. Qed.

  Definition sqv (S : list F) (c : nat) : F := fmul F (nth c S (f0 F)) (nth c S (f0 F)).

  Lemma suml_disc (S : list F) (g : nat -> bool) (l : list nat) :
    suml l (fun c => cj (if g c then cO else emb (nth c S (f0 F))) *! (if g c then cO else emb (nth c S (f0 F))))
    = emb (fsum (map (sqv S) (filter (fun c => negb (g c)) l))).
  Proof.
    induction l as [|c l IH]; cbn [suml filter map fsum].
    - reflexivity.
    - rewrite IH. destruct (g c); cbn [negb map fsum].
      + rewrite kconj_0. change cO with (emb (f0 F)). rewrite cof_mul, cof_add. f_equal. ring.
      + rewrite conj_cof, cof_mul, cof_add. reflexivity.
  Qed.

  Lemma sqsum_seq (S : list F) : fsum (map (sqv S) (seq 0 (length S))) = sqsum S.
  Proof.
    unfold sqsum. f_equal. rewrite <- (map_nth_seq (f0 F) S) at 3. rewrite map_map. reflexivity.
  Qed.

  Lemma filter_true {X} (l : list X) : filter (fun _ => true) l = l.
  Proof. induction l; simpl; congruence. Qed.

  Lemma sumn_sq (S : list F) :
    sumn (length S) (fun c => cj (emb (nth c S (f0 F))) *! emb (nth c S (f0 F))) = emb (sqsum S).
  Proof.
    rewrite <- suml_seq. etransitivity; [exact (suml_disc S (fun _ => false) (seq 0 (length S)))|].
    cbn [negb]. rewrite filter_true, sqsum_seq. reflexivity.
  Qed.

  (* what the theorem concludes about (u, s, v, q) *)
  Definition C12_concl (A : mx) (q0 q1 : list Z) (S : list F) (K : list nat) (tol : F)
             (res : mx * list F * mx * list Z) : Prop :=
    let '(u, s, v, q) := res in
    s = map (fun i => nth i S (f0 F)) K /\ q <> [] /\
    wf u /\ wf v /\ nr u = nr A /\ nc u = length s /\ nr v = length s /\ nc v = nc A /\ length q = length s /\
    length s <= Nat.min (nr A) (nc A) /\
    mulmx (adjmx u) u = idmx (length s) /\ mulmx v (adjmx v) = idmx (length s) /\
    (forall x, In x s -> flt F (f0 F) x) /\
    qsp CF u q0 q /\ qsp CF v q q1 /\
    (tol = f0 F -> mulmx (scalecols u s) v = A) /\
    (* || A - (u*s) v ||_F^2 = sum of the discarded squared singular values *)
    frob (submx A (mulmx (scalecols u s) v)) (submx A (mulmx (scalecols u s) v)) = emb (fsum (map (sqv S) (discarded S K))).

  Theorem block_svd_spec_gen : forall dsvd pick (A : mx) q0 q1 tol,
    valid_in A q0 q1 = true -> is_zeromx A = false ->
    fle F (f0 F) tol -> flt F tol (f1 F) ->
    Forall (fun B => dsvd_ok B (dsvd B)) (block_svd_calls A q0 q1) ->
    let S := block_svd_spectrum dsvd A q0 q1 in
    pick_ok F (normsq S) (pick (normsq S)) ->
    (forall x, In x S -> fle F (f0 F) x) /\ (exists x, In x S /\ x <> f0 F) /\
    exists res, block_svd dsvd pick A q0 q1 tol = Some res /\ C12_concl A q0 q1 S (retained pick S tol) tol res.
  Proof.
    intros dsvd pick A q0 q1 tol Hv Hnz Htol0 Htol1 Hcalls S Hpick.
    destruct (valid_in_spec CF A q0 q1 Hv) as (HwfA & Hl0 & Hl1 & HspA).
    unfold block_svd. rewrite Hv. cbn [negb].
    subst S. unfold block_svd_spectrum in *. revert Hpick.
    destruct (intersect1d q0 q1) as [|x qs] eqn:Eq; intros Hpick.
    { exfalso. rewrite (is_zeromx_true CF A (disjoint_zero CF A q0 q1 Hl0 Hl1 HspA Eq)) in Hnz. discriminate. }
    remember (x :: qs) as qis eqn:Eqis.
    destruct (sel_choice CF q0 (nr A) Hl0) as (p0 & i0 & Hp0 & Hi0 & Hinv0 & Eq0 & Hz0 & Hrow0 & _ & Hunrow0 & _).
    destruct (sel_choice CF q1 (nc A) Hl1) as (p1 & i1 & Hp1 & Hi1 & Hinv1 & Eq1 & Hz1 & _ & Hcol1 & _ & Huncol1).
    assert (EA : sA (sort_input A q0 q1) = colsel p1 (rowsel p0 A)).
    { unfold sort_input. cbn [sA]. rewrite (Hrow0 A HwfA eq_refl). apply Hcol1; [apply wf_tab|reflexivity]. }
    assert (E0 : sq0 (sort_input A q0 q1) = takez p0 q0) by (unfold sort_input; cbn [sq0]; exact Eq0).
    assert (E1 : sq1 (sort_input A q0 q1) = takez p1 q1) by (unfold sort_input; cbn [sq1]; exact Eq1).
    unfold block_svd_calls, block_calls in Hcalls. rewrite Eq, EA, E0, E1 in Hcalls.
    assert (Hp0' : Permutation p0 (seq 0 (length q0))) by (rewrite Hl0; exact Hp0).
    assert (Hp1' : Permutation p1 (seq 0 (length q1))) by (rewrite Hl1; exact Hp1).
    assert (L0 : length (takez p0 q0) = nr (colsel p1 (rowsel p0 A))) by (eapply lenq0'; eauto).
    assert (L1 : length (takez p1 q1) = nc (colsel p1 (rowsel p0 A))) by (eapply lenq1'; eauto).
    assert (NR : nr (colsel p1 (rowsel p0 A)) = nr A) by (eapply nrA'; eauto).
    assert (NC : nc (colsel p1 (rowsel p0 A)) = nc A) by (eapply ncA'; eauto).
    destruct (loop_ok CF F emb True nonneg dsvd (colsel p1 (rowsel p0 A)) (takez p0 q0) (takez p1 q1)
                L0 L1 Hz0 Hz1 qis) as (st & E & P).
    { rewrite <- Eq. apply intersect1d_sorted. }
    { intros y. rewrite <- Eq. rewrite intersect1d_In, (takez_In p0 q0 y Hp0'), (takez_In p1 q1 y Hp1'). tauto. }
    { eapply qspA'; eauto. }
    { intros y Hy. apply dsvd_fac_ok. rewrite Forall_forall in Hcalls. apply Hcalls. apply in_map. exact Hy. }
    rewrite EA, E0, E1 in *. rewrite E in *.
    set (S := bS st) in *. set (D := bD st) in *.
    assert (HlenS : length S = D) by (apply (p_lenS _ _ _ _ _ _ _ _ _ _ P)).
    (* the spectrum is non-negative and not identically zero *)
    assert (Hnn : forall y, In y S -> fle F (f0 F) y).
    { assert (HPT := p_PT _ _ _ _ _ _ _ _ _ _ P). rewrite Forall_forall in HPT. exact HPT. }
    assert (Pfull : post CF F emb True nonneg A q0 q1 True (mkbst (rowsel i0 (bU st)) (colsel i1 (bV st)) (bS st) (bq st) (bD st)))
      by (apply (lift CF F emb True nonneg A q0 q1 p0 i0 p1 i1); assumption).
    assert (Hne : exists y, In y S /\ y <> f0 F).
    { destruct (all_zero_or_not S) as [Hall|Hex]; [exfalso|exact Hex].
      assert (Hz : forall i j, i < nr A -> j < nc A -> get A i j = cO).
      { intros i j Hi Hj. rewrite <- (p_prod _ _ _ _ _ _ _ _ _ _ Pfull I i j Hi Hj). cbn [bU bV bS bD].
        fold S. fold D.
        apply sumn_zero. intros c Hc. rewrite wt_cof by (rewrite HlenS; exact Hc).
        rewrite (Hall (nth c S (f0 F))) by (apply nth_In; rewrite HlenS; exact Hc).
        change (emb (f0 F)) with cO. ring. }
      rewrite (is_zeromx_true CF A Hz) in Hnz. discriminate. }
    split; [exact Hnn|]. split; [exact Hne|].
    destruct (retained_spec F pick S tol Hnn Hne Htol0 Htol1 Hpick) as (RS1 & RS2 & RS3 & RS4 & RS5 & RS6 & RS7).
    (* the kept indices are a filter of 0..D-1 *)
    assert (HK : exists g, retained pick S tol = filter g (seq 0 D)).
    { unfold retained. destruct (feqb F (sqsum S) (f0 F)).
      - exists (fun _ => false). clear. induction (seq 0 D); simpl; auto.
      - rewrite HlenS. eexists. reflexivity. }
    destruct HK as (g & HK).
    assert (P2 := sel_post CF F emb True nonneg (f0 F) _ _ _ True st g P). fold D in P2. fold S in P2.
    rewrite <- HK in P2.
    set (K := retained pick S tol) in *.
    set (st2 := mkbst (colsel K (bU st)) (rowsel K (bV st)) (map (fun i => nth i S (f0 F)) K) (takez K (bq st)) (length K)) in *.
    assert (P3 : post CF F emb True nonneg A q0 q1 (True /\ forall c, c < D -> g c = false -> wt CF F emb S c = cO)
                   (mkbst (rowsel i0 (bU st2)) (colsel i1 (bV st2)) (bS st2) (bq st2) (bD st2)))
      by (apply (lift CF F emb True nonneg A q0 q1 p0 i0 p1 i1); assumption).
    assert (EU : unperm_rows (sort_input A q0 q1) (colsel K (bU st)) = rowsel i0 (colsel K (bU st))).
    { unfold unperm_rows, sort_input. cbn [sperm0 sidx0]. apply Hunrow0; [apply wf_tab|].
      unfold colsel. rewrite nr_tab. rewrite (p_nrU _ _ _ _ _ _ _ _ _ _ P). exact NR. }
    assert (EV : unperm_cols (sort_input A q0 q1) (rowsel K (bV st)) = colsel i1 (rowsel K (bV st))).
    { unfold unperm_cols, sort_input. cbn [sperm1 sidx1]. apply Huncol1; [apply wf_tab|].
      unfold rowsel. rewrite nc_tab. rewrite (p_ncV _ _ _ _ _ _ _ _ _ _ P). exact NC. }
    rewrite EU, EV. eexists. split; [reflexivity|].
    destruct (post_mul_svd A q0 q1 _ _ HwfA P3) as (HUU & HVV & HUSV).
    destruct P3 as [P_wfU P_wfV P_nrU P_ncU P_nrV P_ncV P_lenS P_lenq P_D P_Usp P_Vsp P_prod P_orth P_co P_PT].
    unfold st2 in *. cbn [bU bV bS bq bD] in *.
    assert (Herr : frob (submx A (mulmx (scalecols (rowsel i0 (colsel K (bU st))) (map (fun i => nth i S (f0 F)) K))
                                        (colsel i1 (rowsel K (bV st)))))
                        (submx A (mulmx (scalecols (rowsel i0 (colsel K (bU st))) (map (fun i => nth i S (f0 F)) K))
                                        (colsel i1 (rowsel K (bV st)))))
                   = emb (fsum (map (sqv S) (discarded S K)))).
    { set (u := rowsel i0 (colsel K (bU st))). set (v := colsel i1 (rowsel K (bV st))).
      set (s := map (fun i => nth i S (f0 F)) K).
      pose (U' := fun i c => get (rowsel i0 (bU st)) i c). pose (V' := fun c j => get (colsel i1 (bV st)) c j).
      pose (w' := fun c => if g c then cO else emb (nth c S (f0 F))).
      assert (Li0 := perm_length _ _ Hi0). assert (Li1 := perm_length _ _ Hi1).
      assert (Klt := K_lt D g). rewrite <- HK in Klt.
      assert (Kg : forall a, a < length K -> g (nth a K 0) = true).
      { intros a Ha. assert (Hin := nth_In K 0 Ha). rewrite HK in Hin. apply filter_In in Hin. destruct Hin as [_ Hg].
        rewrite HK. exact Hg. }
      assert (HnrU : nr (bU st) = nr A) by (rewrite (p_nrU _ _ _ _ _ _ _ _ _ _ P); exact NR).
      assert (HncU : nc (bU st) = D) by (apply (p_ncU _ _ _ _ _ _ _ _ _ _ P)).
      assert (HnrV : nr (bV st) = D) by (apply (p_nrV _ _ _ _ _ _ _ _ _ _ P)).
      assert (HncV : nc (bV st) = nc A) by (rewrite (p_ncV _ _ _ _ _ _ _ _ _ _ P); exact NC).
      assert (Hi0lt : forall i, i < nr A -> nth i i0 0 < nr A) by (intros i Hi; apply (perm_nth_lt _ _ _ Hi0); exact Hi).
      assert (Hi1lt : forall j, j < nc A -> nth j i1 0 < nc A) by (intros j Hj; apply (perm_nth_lt _ _ _ Hi1); exact Hj).
      assert (GU' : forall i c, i < nr A -> c < D -> U' i c = get (bU st) (nth i i0 0) c)
        by (intros i c Hi Hc; unfold U'; apply get_rowsel; lia).
      assert (GV' : forall c j, c < D -> j < nc A -> V' c j = get (bV st) c (nth j i1 0))
        by (intros c j Hc Hj; unfold V'; apply get_colsel; lia).
      assert (Gu : forall i a, i < nr A -> a < length K -> get u i a = get (bU st) (nth i i0 0) (nth a K 0)).
      { intros i a Hi Ha. unfold u. rewrite get_rowsel by (unfold colsel; rewrite ?nc_tab; lia).
        apply get_colsel; [rewrite HnrU; apply Hi0lt; exact Hi|exact Ha]. }
      assert (Gv : forall a j, a < length K -> j < nc A -> get v a j = get (bV st) (nth a K 0) (nth j i1 0)).
      { intros a j Ha Hj. unfold v. rewrite get_colsel by (unfold rowsel; rewrite ?nr_tab; lia).
        apply get_rowsel; [exact Ha|rewrite HncV; apply Hi1lt; exact Hj]. }
      assert (HE : forall i j, i < nr A -> j < nc A ->
                get (submx A (mulmx (scalecols u s) v)) i j = sumn D (fun c => U' i c *! w' c *! V' c j)).
      { intros i j Hi Hj. unfold submx. rewrite get_tab by assumption.
        rewrite <- (p_prod _ _ _ _ _ _ _ _ _ _ Pfull I i j Hi Hj). cbn [bU bV bS bD]. fold S. fold D.
        rewrite get_mulmx by (unfold u, v, scalecols, rowsel, colsel; rewrite ?nr_tab, ?nc_tab; lia).
        replace (nc (scalecols u s)) with (length K) by reflexivity.
        assert (EK : sumn (length K) (fun a => get (scalecols u s) i a *! get v a j)
                     = sumn D (fun c => if g c then U' i c *! wt CF F emb S c *! V' c j else cO)).
        { symmetry. rewrite (sumn_select CF D g) by (intros c Hc Hg; rewrite Hg; reflexivity).
          rewrite <- HK. apply sumn_ext. intros a Ha. cbv beta. rewrite (Kg a Ha).
          rewrite GU', GV' by (try apply Klt; assumption). rewrite wt_cof by (rewrite HlenS; apply Klt; exact Ha).
          unfold scalecols. rewrite get_tab by (unfold u, rowsel, colsel; rewrite ?nr_tab, ?nc_tab; lia).
          rewrite Gu, Gv by assumption. unfold s. rewrite (nth_map_lt _ _ _ 0) by exact Ha. reflexivity. }
        rewrite EK. rewrite <- sumn_sub. apply sumn_ext. intros c Hc. unfold w'.
        rewrite wt_cof by (rewrite HlenS; exact Hc). fold (U' i c). fold (V' c j). destruct (g c); ring. }
      transitivity (sumn D (fun c => cj (w' c) *! w' c)).
      - rewrite <- (frob_usv CF (nr A) (nc A) D U' V' w').
        + unfold frob. replace (nr (submx A (mulmx (scalecols u s) v))) with (nr A) by reflexivity.
          replace (nc (submx A (mulmx (scalecols u s) v))) with (nc A) by reflexivity.
          apply sumn_ext; intros i Hi. apply sumn_ext; intros j Hj. rewrite !HE by assumption. reflexivity.
        + intros k l Hk Hl. apply (p_orth _ _ _ _ _ _ _ _ _ _ Pfull k l Hk Hl).
        + intros k l Hk Hl. apply (p_co _ _ _ _ _ _ _ _ _ _ Pfull I k l Hk Hl).
      - rewrite <- (suml_seq CF D). unfold w'. rewrite suml_disc. f_equal. f_equal. f_equal.
        unfold discarded. rewrite HlenS. apply filter_ext_in. intros c Hc. rewrite HK.
        rewrite existsb_eqb_filter by exact Hc. reflexivity. }
    assert (Hls : length (map (fun i => nth i S (f0 F)) K) = length K) by apply map_length.
    unfold C12_concl. rewrite Hls.
    repeat split; try assumption; try lia.
    - intros Hq. apply RS3. destruct K; [reflexivity|]. unfold takez in Hq. discriminate Hq.
    - (* kept values are positive *)
      intros y Hy. apply in_map_iff in Hy. destruct Hy as (m & <- & Hm).
      apply fle_neq_lt.
      + apply Hnn. apply nth_In. rewrite HlenS. rewrite <- HlenS. apply RS2. exact Hm.
      + intros Hz. symmetry in Hz. assert (Hw := weight_zero S m Hz).
        assert (H6 := RS6 m Hm). rewrite Hw in H6. unfold flt in H6. unfold fle in RS4.
        replace (fadd F (disc_weight S K) (f0 F)) with (disc_weight S K) in H6 by ring. congruence.
    - (* tol = 0 reproduces the matrix *)
      intros Ht. apply HUSV. split; [exact I|]. intros c Hc Hg.
      rewrite wt_cof by (rewrite HlenS; exact Hc).
      assert (Hnot : ~ In c K).
      { rewrite HK. intros Hin. apply filter_In in Hin. destruct Hin as [_ Hin]. congruence. }
      assert (Hc0 : nth c S (f0 F) = f0 F).
      { destruct (feqb F (nth c S (f0 F)) (f0 F)) eqn:Ez; [apply feqb_spec; exact Ez|exfalso].
        apply Hnot. apply (RS7 Ht c); [rewrite HlenS; exact Hc|]. intros E2. apply feqb_spec in E2. congruence. }
      rewrite Hc0. reflexivity.
  Qed.
  Lemma is_zeromx_spec (A : mx) : is_zeromx A = true -> forall i j, i < nr A -> j < nc A -> get A i j = cO.
  Proof.
    unfold is_zeromx. intros H i j Hi Hj. rewrite forallb_forall in H. specialize (H i ltac:(apply in_seq; lia)).
    rewrite forallb_forall in H. apply keqb_spec. apply H. apply in_seq. lia.
  Qed.

  (* zero matrix: the split does not fail and its product is the zero matrix *)
  Theorem block_svd_zero : forall dsvd pick (A : mx) q0 q1 tol,
    valid_in A q0 q1 = true -> is_zeromx A = true ->
    Forall (fun B => dsvd_ok B (dsvd B)) (block_svd_calls A q0 q1) ->
    exists u s v q, block_svd dsvd pick A q0 q1 tol = Some (u, s, v, q) /\
      wf u /\ wf v /\ nr u = nr A /\ nc u = length s /\ nr v = length s /\ nc v = nc A /\
      mulmx (scalecols u s) v = A.
  Proof.
    intros dsvd pick A q0 q1 tol Hv Hzero Hcalls.
    destruct (valid_in_spec CF A q0 q1 Hv) as (HwfA & Hl0 & Hl1 & HspA).
    assert (Hz := is_zeromx_spec A Hzero).
    unfold block_svd. rewrite Hv, Hzero. cbn [negb].
    destruct (intersect1d q0 q1) as [|x qs] eqn:Eq.
    { do 4 eexists. split; [reflexivity|]. repeat split; try apply wf_tab.
      apply mx_ext; [apply wf_mulmx|exact HwfA|reflexivity|reflexivity|].
      intros i j Hi Hj. rewrite nr_mulmx, nr_scalecols in Hi. rewrite nc_mulmx in Hj.
      rewrite get_mulmx by (rewrite ?nr_scalecols; assumption).
      unfold e0col in Hi. rewrite nr_tab in Hi. rewrite nc_zeromx in Hj. rewrite Hz by assumption.
      apply sumn_zero. intros c Hc. rewrite get_zeromx. ring. }
    remember (x :: qs) as qis eqn:Eqis.
    destruct (sel_choice CF q0 (nr A) Hl0) as (p0 & i0 & Hp0 & Hi0 & Hinv0 & Eq0 & Hz0 & Hrow0 & _ & Hunrow0 & _).
    destruct (sel_choice CF q1 (nc A) Hl1) as (p1 & i1 & Hp1 & Hi1 & Hinv1 & Eq1 & Hz1 & _ & Hcol1 & _ & Huncol1).
    assert (EA : sA (sort_input A q0 q1) = colsel p1 (rowsel p0 A)).
    { unfold sort_input. cbn [sA]. rewrite (Hrow0 A HwfA eq_refl). apply Hcol1; [apply wf_tab|reflexivity]. }
    assert (E0 : sq0 (sort_input A q0 q1) = takez p0 q0) by (unfold sort_input; cbn [sq0]; exact Eq0).
    assert (E1 : sq1 (sort_input A q0 q1) = takez p1 q1) by (unfold sort_input; cbn [sq1]; exact Eq1).
    unfold block_svd_calls, block_calls in Hcalls. rewrite Eq, EA, E0, E1 in Hcalls.
    assert (Hp0' : Permutation p0 (seq 0 (length q0))) by (rewrite Hl0; exact Hp0).
    assert (Hp1' : Permutation p1 (seq 0 (length q1))) by (rewrite Hl1; exact Hp1).
    assert (L0 : length (takez p0 q0) = nr (colsel p1 (rowsel p0 A))) by (eapply lenq0'; eauto).
    assert (L1 : length (takez p1 q1) = nc (colsel p1 (rowsel p0 A))) by (eapply lenq1'; eauto).
    assert (NR : nr (colsel p1 (rowsel p0 A)) = nr A) by (eapply nrA'; eauto).
    assert (NC : nc (colsel p1 (rowsel p0 A)) = nc A) by (eapply ncA'; eauto).
    destruct (loop_ok CF F emb True nonneg dsvd (colsel p1 (rowsel p0 A)) (takez p0 q0) (takez p1 q1)
                L0 L1 Hz0 Hz1 qis) as (st & E & P).
    { rewrite <- Eq. apply intersect1d_sorted. }
    { intros y. rewrite <- Eq. rewrite intersect1d_In, (takez_In p0 q0 y Hp0'), (takez_In p1 q1 y Hp1'). tauto. }
    { eapply qspA'; eauto. }
    { intros y Hy. apply dsvd_fac_ok. rewrite Forall_forall in Hcalls. apply Hcalls. apply in_map. exact Hy. }
    rewrite EA, E0, E1. rewrite E.
    assert (Pfull : post CF F emb True nonneg A q0 q1 True (mkbst (rowsel i0 (bU st)) (colsel i1 (bV st)) (bS st) (bq st) (bD st)))
      by (apply (lift CF F emb True nonneg A q0 q1 p0 i0 p1 i1); assumption).
    assert (HlenS : length (bS st) = bD st) by (apply (p_lenS _ _ _ _ _ _ _ _ _ _ P)).
    (* all singular values vanish: || A ||_F^2 = sum sigma^2 *)
    assert (Hsq : sqsum (bS st) = f0 F).
    { apply cof_inj. change (emb (f0 F)) with cO.
      rewrite <- sumn_sq. rewrite HlenS.
      rewrite <- (frob_usv CF (nr A) (nc A) (bD st) (fun i c => get (rowsel i0 (bU st)) i c)
                    (fun c j => get (colsel i1 (bV st)) c j) (fun c => emb (nth c (bS st) (f0 F)))).
      - apply (sumn_zero CF). intros i Hi. apply (sumn_zero CF). intros j Hj.
        assert (E2 : sumn (bD st) (fun c => get (rowsel i0 (bU st)) i c *! emb (nth c (bS st) (f0 F)) *! get (colsel i1 (bV st)) c j) = cO).
        { rewrite <- (Hz i j Hi Hj). rewrite <- (p_prod _ _ _ _ _ _ _ _ _ _ Pfull I i j Hi Hj). cbn [bU bV bS bD].
          apply sumn_ext. intros c Hc. rewrite wt_cof by (rewrite HlenS; exact Hc). reflexivity. }
        rewrite E2. ring.
      - intros k l Hk Hl. apply (p_orth _ _ _ _ _ _ _ _ _ _ Pfull k l Hk Hl).
      - intros k l Hk Hl. apply (p_co _ _ _ _ _ _ _ _ _ _ Pfull I k l Hk Hl). }
    assert (HK : retained pick (bS st) tol = []).
    { unfold retained. rewrite Hsq. replace (feqb F (f0 F) (f0 F)) with true by (symmetry; apply feqb_spec; reflexivity). reflexivity. }
    rewrite HK. cbn [map takez].
    assert (EU : unperm_rows (sort_input A q0 q1) (colsel [] (bU st)) = rowsel i0 (colsel [] (bU st))).
    { unfold unperm_rows, sort_input. cbn [sperm0 sidx0]. apply Hunrow0; [apply wf_tab|].
      unfold colsel. rewrite nr_tab. rewrite (p_nrU _ _ _ _ _ _ _ _ _ _ P). exact NR. }
    assert (EV : unperm_cols (sort_input A q0 q1) (rowsel [] (bV st)) = colsel i1 (rowsel [] (bV st))).
    { unfold unperm_cols, sort_input. cbn [sperm1 sidx1]. apply Huncol1; [apply wf_tab|].
      unfold rowsel. rewrite nc_tab. rewrite (p_ncV _ _ _ _ _ _ _ _ _ _ P). exact NC. }
    rewrite EU, EV. do 4 eexists. split; [reflexivity|].
    assert (Li0 := perm_length _ _ Hi0). assert (Li1 := perm_length _ _ Hi1).
    repeat split; try apply wf_tab; try assumption.
    apply mx_ext; [apply wf_mulmx|exact HwfA|exact Li0|exact Li1|].
    intros i j Hi Hj. rewrite nr_mulmx, nr_scalecols in Hi. rewrite nc_mulmx in Hj.
    rewrite get_mulmx by (rewrite ?nr_scalecols; assumption).
    replace (nc (scalecols (rowsel i0 (colsel [] (bU st))) [])) with 0 by reflexivity.
    cbn [sumn]. symmetry. apply Hz.
    - unfold rowsel in Hi. rewrite nr_tab in Hi. lia.
    - unfold colsel in Hj. rewrite nc_tab in Hj. lia.
  Qed.

  (* boolean form of the contract, for the non-vacuity example *)
  Definition dsvd_okb (B : mx) (r : mx * list F * mx) : bool :=
    let '(U, sv, V) := r in
    let k := Nat.min (nr B) (nc B) in
    wfb B && wfb U && wfb V && Nat.eqb (nr U) (nr B) && Nat.eqb (nc U) k && Nat.eqb (length sv) k && Nat.eqb (nr V) k
    && Nat.eqb (nc V) (nc B) && mxeqb (mulmx (scalecols U sv) V) B && mxeqb (mulmx (adjmx U) U) (idmx k)
    && mxeqb (mulmx V (adjmx V)) (idmx k) && forallb (fun x => fleb F (f0 F) x) sv.

  Lemma dsvd_okb_sound B r : dsvd_okb B r = true -> dsvd_ok B r.
  Proof.
    destruct r as [[U sv] V]. unfold dsvd_okb, dsvd_ok. rewrite !andb_true_iff, !Nat.eqb_eq.
    intros [[[[[[[[[[[HB HU] HV] H1] H2] H3] H4] H5] H6] H7] H8] H9].
    repeat split; try assumption; try (apply wfb_wf; assumption).
    - apply mxeqb_true; [apply wf_mulmx|apply wfb_wf; exact HB|exact H6].
    - apply mxeqb_true; [apply wf_mulmx|apply wf_idmx|exact H7].
    - apply mxeqb_true; [apply wf_mulmx|apply wf_idmx|exact H8].
    - apply Forall_forall. rewrite forallb_forall in H9. exact H9.
  Qed.

  Lemma dsvd_ok_forallb dsvd l : forallb (fun B => dsvd_okb B (dsvd B)) l = true -> Forall (fun B => dsvd_ok B (dsvd B)) l.
  Proof. intros H. rewrite forallb_forall in H. apply Forall_forall. intros B HB. apply dsvd_okb_sound, H, HB. Qed.
  (* the boolean comparison used by the correspondence check means what it says *)
  Lemma flist_eqb_eq (a b : list F) : flist_eqb a b = true -> a = b.
  Proof.
    unfold flist_eqb. rewrite andb_true_iff, Nat.eqb_eq. intros [Hl H]. revert b Hl H.
    induction a as [|x a IH]; intros [|y b] Hl H; simpl in *; try discriminate; auto.
    apply andb_true_iff in H. destruct H as [H1 H2]. apply feqb_spec in H1. f_equal; auto.
  Qed.

  Lemma natlist_eqb_eq (a b : list nat) : natlist_eqb a b = true -> a = b.
  Proof.
    unfold natlist_eqb. rewrite andb_true_iff, Nat.eqb_eq. intros [Hl H]. revert b Hl H.
    induction a as [|x a IH]; intros [|y b] Hl H; simpl in *; try discriminate; auto.
    apply andb_true_iff in H. destruct H as [H1 H2]. apply Nat.eqb_eq in H1. f_equal; auto.
  Qed.

  Lemma block_svd_wf dsvd pick (A : mx) q0 q1 tol u s v q :
    block_svd dsvd pick A q0 q1 tol = Some (u, s, v, q) -> wf u /\ wf v.
  Proof.
    unfold block_svd. destruct (negb (valid_in A q0 q1)); [discriminate|].
    destruct (intersect1d q0 q1) as [|x qs].
    - destruct (negb (is_zeromx A)); [discriminate|]. intros E. inversion E. split; apply wf_tab.
    - destruct (block_loop _ _ _ _ _) as [st|]; [|discriminate]. intros E. inversion E.
      split; [apply unperm_rows_wf; apply wf_tab|apply unperm_cols_wf; apply wf_tab].
  Qed.

  Lemma check_svd_sound tbl sort_idx (A : mx) q0 q1 tol u s v q :
    check_svd tbl sort_idx A q0 q1 tol (Some (u, s, v, q)) = true ->
    block_svd (svd_oracle tbl) (fun _ => sort_idx) A q0 q1 tol = Some (u, s, v, q).
  Proof.
    unfold check_svd. destruct (block_svd (svd_oracle tbl) (fun _ => sort_idx) A q0 q1 tol) as [[[[u' s'] v'] q']|] eqn:E; [|discriminate].
    rewrite !andb_true_iff. intros [[[[[[Hwu Hwv] Hu] Hv] Hs] Hq] _].
    destruct (block_svd_wf _ _ _ _ _ _ _ _ _ _ E) as [Hw1 Hw2].
    apply mxeqb_true in Hu; [|exact Hw1|apply wfb_wf; exact Hwu].
    apply mxeqb_true in Hv; [|exact Hw2|apply wfb_wf; exact Hwv].
    apply flist_eqb_eq in Hs. apply zlist_eqb_eq in Hq. subst. reflexivity.
  Qed.

  Lemma check_retained_sound sort_idx (s : list F) tol K :
    check_retained sort_idx s tol K = true -> retained (fun _ => sort_idx) s tol = K.
  Proof. unfold check_retained. apply natlist_eqb_eq. Qed.
End SVDSpec.
