(* C02, round 4 (2), continued: the weak split contract [split_nz] of Proofs/Hist4Charge.v is a THEOREM about the executable model
   of split_mps_tensor ([split5] = Model/MPSOps.v split_mps_tensor around the mirror of split_matrix_svd) under LAPACK's
   contract on the calls issued, for every tolerance 0 <= tol < 1 and both distributions used by the sweeps:

     C12_split_mps_spec gives, for a non-zero block-sparse tensor: shapes, the isometry of the factor that did not receive the
     singular values, and the error identity  || Am - A0.A1 ||^2 = discarded sigma^2 <= tol * || Am ||^2.  If the product A0.A1
     were zero the left-hand side would be || Am ||^2 > 0, i.e. || Am ||^2 <= tol * || Am ||^2 with tol < 1: impossible.

   So "retained_bond_indices keeps at least one singular value whenever the tensor is not zero" holds for tol < 1, which is
   the hypothesis under which two-site DMRG keeps the total charge (Proofs/Hist4Charge.v). *)
From Coq Require Import ZArith List Bool Lia Arith Ring Field.
From PT Require Import Base.Scalar Base.Field Base.BigSum Base.Mx Model.Tensor Model.MPSOps Model.BondOps Model.BondOpsF5 Model.Operation Model.Krylov Model.Sweeps.
From PT Require Import Model.Orthonormalize Model.SplitMps.
From PT Require Import Proofs.MPSOpsBase Proofs.OperationEntries Proofs.SweepsCanon Proofs.SweepsGauge Proofs.KrylovVec Proofs.LinkFlatten.
From PT Require Import Proofs.BondOpsLoop Proofs.BondOpsRetained Proofs.BondOpsSVD Proofs.OrthDefs Proofs.SplitMpsReshape Proofs.SplitMpsAgree Proofs.SplitMpsSpec.
From PT Require Import Proofs.HistSparse Proofs.HistOps Proofs.Hist2Local Proofs.Hist3Sweep2 Proofs.Hist4Zero Proofs.Hist4Top Proofs.Hist4Charge.
Import ListNotations.
Open Scope nat_scope.

Section SplitNz.
  Variable F : ofield.
  Add Field Ffield_hist4nz : (f_ft F).
  Notation K := (Cx F).
  Add Ring Kring_hist4nz : (k_rt (Cx F)).
  Notation site := (Tensor.site K).

  (* ---------- norms: <X|X> = 0 forces every entry to vanish ---------- *)
  Lemma site_dot_zero_entries d Dl Dr (X : site) : 0 < d -> OperationEntries.site_ok d Dl Dr X -> site_dot X X = k0 K ->
    forall s a c, s < d -> a < Dl -> c < Dr -> get (sel X s) a c = k0 K.
  Proof.
    intros Hd HX E s a c Hs Ha Hc. rewrite (site_dot_via_vec F d Dl Dr Hd X X HX), vdot_self in E.
    change (k0 K) with (@cof F (f0 F)) in E. apply (KrylovVec.cof_inj F) in E. apply nrm2_zero in E.
    rewrite <- (nth_site_vec F d Dl Dr X s a c Hs Ha Hc). rewrite E. apply nth_vzero.
  Qed.

  Lemma site_nrm2_dot d Dl Dr (X : site) : 0 < d -> OperationEntries.site_ok d Dl Dr X -> site_nrm2 X = site_dot X X.
  Proof.
    intros Hd HX. destruct (site_ok_sdl K d Dl Dr X Hd HX) as (E1 & E2 & E3). destruct HX as [Hl Hk].
    unfold site_nrm2, site_dot, frob. apply sumn_ext. intros s Hs. rewrite Hl in Hs. destruct (Hk s Hs) as [r c].
    rewrite r, c, E1, E2. reflexivity.
  Qed.

  Lemma site_dist2_zero d Dl Dr (X Y : site) : OperationEntries.site_ok d Dl Dr X ->
    (forall s a c, s < d -> a < Dl -> c < Dr -> get (sel Y s) a c = k0 K) -> site_dist2 X Y = site_nrm2 X.
  Proof.
    intros [Hl Hk] HY. unfold site_dist2, site_nrm2. apply sumn_ext. intros s Hs. rewrite Hl in Hs. destruct (Hk s Hs) as [r c].
    unfold frob, submx. rewrite nr_tab, nc_tab. apply sumn_ext. intros i Hi. apply sumn_ext. intros j Hj.
    rewrite get_tab by assumption. rewrite HY by (try assumption; lia).
    replace (ksub K (get (sel X s) i j) (k0 K)) with (get (sel X s) i j) by ring. reflexivity.
  Qed.

  Lemma zero_site_dot (X : site) : site_is_zero X = true -> OperationEntries.site_ok (length X) (sdl X) (sdr X) X -> site_dot X X = k0 K.
  Proof.
    intros Hz [_ Hk]. unfold site_is_zero in Hz. rewrite forallb_forall in Hz. unfold site_dot.
    apply sumn_zero. intros s Hs. apply sumn_zero. intros b Hb. apply sumn_zero. intros c Hc.
    destruct (Hk s Hs) as [r cc].
    assert (Hin : In (sel X s) X) by (unfold sel; apply nth_In; exact Hs).
    rewrite (is_zeromx_spec F (sel X s) (Hz _ Hin) b c) by lia. ring.
  Qed.

  (* ---------- the isometry predicates of C01/C12 (OrthDefs) and of C08/C10 (SweepsCanon) ---------- *)
  Lemma liso_left_iso d Dl Dr (A : site) : 0 < d -> OperationEntries.site_ok d Dl Dr A -> liso Dl Dr A -> left_iso A.
  Proof.
    intros Hd HA H c c' Hc Hc'. destruct (site_ok_sdl K d Dl Dr A Hd HA) as (E1 & E2 & E3). rewrite E1, E2 in *.
    specialize (H c' c Hc' Hc). unfold BondOpsLoop.delta in H. rewrite Nat.eqb_sym in H. rewrite <- H.
    apply sumn_ext. intros s _. apply sumn_ext. intros a _. ring.
  Qed.
  Lemma riso_right_iso d Dl Dr (A : site) : 0 < d -> OperationEntries.site_ok d Dl Dr A -> riso Dl Dr A -> right_iso A.
  Proof.
    intros Hd HA H a a' Ha Ha'. destruct (site_ok_sdl K d Dl Dr A Hd HA) as (E1 & E2 & E3). rewrite E1, E2 in *.
    specialize (H a a' Ha Ha'). unfold BondOpsLoop.delta in H. exact H.
  Qed.

  (* split_mps_tensor issues one split_matrix_svd call; for 'left' / 'right' the square-root oracle is not used *)
  Lemma split_mps_tensor_ext (svd1 svd2 : mx K -> list Z -> list Z -> mx K * list K * mx K * list Z) (ks1 ks2 : K -> K)
      (A : site) qd0 qd1 qD0 qD2 distr : distr <= 1 ->
    svd1 (split_matrix (length qd0) (length qd1) A) (MPSOps.qflat qd0 qD0) (MPSOps.qflat (map Z.opp qd1) qD2)
    = svd2 (split_matrix (length qd0) (length qd1) A) (MPSOps.qflat qd0 qD0) (MPSOps.qflat (map Z.opp qd1) qD2) ->
    split_mps_tensor svd1 ks1 A qd0 qd1 qD0 qD2 distr = split_mps_tensor svd2 ks2 A qd0 qd1 qD0 qD2 distr.
  Proof.
    intros Hd E. unfold split_mps_tensor. cbv zeta. rewrite E.
    destruct (svd2 _ _ _) as [[[U sg] V] qb]. destruct distr as [|[|n]]; [reflexivity|reflexivity|lia].
  Qed.

  Variable dsvd : mx K -> mx K * list F * mx K.
  Variable pick : list F -> list nat.
  Variable ksqrt : K -> K.
  Variable tol : F.

  Theorem split5_nz p (Am : site) q0 q1 q2 q3 left : length q1 = length q0 -> 0 < length q0 ->
    svd_lapack_ok F dsvd pick tol (split_matrix (length q0) (length q1) Am) (MPSOps.qflat q0 q2) (MPSOps.qflat (map Z.opp q1) q3) ->
    site_okP K (Sweeps.qflat q0 q1) q2 q3 Am ->
    split_nz (length q0) left Am (split5 F dsvd pick ksqrt tol p Am q0 q1 q2 q3 left).
  Proof.
    intros E1 Hd Hl HA Dl Dr HM Hnz.
    set (d := length q0) in *. set (distr := if left then 0 else 1).
    assert (Hdistr : distr <= 1) by (unfold distr; destruct left; lia).
    assert (Hpos : 0 < length q0 * length q1) by (fold d; rewrite E1; nia).
    assert (Hdd : 0 < d * d) by nia.
    destruct (proj1 (site_okP_b K _ _ _ _) HA) as [Hsh Hsp]. rewrite Sweeps_qflat_length in Hsh.
    pose proof (site_shape_ok K _ _ _ _ Hsh) as HM'. fold d in HM'. rewrite E1 in HM'.
    destruct (site_ok_unique K (d * d) _ _ _ _ Am Hdd HM HM') as [-> ->].
    (* the tensor and its matricisation are not zero *)
    assert (Hz : site_is_zero Am = false).
    { destruct (site_is_zero Am) eqn:Ez; [|reflexivity]. exfalso. apply Hnz. apply zero_site_dot; [exact Ez|].
      destruct (site_ok_sdl K _ _ _ _ Hdd HM) as (G1 & G2 & G3). rewrite G1, G2, G3. exact HM. }
    pose proof (split_input_valid K Am q0 q1 q2 q3 HA Hpos) as Hv.
    destruct (Hl Hv) as (Ht0 & Ht1 & Hc & Hp).
    assert (HzM : is_zeromx (split_matrix (length q0) (length q1) Am) = false).
    { destruct (is_zeromx (split_matrix (length q0) (length q1) Am)) eqn:E; [|reflexivity].
      rewrite (site_zero_of_matrix F (length q0) (length q1) (length q2) (length q3) Am Hsh Hpos E) in Hz. discriminate. }
    (* C12 *)
    destruct (split_mps_spec F dsvd pick (fun x => x) Am q0 q1 q2 q3 [] distr tol Hpos Hsh Hsp Hz Ht0 Ht1 ltac:(lia) Hc (Hp HzM))
      as (A0 & A1 & qb & Efull & Lq & Hk1 & Hkmin & Hpos_sg & S0 & S1 & Q0 & Q1 & Hn & Hdist & Hle & Hex & Hli & Hri & _).
    { intros E2. exfalso. unfold distr in E2. destruct left; discriminate E2. }
    pose proof (full_agrees F dsvd pick (fun x => x) Am q0 q1 q2 q3 [] distr tol (A0, A1, qb) Efull) as Eag.
    assert (Es5 : split5 F dsvd pick ksqrt tol p Am q0 q1 q2 q3 left = (A0, A1, qb)).
    { rewrite Eag. unfold split5. fold distr. apply split_mps_tensor_ext; [exact Hdistr|].
      unfold svd_result5, svd_of_block. rewrite (block_svd5_rows F dsvd pick _ _ _ tol (nonzero_rows F _ HzM)). reflexivity. }
    rewrite Es5. cbn [fst snd]. fold d in S0, S1. rewrite E1 in S1.
    pose proof (site_shape_ok K _ _ _ _ S0) as HA0. pose proof (site_shape_ok K _ _ _ _ S1) as HA1.
    eexists. split; [exact HA0|]. split; [exact HA1|]. split.
    { destruct left.
      - destruct (Hri eq_refl) as [Hr _]. apply (riso_right_iso d _ _ A1 Hd HA1 Hr).
      - destruct (Hli eq_refl) as [Hr _]. apply (liso_left_iso d _ _ A0 Hd HA0 Hr). }
    (* the product of the factors is not zero *)
    intros Ezero.
    assert (HMt : OperationEntries.site_ok (d * d) (length q2) (length q3) (c04_merge_site A0 A1))
      by (apply (OperationTwoSite.merge_site_ok K d d _ _ _ A0 A1 Hd HA0 HA1)).
    pose proof (site_dot_zero_entries (d * d) _ _ _ Hdd HMt Ezero) as Hent.
    pose proof (site_dist2_zero (d * d) _ _ Am (c04_merge_site A0 A1) HM Hent) as Ed.
    change (c04_merge_site A0 A1) with (merge_mps_tensor_pair A0 A1) in Ed. rewrite Hdist, Hn in Ed.
    apply (KrylovVec.cof_inj F) in Ed.
    set (x := sqsum (block_svd_spectrum F dsvd (split_arg_M Am q0 q1) (split_arg_q0 q0 q2) (split_arg_q1 q1 q3))) in *.
    assert (Hx0 : x <> f0 F).
    { intros Ex. apply Hnz. rewrite <- (site_nrm2_dot (d * d) _ _ Am Hdd HM), Hn. fold x. rewrite Ex. reflexivity. }
    assert (Hxpos : flt F (f0 F) x) by (apply fle_neq_lt; [apply sqsum_nonneg|intros E; apply Hx0; symmetry; exact E]).
    rewrite Ed in Hle.
    (* x <= tol * x with 0 < x and tol < 1 *)
    assert (P1 : flt F (f0 F) (fsub F (f1 F) tol)).
    { apply fle_neq_lt.
      - apply (proj1 (fle_sub_nonneg F _ _)). apply flt_le. exact Ht1.
      - intros E. apply (flt_neq F _ _ Ht1). transitivity (fadd F tol (fsub F (f1 F) tol)); [rewrite <- E; ring|ring]. }
    pose proof (fmul_pos F _ _ P1 Hxpos) as P3.
    apply (proj1 (flt_not_le F _ _) P3).
    apply (proj1 (fle_sub_nonneg F _ _)) in Hle.
    eapply fle_eq; [| |apply (fle_opp F _ Hle)]; ring.
  Qed.
End SplitNz.
