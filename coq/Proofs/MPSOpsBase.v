(* C03 — general lemmas: block matrices, products of chains of matrices, tensors picked by words. *)
From Coq Require Import ZArith List Lia Bool Arith Ring.
From PT Require Import Base.Scalar Base.BigSum Base.Mx Model.Tensor Model.MPSOps.
Import ListNotations.

Section Base.
  Variable R : cring.
  Add Ring Rring_c03base : (k_rt R).
  Notation "0" := (k0 R). Notation "1" := (k1 R).
  Infix "+" := (kadd R). Infix "*" := (kmul R).
  Notation mx := (mx R).
  Notation site := (site R). Notation osite := (osite R).

  (* ---------- entries of block matrices ---------- *)
  Lemma get_row_mx (A B : mx) i j : (i < nr A)%nat -> (j < nc A + nc B)%nat ->
    get (row_mx A B) i j = if Nat.ltb j (nc A) then get A i j else get B i (j - nc A).
  Proof. intros. unfold row_mx. apply get_tab; assumption. Qed.
  Lemma get_col_mx (A B : mx) i j : (i < nr A + nr B)%nat -> (j < nc A)%nat ->
    get (col_mx A B) i j = if Nat.ltb i (nr A) then get A i j else get B (i - nr A) j.
  Proof. intros. unfold col_mx. apply get_tab; assumption. Qed.
  Lemma get_diag_mx (A B : mx) i j : (i < nr A + nr B)%nat -> (j < nc A + nc B)%nat ->
    get (diag_mx A B) i j =
      if Nat.ltb i (nr A) then (if Nat.ltb j (nc A) then get A i j else 0)
      else (if Nat.ltb j (nc A) then 0 else get B (i - nr A) (j - nc A)).
  Proof. intros. unfold diag_mx. apply get_tab; assumption. Qed.

  Lemma ltb_t a b : (a < b)%nat -> Nat.ltb a b = true. Proof. apply Nat.ltb_lt. Qed.
  Lemma ltb_f a b : (b <= a)%nat -> Nat.ltb a b = false. Proof. apply Nat.ltb_ge. Qed.

  (* [A | B] . [X ; Y] = A X + B Y *)
  Lemma get_mulmx_row_col (A B X Y : mx) i j : (i < nr A)%nat -> (j < nc X)%nat -> nr X = nc A -> nr Y = nc B ->
    nr B = nr A -> nc Y = nc X ->
    get (mulmx (row_mx A B) (col_mx X Y)) i j = get (mulmx A X) i j + get (mulmx B Y) i j.
  Proof.
    intros Hi Hj HX HY HB HC.
    rewrite get_mulmx by (rewrite ?nr_row_mx, ?nc_col_mx; assumption).
    rewrite nc_row_mx, sumn_app, !get_mulmx by lia.
    f_equal; apply sumn_ext; intros k Hk.
    - rewrite get_row_mx, get_col_mx by lia. rewrite !ltb_t by lia. reflexivity.
    - rewrite get_row_mx, get_col_mx by lia. rewrite !ltb_f by lia.
      replace (nc A + k - nc A)%nat with k by lia. replace (nc A + k - nr X)%nat with k by lia. reflexivity.
  Qed.

  (* diag(A, B) . [X ; Y] = [A X ; B Y] *)
  Lemma get_mulmx_diag_col (A B X Y : mx) i j : (i < nr A + nr B)%nat -> (j < nc X)%nat -> nr X = nc A -> nr Y = nc B ->
    nc Y = nc X ->
    get (mulmx (diag_mx A B) (col_mx X Y)) i j =
      if Nat.ltb i (nr A) then get (mulmx A X) i j else get (mulmx B Y) (i - nr A) j.
  Proof.
    intros Hi Hj HX HY HC.
    rewrite get_mulmx by (rewrite ?nr_diag_mx, ?nc_col_mx; assumption).
    rewrite nc_diag_mx, sumn_app.
    destruct (Nat.ltb i (nr A)) eqn:Ei.
    - apply Nat.ltb_lt in Ei. rewrite get_mulmx by assumption.
      rewrite (sumn_zero R (nc B)).
      + replace (sumn (nc A) (fun k => get A i k * get X k j) ) with
          (sumn (nc A) (fun k => get (diag_mx A B) i k * get (col_mx X Y) k j)); [ring|].
        apply sumn_ext; intros k Hk. rewrite get_diag_mx, get_col_mx by lia. rewrite !ltb_t by lia. reflexivity.
      + intros k Hk. rewrite get_diag_mx by lia. rewrite ltb_t, ltb_f by lia. ring.
    - apply Nat.ltb_ge in Ei. rewrite get_mulmx by lia.
      rewrite (sumn_zero R (nc A)).
      + replace (sumn (nc B) (fun k => get B (i - nr A) k * get Y k j)) with
          (sumn (nc B) (fun k => get (diag_mx A B) i (nc A + k) * get (col_mx X Y) (nc A + k) j)); [ring|].
        apply sumn_ext; intros k Hk. rewrite get_diag_mx, get_col_mx by lia. rewrite !ltb_f by lia.
        replace (nc A + k - nc A)%nat with k by lia. replace (nc A + k - nr X)%nat with k by lia. reflexivity.
      + intros k Hk. rewrite get_diag_mx by lia. rewrite ltb_f, ltb_t by lia. ring.
  Qed.

  Lemma mulmx_diag_col (A B X Y : mx) : nr X = nc A -> nr Y = nc B -> nc X = nc Y ->
    mulmx (diag_mx A B) (col_mx X Y) = col_mx (mulmx A X) (mulmx B Y).
  Proof.
    intros HX HY HC. apply mx_ext; try apply wf_mulmx; try apply wf_col_mx.
    - reflexivity.
    - reflexivity.
    - rewrite nr_mulmx, nc_mulmx, nr_diag_mx, nc_col_mx. intros i j Hi Hj.
      rewrite get_mulmx_diag_col by (try assumption; symmetry; assumption).
      rewrite get_col_mx by (rewrite ?nr_mulmx, ?nc_mulmx; assumption). rewrite nr_mulmx. reflexivity.
  Qed.

  (* ---------- chains of matrices ---------- *)
  Fixpoint mchain (Ds : list nat) (Ms : list mx) {struct Ms} : Prop :=
    match Ms, Ds with
    | [], [_] => True
    | M :: Ms', Dl :: ((Dr :: _) as Ds') => wf M /\ nr M = Dl /\ nc M = Dr /\ mchain Ds' Ms'
    | _, _ => False
    end.

  Lemma wf_mprod n (Ms : list mx) : wf (mprod n Ms).
  Proof. destruct Ms; simpl; [apply wf_idmx | apply wf_mulmx]. Qed.
  Lemma nr_mprod n (M : mx) Ms : nr (mprod n (M :: Ms)) = nr M. Proof. reflexivity. Qed.
  Lemma mprod_irrel n n' (M : mx) Ms : mprod n (M :: Ms) = mprod n' (M :: Ms). Proof. reflexivity. Qed.

  Lemma nc_mprod Ds (Ms : list mx) : mchain Ds Ms -> nc (mprod (hd 0%nat Ds) Ms) = last Ds 0%nat.
  Proof.
    revert Ds; induction Ms as [|M Ms IH]; intros Ds H.
    - destruct Ds as [|D [|? ?]]; simpl in H; try contradiction. reflexivity.
    - destruct Ds as [|Dl [|Dr Ds]]; simpl in H; try contradiction.
      destruct H as (_ & _ & Hc & H). simpl mprod. rewrite nc_mulmx, Hc.
      change Dr with (hd 0%nat (Dr :: Ds)). rewrite (IH _ H). reflexivity.
  Qed.
  Lemma nc_mprod' n Ds (M : mx) Ms : mchain Ds (M :: Ms) -> nc (mprod n (M :: Ms)) = last Ds 0%nat.
  Proof. intros H. rewrite (mprod_irrel n (hd 0%nat Ds)). apply nc_mprod. exact H. Qed.

  Lemma mchain_length Ds (Ms : list mx) : mchain Ds Ms -> length Ds = S (length Ms).
  Proof.
    revert Ds; induction Ms as [|M Ms IH]; intros Ds H.
    - destruct Ds as [|D [|? ?]]; simpl in H; try contradiction. reflexivity.
    - destruct Ds as [|Dl [|Dr Ds]]; simpl in H; try contradiction.
      destruct H as (_ & _ & _ & H). apply IH in H. simpl in *. lia.
  Qed.

  (* a single well-formed matrix *)
  Lemma mprod_single n (M : mx) : wf M -> mprod n [M] = M.
  Proof. intros H. simpl. apply mulmx_1_r. exact H. Qed.

  (* ---------- tensors and words ---------- *)
  Definition word_ok (d L : nat) (w : list nat) : Prop := length w = L /\ Forall (fun s => (s < d)%nat) w.

  Lemma sel_stab d (f : nat -> mx) s : (s < d)%nat -> sel (stab d f) s = f s.
  Proof. intros H. unfold sel, stab. apply nth_map_seq. exact H. Qed.
  Lemma length_stab d (f : nat -> mx) : length (stab d f) = d.
  Proof. unfold stab. rewrite map_length, seq_length. reflexivity. Qed.
  Lemma osel_otab d (f : nat -> nat -> mx) s t : (s < d)%nat -> (t < d)%nat -> osel (otab d f) s t = f s t.
  Proof.
    intros Hs Ht. unfold osel, otab. rewrite (nth_map_seq []) by exact Hs. apply nth_map_seq. exact Ht.
  Qed.
  Lemma length_otab d (f : nat -> nat -> mx) : length (otab d f) = d.
  Proof. unfold otab. rewrite map_length, seq_length. reflexivity. Qed.

  Lemma sel_site_zip f (A B : site) s : (s < length A)%nat -> sel (site_zip f A B) s = f (sel A s) (sel B s).
  Proof. intros H. unfold site_zip. apply sel_stab. exact H. Qed.
  Lemma osel_osite_zip f (W V : osite) s t : (s < length W)%nat -> (t < length W)%nat ->
    osel (osite_zip f W V) s t = f (osel W s t) (osel V s t).
  Proof. intros Hs Ht. unfold osite_zip. apply osel_otab; assumption. Qed.

  Lemma site_shape_length d Dl Dr (A : site) : site_shape d Dl Dr A = true -> length A = d.
  Proof. unfold site_shape. rewrite andb_true_iff, Nat.eqb_eq. tauto. Qed.
  Lemma site_shape_sel d Dl Dr (A : site) s : site_shape d Dl Dr A = true -> (s < d)%nat ->
    wf (sel A s) /\ nr (sel A s) = Dl /\ nc (sel A s) = Dr.
  Proof.
    unfold site_shape. rewrite andb_true_iff, Nat.eqb_eq, forallb_forall. intros [Hl H] Hs.
    assert (Hin : In (sel A s) A) by (apply nth_In; lia).
    specialize (H _ Hin). rewrite !andb_true_iff, !Nat.eqb_eq in H. destruct H as [[Hw Hr] Hc].
    split; [apply wfb_wf; exact Hw | split; assumption].
  Qed.
  Lemma osite_shape_length d Dl Dr (W : osite) : osite_shape d Dl Dr W = true -> length W = d.
  Proof. unfold osite_shape. rewrite andb_true_iff, Nat.eqb_eq. tauto. Qed.
  Lemma osite_shape_osel d Dl Dr (W : osite) s t : osite_shape d Dl Dr W = true -> (s < d)%nat -> (t < d)%nat ->
    wf (osel W s t) /\ nr (osel W s t) = Dl /\ nc (osel W s t) = Dr.
  Proof.
    unfold osite_shape. rewrite andb_true_iff, Nat.eqb_eq, forallb_forall. intros [Hl H] Hs Ht.
    assert (Hin : In (nth s W []) W) by (apply nth_In; lia).
    specialize (H _ Hin). unfold osel. apply (site_shape_sel d Dl Dr (nth s W []) t H Ht).
  Qed.

  Lemma chain_shape_cons d Dl Dr Ds (A : site) As :
    chain_shape d (Dl :: Dr :: Ds) (A :: As) = site_shape d Dl Dr A && chain_shape d (Dr :: Ds) As.
  Proof. reflexivity. Qed.
  Lemma ochain_shape_cons d Dl Dr Ds (W : osite) Ws :
    ochain_shape d (Dl :: Dr :: Ds) (W :: Ws) = osite_shape d Dl Dr W && ochain_shape d (Dr :: Ds) Ws.
  Proof. reflexivity. Qed.

  Lemma chain_shape_length d Ds (As : list site) : chain_shape d Ds As = true -> length Ds = S (length As).
  Proof.
    revert Ds; induction As as [|A As IH]; intros Ds H.
    - destruct Ds as [|D [|? ?]]; simpl in H; try discriminate. reflexivity.
    - destruct Ds as [|Dl [|Dr Ds]]; [discriminate H | discriminate H |].
      rewrite ?chain_shape_cons, ?ochain_shape_cons in H. apply andb_true_iff in H. destruct H as [_ H]. apply IH in H. simpl in *. lia.
  Qed.
  Lemma ochain_shape_length d Ds (Ws : list osite) : ochain_shape d Ds Ws = true -> length Ds = S (length Ws).
  Proof.
    revert Ds; induction Ws as [|A As IH]; intros Ds H.
    - destruct Ds as [|D [|? ?]]; simpl in H; try discriminate. reflexivity.
    - destruct Ds as [|Dl [|Dr Ds]]; [discriminate H | discriminate H |].
      rewrite ?chain_shape_cons, ?ochain_shape_cons in H. apply andb_true_iff in H. destruct H as [_ H]. apply IH in H. simpl in *. lia.
  Qed.

  Lemma chain_shape_sites d Ds (As : list site) : chain_shape d Ds As = true -> Forall (fun A => length A = d) As.
  Proof.
    revert Ds; induction As as [|A As IH]; intros Ds H; [constructor|].
    destruct Ds as [|Dl [|Dr Ds]]; [discriminate H | discriminate H |].
    rewrite ?chain_shape_cons, ?ochain_shape_cons in H. apply andb_true_iff in H. destruct H as [H1 H]. constructor; [eapply site_shape_length; eauto | eapply IH; eauto].
  Qed.
  Lemma ochain_shape_sites d Ds (Ws : list osite) : ochain_shape d Ds Ws = true -> Forall (fun W => length W = d) Ws.
  Proof.
    revert Ds; induction Ws as [|A As IH]; intros Ds H; [constructor|].
    destruct Ds as [|Dl [|Dr Ds]]; [discriminate H | discriminate H |].
    rewrite ?chain_shape_cons, ?ochain_shape_cons in H. apply andb_true_iff in H. destruct H as [H1 H]. constructor; [eapply osite_shape_length; eauto | eapply IH; eauto].
  Qed.

  Lemma length_pick (As : list site) w : length w = length As -> length (pick As w) = length As.
  Proof.
    revert w; induction As as [|A As IH]; intros [|s w] H; simpl in *; try discriminate; auto.
  Qed.
  Lemma length_opick (Ws : list osite) w w' : length w = length Ws -> length w' = length Ws ->
    length (opick Ws w w') = length Ws.
  Proof.
    revert w w'; induction Ws as [|A As IH]; intros [|s w] [|t w'] H H'; simpl in *; try discriminate; auto.
  Qed.

  Lemma mchain_pick d Ds (As : list site) w : chain_shape d Ds As = true -> word_ok d (length As) w ->
    mchain Ds (pick As w).
  Proof.
    revert Ds w; induction As as [|A As IH]; intros Ds w H [Hl Hw].
    - destruct w; simpl in Hl; try discriminate.
      destruct Ds as [|D [|? ?]]; simpl in H; try discriminate. exact I.
    - destruct w as [|s w]; simpl in Hl; try discriminate.
      destruct Ds as [|Dl [|Dr Ds]]; [discriminate H | discriminate H |].
      rewrite ?chain_shape_cons, ?ochain_shape_cons in H. apply andb_true_iff in H. destruct H as [H1 H]. inversion Hw as [|? ? Hs Hw']; subst.
      destruct (site_shape_sel _ _ _ _ _ H1 Hs) as (Ha & Hb & Hc).
      simpl. repeat split; auto. apply IH; [exact H|]. split; [lia|exact Hw'].
  Qed.
  Lemma mchain_opick d Ds (Ws : list osite) w w' : ochain_shape d Ds Ws = true ->
    word_ok d (length Ws) w -> word_ok d (length Ws) w' -> mchain Ds (opick Ws w w').
  Proof.
    revert Ds w w'; induction Ws as [|A As IH]; intros Ds w w' H [Hl Hw] [Hl' Hw'].
    - destruct w, w'; simpl in Hl, Hl'; try discriminate.
      destruct Ds as [|D [|? ?]]; simpl in H; try discriminate. exact I.
    - destruct w as [|s w]; simpl in Hl; try discriminate.
      destruct w' as [|t w']; simpl in Hl'; try discriminate.
      destruct Ds as [|Dl [|Dr Ds]]; [discriminate H | discriminate H |].
      rewrite ?chain_shape_cons, ?ochain_shape_cons in H. apply andb_true_iff in H. destruct H as [H1 H].
      inversion Hw as [|? ? Hs Hw2]; subst. inversion Hw' as [|? ? Ht Hw2']; subst.
      destruct (osite_shape_osel _ _ _ _ _ _ H1 Hs Ht) as (Ha & Hb & Hc).
      simpl. repeat split; auto. apply IH; [exact H| |]; (split; [lia|assumption]).
  Qed.

  (* boundary bonds of dimension 1 *)
  Definition bdim1 (Ds : list nat) : bool := Nat.eqb (hd 0%nat Ds) 1 && Nat.eqb (last Ds 0%nat) 1.
  Lemma bdim1_spec Ds : bdim1 Ds = true -> hd 0%nat Ds = 1%nat /\ last Ds 0%nat = 1%nat.
  Proof. unfold bdim1. rewrite andb_true_iff, !Nat.eqb_eq. tauto. Qed.
End Base.

Arguments mchain {R} Ds Ms.
